(* C17: every accepted progressive script follows the successive-approximation chains:
   per (component, coefficient) the (Ah, Al) sequence is (0,a0), (a0,a0-1), ...; every AC scan
   of a component comes after a DC scan of it; every component's DC is sent. *)
From Coq Require Import List ZArith Bool Lia ZifyBool.
From LJT Require Import model.Huff gen.GenParams model.CParams proofs.CParamsHoare proofs.CParamsScript.
Import ListNotations.
Local Open Scope Z_scope.

(* ----------------------------------------------------------- list updates *)
Lemma upd_length {A} (i : nat) (x : A) l : length (upd i x l) = length l.
Proof. revert i; induction l as [|h t IH]; intros [|i]; cbn; auto. Qed.
Lemma nth_upd_same {A} (i : nat) (x d : A) l : (i < length l)%nat -> nth i (upd i x l) d = x.
Proof. revert i; induction l as [|h t IH]; intros [|i] H; cbn in *; try lia; auto. apply IH. lia. Qed.
Lemma nth_upd_other {A} (i j : nat) (x d : A) l : i <> j -> nth j (upd i x l) d = nth j l d.
Proof. revert i j; induction l as [|h t IH]; intros [|i] [|j] H; cbn; auto; try lia. Qed.
Lemma nth_repeat_in {A} (a d : A) m i : (i < m)%nat -> nth i (repeat a m) d = a.
Proof. revert i; induction m as [|m IH]; intros [|i] H; cbn; try lia; auto. apply IH. lia. Qed.

Definition shape (nc : Z) (lb : list (list Z)) : Prop :=
  length lb = Z.to_nat nc /\ Forall (fun r => length r = Z.to_nat g_DCTSIZE2) lb.

Lemma shape_set nc lb c k x : shape nc lb -> shape nc (lb_set lb c k x).
Proof.
  intros [Hl Hr]. unfold lb_set, shape. rewrite upd_length. split; [exact Hl|].
  rewrite Forall_forall in *. intros r Hin.
  apply In_nth with (d := []) in Hin. destruct Hin as [n [Hn Hnth]]. rewrite upd_length in Hn.
  destruct (Nat.eq_dec (Z.to_nat c) n) as [E|E].
  - subst n. rewrite nth_upd_same in Hnth by exact Hn. subst r. unfold setZ. rewrite upd_length.
    apply Hr. apply nth_In. exact Hn.
  - rewrite nth_upd_other in Hnth by exact E. subst r. apply Hr. apply nth_In. exact Hn.
Qed.

Lemma lb_get_set nc lb c k x c' k' :
  shape nc lb -> 0 <= c < nc -> 0 <= k < g_DCTSIZE2 -> 0 <= c' -> 0 <= k' ->
  lb_get (lb_set lb c k x) c' k' = if (c =? c') && (k =? k') then x else lb_get lb c' k'.
Proof.
  intros [Hl Hr] Hc Hk Hc' Hk'. unfold lb_get, lb_set, getZ, setZ.
  destruct (Z.eq_dec c c') as [->|Hne].
  - rewrite Z.eqb_refl. cbn [andb]. rewrite nth_upd_same by lia.
    destruct (Z.eq_dec k k') as [->|Hk2].
    + rewrite Z.eqb_refl. rewrite nth_upd_same; [reflexivity|].
      rewrite Forall_forall in Hr. rewrite (Hr (nth (Z.to_nat c') lb [])); [lia|]. apply nth_In. lia.
    + replace (k =? k') with false by lia. apply nth_upd_other. lia.
  - replace (c =? c') with false by lia. cbn [andb]. rewrite nth_upd_other by lia. reflexivity.
Qed.

(* ---------------------------------------------------------------- histories *)
Definition in_scan (s : scan) (c : Z) : bool :=
  existsb (fun ci => getZ (s_comps s) (Z.of_nat ci) =? c) (seq 0 (Z.to_nat (s_ncomps s))).
Definition covers (s : scan) (c k : Z) : bool := in_scan s c && (s_Ss s <=? k) && (k <=? s_Se s).
(* the (Ah, Al) of the scans that transmit coefficient k of component c, in script order *)
Definition hist (scans : list scan) (c k : Z) : list (Z * Z) :=
  map (fun s => (s_Ah s, s_Al s)) (filter (fun s => covers s c k) scans).

(* the test the C performs against v = last_bitpos[c][k] (-1 = not seen yet) *)
Definition step_ok (v ah al : Z) : Prop := (v < 0 -> ah = 0) /\ (0 <= v -> ah = v /\ al = ah - 1).
(* successive-approximation chain starting from bit position v *)
Fixpoint sa_chain (v : Z) (l : list (Z * Z)) : Prop :=
  match l with [] => True | (ah, al) :: r => step_ok v ah al /\ 0 <= al /\ sa_chain al r end.
Fixpoint final_al (v : Z) (l : list (Z * Z)) : Z := match l with [] => v | (_, al) :: r => final_al al r end.

(* forward reading of "DC before AC": at each AC scan every component of it was in an earlier DC scan *)
Fixpoint dc_before_ac (seen : Z -> bool) (scans : list scan) : Prop :=
  match scans with
  | [] => True
  | s :: r => (s_Ss s <> 0 -> forall c, in_scan s c = true -> seen c = true) /\
              dc_before_ac (fun c => seen c || (in_scan s c && (s_Ss s =? 0))) r
  end.

Lemma in_scan_iff s c :
  in_scan s c = true <-> exists ci, 0 <= ci < s_ncomps s /\ getZ (s_comps s) ci = c.
Proof.
  unfold in_scan. rewrite existsb_exists. split.
  - intros [n [Hin Hn]]. apply in_seq in Hin. exists (Z.of_nat n). split; lia.
  - intros [ci [Hci Hc]]. exists (Z.to_nat ci). split; [apply in_seq; lia|].
    rewrite Z2Nat.id by lia. lia.
Qed.

Lemma comps_increasing nc s : comps_wf nc s ->
  forall a b, 0 <= a -> a < b -> b < s_ncomps s -> getZ (s_comps s) a < getZ (s_comps s) b.
Proof.
  intros [_ H] a b Ha Hab Hb.
  assert (G : forall n : nat, a + 1 + Z.of_nat n < s_ncomps s -> getZ (s_comps s) a < getZ (s_comps s) (a + 1 + Z.of_nat n)).
  { induction n as [|n IH]; intro Hn.
    - replace (a + 1 + Z.of_nat 0) with (a + 1) by lia.
      destruct (H (a + 1)) as [_ Hx]; [lia|]. replace (a + 1 - 1) with a in Hx by lia. apply Hx. lia.
    - destruct (H (a + 1 + Z.of_nat (S n))) as [_ Hx]; [lia|].
      replace (a + 1 + Z.of_nat (S n) - 1) with (a + 1 + Z.of_nat n) in Hx by lia.
      specialize (IH ltac:(lia)). specialize (Hx ltac:(lia)). lia. }
  specialize (G (Z.to_nat (b - a - 1))). replace (a + 1 + Z.of_nat (Z.to_nat (b - a - 1))) with b in G by lia.
  apply G. lia.
Qed.

(* ------------------------------------------------------- the coefficient loop *)
Definition lbrel (nc : Z) (lb0 lb' : list (list Z)) (P : Z -> Z -> Prop) (ah al : Z) : Prop :=
  shape nc lb' /\
  forall c k, 0 <= c < nc -> 0 <= k < g_DCTSIZE2 ->
    (P c k -> step_ok (lb_get lb0 c k) ah al /\ lb_get lb' c k = al) /\
    (~ P c k -> lb_get lb' c k = lb_get lb0 c k).

Lemma prog_coef_loop_fun nc s c lbJ :
  shape nc lbJ -> 0 <= c < nc -> nc <= g_MAX_COMPONENTS -> 0 <= s_Ss s -> s_Se s <= g_DCTSIZE2 - 1 -> s_Ss s <= s_Se s ->
  sat (prog_coef_loop s c lbJ)
      (fun lb' => lbrel nc lbJ lb' (fun c' k => c' = c /\ s_Ss s <= k <= s_Se s) (s_Ah s) (s_Al s)).
Proof.
  intros Hsh Hc Hnc Hs He Hse. unfold prog_coef_loop.
  eapply sat_weaken.
  - apply (sat_for _ (s_Ss s) _ lbJ
      (fun m lb' => lbrel nc lbJ lb' (fun c' k => c' = c /\ s_Ss s <= k < m) (s_Ah s) (s_Al s))).
    + split; [exact Hsh|]. intros c' k Hc' Hk. split; [lia|reflexivity].
    + intros m lb' Hm [Hsh' Inv].
      eapply sat_seq with (P := True). { apply sat_touch; [consts; lia|exact I]. }
      intros _.
      assert (Hcur : lb_get lb' c m = lb_get lbJ c m).
      { destruct (Inv c m Hc ltac:(consts; lia)) as [_ Hn]. apply Hn. lia. }
      eapply sat_seq with (P := step_ok (lb_get lbJ c m) (s_Ah s) (s_Al s)).
      { rewrite Hcur. destruct (lb_get lbJ c m <? 0) eqn:El; apply sat_guard; intro Hg; unfold step_ok; lia. }
      intro Hstep. apply sat_ret. split; [apply shape_set; exact Hsh'|].
      intros c' k Hc' Hk.
      rewrite (lb_get_set nc) by (try assumption; consts; lia).
      destruct (Inv c' k Hc' Hk) as [Hy Hn].
      destruct (Z.eq_dec c c') as [->|Hne]; [destruct (Z.eq_dec m k) as [->|Hmk]|].
      * rewrite !Z.eqb_refl. cbn [andb]. split; [intros _; split; [exact Hstep|reflexivity]|intro Hx; exfalso; apply Hx; lia].
      * replace (m =? k) with false by lia. rewrite andb_false_r. split.
        -- intros [_ Hr]. apply Hy. split; [reflexivity|lia].
        -- intro Hx. apply Hn. intros [_ Hr]. apply Hx. split; [reflexivity|lia].
      * replace (c =? c') with false by lia. cbn [andb]. split.
        -- intros [E _]. congruence.
        -- intros _. apply Hn. intros [E _]. congruence.
  - intros lb' [Hsh' Inv]. split; [exact Hsh'|]. intros c' k Hc' Hk.
    destruct (Inv c' k Hc' Hk) as [Hy Hn]. split.
    + intros [E Hr]. apply Hy. split; [exact E|lia].
    + intros Hx. apply Hn. intros [E Hr]. apply Hx. split; [exact E|lia].
Qed.

(* one progressive scan: the relation between last_bitpos before and after *)
Lemma prog_scan_fun nc prec s lb :
  nc <= g_MAX_COMPONENTS -> comps_wf nc s -> shape nc lb ->
  sat (prog_scan prec s lb)
      (fun lb' => 0 <= s_Al s /\ 0 <= s_Ss s <= s_Se s /\
                  lbrel nc lb lb' (fun c k => covers s c k = true) (s_Ah s) (s_Al s) /\
                  (s_Ss s <> 0 -> forall c, in_scan s c = true -> 0 <= lb_get lb c 0)).
Proof.
  intros Hnc Hwf Hsh. pose proof Hwf as [Hn Hcomp]. unfold prog_scan. cbv zeta.
  eapply sat_seq. { apply sat_guard. intro Hg. exact Hg. }
  intro Hg.
  eapply sat_seq with (P := (s_Ss s = 0 -> s_Se s = 0) /\ (s_Ss s <> 0 -> s_ncomps s = 1)).
  { apply sat_if; intro Hs; apply sat_guard; intro Hg2; lia. }
  intros [Hdc Hac].
  assert (HSs : 0 <= s_Ss s) by lia. assert (HSe : s_Se s <= g_DCTSIZE2 - 1) by lia.
  assert (HSS : s_Ss s <= s_Se s) by lia. assert (HAl : 0 <= s_Al s) by lia.
  set (upto := fun j c => exists ci, 0 <= ci < j /\ getZ (s_comps s) ci = c).
  eapply sat_weaken.
  - apply (sat_for _ 0 _ lb
      (fun j lb' => lbrel nc lb lb' (fun c k => upto j c /\ s_Ss s <= k <= s_Se s) (s_Ah s) (s_Al s) /\
                    (s_Ss s <> 0 -> forall ci, 0 <= ci < j -> 0 <= lb_get lb (getZ (s_comps s) ci) 0))).
    + split; [|intros; lia]. split; [exact Hsh|]. intros c k Hc Hk. split; [|reflexivity].
      intros [[ci [Hci _]] _]. lia.
    + intros j lbj Hj [[Hshj Inv] Hseen].
      eapply sat_seq with (P := True). { apply sat_touch; [consts; lia|exact I]. }
      intros _.
      set (cj := getZ (s_comps s) j).
      assert (Hcj : 0 <= cj < nc) by (apply Hcomp; lia).
      assert (Hfresh : forall k, 0 <= k < g_DCTSIZE2 -> lb_get lbj cj k = lb_get lb cj k).
      { intros k Hk. destruct (Inv cj k Hcj Hk) as [_ Hnn]. apply Hnn. intros [[ci [Hci Hce]] _].
        pose proof (comps_increasing nc s Hwf ci j ltac:(lia) ltac:(lia) ltac:(lia)). fold cj in H. lia. }
      eapply sat_seq with (P := s_Ss s <> 0 -> 0 <= lb_get lb cj 0).
      { apply sat_if; intro Hss.
        - eapply sat_seq with (P := True). { apply sat_touch; [consts; lia|exact I]. }
          intros _. apply sat_guard. intros Hgg _. rewrite <- Hfresh by (consts; lia). fold cj in Hgg. lia.
        - apply sat_ret. intro Hx. lia. }
      intro Hdcseen.
      eapply sat_weaken. { apply (prog_coef_loop_fun nc s cj lbj); assumption. }
      intros lb' [Hsh' Rel]. split.
      * split; [exact Hsh'|]. intros c k Hc Hk.
        destruct (Inv c k Hc Hk) as [Hy Hnn]. destruct (Rel c k Hc Hk) as [Ry Rn].
        destruct (Z.eq_dec c cj) as [->|Hne].
        -- destruct (Z_le_dec (s_Ss s) k) as [Hk1|Hk1]; [destruct (Z_le_dec k (s_Se s)) as [Hk2|Hk2]|].
           ++ destruct (Ry ltac:(split; [reflexivity|lia])) as [St Eq]. rewrite Hfresh in St by exact Hk.
              split; [intros _; split; assumption|]. intro Hx. exfalso. apply Hx. split; [|lia]. exists j. split; [lia|reflexivity].
           ++ split; [intros [_ ?]; lia|]. intros _. rewrite Rn by lia. apply Hfresh. exact Hk.
           ++ split; [intros [_ ?]; lia|]. intros _. rewrite Rn by lia. apply Hfresh. exact Hk.
        -- rewrite Rn by (intros [E _]; congruence). split.
           ++ intros [[ci [Hci Hce]] Hr]. apply Hy. split; [|exact Hr]. exists ci. split; [|exact Hce].
              destruct (Z.eq_dec ci j) as [->|]; [fold cj in Hce; congruence|lia].
           ++ intros Hx. apply Hnn. intros [[ci [Hci Hce]] Hr]. apply Hx. split; [|exact Hr]. exists ci. split; [lia|exact Hce].
      * intros Hss ci Hci. destruct (Z.eq_dec ci j) as [->|]; [apply Hdcseen; exact Hss|apply Hseen; [exact Hss|lia]].
  - intros lb' [[Hsh' Inv] Hseen].
    replace (0 + Z.of_nat (Z.to_nat (s_ncomps s))) with (s_ncomps s) in Inv, Hseen by lia.
    split; [exact HAl|]. split; [lia|]. split.
    + split; [exact Hsh'|]. intros c k Hc Hk. destruct (Inv c k Hc Hk) as [Hy Hnn]. split.
      * intro Hcov. unfold covers in Hcov. apply Hy. split; [|lia].
        unfold upto. apply in_scan_iff. destruct (in_scan s c); [reflexivity|cbn in Hcov; discriminate].
      * intro Hncov. apply Hnn. intros [Hu Hr]. apply Hncov. unfold covers.
        replace (in_scan s c) with true by (symmetry; apply in_scan_iff; exact Hu). lia.
    + intros Hss c Hin. apply in_scan_iff in Hin. destruct Hin as [ci [Hci <-]]. apply Hseen; [exact Hss|lia].
Qed.

(* one scan of the loop in progressive mode *)
Lemma one_scan_prog nc prec s vs :
  nc <= g_MAX_COMPONENTS -> shape nc (v_lb vs) ->
  sat (one_scan Progressive nc prec s vs)
      (fun vs1 => comps_wf nc s /\ 0 <= s_Al s /\ 0 <= s_Ss s <= s_Se s /\
                  lbrel nc (v_lb vs) (v_lb vs1) (fun c k => covers s c k = true) (s_Ah s) (s_Al s) /\
                  (s_Ss s <> 0 -> forall c, in_scan s c = true -> 0 <= lb_get (v_lb vs) c 0)).
Proof.
  intros Hnc Hsh. unfold one_scan.
  eapply sat_seq. { apply sat_guard. intro Hg. exact Hg. }
  intro Hg.
  eapply sat_seq. { apply check_comp_indexes_sat. consts. lia. }
  intro Hwf.
  eapply sat_bind. { apply (prog_scan_fun nc prec s (v_lb vs)); assumption. }
  intros lb1 H1. apply sat_ret. cbn [v_lb]. split; assumption.
Qed.

(* ------------------------------------------------------------ the scan loop *)
Lemma scan_loop_chain nc prec scans lb vs :
  nc <= g_MAX_COMPONENTS -> shape nc lb -> v_lb vs = lb ->
  sat (scan_loop Progressive nc prec scans vs)
      (fun vs' => shape nc (v_lb vs') /\
         (forall c k, 0 <= c < nc -> 0 <= k < g_DCTSIZE2 ->
            sa_chain (lb_get lb c k) (hist scans c k) /\
            lb_get (v_lb vs') c k = final_al (lb_get lb c k) (hist scans c k)) /\
         dc_before_ac (fun c => (0 <=? c) && (c <? nc) && (0 <=? lb_get lb c 0)) scans /\
         Forall (comps_wf nc) scans).
Proof.
  intros Hnc. revert lb vs. induction scans as [|s r IH]; intros lb vs Hsh Hvs; cbn [scan_loop].
  - apply sat_ret. rewrite Hvs. split; [exact Hsh|]. split; [|split; [exact I|constructor]].
    intros c k _ _. cbn. auto.
  - eapply sat_bind. { apply (one_scan_prog nc prec s vs); [exact Hnc|rewrite Hvs; exact Hsh]. }
    intros vs1 [Hwf H1].
    destruct H1 as [HAl [HSs [[Hsh1 Rel] Hseen]]]. rewrite Hvs in Rel, Hseen.
    eapply sat_weaken. { apply (IH (v_lb vs1) vs1 Hsh1 eq_refl). }
    intros vs' [Hsh' [Hch [Hdc Hall]]]. split; [exact Hsh'|]. split; [|split].
    + intros c k Hc Hk. destruct (Hch c k Hc Hk) as [Hc1 Hf1]. destruct (Rel c k Hc Hk) as [Ry Rn].
      unfold hist. cbn [filter]. fold (hist r c k).
      destruct (covers s c k) eqn:Ecov.
      * destruct (Ry eq_refl) as [St Eq]. cbn [map sa_chain final_al]. fold (hist r c k).
        rewrite Eq in Hc1, Hf1. split; [split; [exact St|split; [exact HAl|exact Hc1]]|exact Hf1].
      * rewrite (Rn ltac:(congruence)) in Hc1, Hf1. fold (hist r c k). split; assumption.
    + cbn [dc_before_ac]. split.
      * intros Hss c Hin. pose proof (Hseen Hss c Hin) as Hge.
        apply in_scan_iff in Hin. destruct Hin as [ci [Hci Hce]].
        destruct Hwf as [_ Hcw]. destruct (Hcw ci Hci) as [Hr _]. rewrite Hce in Hr. lia.
      * (* the "seen" predicate after this scan equals the one computed from the new last_bitpos *)
        assert (Heq : forall c, ((0 <=? c) && (c <? nc) && (0 <=? lb_get (v_lb vs1) c 0)) =
                                (((0 <=? c) && (c <? nc) && (0 <=? lb_get lb c 0)) || (in_scan s c && (s_Ss s =? 0)))).
        { intro c. destruct (Z_le_dec 0 c) as [H0|H0]; [destruct (Z_lt_dec c nc) as [H1|H1]|].
          - destruct (Rel c 0 ltac:(lia) ltac:(consts; lia)) as [Ry Rn].
            destruct (covers s c 0) eqn:Ecov.
            + destruct (Ry eq_refl) as [_ Eq]. rewrite Eq. unfold covers in Ecov.
              destruct (in_scan s c); [|cbn in Ecov; discriminate]. lia.
            + rewrite (Rn ltac:(congruence)). unfold covers in Ecov. destruct (in_scan s c); [|lia].
              cbn [andb] in Ecov |- *.
              destruct (s_Ss s =? 0) eqn:E0; [|lia].
              lia.
          - replace (c <? nc) with false by lia. rewrite andb_false_r. cbn [andb orb].
            destruct (in_scan s c) eqn:Ein; [|reflexivity].
            apply in_scan_iff in Ein. destruct Ein as [ci [Hci Hce]]. destruct Hwf as [_ Hcw].
            destruct (Hcw ci Hci) as [Hr _]. lia.
          - replace (0 <=? c) with false by lia. cbn [andb orb].
            destruct (in_scan s c) eqn:Ein; [|reflexivity].
            apply in_scan_iff in Ein. destruct Ein as [ci [Hci Hce]]. destruct Hwf as [_ Hcw].
            destruct (Hcw ci Hci) as [Hr _]. lia. }
        clear - Hdc Heq. revert Hdc. generalize r.
        assert (G : forall (l : list scan) (f g : Z -> bool), (forall c, f c = g c) -> dc_before_ac f l -> dc_before_ac g l).
        { induction l as [|x l IHl]; intros f g Hfg Hd; cbn in *; [exact I|].
          destruct Hd as [Ha Hb]. split.
          - intros Hss c Hin. rewrite <- Hfg. apply Ha; assumption.
          - eapply IHl; [|exact Hb]. intro c. cbn. rewrite Hfg. reflexivity. }
        intros l Hd. eapply G; [|exact Hd]. exact Heq.
    + constructor; assumption.
Qed.

Lemma dc_before_ac_ext : forall (l : list scan) (f g : Z -> bool),
  (forall c, f c = g c) -> dc_before_ac f l -> dc_before_ac g l.
Proof.
  induction l as [|x l IHl]; intros f g Hfg Hd; cbn in *; [exact I|].
  destruct Hd as [Ha Hb]. split.
  - intros Hss c Hin. rewrite <- Hfg. apply Ha; assumption.
  - eapply IHl; [|exact Hb]. intro c. cbn. rewrite Hfg. reflexivity.
Qed.

Definition lb_init (nc : Z) : list (list Z) := repeat (repeat (-1) (Z.to_nat g_DCTSIZE2)) (Z.to_nat nc).

Lemma lb_init_shape nc : shape nc (lb_init nc).
Proof.
  unfold shape, lb_init. rewrite repeat_length. split; [reflexivity|].
  apply Forall_forall. intros r Hin. apply repeat_spec in Hin. subst r. apply repeat_length.
Qed.

Lemma lb_init_get nc c k : 0 <= c < nc -> 0 <= k < g_DCTSIZE2 -> lb_get (lb_init nc) c k = -1.
Proof.
  intros Hc Hk. unfold lb_get, lb_init, getZ.
  rewrite (nth_repeat_in _ []) by lia. apply nth_repeat_in. lia.
Qed.

Lemma init_state_prog nc : nc <= g_MAX_COMPONENTS ->
  sat (init_state Progressive nc) (fun st => v_lb st = lb_init nc).
Proof.
  intro Hnc. cbn [init_state].
  eapply sat_seq with (P := True).
  - eapply sat_weaken.
    + apply (sat_for _ 0 _ tt (fun _ _ => True)); [exact I|].
      intros j [] Hj _.
      eapply sat_weaken.
      * apply (sat_for _ 0 _ tt (fun _ _ => True)); [exact I|].
        intros k [] Hk _. apply sat_touch; [consts; lia|exact I].
      * intros; exact I.
    + intros; exact I.
  - intros _. apply sat_ret. reflexivity.
Qed.

Lemma final_check_prog nc st : nc <= g_MAX_COMPONENTS ->
  sat (final_check Progressive nc st) (fun _ => forall ci, 0 <= ci < nc -> 0 <= lb_get (v_lb st) ci 0).
Proof.
  intro Hnc. unfold final_check. eapply sat_weaken.
  - apply (sat_for _ 0 _ tt (fun j _ => forall ci, 0 <= ci < j -> 0 <= lb_get (v_lb st) ci 0)).
    + intros; lia.
    + intros j [] Hj Inv.
      eapply sat_seq with (P := True). { apply sat_touch; [consts; lia|exact I]. }
      intros _. apply sat_guard. intros Hg ci Hci.
      destruct (Z.eq_dec ci j) as [->|]; [lia|apply Inv; lia].
  - intros [] H ci Hci. apply H. lia.
Qed.

Definition dflt_scan : scan := {| s_ncomps := 0; s_comps := []; s_Ss := 0; s_Se := 0; s_Ah := 0; s_Al := 0 |}.

(* the chain theorem, as a postcondition of validate_script *)
Theorem script_valid_chain_sat : forall nc prec scans,
  sat (validate_script nc prec scans)
      (fun mode => mode = Progressive ->
         (forall c k, 0 <= c < nc -> 0 <= k < g_DCTSIZE2 -> sa_chain (-1) (hist scans c k)) /\
         dc_before_ac (fun _ => false) scans /\
         (forall c, 0 <= c < nc -> hist scans c 0 <> [])).
Proof.
  intros nc prec scans.
  destruct (script_mode (hd dflt_scan scans)) eqn:Emode.
  1, 3: (eapply sat_weaken; [apply validate_script_safe_lemma|]; intros mode [_ [_ [Hm _]]] Hp;
         unfold dflt_scan in Emode; rewrite Emode in Hm; congruence).
  unfold validate_script. destruct scans as [|s0 r]; [apply sat_fail|].
  rewrite ncomp_check_present. cbn [Z.eqb Pos.eqb].
  eapply sat_seq. { apply sat_guard. intro Hg. exact Hg. }
  intro Hg. assert (Hnc : nc <= g_MAX_COMPONENTS) by lia.
  cbv zeta. cbn [hd] in Emode. rewrite Emode.
  eapply sat_bind. { apply init_state_prog; exact Hnc. }
  intros st0 Hst0.
  eapply sat_bind. { apply (scan_loop_chain nc prec (s0 :: r) (lb_init nc) st0 Hnc (lb_init_shape nc) Hst0). }
  intros st [Hsh [Hch [Hdc Hall]]].
  eapply sat_seq. { apply final_check_prog; exact Hnc. }
  intro Hfin. apply sat_ret. intros _. split; [|split].
  - intros c k Hc Hk. destruct (Hch c k Hc Hk) as [H1 _]. rewrite lb_init_get in H1 by assumption. exact H1.
  - eapply dc_before_ac_ext; [|exact Hdc]. intro c. cbv beta.
    destruct (Z_le_dec 0 c) as [H0|H0]; [destruct (Z_lt_dec c nc) as [H1|H1]|].
    + rewrite lb_init_get by (consts; lia). lia.
    + replace (c <? nc) with false by lia. rewrite andb_false_r. reflexivity.
    + replace (0 <=? c) with false by lia. reflexivity.
  - intros c Hc Hnil. destruct (Hch c 0 Hc ltac:(consts; lia)) as [_ H2].
    rewrite Hnil in H2. cbn [final_al] in H2. rewrite lb_init_get in H2 by (consts; lia).
    specialize (Hfin c Hc). lia.
Qed.

Lemma script_valid_chain_lemma : forall nc prec scans,
  snd (validate_script nc prec scans) = inr Progressive ->
  (forall c k, 0 <= c < nc -> 0 <= k < g_DCTSIZE2 -> sa_chain (-1) (hist scans c k)) /\
  dc_before_ac (fun _ => false) scans /\
  (forall c, 0 <= c < nc -> hist scans c 0 <> []).
Proof.
  intros nc prec scans H. exact (sat_result _ _ _ (script_valid_chain_sat nc prec scans) H eq_refl).
Qed.

(* reading of sa_chain (-1): first entry (0, a0) with a0 >= 0, each further entry (a, a-1) continuing
   from the previous Al; in particular the Al values strictly decrease: no bit is sent twice *)
Lemma sa_chain_head l : sa_chain (-1) l -> match l with [] => True | (ah, al) :: _ => ah = 0 /\ 0 <= al end.
Proof. destruct l as [|[ah al] r]; [auto|]. cbn. intros [[H _] [H2 _]]. split; [apply H; lia|exact H2]. Qed.

Lemma sa_chain_next v ah al ah' al' r : 0 <= v ->
  sa_chain v ((ah, al) :: (ah', al') :: r) -> ah = v /\ al = v - 1 /\ ah' = al /\ al' = al - 1 /\ 0 <= al'.
Proof. cbn. intros Hv [[_ H1] [H2 [[_ H3] [H4 _]]]]. specialize (H1 Hv). specialize (H3 H2). lia. Qed.
