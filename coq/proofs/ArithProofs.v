(* C03 arithmetic coding, partial: the binarisation of the DC difference in jcarith.c and
   its inverse in jdarith.c are mutually inverse and bin-synchronous, GIVEN that the QM
   coder delivers the coded decisions (Section hypothesis qm_roundtrip). *)
From Coq Require Import List ZArith Lia Bool.
From LJT Require Import model.Huff model.ArithBin proofs.SeqBits.
Import ListNotations.
Local Open Scope Z_scope.

Fixpoint ones (st : Z) (j : nat) : list decision :=
  match j with O => [] | S j' => (st, true) :: ones (st + 1) j' end.

Lemma map_seq_ones : forall j st i0, map (fun i => (st + Z.of_nat i, true)) (seq i0 j) = ones (st + Z.of_nat i0) j.
Proof.
  induction j as [|j IH]; intros st i0; [reflexivity|]. cbn [seq map ones]. f_equal.
  rewrite IH. f_equal. lia.
Qed.

Lemma land_mul_pow2_low' k j : 0 <= j -> Z.land (k * 2 ^ (j + 1)) (2 ^ j) = 0.
Proof.
  intros Hj. apply Z.bits_inj'. intros n Hn. rewrite Z.land_spec, Z.bits_0.
  rewrite Z.pow2_bits_eqb by lia. destruct (Z.eqb_spec j n) as [->|Hne]; [|apply andb_false_r].
  rewrite Z.mul_pow2_bits_low by lia. reflexivity.
Qed.

Lemma lor_disjoint_add a b : Z.land a b = 0 -> Z.lor a b = a + b.
Proof. intros H. rewrite <- Z.lxor_lor by exact H. symmetry. now apply Z.add_nocarry_lxor. Qed.

Section QM.
Variable stream : Type.
Variable next : Z -> stream -> option (bool * stream).
(* "the decoder state s is about to deliver exactly these decisions" *)
Variable carries : stream -> list decision -> Prop.
Hypothesis qm_roundtrip : forall s st b ds,
  carries s ((st, b) :: ds) -> exists s', next st s = Some (b, s') /\ carries s' ds.

Lemma dec_cat_ones : forall j fuel st m s rest,
  carries s (ones st j ++ (st + Z.of_nat j, false) :: rest) ->
  (j < fuel)%nat -> 0 < m -> m * 2 ^ Z.of_nat j < 32768 ->
  exists s', dec_cat stream next fuel st m s = Some (st + Z.of_nat j, m * 2 ^ Z.of_nat j, s') /\ carries s' rest.
Proof.
  induction j as [|j IH]; intros fuel st m s rest Hc Hf Hm Hb.
  - destruct fuel as [|f]; [lia|]. cbn [ones app] in Hc. cbn [dec_cat].
    replace (st + Z.of_nat 0) with st in Hc by (cbn; lia).
    destruct (qm_roundtrip _ _ _ _ Hc) as [s' [Hn Hc']]. rewrite Hn. exists s'. split; [|exact Hc'].
    f_equal. f_equal. f_equal; cbn; lia.
  - destruct fuel as [|f]; [lia|]. cbn [ones app] in Hc. cbn [dec_cat].
    destruct (qm_roundtrip _ _ _ _ Hc) as [s1 [Hn Hc1]]. rewrite Hn.
    assert (Hp : 2 ^ Z.of_nat (S j) = 2 * 2 ^ Z.of_nat j).
    { replace (Z.of_nat (S j)) with (1 + Z.of_nat j) by lia. rewrite Z.pow_add_r by lia. reflexivity. }
    assert (Hpj : 0 < 2 ^ Z.of_nat j) by (apply Z.pow_pos_nonneg; lia).
    destruct (2 * m =? 32768) eqn:E; [apply Z.eqb_eq in E; nia|].
    replace (st + Z.of_nat (S j)) with (st + 1 + Z.of_nat j) in Hc1 by lia.
    destruct (IH f (st + 1) (2 * m) s1 rest Hc1) as [s' [Hd Hc']]; [lia|lia|nia|].
    exists s'. split; [|exact Hc']. rewrite Hd. f_equal. f_equal. f_equal; [lia|nia].
Qed.

Lemma dec_pattern_bits w st : forall k fuel v s rest,
  carries s (map (fun b => (st, b)) (bits_of k w) ++ rest) ->
  (k < fuel)%nat -> (exists q, v = q * 2 ^ Z.of_nat k) ->
  exists s', dec_pattern stream next fuel st (2 ^ Z.of_nat k) v s = Some (v + w mod 2 ^ Z.of_nat k, s') /\ carries s' rest.
Proof.
  induction k as [|k IH]; intros fuel v s rest Hc Hf [q Hq].
  - destruct fuel as [|f]; [lia|]. cbn [dec_pattern]. change (2 ^ Z.of_nat 0 / 2) with 0. cbn [Z.eqb].
    exists s. split; [|exact Hc]. rewrite Z.mod_1_r. f_equal. f_equal. lia.
  - destruct fuel as [|f]; [lia|]. cbn [dec_pattern].
    assert (Hp : 2 ^ Z.of_nat (S k) = 2 ^ Z.of_nat k * 2).
    { replace (Z.of_nat (S k)) with (Z.of_nat k + 1) by lia. rewrite Z.pow_add_r by lia. reflexivity. }
    assert (Hpk : 0 < 2 ^ Z.of_nat k) by (apply Z.pow_pos_nonneg; lia).
    rewrite Hp. rewrite Z.div_mul by lia.
    destruct (2 ^ Z.of_nat k =? 0) eqn:E0; [apply Z.eqb_eq in E0; lia|].
    cbn [bits_of map app] in Hc. destruct (qm_roundtrip _ _ _ _ Hc) as [s1 [Hn Hc1]]. rewrite Hn.
    set (b := Z.testbit w (Z.of_nat k)) in *.
    assert (Hv' : (if b then Z.lor v (2 ^ Z.of_nat k) else v) = v + b2z b * 2 ^ Z.of_nat k).
    { destruct b; cbn [b2z]; [|lia]. rewrite lor_disjoint_add; [lia|].
      subst v. replace (Z.of_nat (S k)) with (Z.of_nat k + 1) by lia. apply land_mul_pow2_low'. lia. }
    rewrite Hv'.
    destruct (IH f (v + b2z b * 2 ^ Z.of_nat k) s1 rest Hc1) as [s' [Hd Hc']]; [lia| |].
    { exists (q * 2 + b2z b). subst v. rewrite Hp. lia. }
    exists s'. split; [|exact Hc']. rewrite Hd. f_equal. f_equal.
    unfold b. rewrite b2z_testbit by lia. rewrite <- Hp.
    replace (Z.of_nat (S k)) with (Z.of_nat k + 1) by lia. rewrite Z.pow_add_r by lia. change (2 ^ 1) with 2.
    rewrite (Z.rem_mul_r w (2 ^ Z.of_nat k) 2) by lia. lia.
Qed.

Local Opaque X1.
Theorem arith_dc_roundtrip ctx L U v ds ctx' rest s :
  Z.abs v <= 32768 ->
  enc_dc_arith ctx L U v = (ds, ctx') -> carries s (ds ++ rest) ->
  exists s', dec_dc_arith stream next ctx L U s = Some (v, ctx', s') /\ carries s' rest.
Proof.
  intros Hv He Hc. unfold enc_dc_arith in He. unfold dec_dc_arith.
  destruct (v =? 0) eqn:E0.
  - apply Z.eqb_eq in E0. subst v. inversion He; subst ds ctx'. cbn [app] in Hc.
    destruct (qm_roundtrip _ _ _ _ Hc) as [s1 [Hn Hc1]]. rewrite Hn. exists s1. split; [reflexivity|exact Hc1].
  - apply Z.eqb_neq in E0.
    destruct (enc_magnitude (if v <? 0 then ctx + 3 else ctx + 2) (Z.abs v - 1)) as [dm m] eqn:Em.
    inversion He; subst ds ctx'. clear He. cbn [app] in Hc.
    destruct (qm_roundtrip _ _ _ _ Hc) as [s1 [Hn1 Hc1]]. rewrite Hn1.
    destruct (qm_roundtrip _ _ _ _ Hc1) as [s2 [Hn2 Hc2]]. rewrite Hn2.
    set (sign := v <? 0) in *.
    replace (ctx + 2 + (if sign then 1 else 0)) with (if sign then ctx + 3 else ctx + 2) by (destruct sign; lia).
    set (st := if sign then ctx + 3 else ctx + 2) in *.
    set (w := Z.abs v - 1) in *. assert (Hw : 0 <= w < 32768) by (unfold w; lia).
    unfold enc_magnitude in Em. destruct (w =? 0) eqn:Ew.
    + inversion Em; subst dm m. cbn [app] in Hc2.
      destruct (qm_roundtrip _ _ _ _ Hc2) as [s3 [Hn3 Hc3]]. rewrite Hn3.
      cbn [dec_pattern]. change (0 / 2) with 0. cbn [Z.eqb].
      exists s3. split; [|exact Hc3]. apply Z.eqb_eq in Ew.
      replace (if sign then - (0 + 1) else 0 + 1) with v.
      2:{ unfold sign. destruct (v <? 0) eqn:Es; [apply Z.ltb_lt in Es|apply Z.ltb_ge in Es]; unfold w in Ew; lia. }
      destruct sign; destruct (0 <? 2 ^ L / 2); try reflexivity; destruct (0 >? 2 ^ U / 2); reflexivity.
    + apply Z.eqb_neq in Ew. inversion Em; subst dm m. clear Em.
      pose proof (nbits_bounds w ltac:(lia)) as [Hn1' [Hlo Hhi]]. set (n := nbits w) in *.
      assert (Hn15 : n <= 15).
      { destruct (Z.le_gt_cases n 15) as [H|H]; [exact H|].
        assert (2 ^ 15 <= 2 ^ (n - 1)) by (apply Z.pow_le_mono_r; lia). change (2 ^ 15) with 32768 in *. lia. }
      cbn [app] in Hc2. destruct (qm_roundtrip _ _ _ _ Hc2) as [s3 [Hn3 Hc3]]. rewrite Hn3.
      rewrite (map_seq_ones _ X1 0) in Hc3. rewrite Z.add_0_r in Hc3. rewrite <- app_assoc in Hc3. cbn [app] in Hc3.
      replace (X1 + (n - 1)) with (X1 + Z.of_nat (Z.to_nat (n - 1))) in Hc3 by lia.
      destruct (dec_cat_ones (Z.to_nat (n - 1)) 16 X1 1 s3 _ Hc3) as [s4 [Hd Hc4]]; [lia|lia| |].
      { rewrite Z2Nat.id by lia. rewrite Z.mul_1_l.
        assert (2 ^ (n - 1) <= 2 ^ 14) by (apply Z.pow_le_mono_r; lia). change (2 ^ 14) with 16384 in *. lia. }
      rewrite Hd. rewrite Z.mul_1_l. rewrite Z2Nat.id by lia. rewrite Z2Nat.id in Hc4 by lia.
      replace (2 ^ (n - 1)) with (2 ^ Z.of_nat (Z.to_nat (n - 1))) at 3 4 by (rewrite Z2Nat.id by lia; reflexivity).
      destruct (dec_pattern_bits w (X1 + (n - 1) + 14) (Z.to_nat (n - 1)) 17 (2 ^ Z.of_nat (Z.to_nat (n - 1))) s4 rest Hc4)
        as [s5 [Hd5 Hc5]]; [lia|exists 1; lia|].
      rewrite Z2Nat.id in Hd5 by lia.
      replace (2 ^ Z.of_nat (Z.to_nat (n - 1))) with (2 ^ (n - 1)) by (rewrite Z2Nat.id by lia; reflexivity).
      rewrite Hd5. exists s5. split; [|exact Hc5].
      assert (Hwv : 2 ^ (n - 1) + w mod 2 ^ (n - 1) = w).
      { assert (Hp : 2 ^ n = 2 * 2 ^ (n - 1)).
        { replace n with (1 + (n - 1)) at 1 by lia. rewrite Z.pow_add_r by lia. reflexivity. }
        replace (w mod 2 ^ (n - 1)) with (w - 2 ^ (n - 1)); [lia|].
        apply Z.mod_unique with (q := 1); lia. }
      rewrite Hwv.
      replace (if sign then - (w + 1) else w + 1) with v.
      2:{ unfold sign. destruct (v <? 0) eqn:Es; [apply Z.ltb_lt in Es|apply Z.ltb_ge in Es]; unfold w; lia. }
      destruct sign; destruct (2 ^ (n - 1) <? 2 ^ L / 2); try reflexivity; destruct (2 ^ (n - 1) >? 2 ^ U / 2); reflexivity.
Qed.
End QM.
