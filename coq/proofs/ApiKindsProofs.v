(* C12 -- which entry points pass the analysis (by computation over the finitely many
   operation kinds), and the witness histories for the places where the current source
   reads state of an earlier call.  Every statement is written so that it stays provable
   when one of the generated "fixed" flags flips. *)
From Coq Require Import List ZArith String Bool.
From LJT Require Import gen.GenErrPaths model.ApiState model.ApiOps model.ApiUniverse proofs.ApiStateProofs proofs.ApiHistoryProofs.
Import ListNotations.
Local Open Scope Z_scope.
Local Open Scope string_scope.

Ltac kinds k :=
  destruct k as [ | | | | b | | | s v | b s c m | s v | m | | | s v | | s m | s | s | b | b];
  try destruct b; try destruct s; try destruct v; try destruct c; try destruct m.

Definition getter (k : opk) : bool := match k with KGetICC | KTransformBufSize => true | _ => false end.
(* single-call probes: the getters report what the preceding tj3DecompressHeader left (probe them
   after a header call); tj3DecodeYUV* still reads the permanent Huffman table slots (F13) unless
   the translator finds that fixed *)
Definition plain_probe (k : opk) : bool :=
  match k with
  | KGetICC | KTransformBufSize => false
  | KDecodeYUV _ => decodeyuv_ignores_huffman_slots
  | _ => true
  end.

Lemma all_kinds_complete : forall k, In k all_kinds.
Proof. intro k. kinds k; vm_compute; tauto. Qed.

Definition hist_ok_all (fx : fixes) (p : opk -> bool) : bool :=
  let a := a_hist fx in
  forallb (fun k => negb (p k) || match exits_from fx a k with Some _ => true | None => false end) all_kinds.
Definition probe_ok_all (fx : fixes) (p : opk -> bool) : bool :=
  forallb (fun k => negb (p k) || ok_probe fx [k]) all_kinds.

Lemma hist_ok_all_spec fx p : hist_ok_all fx p = true -> forall k, p k = true -> ok_hist fx k = true.
Proof.
  unfold hist_ok_all. intros H k Hp. rewrite forallb_forall in H. specialize (H k (all_kinds_complete k)).
  rewrite Hp in H. cbn in H. unfold ok_hist. exact H.
Qed.
Lemma probe_ok_all_spec fx p : probe_ok_all fx p = true -> forall k, p k = true -> ok_probe fx [k] = true.
Proof.
  unfold probe_ok_all. intros H k Hp. rewrite forallb_forall in H. specialize (H k (all_kinds_complete k)).
  rewrite Hp in H. cbn in H. exact H.
Qed.

(* the source as it is now: EVERY kind of call is fine inside a history *)
Lemma ok_hist_faithful : forall k, ok_hist faithful k = true.
Proof. intro k. apply (hist_ok_all_spec faithful (fun _ => true)); [vm_cast_no_check (eq_refl true) | reflexivity]. Qed.
Lemma ok_hist_fixed : forall k, ok_hist all_fixed k = true.
Proof. intro k. apply (hist_ok_all_spec all_fixed (fun _ => true)); [vm_cast_no_check (eq_refl true) | reflexivity]. Qed.

Lemma ok_probe_faithful : forall k, is_selfc k = true -> plain_probe k = true -> ok_probe faithful [k] = true.
Proof.
  intros k H G. apply (probe_ok_all_spec faithful (fun k => is_selfc k && plain_probe k)); [vm_cast_no_check (eq_refl true)|].
  rewrite H, G. reflexivity.
Qed.
Lemma ok_probe_fixed : forall k, is_selfc k = true -> getter k = false -> ok_probe all_fixed [k] = true.
Proof.
  intros k H G. apply (probe_ok_all_spec all_fixed (fun k => is_selfc k && negb (getter k))); [vm_cast_no_check (eq_refl true)|].
  rewrite H, G. reflexivity.
Qed.

(* the getters, probed after a header call with valid arguments *)
Lemma ok_probe_getters_faithful :
  ok_probe faithful [KHeader true true; KGetICC] = true /\ ok_probe faithful [KHeader true true; KTransformBufSize] = true.
Proof. vm_compute. auto. Qed.

(* tj3DecodeYUV* apart from the Huffman-slot read: F10 and F12 are fixed in the source *)
Definition faithful_but_f13 : fixes := mkfix (fx5 faithful) (fx9 faithful) (fx10 faithful) (fx11 faithful) (fx2 faithful) (fx12 faithful) true.
Lemma decodeyuv_ok_but_f13 : forall m, ok_probe faithful_but_f13 [KDecodeYUV m] = true.
Proof. intro m. destruct m; vm_compute; reflexivity. Qed.

(* ------------------------------------------------------------ regression witnesses *)
(* each history is run on the model of the current source with exactly ONE fix taken out again *)
Definition cl (k : opk) (a : list (string * Z)) : call := mkcall k a.
Definition res_used (fx : fixes) (h cs : list call) (ic id : bool) :=
  let x := run fx h (init_x ic id) in probe fx cs (xs x) (xd x).
Definition res_fresh (fx : fixes) (h cs : list call) (ic id : bool) :=
  let x := run fx h (init_x ic id) in probe fx cs (fresh_like (xs x)) dest0.
Definition without5 := mkfix false true true true true true true.
Definition without9 := mkfix true false true true true true true.
Definition without10 := mkfix true true false true true true true.
Definition without11 := mkfix true true true false true true true.
Definition without2 := mkfix true true true true false true true.
Definition without12 := mkfix true true true true true false true.
Definition without13 := mkfix true true true true true true false.

Definition f5_history : list call :=
  [cl (KDecompress B8 true false false) [("img", 1); ("jw", 48); ("jh", 40); ("jprec", 8); ("ncomp", 3)];
   cl KSet [("param", 9); ("value", 1)];
   cl (KHeader true true) [("img", 2); ("jw", 64); ("jh", 48); ("jprec", 8); ("ncomp", 3)];
   cl KSetCrop [("x", 0); ("y", 16); ("w", 64); ("h", 16)]].
Definition f5_probe : list call :=
  [cl (KDecompress B8 true true true) [("img", 2); ("jw", 64); ("jh", 48); ("jprec", 8); ("ncomp", 3); ("skip_tail", 1)]].
Lemma f5_regression :
  snd (res_used without5 f5_history f5_probe false true) = Some (UseAfterFree (OD, "cconvert")) /\
  snd (res_fresh without5 f5_history f5_probe false true) = None /\
  res_used all_fixed f5_history f5_probe false true = res_fresh all_fixed f5_history f5_probe false true.
Proof. vm_compute. auto. Qed.

Definition f9_history : list call :=
  [cl (KHeader true true) [("img", 11); ("has_icc", 1); ("icc_id", 600); ("jw", 48); ("jh", 32); ("jprec", 8); ("ncomp", 3)]].
Definition f9_probe : list call :=
  [cl (KHeader true true) [("img", 1); ("has_icc", 0); ("jw", 48); ("jh", 40); ("jprec", 8); ("ncomp", 3)];
   cl KGetICC [("fetch", 1)]].
Lemma f9_regression :
  fst (res_used without9 f9_history f9_probe false true) <> fst (res_fresh without9 f9_history f9_probe false true) /\
  res_used all_fixed f9_history f9_probe false true = res_fresh all_fixed f9_history f9_probe false true.
Proof. split; [vm_compute; intro E; discriminate E | vm_compute; reflexivity]. Qed.

Definition f10_history : list call :=
  [cl (KDecompress B8 true false false) [("img", 7); ("lossless", 1); ("jw", 31); ("jh", 23); ("jprec", 8); ("ncomp", 3)];
   cl KSet [("param", 4); ("value", 2)]].
Definition f10_probe : list call := [cl (KDecodeYUV true) [("img", 99)]].
(* the self-contained lossless stream also leaves its Huffman tables in the slots: compare under the F13 fix *)
Lemma f10_regression :
  fst (res_used without10 f10_history f10_probe false true) <> fst (res_fresh without10 f10_history f10_probe false true) /\
  res_used all_fixed f10_history f10_probe false true = res_fresh all_fixed f10_history f10_probe false true.
Proof. split; [vm_compute; intro E; discriminate E | vm_compute; reflexivity]. Qed.

Definition f12_history : list call :=
  [cl (KHeader true true) [("img", 19); ("adobe", 1); ("adobe_tr", 0); ("jfif", 0); ("jw", 32); ("jh", 32); ("jprec", 8); ("ncomp", 3)];
   cl KSet [("param", 4); ("value", 0)]].
Definition f12_probe : list call := [cl (KDecodeYUV false) [("img", 98)]].
Lemma f12_regression :
  fst (res_used without12 f12_history f12_probe false true) <> fst (res_fresh without12 f12_history f12_probe false true) /\
  res_used all_fixed f12_history f12_probe false true = res_fresh all_fixed f12_history f12_probe false true.
Proof. split; [vm_compute; intro E; discriminate E | vm_compute; reflexivity]. Qed.

Definition f11_history : list call :=
  [cl KSet [("param", 3); ("value", 80)]; cl KSet [("param", 4); ("value", 2)];
   cl (KCompress B12) [("img", 50); ("w", 16); ("h", 16); ("pf", 3)]].
Definition f11_probe : list call :=
  [cl (KTransform true false) [("img", 1); ("jw", 64); ("jh", 48); ("jprec", 8); ("ncomp", 3)]].
Lemma f11_regression :
  fst (res_used without11 f11_history f11_probe true true) <> fst (res_fresh without11 f11_history f11_probe true true) /\
  res_used all_fixed f11_history f11_probe true true = res_fresh all_fixed f11_history f11_probe true true.
Proof. split; [vm_compute; intro E; discriminate E | vm_compute; reflexivity]. Qed.

(* F13 (open): a header that fails after a (truncated) DHT leaves a table in the permanent slot; tj3DecodeYUV8
   then builds its derived tables from it *)
Definition f13_history : list call :=
  [cl KSet [("param", 4); ("value", 2)];
   cl (KHeader true true) [("img", 4); ("fail", 2); ("f_soi", 1); ("f_sof", 1); ("f_tables", 1); ("prog", 1)]].
Definition f13_probe : list call := [cl (KDecodeYUV true) [("img", 97)]].
Lemma f13_witness :
  decodeyuv_ignores_huffman_slots = false ->
  fst (res_used faithful f13_history f13_probe false true) <> fst (res_fresh faithful f13_history f13_probe false true).
Proof. intro H. first [ solve [vm_compute in H; discriminate H] | vm_compute; intro E; discriminate E ]. Qed.
Lemma f13_fixed : decodeyuv_ignores_huffman_slots = true -> forall m, ok_probe faithful [KDecodeYUV m] = true.
Proof. intros H m. first [ solve [vm_compute in H; discriminate H] | destruct m; vm_compute; reflexivity ]. Qed.
Lemma f13_regression :
  fst (res_used without13 f13_history f13_probe false true) <> fst (res_fresh without13 f13_history f13_probe false true) /\
  res_used all_fixed f13_history f13_probe false true = res_fresh all_fixed f13_history f13_probe false true.
Proof. split; [vm_compute; intro E; discriminate E | vm_compute; reflexivity]. Qed.

Lemma f1_regression_data :
  match find_fn "tj3DecompressHeader" api_functions with
  | Some f => fn_uses_d f = true /\ ErrPaths.fn_ok f = true
  | None => False
  end.
Proof. vm_compute. auto. Qed.

Definition f2_history : list call :=
  [cl KSet [("param", 3); ("value", 90)]; cl KSet [("param", 4); ("value", 0)];
   cl (KCompress B8) [("img", 1); ("w", 128); ("h", 96); ("bufmode", 0); ("grow", 1)];
   cl (KCompress B8) [("img", 2); ("w", 128); ("h", 96); ("bufmode", 1); ("grow", 1)]].
Lemma f2_regression_lemma :
  d_doublefree (xd (run faithful f2_history (init_x true false))) = negb dest_forgets_newbuffer /\
  d_doublefree (xd (run without2 f2_history (init_x true false))) = true /\
  d_doublefree (xd (run all_fixed f2_history (init_x true false))) = false.
Proof. vm_compute. auto. Qed.

Lemma probes_nonvacuous :
  is_selfc (KDecompress B8 true true true) = true /\ plain_probe (KDecompress B8 true true true) = true /\
  plain_probe (KTransform true true) = true /\ plain_probe (KLegacyDecompress true false) = true.
Proof. auto. Qed.

(* ------------------------------------------------------------ (3) reset lists *)
Lemma smem_In x l : smem x l = true -> In x l.
Proof.
  induction l as [|y t IH]; cbn; [discriminate|]. intro H. apply orb_true_iff in H.
  destruct H as [H|H]; [left; symmetry; apply String.eqb_eq; exact H | right; auto].
Qed.
Lemma forallb_smem (req have : list string) :
  forallb (fun m => smem m have) req = true -> forall m, In m req -> In m have.
Proof. intros H m Hm. rewrite forallb_forall in H. apply smem_In. apply H. exact Hm. Qed.

(* members the TurboJPEG compression functions assign themselves before setCompDefaults *)
Definition tj_sets_before_defaults : list string := ["image_width"; "image_height"; "data_precision"].

Lemma set_defaults_resets_lemma :
  forall m, In m comp_param_members_read ->
  In m (set_defaults_fields ++ setcompdefaults_pre_fields ++ tj_sets_before_defaults)%list.
Proof. apply forallb_smem. vm_compute. reflexivity. Qed.

Definition marker_state_members : list string :=
  ["marker->saw_SOI"; "marker->saw_SOF"; "unread_marker"; "comp_info"; "input_scan_number"; "marker->discarded_bytes"].
Definition inputctl_state_members : list string :=
  ["inputctl->eoi_reached"; "inputctl->inheaders"; "inputctl->has_multiple_scans"; "inputctl->consume_input"; "coef_bits"].

Lemma abort_resets_lemma :
  (forall m, In m marker_state_members -> In m reset_marker_reader_fields) /\
  (forall m, In m inputctl_state_members -> In m reset_input_controller_fields) /\
  reset_input_controller_calls_reset_marker_reader = true /\
  (forall m, In m ["global_state"; "marker_list"] -> In m jpeg_abort_fields).
Proof.
  split; [apply forallb_smem; vm_compute; reflexivity|].
  split; [apply forallb_smem; vm_compute; reflexivity|].
  split; [reflexivity|]. apply forallb_smem. vm_compute. reflexivity.
Qed.

(* tj3Set over the generated table: an accepted value is stored in the parameter's member;
   a rejected one changes nothing *)
Definition set_call (p v : Z) : call := cl KSet [("param", p); ("value", v)].
Definition in_range (t : tjparam) (v : Z) : bool :=
  negb (Z.ltb v (p_lo t)) && negb (Z.ltb 0 (p_hi t) && Z.ltb (p_hi t) v).
Definition applicable (t : tjparam) (ic id : bool) : bool :=
  negb (p_readonly t) && match p_need t with NeedNone => true | NeedC => ic | NeedD => id end.
Definition set_result_ok (t : tjparam) (ic id : bool) (v : Z) : bool :=
  let x := step faithful (set_call (p_id t) v) (init_x ic id) in
  if applicable t ic id && in_range t v
  then Z.eqb (sc (xs x) (T (p_field t))) v && Z.eqb (sc (xs x) retval) 0
  else Z.eqb (sc (xs x) (T (p_field t))) (sc (init_state ic id) (T (p_field t))) && Z.eqb (sc (xs x) retval) (-1).
Lemma tj3set_table_boundaries :
  forallb (fun t => forallb (fun ic => forallb (fun id =>
     forallb (fun v => set_result_ok t ic id v) [p_lo t - 1; p_lo t; p_lo t + 1; p_hi t - 1; p_hi t; p_hi t + 1; -1; 0; 1; 2147483647])
     [true; false]) [true; false]) tj3set_table = true.
Proof. vm_cast_no_check (eq_refl true). Qed.

(* the model's jpeg_abort takes the image-pool share out of the allocation total (per the regenerated
   free_pool facts) *)
Lemma abortc_clears :
  forall en o x, let x' := fst (exec en (abortc o) x) in
  sc (xs x') (img_small o) = 0 /\ sc (xs x') (img_large o) = 0.
Proof. intros en o x. destruct o; vm_compute; auto. Qed.

(* facts of the current source that the marker-list / marker-method invariants rest on *)
Lemma marker_facts :
  read_header_tables_only_aborts = true /\
  match find_fn "tj3DecodeYUVPlanes8" api_functions with
  | Some f => match fn_bailout f with
              | Some b => existsb (fun h => match h with HRestoreMarkerMethods HAlways => true | _ => false end) b = true
              | None => False
              end
  | None => False
  end.
Proof. vm_compute. auto. Qed.

Lemma copy_filter_lemma : copy_filter_within_setup = true.
Proof. vm_compute. reflexivity. Qed.

(* with F13 fixed in the source every non-getter kind is a plain probe *)
Lemma plain_probe_all : forall k, getter k = false -> plain_probe k = true.
Proof. intros k H. kinds k; try discriminate H; vm_compute; reflexivity. Qed.

(* the members the model's processFlags assigns, in program order, are those of the source *)
Fixpoint cset_targets (c : cmd) : list string :=
  match c with
  | CSeq a b => (cset_targets a ++ cset_targets b)%list
  | CSet f _ => [snd f]
  | CIf _ a b => (cset_targets a ++ cset_targets b)%list
  | _ => []
  end.
Lemma process_flags_source : cset_targets (process_flags true) = process_flags_fields.
Proof. vm_compute. reflexivity. Qed.

(* every exported function is modelled by a kind, a life-cycle function, stateless, or a wrapper that only sets
   parameters and calls classified functions; and every function a kind claims to model is exported *)
Lemma universe_lemma : universe_ok = true.
Proof. vm_compute. reflexivity. Qed.
Lemma universe_classified : forall n, In n exported_functions -> classify 8 n <> Unclassified.
Proof.
  intros n Hn. pose proof universe_lemma as H. unfold universe_ok in H. apply andb_true_iff in H. destruct H as [H _].
  rewrite forallb_forall in H. specialize (H n Hn). destruct (classify 8 n); congruence.
Qed.
