(* Completeness: for a VALID sequential stream, if the entropy decoding of every scan
   succeeds, assembling the coefficient arrays cannot fail: every frame component is
   coded (B.2.3 / stream_ok) and the A.2.3 / A.2.4 block positions of its scan cover all
   blocks of the component (A.1.1 dimensions).  With T81WriterProofs: decoding an emitted
   valid stream never fails (C04_writer_sound_full). *)
From Coq Require Import List ZArith Bool Lia Arith.
From LJT Require Import model.T81Spec proofs.T81ParseProofs proofs.T81ScanProofs proofs.T81WriterProofs proofs.T81WrittenProofs.
Import ListNotations.
Local Open Scope Z_scope.
Ltac Zify.zify_post_hook ::= Z.div_mod_to_equations.

(* ------------------------------------------------ shape of the decoded scan *)
Lemma dec_blocks_fst : forall cs js preds bs l r, dec_blocks cs preds js bs = Some (l, r) -> map fst l = js.
Proof.
  intros cs. induction js as [|j t IH]; intros preds bs l r H; cbn [dec_blocks] in H.
  - inversion H; reflexivity.
  - destruct (coder_at cs j) as [dc ac].
    destruct (dec_block (hc_dec dc) (hc_dec ac) (nth j preds 0) bs) as [[zz r1]|]; [|discriminate].
    destruct (dec_blocks cs (set_nth j (hd 0 zz) preds) t r1) as [[l' r']|] eqn:E; [|discriminate].
    inversion H; subst. cbn [map fst]. f_equal. eapply IH; exact E.
Qed.

Lemma dec_interval_fst : forall cs n js d l, dec_interval cs n js d = Some l -> map fst l = js.
Proof.
  intros cs n js d l H. unfold dec_interval in H.
  destruct (dec_blocks cs (repeat 0 n) js (unpack d)) as [[l' r]|] eqn:E; [|discriminate].
  destruct ((length r <? 8)%nat && forallb (fun b => b) r); [|discriminate]. inversion H; subst.
  eapply dec_blocks_fst; exact E.
Qed.

Lemma dec_intervals_fst : forall cs n jss ds l, dec_intervals cs n jss ds = Some l -> map fst l = concat jss.
Proof.
  intros cs n. induction jss as [|js jt IH]; intros ds l H; destruct ds as [|d dt]; cbn [dec_intervals] in H; try discriminate.
  - inversion H; reflexivity.
  - destruct (dec_interval cs n js d) as [a|] eqn:Ea; [|discriminate].
    destruct (dec_intervals cs n jt dt) as [b|] eqn:Eb; [|discriminate]. inversion H; subst.
    rewrite map_app. cbn [concat]. rewrite (dec_interval_fst _ _ _ _ _ Ea), (IH _ _ Eb). reflexivity.
Qed.

Lemma dec_scan_fst : forall cs n per js ds l, dec_scan cs n per js ds = Some l -> map fst l = js.
Proof.
  intros cs n per js ds l H. unfold dec_scan in H. rewrite (dec_intervals_fst _ _ _ _ _ H). apply concat_intervals.
Qed.

Lemma in_combine_same_len : forall {A B} (l : list A) (l' : list B) x, length l = length l' -> In x l ->
  exists y, In (x, y) (combine l l').
Proof.
  induction l; intros l' x Hl Hin; [contradiction|]. destruct l' as [|b t]; [discriminate|]. cbn [length] in Hl.
  destruct Hin as [->|Hin]; [exists b; left; reflexivity|].
  destruct (IHl t x ltac:(lia) Hin) as [y Hy]. exists y. right. exact Hy.
Qed.

(* ------------------------------------------------------------------ geometry *)
Lemma in_zrange : forall n k, In k (zrange n) <-> 0 <= k < n.
Proof.
  intros n k. unfold zrange. rewrite in_map_iff. split.
  - intros [i [<- Hi]]. apply in_seq in Hi. lia.
  - intros H. exists (Z.to_nat k). split; [lia|]. apply in_seq. lia.
Qed.

Lemma cdiv_le : forall a b k, 0 < b -> a <= k * b -> cdiv a b <= k.
Proof. intros. unfold cdiv. apply Z.lt_succ_r. apply Z.div_lt_upper_bound; lia. Qed.

Lemma cdiv_ge : forall a b, 0 < b -> a <= b * cdiv a b.
Proof. intros. unfold cdiv. pose proof (Z.div_mod (a + b - 1) b ltac:(lia)). pose proof (Z.mod_pos_bound (a + b - 1) b ltac:(lia)). lia. Qed.

Lemma maxZ_ge : forall l x, In x l -> x <= maxZ l.
Proof. induction l; intros x H; [contradiction|]. cbn [maxZ]. destruct H as [->|H]; [lia|]. specialize (IHl x H). lia. Qed.

(* the real blocks of a component fit into its MCU rows / columns *)
Lemma blocks_fit : forall d s smax, 1 <= d -> 1 <= s <= smax -> cdiv (cdiv (d * s) smax) 8 <= cdiv d (8 * smax) * s.
Proof.
  intros d s smax Hd Hs. pose proof (cdiv_ge d (8 * smax) ltac:(lia)) as G.
  assert (0 <= cdiv d (8 * smax)) by (unfold cdiv; apply Z.div_pos; lia).
  apply cdiv_le; [lia|]. apply cdiv_le; [lia|]. nia.
Qed.

Lemma in_combine_seq : forall {A} (l : list A) j x, nth_error l j = Some x -> In (j, x) (combine (seq 0 (length l)) l).
Proof.
  intros A l. assert (G : forall k j x, nth_error l j = Some x -> In ((k + j)%nat, x) (combine (seq k (length l)) l)).
  { induction l as [|a t IH]; intros k j x H; [destruct j; discriminate|]. cbn [length seq combine].
    destruct j; cbn [nth_error] in H.
    - inversion H; subst. left. f_equal. lia.
    - right. replace (k + S j)%nat with (S k + j)%nat by lia. apply IH. exact H. }
  intros j x H. apply (G O j x H).
Qed.

Definition comp_dims_ok (fc : list fcomp) : Prop :=
  Forall (fun c : fcomp => let '(_, h, v, _) := c in 1 <= h <= 4 /\ 1 <= v <= 4) fc.

Lemma positions_complete : forall g hv j h v r c,
  1 <= g_x g -> 1 <= g_y g -> nth_error hv j = Some (h, v) -> 1 <= h <= g_hmax g -> 1 <= v <= g_vmax g ->
  0 <= r < comp_hb g v -> 0 <= c < comp_wb g h -> In (j, r, c) (scan_positions g hv).
Proof.
  intros g hv j h v r c Hx Hy Hn Hh Hv Hr Hc.
  assert (Single : forall h0 v0, hv = [(h0, v0)] -> In (j, r, c) (scan_positions g hv)).
  { intros h0 v0 E. subst hv. destruct j as [|j]; [|destruct j; discriminate]. cbn [nth_error] in Hn. inversion Hn; subst.
    cbn [scan_positions]. apply in_flat_map. exists r. split; [apply in_zrange; exact Hr|].
    apply in_map_iff. exists c. split; [reflexivity|apply in_zrange; exact Hc]. }
  assert (Multi : In (j, r, c)
            (flat_map (fun mr => flat_map (fun mc =>
               flat_map (fun jhv : nat * (Z * Z) => let '(j, (h, v)) := jhv in
                 flat_map (fun dv => map (fun dh => (j, mr * v + dv, mc * h + dh)) (zrange h)) (zrange v))
               (combine (seq 0 (length hv)) hv)) (zrange (mcu_cols g))) (zrange (mcu_rows g)))).
  { unfold comp_hb, comp_wb in *.
    pose proof (blocks_fit (g_y g) v (g_vmax g) Hy Hv) as Fv. pose proof (blocks_fit (g_x g) h (g_hmax g) Hx Hh) as Fh.
    fold (mcu_rows g) in Fv. fold (mcu_cols g) in Fh. unfold mcu_rows, mcu_cols in *.
    apply in_flat_map. exists (r / v). split.
    { apply in_zrange. split; [apply Z.div_pos; lia|]. apply Z.div_lt_upper_bound; [lia|]. rewrite Z.mul_comm. lia. }
    apply in_flat_map. exists (c / h). split.
    { apply in_zrange. split; [apply Z.div_pos; lia|]. apply Z.div_lt_upper_bound; [lia|]. rewrite Z.mul_comm. lia. }
    apply in_flat_map. exists (j, (h, v)). split; [apply in_combine_seq; exact Hn|].
    apply in_flat_map. exists (r mod v). split; [apply in_zrange; apply Z.mod_pos_bound; lia|].
    apply in_map_iff. exists (c mod h). split; [|apply in_zrange; apply Z.mod_pos_bound; lia].
    f_equal; [f_equal|]; [pose proof (Z.div_mod r v ltac:(lia)); lia|pose proof (Z.div_mod c h ltac:(lia)); lia]. }
  destruct hv as [|[h0 v0] [|x t]].
  - destruct j; discriminate.
  - apply (Single h0 v0 eq_refl).
  - exact Multi.
Qed.

(* ------------------------------------------------------------- small facts *)
Lemma nodupZ_NoDup : forall l, nodupZ l = true -> NoDup l.
Proof.
  induction l as [|x t IH]; intros H; [constructor|]. cbn [nodupZ] in H. apply andb_prop in H. destruct H as [H1 H2].
  constructor; [|apply IH; exact H2]. intros Hin. apply negb_true_iff in H1.
  assert (existsb (Z.eqb x) t = true) by (apply existsb_exists; exists x; split; [exact Hin|apply Z.eqb_refl]). congruence.
Qed.

Definition cid (c : fcomp) : Z := let '(ci, _, _, _) := c in ci.

Lemma find_comp_spec : forall fc id k i c, find_comp fc id k = Some (i, c) ->
  (k <= i)%nat /\ nth_error fc (i - k) = Some c /\ cid c = id.
Proof.
  induction fc as [|[[[ci h] v] tq] t IH]; intros id k i c H; cbn [find_comp] in H; [discriminate|].
  destruct (ci =? id) eqn:E.
  - apply Z.eqb_eq in E. inversion H; subst. rewrite Nat.sub_diag. split; [lia|split; reflexivity].
  - destruct (IH _ _ _ _ H) as (A & B & C). split; [lia|]. split; [|exact C].
    replace (i - k)%nat with (S (i - S k)) by lia. exact B.
Qed.

Lemma find_comp_self : forall fc k j c, NoDup (map cid fc) -> nth_error fc j = Some c ->
  find_comp fc (cid c) k = Some ((k + j)%nat, c).
Proof.
  induction fc as [|[[[ci h] v] tq] t IH]; intros k j c Hnd Hn; [destruct j; discriminate|].
  cbn [map] in Hnd. inversion Hnd as [|x y Hni Hnd']; subst. cbn [find_comp]. destruct j; cbn [nth_error] in Hn.
  - inversion Hn; subst. cbn [cid]. rewrite Z.eqb_refl. f_equal. f_equal. lia.
  - destruct (ci =? cid c) eqn:E.
    + apply Z.eqb_eq in E. exfalso. apply Hni. cbn [cid] in *. rewrite E. apply in_map. eapply nth_error_In; exact Hn.
    + rewrite (IH (S k) j c Hnd' Hn). f_equal. f_equal. lia.
Qed.

Lemma find_comp_none_notin : forall fc id k, find_comp fc id k = None -> ~ In id (map cid fc).
Proof.
  induction fc as [|[[[ci h] v] tq] t IH]; intros id k H Hin; [contradiction|]. cbn [find_comp] in H.
  destruct (ci =? id) eqn:E; [discriminate|]. apply Z.eqb_neq in E. cbn [map cid] in Hin.
  destruct Hin as [Hin|Hin]; [contradiction|]. eapply IH; eassumption.
Qed.

Lemma map_opt_some : forall {A B} (f : A -> option B) l, (forall x, In x l -> f x <> None) -> exists r, map_opt f l = Some r.
Proof.
  induction l as [|a t IH]; intros H; [exists []; reflexivity|]. cbn [map_opt].
  destruct (f a) eqn:E; [|exfalso; apply (H a); [left; reflexivity|exact E]].
  destruct IH as [r Hr]; [intros x Hx; apply H; right; exact Hx|]. rewrite Hr. eexists; reflexivity.
Qed.

Lemma find_block_some : forall out i r c zz, In (i, r, c, zz) out -> find_block out i r c <> None.
Proof.
  induction out as [|[[[i' r'] c'] z'] t IH]; intros i r c zz H; [contradiction|]. cbn [find_block].
  destruct ((i =? i')%nat && (r =? r') && (c =? c')) eqn:E; [discriminate|].
  destruct H as [H|H]; [|eapply IH; exact H]. inversion H; subst.
  rewrite Nat.eqb_refl, !Z.eqb_refl in E. discriminate.
Qed.

(* --------------------------------------------------------- the two walks *)
Definition covered (out : list (nat * Z * Z * list Z)) (g : geom) (i : nat) (h v : Z) : Prop :=
  forall r c, 0 <= r < comp_hb g v -> 0 <= c < comp_wb g h -> exists zz, In (i, r, c, zz) out.

Definition Inv (vst : vstate) (dst : dstate) : Prop :=
  match vs_sof vst with
  | None => ds_sof dst = None /\ vs_coded vst = []
  | Some (n, p, y, x, fc) =>
      ds_sof dst = Some (n, p, y, x, fc) /\ comp_dims_ok fc /\ 1 <= y /\ 1 <= x /\ NoDup (map cid fc) /\
      (sof_progressive n = false -> NoDup (vs_coded vst)) /\
      (forall id, In id (vs_coded vst) -> In id (map cid fc)) /\
      (forall id i ci h v tq, In id (vs_coded vst) -> find_comp fc id O = Some (i, (ci, h, v, tq)) ->
         covered (ds_out dst) (geom_of y x fc) i h v)
  end.

Lemma scan_info_rel : forall fc sc info, scan_info fc sc = Some info ->
  Forall2 (fun (c : scomp) (inf : nat * Z * Z * Z * Z) =>
             let '(cs, td, ta) := c in
             exists i ci h v tq, find_comp fc cs O = Some (i, (ci, h, v, tq)) /\ inf = (i, h, v, td, ta)) sc info.
Proof.
  intros fc sc info H. unfold scan_info in H. apply map_opt_Forall2 in H.
  eapply Forall2_imp; [|exact H]. intros [[cs td] ta] inf Hx. cbn beta iota in Hx.
  destruct (find_comp fc cs 0) as [[i [[[ci h] v] tq]]|]; [|discriminate]. inversion Hx; subst.
  exists i, ci, h, v, tq. split; reflexivity.
Qed.

Lemma Forall2_nth : forall {A B} (P : A -> B -> Prop) l l' x, Forall2 P l l' -> In x l ->
  exists j y, nth_error l j = Some x /\ nth_error l' j = Some y /\ P x y.
Proof.
  intros A B P l l' x F. induction F as [|a b l l' Hab F IH]; intros Hin; [contradiction|].
  destruct Hin as [->|Hin]; [exists O, b; repeat split; assumption|].
  destruct (IH Hin) as (j & y & H1 & H2 & H3). exists (S j), y. repeat split; assumption.
Qed.

Lemma covered_app : forall out out' g i h v, covered out g i h v -> covered (out ++ out') g i h v.
Proof. intros out out' g i h v H r c Hr Hc. destruct (H r c Hr Hc) as [zz Hz]. exists zz. apply in_or_app. left. exact Hz. Qed.

Lemma hv_le_max : forall fc i ci h v tq, nth_error fc i = Some (ci, h, v, tq) ->
  h <= maxZ (map (fun c : fcomp => let '(_, h, _, _) := c in h) fc) /\
  v <= maxZ (map (fun c : fcomp => let '(_, _, v, _) := c in v) fc).
Proof.
  intros fc i ci h v tq H. apply nth_error_In in H. split; apply maxZ_ge.
  - apply (in_map (fun c : fcomp => let '(_, h, _, _) := c in h)) in H. exact H.
  - apply (in_map (fun c : fcomp => let '(_, _, v, _) := c in v)) in H. exact H.
Qed.

(* a decoded scan covers every real block of its components *)
Lemma scan_covers : forall dst sc cx blocks n p y x fc, ds_sof dst = Some (n, p, y, x, fc) ->
  comp_dims_ok fc -> 1 <= y -> 1 <= x ->
  scan_setup dst sc = Some cx ->
  map fst blocks = map (fun p : nat * Z * Z => let '(j, _, _) := p in j) (sx_pos cx) ->
  forall cs td ta i ci h v tq, In (cs, td, ta) sc -> find_comp fc cs O = Some (i, (ci, h, v, tq)) ->
  covered (place cx blocks) (geom_of y x fc) i h v.
Proof.
  intros dst sc cx blocks n p y x fc Hsof Hdim Hy Hx Hset Hfst cs td ta i ci h v tq Hin Hfind r c Hr Hc.
  unfold scan_setup in Hset. rewrite Hsof in Hset.
  destruct (scan_info fc sc) as [info|] eqn:Ei; [|discriminate]. inversion Hset; subst cx. clear Hset.
  cbn [sx_pos sx_info] in *.
  destruct (Forall2_nth _ _ _ _ (scan_info_rel _ _ _ Ei) Hin) as (j & inf & Hj1 & Hj2 & Hrel).
  cbn beta iota in Hrel. destruct Hrel as (i' & ci' & h' & v' & tq' & Hf' & ->). rewrite Hfind in Hf'. inversion Hf'; subst i' ci' h' v' tq'.
  set (g := geom_of y x fc) in *.
  set (hv := map (fun i0 : nat * Z * Z * Z * Z => let '(_, h0, v0, _, _) := i0 in (h0, v0)) info) in *.
  destruct (find_comp_spec _ _ _ _ _ Hfind) as (_ & Hnth & _). rewrite Nat.sub_0_r in Hnth.
  destruct (hv_le_max _ _ _ _ _ _ Hnth) as [Hh Hv].
  assert (Hd : 1 <= h <= 4 /\ 1 <= v <= 4).
  { unfold comp_dims_ok in Hdim. rewrite Forall_forall in Hdim. apply (Hdim (ci, h, v, tq)). eapply nth_error_In; exact Hnth. }
  assert (Hhv : nth_error hv j = Some (h, v)).
  { unfold hv. rewrite nth_error_map, Hj2. reflexivity. }
  assert (Hpos : In (j, r, c) (scan_positions g hv)).
  { apply (positions_complete g hv j h v r c); unfold g, geom_of; cbn [g_x g_y g_hmax g_vmax]; try lia; assumption. }
  assert (Hlen : length (scan_positions g hv) = length blocks).
  { rewrite <- (map_length fst blocks), Hfst, map_length. reflexivity. }
  destruct (in_combine_same_len _ blocks _ Hlen Hpos) as [[j' zz] Hb].
  exists zz. unfold place. cbn [sx_pos sx_info]. apply in_map_iff. exists ((j, r, c), (j', zz)). split; [|exact Hb].
  rewrite (nth_error_nth info j _ Hj2). reflexivity.
Qed.

Lemma nodup_app : forall {A} (a b : list A), NoDup a -> NoDup b -> (forall x, In x a -> ~ In x b) -> NoDup (a ++ b).
Proof.
  induction a as [|x t IH]; intros b Ha Hb Hd; [exact Hb|]. inversion Ha; subst. cbn [app]. constructor.
  - intros Hin. apply in_app_or in Hin. destruct Hin as [Hin|Hin]; [contradiction|]. apply (Hd x); [left; reflexivity|exact Hin].
  - apply IH; [assumption|assumption|]. intros y Hy. apply Hd. right. exact Hy.
Qed.

Lemma covered_app_r : forall out out' g i h v, covered out' g i h v -> covered (out ++ out') g i h v.
Proof. intros out out' g i h v H r c Hr Hc. destruct (H r c Hr Hc) as [zz Hz]. exists zz. apply in_or_app. right. exact Hz. Qed.

Definition sids (sc : list scomp) : list Z := map (fun c : scomp => let '(cs, _, _) := c in cs) sc.

Lemma step_inv : forall s vst dst vst' dst', seg_ok s = true -> Inv vst dst ->
  v_step vst s = Some vst' -> d_step dst s = Some dst' -> Inv vst' dst'.
Proof.
  intros s vst dst vst' dst' Hok HI Hv Hd.
  destruct s.
  - (* DQT *) cbn [v_step d_step] in *. inversion Hv; subst. inversion Hd; subst. exact HI.
  - (* DHT *) cbn [v_step d_step] in *. destruct (forallb htab_code_ok tabs); [|discriminate].
    inversion Hv; subst. inversion Hd; subst. exact HI.
  - cbn [v_step d_step] in *. inversion Hv; subst. inversion Hd; subst. exact HI.
  - (* DRI *) cbn [v_step d_step] in *. inversion Hv; subst. inversion Hd; subst. exact HI.
  - cbn [v_step d_step] in *. inversion Hv; subst. inversion Hd; subst. exact HI.
  - cbn [v_step d_step] in *. inversion Hv; subst. inversion Hd; subst. exact HI.
  - (* SOF *)
    cbn [v_step d_step] in *. unfold Inv in HI. destruct (vs_sof vst) as [[[[[n0 p0] y0] x0] fc0]|]; [discriminate|].
    destruct HI as [HI1 HI2].
    match type of Hv with (if ?c then _ else _) = _ => destruct c eqn:E; [|discriminate] end.
    inversion Hv; subst. clear Hv. destruct (in_range 0 1 n); [|discriminate]. inversion Hd; subst. clear Hd.
    rewrite !andb_true_iff in E. destruct E as ((((E1 & E2) & E3) & E4) & E5).
    cbn [seg_ok] in Hok. rewrite !andb_true_iff in Hok. destruct Hok as (((((O1 & O2) & O3) & O4) & O5) & O6).
    apply in_range_iff in O3. apply in_range_iff in O4.
    unfold Inv. cbn [vs_sof vs_coded ds_sof ds_out]. rewrite HI2.
    split; [reflexivity|]. split.
    { unfold comp_dims_ok. apply Forall_forall. intros [[[ci h] v] tq] Hc. rewrite forallb_forall in O6. specialize (O6 _ Hc).
      cbn beta iota in O6. rewrite !andb_true_iff in O6. destruct O6 as (((A & B) & C) & D).
      apply in_range_iff in B. apply in_range_iff in C. lia. }
    split; [lia|]. split; [lia|]. split; [apply nodupZ_NoDup; exact E4|].
    split; [intros; constructor|]. split; intros; contradiction.
  - (* SOS *)
    cbn [v_step] in Hv. unfold Inv in HI.
    destruct (vs_sof vst) as [[[[[n p] y] x] fc]|] eqn:Esof; [|discriminate].
    destruct HI as (I1 & I2 & I3 & I4 & I5 & I6 & I7 & I8).
    cbv zeta in Hv.
    match type of Hv with (if ?c then _ else _) = _ => destruct c eqn:E; [|discriminate] end.
    inversion Hv; subst vst'. clear Hv.
    rewrite !andb_true_iff in E. destruct E as (((((E1 & E2) & E3) & E4) & E5) & E6).
    cbn [d_step] in Hd.
    destruct (scan_setup dst comps) as [cx|] eqn:Ecx; [|discriminate].
    destruct (dec_scan _ _ _ _ _) as [blocks|] eqn:Eds; [|discriminate]. inversion Hd; subst dst'. clear Hd.
    apply dec_scan_fst in Eds.
    assert (Hinfo : exists info, scan_info fc comps = Some info).
    { unfold scan_setup in Ecx. rewrite I1 in Ecx. destruct (scan_info fc comps); [eexists; reflexivity|discriminate]. }
    destruct Hinfo as [info Hinfo].
    fold (sids comps) in E2, E5 |- *.
    assert (Hids : forall id, In id (sids comps) -> exists td ta i ci h v tq, In (id, td, ta) comps /\ find_comp fc id O = Some (i, (ci, h, v, tq))).
    { intros id Hin. unfold sids in Hin. apply in_map_iff in Hin. destruct Hin as [[[cs td] ta] [<- Hin]].
      destruct (Forall2_nth _ _ _ _ (scan_info_rel _ _ _ Hinfo) Hin) as (j & inf & _ & _ & Hrel). cbn beta iota in Hrel.
      destruct Hrel as (i & ci & h & v & tq & Hf & _). exists td, ta, i, ci, h, v, tq. split; assumption. }
    unfold Inv. cbn [vs_sof vs_coded]. cbn [add_out ds_sof ds_out].
    split; [exact I1|]. split; [exact I2|]. split; [exact I3|]. split; [exact I4|]. split; [exact I5|].
    split.
    { intros Hnp. apply nodup_app; [apply nodupZ_NoDup; exact E2|apply I6; exact Hnp|].
      intros id Hin Hin'. rewrite Hnp in E5. rewrite forallb_forall in E5. specialize (E5 id Hin). apply negb_true_iff in E5.
      assert (existsb (Z.eqb id) (vs_coded vst) = true) by (apply existsb_exists; exists id; split; [exact Hin'|apply Z.eqb_refl]). congruence. }
    split.
    { intros id Hin. apply in_app_or in Hin. destruct Hin as [Hin|Hin]; [|apply I7; exact Hin].
      destruct (Hids id Hin) as (td & ta & i & ci & h & v & tq & _ & Hf).
      destruct (find_comp_spec _ _ _ _ _ Hf) as (_ & Hn & Hc). rewrite <- Hc.
      apply in_map. eapply nth_error_In; exact Hn. }
    intros id i ci h v tq Hin Hf. apply in_app_or in Hin. destruct Hin as [Hin|Hin].
    + destruct (Hids id Hin) as (td & ta & i' & ci' & h' & v' & tq' & Hsc & Hf'). apply covered_app_r.
      eapply (scan_covers dst comps cx blocks n p y x fc I1 I2 I3 I4 Ecx Eds id td ta i ci h v tq Hsc Hf).
    + apply covered_app. eapply I8; eassumption.
Qed.

Lemma walk_inv : forall segs vst dst vst' dst', Forall (fun fs => seg_ok (snd fs) = true) segs -> Inv vst dst ->
  v_walk vst segs = Some vst' -> d_walk dst segs = Some dst' -> Inv vst' dst'.
Proof.
  induction segs as [|[f s] t IH]; intros vst dst vst' dst' Hok HI Hv Hd; cbn [v_walk d_walk] in *.
  - inversion Hv; subst. inversion Hd; subst. exact HI.
  - inversion Hok as [|a b Hs Ht]; subst. cbn [snd] in Hs.
    destruct (v_step vst s) as [v1|] eqn:Ev; [|discriminate]. destruct (d_step dst s) as [d1|] eqn:Ed; [|discriminate].
    eapply IH; [exact Ht| |exact Hv|exact Hd]. eapply step_inv; eassumption.
Qed.

Lemma in_combine_seq_inv : forall {A} (l : list A) i c, In (i, c) (combine (seq 0 (length l)) l) -> nth_error l i = Some c.
Proof.
  intros A l. assert (G : forall k i c, In (i, c) (combine (seq k (length l)) l) -> nth_error l (i - k) = Some c /\ (k <= i)%nat).
  { induction l as [|a t IH]; intros k i c Hc; [contradiction|]. cbn [length seq combine] in Hc. destruct Hc as [Hc|Hc].
    - inversion Hc; subst. rewrite Nat.sub_diag. split; [reflexivity|lia].
    - destruct (IH _ _ _ Hc) as [A1 B1]. split; [|lia]. replace (i - k)%nat with (S (i - S k)) by lia. exact A1. }
  intros i c H. destruct (G O i c H) as [A1 _]. rewrite Nat.sub_0_r in A1. exact A1.
Qed.

Lemma d_walk_sof01 : forall segs d0 d1, d_walk d0 segs = Some d1 ->
  match ds_sof d0 with Some (n0, _, _, _, _) => in_range 0 1 n0 = true | None => True end ->
  match ds_sof d1 with Some (n0, _, _, _, _) => in_range 0 1 n0 = true | None => True end.
Proof.
  induction segs as [|[f sg] t IH]; intros d0 d1 H H0; cbn [d_walk] in H; [inversion H; subst; exact H0|].
  destruct (d_step d0 sg) as [d'|] eqn:E; [|discriminate]. apply (IH _ _ H). clear IH H.
  destruct sg; cbn [d_step] in E; try (inversion E; subst; exact H0).
  - destruct (forallb htab_code_ok tabs); [|discriminate]. inversion E; subst. exact H0.
  - destruct (in_range 0 1 n) eqn:En; [|discriminate]. inversion E; subst. exact En.
  - destruct (scan_setup d0 comps); [|discriminate]. destruct (dec_scan _ _ _ _ _); [|discriminate]. inversion E; subst. exact H0.
Qed.

(* if every scan of a valid stream decodes, the coefficient arrays can be assembled *)
Theorem decode_complete : forall s st, stream_ok s = true -> d_walk ds0 (st_segs s) = Some st ->
  exists arrays, coefs_of_state st = Some arrays.
Proof.
  intros s st Hok Hd. pose proof (stream_ok_segs_ok s Hok) as Hsegs. unfold segs_ok in Hsegs.
  unfold stream_ok in Hok. apply andb_prop in Hok. destruct Hok as [_ Hok].
  destruct (v_walk vs0 (st_segs s)) as [vst|] eqn:Ev; [|discriminate].
  assert (HI0 : Inv vs0 ds0) by (unfold Inv; cbn; split; reflexivity).
  pose proof (walk_inv _ _ _ _ _ Hsegs HI0 Ev Hd) as HI. unfold Inv in HI.
  destruct (vs_sof vst) as [[[[[n p] y] x] fc]|]; [|discriminate].
  destruct HI as (I1 & I2 & I3 & I4 & I5 & I6 & I7 & I8).
  rewrite !andb_true_iff in Hok. destruct Hok as (((_ & _) & _) & Hcov).
  assert (Hn : sof_progressive n = false).
  { pose proof (d_walk_sof01 _ _ _ Hd I) as G. rewrite I1 in G. apply in_range_iff in G. unfold sof_progressive.
    assert (n = 0 \/ n = 1) as [->| ->] by lia; reflexivity. }
  rewrite Hn in Hcov. cbn [orb] in Hcov. apply Nat.eqb_eq in Hcov.
  assert (Hall : forall id, In id (map cid fc) -> In id (vs_coded vst)).
  { apply NoDup_length_incl; [apply I6; exact Hn|rewrite map_length; lia|exact I7]. }
  unfold coefs_of_state. rewrite I1.
  apply map_opt_some. intros [i [[[ci h] v] tq]] Hin.
  apply in_combine_seq_inv in Hin.
  pose proof (find_comp_self fc O i _ I5 Hin) as Hf. cbn [cid Nat.add] in Hf.
  assert (Hc : In ci (vs_coded vst)).
  { apply Hall. change ci with (cid (ci, h, v, tq)). apply in_map. eapply nth_error_In; exact Hin. }
  pose proof (I8 ci i ci h v tq Hc Hf) as Hcovd.
  destruct (map_opt_some (fun rc : Z * Z => option_map to_natural (find_block (ds_out st) i (fst rc) (snd rc)))
              (flat_map (fun r => map (fun c => (r, c)) (zrange (comp_wb (geom_of y x fc) h))) (zrange (comp_hb (geom_of y x fc) v)))) as [bl Hbl].
  { intros [r c] Hrc. apply in_flat_map in Hrc. destruct Hrc as (r' & Hr' & Hc'). apply in_map_iff in Hc'. destruct Hc' as (c' & Heq & Hc').
    inversion Heq; subst r' c'. apply in_zrange in Hr'. apply in_zrange in Hc'. cbn [fst snd].
    destruct (Hcovd r c Hr' Hc') as [zz Hz]. pose proof (find_block_some _ _ _ _ _ Hz) as Hfb.
    destruct (find_block (ds_out st) i r c); [discriminate|contradiction]. }
  rewrite Hbl. discriminate.
Qed.

(* C04_writer_sound_full *)
Theorem writer_sound_full : forall ch im s, im_ok im -> layout ch im = Some s -> stream_ok s = true ->
  exists arrays, t81_decode s = Some arrays.
Proof.
  intros ch im s Him Hl Hok. unfold layout in Hl.
  destruct (w_walk im ds0 (ch_items ch)) as [[segs stf]|] eqn:E; [|discriminate]. inversion Hl; subst. clear Hl.
  pose proof (w_walk_d_walk _ _ _ _ _ ds0_ok Him E) as Hd.
  unfold t81_decode. cbn [st_segs] in *. rewrite Hd. apply (decode_complete _ stf Hok). exact Hd.
Qed.
