(* C13 -- proofs about model/Dest.v: heap lemmas, the in-call invariant J, the
   between-calls invariant Inv, and the theorems over all producers / histories. *)
From Coq Require Import List ZArith Bool Lia.
From LJT Require Import gen.GenDest model.Dest.
Import ListNotations.
Local Open Scope Z_scope.

(* ------------------------------------------------------------ constants *)
Lemma growth_2 m : growth m = 2.
Proof. destruct m; reflexivity. Qed.
Lemma out_buf_pos m : 0 < out_buf_size m.
Proof. destruct m; reflexivity. Qed.
Lemma bufsize_512 : huff_local_bufsize = 512.
Proof. reflexivity. Qed.
Lemma tj_clr_true : cf_clr cfg_tj = true.
Proof. reflexivity. Qed.

(* --------------------------------------------------------------- blocks *)
Lemma find_upd_addr a a' f bs : (forall b, b_addr (f b) = b_addr b) ->
  find (addr_is a') (upd_addr a f bs) =
  if a' =? a then option_map f (find (addr_is a) bs) else find (addr_is a') bs.
Proof.
  intros Hf. unfold addr_is. induction bs as [|b t IH]; cbn [upd_addr find].
  - destruct (a' =? a); reflexivity.
  - unfold addr_is. destruct (b_addr b =? a) eqn:Ea.
    + cbn [find]. rewrite Hf. apply Z.eqb_eq in Ea. subst a.
      destruct (b_addr b =? a') eqn:E.
      * apply Z.eqb_eq in E. subst a'. rewrite Z.eqb_refl. reflexivity.
      * rewrite Z.eqb_sym, E. reflexivity.
    + cbn [find]. destruct (b_addr b =? a') eqn:E.
      * destruct (a' =? a) eqn:E2; [|reflexivity].
        apply Z.eqb_eq in E, E2. subst. rewrite Z.eqb_refl in Ea. discriminate.
      * exact IH.
Qed.

Lemma In_upd_addr a f bs b' : In b' (upd_addr a f bs) -> In b' bs \/ exists b0, In b0 bs /\ b' = f b0.
Proof.
  induction bs as [|b t IH]; cbn [upd_addr]; [tauto|].
  destruct (addr_is a b).
  - intros [<-|H]; [right; exists b; split; [left|]; reflexivity | left; right; exact H].
  - intros [<-|H]; [left; left; reflexivity|].
    destruct (IH H) as [H1|(b0 & H1 & H2)]; [left; right; exact H1 | right; exists b0; split; [right|]; assumption].
Qed.

Definition WF (h : heap) : Prop := 0 < h_fresh h /\ forall b, In b (h_blocks h) -> 0 < b_addr b < h_fresh h.
Definition nobad (h : heap) : Prop := existsb is_bad (h_log h) = false.

Lemma blk_In h a b : blk h a = Some b -> In b (h_blocks h) /\ b_addr b = a.
Proof.
  unfold blk. intros H. apply find_some in H as (H1 & H2).
  split; [exact H1|]. unfold addr_is in H2. apply Z.eqb_eq in H2. exact H2.
Qed.

Lemma blk_range h a b : WF h -> blk h a = Some b -> 0 < a < h_fresh h.
Proof. intros W H. apply blk_In in H as (H1 & <-). apply W, H1. Qed.
Lemma blk_null h : WF h -> blk h 0 = None.
Proof.
  intros W. destruct (blk h 0) eqn:E; [|reflexivity]. apply blk_range in E; [lia|exact W].
Qed.
Lemma blk_fresh h : WF h -> blk h (h_fresh h) = None.
Proof.
  intros W. destruct (blk h (h_fresh h)) eqn:E; [|reflexivity]. apply blk_range in E; [lia|exact W].
Qed.

Lemma blk_upd h a a' f : (forall b, b_addr (f b) = b_addr b) ->
  blk (h_upd a f h) a' = if a' =? a then option_map f (blk h a) else blk h a'.
Proof. intros Hf. unfold blk, h_upd. cbn [h_blocks]. apply find_upd_addr, Hf. Qed.

Lemma WF_upd h a f : (forall b, b_addr (f b) = b_addr b) -> WF h -> WF (h_upd a f h).
Proof.
  intros Hf (W0 & W). split; [exact W0|]. intros b Hb. unfold h_upd in Hb. cbn [h_blocks h_fresh] in *.
  apply In_upd_addr in Hb as [Hb|(b0 & Hb & ->)]; [apply W, Hb|]. rewrite Hf. apply W, Hb.
Qed.

Lemma WF_logadd e h : WF h -> WF (h_logadd e h).
Proof. intros W. exact W. Qed.
Lemma WF_lastfreed a h : WF h -> WF (h_set_lastfreed a h).
Proof. intros W. exact W. Qed.

Lemma addr_set_freed b : b_addr (set_freed b) = b_addr b. Proof. reflexivity. Qed.
Lemma addr_set_handed b : b_addr (set_handed b) = b_addr b. Proof. reflexivity. Qed.
Lemma addr_set_data k d b : b_addr (set_data k d b) = b_addr b. Proof. reflexivity. Qed.
Lemma addr_put1 o x b : b_addr (put1 o x b) = b_addr b. Proof. reflexivity. Qed.
Lemma addr_putn o x b : b_addr (putn o x b) = b_addr b. Proof. reflexivity. Qed.
Lemma addr_hand_block b : b_addr (hand_block b) = b_addr b.
Proof. unfold hand_block. destruct (b_owner b); reflexivity. Qed.

(* malloc without recycling *)
Lemma malloc_fresh h sz o :
  h_malloc h sz o false =
  (mkH (mkB (h_nextid h) (h_fresh h) sz o false false 0 [] :: h_blocks h) (h_fresh h + 1) (h_nextid h + 1)
       (h_lastfreed h) (LMalloc (h_nextid h) sz o :: h_log h), h_fresh h).
Proof. reflexivity. Qed.

Lemma WF_malloc h sz o h' a : WF h -> h_malloc h sz o false = (h', a) ->
  WF h' /\ a = h_fresh h /\ h_fresh h' = h_fresh h + 1 /\
  (forall a', blk h' a' = if a' =? a then Some (mkB (h_nextid h) a sz o false false 0 []) else blk h a') /\
  h_log h' = LMalloc (h_nextid h) sz o :: h_log h.
Proof.
  intros W H. rewrite malloc_fresh in H. inversion H; subst; clear H.
  destruct W as (W0 & W).
  split; [|split; [reflexivity|split; [reflexivity|split; [|reflexivity]]]].
  - split; [cbn [h_fresh]; lia|]. intros b [<-|Hb]; cbn [b_addr h_fresh].
    + lia.
    + specialize (W b Hb). lia.
  - intros a'. unfold blk. cbn [h_blocks find]. unfold addr_is at 1. cbn [b_addr].
    rewrite Z.eqb_sym. reflexivity.
Qed.

(* ------------------------------------------------------------------ logs *)
Lemma nobad_logadd e h : is_bad e = false -> nobad h -> nobad (h_logadd e h).
Proof. unfold nobad, h_logadd. cbn [h_log existsb]. intros -> H. exact H. Qed.
Lemma nobad_upd a f h : nobad h -> nobad (h_upd a f h).
Proof. intros H. exact H. Qed.
Lemma nobad_lastfreed a h : nobad h -> nobad (h_set_lastfreed a h).
Proof. intros H. exact H. Qed.

Lemma live_some h a b : blk h a = Some b -> b_freed b = false -> live h a = Some b.
Proof. unfold live. intros -> ->. reflexivity. Qed.
Lemma live_inv h a b : live h a = Some b -> blk h a = Some b /\ b_freed b = false.
Proof.
  unfold live. destruct (blk h a) as [b0|]; [|discriminate].
  destruct (b_freed b0) eqn:E; [discriminate|]. intros H. inversion H; subst. split; [reflexivity|exact E].
Qed.

Lemma take_known_same n d : take_known n n d = d.
Proof. unfold take_known. rewrite Z.eqb_refl. reflexivity. Qed.

(* ------------------------------------------------- the in-call invariant *)
Definition bufOK (h : heap) (cur buf : Z) (d : dest) (b : block) : Prop :=
  blk h (d_buffer d) = Some b /\ b_freed b = false /\
  0 < d_bufsize d <= b_size b /\
  (d_newbuffer d = 0 \/
   (d_newbuffer d = d_buffer d /\ b_owner b = Lib /\ (b_handed b = false \/ d_buffer d = cur))) /\
  (d_alloc d = false -> d_newbuffer d = 0 /\ d_buffer d = buf).

(* free_in_buffer may be 0 only between a store and the dump that follows it *)
Definition Jg (h : heap) (cur buf : Z) (d : dest) (wr : list Z) : Prop :=
  WF h /\ nobad h /\
  (exists b, bufOK h cur buf d b /\ b_known b = d_next_off d /\ b_data b = rev wr) /\
  d_next_base d = d_buffer d /\
  0 <= d_free d <= d_bufsize d /\
  d_next_off d = d_bufsize d - d_free d /\
  d_next_off d = Z.of_nat (length wr).
Definition J (h : heap) (cur buf : Z) (d : dest) (wr : list Z) : Prop := Jg h cur buf d wr /\ 0 < d_free d.

Definition same_shape (b b' : block) : Prop :=
  b_size b' = b_size b /\ b_owner b' = b_owner b /\ b_handed b' = b_handed b /\ b_freed b' = b_freed b.

Lemma bufOK_shape h h' cur buf d b b' :
  bufOK h cur buf d b -> same_shape b b' -> blk h' (d_buffer d) = Some b' -> bufOK h' cur buf d b'.
Proof.
  intros (H1 & H2 & H3 & H4 & H5) (S1 & S2 & S3 & S4) Hb.
  unfold bufOK. rewrite S1, S2, S3, S4. repeat split; try assumption; try lia; apply H5; assumption.
Qed.

(* a single byte store at the cursor *)
Lemma write_ok h cur buf d wr x : J h cur buf d wr ->
  Jg (h_write h (d_next_base d) (d_next_off d) x) cur buf
     (mkD (d_buffer d) (d_bufsize d) (d_newbuffer d) (d_alloc d) (d_next_base d) (d_next_off d + 1) (d_free d - 1))
     (wr ++ [x]).
Proof.
  intros ((W & NB & (b & OK & Hk & Hd) & Hbase & Hfr & Hoff & Hlen) & Hpos).
  pose proof OK as (Hblk & Hlive & Hsz & _).
  unfold h_write. rewrite Hbase, (live_some _ _ _ Hblk Hlive).
  assert (Hin : (0 <=? d_next_off d) && (d_next_off d <? b_size b) = true).
  { apply andb_true_intro. split; [apply Z.leb_le; lia | apply Z.ltb_lt; lia]. }
  rewrite Hin.
  assert (Hb' : blk (h_upd (d_buffer d) (put1 (d_next_off d) x) h) (d_buffer d) = Some (put1 (d_next_off d) x b)).
  { rewrite blk_upd by apply addr_put1. rewrite Z.eqb_refl, Hblk. reflexivity. }
  unfold Jg. cbn [d_buffer d_bufsize d_newbuffer d_alloc d_next_base d_next_off d_free].
  split; [apply WF_upd; [apply addr_put1|exact W]|].
  split; [exact NB|].
  split.
  { exists (put1 (d_next_off d) x b). split; [|split].
    - eapply bufOK_shape with (d := mkD (d_buffer d) (d_bufsize d) (d_newbuffer d) (d_alloc d) (d_next_base d) (d_next_off d + 1) (d_free d - 1)) (b := b).
      + exact OK.
      + repeat split.
      + exact Hb'.
    - reflexivity.
    - cbn [put1 set_data b_data]. rewrite <- Hk, take_known_same, Hd, rev_unit. reflexivity. }
  split; [reflexivity|]. split; [lia|]. split; [lia|].
  rewrite app_length. cbn [length]. lia.
Qed.

(* memcpy of a chunk that fits in the free space *)
Lemma write_list_ok h cur buf d wr xs : Jg h cur buf d wr -> Z.of_nat (length xs) <= d_free d ->
  Jg (h_write_list h (d_next_base d) (d_next_off d) xs) cur buf
     (mkD (d_buffer d) (d_bufsize d) (d_newbuffer d) (d_alloc d) (d_next_base d)
          (d_next_off d + Z.of_nat (length xs)) (d_free d - Z.of_nat (length xs)))
     (wr ++ xs).
Proof.
  intros (W & NB & (b & OK & Hk & Hd) & Hbase & Hfr & Hoff & Hlen) Hfit.
  destruct d as [bf bs nb al nbase noff fr].
  cbn [d_buffer d_bufsize d_newbuffer d_alloc d_next_base d_next_off d_free] in *.
  destruct xs as [|x0 xs'].
  - cbn [h_write_list length Z.of_nat]. rewrite app_nil_r, Z.add_0_r, Z.sub_0_r.
    unfold Jg. cbn [d_buffer d_bufsize d_newbuffer d_alloc d_next_base d_next_off d_free].
    split; [exact W|]. split; [exact NB|]. split; [exists b; split; [exact OK|split; assumption]|].
    split; [exact Hbase|]. split; [exact Hfr|]. split; assumption.
  - set (xs := x0 :: xs') in *.
    pose proof OK as (Hblk & Hlive & Hsz & _). cbn [d_buffer d_bufsize] in Hblk, Hsz.
    subst nbase. unfold h_write_list. fold xs.
    replace (match xs with [] => h | _ :: _ => _ end) with
      (match live h bf with
       | Some b0 => if (0 <=? noff) && (noff + Z.of_nat (length xs) <=? b_size b0)
                    then h_upd bf (putn noff xs) h
                    else h_logadd (LBad (BadOverrun (b_id b0) (Z.max noff (b_size b0)))) h
       | None => h_logadd (LBad (BadOverrun (id_at h bf) noff)) h
       end) by reflexivity.
    rewrite (live_some _ _ _ Hblk Hlive).
    assert (Hin : (0 <=? noff) && (noff + Z.of_nat (length xs) <=? b_size b) = true).
    { apply andb_true_intro. split; [apply Z.leb_le; lia | apply Z.leb_le; lia]. }
    rewrite Hin.
    assert (Hb' : blk (h_upd bf (putn noff xs) h) bf = Some (putn noff xs b)).
    { rewrite blk_upd by apply addr_putn. rewrite Z.eqb_refl, Hblk. reflexivity. }
    unfold Jg. cbn [d_buffer d_bufsize d_newbuffer d_alloc d_next_base d_next_off d_free].
    split; [apply WF_upd; [apply addr_putn|exact W]|].
    split; [exact NB|].
    split.
    { exists (putn noff xs b). split; [|split].
      - eapply bufOK_shape with (b := b); [exact OK | repeat split | exact Hb'].
      - reflexivity.
      - cbn [putn set_data b_data]. rewrite <- Hk, take_known_same, Hd, rev_append_rev, rev_app_distr. reflexivity. }
    split; [reflexivity|]. split; [lia|]. split; [lia|].
    rewrite app_length. lia.
Qed.

Definition framed (w w' : world) : Prop := exists h', w' = set_heap h' w.
Lemma framed_refl w : framed w w.
Proof. exists (w_heap w). destruct w; reflexivity. Qed.
Lemma framed_set w h : framed w (set_heap h w).
Proof. exists h. reflexivity. Qed.
Lemma framed_trans w1 w2 w3 : framed w1 w2 -> framed w2 w3 -> framed w1 w3.
Proof. intros (h2 & ->) (h3 & ->). exists h3. reflexivity. Qed.
Lemma framed_cur w w' : framed w w' -> w_cur w' = w_cur w /\ w_buf w' = w_buf w /\ w_ok w' = w_ok w /\
  w_size w' = w_size w /\ w_dest w' = w_dest w /\ w_held w' = w_held w /\ w_reusable w' = w_reusable w.
Proof. intros (h & ->). repeat split. Qed.
Lemma framed_px w w' : framed w w' -> w_px w' = w_px w.
Proof. intros (h & ->). reflexivity. Qed.

(* empty_mem_output_buffer when the buffer is exactly full *)
Lemma empty_ok m w d wr : Jg (w_heap w) (w_cur w) (w_buf w) d wr -> d_free d = 0 ->
  match empty_output_buffer m w d with
  | (w', d', None) => framed w w' /\ J (w_heap w') (w_cur w) (w_buf w) d' wr
  | (w', d', Some st) => w' = w /\ d' = d /\ st = StBufSize /\ d_alloc d = false
  end.
Proof.
  intros (W & NB & (b & OK & Hk & Hd) & Hbase & Hfr & Hoff & Hlen) Hz.
  unfold empty_output_buffer. destruct (d_alloc d) eqn:Hal; cbn [negb].
  2: { repeat split; reflexivity. }
  rewrite growth_2.
  destruct (h_malloc (w_heap w) (d_bufsize d * 2) Lib false) as [h1 nb] eqn:Hm.
  apply WF_malloc in Hm as (W1 & Hnb & Hfresh1 & Hblk1 & Hlog1); [|exact W].
  pose proof OK as (Hblk & Hlive & Hsz & Hnew & Hna).
  pose proof (blk_range _ _ _ W Hblk) as Hrng.
  assert (Hne : d_buffer d =? nb = false) by (apply Z.eqb_neq; lia).
  assert (Hne' : nb =? d_buffer d = false) by (apply Z.eqb_neq; lia).
  assert (Hb1 : blk h1 (d_buffer d) = Some b) by (rewrite Hblk1, Hne; exact Hblk).
  unfold h_copy. rewrite (live_some _ _ _ Hb1 Hlive).
  assert (Hle : d_bufsize d <=? b_size b = true) by (apply Z.leb_le; lia). rewrite Hle.
  assert (Hkn : b_known b = d_bufsize d) by lia. rewrite Hkn, take_known_same.
  set (nblk := mkB (h_nextid (w_heap w)) nb (d_bufsize d * 2) Lib false false 0 []) in *.
  set (nblk' := set_data (d_bufsize d) (b_data b) nblk).
  set (h2 := h_upd nb (set_data (d_bufsize d) (b_data b)) h1).
  assert (Hb2n : blk h2 nb = Some nblk').
  { unfold h2. rewrite blk_upd by apply addr_set_data. rewrite Z.eqb_refl, Hblk1, Z.eqb_refl. reflexivity. }
  assert (Hb2 : blk h2 (d_buffer d) = Some b).
  { unfold h2. rewrite blk_upd by apply addr_set_data. rewrite Hne. exact Hb1. }
  assert (W2 : WF h2) by (apply WF_upd; [apply addr_set_data|exact W1]).
  assert (NB2 : nobad h2).
  { unfold nobad, h2. cbn [h_log h_upd]. rewrite Hlog1. cbn [existsb is_bad orb]. exact NB. }
  assert (Fin : forall h3, WF h3 -> nobad h3 -> blk h3 nb = Some nblk' ->
            J h3 (w_cur w) (w_buf w) (mkD nb (d_bufsize d * 2) nb true nb (d_bufsize d) (d_bufsize d)) wr).
  { intros h3 W3 NB3 Hb3. split; [|cbn [d_free]; lia].
    unfold Jg. cbn [d_buffer d_bufsize d_newbuffer d_alloc d_next_base d_next_off d_free].
    split; [exact W3|]. split; [exact NB3|]. split.
    { exists nblk'. split; [|split; [reflexivity|exact Hd]].
      unfold bufOK. cbn [d_buffer d_bufsize d_newbuffer d_alloc].
      split; [exact Hb3|]. split; [reflexivity|]. split; [cbn; lia|].
      split; [right; split; [reflexivity|split; [reflexivity|left; reflexivity]]|]. discriminate. }
    split; [reflexivity|]. split; [lia|]. split; [lia|]. lia. }
  destruct Hnew as [Hn0|(Hn1 & Hown & Hh)].
  - unfold h_free_lib. rewrite Hn0. cbn [Z.eqb].
    split; [apply framed_set|]. cbn [w_heap set_heap]. apply Fin; assumption.
  - unfold h_free_lib. rewrite Hn1.
    assert (E0 : d_buffer d =? 0 = false) by (apply Z.eqb_neq; lia). rewrite E0.
    rewrite (live_some _ _ _ Hb2 Hlive), Hown.
    assert (Ec : b_handed b && negb (d_buffer d =? w_cur w) = false).
    { destruct Hh as [-> | ->]; [reflexivity|]. rewrite Z.eqb_refl. apply andb_false_r. }
    rewrite Ec. split; [apply framed_set|]. cbn [w_heap set_heap]. apply Fin.
    + apply WF_logadd, WF_lastfreed, WF_upd; [apply addr_set_freed|exact W2].
    + apply nobad_logadd; [reflexivity|]. exact NB2.
    + unfold blk, h_logadd, h_set_lastfreed. cbn [h_blocks]. fold (blk (h_upd (d_buffer d) set_freed h2) nb).
      rewrite blk_upd by apply addr_set_freed. rewrite Hne'. exact Hb2n.
Qed.

(* state after an error exit of the producer *)
Definition Epost (w w' : world) (d' : dest) (st : status) : Prop :=
  framed w w' /\ (exists wr', Jg (w_heap w') (w_cur w) (w_buf w) d' wr') /\
  st = StBufSize /\ d_alloc d' = false.

Lemma sub_size_t_le a b : b <= a -> sub_size_t a b = a - b.
Proof. intros H. unfold sub_size_t. destruct (b <=? a) eqn:E; [reflexivity|]. apply Z.leb_gt in E. lia. Qed.

Lemma put_byte_ok m w d wr x : J (w_heap w) (w_cur w) (w_buf w) d wr ->
  match put_byte m x w d with
  | (w', d', None) => framed w w' /\ J (w_heap w') (w_cur w) (w_buf w) d' (wr ++ [x])
  | (w', d', Some st) => Epost w w' d' st
  end.
Proof.
  intros HJ. pose proof (write_ok _ _ _ _ _ x HJ) as HW. destruct HJ as (HG & Hpos).
  unfold put_byte. rewrite sub_size_t_le by lia.
  set (h1 := h_write (w_heap w) (d_next_base d) (d_next_off d) x) in *.
  set (d1 := mkD (d_buffer d) (d_bufsize d) (d_newbuffer d) (d_alloc d) (d_next_base d) (d_next_off d + 1) (d_free d - 1)) in *.
  destruct (d_free d - 1 =? 0) eqn:E.
  - apply Z.eqb_eq in E.
    pose proof (empty_ok m (set_heap h1 w) d1 (wr ++ [x]) HW E) as HE.
    destruct (empty_output_buffer m (set_heap h1 w) d1) as [[w' d'] [st|]].
    + destruct HE as (-> & -> & -> & Hal). unfold Epost. split; [apply framed_set|].
      split; [exists (wr ++ [x]); exact HW|]. split; [reflexivity|exact Hal].
    + destruct HE as (Hf & HJ'). split; [|exact HJ'].
      eapply framed_trans; [apply framed_set|exact Hf].
  - apply Z.eqb_neq in E. split; [apply framed_set|]. split; [exact HW|].
    destruct HW as (_ & _ & _ & _ & Hfr & _). cbn [d1 d_free] in *. lia.
Qed.

Lemma Epost_trans w w2 w' d' st : framed w w2 -> Epost w2 w' d' st -> Epost w w' d' st.
Proof.
  intros F (F2 & HJ & Hs). pose proof (framed_cur _ _ F) as (Hc & Hb & _).
  rewrite Hc, Hb in HJ. split; [eapply framed_trans; eassumption|]. split; assumption.
Qed.

Lemma store_local_ok m : forall fuel xs w d wr,
  J (w_heap w) (w_cur w) (w_buf w) d wr -> (length xs < fuel)%nat ->
  match store_local fuel m xs w d with
  | (w', d', None) => framed w w' /\ J (w_heap w') (w_cur w) (w_buf w) d' (wr ++ xs)
  | (w', d', Some st) => Epost w w' d' st
  end.
Proof.
  induction fuel as [|f IH]; intros xs w d wr HJ Hlen; [lia|].
  destruct xs as [|x0 xs'].
  { cbn [store_local]. rewrite app_nil_r. split; [apply framed_refl|exact HJ]. }
  cbn [store_local].
  set (xs := x0 :: xs') in *.
  assert (Hnz : (0 < length xs)%nat) by (cbn; lia).
  destruct HJ as (HG & Hpos).
  set (n := Z.min (Z.of_nat (length xs)) (d_free d)).
  assert (Hn : 1 <= n <= Z.of_nat (length xs) /\ n <= d_free d) by (unfold n; lia).
  set (xs1 := firstn (Z.to_nat n) xs). set (xs2 := skipn (Z.to_nat n) xs).
  assert (Hl1 : Z.of_nat (length xs1) = n).
  { unfold xs1. rewrite firstn_length_le by lia. lia. }
  assert (Hl2 : (length xs2 < f)%nat).
  { unfold xs2. rewrite skipn_length. lia. }
  assert (Hcat : xs1 ++ xs2 = xs) by apply firstn_skipn.
  pose proof (write_list_ok _ _ _ _ _ xs1 HG) as HW. rewrite Hl1 in HW. specialize (HW (proj2 Hn)).
  set (h1 := h_write_list (w_heap w) (d_next_base d) (d_next_off d) xs1) in *.
  set (d1 := mkD (d_buffer d) (d_bufsize d) (d_newbuffer d) (d_alloc d) (d_next_base d) (d_next_off d + n) (d_free d - n)) in *.
  cbn [d_free d1].
  destruct (d_free d - n =? 0) eqn:E.
  - apply Z.eqb_eq in E.
    pose proof (empty_ok m (set_heap h1 w) d1 (wr ++ xs1) HW E) as HE.
    destruct (empty_output_buffer m (set_heap h1 w) d1) as [[w2 d2] [st|]].
    + destruct HE as (-> & -> & -> & Hal). split; [apply framed_set|].
      split; [exists (wr ++ xs1); exact HW|]. split; [reflexivity|exact Hal].
    + destruct HE as (Hf & HJ2).
      assert (F : framed w w2) by (eapply framed_trans; [apply framed_set|exact Hf]).
      pose proof (framed_cur _ _ F) as (Hc & Hb & _).
      specialize (IH xs2 w2 d2 (wr ++ xs1)). rewrite Hc, Hb in IH. specialize (IH HJ2 Hl2).
      destruct (store_local f m xs2 w2 d2) as [[w' d'] [st|]].
      * eapply Epost_trans; [exact F|exact IH].
      * destruct IH as (A & B). split; [eapply framed_trans; eassumption|].
        rewrite <- app_assoc, Hcat in B. exact B.
  - apply Z.eqb_neq in E.
    assert (HJ1 : J h1 (w_cur w) (w_buf w) d1 (wr ++ xs1)).
    { split; [exact HW|]. cbn [d1 d_free]. lia. }
    specialize (IH xs2 (set_heap h1 w) d1 (wr ++ xs1) HJ1 Hl2).
    destruct (store_local f m xs2 (set_heap h1 w) d1) as [[w' d'] [st|]].
    + eapply Epost_trans; [apply framed_set|exact IH].
    + destruct IH as (A & B). split; [eapply framed_trans; [apply framed_set|exact A]|].
      rewrite <- app_assoc, Hcat in B. exact B.
Qed.

Lemma put_chunk_ok m w d wr xs : J (w_heap w) (w_cur w) (w_buf w) d wr ->
  Z.of_nat (length xs) < huff_local_bufsize ->
  match put_chunk m xs w d with
  | (w', d', None) => framed w w' /\ J (w_heap w') (w_cur w) (w_buf w) d' (wr ++ xs)
  | (w', d', Some st) => Epost w w' d' st
  end.
Proof.
  intros HJ Hlen. unfold put_chunk. destruct (d_free d <? huff_local_bufsize) eqn:E.
  - apply store_local_ok; [exact HJ|lia].
  - apply Z.ltb_ge in E. destruct HJ as (HG & Hpos).
    pose proof (write_list_ok _ _ _ _ _ xs HG) as HW. specialize (HW ltac:(lia)).
    rewrite sub_size_t_le by lia.
    split; [apply framed_set|]. split; [exact HW|]. cbn [d_free]. lia.
Qed.

(* result of a whole producer run *)
Definition Rpost (w w' : world) (d' : dest) (st : status) (wr : list Z) (ops : list pop) : Prop :=
  framed w w' /\
  match st with
  | StOk => J (w_heap w') (w_cur w) (w_buf w) d' (wr ++ bytes_of ops) /\ forallb no_abort ops = true
  | _ => (exists wr', Jg (w_heap w') (w_cur w) (w_buf w) d' wr') /\
         ((st = StBufSize /\ d_alloc d' = false) \/ (st = StAbort /\ forallb no_abort ops = false))
  end.

Lemma run_ops_ok m : forall ops w d wr,
  J (w_heap w) (w_cur w) (w_buf w) d wr -> forallb chunk_ok ops = true ->
  match run_ops m ops w d with (w', d', st) => Rpost w w' d' st wr ops end.
Proof.
  induction ops as [|o t IH]; intros w d wr HJ Hc.
  - cbn [run_ops]. split; [apply framed_refl|]. cbn [bytes_of flat_map forallb]. rewrite app_nil_r. split; [exact HJ|reflexivity].
  - cbn [forallb] in Hc. apply andb_true_iff in Hc as (Hc1 & Hc2).
    cbn [run_ops].
    assert (Step : match run_op m o w d with
                   | (w1, d1, None) => framed w w1 /\ J (w_heap w1) (w_cur w) (w_buf w) d1 (wr ++ bytes_of_op o) /\ no_abort o = true
                   | (w1, d1, Some st) => framed w w1 /\ (exists wr', Jg (w_heap w1) (w_cur w) (w_buf w) d1 wr') /\
                        ((st = StBufSize /\ d_alloc d1 = false) \/ (st = StAbort /\ no_abort o = false))
                   end).
    { destruct o as [x|xs|]; cbn [run_op bytes_of_op no_abort].
      - pose proof (put_byte_ok m w d wr x HJ) as H. destruct (put_byte m x w d) as [[w1 d1] [st|]].
        + destruct H as (A & B & C & D). split; [exact A|]. split; [exact B|]. left. split; assumption.
        + destruct H as (A & B). split; [exact A|]. split; [exact B|reflexivity].
      - cbn [chunk_ok] in Hc1. apply Z.ltb_lt in Hc1.
        pose proof (put_chunk_ok m w d wr xs HJ Hc1) as H. destruct (put_chunk m xs w d) as [[w1 d1] [st|]].
        + destruct H as (A & B & C & D). split; [exact A|]. split; [exact B|]. left. split; assumption.
        + destruct H as (A & B). split; [exact A|]. split; [exact B|reflexivity].
      - split; [apply framed_refl|]. split; [exists wr; exact (proj1 HJ)|]. right. split; reflexivity. }
    destruct (run_op m o w d) as [[w1 d1] [st|]].
    + destruct Step as (A & B & C). split; [exact A|].
      destruct C as [(-> & Hal)|(-> & Hab)].
      * split; [exact B|]. left. split; [reflexivity|exact Hal].
      * split; [exact B|]. right. split; [reflexivity|]. cbn [forallb]. rewrite Hab. reflexivity.
    + destruct Step as (A & B & C).
      pose proof (framed_cur _ _ A) as (Hcur & Hbuf & _).
      specialize (IH w1 d1 (wr ++ bytes_of_op o)). rewrite Hcur, Hbuf in IH. specialize (IH B Hc2).
      destruct (run_ops m t w1 d1) as [[w' d'] st].
      destruct IH as (F & R). split; [eapply framed_trans; eassumption|].
      cbn [bytes_of flat_map forallb]. fold (bytes_of t). rewrite C. cbn [andb].
      rewrite <- app_assoc in R. rewrite Hcur, Hbuf in R. exact R.
Qed.

(* ------------------------------------------- what never changes without alloc *)
Definition key (b : block) := (b_id b, b_addr b, b_size b, b_owner b, b_freed b).
Definition skel (h : heap) := (h_nextid h, map key (h_blocks h)).

Lemma map_upd_addr {A} (g : block -> A) a f bs : (forall b, g (f b) = g b) -> map g (upd_addr a f bs) = map g bs.
Proof.
  intros Hg. induction bs as [|b t IH]; [reflexivity|]. cbn [upd_addr].
  destruct (addr_is a b); cbn [map]; [rewrite Hg|rewrite IH]; reflexivity.
Qed.
Lemma skel_upd a f h : (forall b, key (f b) = key b) -> skel (h_upd a f h) = skel h.
Proof. intros Hk. unfold skel, h_upd. cbn [h_nextid h_blocks]. rewrite map_upd_addr by exact Hk. reflexivity. Qed.
Lemma skel_logadd e h : skel (h_logadd e h) = skel h. Proof. reflexivity. Qed.

Lemma skel_write h a o x : skel (h_write h a o x) = skel h.
Proof.
  unfold h_write. destruct (live h a); [|apply skel_logadd].
  destruct ((0 <=? o) && (o <? b_size b)); [apply skel_upd; reflexivity|apply skel_logadd].
Qed.
Lemma skel_write_list h a o xs : skel (h_write_list h a o xs) = skel h.
Proof.
  unfold h_write_list. destruct xs; [reflexivity|]. destruct (live h a); [|apply skel_logadd].
  destruct ((0 <=? o) && _); [apply skel_upd; reflexivity|apply skel_logadd].
Qed.

Definition stable (w w' : world) (d d' : dest) : Prop :=
  framed w w' /\ d_alloc d' = d_alloc d /\
  (d_alloc d = false -> d_buffer d' = d_buffer d /\ d_bufsize d' = d_bufsize d /\ skel (w_heap w') = skel (w_heap w)).

Lemma stable_trans w w1 w2 d d1 d2 : stable w w1 d d1 -> stable w1 w2 d1 d2 -> stable w w2 d d2.
Proof.
  intros (F1 & A1 & S1) (F2 & A2 & S2). split; [eapply framed_trans; eassumption|].
  split; [congruence|]. intros Hf. destruct (S1 Hf) as (a & b & c).
  destruct (S2 ltac:(congruence)) as (a' & b' & c'). repeat split; congruence.
Qed.

Lemma empty_stable m w d : match empty_output_buffer m w d with (w', d', _) => stable w w' d d' end.
Proof.
  unfold empty_output_buffer. destruct (d_alloc d) eqn:E; cbn [negb].
  - destruct (h_malloc (w_heap w) (d_bufsize d * growth m) Lib false) as [h1 nb].
    split; [apply framed_set|]. split; [cbn; congruence|]. intros H; congruence.
  - split; [apply framed_refl|]. split; [reflexivity|]. intros _. repeat split.
Qed.

Lemma put_byte_stable m x w d : match put_byte m x w d with (w', d', _) => stable w w' d d' end.
Proof.
  unfold put_byte.
  set (h1 := h_write _ _ _ _). set (d1 := mkD _ _ _ _ _ _ _).
  assert (S1 : stable w (set_heap h1 w) d d1).
  { split; [apply framed_set|]. split; [reflexivity|]. intros _. repeat split. apply skel_write. }
  destruct (sub_size_t (d_free d) 1 =? 0).
  - pose proof (empty_stable m (set_heap h1 w) d1) as H.
    destruct (empty_output_buffer m (set_heap h1 w) d1) as [[w' d'] r]. eapply stable_trans; eassumption.
  - exact S1.
Qed.

Lemma store_local_stable m : forall fuel xs w d, match store_local fuel m xs w d with (w', d', _) => stable w w' d d' end.
Proof.
  assert (R : forall w d, stable w w d d).
  { intros. split; [apply framed_refl|]. split; [reflexivity|]. intros _. repeat split. }
  induction fuel as [|f IH]; intros xs w d; destruct xs as [|x0 xs']; cbn [store_local]; try apply R.
  set (xs := x0 :: xs'). set (n := Z.min _ _).
  set (h1 := h_write_list _ _ _ _). set (d1 := mkD _ _ _ _ _ _ _).
  assert (S1 : stable w (set_heap h1 w) d d1).
  { split; [apply framed_set|]. split; [reflexivity|]. intros _. repeat split. apply skel_write_list. }
  destruct (d_free d1 =? 0).
  - pose proof (empty_stable m (set_heap h1 w) d1) as H.
    destruct (empty_output_buffer m (set_heap h1 w) d1) as [[w2 d2] [st|]].
    + eapply stable_trans; eassumption.
    + specialize (IH (skipn (Z.to_nat n) xs) w2 d2).
      destruct (store_local f m (skipn (Z.to_nat n) xs) w2 d2) as [[w' d'] r].
      eapply stable_trans; [|exact IH]. eapply stable_trans; eassumption.
  - specialize (IH (skipn (Z.to_nat n) xs) (set_heap h1 w) d1).
    destruct (store_local f m (skipn (Z.to_nat n) xs) (set_heap h1 w) d1) as [[w' d'] r].
    eapply stable_trans; eassumption.
Qed.

Lemma run_ops_stable m : forall ops w d, match run_ops m ops w d with (w', d', _) => stable w w' d d' end.
Proof.
  assert (R : forall w d, stable w w d d).
  { intros. split; [apply framed_refl|]. split; [reflexivity|]. intros _. repeat split. }
  induction ops as [|o t IH]; intros w d; cbn [run_ops]; [apply R|].
  assert (S1 : match run_op m o w d with (w1, d1, _) => stable w w1 d d1 end).
  { destruct o as [x|xs|]; cbn [run_op].
    - apply put_byte_stable.
    - unfold put_chunk. destruct (d_free d <? huff_local_bufsize); [apply store_local_stable|].
      split; [apply framed_set|]. split; [reflexivity|]. intros _. repeat split. apply skel_write_list.
    - apply R. }
  destruct (run_op m o w d) as [[w1 d1] [st|]]; [exact S1|].
  specialize (IH w1 d1). destruct (run_ops m t w1 d1) as [[w' d'] st]. eapply stable_trans; eassumption.
Qed.

(* ------------------------------------------- the invariant between calls *)
Definition destOK (h : heap) (d : dest) : Prop :=
  d_buffer d = 0 \/
  exists b, blk h (d_buffer d) = Some b /\ 0 < d_bufsize d <= b_size b /\
    (d_newbuffer d = 0 \/ (d_newbuffer d = d_buffer d /\ b_owner b = Lib /\ b_handed b = true)).

Definition Inv (w : world) : Prop :=
  WF (w_heap w) /\ nobad (w_heap w) /\
  match w_dest w with
  | None => w_reusable w = false
  | Some d => destOK (w_heap w) d /\ (w_reusable w = true -> w_buf w = d_buffer d)
  end.

Definition eff_alloc (c : cfg) (alloc : bool) : bool := match cf_mgr c with TJ => alloc | IJG => true end.
Definition good_cfg (c : cfg) : Prop := cf_rebind c = true /\ (cf_mgr c = IJG \/ cf_clr c = true).

Lemma Inv0 : Inv world0.
Proof. split; [split; [reflexivity|intros b []]|]. split; reflexivity. Qed.

Definition d0_of (w : world) : dest := match w_dest w with Some d => d | None => dest_new end.

Lemma d0_OK w : Inv w -> destOK (w_heap w) (d0_of w) /\ (w_reusable w = true -> w_buf w = d_buffer (d0_of w)).
Proof.
  intros (_ & _ & H). unfold d0_of. destruct (w_dest w) as [d|]; [exact H|].
  split; [left; reflexivity|]. rewrite H. discriminate.
Qed.

(* the post-condition of a normal return of jpeg_mem_dest[_tj] *)
Definition MDpost (c : cfg) (alloc : bool) (w w1 : world) : Prop :=
  exists d1, w_dest w1 = Some d1 /\ J (w_heap w1) (w_cur w1) (w_buf w1) d1 [] /\
    d_alloc d1 = eff_alloc c alloc /\ w_cur w1 = w_cur w /\ w_ok w1 = w_ok w /\ w_held w1 = w_held w /\
    bound_now w1 = true /\ p_list (w_px w1) = p_list (w_px w) /\
    (eff_alloc c alloc = false ->
       w_buf w1 = w_buf w /\ d_bufsize d1 = w_size w /\ skel (w_heap w1) = skel (w_heap w)).

Lemma J_fresh h h1 a sz cur buf al :
  WF h -> nobad h -> h_malloc h sz Lib false = (h1, a) -> 0 < sz -> al = true ->
  J h1 cur buf (mkD a sz a al a 0 sz) [].
Proof.
  intros W NB Hm Hsz ->. apply WF_malloc in Hm as (W1 & Ha & _ & Hblk1 & Hlog1); [|exact W].
  split; [|cbn [d_free]; lia]. unfold Jg. cbn [d_buffer d_bufsize d_newbuffer d_alloc d_next_base d_next_off d_free].
  split; [exact W1|]. split; [unfold nobad; rewrite Hlog1; cbn [existsb is_bad orb]; exact NB|].
  split.
  { exists (mkB (h_nextid h) a sz Lib false false 0 []). split; [|split; [reflexivity|reflexivity]].
    unfold bufOK. cbn [d_buffer d_bufsize d_newbuffer d_alloc].
    split; [rewrite Hblk1, Z.eqb_refl; reflexivity|]. split; [reflexivity|]. split; [cbn; lia|].
    split; [right; split; [reflexivity|split; [reflexivity|left; reflexivity]]|]. discriminate. }
  split; [reflexivity|]. split; [lia|]. split; [lia|]. reflexivity.
Qed.

(* the caller's own buffer (or a buffer passed back), contents forgotten *)
Lemma J_given h cur buf a bs nb al b :
  WF h -> nobad h -> blk h a = Some b -> b_freed b = false -> 0 < bs <= b_size b ->
  (nb = 0 \/ (nb = a /\ b_owner b = Lib /\ (b_handed b = false \/ a = cur))) ->
  (al = false -> nb = 0 /\ a = buf) ->
  J (h_upd a (set_data 0 []) h) cur buf (mkD a bs nb al a 0 bs) [].
Proof.
  intros W NB Hb Hl Hs Hn Ha. split; [|cbn [d_free]; lia].
  unfold Jg. cbn [d_buffer d_bufsize d_newbuffer d_alloc d_next_base d_next_off d_free].
  split; [apply WF_upd; [apply addr_set_data|exact W]|]. split; [exact NB|].
  split.
  { exists (set_data 0 [] b). split; [|split; reflexivity].
    unfold bufOK. cbn [d_buffer d_bufsize d_newbuffer d_alloc].
    split; [rewrite blk_upd by apply addr_set_data; rewrite Z.eqb_refl, Hb; reflexivity|].
    split; [exact Hl|]. split; [exact Hs|]. split; [exact Hn|exact Ha]. }
  split; [reflexivity|]. split; [lia|]. split; [lia|]. reflexivity.
Qed.

Lemma pass_ok_inv c alloc w : pass_ok c alloc w = true -> w_buf w <> 0 ->
  exists b, blk (w_heap w) (w_buf w) = Some b /\ b_freed b = false /\
    ((match cf_mgr c with TJ => w_reusable w && alloc | IJG => false end) = true \/ 0 <= w_size w <= b_size b).
Proof.
  unfold pass_ok. intros H Hnz. apply orb_true_iff in H as [H|H]; [apply Z.eqb_eq in H; contradiction|].
  destruct (live (w_heap w) (w_buf w)) as [b|] eqn:E; [|discriminate].
  apply live_inv in E as (E1 & E2). exists b. split; [exact E1|]. split; [exact E2|].
  apply orb_true_iff in H as [H|H]; [left; exact H|right].
  apply andb_true_iff in H as (H1 & H2). apply Z.leb_le in H1, H2. lia.
Qed.

(* error return of jpeg_mem_dest_tj: only the dest object changes *)
Definition MDerr (w w1 : world) : Prop :=
  Inv (set_reusable false w1) /\ w_heap w1 = w_heap w /\ w_buf w1 = w_buf w /\ w_size w1 = w_size w /\
  w_ok w1 = w_ok w /\ w_held w1 = w_held w.

Lemma mem_dest_tj_body_ok c alloc w : cf_mgr c = TJ -> cf_clr c = true -> Inv w -> w_cur w = w_buf w ->
  pass_ok c alloc w = true -> zero_reuse c alloc w = false -> bound_now w = true ->
  match mem_dest_tj_body (cf_clr c) (cf_zfix c) alloc w with
  | (w1, None) => MDpost c alloc w w1
  | (w1, Some st) => st = StBufSize /\ alloc = false /\ MDerr w w1
  end.
Proof.
  intros Hm Hclr HI Hcur Hpass Hzr Hbn.
  pose proof (d0_OK w HI) as (HdOK & Hreus). destruct HI as (W & NB & HD).
  rewrite Hclr. unfold mem_dest_tj_body. fold (d0_of w).
  set (d0 := d0_of w) in *.
  set (reused := (d_buffer d0 =? w_buf w) && negb (w_buf w =? 0) && alloc).
  unfold MDpost, eff_alloc. rewrite Hm.
  destruct ((w_buf w =? 0) || ((w_size w =? 0) && (if cf_zfix c then negb reused else true))) eqn:Ez.
  - (* allocation branch *)
    destruct alloc.
    + assert (Hr : reused = false).
      { destruct reused eqn:R; [|reflexivity]. exfalso. unfold reused in R.
        apply andb_true_iff in R as (R & _). apply andb_true_iff in R as (R1 & R2).
        apply negb_true_iff in R2. rewrite R2 in Ez. cbn [orb] in Ez.
        apply andb_true_iff in Ez as (Ez & Ezf).
        assert (Hzf : cf_zfix c = false).
        { destruct (cf_zfix c); [cbn in Ezf; discriminate|reflexivity]. }
        unfold zero_reuse in Hzr. rewrite Hm, Hzf in Hzr. unfold d0, d0_of in R1.
        destruct (w_dest w) as [d|].
        - rewrite R1, R2, Ez in Hzr. discriminate.
        - unfold dest_new in R1. cbn [d_buffer] in R1. apply Z.eqb_eq in R1. rewrite <- R1 in R2. discriminate. }
      rewrite Hr.
      destruct (h_malloc (w_heap w) (out_buf_size TJ) Lib false) as [h1 a] eqn:Hmal.
      eexists. split; [reflexivity|]. cbn [w_heap w_cur w_buf w_ok w_held set_dest set_out set_heap].
      split; [eapply J_fresh; try eassumption; [apply out_buf_pos|reflexivity]|].
      split; [reflexivity|]. split; [reflexivity|]. split; [reflexivity|]. split; [reflexivity|]. split; [exact Hbn|]. split; [reflexivity|]. discriminate.
    + split; [reflexivity|]. split; [reflexivity|].
      unfold MDerr. cbn [w_heap w_buf w_size w_ok w_held set_dest set_reusable w_dest w_reusable].
      split; [|repeat split].
      split; [exact W|]. split; [exact NB|]. cbn [w_dest set_reusable set_dest w_heap w_reusable].
      split; [|discriminate].
      assert (Hr : reused = false) by (unfold reused; apply andb_false_r). rewrite Hr.
      destruct HdOK as [H0|(b & Hb & Hs & _)]; [left; exact H0|right].
      exists b. cbn [d_buffer d_bufsize d_newbuffer]. split; [exact Hb|]. split; [exact Hs|left; reflexivity].
  - (* the caller's buffer *)
    apply orb_false_iff in Ez as (Ez1 & Ez2). apply Z.eqb_neq in Ez1.
    destruct (pass_ok_inv c alloc w Hpass Ez1) as (b & Hb & Hl & Hsz). rewrite Hm in Hsz.
    eexists. split; [reflexivity|]. cbn [w_heap w_cur w_buf w_ok w_held set_dest set_out set_heap].
    destruct reused eqn:R.
    + unfold reused in R. apply andb_true_iff in R as (R & Ral). apply andb_true_iff in R as (R1 & _).
      apply Z.eqb_eq in R1. subst alloc.
      destruct HdOK as [H0|(b0 & Hb0 & Hs0 & Hn0)]; [congruence|].
      rewrite R1, Hb in Hb0. inversion Hb0; subst b0; clear Hb0.
      split.
      { apply J_given with (b := b); try assumption.
        - destruct Hn0 as [Hn0|(Hn1 & Hn2 & Hn3)]; [left; exact Hn0|right].
          split; [congruence|]. split; [exact Hn2|]. right. symmetry. exact Hcur.
        - discriminate. }
      split; [reflexivity|]. split; [reflexivity|]. split; [reflexivity|]. split; [reflexivity|]. split; [exact Hbn|]. split; [reflexivity|]. discriminate.
    + assert (Ez2' : w_size w <> 0).
      { destruct (w_size w =? 0) eqn:E0; [|apply Z.eqb_neq in E0; exact E0]. exfalso.
        cbn [andb] in Ez2. destruct (cf_zfix c); discriminate. }
      assert (Hsz' : 0 < w_size w <= b_size b).
      { destruct Hsz as [Hig|Hsz]; [|lia]. exfalso.
        apply andb_true_iff in Hig as (Hig1 & Hig2). subst alloc.
        specialize (Hreus Hig1). unfold reused in R. rewrite <- Hreus, Z.eqb_refl in R.
        apply Z.eqb_neq in Ez1. rewrite Ez1 in R. discriminate. }
      split.
      { apply J_given with (b := b); try assumption.
        - left; reflexivity.
        - intros _. split; reflexivity. }
      split; [reflexivity|]. split; [reflexivity|]. split; [reflexivity|]. split; [reflexivity|]. split; [exact Hbn|]. split; [reflexivity|].
      intros _. split; [reflexivity|]. split; [reflexivity|]. apply skel_upd. reflexivity.
Qed.

Lemma bound_bind w : bound_now (bind_out w) = true.
Proof. unfold bound_now, bind_out. cbn. apply Z.eqb_refl. Qed.

Lemma mem_dest_tj_ok c alloc w : cf_mgr c = TJ -> cf_clr c = true -> cf_rebind c = true -> Inv w -> w_cur w = w_buf w ->
  pass_ok c alloc w = true -> zero_reuse c alloc w = false ->
  match mem_dest c alloc w with
  | (w1, None) => MDpost c alloc w w1
  | (w1, Some st) => st = StBufSize /\ alloc = false /\ MDerr w w1
  end.
Proof.
  intros Hm Hclr Hrb HI Hcur Hpass Hzr. unfold mem_dest. rewrite Hm, Hrb. unfold mem_dest_tj. cbn [orb].
  exact (mem_dest_tj_body_ok c alloc (bind_out w) Hm Hclr HI Hcur Hpass Hzr (bound_bind w)).
Qed.

Lemma mem_dest_ijg_body_wf c alloc w : cf_mgr c = IJG -> WF (w_heap w) -> nobad (w_heap w) -> w_cur w = w_buf w ->
  pass_ok c alloc w = true -> bound_now w = true ->
  match mem_dest_ijg_body w with
  | (w1, None) => MDpost c alloc w w1
  | (w1, Some st) => False
  end.
Proof.
  intros Hm W NB Hcur Hpass Hbn.
  unfold mem_dest_ijg_body, MDpost, eff_alloc. rewrite Hm.
  destruct ((w_buf w =? 0) || (w_size w =? 0)) eqn:Ez.
  - destruct (h_malloc (w_heap w) (out_buf_size IJG) Lib false) as [h1 a] eqn:Hmal.
    eexists. split; [reflexivity|]. cbn [w_heap w_cur w_buf w_ok w_held set_dest set_out set_heap].
    split; [eapply J_fresh; try eassumption; [apply out_buf_pos|reflexivity]|].
    split; [reflexivity|]. split; [reflexivity|]. split; [reflexivity|]. split; [reflexivity|]. split; [exact Hbn|]. split; [reflexivity|]. discriminate.
  - apply orb_false_iff in Ez as (Ez1 & Ez2). apply Z.eqb_neq in Ez1, Ez2.
    destruct (pass_ok_inv c alloc w Hpass Ez1) as (b & Hb & Hl & Hsz). rewrite Hm in Hsz.
    destruct Hsz as [Hsz|Hsz]; [discriminate|].
    eexists. split; [reflexivity|]. cbn [w_heap w_cur w_buf w_ok w_held set_dest set_out set_heap].
    split.
    { apply J_given with (b := b); try assumption; [lia|left; reflexivity|discriminate]. }
    split; [reflexivity|]. split; [reflexivity|]. split; [reflexivity|]. split; [reflexivity|]. split; [exact Hbn|]. split; [reflexivity|]. discriminate.
Qed.

Lemma mem_dest_ijg_body_ok c alloc w : cf_mgr c = IJG -> Inv w -> w_cur w = w_buf w ->
  pass_ok c alloc w = true -> bound_now w = true ->
  match mem_dest_ijg_body w with
  | (w1, None) => MDpost c alloc w w1
  | (w1, Some st) => False
  end.
Proof. intros Hm (W & NB & _). apply mem_dest_ijg_body_wf; assumption. Qed.

(* jpeg_mem_dest does not look at the previous state of the destination object at all *)
Lemma mem_dest_ijg_wf c alloc w : cf_mgr c = IJG -> cf_rebind c = true -> WF (w_heap w) -> nobad (w_heap w) -> w_cur w = w_buf w ->
  pass_ok c alloc w = true ->
  match mem_dest c alloc w with
  | (w1, None) => MDpost c alloc w w1
  | (w1, Some st) => False
  end.
Proof.
  intros Hm Hrb W NB Hcur Hpass. unfold mem_dest. rewrite Hm, Hrb. unfold mem_dest_ijg.
  exact (mem_dest_ijg_body_wf c alloc (bind_out w) Hm W NB Hcur Hpass (bound_bind w)).
Qed.

Lemma mem_dest_ijg_ok c alloc w : cf_mgr c = IJG -> cf_rebind c = true -> Inv w -> w_cur w = w_buf w ->
  pass_ok c alloc w = true ->
  match mem_dest c alloc w with
  | (w1, None) => MDpost c alloc w w1
  | (w1, Some st) => False
  end.
Proof.
  intros Hm Hrb HI Hcur Hpass. unfold mem_dest. rewrite Hm, Hrb. unfold mem_dest_ijg.
  exact (mem_dest_ijg_body_ok c alloc (bind_out w) Hm HI Hcur Hpass (bound_bind w)).
Qed.

Lemma term_bound w d : bound_now w = true ->
  term_destination w d = set_out (if d_alloc d then d_buffer d else w_buf w) (d_bufsize d - d_free d) w.
Proof. intros H. unfold term_destination. rewrite H. reflexivity. Qed.

(* ------------------------------------------------------ end of the call *)
Lemma finish_ok w2 d2 st wr' e :
  Jg (w_heap w2) (w_cur w2) (w_buf w2) d2 wr' -> is_bad e = false -> bound_now w2 = true ->
  let w3 := set_dest d2 w2 in
  let w4 := if st_ok st || d_alloc d2 then term_destination w3 d2 else w3 in
  let wf := set_reusable (st_ok st) (wlog e (hand_over w4)) in
  Inv wf /\ w_ok wf = w_ok w2 /\ w_held wf = w_held w2 /\
  (st_ok st = true -> w_buf wf = d_buffer d2 /\ w_size wf = d_next_off d2 /\
                      contents (w_heap wf) (w_buf wf) (w_size wf) = wr') /\
  (d_alloc d2 = false -> w_buf wf = w_buf w2 /\ skel (w_heap wf) = skel (w_heap w2)).
Proof.
  intros (W & NB & (b & OK & Hk & Hd) & Hbase & Hfr & Hoff & Hlen) He Hbn w3 w4 wf.
  assert (Ht : term_destination w3 d2 = set_out (if d_alloc d2 then d_buffer d2 else w_buf w3) (d_bufsize d2 - d_free d2) w3)
    by (apply term_bound; exact Hbn).
  subst wf w4. rewrite Ht. clear Ht.
  set (w4 := if st_ok st || d_alloc d2 then set_out (if d_alloc d2 then d_buffer d2 else w_buf w3) (d_bufsize d2 - d_free d2) w3 else w3).
  set (wf := set_reusable (st_ok st) (wlog e (hand_over w4))).
  destruct OK as (Hblk & Hlive & Hsz & Hnew & Hna).
  pose proof (blk_range _ _ _ W Hblk) as Hrng.
  set (pbuf := w_buf w4).
  assert (Hpbuf : pbuf = if st_ok st || d_alloc d2 then (if d_alloc d2 then d_buffer d2 else w_buf w2) else w_buf w2).
  { unfold pbuf, w4. destruct (st_ok st || d_alloc d2); reflexivity. }
  assert (Hh4 : w_heap w4 = w_heap w2) by (unfold w4; destruct (st_ok st || d_alloc d2); reflexivity).
  assert (Hwf_heap : w_heap wf = h_logadd e (h_upd pbuf hand_block (w_heap w2))).
  { unfold wf, hand_over, wlog. cbn [w_heap set_reusable set_heap]. rewrite Hh4. reflexivity. }
  assert (Hwf_buf : w_buf wf = pbuf) by reflexivity.
  assert (Hdest : w_dest wf = Some d2).
  { unfold wf, hand_over, wlog, w4. destruct (st_ok st || d_alloc d2); reflexivity. }
  assert (Hb5 : exists b5, blk (w_heap wf) (d_buffer d2) = Some b5 /\ b_size b5 = b_size b /\ b_freed b5 = false /\
                 b_known b5 = b_known b /\ b_data b5 = b_data b /\ b_owner b5 = b_owner b /\
                 (pbuf = d_buffer d2 -> b_owner b = Lib -> b_handed b5 = true)).
  { rewrite Hwf_heap. unfold blk at 1. cbn [h_logadd h_blocks]. fold (blk (h_upd pbuf hand_block (w_heap w2)) (d_buffer d2)).
    rewrite blk_upd by apply addr_hand_block.
    destruct (d_buffer d2 =? pbuf) eqn:E.
    - apply Z.eqb_eq in E. rewrite <- E, Hblk. cbn [option_map]. exists (hand_block b).
      unfold hand_block. destruct (b_owner b) eqn:Eo; cbn; repeat split; try assumption; try reflexivity.
      intros _ H. discriminate.
    - rewrite Hblk. exists b. repeat split; try assumption. intros H. apply Z.eqb_neq in E. congruence. }
  destruct Hb5 as (b5 & Hb5 & Hs5 & Hl5 & Hk5 & Hd5 & Ho5 & Hh5).
  assert (Hterm_alloc : d_alloc d2 = true -> pbuf = d_buffer d2).
  { intros Ha. rewrite Hpbuf, Ha, orb_true_r. reflexivity. }
  split.
  { (* Inv *)
    split; [rewrite Hwf_heap; apply WF_logadd, WF_upd; [apply addr_hand_block|exact W]|].
    split; [rewrite Hwf_heap; apply nobad_logadd; [exact He|exact NB]|].
    rewrite Hdest. split.
    - right. exists b5. split; [exact Hb5|]. split; [lia|].
      destruct Hnew as [Hn|(Hn1 & Hn2 & _)]; [left; exact Hn|right].
      split; [exact Hn1|]. split; [congruence|]. apply Hh5; [|exact Hn2].
      apply Hterm_alloc. destruct (d_alloc d2); [reflexivity|]. destruct (Hna eq_refl) as (Hz & _). lia.
    - intros Hok. change (st_ok st = true) in Hok. rewrite Hwf_buf, Hpbuf, Hok. cbn [orb].
      destruct (d_alloc d2) eqn:Ea; [reflexivity|]. symmetry. apply Hna. reflexivity. }
  split; [unfold wf, w4; destruct (st_ok st || d_alloc d2); reflexivity|].
  split; [unfold wf, w4; destruct (st_ok st || d_alloc d2); reflexivity|].
  split.
  { intros Hok.
    assert (Hp : pbuf = d_buffer d2).
    { rewrite Hpbuf, Hok. cbn [orb]. destruct (d_alloc d2) eqn:Ea; [reflexivity|]. symmetry. apply Hna. reflexivity. }
    assert (Hsize : w_size wf = d_next_off d2).
    { unfold wf, w4. rewrite Hok. cbn [orb]. cbn. lia. }
    split; [rewrite Hwf_buf; exact Hp|]. split; [exact Hsize|].
    unfold contents. rewrite Hwf_buf, Hp, (live_some _ _ _ Hb5 Hl5), Hsize.
    assert (Hg : (0 <=? d_next_off d2) && (d_next_off d2 <=? b_size b5) = true).
    { apply andb_true_intro. split; apply Z.leb_le; lia. }
    rewrite Hg, Hk5, Hk, take_known_same, Hd5, Hd.
    rewrite rev_append_rev, app_nil_r. apply rev_involutive. }
  intros Ha. split.
  - rewrite Hwf_buf, Hpbuf, Ha, orb_false_r. destruct (st_ok st); reflexivity.
  - rewrite Hwf_heap, skel_logadd. apply skel_upd. intros b0. unfold hand_block. destruct (b_owner b0); reflexivity.
Qed.

(* ---------------------------------------------------------- one whole call *)
Definition CallPost (c : cfg) (alloc : bool) (ops : list pop) (w w' : world) (st : status) : Prop :=
  Inv w' /\ w_ok w' = w_ok w /\ w_held w' = w_held w /\
  (st = StOk -> forallb no_abort ops = true /\ w_size w' = Z.of_nat (length (bytes_of ops)) /\
                contents (w_heap w') (w_buf w') (w_size w') = bytes_of ops /\ w_reusable w' = true) /\
  (st <> StOk -> (st = StBufSize /\ eff_alloc c alloc = false) \/ (st = StAbort /\ forallb no_abort ops = false)) /\
  (eff_alloc c alloc = false ->
     w_buf w' = w_buf w /\ skel (w_heap w') = skel (w_heap w) /\ (st = StOk -> w_size w' < w_size w)).

Lemma run_call_core c alloc ops w :
  (match mem_dest c alloc (set_cur (w_buf w) w) with
   | (w1, None) => MDpost c alloc (set_cur (w_buf w) w) w1
   | (w1, Some st) => st = StBufSize /\ eff_alloc c alloc = false /\ MDerr (set_cur (w_buf w) w) w1
   end) -> forallb chunk_ok ops = true ->
  match run_call_st c alloc ops w with (w', st) => CallPost c alloc ops w w' st end.
Proof.
  intros MD Hch. unfold run_call_st. set (w0 := set_cur (w_buf w) w) in *.
  destruct (mem_dest c alloc w0) as [w1 [st|]].
  - (* error inside jpeg_mem_dest_tj *)
    destruct MD as (-> & Hea & (HI1 & Hh & Hb & Hs & Hok & Hheld)).
    unfold CallPost.
    split.
    { destruct HI1 as (W1 & NB1 & HD1). split; [exact W1|]. split; [apply nobad_logadd; [reflexivity|exact NB1]|exact HD1]. }
    split; [exact Hok|]. split; [exact Hheld|]. split; [discriminate|].
    split; [intros _; left; split; [reflexivity|exact Hea]|].
    intros _. split; [exact Hb|]. split; [|discriminate].
    cbn [w_heap set_reusable wlog set_heap]. rewrite skel_logadd, Hh. reflexivity.
  - destruct MD as (d1 & Hd1 & HJ1 & Hal1 & Hc1 & Hok1 & Hheld1 & Hbn1 & _ & Hna1).
    rewrite Hd1.
    pose proof (run_ops_ok (cf_mgr c) ops w1 d1 [] HJ1 Hch) as RO.
    pose proof (run_ops_stable (cf_mgr c) ops w1 d1) as ST.
    destruct (run_ops (cf_mgr c) ops w1 d1) as [[w2 d2] st].
    destruct RO as (F & RO). destruct ST as (_ & Hal2 & Hna2).
    pose proof (framed_cur _ _ F) as (Fc & Fb & Fok & Fsz & Fd & Fh & Fr).
    assert (HG : exists wr', Jg (w_heap w2) (w_cur w2) (w_buf w2) d2 wr' /\
                 (st = StOk -> wr' = bytes_of ops /\ 0 < d_free d2 /\ forallb no_abort ops = true)).
    { rewrite Fc, Fb. destruct st.
      - destruct RO as ((HG & Hp) & Hab). exists ([] ++ bytes_of ops). split; [exact HG|]. intros _. repeat split; assumption.
      - destruct RO as ((wr' & HG) & _). exists wr'. split; [exact HG|discriminate].
      - destruct RO as ((wr' & HG) & _). exists wr'. split; [exact HG|discriminate].
      - destruct RO as ((wr' & HG) & _). exists wr'. split; [exact HG|discriminate]. }
    destruct HG as (wr' & HG & Hwr).
    match goal with |- CallPost _ _ _ _ (set_reusable _ (wlog ?e _)) _ =>
      pose proof (finish_ok w2 d2 st wr' e HG eq_refl ltac:(unfold bound_now; rewrite (framed_px _ _ F); exact Hbn1)) as FIN end.
    cbv zeta in FIN.
    match goal with |- CallPost _ _ _ _ ?x _ => set (wfin := x) in * end.
    destruct FIN as (HIf & Hokf & Hheldf & Hsucc & Hnaf).
    assert (E0 : w_ok w0 = w_ok w /\ w_held w0 = w_held w /\ w_buf w0 = w_buf w /\ w_heap w0 = w_heap w /\ w_size w0 = w_size w)
      by (repeat split).
    destruct E0 as (E01 & E02 & E03 & E04 & E05).
    unfold CallPost.
    split; [exact HIf|]. split; [congruence|]. split; [congruence|].
    split.
    { intros ->. destruct (Hwr eq_refl) as (-> & Hp & Hab). destruct (Hsucc eq_refl) as (A & B & C).
      split; [exact Hab|]. split; [|split; [exact C|reflexivity]].
      rewrite B. destruct HG as (_ & _ & _ & _ & _ & _ & Hlen). exact Hlen. }
    split.
    { intros Hne. destruct st; [congruence| | |].
      - destruct RO as (_ & [(_ & Ha)|(Ha & _)]); [|discriminate]. left. split; [reflexivity|congruence].
      - destruct RO as (_ & [(Ha & _)|(_ & Ha)]); [discriminate|]. right. split; [reflexivity|exact Ha].
      - destruct RO as (_ & [(Ha & _)|(Ha & _)]); discriminate. }
    intros Hea. rewrite Hea in Hal1.
    destruct (Hna1 Hea) as (Hb1 & Hbs1 & Hsk1).
    destruct (Hna2 Hal1) as (_ & Hbs2 & Hsk2).
    destruct (Hnaf ltac:(congruence)) as (Hbf & Hskf).
    split; [rewrite Hbf, Fb, Hb1; exact E03|].
    split; [rewrite Hskf, Hsk2, Hsk1, E04; reflexivity|].
    intros ->. destruct (Hwr eq_refl) as (_ & Hp & _). destruct (Hsucc eq_refl) as (_ & B & _).
    rewrite B. destruct HG as (_ & _ & _ & _ & Hfr & Hoff & _).
    rewrite <- E05. lia.
Qed.


Lemma run_call_ok c alloc ops w : good_cfg c -> Inv w ->
  pass_ok c alloc w = true -> zero_reuse c alloc w = false -> forallb chunk_ok ops = true ->
  match run_call_st c alloc ops w with (w', st) => CallPost c alloc ops w w' st end.
Proof.
  intros (Hrb & Hgood) HI Hpass Hzr Hch.
  set (w0 := set_cur (w_buf w) w).
  assert (HI0 : Inv w0) by exact HI.
  assert (Hcur0 : w_cur w0 = w_buf w0) by reflexivity.
  assert (Hpass0 : pass_ok c alloc w0 = true) by exact Hpass.
  assert (Hzr0 : zero_reuse c alloc w0 = false) by exact Hzr.
  assert (MD : match mem_dest c alloc w0 with
               | (w1, None) => MDpost c alloc w0 w1
               | (w1, Some st) => st = StBufSize /\ eff_alloc c alloc = false /\ MDerr w0 w1
               end).
  { destruct (cf_mgr c) eqn:Hm.
    - assert (Hclr : cf_clr c = true) by (destruct Hgood as [H|H]; [congruence|exact H]).
      pose proof (mem_dest_tj_ok c alloc w0 Hm Hclr Hrb HI0 Hcur0 Hpass0 Hzr0) as H.
      destruct (mem_dest c alloc w0) as [w1 [st|]]; [|exact H].
      destruct H as (A & B & C). split; [exact A|]. split; [unfold eff_alloc; rewrite Hm; exact B|exact C].
    - pose proof (mem_dest_ijg_ok c alloc w0 Hm Hrb HI0 Hcur0 Hpass0) as H.
      destruct (mem_dest c alloc w0) as [w1 [st|]]; [contradiction|exact H]. }
  exact (run_call_core c alloc ops w MD Hch).
Qed.

(* ------------------------------------------ the flag only ever goes down *)
Definition frame2 (w w' : world) : Prop := w_ok w' = w_ok w /\ p_list (w_px w') = p_list (w_px w).

Lemma mem_dest_frame2 c alloc w : frame2 w (fst (mem_dest c alloc w)).
Proof.
  assert (TJ : forall clr zfix w0, frame2 w0 (fst (mem_dest_tj_body clr zfix alloc w0))).
  { intros clr zfix w0. unfold mem_dest_tj_body.
    destruct ((w_buf w0 =? 0) || ((w_size w0 =? 0) && _)); try destruct alloc;
      try (destruct (h_malloc _ _ _ _)); split; reflexivity. }
  assert (IJ : forall w0, frame2 w0 (fst (mem_dest_ijg_body w0))).
  { intros w0. unfold mem_dest_ijg_body.
    destruct ((w_buf w0 =? 0) || (w_size w0 =? 0)); try (destruct (h_malloc _ _ _ _)); split; reflexivity. }
  unfold mem_dest, mem_dest_tj, mem_dest_ijg. destruct (cf_mgr c).
  - destruct (cf_rebind c || _); [exact (TJ _ _ (bind_out w))|apply TJ].
  - destruct (cf_rebind c); [exact (IJ (bind_out w))|apply IJ].
Qed.

Lemma run_call_frame2 c alloc ops w : frame2 w (run_call c alloc ops w).
Proof.
  unfold run_call, run_call_st.
  pose proof (mem_dest_frame2 c alloc (set_cur (w_buf w) w)) as H.
  change (frame2 w (fst (mem_dest c alloc (set_cur (w_buf w) w)))) in H.
  destruct (mem_dest c alloc (set_cur (w_buf w) w)) as [w1 [st|]]; cbn [fst] in *.
  - exact H.
  - destruct (w_dest w1) as [d1|]; [|exact H].
    pose proof (run_ops_stable (cf_mgr c) ops w1 d1) as ST.
    destruct (run_ops (cf_mgr c) ops w1 d1) as [[w2 d2] st]. destruct ST as (F & _).
    pose proof (framed_px _ _ F) as Fp. apply framed_cur in F as (_ & _ & Fok & _). cbn [fst].
    destruct H as (H1 & H2). unfold frame2.
    destruct (st_ok st || d_alloc d2); [unfold term_destination; destruct (bound_now _)|]; cbn; rewrite ?Fok, ?Fp; split; assumption.
Qed.

Lemma run_call_frame c alloc ops w : w_ok (run_call c alloc ops w) = w_ok w.
Proof. exact (proj1 (run_call_frame2 c alloc ops w)). Qed.

Lemma flag_if_ok b n w : w_ok (flag_if b n w) = true -> b = false /\ w_ok w = true.
Proof. destruct b; cbn; intros H; [discriminate|split; [reflexivity|exact H]]. Qed.
Lemma flag_if_false n w : flag_if false n w = w. Proof. reflexivity. Qed.

Lemma hop_mono c o w : w_ok (run_hop c o w) = true -> w_ok w = true.
Proof.
  destruct o as [n rc| z | | | k | | k | alloc ops | cp k]; cbn [run_hop].
  9: { destruct cp; [cbn; auto|]. destruct (nth k (set_nth _ _ _) (0, 0)); cbn; auto. }
  - destruct (h_malloc _ _ _ _) as [h1 a] eqn:E. cbn. intros H.
    apply flag_if_ok in H as (_ & H). apply flag_if_ok in H as (_ & H). exact H.
  - cbn. auto.
  - cbn. auto.
  - cbn. auto.
  - destruct (nth_error (w_held w) k); cbn; [auto|discriminate].
  - cbn. intros H. apply flag_if_ok in H as (_ & H). exact H.
  - destruct (nth_error (w_held w) k); cbn; [|discriminate]. intros H. apply flag_if_ok in H as (_ & H). exact H.
  - rewrite run_call_frame. intros H. apply flag_if_ok in H as (_ & H). apply flag_if_ok in H as (_ & H). exact H.
Qed.

Lemma hist_mono c : forall hs w, w_ok (run_hist c hs w) = true -> w_ok w = true.
Proof.
  induction hs as [|o t IH]; intros w H; [exact H|].
  cbn [run_hist fold_left] in H. apply IH in H. eapply hop_mono; exact H.
Qed.

(* ------------------------------------------------- caller actions keep Inv *)
Definition keeps (h h' : heap) : Prop :=
  forall a b, blk h a = Some b ->
    exists b', blk h' a = Some b' /\ b_size b' = b_size b /\ b_owner b' = b_owner b /\ b_handed b' = b_handed b.

Lemma destOK_keeps h h' d : keeps h h' -> destOK h d -> destOK h' d.
Proof.
  intros K [H0|(b & Hb & Hs & Hn)]; [left; exact H0|right].
  destruct (K _ _ Hb) as (b' & Hb' & S1 & S2 & S3). exists b'. rewrite S1, S2, S3.
  split; [exact Hb'|]. split; [exact Hs|exact Hn].
Qed.

Lemma Inv_heap w h' : Inv w -> WF h' -> nobad h' -> keeps (w_heap w) h' -> Inv (set_heap h' w).
Proof.
  intros (W & NB & HD) W' NB' K. split; [exact W'|]. split; [exact NB'|].
  cbn [w_dest w_heap w_reusable w_buf set_heap]. destruct (w_dest w) as [d|]; [|exact HD].
  destruct HD as (H1 & H2). split; [eapply destOK_keeps; eassumption|exact H2].
Qed.

Lemma Inv_unreusable w p s : Inv w -> Inv (set_reusable false (set_out p s w)).
Proof.
  intros (W & NB & HD). split; [exact W|]. split; [exact NB|].
  cbn [w_dest w_heap w_reusable w_buf set_reusable set_out]. destruct (w_dest w) as [d|]; [|reflexivity].
  destruct HD as (H1 & _). split; [exact H1|discriminate].
Qed.

Lemma malloc_norecycle h n o rc : rc && can_recycle h = false -> h_malloc h n o rc = h_malloc h n o false.
Proof. intros H. unfold h_malloc. rewrite H. reflexivity. Qed.

Lemma keeps_malloc h n o h1 a : WF h -> h_malloc h n o false = (h1, a) -> keeps h h1 /\ WF h1 /\ (nobad h -> nobad h1).
Proof.
  intros W Hm. apply WF_malloc in Hm as (W1 & Ha & _ & Hblk & Hlog); [|exact W].
  split; [|split; [exact W1|]].
  - intros a' b Hb. exists b. rewrite Hblk. pose proof (blk_range _ _ _ W Hb).
    destruct (a' =? a) eqn:E; [apply Z.eqb_eq in E; lia|]. repeat split. exact Hb.
  - unfold nobad. rewrite Hlog. cbn [existsb is_bad orb]. auto.
Qed.

Lemma keeps_free_caller h a : WF h -> keeps h (h_free_caller h a) /\ WF (h_free_caller h a) /\ (nobad h -> nobad (h_free_caller h a)).
Proof.
  intros W. unfold h_free_caller. destruct (a =? 0).
  { split; [intros a' b Hb; exists b; repeat split; exact Hb|]. split; [exact W|auto]. }
  destruct (live h a) as [b0|].
  2: { split; [intros a' b Hb; exists b; repeat split; exact Hb|]. split; [exact W|auto]. }
  split; [|split].
  - intros a' b Hb. unfold blk. cbn [h_logadd h_set_lastfreed h_blocks]. fold (blk (h_upd a set_freed h) a').
    rewrite blk_upd by apply addr_set_freed. destruct (a' =? a) eqn:E.
    + apply Z.eqb_eq in E. subst a'. rewrite Hb. exists (set_freed b). repeat split.
    + exists b. repeat split. exact Hb.
  - apply WF_logadd, WF_lastfreed, WF_upd; [apply addr_set_freed|exact W].
  - intros NB. apply nobad_logadd; [reflexivity|exact NB].
Qed.

Lemma run_hop_ok c o w : good_cfg c -> Inv w -> w_ok (run_hop c o w) = true -> hop_chunks_ok o = true ->
  Inv (run_hop c o w).
Proof.
  intros Hgood HI Hok Hch.
  destruct o as [n rc| z | | | k | | k | alloc ops | cp k]; cbn [run_hop] in *.
  9: { destruct HI as (W & NB & HD). destruct cp.
       - split; [exact W|]. split; [exact NB|]. exact HD.
       - destruct (nth k (set_nth _ _ _) (0, 0)) as [nb ns]. split; [exact W|]. split; [exact NB|].
         cbn [w_dest w_reusable set_reusable set_px set_out w_heap w_buf]. destruct (w_dest w) as [d|]; [|reflexivity].
         split; [exact (proj1 HD)|discriminate]. }
  - (* HAlloc *)
    destruct (n <? 0) eqn:En.
    { exfalso. destruct (h_malloc _ _ _ _) in Hok. cbn in Hok. discriminate. }
    destruct (rc && can_recycle (w_heap w)) eqn:Erc.
    { exfalso. cbn [flag_if] in Hok. destruct (h_malloc _ _ _ _) in Hok. cbn in Hok. discriminate. }
    cbn [flag_if]. rewrite (malloc_norecycle _ _ _ _ Erc).
    destruct (h_malloc (w_heap w) n Caller false) as [h1 a] eqn:Hm.
    pose proof HI as (W & NB & _).
    destruct (keeps_malloc _ _ _ _ _ W Hm) as (K & W1 & NB1).
    apply (Inv_unreusable (set_heap h1 w)). apply Inv_heap; auto.
  - (* HSetSize *)
    destruct HI as (W & NB & HD). split; [exact W|]. split; [exact NB|]. exact HD.
  - apply Inv_unreusable. exact HI.
  - destruct HI as (W & NB & HD). split; [exact W|]. split; [exact NB|]. exact HD.
  - destruct (nth_error (w_held w) k) as [a|]; [|cbn in Hok; discriminate].
    apply (Inv_unreusable (set_held (remove_nth k (w_held w)) w)).
    destruct HI as (W & NB & HD). split; [exact W|]. split; [exact NB|]. exact HD.
  - (* HFreeBuf *)
    destruct (negb (caller_may_free (w_heap w) (w_buf w))) eqn:E; [cbn in Hok; discriminate|].
    cbn [flag_if]. pose proof HI as (W & NB & _).
    destruct (keeps_free_caller (w_heap w) (w_buf w) W) as (K & W1 & NB1).
    apply (Inv_unreusable (set_heap (h_free_caller (w_heap w) (w_buf w)) w)). apply Inv_heap; auto.
  - (* HFreeHeld *)
    destruct (nth_error (w_held w) k) as [a|]; [|cbn in Hok; discriminate].
    destruct (negb (caller_may_free (w_heap w) a)) eqn:E; [cbn in Hok; discriminate|].
    cbn [flag_if]. pose proof HI as (W & NB & HD).
    destruct (keeps_free_caller (w_heap w) a W) as (K & W1 & NB1).
    pose proof (Inv_heap w _ HI W1 (NB1 NB) K) as (A & B & C).
    split; [exact A|]. split; [exact B|]. exact C.
  - (* HCall *)
    rewrite run_call_frame in Hok.
    apply flag_if_ok in Hok as (Hz & Hok). apply flag_if_ok in Hok as (Hp & Hok).
    apply negb_false_iff in Hp. rewrite Hp in *. cbn [negb flag_if] in *. rewrite Hz. cbn [flag_if].
    pose proof (run_call_ok c alloc ops w Hgood HI Hp Hz Hch) as H.
    unfold run_call. destruct (run_call_st c alloc ops w) as [w' st]. exact (proj1 H).
Qed.

Theorem hist_ok c : good_cfg c -> forall hs w, Inv w ->
  w_ok (run_hist c hs w) = true -> forallb hop_chunks_ok hs = true -> Inv (run_hist c hs w).
Proof.
  intros Hgood. induction hs as [|o t IH]; intros w HI Hok Hch; [exact HI|].
  cbn [run_hist fold_left] in *. cbn [forallb] in Hch. apply andb_true_iff in Hch as (Hc1 & Hc2).
  apply IH; [|exact Hok|exact Hc2].
  apply run_hop_ok; try assumption. eapply hist_mono. exact Hok.
Qed.

(* =========================================================== the theorems *)
Lemma good_tj : good_cfg cfg_tj. Proof. split; [reflexivity|right; reflexivity]. Qed.
Lemma good_ijg : good_cfg cfg_ijg. Proof. split; [reflexivity|left; reflexivity]. Qed.

Lemma nobad_clean w : nobad (w_heap w) -> lib_clean w = true.
Proof. unfold nobad, lib_clean. intros ->. reflexivity. Qed.

Lemma nobad_In h e : nobad h -> In e (h_log h) -> is_bad e = false.
Proof.
  unfold nobad. intros H Hin. destruct (is_bad e) eqn:E; [|reflexivity].
  assert (existsb is_bad (h_log h) = true) by (apply existsb_exists; exists e; split; assumption). congruence.
Qed.

(* (4) no double free, no free of a caller block, no overrun -- over all histories *)
Theorem reuse_safe_all c hs : good_cfg c ->
  w_ok (run c hs) = true -> forallb hop_chunks_ok hs = true -> lib_clean (run c hs) = true.
Proof.
  intros G Hok Hch. apply nobad_clean. exact (proj1 (proj2 (hist_ok c G hs world0 Inv0 Hok Hch))).
Qed.

(* (1) every write of every producer lands inside the live block of the current buffer *)
Theorem never_overruns_all c hs : good_cfg c ->
  w_ok (run c hs) = true -> forallb hop_chunks_ok hs = true ->
  forall e, In e (h_log (w_heap (run c hs))) ->
    (forall id off, e <> LBad (BadOverrun id off)) /\ (forall id n, e <> LBad (BadOverRead id n)).
Proof.
  intros G Hok Hch e Hin.
  pose proof (proj1 (proj2 (hist_ok c G hs world0 Inv0 Hok Hch))) as NB.
  pose proof (nobad_In _ _ NB Hin) as Hb. split; intros; intros ->; discriminate.
Qed.

Lemma run_snoc c hs o : run c (hs ++ [o]) = run_hop c o (run c hs).
Proof. unfold run, run_hist. rewrite fold_left_app. reflexivity. Qed.

Lemma forallb_snoc {A} (f : A -> bool) l x : forallb f (l ++ [x]) = forallb f l && f x.
Proof. rewrite forallb_app. cbn [forallb]. rewrite andb_true_r. reflexivity. Qed.

(* a call at the end of an arbitrary history *)
Theorem call_after_history c hs alloc ops : good_cfg c ->
  w_ok (run c (hs ++ [HCall alloc ops])) = true ->
  forallb hop_chunks_ok hs = true -> forallb chunk_ok ops = true ->
  match run_call_st c alloc ops (run c hs) with
  | (w', st) => run c (hs ++ [HCall alloc ops]) = w' /\ CallPost c alloc ops (run c hs) w' st
  end.
Proof.
  intros G Hok Hch Hco. rewrite run_snoc in *.
  pose proof (hop_mono _ _ _ Hok) as Hok0.
  pose proof (hist_ok c G hs world0 Inv0 Hok0 Hch) as HI.
  cbn [run_hop] in *. rewrite run_call_frame in Hok.
  apply flag_if_ok in Hok as (Hz & Hok). apply flag_if_ok in Hok as (Hp & _).
  apply negb_false_iff in Hp. rewrite Hp in *. cbn [negb flag_if] in *. rewrite Hz. cbn [flag_if].
  pose proof (run_call_ok c alloc ops (run c hs) G HI Hp Hz Hco) as H.
  unfold run_call. destruct (run_call_st c alloc ops (run c hs)) as [w' st]. split; [reflexivity|exact H].
Qed.

(* (2) NOREALLOC: success with size < capacity and the very same buffer, or the buffer-size error;
       no allocation, no free, whatever the producer does *)
Theorem norealloc_contract_all hs ops :
  w_ok (run cfg_tj (hs ++ [HCall false ops])) = true ->
  forallb hop_chunks_ok hs = true -> forallb chunk_ok ops = true ->
  let w := run cfg_tj hs in
  match run_call_st cfg_tj false ops w with
  | (w', st) =>
      run cfg_tj (hs ++ [HCall false ops]) = w' /\
      lib_clean w' = true /\ w_buf w' = w_buf w /\ skel (w_heap w') = skel (w_heap w) /\
      ((st = StOk /\ w_size w' < w_size w /\ w_size w' = Z.of_nat (length (bytes_of ops)) /\
        contents (w_heap w') (w_buf w') (w_size w') = bytes_of ops) \/
       st = StBufSize \/
       (st = StAbort /\ forallb no_abort ops = false))
  end.
Proof.
  intros Hok Hch Hco w.
  pose proof (call_after_history cfg_tj hs false ops good_tj Hok Hch Hco) as H. fold w in H.
  destruct (run_call_st cfg_tj false ops w) as [w' st].
  destruct H as (E & HI & _ & _ & Hs & Hf & Hna).
  destruct (Hna eq_refl) as (Hb & Hsk & Hlt).
  split; [exact E|]. split; [apply nobad_clean; exact (proj1 (proj2 HI))|]. split; [exact Hb|]. split; [exact Hsk|].
  destruct st.
  - left. destruct (Hs eq_refl) as (_ & A & B & _). repeat split; auto.
  - right. left. reflexivity.
  - right. right. destruct (Hf ltac:(discriminate)) as [(H1 & _)|(_ & H2)]; [discriminate|]. split; [reflexivity|exact H2].
  - exfalso. destruct (Hf ltac:(discriminate)) as [(H1 & _)|(H1 & _)]; discriminate.
Qed.

(* (3) reallocation enabled (or jpeg_mem_dest): whatever the initial buffer, a producer that
       does not abort succeeds and the returned (pointer, size) holds exactly its bytes, in order *)
Theorem realloc_contract_all c hs alloc ops : good_cfg c -> eff_alloc c alloc = true ->
  w_ok (run c (hs ++ [HCall alloc ops])) = true ->
  forallb hop_chunks_ok hs = true -> forallb chunk_ok ops = true -> forallb no_abort ops = true ->
  let w' := run c (hs ++ [HCall alloc ops]) in
  snd (run_call_st c alloc ops (run c hs)) = StOk /\
  lib_clean w' = true /\
  w_size w' = Z.of_nat (length (bytes_of ops)) /\
  contents (w_heap w') (w_buf w') (w_size w') = bytes_of ops.
Proof.
  intros G Hea Hok Hch Hco Hab w'.
  pose proof (call_after_history c hs alloc ops G Hok Hch Hco) as H.
  destruct (run_call_st c alloc ops (run c hs)) as [w1 st]. destruct H as (E & HI & _ & _ & Hs & Hf & _).
  unfold w'. rewrite E. cbn [snd].
  assert (st = StOk).
  { destruct st; [reflexivity| | |]; exfalso; destruct (Hf ltac:(discriminate)) as [(H1 & H2)|(H1 & H2)]; congruence. }
  subst st. destruct (Hs eq_refl) as (_ & A & B & _).
  split; [reflexivity|]. split; [apply nobad_clean; exact (proj1 (proj2 HI))|]. split; assumption.
Qed.

(* ------------------------------------------------ witnesses (vm_compute) *)
Definition notes_of (l : list logent) : list note :=
  flat_map (fun e => match e with LNote n => [n] | _ => [] end) l.
Definition bads_of (l : list logent) : list bad :=
  flat_map (fun e => match e with LBad b => [b] | _ => [] end) l.
(* flag, notes, and the FIRST bad event (the log is newest first) *)
Definition verdict (w : world) := (w_ok w, notes_of (h_log (w_heap w)), hd_error (rev (bads_of (h_log (w_heap w))))).
Definition chunk (n : nat) : pop := PChunk (repeat 7 n).
Definition bigcall : hop := HCall true (map (fun _ => chunk 500) (seq 0 10)).     (* 5000 bytes: one doubling *)

(* F2, the rule before the fix: NULL buffer grown by the library, caller frees the result,
   second call with a fresh 100-byte buffer that has to grow -> free() of the stale newbuffer *)
Definition hist_f2 : list hop := [bigcall; HFreeBuf; HAlloc 100 false; HCall true [chunk 200]].
Lemma old_rule_double_free :
  forallb hop_chunks_ok hist_f2 = true /\
  verdict (run cfg_tj_old hist_f2) = (true, [], Some (BadDoubleFree 2)) /\
  verdict (run cfg_tj hist_f2) = (true, [], None).
Proof. vm_compute. repeat split. Qed.

(* address recycling: the caller frees the result, its next (smaller) tj3Alloc() block lands
   on the same address and is taken for the old buffer *)
Definition hist_aba : list hop := [HCall true [chunk 10]; HFreeBuf; HAlloc 100 true; HCall true [chunk 300]].
Lemma aba_overrun : verdict (run cfg_tj hist_aba) = (false, [NRecycled], Some (BadOverrun 2 100)).
Proof. vm_compute. reflexivity. Qed.

(* documented reuse ("*jpegSize is ignored") with *jpegSize = 0: overrun with the allocation-branch
   condition before the fix, clean (and outside no hypothesis) with the current one *)
Definition hist_zero : list hop := [bigcall; HSetSize 0; bigcall].
Lemma zero_size_reuse_overrun :
  verdict (run cfg_tj_oldzero hist_zero) = (false, [NZeroReuse], Some (BadOverrun 3 4096)) /\
  verdict (run cfg_tj hist_zero) = (true, [], None).
Proof. split; vm_compute; reflexivity. Qed.

(* boundary of the producer assumption: a chunk of exactly BUFSIZE bytes stored directly when
   free_in_buffer = BUFSIZE leaves free_in_buffer = 0 without a dump; the next emit_byte overruns *)
Definition hist_512 : list hop :=
  [HCall true (map (fun _ => chunk 448) (seq 0 8) ++ [chunk 512; PByte 1])].
Lemma exact_bufsize_chunk_overruns : verdict (run cfg_tj hist_512) = (true, [], Some (BadOverrun 1 4096)).
Proof. vm_compute. reflexivity. Qed.

(* ------------------------------------------------------------- ICC bytes *)
Require Import ZifyBool.
Ltac Zify.zify_post_hook ::= Z.div_mod_to_equations.

Lemma icc_consts : icc_max_data = 65519 /\ forall l, icc_marker_bytes l = 18 + l.
Proof. split; [reflexivity|]. intros l. unfold icc_marker_bytes. change icc_overhead_len with 14. lia. Qed.

Lemma icc_loop_spec : forall fuel rem acc, 0 <= rem <= Z.of_nat fuel * 65519 ->
  icc_loop fuel rem acc = acc + rem + 18 * ((rem + 65518) / 65519).
Proof.
  destruct icc_consts as (Hm & Hb).
  induction fuel as [|f IH]; intros rem acc H.
  - cbn [icc_loop]. assert (rem = 0) by lia. subst rem. change ((0 + 65518) / 65519) with 0. lia.
  - cbn [icc_loop]. destruct (rem <=? 0) eqn:E.
    + apply Z.leb_le in E. assert (rem = 0) by lia. subst rem. change ((0 + 65518) / 65519) with 0. lia.
    + apply Z.leb_gt in E. rewrite Hm, Hb. rewrite IH by lia.
      destruct (Z.le_gt_cases rem 65519) as [Hle|Hgt].
      * rewrite Z.min_l by lia. replace (rem - rem) with 0 by lia. lia.
      * rewrite Z.min_r by lia. lia.
Qed.

(* (5) an ICC profile of len bytes costs exactly len + 18 * ceil(len / 65519) bytes *)
Theorem icc_extra_all len : 0 <= len -> icc_bytes len = len + 18 * ((len + 65518) / 65519).
Proof.
  intros H. unfold icc_bytes. destruct icc_consts as (Hm & _). rewrite Hm.
  rewrite icc_loop_spec; [lia|]. rewrite Z2Nat.id by lia. lia.
Qed.

(* ------------------------------ results go through the records of the CURRENT call *)
(* the caller passes the same buffer through another (pointer, size) record: the result is
   stored in that record (w_buf / w_size, see the contracts above), no other record changes,
   and nothing is stored through an earlier call's variables (BadStalePair is an LBad) *)
Theorem current_pair_all c hs alloc ops : good_cfg c ->
  w_ok (run c (hs ++ [HCall alloc ops])) = true ->
  forallb hop_chunks_ok hs = true -> forallb chunk_ok ops = true ->
  other_pairs (run c (hs ++ [HCall alloc ops])) = other_pairs (run c hs) /\
  lib_clean (run c (hs ++ [HCall alloc ops])) = true.
Proof.
  intros G Hok Hch Hco. split.
  - rewrite run_snoc. cbn [run_hop]. unfold other_pairs.
    destruct (run_call_frame2 c alloc ops
      (flag_if (zero_reuse c alloc (flag_if (negb (pass_ok c alloc (run c hs))) NCallerPass (run c hs))) NZeroReuse
         (flag_if (negb (pass_ok c alloc (run c hs))) NCallerPass (run c hs)))) as (_ & H).
    rewrite H. unfold flag_if. destruct (zero_reuse _ _ _), (negb _); reflexivity.
  - apply reuse_safe_all; [exact G|exact Hok|]. rewrite forallb_snoc, Hch. exact Hco.
Qed.

(* seeded change C13-5 as a model: binding only when the buffer is not reused *)
Definition hist_pairs : list hop := [bigcall; HSwitch true 1; HCall true [chunk 10]].
Lemma norebind_stale_pair :
  verdict (run cfg_tj_norebind hist_pairs) = (true, [], Some BadStalePair) /\
  verdict (run cfg_tj hist_pairs) = (true, [], None).
Proof. split; vm_compute; reflexivity. Qed.
