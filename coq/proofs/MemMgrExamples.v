(* C14 -- the generated configuration is well formed; the limit checks found in the
   source implement the limits; concrete non-vacuity witnesses. *)
From Coq Require Import List ZArith Bool Lia Permutation.
From LJT Require Import model.MemMgr model.TjInit model.DestBuf model.VirtAccess model.MemCfg gen.GenMemConst proofs.MemMgrProofs proofs.MemMgrWrap proofs.MemMgrLimits proofs.TjInitProofs proofs.DestBufProofs proofs.VirtAccessProofs proofs.MemMgrGeom.
Import ListNotations.
Local Open Scope Z_scope.

(* the constants of the current source tree satisfy the hypotheses of every theorem, for
   both ALIGN_SIZE variants and any plausible struct sizes *)
Lemma gen_cfg_wf : forall align mgr sctl bctl,
  (align = align_simd \/ align = align_nosimd) ->
  0 < mgr <= 1000000 -> 0 < sctl <= 1000000 -> 0 < bctl <= 1000000 ->
  cfg_wf (gen_cfg align mgr sctl bctl).
Proof.
  intros align mgr sctl bctl Ha Hm Hs Hb.
  unfold cfg_wf, gen_cfg; simpl.
  unfold align_simd, align_nosimd, pool_hdr_size, max_alloc_chunk, first_pool_slop0, first_pool_slop1,
    extra_pool_slop0, extra_pool_slop1, min_slop, sizeof_ptr, sizeof_jblock, big_minheights in *.
  destruct Ha; subst; lia.
Qed.

(* MAX_ALLOC_CHUNK is a multiple of ALIGN_SIZE and ALIGN_SIZE a power of two (the
   configuration checks of jinit_memory_mgr never fire), sizeof(JBLOCK) is a multiple of it *)
Lemma gen_align_facts :
  max_alloc_chunk mod align_simd = 0 /\ max_alloc_chunk mod align_nosimd = 0 /\
  align_simd = 2 ^ 5 /\ align_nosimd = 2 ^ 3 /\
  sizeof_jblock mod align_simd = 0 /\ sizeof_jblock mod align_nosimd = 0.
Proof. vm_compute. repeat split; reflexivity. Qed.

Lemma pixels_limit_src_exact : forall w h lim,
  0 <= w < two32 -> 0 <= h < two32 -> 0 < lim ->
  (pixels_rejected_src w h lim = true <-> w * h > lim).
Proof. intros. unfold pixels_rejected_src. change limit_product_bits with 64. apply pixels_limit_exact; auto. Qed.

Lemma scan_limit_src_exact : forall n lim, 0 < lim -> (scan_rejected_src n lim = true <-> n > lim).
Proof. intros. unfold scan_rejected_src. change scan_limit_strict with true. apply scan_limit_exact; auto. Qed.

Lemma limits_off : forall w h n, pixels_rejected_src w h 0 = false /\ scan_rejected_src n 0 = false.
Proof. intros. split; reflexivity. Qed.

Lemma maxmem_megabytes : forall mb, max_memory_to_use_of mb = mb * 1048576.
Proof. intros. unfold max_memory_to_use_of. change maxmem_scale with 1048576. reflexivity. Qed.

(* ------------------------------------------------------------ non-vacuity *)
Definition ex_cfg : cfg := gen_cfg align_simd 168 152 152.

Definition ex_ops : list op :=
  [OInit; OSmall 0 100; OSmall 1 20000; OLarge 1 5000; OSarray 1 100 10; OBarray 1 10 10;
   OReqS 1 1000 500 8; OReqB 1 20 30 4; OSetMax 100000; ORealize; OSetMax 1000000; ORealize;
   OLarge 0 18446744073709551615; OFreePool 1; OSmall 0 5000].
(* the 2nd, 3rd and 9th allocation fail *)
Definition ex_oracle : list bool := [false; true; true; false; false; false; false; false; true].

Lemma ex_in_range : Forall op_in_range ex_ops.
Proof. unfold ex_ops. repeat constructor; unfold two64, two32; simpl; lia. Qed.

(* the run reaches a state with a live manager, 3 live blocks, and went through
   out-of-memory, size-guard and no-backing-store errors on the way *)
Lemma ex_run_nontrivial :
  let s := run w64 ex_cfg ex_ops (init_st ex_oracle) in
  length (live (s_heap s)) = 3%nat /\
  (exists m, s_mgr s = Some m /\ m_total m = sumsz (live (s_heap s)) /\ m_total m > 168) /\
  snd (step w64 ex_cfg ORealize (run w64 ex_cfg (firstn 9 ex_ops) (init_st ex_oracle))) = Some NoBackingStore /\
  snd (step w64 ex_cfg (OLarge 0 18446744073709551615) (run w64 ex_cfg (firstn 12 ex_ops) (init_st ex_oracle))) = Some (OOM 8) /\
  snd (step w64 ex_cfg (OSmall 0 100) (run w64 ex_cfg (firstn 1 ex_ops) (init_st ex_oracle))) = None /\
  live (s_heap (run w64 ex_cfg (ex_ops ++ [ODestroy]) (init_st ex_oracle))) = [].
Proof. vm_compute. repeat split; try reflexivity. eexists; repeat split; reflexivity. Qed.

(* max_memory_honoured is not vacuous: a state where realize succeeds under a limit ... *)
Definition ex_mgr (maxmem : Z) : mgr :=
  {| m_blk := 0; m_small0 := []; m_small1 := []; m_large0 := []; m_large1 := [];
     m_vs := [new_varr 1000 500 8]; m_vb := [new_varr 20 30 4]; m_total := 168; m_maxmem := maxmem |}.
Definition ex_heap : heap := {| live := [(0, 168)]; next := 1; orc := []; badfree := 0; trace := [] |}.

Lemma ex_realize :
  (let '(_, _, e) := realize_virt_arrays w64 ex_cfg (ex_mgr 1000000) ex_heap 8 in e = None) /\
  (let '(_, _, e) := realize_virt_arrays w64 ex_cfg (ex_mgr 100000) ex_heap 8 in e = Some NoBackingStore) /\
  Forall varr_wf (m_vs (ex_mgr 1)) /\ Forall varr_wf (m_vb (ex_mgr 1)) /\
  full_bytes 1 (m_vs (ex_mgr 1)) + full_bytes 128 (m_vb (ex_mgr 1)) = 576800.
Proof.
  vm_compute. repeat split; try reflexivity; repeat constructor; try congruence.
Qed.

Lemma ex_limits :
  pixels_rejected_src 100 100 10000 = false /\ pixels_rejected_src 100 100 9999 = true /\
  pixels_rejected_src 65536 65536 1 = true /\
  scan_rejected_src 5 5 = false /\ scan_rejected_src 6 5 = true.
Proof. vm_compute. repeat split; reflexivity. Qed.

(* tj3Init with a handler that only frees the instance struct leaks: TJINIT_TRANSFORM, the
   4th allocation (jinit_memory_mgr of the decompress half) fails: the whole compress half
   (control block + PERMANENT pool) stays allocated.  Also: persistent failure from the 3rd
   allocation on (the first PERMANENT pool cannot be obtained) leaks the control block
   for every init type.  = finding F4 *)
Lemma tj3_init_leak_witness :
  (let '(ok, h) := tj3_init_destroy w64 ex_cfg false ITransform (empty_heap [false; false; false; true]) 1000 [64; 88] [64; 200; 48; 56] in
   ok = false /\ length (live h) = 2%nat) /\
  (let '(ok, h) := tj3_init_destroy w64 ex_cfg false ICompress (empty_heap (false :: false :: repeat true 20)) 1000 [64; 88] [64; 200; 48; 56] in
   ok = false /\ length (live h) = 1%nat) /\
  (let '(ok, h) := tj3_init_destroy w64 ex_cfg false IDecompress (empty_heap (false :: false :: repeat true 20)) 1000 [64; 88] [64; 200; 48; 56] in
   ok = false /\ length (live h) = 1%nat) /\
  (* and the same oracles are harmless with the destroying handler *)
  (let '(ok, h) := tj3_init_destroy w64 ex_cfg true ITransform (empty_heap [false; false; false; true]) 1000 [64; 88] [64; 200; 48; 56] in
   ok = false /\ live h = []) /\
  (let '(ok, h) := tj3_init_destroy w64 ex_cfg true ITransform (empty_heap []) 1000 [64; 88] [64; 200; 48; 56] in
   ok = true /\ live h = []).
Proof. vm_compute. repeat split; reflexivity. Qed.

Lemma tj3_init_handler_frees_only_refuted : exists c ty oracle sz csz dsz,
  cfg_wf c /\ 0 <= sz <= c_max c /\ Forall (fun z => 0 <= z) csz /\ Forall (fun z => 0 <= z) dsz /\
  let '(ok, h) := tj3_init_destroy w64 c false ty (empty_heap oracle) sz csz dsz in live h <> [].
Proof.
  exists ex_cfg, ITransform, [false; false; false; true], 1000, [64; 88], [64; 200; 48; 56].
  split. { apply gen_cfg_wf; auto; lia. }
  split. { vm_compute. split; congruence. }
  split. { repeat constructor; lia. }
  split. { repeat constructor; lia. }
  vm_compute. congruence.
Qed.

(* ---- destination buffer: the configuration found in the source is a good one ---- *)
Lemma dcfg_src_good : good dcfg_tj /\ good dcfg_ljpeg.
Proof. unfold good, dcfg_tj, dcfg_ljpeg; simpl. repeat split; auto. Qed.

Lemma destbuf_src_safe : forall cs, DestBuf.safe (final dcfg_tj cs) /\ DestBuf.safe (final dcfg_ljpeg cs).
Proof. intros. split; apply destbuf_safe; apply dcfg_src_good. Qed.

Definition mkcall m g e f := {| c_mode := m; c_grows := g; c_exit := e; c_free_after := f |}.

(* newbuffer cleared only when the manager is created: the second image, written into a buffer of the caller
   that it outgrows, makes the library free the FIRST result, which the application owns *)
Lemma destbuf_first_only_refuted : exists cs,
  b_stolen (final {| pol := ResetFirstOnly; term_on_throw := true; term_on_longjmp := true |} cs) > 0 /\
  b_badfree (final {| pol := ResetFirstOnly; term_on_throw := true; term_on_longjmp := true |} cs) > 0.
Proof. exists [mkcall MLib 1 EFinish false; mkcall MCaller 1 EFinish false]. vm_compute. split; reflexivity. Qed.

(* term_destination only in the setjmp handler: a TurboJPEG-level failure (custom filter) after one reallocation leaves
   the caller with a dangling pointer (freed when the caller releases it) and the grown buffer allocated *)
Lemma destbuf_handler_only_refuted : exists cs,
  b_live (final {| pol := ResetUnlessReused; term_on_throw := false; term_on_longjmp := true |} cs) <> [] /\
  b_badfree (final {| pol := ResetUnlessReused; term_on_throw := false; term_on_longjmp := true |} cs) > 0.
Proof. exists [mkcall MLib 1 EThrow false]. vm_compute. split; [congruence | reflexivity]. Qed.

Lemma destbuf_nonvacuous :
  let cs := [mkcall MLib 2 EFinish false; mkcall MCaller 1 EFinish false; mkcall MReuse 1 ELongjmp true;
             mkcall MLib 0 EInitFail false; mkcall MReuse 2 EThrow false; mkcall MLib 1 EFinish false; mkcall MReuse 3 EFinish false] in
  (10 <=? b_nxt (final dcfg_tj cs)) = true /\ b_live (run_calls dcfg_tj ds0 cs) <> [] /\ b_live (final dcfg_tj cs) = [].
Proof. vm_compute. repeat split; congruence. Qed.

(* ---- source constants: ALIGN_SIZE is a power of two, so the C bit-mask round-up is the model's round-up ---- *)
Lemma source_round_up_is_mask : forall a,
  rup wid a align_simd = Z.land (a + align_simd - 1) (Z.lnot (align_simd - 1)) /\
  rup wid a align_nosimd = Z.land (a + align_nosimd - 1) (Z.lnot (align_nosimd - 1)).
Proof.
  intros a. unfold rup, wid. change align_simd with (2 ^ 5). change align_nosimd with (2 ^ 3).
  rewrite !rup_is_bitmask by lia. split; reflexivity.
Qed.

(* the header plus worst-case padding is what alloc_small / alloc_large add to every request *)
Lemma source_overhead : pool_hdr_size + align_simd - 1 = 55 /\ pool_hdr_size + align_nosimd - 1 = 31 /\
  max_alloc_chunk mod align_simd = 0 /\ max_alloc_chunk mod align_nosimd = 0.
Proof. vm_compute. repeat split; reflexivity. Qed.

(* ---- virtual arrays: a window of 16 rows over 40 rows, swapped through a backing store ---- *)
Definition ex_va : varray :=
  {| a_rows := 40; a_maxacc := 8; a_inmem := 16; a_rpc := 5; a_cur := 0; a_undef := 0; a_prezero := true; a_dirty := false;
     a_bsopen := true; a_real := true; a_mem := fun _ => None; a_file := fun _ => None |}.
Definition ex_vops : list vop :=
  [VWrite 0 [1; 2; 3; 4; 5; 6; 7; 8]; VWrite 8 [9; 10; 11; 12; 13; 14; 15; 16]; VWrite 16 [17; 18; 19; 20; 21; 22; 23; 24];
   VRead 0 4; VWrite 30 [1]; VRead 20 8; VRead 36 4; VWrite 24 [25; 26; 27; 28; 29; 30; 31; 32]; VRead 4 8; VRead 33 8].

Lemma ex_va_VI : forall L, VI ex_va L.
Proof. intros. split; [unfold geom, ex_va; simpl; repeat split; try lia; intros; discriminate | intros r Hr; simpl in Hr; lia]. Qed.

Lemma ex_vrun :
  snd (vrun ex_va ex_vops) =
  [inr []; inr []; inr []; inr [Some 1; Some 2; Some 3; Some 4]; inl BadVirtualAccess;
   inr [Some 21; Some 22; Some 23; Some 24; Some 0; Some 0; Some 0; Some 0]; inr [Some 0; Some 0; Some 0; Some 0]; inr [];
   inr [Some 5; Some 6; Some 7; Some 8; Some 9; Some 10; Some 11; Some 12]; inl BadVirtualAccess] /\
  a_cur (fst (vrun ex_va ex_vops)) = 0 /\ a_undef (fst (vrun ex_va ex_vops)) = 32.

Proof. vm_compute. repeat split; reflexivity. Qed.
