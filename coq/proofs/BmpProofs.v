(* C18 -- proofs about the BMP reader model (model/Bmp.v): for every byte string the
   colormap and the row buffer are never indexed outside their allocation, returned
   samples are 8-bit, the geometry is consistent and the pixel limit is honoured. *)
From Coq Require Import List ZArith Lia Bool ZifyBool.
From LJT Require Import gen.GenPnm model.Pnm model.Bmp proofs.PnmProofs.
Import ListNotations.
Local Open Scope Z_scope.
Ltac Zify.zify_post_hook ::= Z.div_mod_to_equations.

Lemma g_chunk : max_alloc_chunk = 1000000000. Proof. reflexivity. Qed.

Definition bsafe (e : berr) : Prop := e <> B_OOB.
Definition byte (x : Z) : Prop := 0 <= x <= 255.

Lemma take_exact_split n s a r : take_exact n s = Some (a, r) -> s = a ++ r /\ length a = n.
Proof.
  revert s a r. induction n as [|n IH]; intros s a r H; cbn [take_exact] in H.
  - inversion H; subst. split; reflexivity.
  - destruct s as [|c t]; [discriminate|].
    destruct (take_exact n t) as [[a' r']|] eqn:E; [|discriminate].
    inversion H; subst. destruct (IH _ _ _ E) as [-> L]. split; cbn; auto.
Qed.

Lemma take_spec n s :
  match take n s with
  | BOk (a, r) => s = a ++ r /\ length a = Z.to_nat n
  | BErr e => e = B_EOF
  end.
Proof.
  unfold take. destruct (Z.of_nat (length s) <? n); [reflexivity|].
  destruct (take_exact (Z.to_nat n) s) as [[a r]|] eqn:E; [|reflexivity].
  apply take_exact_split in E. exact E.
Qed.

Lemma bytes_nthz l i : bytes l -> byte (nthz l i).
Proof.
  intro B. unfold nthz, byte. destruct (nth_in_or_default (Z.to_nat i) l 0) as [I| ->]; [|lia].
  unfold bytes in B. rewrite Forall_forall in B. specialize (B _ I). lia.
Qed.

Lemma bytes_skipn n l : bytes l -> bytes (skipn n l).
Proof. revert l. induction n; intros [|a l] H; cbn [skipn]; auto. apply bytes_cons in H. apply IHn. tauto. Qed.
Lemma bytes_firstn n l : bytes l -> bytes (firstn n l).
Proof.
  revert l. induction n; intros [|a l] H; cbn [firstn]; try constructor; auto.
  - apply bytes_cons in H. lia. - apply IHn. apply bytes_cons in H. tauto.
Qed.

Definition cmap_ok (cm : list (Z * Z * Z)) : Prop :=
  Forall (fun e => let '(r, g, b) := e in byte r /\ byte g /\ byte b) cm.

Lemma parse_cmap_spec n es l : bytes l -> cmap_ok (parse_cmap n es l) /\ length (parse_cmap n es l) = n.
Proof.
  revert l. induction n as [|n IH]; intros l B; cbn [parse_cmap]; [split; [constructor|reflexivity]|].
  destruct (IH (skipn (Z.to_nat es) l) (bytes_skipn _ _ B)) as [C L].
  split; [|cbn [length]; lia]. constructor; [|exact C].
  repeat split; apply bytes_nthz; auto.
Qed.

Definition bhdr_ok (hd : bmp_hdr) : Prop :=
  1 <= b_w hd /\ 1 <= b_h hd /\
  (b_bpp hd = 8 \/ b_bpp hd = 24 \/ b_bpp hd = 32) /\
  b_w hd * target_ps (b_t hd) <= 1000000000 /\
  b_w hd * (b_bpp hd / 8) <= b_roww hd /\
  cmap_ok (b_cmap hd) /\ (b_bpp hd <> 8 -> b_t hd <> TGray).

Lemma bmp_header_spec guess maxpixels want s : bytes s ->
  (forall l, want = Some (TRgb l) -> 3 <= l_ps l <= 4) ->
  match bmp_header guess maxpixels want s with
  | BOk (hd, s') => bhdr_ok hd /\ bytes s' /\ (maxpixels = 0 \/ b_w hd * b_h hd <= maxpixels) /\
                    (length s' <= length s)%nat /\
                    (forall l, b_t hd = TRgb l -> 3 <= l_ps l <= 4)
  | BErr e => bsafe e
  end.
Proof.
  intros B Hwant. unfold bmp_header, bbind.
  pose proof (take_spec 14 s) as T1. destruct (take 14 s) as [[fh s1]|e]; [|subst; discriminate].
  destruct T1 as [-> L1]. apply bytes_app in B. destruct B as [Bfh B1].
  destruct (negb (get2 fh 0 =? 19778)); [discriminate|].
  pose proof (take_spec 4 s1) as T2. destruct (take 4 s1) as [[ih0 s2]|e]; [|subst; discriminate].
  destruct T2 as [-> L2]. apply bytes_app in B1. destruct B1 as [Bih0 B2].
  set (hsize := s32 (get4 ih0 0)). set (offbits := s32 (get4 fh 10)).
  destruct ((hsize <? 12) || (hsize >? 64) || (hsize + 14 >? offbits)) eqn:EH; [discriminate|].
  pose proof (take_spec (hsize - 4) s2) as T3. destruct (take (hsize - 4) s2) as [[ih1 s3]|e]; [|subst; discriminate].
  destruct T3 as [-> L3]. apply bytes_app in B2. destruct B2 as [Bih1 B3].
  assert (Bih : bytes (ih0 ++ ih1)) by (apply bytes_app; auto).
  set (ih := ih0 ++ ih1) in *.
  (* the five header fields *)
  match goal with |- match (match ?X with _ => _ end) with _ => _ end => destruct X as [[[[[w h] planes] bpp] clrused]|e] eqn:EF end;
    [|destruct (hsize =? 12); [destruct ((_ =? 8) || _ || _) in EF; inversion EF; discriminate|];
      destruct ((hsize =? 40) || (hsize =? 64));
      [destruct (negb _) in EF; [inversion EF; discriminate|]; destruct (negb _) in EF; inversion EF; discriminate
      | inversion EF; discriminate]].
  assert (Hbpp : bpp = 8 \/ bpp = 24 \/ bpp = 32).
  { destruct (hsize =? 12).
    - destruct ((get2 ih 10 =? 8) || (get2 ih 10 =? 24) || (get2 ih 10 =? 32)) eqn:E; inversion EF; subst. lia.
    - destruct ((hsize =? 40) || (hsize =? 64)); [|discriminate].
      destruct (negb ((get2 ih 14 =? 8) || (get2 ih 14 =? 24) || (get2 ih 14 =? 32))) eqn:E; [discriminate|].
      destruct (negb (get4 ih 16 =? 0)); inversion EF; subst. lia. }
  clear EF.
  destruct ((w <=? 0) || (h <=? 0)) eqn:EW; [discriminate|].
  destruct (negb (maxpixels =? 0) && (w * h >? maxpixels)) eqn:EM; [discriminate|].
  destruct (negb (planes =? 1)); [discriminate|].
  set (mapentry := if bpp =? 8 then if hsize =? 12 then 3 else 4 else 0).
  (* colormap *)
  match goal with |- match (match ?X with _ => _ end) with _ => _ end =>
    assert (HC : match X with
                 | BOk (cm, want1, _, s4) => cmap_ok cm /\ bytes s4 /\ (length s4 <= length s3)%nat /\
                     (want1 = want \/ (want = None /\ want1 = Some TGray /\ bpp = 8))
                 | BErr e => bsafe e end);
    [|destruct X as [[[[cm want1] bpad1] s4]|e]; [|exact HC]] end.
  { destruct (mapentry >? 0) eqn:EME; [|repeat split; auto; constructor].
    assert (bpp = 8) by (subst mapentry; destruct (bpp =? 8) eqn:E8; [lia|discriminate]).
    destruct ((if clrused <=? 0 then 256 else clrused) >? 256); [discriminate|].
    pose proof (take_spec ((if clrused <=? 0 then 256 else clrused) * mapentry) s3) as T4.
    destruct (take _ s3) as [[cmb s4]|e]; [|subst; discriminate].
    destruct T4 as [-> L4]. apply bytes_app in B3. destruct B3 as [Bcmb B4].
    destruct (is_gray_t _ && negb _); [discriminate|].
    split; [apply parse_cmap_spec; auto|]. split; [auto|]. split; [rewrite app_length; lia|].
    destruct want as [t0|]; [left; reflexivity|].
    destruct (is_gray_cmap _); [right; auto | left; reflexivity]. }
  destruct HC as (Ccm & B4 & L4 & Hw1).
  destruct (bpad1 <? 0); [discriminate|].
  pose proof (take_spec bpad1 s4) as T5. destruct (take bpad1 s4) as [[pad s5]|e]; [|subst; discriminate].
  destruct T5 as [-> L5]. apply bytes_app in B4. destruct B4 as [_ B5].
  (* target *)
  match goal with |- match (match ?X with _ => _ end) with _ => _ end =>
    assert (HT : match X with
                 | BOk t => (bpp <> 8 -> t <> TGray) /\ (forall l, t = TRgb l -> 3 <= l_ps l <= 4)
                 | BErr e => bsafe e end);
    [|destruct X as [t|e]; [|exact HT]] end.
  { assert (Hw1' : forall l, want1 = Some (TRgb l) -> 3 <= l_ps l <= 4).
    { intros l E. destruct Hw1 as [->|(_ & -> & _)]; [auto|discriminate]. }
    destruct (bpp =? 8) eqn:E8.
    - split; [lia|]. destruct want1 as [t0|].
      + intros l E. subst t0. apply Hw1'. reflexivity.
      + intros l E. unfold ext_rgb in E. inversion E; subst. cbn. lia.
    - destruct want1 as [[|l0|]|].
      + discriminate.
      + split; [discriminate|]. intros l E. inversion E; subst. apply Hw1'. reflexivity.
      + split; discriminate.
      + split; [destruct guess; [discriminate|destruct (bpp =? 24); discriminate]|].
        intros l E. unfold ext_rgb, ext_bgr, ext_bgra in E. destruct guess; [|destruct (bpp =? 24)]; inversion E; subst; cbn; lia. }
  destruct HT as [HT1 HT2].
  destruct (w * (bpp / 8) >? 4294967295) eqn:EW1; [discriminate|].
  destruct (w * target_ps t >? 4294967295) eqn:EW2; [discriminate|].
  rewrite g_chunk. destruct (w * target_ps t >? 1000000000) eqn:EW3; [discriminate|].
  assert (Hps : 1 <= target_ps t <= 4).
  { destruct t as [|l|]; cbn [target_ps]; first [lia | specialize (HT2 l eq_refl); lia]. }
  assert (Hps3 : bpp <> 8 -> 3 <= target_ps t).
  { intro N. destruct t as [|l|]; cbn [target_ps];
      first [lia | specialize (HT1 N); congruence | specialize (HT2 l eq_refl); lia]. }
  unfold bhdr_ok. cbn [b_w b_h b_bpp b_cmap b_t b_roww].
  split; [|split; [exact B5|split; [lia|split; [rewrite !app_length in *; lia|exact HT2]]]].
  repeat split; try lia; auto.
  (* no wrap of the padded row width: w <= 10^9 / ps *)
  assert (w <= 1000000000) by nia.
  assert (bpp / 8 = 1 \/ bpp / 8 = 3 \/ bpp / 8 = 4) as K by (destruct Hbpp as [->|[->| ->]]; cbn; lia).
  assert (w * (bpp / 8) <= 4000000000) by nia.
  assert (w * (bpp / 8) <= 4294967295) by lia.
  rewrite Z.mod_small; [lia|]. lia.
Qed.

Section BmpReader.
  Variable cmyk : Z -> Z -> Z -> Z -> list Z.

  Definition cmyk8_bounded : Prop :=
    forall r g b, byte r -> byte g -> byte b -> Forall byte (cmyk 255 r g b) /\ length (cmyk 255 r g b) = 4%nat.
  Definition bclaim (t : target) : Prop := match t with TCmyk => cmyk8_bounded | _ => True end.

  Lemma out_pixel_spec t r g b a : byte r -> byte g -> byte b -> byte a -> bclaim t ->
    Forall byte (out_pixel cmyk t r g b a) /\ length (out_pixel cmyk t r g b a) = Z.to_nat (target_ps t).
  Proof.
    intros Hr Hg Hb Ha Cl. destruct t as [|l|]; cbn [out_pixel target_ps].
    - split; [constructor; [exact Hr|constructor]|reflexivity].
    - unfold mk_pixel. split; [|rewrite map_length, zseq_length; reflexivity].
      apply zseq_Forall. intro i. destruct (i =? l_r l); auto. destruct (i =? l_g l); auto.
      destruct (i =? l_b l); auto. destruct (i =? l_a l); auto. unfold byte; lia.
    - apply Cl; auto.
  Qed.

  Lemma cmap_nth cm k r g b : cmap_ok cm -> nth_error cm k = Some (r, g, b) -> byte r /\ byte g /\ byte b.
  Proof.
    intros C E. apply nth_error_In in E. unfold cmap_ok in C. rewrite Forall_forall in C. exact (C _ E).
  Qed.

  Lemma bmp_pixel_spec hd px : bhdr_ok hd -> bytes px -> Z.of_nat (length px) = b_bpp hd / 8 ->
    match bmp_pixel cmyk hd px with
    | BOk o => bclaim (b_t hd) -> Forall byte o /\ length o = Z.to_nat (target_ps (b_t hd))
    | BErr e => bsafe e
    end.
  Proof.
    intros (Hw & Hh & Hbpp & _ & _ & Ccm & _) B L. unfold bmp_pixel.
    replace (Z.of_nat (length px) =? b_bpp hd / 8) with true by lia. cbn [negb].
    pose proof (bytes_nthz px) as N.
    destruct (b_bpp hd =? 8) eqn:E8.
    - destruct (nthz px 0 >=? Z.of_nat (length (b_cmap hd))) eqn:ER; [discriminate|].
      destruct (nth_error (b_cmap hd) (Z.to_nat (nthz px 0))) as [[[r g] b]|] eqn:EN.
      + destruct (cmap_nth _ _ _ _ _ Ccm EN) as (Hr & Hg & Hb).
        intro Cl. apply out_pixel_spec; auto. unfold byte; lia.
      + apply nth_error_None in EN. specialize (N 0 B). unfold byte in N. lia.
    - destruct (b_bpp hd =? 24); intro Cl; apply out_pixel_spec; auto. unfold byte; lia.
  Qed.

  Lemma bmp_pixels_spec hd n buf : bhdr_ok hd -> bytes buf ->
    Z.of_nat n * (b_bpp hd / 8) <= Z.of_nat (length buf) ->
    match bmp_pixels cmyk hd n buf with
    | BOk o => bclaim (b_t hd) -> Forall byte o /\ length o = (n * Z.to_nat (target_ps (b_t hd)))%nat
    | BErr e => bsafe e
    end.
  Proof.
    intro Hh. revert buf. induction n as [|n IH]; intros buf B L; cbn [bmp_pixels].
    - intros _. split; [constructor|reflexivity].
    - unfold bbind. pose proof Hh as (Hw & Hhh & Hbpp & R).
      assert (K : 1 <= b_bpp hd / 8 <= 4) by (destruct Hbpp as [E|[E|E]]; rewrite E; cbn; lia).
      assert (Lf : Z.of_nat (length (firstn (Z.to_nat (b_bpp hd / 8)) buf)) = b_bpp hd / 8)
        by (rewrite firstn_length; lia).
      pose proof (bmp_pixel_spec hd _ Hh (bytes_firstn _ _ B) Lf) as P.
      destruct (bmp_pixel cmyk hd _) as [px|e]; [|exact P].
      specialize (IH (skipn (Z.to_nat (b_bpp hd / 8)) buf) (bytes_skipn _ _ B)).
      rewrite skipn_length in IH. specialize (IH ltac:(lia)).
      destruct (bmp_pixels cmyk hd n _) as [r|e]; [|exact IH].
      intro Cl. destruct (P Cl), (IH Cl). split; [apply Forall_app; auto | rewrite app_length; lia].
  Qed.

  Lemma bmp_rows_spec hd n s : bhdr_ok hd -> bytes s ->
    match bmp_rows cmyk hd n s with
    | BOk rows => length rows = n /\
        (bclaim (b_t hd) ->
         Forall (fun row => Forall byte row /\ length row = (Z.to_nat (b_w hd) * Z.to_nat (target_ps (b_t hd)))%nat) rows)
    | BErr e => bsafe e
    end.
  Proof.
    intro Hh. revert s. induction n as [|n IH]; intros s B; cbn [bmp_rows].
    - split; [reflexivity|constructor].
    - unfold bbind. pose proof (take_spec (b_roww hd) s) as T.
      destruct (take (b_roww hd) s) as [[buf s1]|e]; [|subst; discriminate].
      destruct T as [-> L]. apply bytes_app in B. destruct B as [Bb B1].
      pose proof Hh as (Hw & _ & _ & _ & Hrw & _).
      pose proof (bmp_pixels_spec hd (Z.to_nat (b_w hd)) buf Hh Bb ltac:(lia)) as P.
      destruct (bmp_pixels cmyk hd _ buf) as [row|e]; [|exact P].
      specialize (IH s1 B1). destruct (bmp_rows cmyk hd n s1) as [rows|e]; [|exact IH].
      destruct IH as [Ln Cl]. split; [cbn [length]; lia|].
      intro C. constructor; [apply P; auto | apply Cl; auto].
  Qed.

  Theorem load_bmp_spec maxpixels want bottomup s : bytes s ->
    (forall l, want = Some (TRgb l) -> 3 <= l_ps l <= 4) ->
    match load_bmp cmyk maxpixels want bottomup s with
    | BOk (w, h, t, rows) =>
      1 <= w /\ 1 <= h /\ (maxpixels = 0 \/ w * h <= maxpixels) /\ length rows = Z.to_nat h /\
      (bclaim t -> Forall (fun row => Forall byte row /\ length row = (Z.to_nat w * Z.to_nat (target_ps t))%nat) rows)
    | BErr e => bsafe e
    end.
  Proof.
    intros B Hw. unfold load_bmp, bbind.
    pose proof (bmp_header_spec false maxpixels want s B Hw) as H.
    destruct (bmp_header false maxpixels want s) as [[hd s1]|e]; [|exact H].
    destruct H as (Hh & B1 & Lim & _ & _).
    pose proof (bmp_rows_spec hd (Z.to_nat (b_h hd)) s1 Hh B1) as R.
    destruct (bmp_rows cmyk hd _ s1) as [rows|e]; [|exact R].
    destruct R as [Ln Cl]. destruct Hh as (H1 & H2 & _).
    repeat split; auto.
    - destruct bottomup; [|rewrite rev_length]; exact Ln.
    - intro C. destruct bottomup; [|apply Forall_rev]; apply Cl; exact C.
  Qed.

  (* cjpeg's path: preload into the virtual array, then serve rows top-down *)
  Lemma bmp_preload_spec hd n : forall s, bytes s ->
    match bmp_preload hd n s with
    | BOk bufs => length bufs = n /\ Forall (fun buf => bytes buf /\ length buf = Z.to_nat (b_roww hd)) bufs
    | BErr e => e = B_EOF
    end.
  Proof.
    induction n as [|n IH]; intros s B; cbn [bmp_preload]; [split; [reflexivity|constructor]|].
    unfold bbind. pose proof (take_spec (b_roww hd) s) as T.
    destruct (take (b_roww hd) s) as [[buf s1]|e]; [|exact T]. destruct T as [-> L].
    apply bytes_app in B. destruct B as [Bb B1]. specialize (IH s1 B1).
    destruct (bmp_preload hd n s1) as [rest|e]; [|exact IH]. destruct IH as [Ln Fn].
    split; [cbn; lia|constructor; auto].
  Qed.

  Lemma bmp_serve_spec hd bufs : bhdr_ok hd ->
    Forall (fun buf => bytes buf /\ length buf = Z.to_nat (b_roww hd)) bufs ->
    match bmp_serve cmyk hd bufs with
    | BOk rows => length rows = length bufs /\
        (bclaim (b_t hd) ->
         Forall (fun row => Forall byte row /\ length row = (Z.to_nat (b_w hd) * Z.to_nat (target_ps (b_t hd)))%nat) rows)
    | BErr e => bsafe e
    end.
  Proof.
    intros Hh. pose proof Hh as (Hw & _ & _ & _ & Hrw & _).
    induction bufs as [|buf t IH]; intro F; cbn [bmp_serve]; [split; [reflexivity|constructor]|].
    inversion F as [|? ? [Bb Lb] Ft]; subst. unfold bbind.
    pose proof (bmp_pixels_spec hd (Z.to_nat (b_w hd)) buf Hh Bb ltac:(lia)) as P.
    destruct (bmp_pixels cmyk hd _ buf) as [row|e]; [|exact P].
    specialize (IH Ft). destruct (bmp_serve cmyk hd t) as [rows|e]; [|exact IH]. destruct IH as [Ln Cl].
    split; [cbn; lia|]. intro C. constructor; [apply P; auto|apply Cl; auto].
  Qed.

  Theorem load_bmp_cj_spec maxpixels s : bytes s ->
    match load_bmp_cj cmyk maxpixels s with
    | BOk (w, h, t, rows) =>
      1 <= w /\ 1 <= h /\ (maxpixels = 0 \/ w * h <= maxpixels) /\ length rows = Z.to_nat h /\
      (bclaim t -> Forall (fun row => Forall byte row /\ length row = (Z.to_nat w * Z.to_nat (target_ps t))%nat) rows)
    | BErr e => bsafe e
    end.
  Proof.
    intros B. unfold load_bmp_cj, bbind.
    pose proof (bmp_header_spec true maxpixels None s B ltac:(intros; discriminate)) as H.
    destruct (bmp_header true maxpixels None s) as [[hd s1]|e]; [|exact H].
    destruct H as (Hh & B1 & Lim & _ & _).
    pose proof (bmp_preload_spec hd (Z.to_nat (b_h hd)) s1 B1) as P.
    destruct (bmp_preload hd _ s1) as [bufs|e]; [|subst; discriminate]. destruct P as [Ln Fb].
    pose proof (bmp_serve_spec hd (rev bufs) Hh ltac:(apply Forall_rev; exact Fb)) as S.
    destruct (bmp_serve cmyk hd (rev bufs)) as [rows|e]; [|exact S]. destruct S as [Lr Cl].
    destruct Hh as (H1 & H2 & _). rewrite rev_length in Lr.
    split; [exact H1|]. split; [exact H2|]. split; [exact Lim|]. split; [lia|exact Cl].
  Qed.
End BmpReader.
