(* The lazily refilled bit reader and the row-by-row decoder (model/LosslessLazy.v)
   on the bytes the encoder writes: same differences as the whole-segment reader,
   never a byte past the marker, restart markers met on the rows where the encoder
   put them; end to end: sample rows -> bytes -> sample rows. *)
From Coq Require Import List ZArith Lia Bool.
From LJT Require Import model.Huff model.Lossless model.LosslessBytes model.LosslessLazy
  proofs.LosslessProofs proofs.LosslessScanProofs proofs.LosslessBitsProofs proofs.LosslessBytesProofs.
Import ListNotations.
Local Open Scope Z_scope.

(* the reader is somewhere inside a segment whose remaining bit stream is S and
   which is followed by the marker m and the bytes tail *)
Definition wf (st : brstate) (S : list bool) (m : Z) (tail : list Z) : Prop :=
  br_insuf st = false /\
  ((br_marker st = None /\ exists raw, raw_ok raw /\ br_inp st = flat_map stuff1 raw ++ 255 :: m :: tail /\
                                        S = br_buf st ++ bits_of_bytes raw)
   \/ (br_marker st = Some m /\ br_inp st = tail /\ S = br_buf st)).

Lemma next_unit_data c raw X : 0 <= c < 256 ->
  next_unit (flat_map stuff1 (c :: raw) ++ X) = Some (inl c, flat_map stuff1 raw ++ X).
Proof.
  intros Hc. cbn [flat_map]. unfold stuff1 at 1. destruct (c =? 255) eqn:E.
  - assert (c = 255) by lia. subst c. reflexivity.
  - cbn [app next_unit]. rewrite E. reflexivity.
Qed.

Lemma next_unit_marker m tail : m <> 0 -> m <> 255 -> next_unit (255 :: m :: tail) = Some (inr m, tail).
Proof.
  intros H0 H255. cbn. destruct (m =? 255) eqn:E1; [lia|]. destruct (m =? 0) eqn:E2; [lia|]. reflexivity.
Qed.

Section Reader.
  Variables (m : Z) (tail : list Z).
  Hypothesis Hm0 : m <> 0.
  Hypothesis Hm255 : m <> 255.

  Lemma fill_loop_wf : forall fuel buf raw, raw_ok raw -> (64 <= length buf + 8 * fuel)%nat ->
    exists b' i' mk, fill_loop fuel buf (flat_map stuff1 raw ++ 255 :: m :: tail) = Some (b', i', mk) /\
      ((mk = None /\ exists raw', raw_ok raw' /\ i' = flat_map stuff1 raw' ++ 255 :: m :: tail /\
                                  buf ++ bits_of_bytes raw = b' ++ bits_of_bytes raw' /\ (57 <= length b')%nat)
       \/ (mk = Some m /\ i' = tail /\ b' = buf ++ bits_of_bytes raw)).
  Proof.
    induction fuel as [|fuel IH]; intros buf raw Hr Hf.
    - exists buf, (flat_map stuff1 raw ++ 255 :: m :: tail), None. split; [reflexivity|]. left.
      split; [reflexivity|]. exists raw. repeat split; auto. lia.
    - cbn [fill_loop]. destruct (length buf <? MIN_GET_BITS)%nat eqn:E.
      + destruct raw as [|c raw].
        * cbn [flat_map app]. rewrite next_unit_marker by assumption.
          exists buf, tail, (Some m). split; [reflexivity|]. right. cbn. rewrite app_nil_r. auto.
        * inversion Hr; subst. rewrite next_unit_data by assumption.
          destruct (IH (buf ++ bits_of 8 c) raw) as (b' & i' & mk & E1 & D); [assumption| |].
          { rewrite app_length, bits_of_length. lia. }
          exists b', i', mk. split; [exact E1|]. unfold bits_of_bytes in *. cbn [flat_map].
          rewrite <- app_assoc in D. exact D.
      + apply Nat.ltb_ge in E. unfold MIN_GET_BITS in E.
        exists buf, (flat_map stuff1 raw ++ 255 :: m :: tail), None. split; [reflexivity|]. left.
        split; [reflexivity|]. exists raw. repeat split; auto.
  Qed.

  (* a refill keeps the remaining stream, never passes the marker, inserts no zero
     bits as long as the request can be met, and leaves >= 57 bits or the whole rest *)
  Lemma fill_wf st S n : wf st S m tail -> (n <= length S)%nat ->
    exists st', fill_bit_buffer st n = Some st' /\ wf st' S m tail /\
                (exists R, S = br_buf st' ++ R) /\ ((57 <= length (br_buf st'))%nat \/ br_buf st' = S).
  Proof.
    intros (Hins & [(Hmk & raw & Hr & Hinp & HS)|(Hmk & Hinp & HS)]) Hn; unfold fill_bit_buffer; rewrite Hmk.
    - rewrite Hinp. destruct (fill_loop_wf 8 (br_buf st) raw Hr ltac:(lia)) as (b' & i' & mk & E & D). rewrite E.
      destruct D as [(-> & raw' & Hr' & -> & Eq & L57)|(-> & -> & ->)].
      + eexists. split; [reflexivity|]. split; [|split].
        * split; [exact Hins|]. left. split; [reflexivity|]. exists raw'. cbn. rewrite HS. auto.
        * cbn. exists (bits_of_bytes raw'). rewrite HS. exact Eq.
        * left. exact L57.
      + unfold no_more_bytes. rewrite <- HS.
        destruct (length S <? n)%nat eqn:E2; [apply Nat.ltb_lt in E2; lia|].
        eexists. split; [reflexivity|]. split; [|split].
        * split; [exact Hins|]. right. cbn. auto.
        * exists []. cbn. rewrite app_nil_r. reflexivity.
        * right. reflexivity.
    - unfold no_more_bytes. rewrite <- HS.
      destruct (length S <? n)%nat eqn:E2; [apply Nat.ltb_lt in E2; lia|].
      eexists. split; [reflexivity|]. split; [|split].
      + split; [exact Hins|]. right. cbn. auto.
      + exists []. cbn. rewrite app_nil_r. reflexivity.
      + right. reflexivity.
  Qed.

  Lemma wf_prefix st S : wf st S m tail -> exists Q, S = br_buf st ++ Q.
  Proof.
    intros (_ & [(_ & raw & _ & _ & ->)|(_ & _ & ->)]); [eexists; reflexivity|exists []; rewrite app_nil_r; reflexivity].
  Qed.

  Lemma app_prefix {A} (X R B Q : list A) : X ++ R = B ++ Q -> (length X <= length B)%nat -> exists Y, B = X ++ Y.
  Proof.
    intros E L. apply app_eq_app in E. destruct E as [l [[E1 E2]|[E1 E2]]].
    - subst X. rewrite app_length in L. assert (length l = 0)%nat by lia. destruct l; [|discriminate].
      exists []. rewrite !app_nil_r. reflexivity.
    - exists l. exact E1.
  Qed.

  (* "if (bits_left < t) fill(n)": afterwards the next |X| <= t bits are in the buffer *)
  Lemma ensure st X R (t n : nat) : wf st (X ++ R) m tail -> (n <= length (X ++ R))%nat ->
    (length X <= t)%nat -> (t <= 57)%nat ->
    exists st' Y, (if (length (br_buf st) <? t)%nat then fill_bit_buffer st n else Some st) = Some st' /\
                  wf st' (X ++ R) m tail /\ br_buf st' = X ++ Y.
  Proof.
    intros W Hn HX Ht. destruct (length (br_buf st) <? t)%nat eqn:E.
    - destruct (fill_wf st (X ++ R) n W Hn) as (st' & Ef & W' & (Q & EQ) & D).
      destruct (app_prefix X R (br_buf st') Q EQ) as (Y & EY).
      { destruct D as [D|D]; [lia|]. rewrite D, app_length. lia. }
      exists st', Y. auto.
    - apply Nat.ltb_ge in E. destruct (wf_prefix st _ W) as (Q & EQ).
      destruct (app_prefix X R (br_buf st) Q EQ ltac:(lia)) as (Y & EY). exists st, Y. auto.
  Qed.

  Lemma wf_consume st X Y R : wf st (X ++ R) m tail -> br_buf st = X ++ Y -> wf (with_buf st Y) R m tail.
  Proof.
    intros (Hins & [(Hmk & raw & Hr & Hinp & HS)|(Hmk & Hinp & HS)]) Hb; (split; [exact Hins|]).
    - left. split; [exact Hmk|]. exists raw. split; [exact Hr|]. split; [exact Hinp|]. cbn.
      rewrite Hb, <- app_assoc in HS. apply app_inv_head in HS. exact HS.
    - right. split; [exact Hmk|]. split; [exact Hinp|]. cbn. rewrite Hb in HS. apply app_inv_head in HS. exact HS.
  Qed.

  Variable code : Z -> Z -> list bool.
  Variable dec : Z -> list bool -> option (Z * list bool).
  Hypothesis dec_code : forall tbl s rest, 0 <= s <= 16 -> dec tbl (code tbl s ++ rest) = Some (s, rest).
  Hypothesis code_len : forall tbl s, 0 <= s <= 16 -> (length (code tbl s) <= 16)%nat.

  (* one difference through the lazy reader *)
  Lemma lazy_tok st tbl d R : wf st (encode_tok code tbl d ++ R) m tail ->
    exists st', lazy_decode_tok dec tbl st = Some (canon_diff d, st') /\ wf st' R m tail.
  Proof.
    intros W. unfold lazy_decode_tok, encode_tok, canon_diff, decode_diff in *.
    pose proof (encode_diff_category d) as (Hc & He & _ & _).
    destruct (encode_diff d) as [nb extra]. cbn [fst snd] in *.
    set (E := if (nb =? 0) || (nb =? 16) then [] else bits_of (Z.to_nat nb) extra) in *.
    rewrite <- app_assoc in W.
    destruct (ensure st [] (code tbl nb ++ E ++ R) 8 0 W ltac:(lia) ltac:(cbn; lia) ltac:(lia)) as (st0 & Y0 & E0 & W0 & _).
    rewrite E0. cbn [app] in W0.
    destruct (ensure st0 (code tbl nb) (E ++ R) 16 0 W0 ltac:(lia) (code_len tbl nb Hc) ltac:(lia)) as (st1 & Y1 & E1 & W1 & B1).
    rewrite E1, B1, dec_code by assumption.
    pose proof (wf_consume st1 _ Y1 _ W1 B1) as W2.
    destruct (nb =? 0) eqn:N0.
    - exists (with_buf st1 Y1). split; [reflexivity|]. exact W2.
    - destruct (nb =? 16) eqn:N16.
      + exists (with_buf st1 Y1). split; [reflexivity|]. exact W2.
      + cbn [orb] in E. unfold E in *. clear E.
        assert (HE : length (bits_of (Z.to_nat nb) extra) = Z.to_nat nb) by apply bits_of_length.
        destruct (ensure (with_buf st1 Y1) (bits_of (Z.to_nat nb) extra) R (Z.to_nat nb) (Z.to_nat nb) W2)
          as (st3 & Y3 & E3 & W3 & B3); try lia.
        { rewrite app_length, HE. lia. }
        cbn [br_buf with_buf] in E3. rewrite E3, B3.
        rewrite get_bits_of by lia. rewrite Z2Nat.id by lia. rewrite Z.mod_small by lia.
        rewrite Z.mul_0_l, Z.add_0_l.
        exists (with_buf st3 Y3). split; [reflexivity|]. exact (wf_consume st3 _ Y3 _ W3 B3).
  Qed.

  Lemma lazy_toks : forall l st R, wf st (encode_toks code l ++ R) m tail ->
    exists st', lazy_decode_toks dec (map fst l) st = Some (map (fun td => canon_diff (snd td)) l, st') /\ wf st' R m tail.
  Proof.
    induction l as [|[tbl d] t IH]; intros st R W.
    - exists st. split; [reflexivity|exact W].
    - cbn [encode_toks map fst snd lazy_decode_toks] in *. rewrite <- app_assoc in W.
      destruct (lazy_tok st tbl d _ W) as (st1 & E1 & W1). rewrite E1.
      destruct (IH st1 R W1) as (st2 & E2 & W2). rewrite E2. exists st2. auto.
  Qed.
End Reader.

(* ------------------------------------------------------ rows and restarts *)
(* the restart decisions of the row counter, as a list of flags *)
Fixpoint ctr_flags (ri mpr : Z) (k : nat) (rtg : Z) : list bool :=
  match k with
  | O => []
  | S k' =>
      let restart := negb (ri =? 0) && (rtg =? 0) in
      let rtg1 := if restart then ri / mpr else rtg in
      restart :: ctr_flags ri mpr k' (if ri =? 0 then rtg1 else u32 (rtg1 - 1))
  end.

Lemma dec_rows_lazy_flags dec ri mpr tbls w : forall h st rtg num rows fin,
  dec_rows_lazy dec ri mpr tbls w h st rtg num = Some (rows, fin) ->
  map fst rows = ctr_flags ri mpr h rtg /\ length rows = h.
Proof.
  induction h as [|h IH]; intros st rtg num rows fin H; cbn [dec_rows_lazy ctr_flags] in *.
  - injection H as <- _. auto.
  - destruct (if negb (ri =? 0) && (rtg =? 0) then process_restart_bytes st num else Some st) as [st1|]; [|discriminate].
    destruct (lazy_decode_toks dec (concat (repeat tbls w)) st1) as [[ds st2]|]; [|discriminate].
    destruct (dec_rows_lazy dec ri mpr tbls w h st2 _ _) as [[rows' fin']|] eqn:E; [|discriminate].
    injection H as <- _. destruct (IH _ _ _ _ _ E) as [F L]. cbn [map fst length]. rewrite F, L. auto.
Qed.

(* the difference-level decoder with its own counter is the flag-driven one *)
Lemma dec_scan_rows_flags ri mpr psv prec pt : forall dms firsts rtg prevs,
  dec_scan_rows ri mpr psv prec pt firsts rtg prevs dms =
  undiff_rows_pending psv prec pt firsts prevs (combine (ctr_flags ri mpr (length dms) rtg) dms).
Proof.
  induction dms as [|dm t IH]; intros firsts rtg prevs; [reflexivity|].
  cbn [dec_scan_rows length ctr_flags combine undiff_rows_pending]. rewrite IH.
  destruct (negb (ri =? 0) && (rtg =? 0)); reflexivity.
Qed.

Section Rows.
  Variable cts : Z -> ctbl.
  Hypothesis Hsz : forall t, sizes_ok (cts t).
  Variable dec : Z -> list bool -> option (Z * list bool).
  Notation code := (ct_code cts).
  Hypothesis dec_code : forall tbl s rest, 0 <= s <= 16 -> dec tbl (code tbl s ++ rest) = Some (s, rest).
  Variable ri : Z.
  Variable w R : nat.
  Hypothesis Hw : (1 <= w)%nat.
  Hypothesis HR : ri = 0 \/ ((1 <= R)%nat /\ ri = Z.of_nat (R * w)).
  Hypothesis Hri32 : ri < 4294967296.
  Variable tbls : list Z.
  Notation mprZ := (Z.of_nat w).
  Notation rowsT := (list (list (list (Z * Z)))).

  Lemma code_len16 tbl s : 0 <= s <= 16 -> (length (code tbl s) <= 16)%nat.
  Proof. intros H. unfold ct_code. rewrite bits_of_length. pose proof (Hsz tbl s H). lia. Qed.

  (* every row asks the tables in the order the decoder expects *)
  Definition row_tbls_ok (r : list (list (Z * Z))) : Prop := map fst (concat r) = concat (repeat tbls w).
  Definition deint (r : list (list (Z * Z))) : list (list Z) :=
    transpose (length tbls) (chunks (length tbls) w (map (fun td => canon_diff (snd td)) (concat r))).

  Lemma ri_div : 0 < ri -> ri / mprZ = Z.of_nat R.
  Proof.
    intros H. destruct HR as [?|[_ ->]]; [lia|]. rewrite Nat2Z.inj_mul. apply Z.div_mul. lia.
  Qed.

  (* rows inside a segment: no restart is due *)
  Lemma rows_lazy_norestart m tail : m <> 0 -> m <> 255 ->
    forall (rows : rowsT) h2 st Rr rtg num, Forall row_tbls_ok rows ->
    (ri = 0 \/ (0 < ri /\ Z.of_nat (length rows) <= rtg < 4294967296)) ->
    wf st (encode_toks code (toks_of_rows rows) ++ Rr) m tail ->
    exists st', wf st' Rr m tail /\
      dec_rows_lazy dec ri mprZ tbls w (length rows + h2) st rtg num =
      match dec_rows_lazy dec ri mprZ tbls w h2 st' (if ri =? 0 then rtg else rtg - Z.of_nat (length rows)) num with
      | None => None
      | Some (rest, fin) => Some (map (fun r => (false, deint r)) rows ++ rest, fin)
      end.
  Proof.
    intros Hm0 Hm255. induction rows as [|r t IH]; intros h2 st Rr rtg num Hok Hc W.
    - exists st. split; [exact W|]. cbn [length Nat.add map app]. replace (rtg - Z.of_nat 0) with rtg by lia.
      destruct (ri =? 0); destruct (dec_rows_lazy dec ri mprZ tbls w h2 st rtg num) as [[? ?]|]; reflexivity.
    - inversion Hok as [|? ? Hr Ht]; subst. unfold toks_of_rows in W. cbn [concat] in W.
      rewrite concat_app, encode_toks_app, <- app_assoc in W.
      destruct (lazy_toks m tail Hm0 Hm255 code dec dec_code code_len16 (concat r) st _ W) as (st1 & E1 & W1).
      rewrite Hr in E1.
      assert (Hno : negb (ri =? 0) && (rtg =? 0) = false).
      { destruct Hc as [->|[Hri Hle]]; [reflexivity|]. cbn [length] in Hle.
        destruct (rtg =? 0) eqn:E0; [lia|apply andb_false_r]. }
      set (rtg2 := if ri =? 0 then rtg else u32 (rtg - 1)).
      destruct (IH h2 st1 Rr rtg2 num Ht) as (st2 & W2 & E2).
      { destruct Hc as [->|[Hri Hle]]; [left; reflexivity|]. right. split; [assumption|]. unfold rtg2.
        destruct (ri =? 0) eqn:E; [lia|]. cbn [length] in Hle. unfold u32. rewrite Z.mod_small by lia. lia. }
      { exact W1. }
      exists st2. split; [exact W2|]. cbn [length Nat.add dec_rows_lazy]. rewrite Hno, E1. fold rtg2. rewrite E2.
      assert (Ertg : (if ri =? 0 then rtg2 else rtg2 - Z.of_nat (length t)) =
                     (if ri =? 0 then rtg else rtg - Z.of_nat (S (length t)))).
      { unfold rtg2. destruct (ri =? 0) eqn:E; [reflexivity|]. destruct Hc as [?|[Hri Hle]]; [lia|].
        cbn [length] in Hle. unfold u32. rewrite Z.mod_small by lia. lia. }
      rewrite Ertg. cbn [length].
      remember (dec_rows_lazy dec ri mprZ tbls w h2 st2 (if ri =? 0 then rtg else rtg - Z.of_nat (S (length t))) num) as X.
      destruct X as [[rest fin]|]; [|reflexivity].
      cbn [map app]. unfold deint. reflexivity.
  Qed.

  Lemma join_head raw raws num mend tailend : 0 <= num <= 7 -> mend <> 0 -> mend <> 255 ->
    exists m' tail', join (raw :: raws) num ++ 255 :: mend :: tailend = flat_map stuff1 raw ++ 255 :: m' :: tail' /\
      m' <> 0 /\ m' <> 255 /\
      match raws with
      | [] => m' = mend /\ tail' = tailend
      | _ :: _ => m' = JPEG_RST0 + num /\ tail' = join raws (Z.land (num + 1) 7) ++ 255 :: mend :: tailend
      end.
  Proof.
    intros Hn H0 H255. destruct raws as [|raw2 raws'].
    - exists mend, tailend. cbn [join]. auto.
    - exists (JPEG_RST0 + num), (join (raw2 :: raws') (Z.land (num + 1) 7) ++ 255 :: mend :: tailend).
      change (join (raw :: raw2 :: raws') num)
        with (flat_map stuff1 raw ++ [255; JPEG_RST0 + num] ++ join (raw2 :: raws') (Z.land (num + 1) 7)).
      unfold JPEG_RST0. rewrite <- !app_assoc. repeat split; try lia; reflexivity.
  Qed.

  Lemma restart_step st pad num tail' : wf st pad (JPEG_RST0 + num) tail' -> (length pad < 8)%nat -> 0 <= num <= 7 ->
    process_restart_bytes st num = Some {| br_buf := []; br_inp := tail'; br_marker := None; br_insuf := false |}.
  Proof.
    intros (_ & [(Hmk & raw & Hr & Hinp & HS)|(Hmk & Hinp & HS)]) Hp Hn; unfold process_restart_bytes; rewrite Hmk.
    - assert (raw = []).
      { pose proof (f_equal (@length bool) HS) as L. rewrite app_length, bits_of_bytes_length in L.
        destruct raw; [reflexivity|cbn [length] in L; lia]. }
      subst raw. rewrite Hinp. cbn [flat_map app]. rewrite next_unit_marker by (unfold JPEG_RST0; lia).
      rewrite Z.eqb_refl. reflexivity.
    - rewrite Z.eqb_refl, Hinp. reflexivity.
  Qed.

  Lemma wf_fresh raw m tail : raw_ok raw ->
    wf {| br_buf := []; br_inp := flat_map stuff1 raw ++ 255 :: m :: tail; br_marker := None; br_insuf := false |}
       (bits_of_bytes raw) m tail.
  Proof. intros Hr. split; [reflexivity|]. left. split; [reflexivity|]. exists raw. auto. Qed.

  Definition ivs_tbls_ok (ivs : list rowsT) : Prop := Forall (Forall row_tbls_ok) ivs.

  (* the intervals after the first one: each begins with the restart the counter asks for *)
  Lemma lazy_intervals mend tailend : mend <> 0 -> mend <> 255 -> 0 < ri ->
    forall ivs raws, Forall2 (seg_ok cts) ivs raws -> ivs_ok ri w R ivs -> ivs_tbls_ok ivs ->
    forall st pad num, 0 <= num <= 7 -> (length pad < 8)%nat ->
    wf st pad (JPEG_RST0 + num) (join raws (Z.land (num + 1) 7) ++ 255 :: mend :: tailend) ->
    exists rows fin pad',
      dec_rows_lazy dec ri mprZ tbls w (length (concat ivs)) st 0 num = Some (rows, fin) /\
      map snd rows = map deint (concat ivs) /\ wf (fst (fst fin)) pad' mend tailend.
  Proof.
    intros H0 H255 Hri. induction 1 as [|iv raw ivs raws Hseg F2 IH]; intros Hok Htb st pad num Hnum Hpad W; [destruct Hok|].
    cbn [ivs_ok] in Hok. destruct Hok as [Hrows Hrest]. inversion Htb as [|? ? Htb1 Htb2]; subst.
    destruct Hseg as (Rr & padk & Bk & Lk).
    destruct (join_head raw raws (Z.land (num + 1) 7) mend tailend (land7_range _) H0 H255) as (m' & tail' & EJ & Hm0 & Hm255 & Hcase).
    rewrite EJ in W.
    assert (Hlen : (1 <= length iv <= R)%nat).
    { destruct raws; inversion F2; subst; [destruct Hrest as [?|[_ ?]]; [lia|assumption]|].
      destruct Hrest as (_ & -> & _). destruct HR as [?|[? _]]; lia. }
    destruct iv as [|r t]; [cbn in Hlen; lia|].
    inversion Htb1 as [|? ? Hr Ht]; subst.
    cbn [concat]. rewrite app_length. cbn [length Nat.add dec_rows_lazy].
    replace (negb (ri =? 0) && (0 =? 0)) with true by (destruct (ri =? 0) eqn:E; [lia|reflexivity]).
    rewrite (restart_step st pad num _ W Hpad Hnum). rewrite (ri_div Hri).
    pose proof (wf_fresh raw m' tail' Rr) as W1. rewrite Bk in W1.
    unfold toks_of_rows in W1. cbn [concat] in W1. rewrite concat_app, encode_toks_app, <- app_assoc in W1.
    destruct (lazy_toks m' tail' Hm0 Hm255 code dec dec_code code_len16 (concat r) _ _ W1) as (st1 & E1 & W2).
    rewrite Hr in E1. rewrite E1.
    replace (ri =? 0) with false by lia.
    assert (HRb : 1 <= Z.of_nat R < 4294967296) by (destruct HR as [?|[? HRi]]; nia).
    assert (Eu : u32 (Z.of_nat R - 1) = Z.of_nat R - 1) by (unfold u32; apply Z.mod_small; lia).
    rewrite Eu. cbn [length] in Hlen.
    destruct (rows_lazy_norestart m' tail' Hm0 Hm255 t (length (concat ivs)) st1 padk (Z.of_nat R - 1) (Z.land (num + 1) 7) Ht)
      as (st2 & W3 & E2); [right; lia|exact W2|].
    rewrite E2. replace (ri =? 0) with false by lia.
    destruct raws as [|raw2 raws'].
    - inversion F2; subst. destruct Hcase as [-> ->]. cbn [concat length dec_rows_lazy].
      eexists _, _, padk. split; [reflexivity|]. split.
      + rewrite !app_nil_r. cbn [map snd]. rewrite map_map. cbn [snd]. reflexivity.
      + exact W3.
    - inversion F2 as [|iv2 ? ivs' ? Hseg2 F2']; subst. destruct Hrest as (_ & HlenR & Hok').
      destruct Hcase as [-> ->]. cbn [length] in HlenR.
      replace (Z.of_nat R - 1 - Z.of_nat (length t)) with 0 by lia.
      destruct (IH Hok' Htb2 st2 padk (Z.land (num + 1) 7) (land7_range _) Lk W3) as (rows & fin & pad' & E3 & M3 & W4).
      rewrite E3. eexists _, fin, pad'. split; [reflexivity|]. split; [|exact W4].
      cbn [map snd app]. rewrite map_app, map_map, M3. cbn [snd concat]. rewrite !map_app. reflexivity.
  Qed.

  (* the whole scan, from the first byte: the rows come out in order, whatever the
     restart interval, and the reader stops at the marker that follows the scan *)
  Theorem lazy_scan mend tailend ivs raws : mend <> 0 -> mend <> 255 ->
    Forall2 (seg_ok cts) ivs raws -> ivs_ok ri w R ivs -> ivs_tbls_ok ivs ->
    exists rows fin pad',
      dec_rows_lazy dec ri mprZ tbls w (length (concat ivs))
        {| br_buf := []; br_inp := join raws 0 ++ 255 :: mend :: tailend; br_marker := None; br_insuf := false |}
        (ri / mprZ) 0 = Some (rows, fin) /\
      map snd rows = map deint (concat ivs) /\ wf (fst (fst fin)) pad' mend tailend.
  Proof.
    intros H0 H255 F2 Hok Htb. destruct F2 as [|iv raw ivs raws Hseg F2]; [destruct Hok|].
    cbn [ivs_ok] in Hok. destruct Hok as [Hrows Hrest]. inversion Htb as [|? ? Htb1 Htb2]; subst.
    destruct Hseg as (Rr & padk & Bk & Lk).
    destruct (join_head raw raws 0 mend tailend ltac:(lia) H0 H255) as (m' & tail' & EJ & Hm0 & Hm255 & Hcase).
    rewrite EJ. pose proof (wf_fresh raw m' tail' Rr) as W1. rewrite Bk in W1.
    cbn [concat]. rewrite app_length.
    set (st0 := {| br_buf := []; br_inp := flat_map stuff1 raw ++ 255 :: m' :: tail'; br_marker := None; br_insuf := false |}) in *.
    destruct (rows_lazy_norestart m' tail' Hm0 Hm255 iv (length (concat ivs)) st0 padk (ri / mprZ) 0 Htb1)
      as (st2 & W3 & E2); [|exact W1|].
    { destruct HR as [?|[HR1 HRi]]; [left; assumption|]. right. assert (Hri : 0 < ri) by nia.
      rewrite (ri_div Hri). split; [assumption|].
      destruct raws; inversion F2; subst; [destruct Hrest as [?|[_ ?]]; [lia|]|destruct Hrest as (_ & -> & _)]; nia. }
    rewrite E2. destruct raws as [|raw2 raws'].
    - inversion F2; subst. destruct Hcase as [-> ->]. cbn [concat length dec_rows_lazy].
      eexists _, _, padk. split; [reflexivity|]. split; [|exact W3].
      cbn [map snd app concat]. rewrite !app_nil_r, map_map. cbn [snd]. reflexivity.
    - inversion F2 as [|iv2 ? ivs' ? Hseg2 F2']; subst. destruct Hrest as (Hri & HlenR & Hok').
      destruct Hcase as [-> ->]. replace (ri =? 0) with false by lia. rewrite (ri_div Hri).
      replace (Z.of_nat R - Z.of_nat (length iv)) with 0 by lia.
      destruct (lazy_intervals mend tailend H0 H255 Hri _ _ F2 Hok' Htb2 st2 padk 0 ltac:(lia) Lk W3)
        as (rows & fin & pad' & E3 & M3 & W4).
      rewrite E3. eexists _, fin, pad'. split; [reflexivity|]. split; [|exact W4].
      rewrite map_app, map_map, M3. cbn [snd concat]. rewrite !map_app. reflexivity.
  Qed.
End Rows.

(* --------------------------------------------------------------- end to end *)
Lemma combine_fst_snd_id {A B} (l : list (A * B)) : combine (map fst l) (map snd l) = l.
Proof. induction l as [|[a b] t IH]; cbn; [reflexivity|rewrite IH; reflexivity]. Qed.

Lemma Forall_concat_inv {A} (P : A -> Prop) : forall ivs, Forall P (concat ivs) -> Forall (Forall P) ivs.
Proof.
  induction ivs as [|iv t IH]; intros H; constructor; cbn [concat] in H; apply Forall_app in H; destruct H; auto.
Qed.

(* any list of MCU rows splits into restart intervals of R rows, the last one 1..R *)
Lemma rows_into_intervals {A} (R : nat) : (1 <= R)%nat ->
  forall k (rows : list A), (length rows <= k)%nat -> (1 <= length rows)%nat ->
  exists ivs, concat ivs = rows /\ ivs <> [] /\
    Forall (fun iv => (1 <= length iv <= R)%nat) ivs /\
    (forall pre iv post, ivs = pre ++ iv :: post -> post <> [] -> length iv = R).
Proof.
  intros HR. induction k as [|k IH]; intros rows Hk H1; [lia|].
  destruct (le_lt_dec (length rows) R) as [Hle|Hgt].
  - exists [rows]. cbn. rewrite app_nil_r. split; [reflexivity|]. split; [discriminate|].
    split; [constructor; [lia|constructor]|].
    intros pre iv post E Hp. destruct pre as [|a pre]; cbn in E.
    + injection E as _ E. subst post. contradiction.
    + injection E as _ E. destruct pre; discriminate.
  - destruct (IH (skipn R rows)) as (ivs' & Ec & Hne & Hl & Hfull).
    { rewrite skipn_length. lia. } { rewrite skipn_length. lia. }
    exists (firstn R rows :: ivs'). cbn [concat]. rewrite Ec, firstn_skipn.
    split; [reflexivity|]. split; [discriminate|].
    split; [constructor; [rewrite firstn_length; lia|exact Hl]|].
    intros pre iv post E Hp. destruct pre as [|a pre]; cbn in E.
    + injection E as <- _. rewrite firstn_length. lia.
    + injection E as _ E. eapply Hfull; eauto.
Qed.

(* ---- shape of the encoder's difference rows ---- *)
  Lemma diff_fn_len first psv prec pt prev cur : (first = true \/ length prev = length cur) ->
    length (diff_fn first psv prec pt prev cur) = length cur.
  Proof.
    assert (L1 : forall c s, length (diff1d_loop s c) = length c) by (induction c; intros; cbn; auto).
    assert (L2 : forall c p a b, length p = length c -> length (diff2d_loop psv a b p c) = length c).
    { induction c as [|s t IH]; intros p a b Hl; [reflexivity|]. destruct p; cbn in Hl; [lia|]. cbn. rewrite IH by lia. reflexivity. }
    intros H. unfold diff_fn. destruct first.
    - destruct cur; cbn; auto.
    - destruct H as [?|H]; [discriminate|]. destruct (psv =? 1).
      + destruct cur; cbn; auto.
      + destruct cur as [|s t]; destruct prev as [|b p]; cbn in *; try lia; auto.
  Qed.


Section EndToEnd.
  Variable cts : Z -> ctbl.
  Hypothesis Hsz : forall t, sizes_ok (cts t).
  Variable dec : Z -> list bool -> option (Z * list bool).
  Hypothesis dec_code : forall tbl s rest, 0 <= s <= 16 -> dec tbl (ct_code cts tbl s ++ rest) = Some (s, rest).
  Variable ri : Z.
  Variable w R : nat.
  Hypothesis Hw : (1 <= w)%nat.
  Hypothesis HR : ri = 0 \/ ((1 <= R)%nat /\ ri = Z.of_nat (R * w)).
  Hypothesis Hri32 : ri < 4294967296.
  Variable tbls : list Z.
  Notation rowsT := (list (list (list (Z * Z)))).

  Lemma ivs_ok_of_rows (rows : rowsT) : rows_ok_b w rows -> (1 <= length rows)%nat ->
    exists ivs, concat ivs = rows /\ ivs_ok ri w R ivs.
  Proof.
    intros Hok H1. destruct HR as [H0|[HR1 HRi]].
    - exists [rows]. cbn. rewrite app_nil_r. auto.
    - assert (Hri : 0 < ri) by nia.
      destruct (rows_into_intervals R HR1 (length rows) rows (le_n _) H1)
        as (ivs & Ec & Hne & Hl & Hfull).
      exists ivs. split; [exact Ec|]. subst rows.
      clear H1. induction ivs as [|iv t IHt]; [congruence|].
      cbn [concat] in Hok. unfold rows_ok_b in *. apply Forall_app in Hok. destruct Hok as [Hiv Ht].
      inversion Hl; subst. cbn [ivs_ok]. split; [exact Hiv|]. destruct t as [|iv2 t'].
      + right. auto.
      + split; [exact Hri|]. split; [apply (Hfull [] iv (iv2 :: t')); [reflexivity|discriminate]|].
        apply IHt; auto; try discriminate.
        intros pre iv0 post E Hp. apply (Hfull (iv :: pre) iv0 post); [cbn; rewrite E; reflexivity|exact Hp].
  Qed.

  (* ---- shape of the encoder's difference rows ---- *)
  Lemma enc_mrow_shape psv prec pt : forall sts prevs curs, length sts = length curs -> length prevs = length curs ->
    Forall (fun c => length c = w) curs ->
    (Forall (fun st => fst st = true) sts \/ Forall (fun p => length p = w) prevs) ->
    length (enc_mrow psv prec pt sts prevs curs) = length curs /\
    Forall (fun d => length d = w) (enc_mrow psv prec pt sts prevs curs).
  Proof.
    induction sts as [|st sts IH]; intros [|p prevs] [|c curs] Hs Hp Hc Hinv; cbn in *; try lia; auto.
    inversion Hc as [|? ? Hc1 Hc2].
    destruct (IH prevs curs) as [L F]; try lia; auto.
    { destruct Hinv as [Hq|Hq]; inversion Hq; auto. }
    split; [lia|]. constructor; [|exact F]. rewrite <- Hc1. apply diff_fn_len.
    destruct Hinv as [Hq|Hq]; inversion Hq as [|? ? Hh1 Hh2]; [left; assumption|right; lia].
  Qed.

  Lemma enc_scan_rows_shape n psv prec pt mpr : 2 <= prec <= 16 -> 0 <= pt < prec ->
    forall mrows sts prevs, mrows_ok prec n w mrows -> length sts = n -> length prevs = n ->
    (Forall (fun st => fst st = true) sts \/ Forall (fun p => length p = w) prevs) ->
    Forall (fun dr => length dr = n /\ Forall (fun d => length d = w) dr)
           (enc_scan_rows ri mpr psv prec pt sts prevs mrows).
  Proof.
    intros Hp Hpt. induction mrows as [|mr t IH]; intros sts prevs Hok Hs Hpv Hinv; [constructor|].
    inversion Hok as [|? ? Hhd Hrest]. destruct Hhd as [Hn Hmr]. cbn [enc_scan_rows].
    set (curs := map (scale_down (bits_of_prec prec) pt) mr).
    assert (Hcl : length curs = length mr) by (unfold curs; apply map_length).
    assert (Hcw : Forall (fun c => length c = w) curs).
    { unfold curs. rewrite Forall_forall in *. intros c Hc. apply in_map_iff in Hc. destruct Hc as (r & <- & Hr).
      rewrite scale_down_length. apply Hmr. exact Hr. }
    destruct (enc_mrow_shape psv prec pt sts prevs curs) as [L F]; try lia; auto.
    constructor; [split; [lia|exact F]|].
    apply IH; auto; [rewrite map_length; exact Hs|lia].
  Qed.

  (* ---- MCU order and back ---- *)
  Lemma mcus_row_facts (comps : list (list Z)) : length comps = length tbls -> Forall (fun r => length r = w) comps ->
    length (mcus_of_row tbls w comps) = w /\
    map fst (concat (mcus_of_row tbls w comps)) = concat (repeat tbls w) /\
    transpose (length tbls) (chunks (length tbls) w
       (map (fun td => canon_diff (snd td)) (concat (mcus_of_row tbls w comps)))) = map (map canon_diff) comps.
  Proof.
    intros Hn Hwd. unfold mcus_of_row. set (mcus := transpose w comps).
    assert (Hm : Forall (fun mc => length mc = length tbls) mcus) by (unfold mcus; rewrite <- Hn; apply transpose_all_len).
    assert (Hl : length mcus = w) by apply transpose_length.
    change (fun mcu : list Z => combine tbls mcu) with (@combine Z Z tbls).
    destruct (toks_fst_snd tbls mcus Hm) as [E1 E2]. rewrite Hl in E1.
    split; [rewrite map_length; exact Hl|]. split; [exact E1|].
    rewrite <- (map_map snd canon_diff), E2, concat_map.
    rewrite <- Hl at 1. rewrite <- (map_length (map canon_diff) mcus). rewrite chunks_concat.
    - unfold mcus. rewrite (transpose_map canon_diff canon_diff_0). apply transpose_involutive.
      + rewrite map_length. exact Hn.
      + rewrite Forall_forall in *. intros r Hr. apply in_map_iff in Hr. destruct Hr as (r0 & <- & Hr0).
        rewrite map_length. auto.
    - rewrite Forall_forall in *. intros mc Hin. apply in_map_iff in Hin. destruct Hin as (m0 & <- & Hm0).
      rewrite map_length. auto.
  Qed.

  (* SAMPLES -> BYTES -> SAMPLES.  A scan of n = |tbls| components (n = 1: non-interleaved),
     any number of rows >= 1, any precision 2..16, predictor, point transform, and restart
     interval the compressor accepts: the encoder pipeline (scaling, differencing with
     per-component restart counters, statistics-free Huffman coding with the given tables,
     emit_bits / stuffing / padding / RSTn) followed by the decoder as it runs (lazy bit
     buffer, row-level restart counter, restart_pending, undifferencing, scaling) gives
     (s >> Pt) << Pt for every sample, and the reader has not consumed a byte beyond the
     marker that follows the scan. *)
  Theorem samples_bytes_samples psv prec pt mrows m tail :
    2 <= prec <= 16 -> 1 <= psv <= 7 -> 0 <= pt < prec ->
    mrows_ok prec (length tbls) w mrows -> (1 <= length mrows)%nat -> m <> 0 -> m <> 255 ->
    exists bytes, encode_scan_e2e cts (length tbls) ri psv prec pt tbls w mrows = Some bytes /\
      exists st' pad,
        decode_scan_e2e dec (length tbls) ri psv prec pt tbls w (length mrows) (bytes ++ 255 :: m :: tail)
        = Some (map (map (map (clear_low pt))) mrows, st') /\ wf st' pad m tail.
  Proof.
    intros Hp Hpsv Hpt Hok H1 Hm0 Hm255. set (n := length tbls) in *. set (mpr := Z.of_nat w).
    assert (Hro : restart_ok ri mpr).
    { destruct HR as [?|[HR1 HRi]]; [left; assumption|]. right. unfold mpr. split; [lia|]. split; [nia|].
      rewrite HRi, Nat2Z.inj_mul. apply Z.mod_mul. lia. }
    assert (P : params_ok psv prec pt = true) by (apply params_ok_spec; lia).
    assert (Sp : start_pass_ok ri mpr = true).
    { unfold start_pass_ok. destruct Hro as [->|(_ & _ & Hd)]; [rewrite Z.mod_0_l by (unfold mpr; lia); reflexivity|lia]. }
    unfold encode_scan_e2e, decode_scan_e2e. fold mpr. rewrite P, Sp. cbn [andb].
    set (ds := enc_scan_rows ri mpr psv prec pt (repeat (reset_predictor ri mpr) n) (repeat [] n) mrows).
    assert (Hsh : Forall (fun dr => length dr = n /\ Forall (fun d => length d = w) dr) ds).
    { apply enc_scan_rows_shape; auto; try apply repeat_length. left. apply Forall_forall.
      intros st Hin. apply repeat_spec in Hin. subst st. reflexivity. }
    assert (Hdl : length ds = length mrows).
    { unfold ds. generalize (repeat (reset_predictor ri mpr) n) (repeat (@nil Z) n). clear.
      induction mrows; intros; cbn; auto. }
    set (rows := map (mcus_of_row tbls w) ds).
    assert (Hrows : rows_ok_b w rows /\ Forall (row_tbls_ok w tbls) rows /\
                    map (deint w tbls) rows = map (map (map canon_diff)) ds).
    { unfold rows. clear - Hsh. induction ds as [|dr t IH]; [repeat split; constructor|].
      inversion Hsh as [|? ? [Hn Hwd] Ht]; subst. destruct (IH Ht) as (A & B & C).
      destruct (mcus_row_facts dr Hn Hwd) as (F1 & F2 & F3).
      repeat split; [constructor; auto|constructor; auto|]. cbn [map]. rewrite C. f_equal. exact F3. }
    destruct Hrows as (Hrok & Htok & Hdeint).
    destruct (ivs_ok_of_rows rows Hrok) as (ivs & Ec & Hivs); [unfold rows; rewrite map_length; lia|].
    destruct (enc_total_spec cts Hsz ri w R Hw HR ivs false (0, 0) 0 0%nat (ri, 0) Hivs eb_inv_init)
      as (raws & Et & F2); [discriminate|intros _; split; [reflexivity|right; reflexivity]|].
    cbn [prefix_of startnum snd app] in Et. unfold enc_total in Et. rewrite Ec in Et.
    unfold encode_scan_bytes. fold rows.
    destruct (encode_rows_huff cts ri (0, 0) (ri, 0) rows) as [[[o st] rs]|]; [|discriminate].
    injection Et as Et. exists (o ++ fst (flush_bits st)). split; [reflexivity|]. rewrite Et.
    assert (Htb : ivs_tbls_ok w tbls ivs) by (apply Forall_concat_inv; rewrite Ec; exact Htok).
    destruct (lazy_scan cts Hsz dec dec_code ri w R Hw HR Hri32 tbls m tail ivs raws Hm0 Hm255 F2 Hivs Htb)
      as (orows & fin & pad' & El & Ms & Wf).
    rewrite Ec in El, Ms. unfold rows in El at 1. rewrite map_length, Hdl in El. fold mpr in El. rewrite El.
    destruct fin as [[stf rtgf] numf]. cbn [fst] in Wf. exists stf, pad'. split; [|exact Wf]. f_equal. f_equal.
    destruct (dec_rows_lazy_flags _ _ _ _ _ _ _ _ _ _ _ El) as [Fl Ln].
    rewrite <- (combine_fst_snd_id orows), Fl, Ms, Hdeint.
    replace (length mrows) with (length (map (map (map canon_diff)) ds)) by (rewrite map_length; exact Hdl).
    rewrite <- dec_scan_rows_flags.
    pose proof (codec_scan_correct n ri mpr psv prec pt w mrows Hp Hpsv Hpt Hro ltac:(unfold mpr; lia) Hok) as C.
    unfold codec_scan in C. rewrite P, Sp in C. cbn [andb] in C. injection C as C. exact C.
  Qed.
End EndToEnd.
