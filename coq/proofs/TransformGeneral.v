(* C06 proofs, part 4: the general statement about [transform] -- any image whose
   component sizes are consistent with its dimensions, any accepted options
   (crop, trim, perfect, grayscale, slow hflip): every destination block is the
   relocated, sign/transposition-adjusted source block named by the
   specification, and that source block lies INSIDE the source plane (nothing
   is taken from outside the image, cropped or trimmed blocks are absent). *)
From Coq Require Import List ZArith Bool Lia PeanoNat ZifyBool.
From LJT Require Import model.Transform model.TransformSpec
  proofs.TransformProofs proofs.TransformPlane proofs.TransformImage.
Import ListNotations.
Local Open Scope Z_scope.

Lemma spec_plane_pos op cw ch X Y src x y :
  spec_plane op cw ch X Y src x y =
  let '(g, sx, sy) := spec_pos op cw ch X Y x y in d4_apply g (src sx sy).
Proof. unfold spec_plane, spec_pos. cbv zeta. destruct (transposes op); reflexivity. Qed.

(* ----------------------------------------------------------- 1-D arithmetic *)
Lemma cdiv_lt x a d : 0 < d -> (x < cdiv a d <-> x * d < a).
Proof.
  intros Hd. unfold cdiv. split; intros H.
  - assert (x + 1 <= (a + d - 1) / d) by lia.
    assert ((x + 1) * d <= a + d - 1).
    { pose proof (Z.mul_div_le (a + d - 1) d Hd). nia. }
    nia.
  - assert (x + 1 <= (a + d - 1) / d); [|lia].
    apply Z.div_le_lower_bound; [exact Hd|]. nia.
Qed.

Lemma cdiv_le x a d : 0 < d -> (cdiv a d <= x <-> a <= x * d).
Proof. intros Hd. pose proof (cdiv_lt x a d Hd). lia. Qed.

Lemma cdiv_scale a d k : 0 < d -> 0 < k -> cdiv (a * k) (d * k) = cdiv a d.
Proof.
  intros Hd Hk.
  assert (H1 : cdiv (a * k) (d * k) <= cdiv a d).
  { apply cdiv_le; [nia|]. pose proof (proj1 (cdiv_le (cdiv a d) a d Hd) ltac:(lia)). nia. }
  assert (H2 : cdiv a d <= cdiv (a * k) (d * k)).
  { apply cdiv_le; [exact Hd|].
    pose proof (proj1 (cdiv_le (cdiv (a * k) (d * k)) (a * k) (d * k) ltac:(nia)) ltac:(lia)). nia. }
  lia.
Qed.

(* destination block column x of a component (s blocks per iMCU, iMCU = d samples)
   of a region [off*d, off*d+out) inside [0, full): the source column is inside *)
Lemma axis_pos_inside (m : bool) d s off out full x :
  0 < d -> 1 <= s -> 0 <= off -> 0 <= x -> 0 <= full -> off * d + out <= full ->
  x < cdiv (out * s) d ->
  let X := off * s in let cw := full / d * s in
  let pos := if m && (X + x <? cw) then cw - 1 - (X + x) else X + x in
  0 <= pos < cdiv (full * s) d.
Proof.
  intros Hd Hs Hoff Hx Hfull Hin Hlt. cbv zeta.
  apply cdiv_lt in Hlt; [|exact Hd].
  pose proof (Z.mul_div_le full d Hd) as Hfd.
  assert (0 <= full / d) by (apply Z.div_pos; lia).
  destruct (m && (off * s + x <? full / d * s)) eqn:E.
  - apply andb_true_iff in E. destruct E as [_ E]. apply Z.ltb_lt in E.
    split; [nia|]. apply cdiv_lt; [exact Hd|]. nia.
  - split; [nia|]. apply cdiv_lt; [exact Hd|]. nia.
Qed.

(* ------------------------------------------------------------- plan facts *)
Definition opts_nonneg (o : xopts) : Prop :=
  match xo_crop o with
  | None => True
  | Some c => 0 <= cr_w c /\ 0 <= cr_h c /\ 0 <= cr_x c /\ 0 <= cr_y c
  end.

Lemma crop_axis_ok n full cw wset cx xset r off :
  0 <= cx -> crop_axis n full cw wset cx xset = inr (r, off) ->
  0 <= off /\ 0 < r /\ off + r <= full.
Proof.
  unfold crop_axis. intros Hcx.
  destruct xset; destruct wset; cbn [negb];
    repeat match goal with
           | |- context [if ?c then _ else _] => destruct c eqn:?
           end; intros H; inversion H; subst; lia.
Qed.

Lemma trim_edge_nonneg out imcu off full : 0 < imcu -> 0 <= out -> 0 <= trim_edge out imcu off full.
Proof.
  intros Hi Ho. unfold trim_edge. destruct (_ && _); [|lia].
  assert (0 <= out / imcu) by (apply Z.div_pos; lia). nia.
Qed.

Record plan_facts (im : image) (o : xopts) (p : plan) : Prop := {
  pf_xco : 0 <= p_xco p;
  pf_yco : 0 <= p_yco p;
  pf_ow : 0 <= p_ow p;
  pf_oh : 0 <= p_oh p;
  pf_inx : p_xco p * p_imw p + p_ow p <= tw (xo_op o) (i_w im) (i_h im);
  pf_iny : p_yco p * p_imh p + p_oh p <= th (xo_op o) (i_w im) (i_h im);
  pf_imw : p_imw p = if p_nc p =? 1 then 8 else tw (xo_op o) (max_hs (i_comps im)) (max_vs (i_comps im)) * 8;
  pf_imh : p_imh p = if p_nc p =? 1 then 8 else th (xo_op o) (max_hs (i_comps im)) (max_vs (i_comps im)) * 8;
  pf_nc : p_nc p = Z.of_nat (length (i_comps im)) \/
          (p_nc p = 1 /\ xo_gray o = true /\ length (i_comps im) = 3%nat)
}.

Lemma plan_ok im o p :
  1 <= i_w im -> 1 <= i_h im -> opts_nonneg o ->
  request_workspace im o = inr p -> plan_facts im o p.
Proof.
  intros HW HH Hnn. unfold request_workspace. cbv zeta.
  set (ncs := Z.of_nat (length (i_comps im))).
  set (nc := if xo_gray o && (i_cs im =? 3) && (ncs =? 3) then 1 else ncs).
  set (mh := max_hs (i_comps im)). set (mv := max_vs (i_comps im)).
  pose proof (max_hs_ge1 (i_comps im)) as Gh. pose proof (max_vs_ge1 (i_comps im)) as Gv.
  fold mh in Gh. fold mv in Gv.
  destruct (xo_perfect o && _); [discriminate|].
  set (imw := if nc =? 1 then 8 else if transposes (xo_op o) then mv * 8 else mh * 8).
  set (imh := if nc =? 1 then 8 else if transposes (xo_op o) then mh * 8 else mv * 8).
  set (ow0 := if transposes (xo_op o) then i_h im else i_w im).
  set (oh0 := if transposes (xo_op o) then i_w im else i_h im).
  assert (Himw : 0 < imw) by (unfold imw; destruct (nc =? 1); [lia|destruct (transposes (xo_op o)); lia]).
  assert (Himh : 0 < imh) by (unfold imh; destruct (nc =? 1); [lia|destruct (transposes (xo_op o)); lia]).
  assert (Hnc : nc = ncs \/ (nc = 1 /\ xo_gray o = true /\ length (i_comps im) = 3%nat)).
  { unfold nc. destruct (xo_gray o && (i_cs im =? 3) && (ncs =? 3)) eqn:E; [right|left; reflexivity].
    apply andb_true_iff in E. destruct E as [E E3]. apply andb_true_iff in E. destruct E as [E1 _].
    apply Z.eqb_eq in E3. unfold ncs in E3. repeat split; try assumption; lia. }
  assert (Hcrop : forall ow1 oh1 xco yco,
            match xo_crop o with
            | None => inr (ow0, oh0, 0, 0)
            | Some c =>
                match crop_axis (is_none (xo_op o)) ow0 (cr_w c) (cr_wset c) (cr_x c) (cr_xset c),
                      crop_axis (is_none (xo_op o)) oh0 (cr_h c) (cr_hset c) (cr_y c) (cr_yset c) with
                | inl EBadCrop, _ => inl EBadCrop
                | _, inl EBadCrop => inl EBadCrop
                | inl e, _ => inl e
                | _, inl e => inl e
                | inr (cw, xoff), inr (ch, yoff) =>
                    inr (cw + xoff mod imw, ch + yoff mod imh, xoff / imw, yoff / imh)
                end
            end = inr (ow1, oh1, xco, yco) ->
            0 <= xco /\ 0 <= yco /\ 0 <= ow1 /\ 0 <= oh1 /\ xco * imw + ow1 <= ow0 /\ yco * imh + oh1 <= oh0).
  { intros ow1 oh1 xco yco. unfold opts_nonneg in Hnn.
    destruct (xo_crop o) as [c|].
    - destruct Hnn as (_ & _ & Hcx & Hcy).
      destruct (crop_axis _ ow0 _ _ _ _) as [e1|[cw xoff]] eqn:E1;
        destruct (crop_axis _ oh0 _ _ _ _) as [e2|[ch yoff]] eqn:E2;
        try (destruct e1; discriminate); try (destruct e2; discriminate);
        try (destruct e1; destruct e2; discriminate).
      apply crop_axis_ok in E1; [|exact Hcx]. apply crop_axis_ok in E2; [|exact Hcy].
      intros H. injection H as <- <- <- <-.
      pose proof (Z.div_mod xoff imw ltac:(lia)). pose proof (Z.mod_pos_bound xoff imw Himw).
      pose proof (Z.div_mod yoff imh ltac:(lia)). pose proof (Z.mod_pos_bound yoff imh Himh).
      assert (0 <= xoff / imw) by (apply Z.div_pos; lia).
      assert (0 <= yoff / imh) by (apply Z.div_pos; lia).
      nia.
    - intros H. injection H as <- <- <- <-. unfold ow0, oh0. destruct (transposes (xo_op o)); lia. }
  destruct (match xo_crop o with Some _ => _ | None => _ end) as [e|[[[ow1 oh1] xco] yco]]; [discriminate|].
  specialize (Hcrop ow1 oh1 xco yco eq_refl). destruct Hcrop as (C1 & C2 & C3 & C4 & C5 & C6).
  assert (T1 : forall full, (if xo_trim o then trim_edge ow1 imw xco full else ow1) <= ow1 /\
                            0 <= (if xo_trim o then trim_edge ow1 imw xco full else ow1)).
  { intros full. destruct (xo_trim o); [|lia]. split; [apply trim_edge_le|apply trim_edge_nonneg]; assumption. }
  assert (T2 : forall full, (if xo_trim o then trim_edge oh1 imh yco full else oh1) <= oh1 /\
                            0 <= (if xo_trim o then trim_edge oh1 imh yco full else oh1)).
  { intros full. destruct (xo_trim o); [|lia]. split; [apply trim_edge_le|apply trim_edge_nonneg]; assumption. }
  pose proof (T1 (i_w im)) as T1w. pose proof (T1 (i_h im)) as T1h.
  pose proof (T2 (i_w im)) as T2w. pose proof (T2 (i_h im)) as T2h.
  unfold ow0, oh0, imw, imh in *.
  destruct (xo_op o) eqn:Eop; intros H; injection H as <-;
    (constructor; cbn [p_nc p_ow p_oh p_imw p_imh p_xco p_yco transposes] in *;
     rewrite ?Eop; unfold tw, th; cbn [transposes]; fold mh; fold mv;
     try assumption; try reflexivity; try lia).
Qed.

(* ---------------------------------------------------- consistent sources *)
(* component sizes as computed by the decoder's initial_setup from the header *)
Definition src_consistent (im : image) : Prop :=
  1 <= i_w im /\ 1 <= i_h im /\
  Forall (fun c => 1 <= c_hs c /\ 1 <= c_vs c /\
                   c_wb c = cdiv (i_w im * c_hs c) (max_hs (i_comps im) * 8) /\
                   c_hb c = cdiv (i_h im * c_vs c) (max_vs (i_comps im) * 8)) (i_comps im).

Lemma cdiv_ge a d : 0 < d -> a <= cdiv a d * d.
Proof. intros Hd. apply (cdiv_le (cdiv a d) a d Hd). lia. Qed.

(* what the destination of one component looks like, given the plan *)
Record dst_facts (im : image) (o : xopts) (p : plan) (mh mv : Z) (c : comp) : Prop := {
  df_hs : 1 <= fst (dst_samp (p_nc p) (transposes (xo_op o)) c);
  df_vs : 1 <= snd (dst_samp (p_nc p) (transposes (xo_op o)) c);
  df_mh : mh * 8 = p_imw p;
  df_mv : mv * 8 = p_imh p;
  df_uw : cdiv (tw (xo_op o) (i_w im) (i_h im) * fst (dst_samp (p_nc p) (transposes (xo_op o)) c)) (p_imw p)
          = tw (xo_op o) (c_wb c) (c_hb c);
  df_uh : cdiv (th (xo_op o) (i_w im) (i_h im) * snd (dst_samp (p_nc p) (transposes (xo_op o)) c)) (p_imh p)
          = th (xo_op o) (c_wb c) (c_hb c)
}.

Lemma max_single c : 1 <= c_hs c -> 1 <= c_vs c -> max_hs [c] = c_hs c /\ max_vs [c] = c_vs c.
Proof. intros. unfold max_hs, max_vs. cbn [fold_right]. lia. Qed.

Lemma dst_facts_ok im o p c :
  src_consistent im -> plan_facts im o p ->
  (xo_gray o = true -> gray_ok im = true) ->
  In c (firstn (Z.to_nat (p_nc p)) (i_comps im)) ->
  dst_facts im o p
    (samp_mh (p_nc p) (transposes (xo_op o)) (firstn (Z.to_nat (p_nc p)) (i_comps im)))
    (samp_mv (p_nc p) (transposes (xo_op o)) (firstn (Z.to_nat (p_nc p)) (i_comps im))) c.
Proof.
  intros (HW & HH & Hc) PF Hg Hin.
  pose proof (max_hs_ge1 (i_comps im)) as Gh. pose proof (max_vs_ge1 (i_comps im)) as Gv.
  destruct (pf_nc _ _ _ PF) as [Enc|(Enc & Egray & Elen)].
  - (* all components *)
    rewrite Enc in *. rewrite Nat2Z.id, firstn_all in *.
    rewrite Forall_forall in Hc.
    destruct (Z.eqb_spec (Z.of_nat (length (i_comps im))) 1) as [E1|E1].
    + (* a single component: 1x1, iMCU = 8 *)
      destruct (i_comps im) as [|c0 [|? ?]] eqn:Ecs; cbn [length] in E1; try lia.
      destruct Hin as [<-|[]].
      destruct (Hc c0 (or_introl eq_refl)) as (Hhs & Hvs & Hwb & Hhb).
      destruct (max_single c0 Hhs Hvs) as [M1 M2]. rewrite M1 in Hwb. rewrite M2 in Hhb.
      pose proof (pf_imw _ _ _ PF) as Iw. pose proof (pf_imh _ _ _ PF) as Ih.
      rewrite Enc in Iw, Ih. cbn [length Z.of_nat Pos.of_succ_nat Z.eqb Pos.eqb] in Iw, Ih.
      unfold samp_mh, samp_mv, dst_samp. cbn [length Z.of_nat Pos.of_succ_nat Z.eqb Pos.eqb map fold_right fst snd].
      constructor; rewrite ?Enc; unfold dst_samp;
        cbn [length Z.of_nat Pos.of_succ_nat Z.eqb Pos.eqb fst snd]; try lia.
      * rewrite Iw, Hwb, Hhb. rewrite !(Z.mul_comm _ 8) , !cdiv_scale by lia.
        unfold tw. destruct (transposes (xo_op o)); rewrite Z.mul_1_r; reflexivity.
      * rewrite Ih, Hwb, Hhb. rewrite !(Z.mul_comm _ 8), !cdiv_scale by lia.
        unfold th. destruct (transposes (xo_op o)); rewrite Z.mul_1_r; reflexivity.
    + (* several components: factors kept (swapped when transposing) *)
      assert (Hs : forall c, In c (i_comps im) ->
                dst_samp (Z.of_nat (length (i_comps im))) (transposes (xo_op o)) c =
                (tw (xo_op o) (c_hs c) (c_vs c), th (xo_op o) (c_hs c) (c_vs c))).
      { intros c1 _. unfold dst_samp, tw, th.
        destruct (Z.eqb_spec (Z.of_nat (length (i_comps im))) 1); [lia|].
        destruct (transposes (xo_op o)); reflexivity. }
      destruct (samp_mh_whole (xo_op o) _ _ Hs) as [Emh Emv]. rewrite Emh, Emv.
      destruct (Hc c Hin) as (Hhs & Hvs & Hwb & Hhb).
      pose proof (pf_imw _ _ _ PF) as Iw. pose proof (pf_imh _ _ _ PF) as Ih.
      rewrite Enc in Iw, Ih.
      destruct (Z.eqb_spec (Z.of_nat (length (i_comps im))) 1); [lia|].
      constructor; rewrite ?Enc, ?(Hs c Hin); cbn [fst snd];
        try (symmetry; assumption);
        try (unfold tw, th; destruct (transposes (xo_op o)); lia).
      * rewrite Iw, Hwb, Hhb. unfold tw. destruct (transposes (xo_op o)); reflexivity.
      * rewrite Ih, Hwb, Hhb. unfold th. destruct (transposes (xo_op o)); reflexivity.
  - (* forced grayscale: first of three components, 1x1, iMCU = 8; Y is full resolution *)
    rewrite Enc in *. change (Z.to_nat 1) with 1%nat in *.
    specialize (Hg Egray). unfold gray_ok in Hg.
    destruct (i_comps im) as [|c0 rest] eqn:Ecs; [discriminate Elen|].
    cbn [firstn] in Hin. destruct Hin as [<-|[]].
    apply andb_true_iff in Hg. destruct Hg as [_ Hg]. apply andb_true_iff in Hg. destruct Hg as [G1 G2].
    apply Z.eqb_eq in G1, G2.
    rewrite Forall_forall in Hc. destruct (Hc c0 (or_introl eq_refl)) as (Hhs & Hvs & Hwb & Hhb).
    rewrite <- G1 in Hwb. rewrite <- G2 in Hhb.
    pose proof (pf_imw _ _ _ PF) as Iw. pose proof (pf_imh _ _ _ PF) as Ih.
    rewrite Enc in Iw, Ih. cbn [Z.eqb Pos.eqb] in Iw, Ih.
    unfold samp_mh, samp_mv, dst_samp. cbn [firstn Z.eqb Pos.eqb map fold_right fst snd].
    constructor; rewrite ?Enc; unfold dst_samp; cbn [Z.eqb Pos.eqb fst snd]; try lia.
    all: change (Z.to_nat 1) with 1%nat; cbn [firstn map fold_right fst snd]; try lia.
    * rewrite Iw, Hwb, Hhb. rewrite !(Z.mul_comm _ 8), !cdiv_scale by lia.
      unfold tw. destruct (transposes (xo_op o)); rewrite Z.mul_1_r; reflexivity.
    * rewrite Ih, Hwb, Hhb. rewrite !(Z.mul_comm _ 8), !cdiv_scale by lia.
      unfold th. destruct (transposes (xo_op o)); rewrite Z.mul_1_r; reflexivity.
Qed.

(* ----------------------------------------------------- the general theorem *)
(* parameters of the plane specification in terms of the plan and the destination component *)
Definition pos_of (o : xopts) (im : image) (p : plan) (c' : comp) (x y : Z) : d4 * Z * Z :=
  spec_pos (xo_op o)
           (tw (xo_op o) (i_w im) (i_h im) / p_imw p * c_hs c')
           (th (xo_op o) (i_w im) (i_h im) / p_imh p * c_vs c')
           (p_xco p * c_hs c') (p_yco p * c_vs c') x y.

Theorem transform_blocks im o im' :
  src_consistent im -> opts_nonneg o -> transform im o = inr im' ->
  exists p, request_workspace im o = inr p /\
    i_w im' = p_ow p /\ i_h im' = p_oh p /\
    Forall2 (fun c c' =>
       (c_hs c', c_vs c') = dst_samp (p_nc p) (transposes (xo_op o)) c /\
       c_wb c' = cdiv (p_ow p * c_hs c') (p_imw p) /\ c_hb c' = cdiv (p_oh p * c_vs c') (p_imh p) /\
       forall x y, 0 <= x < c_wb c' -> 0 <= y < c_hb c' ->
         let '(g, sx, sy) := pos_of o im p c' x y in
         0 <= sx < c_wb c /\ 0 <= sy < c_hb c /\ c_blk c' x y = d4_apply g (c_blk c sx sy))
      (firstn (Z.to_nat (p_nc p)) (i_comps im)) (i_comps im').
Proof.
  intros Hsrc Hnn. unfold transform.
  destruct (request_workspace im o) as [e|p] eqn:Ep; [discriminate|].
  destruct (negb (quant_ok im)); [discriminate|].
  destruct (xo_gray o && negb (gray_ok im)) eqn:Eg; [discriminate|].
  intros H. injection H as <-. exists p. split; [reflexivity|].
  cbn [i_w i_h i_comps]. split; [reflexivity|]. split; [reflexivity|].
  assert (PF : plan_facts im o p) by (destruct Hsrc as (HW & HH & _); apply plan_ok; assumption).
  assert (Hg : xo_gray o = true -> gray_ok im = true).
  { intros E. rewrite E in Eg. cbn [andb] in Eg. destruct (gray_ok im); [reflexivity|discriminate]. }
  set (srcs := firstn (Z.to_nat (p_nc p)) (i_comps im)) in *.
  fold (samp_mh (p_nc p) (transposes (xo_op o)) srcs).
  fold (samp_mv (p_nc p) (transposes (xo_op o)) srcs).
  set (mh := samp_mh (p_nc p) (transposes (xo_op o)) srcs).
  set (mv := samp_mv (p_nc p) (transposes (xo_op o)) srcs).
  apply Forall2_map_r. intros c Hc.
  pose proof (dst_facts_ok im o p c Hsrc PF Hg Hc) as DF. fold srcs mh mv in DF.
  destruct DF as [Dhs Dvs Dmh Dmv Duw Duh].
  assert (Himw : 0 < p_imw p /\ 0 < p_imh p).
  { pose proof (max_hs_ge1 (i_comps im)). pose proof (max_vs_ge1 (i_comps im)).
    rewrite (pf_imw _ _ _ PF), (pf_imh _ _ _ PF). unfold tw, th.
    destruct (p_nc p =? 1); [lia|]. destruct (transposes (xo_op o)); lia. }
  destruct Himw as [Himw Himh].
  destruct PF as [Pxco Pyco Pow Poh Pinx Piny _ _ _].
  destruct Hsrc as (HW & HH & _).
  set (hs := fst (dst_samp (p_nc p) (transposes (xo_op o)) c)) in *.
  set (vs := snd (dst_samp (p_nc p) (transposes (xo_op o)) c)) in *.
  cbn [c_hs c_vs c_wb c_hb c_blk]. rewrite Dmh, Dmv.
  split; [unfold hs, vs; destruct (dst_samp (p_nc p) (transposes (xo_op o)) c); reflexivity|].
  split; [reflexivity|]. split; [reflexivity|].
  assert (Hfw : 0 <= tw (xo_op o) (i_w im) (i_h im)) by (unfold tw; destruct (transposes (xo_op o)); lia).
  assert (Hfh : 0 <= th (xo_op o) (i_w im) (i_h im)) by (unfold th; destruct (transposes (xo_op o)); lia).
  intros x y Hx Hy.
  (* source position inside, axis by axis *)
  pose proof (axis_pos_inside (mirror_x (xo_op o)) (p_imw p) hs (p_xco p) (p_ow p)
                (tw (xo_op o) (i_w im) (i_h im)) x Himw Dhs Pxco ltac:(lia) Hfw Pinx ltac:(lia)) as Ax.
  pose proof (axis_pos_inside (mirror_y (xo_op o)) (p_imh p) vs (p_yco p) (p_oh p)
                (th (xo_op o) (i_w im) (i_h im)) y Himh Dvs Pyco ltac:(lia) Hfh Piny ltac:(lia)) as Ay.
  cbv zeta in Ax, Ay. rewrite Duw in Ax. rewrite Duh in Ay.
  (* the routine computes the specification *)
  rewrite exec_comp_meets_spec.
  - unfold spec_comp, mirror_cols, mirror_rows. cbn [g_hs g_vs g_sw g_sh g_maxh g_maxv g_xco g_yco].
    rewrite Dmh, Dmv. rewrite spec_plane_pos.
    unfold pos_of. cbn [c_hs c_vs].
    replace (if transposes (xo_op o) then i_h im else i_w im) with (tw (xo_op o) (i_w im) (i_h im)) by reflexivity.
    replace (if transposes (xo_op o) then i_w im else i_h im) with (th (xo_op o) (i_w im) (i_h im)) by reflexivity.
    unfold spec_pos. cbv zeta.
    unfold tw, th in Ax, Ay |- *.
    destruct (transposes (xo_op o)); (split; [lia|split; [lia|reflexivity]]).
  - unfold geom_ok. cbn [g_hs g_vs g_xco g_yco]. lia.
  - cbn [g_wb]. lia.
  - lia.
  - (* the in-place routine only touches existing blocks *)
    intros Eop Ey0 _. unfold inplace_ok. cbn [g_hs g_sw g_maxh g_swb g_wb g_xco].
    rewrite Dmh. rewrite Eop in *. unfold tw in *. cbn [transposes] in *.
    pose proof (cdiv_ge (i_w im * hs) (p_imw p) Himw) as Hu. rewrite Duw in Hu.
    pose proof (Z.mul_div_le (i_w im) (p_imw p) Himw) as Hfl.
    assert (0 <= i_w im / p_imw p) by (apply Z.div_pos; lia).
    split; [assumption|]. split.
    + assert (Hk : i_w im / p_imw p * hs - 1 < c_wb c); [|lia].
      rewrite <- Duw. apply cdiv_lt; [exact Himw|]. nia.
    + assert (Hk : cdiv (p_ow p * hs) (p_imw p) <= c_wb c - p_xco p * hs); [|lia].
      apply cdiv_le; [exact Himw|]. nia.
Qed.

(* ------------------------------------------------------------ non-vacuity *)
(* 4:2:0, 40 x 29 pixels: partial iMCUs on both edges (5x4 / 3x2 / 3x2 blocks) *)
Definition ex_comp2 (hs vs wb hb s : Z) : comp :=
  mkcomp hs vs wb hb 0 (map (fun k => Z.of_nat k + 1) (seq 0 64)) (fun x y => ex_blk (s + 7 * x + 100 * y)).
Definition ex_image2 : image :=
  mkimage 40 29 3 [map (fun k => Z.of_nat k + 1) (seq 0 64)] [ex_comp2 2 2 5 4 0; ex_comp2 1 1 3 2 500; ex_comp2 1 1 3 2 900].
(* rot90, trim, crop 8x24+16+0 of the rotated (29 x 40) image *)
Definition ex_opts2 : xopts :=
  mkxopts XRot90 false true false (Some (mkcrop 8 true 24 true 16 OPos 0 OPos)) false.

Lemma ex_image2_consistent : src_consistent ex_image2 /\ opts_nonneg ex_opts2.
Proof.
  split.
  - unfold src_consistent, ex_image2. cbn [i_w i_h i_comps]. split; [lia|]. split; [lia|].
    repeat constructor; vm_compute; congruence.
  - vm_compute. repeat split; congruence.
Qed.

Lemma ex_image2_transforms :
  exists im', transform ex_image2 ex_opts2 = inr im' /\ i_w im' = 8 /\ i_h im' = 24 /\
              map (fun c => (c_hs c, c_vs c, c_wb c, c_hb c)) (i_comps im') = [(2, 2, 1, 3); (1, 1, 1, 2); (1, 1, 1, 2)].
Proof.
  assert (Hp : request_workspace ex_image2 ex_opts2 = inr (mkplan 3 8 24 16 16 1 0)) by (vm_compute; reflexivity).
  assert (Hq : quant_ok ex_image2 = true) by (vm_compute; reflexivity).
  unfold transform. rewrite Hp, Hq. cbn [negb ex_opts2 xo_gray andb].
  eexists. split; [reflexivity|]. cbn [i_w i_h i_comps p_ow p_oh]. split; [reflexivity|]. split; [reflexivity|].
  vm_compute. reflexivity.
Qed.

Lemma ex_perfect :
  perfect_transform 40 32 16 16 XFlipH = false /\ perfect_transform 40 32 16 16 XFlipV = true /\
  perfect_transform 40 32 16 16 XRot90 = true /\ perfect_transform 40 32 16 16 XRot270 = false.
Proof. vm_compute. repeat split. Qed.

Lemma ex_trim : trim_edge 40 16 0 40 = 32 /\ trim_edge 24 16 1 40 = 16 /\ trim_edge 16 16 0 40 = 16 /\ trim_edge 9 16 0 9 = 9.
Proof. vm_compute. repeat split. Qed.

(* the geometry hypotheses of the plane theorem are satisfiable with crop and partial iMCUs *)
Lemma ex_geom : geom_ok (mkgeom 2 2 2 3 5 40 29 2 2 1 0) /\ inplace_ok (mkgeom 2 2 3 4 5 40 29 2 2 1 0).
Proof. vm_compute. repeat split; congruence. Qed.

(* slot 0 redefined between the scans: component 0 latched the old table -> refused, any op *)
Definition ex_image3 : image :=
  mkimage 40 29 3 [map (fun k => Z.of_nat k + 10) (seq 0 64)]
          [ex_comp2 2 2 5 4 0;
           mkcomp 1 1 3 2 0 (map (fun k => Z.of_nat k + 10) (seq 0 64)) (fun x y => ex_blk (500 + x + y));
           mkcomp 1 1 3 2 0 (map (fun k => Z.of_nat k + 10) (seq 0 64)) (fun x y => ex_blk (900 + x + y))].
Lemma ex_image3_refused op : transform ex_image3 (plain op) = inl EQuantReuse.
Proof.
  assert (Hq : quant_ok ex_image3 = false) by (vm_compute; reflexivity).
  destruct (request_workspace ex_image3 (plain op)) as [e|p] eqn:Ep.
  - exfalso. destruct op; vm_compute in Ep; discriminate.
  - apply (transform_refuses_reuse _ _ p Ep Hq).
Qed.

(* ------------------------------------------------ tj3Transform crop alignment *)
(* once jtransform_request_workspace has accepted the request, tj3Transform accepts the crop iff the
   destination subsampling level is known and the origin lies on the iMCU grid of the DESTINATION image
   (the one jtransform_request_workspace computed) *)
Theorem tj_crop_alignment im n t p :
  request_workspace im (tj_xopts n t) = inr p -> t_crop t = true ->
  let d := get_dst_subsamp (get_subsamp im) (t_gray t) (t_op t) in
  (tj_precheck im n t = None <-> (d <> -1 /\ t_x t mod p_imw p = 0 /\ t_y t mod p_imh p = 0)).
Proof.
  intros Hp Hc. cbv zeta. unfold tj_precheck. rewrite Hp, Hc.
  destruct (Z.eqb_spec (get_dst_subsamp (get_subsamp im) (t_gray t) (t_op t)) (-1)) as [E|E].
  - split; [discriminate|]. intros [H _]. contradiction.
  - destruct (Z.eqb_spec (t_x t mod p_imw p) 0); destruct (Z.eqb_spec (t_y t mod p_imh p) 0);
      cbn [negb orb]; split; intros H; try discriminate; try tauto; destruct H as (_ & ? & ?); contradiction.
Qed.

(* the iMCU size jtransform_request_workspace uses, as a function of the layout *)
Definition layout_imcu (jcs : Z) (facs : list (Z * Z)) (gray : bool) (op : xop) : Z * Z :=
  let nc := Z.of_nat (length facs) in
  let nc1 := (nc =? 1) || (gray && (jcs =? 3) && (nc =? 3)) in
  let mh := fold_right (fun c m => Z.max (fst c) m) 1 facs in
  let mv := fold_right (fun c m => Z.max (snd c) m) 1 facs in
  if nc1 then (8, 8) else (tw op mh mv * 8, th op mh mv * 8).

Definition layout_of (im : image) : list (Z * Z) := map (fun c => (c_hs c, c_vs c)) (i_comps im).

Lemma layout_max cs :
  fold_right (fun c m => Z.max (fst c) m) 1 (map (fun c => (c_hs c, c_vs c)) cs) = max_hs cs /\
  fold_right (fun c m => Z.max (snd c) m) 1 (map (fun c => (c_hs c, c_vs c)) cs) = max_vs cs.
Proof.
  unfold max_hs, max_vs. induction cs as [|c cs [IH1 IH2]]; [split; reflexivity|].
  cbn [map fold_right fst snd]. rewrite IH1, IH2. split; reflexivity.
Qed.

Lemma request_imcu_layout im o p :
  request_workspace im o = inr p ->
  (p_imw p, p_imh p) = layout_imcu (i_cs im) (layout_of im) (xo_gray o) (xo_op o).
Proof.
  unfold request_workspace, layout_imcu, layout_of. cbv zeta. rewrite map_length.
  pose proof (layout_max (i_comps im)) as [Emh Emv].
  rewrite Emh, Emv.
  destruct (xo_perfect o && _); [discriminate|].
  destruct (match xo_crop o with Some _ => _ | None => _ end) as [e|[[[ow1 oh1] xco] yco]]; [discriminate|].
  set (ncs := Z.of_nat (length (i_comps im))).
  assert (Hn : ((if xo_gray o && (i_cs im =? 3) && (ncs =? 3) then 1 else ncs) =? 1) =
               ((ncs =? 1) || xo_gray o && (i_cs im =? 3) && (ncs =? 3))).
  { destruct (xo_gray o && (i_cs im =? 3) && (ncs =? 3)) eqn:E.
    - rewrite orb_true_r. reflexivity.
    - rewrite orb_false_r. reflexivity. }
  destruct (xo_op o); intros H; injection H as <-; cbn [p_imw p_imh transposes]; rewrite Hn;
    unfold tw, th; cbn [transposes]; destruct ((ncs =? 1) || _); reflexivity.
Qed.

(* the seven TJSAMP layouts: the destination level is known and its tjMCU grid IS the destination iMCU
   grid, for every operation with or without TJXOPT_GRAY *)
Definition std_layouts : list (Z * list (Z * Z)) :=
  [(3, [(1, 1); (1, 1); (1, 1)]); (3, [(2, 1); (1, 1); (1, 1)]); (3, [(2, 2); (1, 1); (1, 1)]); (1, [(1, 1)]);
   (3, [(1, 2); (1, 1); (1, 1)]); (3, [(4, 1); (1, 1); (1, 1)]); (3, [(1, 4); (1, 1); (1, 1)])].
Definition all_xops : list xop := [XNone; XFlipH; XFlipV; XTranspose; XTransverse; XRot90; XRot180; XRot270].

Definition grid_agrees (jcs : Z) (facs : list (Z * Z)) (gray : bool) (op : xop) : bool :=
  let d := get_dst_subsamp (get_subsamp_l jcs facs) gray op in
  negb (d =? -1) && (tj_mcu_w d =? fst (layout_imcu jcs facs gray op)) && (tj_mcu_h d =? snd (layout_imcu jcs facs gray op)).

Lemma tj_std_grid_all :
  forallb (fun l => forallb (fun g => forallb (grid_agrees (fst l) (snd l) g) all_xops) [false; true]) std_layouts = true.
Proof. vm_compute. reflexivity. Qed.

Theorem tj_crop_alignment_std im n t p :
  In (i_cs im, layout_of im) std_layouts ->
  request_workspace im (tj_xopts n t) = inr p -> t_crop t = true ->
  (tj_precheck im n t = None <-> (t_x t mod p_imw p = 0 /\ t_y t mod p_imh p = 0)) /\
  (* and the iMCU grid is the tjMCUWidth/Height grid of getDstSubsamp, which tj3TransformBufSize uses *)
  let d := get_dst_subsamp (get_subsamp im) (t_gray t) (t_op t) in
  tj_mcu_w d = p_imw p /\ tj_mcu_h d = p_imh p.
Proof.
  intros Hl Hp Hc.
  pose proof (request_imcu_layout im _ p Hp) as Hi. cbn [tj_xopts xo_gray xo_op] in Hi.
  pose proof tj_std_grid_all as Hall. rewrite forallb_forall in Hall. specialize (Hall _ Hl). cbn [fst snd] in Hall.
  rewrite forallb_forall in Hall. specialize (Hall (t_gray t) ltac:(destruct (t_gray t); cbn; tauto)).
  rewrite forallb_forall in Hall. specialize (Hall (t_op t) ltac:(destruct (t_op t); cbn; tauto)).
  unfold grid_agrees in Hall. cbv zeta in Hall. fold (get_subsamp im) in Hall. unfold get_subsamp in *.
  fold (layout_of im) in *. rewrite <- Hi in Hall. cbn [fst snd] in Hall.
  apply andb_true_iff in Hall. destruct Hall as [Hall H3]. apply andb_true_iff in Hall. destruct Hall as [H1 H2].
  apply Z.eqb_eq in H2, H3. apply negb_true_iff in H1. apply Z.eqb_neq in H1.
  split; [|cbv zeta; unfold get_subsamp; fold (layout_of im); split; assumption].
  rewrite (tj_crop_alignment im n t p Hp Hc). cbv zeta. unfold get_subsamp. fold (layout_of im). tauto.
Qed.

(* non-standard layouts that getSubsamp() classifies: the TJSAMP grid differs from the iMCU grid (all
   components 2x1 are "4:4:4", grid 8x8, iMCU 16x8).  Before fix 7d69fcb tj3Transform tested the
   TJSAMP grid and accepted origins off the iMCU grid (finding of round 3); now it is refused *)
Definition ex_comp_c (hs vs wb hb : Z) : comp :=
  mkcomp hs vs wb hb 0 (map (fun k => Z.of_nat k + 1) (seq 0 64)) (fun _ _ => repeat 0 64%nat).
Definition ex_image_2x1 : image :=
  mkimage 64 48 3 [map (fun k => Z.of_nat k + 1) (seq 0 64)] [ex_comp_c 2 1 8 6; ex_comp_c 2 1 8 6; ex_comp_c 2 1 8 6].
Definition ex_tjx_off : tjx := mktjx XNone false false false true 8 8 16 16.

Lemma ex_nonstd_grid :
  let d := get_dst_subsamp (get_subsamp ex_image_2x1) false XNone in
  d = 0 /\ tj_mcu_w d = 8 /\ tj_precheck ex_image_2x1 1 ex_tjx_off = Some EAlign /\
  tj_precheck ex_image_2x1 1 (mktjx XNone false false false true 16 8 16 16) = None.
Proof. vm_compute. repeat split. Qed.

(* an aligned, accepted tj crop without trim: the result has exactly the requested size *)
Theorem tj_crop_size im n t p :
  request_workspace im (tj_xopts n t) = inr p -> t_crop t = true -> t_trim t = false ->
  t_x t mod p_imw p = 0 -> t_y t mod p_imh p = 0 -> 0 < p_imw p -> 0 < p_imh p ->
  p_xco p * p_imw p = t_x t /\ p_yco p * p_imh p = t_y t /\
  p_ow p = (if t_w t =? 0 then tw (t_op t) (i_w im) (i_h im) - t_x t else t_w t) /\
  p_oh p = (if t_h t =? 0 then th (t_op t) (i_w im) (i_h im) - t_y t else t_h t).
Proof.
  intros Hp Hc Ht Hx Hy Hiw Hih. revert Hp.
  unfold request_workspace, tj_xopts. cbn [xo_op xo_perfect xo_trim xo_gray xo_crop xo_slow]. rewrite Hc, Ht. cbv zeta.
  destruct (t_perfect t && _); [discriminate|].
  set (imw := if _ =? 1 then 8 else if transposes (t_op t) then _ else _).
  set (imh := if _ =? 1 then 8 else if transposes (t_op t) then _ else _).
  unfold crop_axis. cbn [cr_w cr_wset cr_h cr_hset cr_x cr_xset cr_y cr_yset negb].
  unfold tw, th.
  repeat match goal with
         | |- context [if ?c then _ else _] =>
             lazymatch c with
             | transposes _ => fail
             | _ => destruct c eqn:?
             end
         end; try discriminate;
  destruct (t_op t); cbn [transposes] in *; intros H; injection H as <-;
    cbn [p_imw p_imh p_xco p_yco p_ow p_oh] in *;
    rewrite ?Hx, ?Hy, ?Z.add_0_r;
    (repeat split; try lia;
     try (pose proof (Z.div_mod (t_x t) imw ltac:(lia)); lia);
     try (pose proof (Z.div_mod (t_y t) imh ltac:(lia)); lia)).
Qed.
