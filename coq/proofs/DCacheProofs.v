(* DCacheProofs.v -- what is fixed at SOF stays fixed (C01): no marker routine after an accepted SOF changes
   the frame geometry, so the values initial_setup computed at the first SOS (cached by the C) remain valid
   for every later scan; only per_scan_setup / latch_quant_tables are per scan. *)
From Coq Require Import List ZArith Bool Lia ZifyBool.
From LJT Require Import gen.GenLimits model.Huff model.DMarkers model.DStream
  proofs.DMarkersProofs proofs.DMarkersScanProofs proofs.DMarkersTop proofs.DStreamProofs.
Import ListNotations.
Local Open Scope Z_scope.
Ltac Zify.zify_post_hook ::= Z.div_mod_to_equations.

Definition keeps (h : hdr) (h' : hdr) : Prop := saw_SOF h = true -> geom h' = geom h /\ saw_SOF h' = true.

Lemma post_true {A} (m : M A) (P : A -> Prop) : post m P -> post m (fun _ => True).
Proof. intros H. eapply post_weaken; [exact H|auto]. Qed.

Lemma keeps_same h s1 sc dc ac q l u k r j ad n :
  keeps h (mkhdr s1 (saw_SOF h) (h_frame h) sc dc ac q l u k r j ad n).
Proof. intros H. cbn. split; [reflexivity|exact H]. Qed.

Lemma upd_map_same {A B} (f : A -> B) d : forall l n x, f x = f (nth n l d) -> map f (upd n x l) = map f l.
Proof.
  induction l as [|a t IH]; intros n x H; destruct n; cbn in *; auto; [rewrite H; reflexivity|rewrite IH; auto].
Qed.

Lemma K_sos_comps : forall k i nc comps cur, 0 <= i -> i + Z.of_nat k <= 4 -> 1 <= nc ->
  post (sos_comps k i nc comps cur) (fun p => map cgeom (fst p) = map cgeom comps).
Proof.
  induction k; intros i nc comps cur H0 H1 Hnc; cbn [sos_comps].
  - apply post_ret. reflexivity.
  - pbind post_get_byte. pbind post_get_byte.
    eapply post_bind; [apply L_find_comp; lia|]. intros r Hr.
    destruct r as [ci|]; [|pfail].
    plog. eapply post_bind; [apply L_dup_check; lia|]. intros _ _.
    eapply post_weaken; [apply IHk; lia|]. cbv beta. intros p Hp. rewrite Hp.
    unfold updz. apply upd_map_same with (d := mkcomp 0 0 0 0 0 0). reflexivity.
Qed.

Lemma K_get_sos h : hdr_ok h -> post (get_sos h) (keeps h).
Proof.
  intros (H1 & H2 & H3). unfold get_sos. destruct (saw_SOF h) eqn:Hsof; cbn [negb]; [|pfail].
  specialize (H1 eq_refl). destruct H1 as (F1 & F2 & F3 & F4 & F5 & F6).
  pbind post_get2. pbind post_get_byte. dif; [pfail|].
  eapply post_bind; [apply post_log_range; ulia|]. intros _ _.
  eapply post_bind; [apply (K_sos_comps (Z.to_nat a0) 0); ulia|].
  cbv beta. intros [comps cur] Hm. cbn [fst] in Hm.
  pbind post_get_byte. pbind post_get_byte. pbind post_get_byte.
  apply post_ret. intros _. unfold geom; cbn. rewrite Hm. auto.
Qed.

Lemma K_simple (m : M hdr) h : post m (fun h' => h_frame h' = h_frame h /\ saw_SOF h' = saw_SOF h) -> post m (keeps h).
Proof. intros H. eapply post_weaken; [exact H|]. cbv beta. intros h' [A B] Hs. unfold geom. rewrite A, B. auto. Qed.

Ltac kret := apply post_ret; cbn; auto.

Lemma K_get_soi h : post (get_soi h) (keeps h).
Proof.
  apply K_simple. unfold get_soi. destruct (saw_SOI h); [pfail|].
  eapply post_bind; [apply post_log_range; ulia|]. intros _ _.
  eapply post_bind; [apply post_log_range; ulia|]. intros _ _.
  eapply post_bind; [apply post_log_range; ulia|]. intros _ _. kret.
Qed.

Lemma K_get_sof p l a h : hdr_ok h -> post (get_sof p l a h) (keeps h).
Proof.
  intros Hh. destruct (saw_SOF h) eqn:E.
  - unfold get_sof. rewrite E. pfail.
  - eapply post_weaken; [apply L_get_sof; auto|]. cbv beta. intros h' _. unfold keeps. rewrite E. discriminate.
Qed.

Lemma K_get_dac h : post (get_dac h) (keeps h).
Proof.
  apply K_simple. unfold get_dac. pbind post_get2.
  eapply post_bind; [apply L_dac_loop; lia|]. intros [[L U] K] _. kret.
Qed.

Lemma K_get_dht h : hdr_ok h -> post (get_dht h) (keeps h).
Proof.
  intros (H1 & H2 & H3). apply K_simple. unfold get_dht. pbind post_get2.
  eapply post_bind; [apply L_dht_loop; auto; lia|]. intros [dc ac] _. kret.
Qed.

Lemma K_get_dqt h : post (get_dqt h) (keeps h).
Proof.
  apply K_simple. unfold get_dqt. pbind post_get2.
  eapply post_bind; [apply L_dqt_loop; lia|]. intros qt _. kret.
Qed.

Lemma K_get_dri h : post (get_dri h) (keeps h).
Proof. apply K_simple. unfold get_dri. pbind post_get2. dif; [pfail|]. pbind post_get2. kret. Qed.

Lemma K_appn m h : post (get_interesting_appn m h) (keeps h).
Proof.
  apply K_simple. unfold get_interesting_appn. pbind post_get2.
  eapply post_bind; [apply L_appn_bytes; [lia|]|].
  { cbv zeta. difc; [ulia|]. difc; ulia. }
  intros b _.
  eapply post_bind with (P := fun h' => h_frame h' = h_frame h /\ saw_SOF h' = saw_SOF h).
  { destruct (m =? M_APP0).
    - dif; [|kret].
      eapply post_bind with (P := fun _ => True); [dif; [apply post_warn | apply post_ret; auto]|].
      intros _ _. kret.
    - dif; kret. }
  intros h' Hh'.
  eapply post_bind with (P := fun _ => True); [dif; [apply post_skip_input | apply post_ret; auto]|].
  intros _ _. apply post_ret. auto.
Qed.

Lemma keeps_refl h : keeps h h.
Proof. intros H. auto. Qed.

Lemma K_dispatch c h : hdr_ok h -> post (dispatch c h) (fun r => keeps h (hdr_of r)).
Proof.
  intros Hh. unfold dispatch.
  assert (KC : forall m, post m (keeps h) -> post (cont m) (fun r => keeps h (hdr_of r))).
  { intros m H. unfold cont. pbind H. apply post_ret. cbn. auto. }
  assert (KS : post (skip_variable;;; ret (Continue h)) (fun r => keeps h (hdr_of r))).
  { pbind L_skip_variable. apply post_ret. cbn. apply keeps_refl. }
  destruct (c =? M_SOI); [apply KC, K_get_soi|].
  destruct (assocZ c sof_dispatch) as [[[p l] a]|]; [apply KC, K_get_sof; auto|].
  destruct (existsb _ _); [pfail|].
  destruct (c =? M_SOS). { pbind K_get_sos; auto. apply post_ret. cbn. auto. }
  destruct (c =? M_EOI). { apply post_ret. cbn. apply keeps_refl. }
  destruct (c =? M_DAC); [apply KC, K_get_dac|].
  destruct (c =? M_DHT); [apply KC, K_get_dht; auto|].
  destruct (c =? M_DQT); [apply KC, K_get_dqt|].
  destruct (c =? M_DRI); [apply KC, K_get_dri|].
  destruct (_ && _) eqn:E1.
  { plog. destruct (_ || _); [apply KC, K_appn|exact KS]. }
  destruct (c =? M_COM); [exact KS|].
  destruct (_ || _). { apply post_ret. cbn. apply keeps_refl. }
  destruct (c =? M_DNL); [exact KS|].
  pfail.
Qed.

(* the whole marker loop keeps the geometry of an accepted SOF *)
Lemma read_markers_keeps : forall fuel h s, hdr_ok h -> inv s ->
  match read_markers fuel h s with
  | Done r s' => keeps h (hdr_of r)
  | _ => True
  end.
Proof.
  induction fuel as [|k IH]; intros h s Hh Hs; cbn [read_markers]; [exact I|].
  unfold bind at 1.
  assert (HF : match (if saw_SOI h then next_marker else first_marker) s with
               | Done c s' => inv s' | _ => True end).
  { destruct (saw_SOI h).
    - pose proof (next_marker_spec s Hs) as H. destruct (next_marker s); auto. apply H.
    - pose proof (first_marker_spec s Hs) as H. destruct (first_marker s); auto. apply H. }
  destruct ((if saw_SOI h then next_marker else first_marker) s) as [c s1| |e s1]; auto.
  unfold bind at 1.
  pose proof (post_conj _ _ _ (L_dispatch c h Hh) (K_dispatch c h Hh) s1 HF) as HD.
  destruct (dispatch c h s1) as [r s2| |e s2]; auto.
  destruct HD as (A2 & _ & _ & (D2 & K2)).
  destruct r as [h'|h'|h']; cbn in *; auto.
  specialize (IH h' s2 D2 A2).
  destruct (read_markers k h' s2) as [r s3| |e s3]; auto.
  intros Hsof. destruct (K2 Hsof) as [G1 G2]. destruct (IH G2) as [G3 G4]. split; congruence.
Qed.

(* the cached result of initial_setup stays valid for a later scan of the same frame *)
Lemma cache_valid_ h1 h' su : accepted_header h1 su -> setup_dims h1 su -> geom h' = geom h1 ->
  hdr_ok h' -> saw_SOF h' = true -> scan_ok (h_frame h') (h_scan h') ->
  accepted_header h' su /\ setup_dims h' su.
Proof.
  intros (A1 & A2 & A3 & A4 & A5 & A6 & A7 & A8 & A9 & A10 & A11 & A12 & _) (S1 & S2 & S3 & S4) Hg Hh Hsof Hsc.
  unfold geom in Hg. inversion Hg as [[G1 G2 G3 G4 G5 G6 G7 G8]].
  pose proof Hh as (F & _ & _). specialize (F Hsof). destruct F as (_ & _ & F3 & _).
  assert (Hlen : length (f_comps (h_frame h')) = length (f_comps (h_frame h1))).
  { rewrite <- (map_length cgeom), G8, map_length. reflexivity. }
  assert (Hsamp : Forall samp_ok (f_comps (h_frame h'))).
  { apply Forall_forall. intros c Hc. apply (in_map cgeom) in Hc. rewrite G8 in Hc. apply in_map_iff in Hc.
    destruct Hc as (c1 & E & Hc1). rewrite Forall_forall in A3. specialize (A3 c1 Hc1).
    unfold cgeom in E. inversion E. unfold samp_ok in *. lia. }
  split.
  - unfold accepted_header. cbv zeta. rewrite G7, G5, G6, G4, G2, Hlen.
    repeat (split; [assumption|]). assumption.
  - unfold setup_dims. rewrite G5, G6. auto.
Qed.

Lemma L_latch_loop2 h : forall cur ci latched, 0 <= ci -> ci + Z.of_nat (length cur) <= 4 ->
  post (latch_loop2 cur ci h latched) (fun _ => True).
Proof.
  induction cur as [|cidx t IH]; intros ci latched H0 H1; cbn [latch_loop2].
  - apply post_ret; auto.
  - cbn [length] in H1. plog. dif; [apply IH; lia|]. cbv zeta. dif; [pfail|]. plog.
    destruct (nthd (q_tbls h) _ None); [apply IH; lia | pfail].
Qed.

(* the cache is either empty or holds the result of initial_setup for a header with the current geometry *)
Definition cache_ok (h : hdr) (su : option setup) : Prop :=
  match su with
  | None => True
  | Some x => saw_SOF h = true /\ exists h1, accepted_header h1 x /\ setup_dims h1 x /\ geom h = geom h1
  end.

Lemma decode_stream3_spec ec limit : ec_mono ec -> forall fuel h su latched nsos work amax s,
  hdr_ok h -> cache_ok h su -> inv s -> (len s + 4 <= 2 * fuel)%nat -> 0 <= nsos -> 0 <= amax ->
  work <= nsos * (L_DCTSIZE2 * L_D_MAX_BLOCKS_IN_MCU * amax) ->
  match decode_stream3 ec limit fuel h su latched nsos work amax s with
  | SDone h' n w a s' => inv s' /\ nsos <= n <= nsos + Z.of_nat fuel /\ (nsos <= limit -> n <= limit) /\
                         amax <= a <= Z.max amax (L_JPEG_MAX_DIMENSION * L_JPEG_MAX_DIMENSION) /\
                         w <= n * (L_DCTSIZE2 * L_D_MAX_BLOCKS_IN_MCU * a)
  | SSusp => fake s = false
  | SFail e n w s' => inv s' /\ e <> E_OUT_OF_FUEL
  | SLimit n w a s' => inv s' /\ (nsos <= limit -> n = limit) /\ w <= n * (L_DCTSIZE2 * L_D_MAX_BLOCKS_IN_MCU * a)
  end.
Proof.
  intros Hec. induction fuel as [|k IH]; intros h su latched nsos work amax s Hh Hc Hs Hf Hn Ha Hw; [lia|].
  cbn [decode_stream3].
  pose proof (read_markers_spec (marker_fuel s) h s Hh Hs (div2_bound _)) as H.
  pose proof (read_markers_keeps (marker_fuel s) h s Hh Hs) as HK.
  destruct (read_markers (marker_fuel s) h s) as [r s1| |e s1]; auto.
  destruct H as (A & B & C & D & E & F).
  destruct r as [h'|h'|h']; cbn in E; [contradiction| |].
  - destruct D as (D1 & D2 & D3). destruct F as [F|F]; [|contradiction]. cbn [hdr_of] in HK.
    destruct (nsos + 1 >? limit) eqn:EL; [split; [exact A|]; split; [lia|exact Hw]|].
    (* the set-up values: cached or freshly computed *)
    assert (P : match (match su with Some x => if su_multi x then Done x s1 else Fail E_EOI_EXPECTED s1 | None => initial_setup h' s1 end) with
                | Done su' s2 => inv s2 /\ fake s2 = fake s1 /\ (len s2 <= len s1)%nat /\ accepted_header h' su' /\ setup_dims h' su'
                | Susp => fake s1 = false
                | Fail e s2 => inv s2 /\ e <> E_OUT_OF_FUEL end).
    { destruct su as [x|].
      - destruct Hc as (Hsof & h1 & C1 & C2 & C3). destruct (HK Hsof) as [G1 G2].
        destruct (su_multi x); [|split; [exact A|discriminate]].
        split; [exact A|]. split; [reflexivity|]. split; [lia|].
        apply (cache_valid_ h1 h' x); auto. congruence.
      - pose proof (post_conj _ _ _ (L_initial_setup h' D1 D2 D3) (L_initial_setup_dims h' D1 D2) s1 A) as Q.
        destruct (initial_setup h' s1); auto. }
    destruct (match su with Some x => _ | None => _ end) as [su' s2| |e s2]; [|congruence|auto].
    destruct P as (P1 & P2 & P3 & P4 & P5).
    assert (Q : post (si <- per_scan_setup h' su';;
                      l <- (if f_lossless (h_frame h') then ret latched else latch_loop2 (s_cur (h_scan h')) 0 h' latched);;
                      ret (si, l))
                     (fun p => scaninfo_ok (h_scan h') (fst p) /\
                               0 <= si_mcus_per_row (fst p) <= f_width (h_frame h') /\ 0 <= si_mcu_rows (fst p) <= f_height (h_frame h'))).
    { eapply post_bind; [apply L_per_scan_setup_dims; auto|]. intros si Hsi.
      eapply post_bind with (P := fun _ => True).
      { pose proof D3 as (S1 & S2 & _). dif; [apply post_ret; auto|apply L_latch_loop2; lia]. }
      intros l _. apply post_ret. exact Hsi. }
    specialize (Q s2 P1).
    destruct ((si <- per_scan_setup h' su';; _) s2) as [[si l'] s3| |e s3]; [|congruence|auto].
    destruct Q as (Q1 & Q2 & Q3 & ((U1 & U2 & U3) & U4 & U5)). cbn [fst] in *.
    destruct (Hec h' s3 Q1) as (G1 & G2 & G3).
    pose proof P4 as (_ & _ & _ & _ & X5 & X6 & _).
    assert (Harea : 0 <= frame_area h' <= L_JPEG_MAX_DIMENSION * L_JPEG_MAX_DIMENSION) by (unfold frame_area; ucon; nia).
    assert (Hunits : scan_units si * unit_steps <= L_DCTSIZE2 * L_D_MAX_BLOCKS_IN_MCU * frame_area h').
    { unfold scan_units, unit_steps, frame_area. ucon.
      assert (si_mcus_per_row si * si_mcu_rows si <= f_width (h_frame h') * f_height (h_frame h')) by nia.
      assert (0 <= si_mcus_per_row si * si_mcu_rows si) by nia. nia. }
    assert (Hk : (len (ec h' s3) + 4 <= 2 * k)%nat) by lia.
    assert (Hc' : cache_ok h' (Some su')).
    { cbn. split; [exact D2|]. exists h'. auto. }
    assert (Hw' : work + scan_units si * unit_steps <= (nsos + 1) * (L_DCTSIZE2 * L_D_MAX_BLOCKS_IN_MCU * Z.max amax (frame_area h'))).
    { ucon. nia. }
    specialize (IH h' (Some su') l' (nsos + 1) (work + scan_units si * unit_steps) (Z.max amax (frame_area h')) (ec h' s3)
                   D1 Hc' G1 Hk ltac:(lia) ltac:(lia) Hw').
    destruct (decode_stream3 ec limit k h' (Some su') l' (nsos + 1) _ _ (ec h' s3)) as [h2 n w a s'| |e n w s'|n w a s'].
    + destruct IH as (I1 & I2 & I3 & I4 & I5). split; [exact I1|]. split; [lia|]. split; [intros; apply I3; lia|]. split; [lia|exact I5].
    + congruence.
    + exact IH.
    + destruct IH as (I1 & I2 & I3). split; [exact I1|]. split; [intros; apply I2; lia|exact I3].
  - split; [exact A|]. split; [lia|]. split; [auto|]. split; [lia|exact Hw].
Qed.

Lemma cached_stream_bound_ : forall ec limit data, ec_mono ec -> 0 <= limit -> Forall byte data ->
  match decode_stream3 ec limit (Nat.div2 (length data) + 3) hdr0 None [] 0 0 0 (io0 data true) with
  | SDone h n w a s' =>
      0 <= n <= limit /\ n <= Z.of_nat (length data) / 2 + 3 /\ 0 <= a <= L_JPEG_MAX_DIMENSION * L_JPEG_MAX_DIMENSION /\
      w <= n * (L_DCTSIZE2 * L_D_MAX_BLOCKS_IN_MCU * a) /\ trace_ok s'
  | SSusp => False
  | SFail e n w s' => e <> E_OUT_OF_FUEL /\ trace_ok s'
  | SLimit n w a s' => n = limit /\ w <= n * (L_DCTSIZE2 * L_D_MAX_BLOCKS_IN_MCU * a) /\ trace_ok s'
  end.
Proof.
  intros ec limit data Hec Hl Hd.
  pose proof (decode_stream3_spec ec limit Hec (Nat.div2 (length data) + 3) hdr0 None [] 0 0 0 (io0 data true) hdr0_ok I
                (inv_io0 data true Hd) (div2_bound _) ltac:(lia) ltac:(lia) ltac:(lia)) as H.
  destruct (decode_stream3 ec limit _ hdr0 None [] 0 0 0 (io0 data true)) as [h n w a s'| |e n w s'|n w a s'].
  - destruct H as ([T _] & I2 & I3 & I4 & I5).
    pose proof (Nat.div2_odd (length data)) as Ho. destruct (Nat.odd (length data)); unfold Nat.b2n in Ho;
      (split; [split; [lia|apply I3; lia]|]; split; [lia|]; split; [ucon; lia|]; split; [exact I5|exact T]).
  - discriminate H.
  - destruct H as ([T _] & K). auto.
  - destruct H as ([T _] & I2 & I3). split; [apply I2; lia|]. split; [exact I3|exact T].
Qed.
