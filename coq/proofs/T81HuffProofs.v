(* Annex C code generation + F.2.2.3 DECODE (MINCODE/MAXCODE/VALPTR, bit-serial):
   for every table specification whose generated codes fit their lengths and are
   not all ones, DECODE returns the symbol of every code word and consumes exactly
   its bits -- i.e. mk_coder gives a coder_ok pair (T81BlockProofs). *)
From Coq Require Import List ZArith Bool Lia Arith.
From LJT Require Import model.T81Spec proofs.T81BlockProofs.
Import ListNotations.
Local Open Scope Z_scope.

(* --------------------------------------- the canonical code, level by level *)
Fixpoint crun (fc : Z) (n : nat) : list Z := match n with O => [] | S k => fc :: crun (fc + 1) k end.
Fixpoint lv_codes (counts : list Z) (fc : Z) : list Z :=
  match counts with [] => [] | b :: t => crun fc (Z.to_nat b) ++ lv_codes t (2 * (fc + b)) end.
Fixpoint lv_tabs (counts : list Z) (fc j : Z) : list (Z * Z * Z) :=
  match counts with
  | [] => []
  | b :: t => (if b =? 0 then (-1, 0, 0) else (fc + b - 1, fc, j)) :: lv_tabs t (2 * (fc + b)) (j + b)
  end.
Fixpoint level_at (counts : list Z) (fc j : Z) (m : nat) : option (Z * Z * Z) :=
  match counts with
  | [] => None
  | b :: t => match m with O => Some (fc, j, b) | S m' => level_at t (2 * (fc + b)) (j + b) m' end
  end.

Definition nonneg (l : list Z) : Prop := Forall (fun x => 0 <= x) l.

Lemma crun_length : forall n fc, length (crun fc n) = n.
Proof. induction n; intros; cbn; [reflexivity|]. rewrite IHn. reflexivity. Qed.

Lemma crun_nth : forall n fc i, (i < n)%nat -> nth i (crun fc n) 0 = fc + Z.of_nat i.
Proof.
  induction n; intros fc i Hi; [lia|]. destruct i; cbn [crun nth]; [lia|].
  rewrite IHn by lia. lia.
Qed.

Lemma huffcode_run : forall n l code rest,
  huffcode (repeat l n ++ rest) code l = crun code n ++ huffcode rest (code + Z.of_nat n) l.
Proof.
  induction n; intros; cbn [repeat app crun].
  - f_equal. lia.
  - cbn [huffcode]. rewrite Z.sub_diag, Z.pow_0_r, Z.mul_1_r. f_equal. rewrite IHn. f_equal. f_equal. lia.
Qed.

Lemma huffcode_lv : forall counts l code si, nonneg counts -> si <= l ->
  huffcode (huffsize counts l) code si = lv_codes counts (code * 2 ^ (l - si)).
Proof.
  induction counts as [|b t IH]; intros l code si Hnn Hsi; [reflexivity|].
  inversion Hnn as [|x y Hb Ht]; subst. cbn [huffsize lv_codes].
  destruct (Z.to_nat b) as [|n] eqn:En.
  - assert (b = 0) by lia. subst. cbn [repeat app crun].
    rewrite IH by (assumption || lia). f_equal.
    replace (l + 1 - si) with (Z.succ (l - si)) by lia. rewrite Z.pow_succ_r by lia. lia.
  - cbn [repeat app huffcode crun]. f_equal. rewrite huffcode_run. f_equal.
    rewrite IH by (assumption || lia). f_equal.
    replace (l + 1 - l) with 1 by lia. rewrite Z.pow_1_r. lia.
Qed.

Lemma huffcode_lv0 : forall counts l si, nonneg counts ->
  huffcode (huffsize counts l) 0 si = lv_codes counts 0.
Proof.
  induction counts as [|b t IH]; intros l si Hnn; [reflexivity|].
  inversion Hnn as [|x y Hb Ht]; subst. cbn [huffsize lv_codes].
  destruct (Z.to_nat b) as [|n] eqn:En.
  - assert (b = 0) by lia. subst. cbn [repeat app crun]. rewrite IH by assumption. reflexivity.
  - cbn [repeat app huffcode crun]. rewrite Z.mul_0_l. f_equal. rewrite huffcode_run. f_equal.
    rewrite huffcode_lv by (assumption || lia). f_equal.
    replace (l + 1 - l) with 1 by lia. rewrite Z.pow_1_r. lia.
Qed.

Lemma gen_codes_lv : forall counts, nonneg counts ->
  gen_codes counts = (huffsize counts 1, lv_codes counts 0).
Proof. intros. unfold gen_codes. rewrite huffcode_lv0 by assumption. reflexivity. Qed.

(* ------------------------------------------------ Decoder_tables, by level *)
Lemma nthZ_app_r : forall pre l i, 0 <= i -> nthZ (pre ++ l) (lenZ pre + i) = nthZ l i.
Proof.
  intros. unfold nthZ, lenZ. rewrite app_nth2 by lia. f_equal. lia.
Qed.

Lemma dec_tables_lv : forall counts pre fc, nonneg counts ->
  dec_tables counts (pre ++ lv_codes counts fc) (lenZ pre) = lv_tabs counts fc (lenZ pre).
Proof.
  induction counts as [|b t IH]; intros pre fc Hnn; [reflexivity|].
  inversion Hnn as [|x y Hb Ht]; subst. cbn [dec_tables lv_tabs lv_codes].
  destruct (b =? 0) eqn:E.
  - apply Z.eqb_eq in E. subst. cbn [Z.to_nat crun app]. f_equal.
    replace (lenZ pre + 0) with (lenZ pre) by lia. apply IH. assumption.
  - apply Z.eqb_neq in E. f_equal.
    + assert (A1 : nthZ (pre ++ crun fc (Z.to_nat b) ++ lv_codes t (2 * (fc + b))) (lenZ pre + b - 1) = fc + b - 1).
      { replace (lenZ pre + b - 1) with (lenZ pre + (b - 1)) by lia. rewrite nthZ_app_r by lia.
        unfold nthZ. rewrite app_nth1 by (rewrite crun_length; lia). rewrite crun_nth by lia. lia. }
      assert (A2 : nthZ (pre ++ crun fc (Z.to_nat b) ++ lv_codes t (2 * (fc + b))) (lenZ pre) = fc).
      { replace (lenZ pre) with (lenZ pre + 0) at 1 by lia. rewrite nthZ_app_r by lia.
        unfold nthZ. rewrite app_nth1 by (rewrite crun_length; lia). rewrite crun_nth by lia. cbn. lia. }
      rewrite A1, A2. reflexivity.
    + rewrite app_assoc.
      replace (lenZ pre + b) with (lenZ (pre ++ crun fc (Z.to_nat b)))
        by (unfold lenZ; rewrite app_length, crun_length; lia).
      apply IH. assumption.
Qed.

(* ----------------------------------------------------------------- DECODE *)
Lemma level_at_ge : forall counts fc j m fcm jm bm, nonneg counts -> 0 <= fc ->
  level_at counts fc j m = Some (fcm, jm, bm) -> 2 ^ Z.of_nat m * fc <= fcm /\ 0 <= bm.
Proof.
  induction counts as [|b t IH]; intros fc j m fcm jm bm Hnn Hfc H; [discriminate|].
  inversion Hnn as [|x y Hb Ht]; subst. destruct m; cbn [level_at] in H.
  - inversion H; subst. change (Z.of_nat 0) with 0. rewrite Z.pow_0_r. lia.
  - apply IH in H; [|assumption|lia]. destruct H as [H1 H2]. split; [|assumption].
    rewrite Nat2Z.inj_succ, Z.pow_succ_r by lia.
    assert (0 <= 2 ^ Z.of_nat m) by (apply Z.pow_nonneg; lia). nia.
Qed.

Lemma bit_step : forall c k, 0 <= k -> 2 * (c / 2 ^ (k + 1)) + b2z (Z.testbit c k) = c / 2 ^ k.
Proof.
  intros. replace (b2z (Z.testbit c k)) with (Z.b2z (Z.testbit c k)) by reflexivity.
  rewrite Z.testbit_spec' by assumption.
  rewrite Z.pow_add_r, Z.pow_1_r by lia.
  rewrite <- Z.div_div by (try apply Z.pow_pos_nonneg; lia).
  pose proof (Z.div_mod (c / 2 ^ k) 2). lia.
Qed.

Lemma decode_level : forall m counts fc j fcm jm bm i r vals, nonneg counts -> 0 <= fc ->
  level_at counts fc j m = Some (fcm, jm, bm) -> 0 <= i < bm ->
  decode_sym (lv_tabs counts fc j) vals ((fcm + i) / 2 ^ (Z.of_nat m + 1)) (bits_of (S m) (fcm + i) ++ r)
  = Some (nthZ vals (jm + i), r).
Proof.
  induction m; intros counts fc j fcm jm bm i r vals Hnn Hfc Hl Hi.
  - destruct counts as [|b t]; [discriminate|]. cbn [level_at] in Hl. inversion Hl; subst.
    cbn [lv_tabs bits_of app decode_sym Z.of_nat].
    destruct (bm =? 0) eqn:E; [apply Z.eqb_eq in E; lia|].
    replace (0 + 1) with 1 by lia.
    pose proof (bit_step (fcm + i) 0 ltac:(lia)) as B. rewrite Z.pow_0_r, Z.div_1_r in B.
    replace (0 + 1) with 1 in B by lia. rewrite B.
    destruct (fcm + i >? fcm + bm - 1) eqn:G; [apply Z.gtb_lt in G; lia|].
    f_equal. f_equal. f_equal. lia.
  - destruct counts as [|b t]; [discriminate|]. inversion Hnn as [|x y Hb Ht]; subst.
    cbn [level_at] in Hl.
    assert (Hfc2 : 0 <= 2 * (fc + b)) by lia.
    destruct (level_at_ge _ _ _ _ _ _ _ Ht Hfc2 Hl) as [Hge _].
    cbn [lv_tabs]. change (bits_of (S (S m)) (fcm + i)) with (Z.testbit (fcm + i) (Z.of_nat (S m)) :: bits_of (S m) (fcm + i)).
    cbn [app decode_sym].
    replace (Z.of_nat (S (S m)) + 1) with (Z.of_nat (S m) + 1 + 1) by lia.
    rewrite (bit_step (fcm + i) (Z.of_nat (S m))) by lia.
    assert (Hp : 0 < 2 ^ Z.of_nat (S m)) by (apply Z.pow_pos_nonneg; lia).
    assert (Hdiv : fc + b <= (fcm + i) / 2 ^ Z.of_nat (S m)).
    { apply Z.div_le_lower_bound; [lia|].
      rewrite Nat2Z.inj_succ, Z.pow_succ_r by lia. rewrite Nat2Z.inj_succ, Z.pow_succ_r in Hp by lia. nia. }
    assert (Hmx : (let '(mx, _, _) := (if b =? 0 then (-1, 0, 0) else (fc + b - 1, fc, j)) in mx) <= fc + b - 1)
      by (destruct (b =? 0); lia).
    destruct (if b =? 0 then (-1, 0, 0) else (fc + b - 1, fc, j)) as [[mx mn] vp].
    destruct ((fcm + i) / 2 ^ Z.of_nat (S m) >? mx) eqn:G; [|rewrite Z.gtb_ltb in G; apply Z.ltb_ge in G; lia].
    replace (Z.of_nat (S m)) with (Z.of_nat m + 1) by lia.
    apply (IHm t (2 * (fc + b)) (j + b) fcm jm bm i r vals Ht ltac:(lia) Hl Hi).
Qed.

(* --------------------------------------------- lookup in the encoder table *)
Definition fits (codes sizes : list Z) : bool := codes_ok sizes codes.

Lemma lookup_run : forall n vals l fc restS restC sym bits,
  codes_ok (repeat l n ++ restS) (crun fc n ++ restC) = true ->
  lookup_code vals (repeat l n ++ restS) (crun fc n ++ restC) sym = Some bits ->
  (exists i, (i < n)%nat /\ nth i vals 0 = sym /\ (i < length vals)%nat /\
             bits = bits_of (Z.to_nat l) (fc + Z.of_nat i) /\ fc + Z.of_nat i + 1 < 2 ^ l) \/
  ((n <= length vals)%nat /\ codes_ok restS restC = true /\ lookup_code (skipn n vals) restS restC sym = Some bits).
Proof.
  induction n; intros vals l fc restS restC sym bits Hok H.
  - right. cbn [repeat app crun skipn] in *. repeat split; try assumption. lia.
  - cbn [repeat app crun] in *. destruct vals as [|v vt]; [discriminate|].
    unfold codes_ok in Hok. cbn [combine forallb fst snd] in Hok. apply andb_prop in Hok. destruct Hok as [Hh Ht].
    cbn [lookup_code] in H. destruct (v =? sym) eqn:E.
    + left. exists O. apply Z.eqb_eq in E. apply Z.ltb_lt in Hh. inversion H; subst.
      repeat split; cbn; try lia. f_equal. lia.
    + destruct (IHn vt l (fc + 1) restS restC sym bits Ht H) as [[i (A & B & C & D & F)]|(A & B & C)].
      * left. exists (S i). repeat split; cbn [nth length]; try lia; try assumption;
          try (rewrite D; f_equal; lia);
          try (replace (fc + Z.of_nat (S i)) with (fc + 1 + Z.of_nat i) by lia; assumption).
      * right. cbn [skipn length]. repeat split; try assumption. lia.
Qed.

Lemma lookup_level : forall counts vals pre l fc sym bits, nonneg counts -> 0 <= l ->
  codes_ok (huffsize counts l) (lv_codes counts fc) = true ->
  lookup_code vals (huffsize counts l) (lv_codes counts fc) sym = Some bits ->
  exists m fcm jm bm i, level_at counts fc (lenZ pre) m = Some (fcm, jm, bm) /\ 0 <= i < bm /\
    bits = bits_of (Z.to_nat (l + Z.of_nat m)) (fcm + i) /\ nthZ (pre ++ vals) (jm + i) = sym /\
    fcm + i + 1 < 2 ^ (l + Z.of_nat m).
Proof.
  induction counts as [|b t IH]; intros vals pre l fc sym bits Hnn Hl Hok H.
  - cbn in H. destruct vals; discriminate.
  - inversion Hnn as [|x y Hb Ht]; subst. cbn [huffsize lv_codes] in *.
    destruct (lookup_run _ _ _ _ _ _ _ _ Hok H) as [[i (A & B & C & D & F)]|(A & B & C)].
    + exists O, fc, (lenZ pre), b, (Z.of_nat i). cbn [level_at]. repeat split; try lia.
      * rewrite D. f_equal. lia.
      * rewrite nthZ_app_r by lia. unfold nthZ. rewrite Nat2Z.id. assumption.
      * replace (l + Z.of_nat 0) with l by lia. assumption.
    + destruct (IH (skipn (Z.to_nat b) vals) (pre ++ firstn (Z.to_nat b) vals) (l + 1) (2 * (fc + b)) sym bits Ht ltac:(lia) B C)
        as (m & fcm & jm & bm & i & L1 & L2 & L3 & L4 & L5).
      exists (S m), fcm, jm, bm, i. cbn [level_at].
      assert (Hlen : lenZ (pre ++ firstn (Z.to_nat b) vals) = lenZ pre + b)
        by (unfold lenZ; rewrite app_length, firstn_length; lia).
      rewrite Hlen in L1. repeat split; try lia; try assumption.
      * rewrite L3. f_equal. lia.
      * rewrite <- app_assoc, firstn_skipn in L4. assumption.
      * replace (l + Z.of_nat (S m)) with (l + 1 + Z.of_nat m) by lia. assumption.
Qed.

(* ------------------------------------------------------------ the theorem *)
Definition table_ok (counts : list Z) : bool :=
  forallb (fun x => 0 <=? x) counts && (let '(sizes, codes) := gen_codes counts in codes_ok sizes codes).

Theorem mk_coder_ok : forall counts vals, table_ok counts = true ->
  coder_ok (hc_enc (mk_coder counts vals)) (hc_dec (mk_coder counts vals)).
Proof.
  intros counts vals H. unfold table_ok in H. apply andb_prop in H. destruct H as [Hn Hc].
  assert (Hnn : nonneg counts).
  { apply Forall_forall. intros x Hx. rewrite forallb_forall in Hn. apply Z.leb_le, Hn, Hx. }
  unfold mk_coder. rewrite gen_codes_lv in * by assumption. cbn [hc_enc hc_dec].
  intros sym bits r Henc.
  destruct (lookup_level counts vals [] 1 0 sym bits Hnn ltac:(lia) Hc Henc)
    as (m & fcm & jm & bm & i & L1 & L2 & L3 & L4 & L5).
  pose proof (dec_tables_lv counts [] 0 Hnn) as T. cbn [app] in T. change (lenZ []) with 0 in *. rewrite T.
  destruct (level_at_ge _ _ _ _ _ _ _ Hnn (Z.le_refl 0) L1) as [G1 G2].
  replace (Z.to_nat (1 + Z.of_nat m)) with (S m) in L3 by lia. subst bits.
  assert (Hz : (fcm + i) / 2 ^ (Z.of_nat m + 1) = 0).
  { apply Z.div_small. replace (Z.of_nat m + 1) with (1 + Z.of_nat m) by lia. lia. }
  pose proof (decode_level m counts 0 0 fcm jm bm i r vals Hnn (Z.le_refl 0) L1 L2) as D.
  rewrite Hz in D. rewrite D.
  cbn [app] in L4. rewrite L4. reflexivity.
Qed.

(* every symbol of the table has a code word (so the encoder never fails on a listed symbol) *)
Lemma lookup_code_some : forall vals sizes codes sym, In sym vals ->
  (length vals <= length sizes)%nat -> (length vals <= length codes)%nat ->
  exists bits, lookup_code vals sizes codes sym = Some bits.
Proof.
  induction vals as [|v vt IH]; intros sizes codes sym Hin Hs Hc; [contradiction|].
  destruct sizes as [|s st]; [cbn in Hs; lia|]. destruct codes as [|c ct]; [cbn in Hc; lia|].
  cbn [lookup_code]. destruct (v =? sym) eqn:E; [eexists; reflexivity|].
  apply Z.eqb_neq in E. destruct Hin as [->|Hin]; [contradiction|].
  apply IH; cbn [length] in *; try assumption; lia.
Qed.
