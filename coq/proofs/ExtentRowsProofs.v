(* C11 -- rows written by jpeg_read_scanlines stay within the rows requested. *)
From Coq Require Import List ZArith Lia Bool ZifyBool.
From LJT Require Import model.Extent model.ExtentRows proofs.ExtentApiProofs.
Import ListNotations.
Local Open Scope Z_scope.

Definition invs_ok (invs : list (Z * Z)) : Prop := forall have rtg, In (have, rtg) invs -> 0 <= have /\ 0 <= rtg.

Lemma read_call_within invs : invs_ok invs -> forall ctr avail, 0 <= ctr ->
  let '(rows, c') := read_call true invs ctr avail in
  (forall r, In r rows -> ctr <= r < avail) /\ ctr <= c' <= Z.max ctr avail.
Proof.
  induction invs as [|[have rtg] t IH]; intros Hok ctr avail Hc; cbn [read_call].
  - split; [intros r []|lia].
  - destruct (avail <=? ctr) eqn:E; [split; [intros r []|lia]|].
    assert (Hhr : 0 <= have /\ 0 <= rtg) by (apply Hok; left; reflexivity).
    assert (Hok' : invs_ok t) by (intros a b Hin; apply Hok; right; exact Hin).
    set (n := ups_num_rows true have rtg ctr avail).
    assert (Hn : 0 <= n <= avail - ctr) by (unfold n, ups_num_rows; lia).
    specialize (IH Hok' (ctr + n) avail ltac:(lia)).
    destruct (read_call true t (ctr + n) avail) as [rows c'].
    destruct IH as [IH1 IH2]. split; [|lia].
    intros r Hr. apply in_app_iff in Hr. destruct Hr as [Hr | Hr].
    + apply comps_from_In in Hr. lia.
    + apply IH1 in Hr. lia.
Qed.

Theorem read_scanlines_within invs max_lines : invs_ok invs -> 0 <= max_lines ->
  let '(rows, n) := read_scanlines true invs max_lines in
  (forall r, In r rows -> 0 <= r < max_lines) /\ 0 <= n <= max_lines.
Proof.
  intros Hok Hm. unfold read_scanlines. pose proof (read_call_within invs Hok 0 max_lines ltac:(lia)) as H.
  destruct (read_call true invs 0 max_lines) as [rows n]. destruct H as [H1 H2]. split; [exact H1 | lia].
Qed.

(* the clamp without "out_rows_avail -= *out_row_ctr": 3 rows requested at an iMCU-row boundary
   (postponed row group of 2 rows, then the next row group), row index 3 is written *)
Theorem folded_clamp_overruns :
  exists invs max_lines, invs_ok invs /\ 0 <= max_lines /\
    In max_lines (fst (read_scanlines false invs max_lines)) /\ max_lines < snd (read_scanlines false invs max_lines).
Proof.
  exists [(2, 50); (2, 48)], 3. split.
  - intros a b [H|[H|[]]]; inversion H; lia.
  - vm_compute. repeat split; try discriminate. tauto.
Qed.

Theorem crop_loop_within calls : (forall invs, In invs calls -> invs_ok invs) ->
  forall scan y h, 0 <= y <= scan -> forall r, In r (crop_loop true calls scan y h) -> 0 <= r < h.
Proof.
  induction calls as [|invs t IH]; intros Hok scan y h Hs r Hr; cbn [crop_loop] in Hr; [destruct Hr|].
  destruct (y + h <=? scan) eqn:E; [destruct Hr|].
  pose proof (read_scanlines_within invs (y + h - scan) (Hok invs (or_introl eq_refl)) ltac:(lia)) as H.
  destruct (read_scanlines true invs (y + h - scan)) as [rows n]. destruct H as [H1 H2].
  apply in_app_iff in Hr. destruct Hr as [Hr | Hr].
  - apply in_map_iff in Hr. destruct Hr as (q & <- & Hq). apply H1 in Hq. lia.
  - apply (IH (fun i Hi => Hok i (or_intror Hi)) (scan + n) y h ltac:(lia) r Hr).
Qed.

Lemma ex_rows :
  read_scanlines true [(2, 50); (2, 48)] 3 = ([0; 1; 2], 3) /\
  read_scanlines false [(2, 50); (2, 48)] 3 = ([0; 1; 2; 3], 4) /\
  crop_loop true [[(2, 9); (2, 7)]; [(1, 6); (2, 5)]] 14 14 5 = [0; 1; 2; 3; 4].
Proof. repeat split; reflexivity. Qed.
