(* Composition: binarisation round trip (abstract decision source) + QM round trip
   => the arithmetic interval / scan decoder inverts the encoder.  The decoding
   procedures are parametric in the decision source; a QM decoder state that will
   reproduce the remaining decision list simulates the abstract source. *)
From Coq Require Import List ZArith Bool Lia Arith FMapPositive.
From LJT Require Import model.T81Spec model.T81Arith proofs.T81QMProofs proofs.T81ArithProofs
  proofs.T81ArithProofsIdeal proofs.T81ArithProofsBytes proofs.T81ScanProofs.
Import ListNotations.
Local Open Scope Z_scope.

Definition Sim (s1 : dsrc) (s2 : qdec) : Prop := fst (qm_run (map fst s1) s2) = map snd s1.

Lemma sim_step : forall key s1 s2 b s1', Sim s1 s2 -> adecide key s1 = Some (b, s1') ->
  exists s2', qm_decode key s2 = Some (b, s2') /\ Sim s1' s2'.
Proof.
  intros key s1 s2 b s1' H Ha. destruct s1 as [|[k b0] t]; [discriminate|]. cbn [adecide] in Ha.
  destruct (k =? key) eqn:E; [|discriminate]. apply Z.eqb_eq in E. inversion Ha; subst.
  unfold Sim in H. cbn [map fst snd qm_run] in H.
  destruct (qm_decode key s2) as [[b' D']|]; [|discriminate].
  destruct (qm_run (map fst s1') D') as [l Df] eqn:Er. cbn [fst] in H. inversion H; subst.
  exists D'. split; [reflexivity|]. unfold Sim. rewrite Er. reflexivity.
Qed.

Ltac step_sim H S b s' S' :=
  match type of H with
  | context [adecide ?k ?s] =>
      let E := fresh "E" in
      destruct (adecide k s) as [[b s']|] eqn:E; [|discriminate H];
      let s2' := fresh "q" in let Q := fresh "Q" in
      destruct (sim_step _ _ _ _ _ S E) as (s2' & Q & S'); rewrite Q
  end.

Lemma sim_dec_x : forall fuel key m s1 s2 r s1', Sim s1 s2 ->
  dec_x dsrc adecide fuel key m s1 = Some (r, s1') ->
  exists s2', dec_x qdec qm_decode fuel key m s2 = Some (r, s2') /\ Sim s1' s2'.
Proof.
  induction fuel; intros key m s1 s2 r s1' S H; cbn [dec_x] in *; [discriminate|].
  step_sim H S b sa Sa. destruct b.
  - apply (IHfuel _ _ _ _ _ _ Sa H).
  - inversion H; subst. eexists; split; [reflexivity|assumption].
Qed.

Lemma sim_dec_mbits : forall fuel key m v s1 s2 r s1', Sim s1 s2 ->
  dec_mbits dsrc adecide fuel key m v s1 = Some (r, s1') ->
  exists s2', dec_mbits qdec qm_decode fuel key m v s2 = Some (r, s2') /\ Sim s1' s2'.
Proof.
  induction fuel; intros key m v s1 s2 r s1' S H; cbn [dec_mbits] in *; [discriminate|].
  destruct (m <=? 1).
  - inversion H; subst. eexists; split; [reflexivity|assumption].
  - step_sim H S b sa Sa. apply (IHfuel _ _ _ _ _ _ _ Sa H).
Qed.

Lemma sim_dec_dc : forall tb ctx s1 s2 r s1', Sim s1 s2 ->
  dec_dc dsrc adecide tb ctx s1 = Some (r, s1') ->
  exists s2', dec_dc qdec qm_decode tb ctx s2 = Some (r, s2') /\ Sim s1' s2'.
Proof.
  intros tb ctx s1 s2 r s1' S H. unfold dec_dc in *.
  step_sim H S b sa Sa. destruct b; [|inversion H; subst; eexists; split; [reflexivity|assumption]].
  step_sim H Sa sgn sb Sb. step_sim H Sb b2 sc Sc. destruct b2; [|inversion H; subst; eexists; split; [reflexivity|assumption]].
  destruct (dec_x dsrc adecide 17 (dck tb 20) 1 sc) as [[[m k] s4]|] eqn:Ex; [|discriminate].
  destruct (sim_dec_x _ _ _ _ _ _ _ Sc Ex) as (q4 & Q4 & S4). rewrite Q4.
  destruct (dec_mbits dsrc adecide 17 (k + 14) m m s4) as [[sz s5]|] eqn:Em; [|discriminate].
  destruct (sim_dec_mbits _ _ _ _ _ _ _ _ S4 Em) as (q5 & Q5 & S5). rewrite Q5.
  inversion H; subst. eexists; split; [reflexivity|assumption].
Qed.

Lemma sim_dec_ac_coef : forall tb kx k s1 s2 r s1', Sim s1 s2 ->
  dec_ac_coef dsrc adecide tb kx k s1 = Some (r, s1') ->
  exists s2', dec_ac_coef qdec qm_decode tb kx k s2 = Some (r, s2') /\ Sim s1' s2'.
Proof.
  intros tb kx k s1 s2 r s1' S H. unfold dec_ac_coef in *.
  step_sim H S sgn sa Sa. step_sim H Sa b1 sb Sb. destruct b1; [|inversion H; subst; eexists; split; [reflexivity|assumption]].
  step_sim H Sb b2 sc Sc. destruct b2; [|inversion H; subst; eexists; split; [reflexivity|assumption]].
  destruct (dec_x dsrc adecide 17 (ac_xbase tb kx k) 2 sc) as [[[m kk] s4]|] eqn:Ex; [|discriminate].
  destruct (sim_dec_x _ _ _ _ _ _ _ Sc Ex) as (q4 & Q4 & S4). rewrite Q4.
  destruct (dec_mbits dsrc adecide 17 (kk + 14) m m s4) as [[sz s5]|] eqn:Em; [|discriminate].
  destruct (sim_dec_mbits _ _ _ _ _ _ _ _ S4 Em) as (q5 & Q5 & S5). rewrite Q5.
  inversion H; subst. eexists; split; [reflexivity|assumption].
Qed.

Lemma sim_dec_ac_seq : forall n tb kx k az s1 s2 r s1', Sim s1 s2 ->
  dec_ac_seq dsrc adecide n tb kx k az s1 = Some (r, s1') ->
  exists s2', dec_ac_seq qdec qm_decode n tb kx k az s2 = Some (r, s2') /\ Sim s1' s2'.
Proof.
  induction n; intros tb kx k az s1 s2 r s1' HS H; cbn [dec_ac_seq] in *.
  - inversion H; subst. eexists; split; [reflexivity|assumption].
  - assert (G : forall s1a s2a, Sim s1a s2a ->
              match adecide (ack tb (3 * (k - 1)) + 1) s1a with
              | Some (false, s2) =>
                  match n with
                  | O => None
                  | S _ => match dec_ac_seq dsrc adecide n tb kx (k + 1) true s2 with Some (l, s3) => Some (0 :: l, s3) | None => None end
                  end
              | Some (true, s2) =>
                  match dec_ac_coef dsrc adecide tb kx k s2 with
                  | Some (v, s3) => match dec_ac_seq dsrc adecide n tb kx (k + 1) false s3 with Some (l, s4) => Some (v :: l, s4) | None => None end
                  | None => None
                  end
              | None => None
              end = Some (r, s1') ->
              exists s2',
                match qm_decode (ack tb (3 * (k - 1)) + 1) s2a with
                | Some (false, s2) =>
                    match n with
                    | O => None
                    | S _ => match dec_ac_seq qdec qm_decode n tb kx (k + 1) true s2 with Some (l, s3) => Some (0 :: l, s3) | None => None end
                    end
                | Some (true, s2) =>
                    match dec_ac_coef qdec qm_decode tb kx k s2 with
                    | Some (v, s3) => match dec_ac_seq qdec qm_decode n tb kx (k + 1) false s3 with Some (l, s4) => Some (v :: l, s4) | None => None end
                    | None => None
                    end
                | None => None
                end = Some (r, s2') /\ Sim s1' s2').
    { intros s1a s2a Sa Ha. step_sim Ha Sa b s Sb. destruct b.
      - destruct (dec_ac_coef dsrc adecide tb kx k s) as [[v s3]|] eqn:Ec; [|discriminate].
        destruct (sim_dec_ac_coef _ _ _ _ _ _ _ Sb Ec) as (q3 & Q3 & S3). rewrite Q3.
        destruct (dec_ac_seq dsrc adecide n tb kx (k + 1) false s3) as [[l s4]|] eqn:Es; [|discriminate].
        destruct (IHn _ _ _ _ _ _ _ _ S3 Es) as (q4 & Q4 & S4). rewrite Q4.
        inversion Ha; subst. eexists; split; [reflexivity|assumption].
      - destruct n; [discriminate|].
        destruct (dec_ac_seq dsrc adecide (S n) tb kx (k + 1) true s) as [[l s3]|] eqn:Es; [|discriminate].
        destruct (IHn _ _ _ _ _ _ _ _ Sb Es) as (q3 & Q3 & S3). rewrite Q3.
        inversion Ha; subst. eexists; split; [reflexivity|assumption]. }
    destruct az.
    + apply (G _ _ HS H).
    + step_sim H HS b sa Sa. destruct b.
      * inversion H; subst. eexists; split; [reflexivity|assumption].
      * apply (G _ _ Sa H).
Qed.

Lemma sim_dec_ablock : forall tbd l u tba kx pred ctx s1 s2 r s1', Sim s1 s2 ->
  dec_ablock dsrc adecide tbd l u tba kx pred ctx s1 = Some (r, s1') ->
  exists s2', dec_ablock qdec qm_decode tbd l u tba kx pred ctx s2 = Some (r, s2') /\ Sim s1' s2'.
Proof.
  intros tbd l u tba kx pred ctx s1 s2 r s1' S H. unfold dec_ablock in *.
  destruct (dec_dc dsrc adecide tbd ctx s1) as [[diff s3]|] eqn:Ed; [|discriminate].
  destruct (sim_dec_dc _ _ _ _ _ _ S Ed) as (q3 & Q3 & S3). rewrite Q3.
  destruct (dec_ac_seq dsrc adecide 63 tba kx 1 false s3) as [[acs s4]|] eqn:Ea; [|discriminate].
  destruct (sim_dec_ac_seq _ _ _ _ _ _ _ _ _ S3 Ea) as (q4 & Q4 & S4). rewrite Q4.
  inversion H; subst. eexists; split; [reflexivity|assumption].
Qed.

Lemma sim_adec_blocks : forall cs js preds ctxs s1 s2 r s1', Sim s1 s2 ->
  adec_blocks dsrc adecide cs preds ctxs js s1 = Some (r, s1') ->
  exists s2', adec_blocks qdec qm_decode cs preds ctxs js s2 = Some (r, s2') /\ Sim s1' s2'.
Proof.
  intros cs js. induction js as [|j t IH]; intros preds ctxs s1 s2 r s1' S H; cbn [adec_blocks] in *.
  - inversion H; subst. eexists; split; [reflexivity|assumption].
  - destruct (acond_at cs j) as [[[[tbd l] u] tba] kx].
    destruct (dec_ablock dsrc adecide tbd l u tba kx (nth j preds 0) (nth j ctxs 0) s1) as [[[zz ctx'] s3]|] eqn:Eb; [|discriminate].
    destruct (sim_dec_ablock _ _ _ _ _ _ _ _ _ _ _ S Eb) as (q3 & Q3 & S3). rewrite Q3.
    destruct (adec_blocks dsrc adecide cs (set_nth j (hd 0 zz) preds) (set_nth j ctx' ctxs) t s3) as [[l' s4]|] eqn:Er; [|discriminate].
    destruct (IH _ _ _ _ _ _ S3 Er) as (q4 & Q4 & S4). rewrite Q4.
    inversion H; subst. eexists; split; [reflexivity|assumption].
Qed.

(* one restart interval: Annex D + F.1.4 encoder, then decoder *)
Theorem adec_enc_interval : forall cs n blocks, ablocks_ok (repeat 0 n) blocks ->
  adec_interval cs n (map fst blocks) (aenc_interval cs n blocks) = Some blocks.
Proof.
  intros cs n blocks Hok. unfold adec_interval, aenc_interval.
  set (ds := aenc_blocks cs (repeat 0 n) (repeat 0 n) blocks).
  pose proof (enc_dec_ablocks cs blocks (repeat 0 n) (repeat 0 n) [] Hok) as A. rewrite app_nil_r in A. fold ds in A.
  assert (S : Sim ds (qm_init_dec (qm_encode_all ds))) by (unfold Sim; apply qm_roundtrip).
  destruct (sim_adec_blocks _ _ _ _ _ _ _ _ S A) as (q & Q & _). rewrite Q. reflexivity.
Qed.

(* a whole scan, any restart interval (also one not dividing the block count) *)
Lemma adec_enc_intervals : forall cs n chunks0, Forall (ablocks_ok (repeat 0 n)) chunks0 ->
  adec_intervals cs n (map (map fst) chunks0) (map (aenc_interval cs n) chunks0) = Some (concat chunks0).
Proof.
  intros cs n. induction chunks0 as [|c t IH]; intros H; [reflexivity|].
  inversion H as [|x y Hc Ht]; subst. cbn [map adec_intervals concat].
  rewrite (adec_enc_interval cs n c Hc). rewrite (IH Ht). reflexivity.
Qed.

Theorem adec_enc_scan : forall cs n per blocks, Forall (ablocks_ok (repeat 0 n)) (intervals per blocks) ->
  adec_intervals cs n (intervals per (map fst blocks)) (map (aenc_interval cs n) (intervals per blocks)) = Some blocks.
Proof.
  intros cs n per blocks H. rewrite intervals_map. rewrite (adec_enc_intervals cs n _ H).
  rewrite concat_intervals. reflexivity.
Qed.
