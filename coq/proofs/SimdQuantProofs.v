(* C05 -- the SIMD quantiser equals the C quantiser for every divisor for which
   compute_reciprocal() returns 1, and jcdctmgr.c falls back to C otherwise. *)
From Coq Require Import List ZArith Lia Bool ZifyBool.
From LJT Require Import lib.Sweep lib.Words gen.GenSimdConst model.SimdQuant.
Import ListNotations.
Local Open Scope Z_scope.

(* ---- finite facts about the parameter computation, all divisors 1..65535 ---- *)
Definition params_ok (d : Z) : bool :=
  let q := compute_reciprocal d in
  (flss d =? Z.log2 d + 1) &&
  ((q_ret q =? 0) && ((d =? 1) || (d =? 2)) ||
   (q_ret q =? 1) && negb ((d =? 1) || (d =? 2)) &&
   (17 <=? q_r q) && (q_r q <=? 31) && (0 <? q_fq q) && (q_fq q <? 65536) && (0 <=? q_c q) && (q_c q <=? 32768) &&
   (q_c q * q_fq q <? 2 ^ q_r q) &&
   (q_recip q =? q_fq q) && (q_corr q =? q_c q) && (q_scale q =? 2 ^ (32 - q_r q)) && (q_shift q =? q_r q - 16)).
Lemma params_sweep : sweep params_ok 1 65536 = true.
Proof. vm_compute. reflexivity. Qed.
Lemma lxor_ones_sweep : sweep (fun p => Z.lxor p 65535 =? 65535 - p) 0 65536 = true.
Proof. vm_compute. reflexivity. Qed.
Lemma lxor_ones p : 0 <= p < 65536 -> Z.lxor p 65535 = 65535 - p.
Proof. intros H. apply Z.eqb_eq. exact (sweep_sound _ _ _ lxor_ones_sweep p H). Qed.

(* ---- algebra, any parameters within the bounds ---- *)
Lemma pow2_split r : 17 <= r <= 31 -> 2 ^ (32 - r) * 2 ^ (r - 16) = 65536 /\ 2 ^ 16 * 2 ^ (r - 16) = 2 ^ r /\
  2 <= 2 ^ (32 - r) <= 32768 /\ 2 <= 2 ^ (r - 16).
Proof.
  intros H. rewrite <- !Z.pow_add_r by lia. replace (32 - r + (r - 16)) with 16 by lia.
  replace (16 + (r - 16)) with r by lia. split; [reflexivity|]. split; [reflexivity|].
  assert (2 ^ 1 <= 2 ^ (32 - r)) by (apply Z.pow_le_mono_r; lia).
  assert (2 ^ (32 - r) <= 2 ^ 15) by (apply Z.pow_le_mono_r; lia).
  assert (2 ^ 1 <= 2 ^ (r - 16)) by (apply Z.pow_le_mono_r; lia).
  change (2 ^ 1) with 2 in *. change (2 ^ 15) with 32768 in *. lia.
Qed.

(* the two pmulhuw steps are one division by 2^r *)
Lemma two_step fq r t : 17 <= r <= 31 -> 0 <= t < 65536 -> 0 < fq < 65536 ->
  pmulhuw (pmulhuw t fq) (2 ^ (32 - r)) = t * fq / 2 ^ r /\ 0 <= t * fq / 2 ^ r < 32768.
Proof.
  intros Hr Ht Hf. destruct (pow2_split r Hr) as (E1 & E2 & B1 & B2).
  unfold pmulhuw. change 65536 with (2 ^ 16) at 1.
  set (p1 := t * fq / 2 ^ 16).
  assert (Hdiv : p1 * 2 ^ (32 - r) / 65536 = p1 / 2 ^ (r - 16)).
  { rewrite <- E1. rewrite (Z.mul_comm (2 ^ (32 - r)) (2 ^ (r - 16))).
    rewrite Z.div_mul_cancel_r by lia. reflexivity. }
  rewrite Hdiv. unfold p1. rewrite Z.div_div by lia. rewrite E2. split; [reflexivity|].
  assert (0 <= t * fq) by nia.
  split; [apply Z.div_pos; lia|].
  apply Z.div_lt_upper_bound; [lia|].
  assert (t * fq < 65536 * 65536) by nia.
  assert (2 ^ 17 <= 2 ^ r) by (apply Z.pow_le_mono_r; lia). change (2 ^ 17) with 131072 in *. nia.
Qed.

Section Generic.
Variables fq c r : Z.
Hypothesis Hr : 17 <= r <= 31.
Hypothesis Hf : 0 < fq < 65536.
Hypothesis Hc : 0 <= c <= 32768.
Hypothesis Hz : c * fq < 2 ^ r.

Lemma c_quantize_val x : -32767 <= x <= 32767 ->
  c_quantize fq c (r - 16) x = (if x <? 0 then -1 else 1) * ((Z.abs x + c) * fq / 2 ^ r).
Proof.
  intros Hx. unfold c_quantize. rewrite (s16_small (r - 16)) by lia. cbv zeta.
  replace (r - 16 + 16) with r by lia.
  destruct (two_step fq r (Z.abs x + c) Hr ltac:(lia) Hf) as [_ Hq].
  assert (Hp : 0 <= (Z.abs x + c) * fq < 4294967296) by nia.
  destruct (x <? 0) eqn:Hs.
  - rewrite (s16_w16 (- x)) by lia. replace (- x) with (Z.abs x) by lia.
    rewrite (w32_small (Z.abs x + c)) by lia. rewrite (w32_small ((Z.abs x + c) * fq)) by lia.
    rewrite (s16_w16 ((Z.abs x + c) * fq / 2 ^ r)) by lia.
    rewrite (s16_w16 (- ((Z.abs x + c) * fq / 2 ^ r))) by lia. lia.
  - replace x with (Z.abs x) at 1 by lia.
    rewrite (w32_small (Z.abs x + c)) by lia. rewrite (w32_small ((Z.abs x + c) * fq)) by lia.
    rewrite (s16_w16 ((Z.abs x + c) * fq / 2 ^ r)) by lia. lia.
Qed.

Lemma psraw15 x : -32768 <= x <= 32767 -> psraw (w16 x) 15 = if x <? 0 then 65535 else 0.
Proof.
  intros Hx. unfold psraw. rewrite s16_w16 by lia. change (2 ^ 15) with 32768.
  destruct (x <? 0) eqn:Hs.
  - assert (E : x / 32768 = -1) by (Z.div_mod_to_equations; lia). rewrite E. reflexivity.
  - rewrite Z.div_small by lia. reflexivity.
Qed.

Lemma asm_sse2_val x : -32767 <= x <= 32767 ->
  s16 (asm_quantize_sse2 fq c (2 ^ (32 - r)) (w16 x)) = (if x <? 0 then -1 else 1) * ((Z.abs x + c) * fq / 2 ^ r).
Proof.
  intros Hx. unfold asm_quantize_sse2. rewrite psraw15 by lia.
  destruct (two_step fq r (Z.abs x + c) Hr ltac:(lia) Hf) as [E Hq].
  destruct (x <? 0) eqn:Hs.
  - assert (Ha : psubw (pxor16 (w16 x) 65535) 65535 = Z.abs x).
    { unfold pxor16, psubw. rewrite lxor_ones by apply w16_range.
      unfold w16 at 2. replace x with (x + 65536 + (-1) * 65536) at 1 by lia. rewrite Z.mod_add by lia.
      rewrite Z.mod_small by lia. unfold w16.
      replace (65535 - (x + 65536) - 65535) with (- x + (-1) * 65536) by lia. rewrite Z.mod_add by lia.
      rewrite Z.mod_small by lia. lia. }
    rewrite Ha. unfold paddw at 1. rewrite (w16_small (Z.abs x + c)) by lia. rewrite E.
    set (q := (Z.abs x + c) * fq / 2 ^ r) in *.
    unfold pxor16, psubw. rewrite lxor_ones by lia.
    replace (65535 - q - 65535) with (- q) by lia. rewrite s16_w16 by lia. lia.
  - assert (Ha : psubw (pxor16 (w16 x) 0) 0 = Z.abs x).
    { unfold pxor16, psubw. rewrite Z.lxor_0_r, Z.sub_0_r. unfold w16. rewrite Z.mod_mod by lia.
      rewrite Z.mod_small by lia. lia. }
    rewrite Ha. unfold paddw at 1. rewrite (w16_small (Z.abs x + c)) by lia. rewrite E.
    set (q := (Z.abs x + c) * fq / 2 ^ r) in *.
    unfold pxor16, psubw. rewrite Z.lxor_0_r, Z.sub_0_r. rewrite s16_w16 by lia. lia.
Qed.

Lemma asm_avx2_val x : -32767 <= x <= 32767 ->
  s16 (asm_quantize_avx2 fq c (2 ^ (32 - r)) (w16 x)) = (if x <? 0 then -1 else 1) * ((Z.abs x + c) * fq / 2 ^ r).
Proof.
  intros Hx. unfold asm_quantize_avx2, pabsw. rewrite s16_w16 by lia. rewrite (w16_small (Z.abs x)) by lia.
  unfold paddw. rewrite (w16_small (Z.abs x + c)) by lia.
  destruct (two_step fq r (Z.abs x + c) Hr ltac:(lia) Hf) as [E Hq]. rewrite E.
  set (q := (Z.abs x + c) * fq / 2 ^ r) in *.
  unfold psignw. rewrite s16_w16 by lia.
  destruct (x <? 0) eqn:Hs.
  - rewrite s16_w16 by lia. lia.
  - destruct (x =? 0) eqn:H0.
    + assert (x = 0) by lia. subst x. unfold q. cbn [Z.abs]. rewrite Z.add_0_l. rewrite Z.div_small by nia. reflexivity.
    + rewrite s16_small by lia. lia.
Qed.
End Generic.

Theorem simd_quant_eq_all d x : 1 <= d <= 65535 -> -32767 <= x <= 32767 ->
  let q := compute_reciprocal d in
  (q_ret q = 0 <-> d = 1 \/ d = 2) /\
  (q_ret q = 1 ->
     s16 (asm_quantize_sse2 (q_recip q) (q_corr q) (q_scale q) (w16 x)) = c_quantize (q_recip q) (q_corr q) (q_shift q) x /\
     s16 (asm_quantize_avx2 (q_recip q) (q_corr q) (q_scale q) (w16 x)) = c_quantize (q_recip q) (q_corr q) (q_shift q) x).
Proof.
  intros Hd Hx q.
  pose proof (sweep_sound _ _ _ params_sweep d ltac:(lia)) as P. unfold params_ok in P. fold q in P.
  apply andb_prop in P. destruct P as [_ P].
  apply orb_prop in P. destruct P as [P|P].
  - apply andb_prop in P. destruct P as [P1 P2]. split; [lia|]. intros; lia.
  - repeat (apply andb_prop in P; let H := fresh "P" in destruct P as [P H]).
    split; [lia|]. intros _.
    apply Z.eqb_eq in P0, P1, P2, P3.
    rewrite P0, P1, P2, P3.
    rewrite c_quantize_val, asm_sse2_val, asm_avx2_val by lia. split; reflexivity.
Qed.

(* the gate is necessary: with the tables compute_reciprocal(2) produces (scale wraps to 0)
   the SIMD dataflow would differ from the C quantiser *)
Example quant_gate_needed :
  let q := compute_reciprocal 2 in
  q_ret q = 0 /\ c_quantize (q_recip q) (q_corr q) (q_shift q) 5 = 3 /\
  s16 (asm_quantize_sse2 (q_recip q) (q_corr q) (q_scale q) (w16 5)) = 0.
Proof. vm_compute. repeat split; reflexivity. Qed.
(* outside the proven domain: x = -32768 (never produced by the forward DCT of 8-bit samples):
   the C code negates a short -32768 (which stays -32768) and then differs from the SIMD lanes *)
Example quant_int16_min_differs :
  let q := compute_reciprocal 8 in
  q_ret q = 1 /\ c_quantize (q_recip q) (q_corr q) (q_shift q) (-32768) = -12288 /\
  s16 (asm_quantize_sse2 (q_recip q) (q_corr q) (q_scale q) (w16 (-32768))) = -4096 /\
  s16 (asm_quantize_avx2 (q_recip q) (q_corr q) (q_scale q) (w16 (-32768))) = -4096.
Proof. vm_compute. repeat split; reflexivity. Qed.
Example quant_nonvacuous :
  let q := compute_reciprocal (16 * 8) in
  q_ret q = 1 /\ c_quantize (q_recip q) (q_corr q) (q_shift q) (-1000) = -8 /\
  s16 (asm_quantize_avx2 (q_recip q) (q_corr q) (q_scale q) (w16 (-1000))) = -8 /\
  c_quantize (q_recip q) (q_corr q) (q_shift q) 64 = 1 /\ c_quantize (q_recip q) (q_corr q) (q_shift q) 63 = 0.
Proof. vm_compute. repeat split; reflexivity. Qed.

Theorem convsamp_eq s : 0 <= s <= 255 -> s16 (asm_convsamp s) = c_convsamp s.
Proof.
  intros H. unfold asm_convsamp, c_convsamp, paddw, psllw. change (w16 (65535 * 2 ^ 7)) with 65408.
  replace (w16 (s + 65408)) with (w16 (s - 128)).
  - apply s16_w16. lia.
  - unfold w16. replace (s + 65408) with (s - 128 + 1 * 65536) by lia. rewrite Z.mod_add by lia. reflexivity.
Qed.

(* the fallback exists at both divisor loops of start_pass_fdctmgr (read by the translator) *)
Lemma quant_fallback_present : quant_fallback_sites = 2.
Proof. reflexivity. Qed.
