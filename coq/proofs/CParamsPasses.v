(* C17: pass sequencing of the compression master (prepare_for_pass / finish_pass_master driven by
   jpeg_finish_compress): for every scan count, optimisation setting and set of DC-refinement scans
   the loop terminates, every scan's data is written exactly once, in script order, each directly
   after its scan header, and the last thing written is EOI. *)
From Coq Require Import List ZArith Bool Lia ZifyBool.
From LJT Require Import lib.Sweep model.Huff gen.GenParams model.CParams.
Import ListNotations.
Local Open Scope Z_scope.

Fixpoint scan_data (ev : list event) : list Z :=
  match ev with
  | [] => []
  | EvScanData k :: r => k :: scan_data r
  | _ :: r => scan_data r
  end.

(* every EvScanData k is immediately preceded by EvScanHeader k *)
Fixpoint headed (prev : option event) (ev : list event) : Prop :=
  match ev with
  | [] => True
  | e :: r => (match e with EvScanData k => prev = Some (EvScanHeader k) | _ => True end) /\ headed (Some e) r
  end.

Lemma last_app' {A} (l1 l2 : list A) d : l2 <> [] -> last (l1 ++ l2) d = last l2 d.
Proof.
  intro H. induction l1 as [|x l1 IH]; [reflexivity|]. cbn [app].
  destruct (l1 ++ l2) eqn:E; [apply app_eq_nil in E; destruct E; contradiction|]. cbn [last]. exact IH.
Qed.

Lemma scan_data_app a b : scan_data (a ++ b) = scan_data a ++ scan_data b.
Proof. induction a as [|e a IH]; cbn; [reflexivity|]. destruct e; cbn; rewrite ?IH; reflexivity. Qed.

Lemma headed_app p a b : headed p a -> headed (match a with [] => p | _ => Some (last a EvSOI) end) b -> headed p (a ++ b).
Proof.
  revert p. induction a as [|e a IH]; intros p Ha Hb; cbn in *; [exact Hb|].
  destruct Ha as [H1 H2]. split; [exact H1|]. apply IH; [exact H2|].
  destruct a; [exact Hb|exact Hb].
Qed.

Definition inv (optimize : bool) (n : Z) (m : mstate) : Prop :=
  0 <= m_scan m <= n /\
  if optimize then
    match m_pass_type m with
    | main_pass => m_scan m = 0 /\ m_pass m = 0
    | huff_opt_pass => m_pass m = 2 * m_scan m /\ 1 <= m_scan m
    | output_pass => m_pass m = 2 * m_scan m + 1 /\ m_scan m < n
    end
  else
    m_pass m = m_scan m /\
    match m_pass_type m with main_pass => m_scan m = 0 | output_pass => 1 <= m_scan m | huff_opt_pass => False end.

Lemma zrange_cons lo k : zrange lo (S k) = lo :: zrange (lo + 1) k.
Proof. reflexivity. Qed.

Lemma run_passes_spec optimize dcr n : 1 <= n ->
  forall fuel m, inv optimize n m ->
    (if optimize then 2 * n else n) - m_pass m < Z.of_nat fuel ->
    exists ev, run_passes fuel optimize dcr (if optimize then 2 * n else n) m = Some ev /\
               scan_data ev = zrange (m_scan m) (Z.to_nat (n - m_scan m)) /\
               last ev EvSOI = EvEOI /\ ev <> [] /\
               (forall p, headed p ev).
Proof.
  intros Hn fuel. induction fuel as [|fuel IH]; intros m [Hs Hi] Hf.
  - exfalso. destruct optimize; destruct (m_pass_type m); lia.
  - cbn [run_passes].
    destruct (m_pass m >=? (if optimize then 2 * n else n)) eqn:Eend.
    + exists [EvEOI]. assert (m_scan m = n) by (destruct optimize; destruct (m_pass_type m); lia).
      replace (n - m_scan m) with 0 by lia. cbn. repeat split; try discriminate; auto.
    + assert (Hlt : m_scan m < n) by (destruct optimize; destruct (m_pass_type m); lia).
      assert (Hz : zrange (m_scan m) (Z.to_nat (n - m_scan m)) = m_scan m :: zrange (m_scan m + 1) (Z.to_nat (n - (m_scan m + 1)))).
      { replace (Z.to_nat (n - m_scan m)) with (S (Z.to_nat (n - (m_scan m + 1)))) by lia. apply zrange_cons. }
      set (hdr := (if m_scan m =? 0 then [EvFrameHeader] else []) ++ [EvScanHeader (m_scan m)]).
      assert (Hhdr : scan_data (hdr ++ [EvScanData (m_scan m)]) = [m_scan m] /\
                     (forall p, headed p (hdr ++ [EvScanData (m_scan m)])) /\
                     last (hdr ++ [EvScanData (m_scan m)]) EvSOI = EvScanData (m_scan m)).
      { unfold hdr. destruct (m_scan m =? 0); cbn; repeat split; auto. }
      destruct Hhdr as [Hd1 [Hd2 Hd3]].
      (* the data-output step, shared by three branches *)
      assert (Hout : forall m', inv optimize n m' -> m_scan m' = m_scan m + 1 -> m_pass m < m_pass m' ->
                exists ev, match run_passes fuel optimize dcr (if optimize then 2 * n else n) m' with
                           | Some r => Some ((hdr ++ [EvScanData (m_scan m)]) ++ r) | None => None end = Some ev /\
                           scan_data ev = zrange (m_scan m) (Z.to_nat (n - m_scan m)) /\
                           last ev EvSOI = EvEOI /\ ev <> [] /\ (forall p, headed p ev)).
      { intros m' Hinv' Hsc Hps. destruct (IH m' Hinv' ltac:(lia)) as [r [Er [Dr [Lr [Nr Hr]]]]].
        rewrite Er. eexists. split; [reflexivity|]. split; [|split; [|split]].
        - rewrite scan_data_app, Hd1, Dr, Hsc, Hz. reflexivity.
        - rewrite last_app' by exact Nr. exact Lr.
        - intro E. apply app_eq_nil in E. destruct E as [E _]. apply app_eq_nil in E. destruct E as [_ E]. discriminate.
        - intro p. apply headed_app; [apply Hd2|]. apply Hr. }
      unfold one_pass. fold hdr.
      destruct optimize; destruct (m_pass_type m) eqn:Et; cbn beta iota in Hi.
      * (* optimize, main: gather *)
        set (m' := {| m_pass_type := output_pass; m_scan := m_scan m; m_pass := m_pass m + 1 |}).
        destruct (IH m' ltac:(unfold inv, m'; cbn [m_pass_type m_scan m_pass]; lia) ltac:(unfold m'; cbn [m_pass_type m_scan m_pass]; lia)) as [r [Er [Dr [Lr [Nr Hr]]]]].
        rewrite Er. eexists. split; [reflexivity|]. cbn [app scan_data]. unfold m' in Dr; cbn [m_pass_type m_scan m_pass] in Dr.
        split; [exact Dr|]. split; [destruct r; [congruence|exact Lr]|]. split; [discriminate|].
        intro p. cbn. split; [exact I|apply Hr].
      * (* optimize, huff_opt *)
        destruct (dcr (m_scan m)).
        -- apply Hout; [unfold inv; cbn [m_pass_type m_scan m_pass]; lia|reflexivity|cbn [m_pass_type m_scan m_pass]; lia].
        -- set (m' := {| m_pass_type := output_pass; m_scan := m_scan m; m_pass := m_pass m + 1 |}).
           destruct (IH m' ltac:(unfold inv, m'; cbn [m_pass_type m_scan m_pass]; lia) ltac:(unfold m'; cbn [m_pass_type m_scan m_pass]; lia)) as [r [Er [Dr [Lr [Nr Hr]]]]].
           rewrite Er. eexists. split; [reflexivity|]. cbn [app scan_data]. unfold m' in Dr; cbn [m_pass_type m_scan m_pass] in Dr.
           split; [exact Dr|]. split; [destruct r; [congruence|exact Lr]|]. split; [discriminate|].
           intro p. cbn. split; [exact I|apply Hr].
      * (* optimize, output *)
        apply Hout; [unfold inv; cbn [m_pass_type m_scan m_pass]; lia|reflexivity|cbn [m_pass_type m_scan m_pass]; lia].
      * (* no optimisation, main *)
        apply Hout; [unfold inv; cbn [m_pass_type m_scan m_pass]; lia|reflexivity|cbn [m_pass_type m_scan m_pass]; lia].
      * exfalso. lia.
      * apply Hout; [unfold inv; cbn [m_pass_type m_scan m_pass]; lia|reflexivity|cbn [m_pass_type m_scan m_pass]; lia].
Qed.

Theorem stream_complete_partial_lemma : forall n optimize dcr, 1 <= n ->
  exists ev, run_master n optimize dcr = Some ev /\
             hd EvEOI ev = EvSOI /\ last ev EvSOI = EvEOI /\
             scan_data ev = zrange 0 (Z.to_nat n) /\ headed None ev.
Proof.
  intros n optimize dcr Hn. unfold run_master. cbv zeta.
  set (m0 := {| m_pass_type := main_pass; m_scan := 0; m_pass := 0 |}).
  destruct (run_passes_spec optimize dcr n Hn (Z.to_nat (if optimize then n * 2 else n) + 1) m0) as [ev [E [D [L [N H]]]]].
  - unfold inv, m0. cbn [m_pass_type m_scan m_pass]. destruct optimize; lia.
  - unfold m0. cbn [m_pass_type m_scan m_pass]. destruct optimize; lia.
  - replace (if optimize then n * 2 else n) with (if optimize then 2 * n else n) by (destruct optimize; lia).
    replace (if optimize then n * 2 else n) with (if optimize then 2 * n else n) in E by (destruct optimize; lia).
    rewrite E. eexists. split; [reflexivity|]. cbn [hd]. split; [reflexivity|].
    split; [destruct ev; [congruence|exact L]|]. split.
    + cbn [scan_data]. rewrite D. unfold m0. cbn [m_scan]. replace (n - 0) with n by lia. reflexivity.
    + cbn. split; [exact I|apply H].
Qed.
