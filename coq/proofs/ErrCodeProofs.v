(* C15 -- error-code ownership: tj3GetErrorCode of an instance depends only on that instance's own most recent failing call *)
From Coq Require Import List ZArith Bool Arith Lia String.
From LJT Require Import model.Threads model.ErrState model.ErrCode model.Globals gen.GenGlobals proofs.ThreadsProofs proofs.ErrStateProofs.
Import ListNotations.
Local Open Scope Z_scope.

Lemma crun_app tr1 tr2 s :
  crun (tr1 ++ tr2) s = let '(s1, r1) := crun tr1 s in let '(s2, r2) := crun tr2 s1 in (s2, (r1 ++ r2)%list).
Proof.
  revert s. induction tr1 as [|o tr1 IH]; intros s; cbn [app crun].
  - destruct (crun tr2 s). reflexivity.
  - destruct (cstep o s) as [s1 r]. rewrite IH. destruct (crun tr1 s1) as [s2 r1]. destruct (crun tr2 s2) as [s3 r2].
    destruct r; reflexivity.
Qed.

Lemma cuntouched i : forall mid s,
  forallb (fun o => negb (ctouches i o)) mid = true -> fst (crun mid s) i = s i.
Proof.
  induction mid as [|o mid IH]; intros s H; [reflexivity|].
  cbn [forallb] in H. apply andb_true_iff in H. destruct H as [Ho Hm].
  cbn [crun]. destruct (cstep o s) as [s1 r] eqn:E. specialize (IH s1 Hm).
  destruct (crun mid s1) as [s2 rs]. cbn [fst] in *. rewrite IH.
  apply negb_true_iff in Ho.
  destruct o; cbn in E; inversion E; subst; try reflexivity; cbn [ctouches] in Ho; unfold wupd; rewrite Nat.eqb_sym, Ho; reflexivity.
Qed.

Theorem errcode_ownership_proof :
  forall pre i w mid s,
    forallb (fun o => negb (ctouches i o)) mid = true ->
    exists rs, snd (crun (pre ++ [CFail i w] ++ mid ++ [CCode i]) s) = (rs ++ [code_of w])%list.
Proof.
  intros pre i w mid s Hmid.
  rewrite crun_app. destruct (crun pre s) as [s1 r1].
  change ([CFail i w] ++ mid ++ [CCode i])%list with (CFail i w :: (mid ++ [CCode i]))%list.
  cbn [crun cstep]. rewrite crun_app.
  pose proof (cuntouched i mid (wupd s1 i w) Hmid) as Hu.
  destruct (crun mid (wupd s1 i w)) as [s3 r2]. cbn [fst] in Hu.
  cbn [crun cstep snd]. exists (r1 ++ r2)%list. rewrite Hu. unfold wupd. rewrite Nat.eqb_refl. rewrite app_assoc. reflexivity.
Qed.

(* ---- in the thread model: the steps touch only Inst i 0 of their own instance *)
Lemma cop_step_own t o l : In l (footprint (cop_step o)) -> In l (own_locs t (cop_inst o)).
Proof.
  unfold footprint, own_locs. destruct o; cbn; intros H; repeat (destruct H as [<-|H]; [auto 12|]); try contradiction; auto 12.
Qed.

Lemma nth_cprog : forall ths k, nth k (cprog ths) [] = map cop_step (nth k ths []).
Proof. induction ths as [|th r IH]; intros [|k]; cbn [cprog nth]; auto. Qed.

Definition cinst_exclusive (ths : list (list cop)) : Prop :=
  forall t u a b i, t <> u -> In a (nth t ths []) -> In b (nth u ths []) -> cop_inst a = Some i -> cop_inst b = Some i -> False.

Theorem errcode_threads_proof :
  forall ths, cinst_exclusive ths ->
  forall tr, is_interleaving (cprog ths) tr ->
  forall s0, solo_equivalent (cprog ths) tr s0 /\ conflict_free (cprog ths).
Proof.
  intros ths Hex tr Htr s0. apply noninterference_all; [| |exact Htr].
  - intros th st l Hth Hst Hl.
    apply In_nth with (d := []) in Hth. destruct Hth as [k [Hk <-]].
    rewrite nth_cprog in Hst. apply in_map_iff in Hst. destruct Hst as [o [<- _]].
    apply (own_locs_private 0 (cop_inst o)). apply cop_step_own. unfold footprint. apply in_or_app. right. exact Hl.
  - intros t u a b l Hne Ha Hb Hla Hlb.
    rewrite nth_cprog in Ha, Hb.
    apply in_map_iff in Ha. destruct Ha as [oa [<- Hoa]].
    apply in_map_iff in Hb. destruct Hb as [ob [<- Hob]].
    apply (cop_step_own t) in Hla. apply (cop_step_own u) in Hlb.
    exfalso. apply (own_locs_disjoint t u (cop_inst oa) (cop_inst ob) l Hne); auto.
    intros k E1 E2. apply (Hex t u oa ob k Hne Hoa Hob E1 E2).
Qed.

(* ---- extracted finite-map replay = thread-model replay; for one thread = crun *)
Theorem lcreplay_correct : forall tr ls s, (forall l, lget ls l = s l) -> lcreplay tr ls = creplay tr s.
Proof.
  induction tr as [|[t o] r IH]; intros ls s H; [reflexivity|].
  cbn [lcreplay creplay].
  assert (Hobs : map (lget ls) (reads (cop_step o)) = observe (cop_step o) s) by (unfold observe; apply map_ext; exact H).
  rewrite Hobs. f_equal. apply IH. intros l. rewrite lexec_correct. unfold exec, observe.
  replace (map (lget ls) (reads (cop_step o))) with (map s (reads (cop_step o))) by (symmetry; exact Hobs).
  destruct (mem l (writes (cop_step o))); [reflexivity | apply H].
Qed.

Definition w_rel (s : state) (w : wstate) : Prop := forall i, s (Inst i 0) = (if w i then 1 else 0).

Lemma creplay_is_crun t : forall tr s w, w_rel s w -> creplay (map (pair t) tr) s = snd (crun tr w).
Proof.
  induction tr as [|o tr IH]; intros s w Hr; [reflexivity|].
  cbn [map creplay crun].
  assert (Hrel : w_rel (exec (cop_step o) s) (fst (cstep o w))).
  { intros j. destruct o; cbn [cstep fst cop_step]; unfold exec, mem; cbn [writes existsb loc_eqb sem]; unfold wupd;
      rewrite ?andb_true_r, ?orb_false_r; try (destruct (Nat.eqb j i) eqn:E; [|apply Hr]); try apply Hr; try reflexivity. }
  destruct (cstep o w) as [w1 r] eqn:E. cbn [fst] in Hrel.
  specialize (IH _ _ Hrel). destruct (crun tr w1) as [w2 rs]. cbn [snd] in *.
  destruct o; cbn in E; inversion E; subst; cbn [is_cquery app]; try reflexivity.
  f_equal. unfold observe. cbn [cop_step reads map decode_code]. rewrite (Hr i). unfold code_of. destruct (w1 i); reflexivity.
Qed.

(* ---- tie to the source: generated write sites of jerr.warning (gen/GenGlobals.v: errstate_writes) *)
Local Open Scope string_scope.
Definition is_w (w : string * string * string) : bool := String.eqb (w_field w) "warning".

Definition errcode_source_b : bool :=
  (* the query functions write nothing (tj3GetErrorCode in particular) *)
  forallb (fun w => negb (existsb (String.eqb (w_fn w)) query_functions)) errstate_writes
  (* a fatal libjpeg error clears the flag, a libjpeg warning sets it *)
  && existsb (fun w => String.eqb (w_fn w) "my_error_exit" && is_w w && String.eqb (w_how w) "0") errstate_writes
  && existsb (fun w => String.eqb (w_fn w) "my_emit_message" && is_w w && String.eqb (w_how w) "1") errstate_writes
  (* the flag only receives the literals 0/1, and 1 only in my_emit_message and the "no ICC profile" warning of tj3GetICCProfile *)
  && forallb (fun w => negb (is_w w) || String.eqb (w_how w) "0" || String.eqb (w_how w) "1") errstate_writes
  && forallb (fun w => negb (is_w w && String.eqb (w_how w) "1")
                       || String.eqb (w_fn w) "my_emit_message" || String.eqb (w_fn w) "tj3GetICCProfile") errstate_writes
  (* every function that records a TurboJPEG-level failure (raises isInstanceError) also assigns the warning flag *)
  && forallb (fun w => negb (String.eqb (w_field w) "isInstanceError" && String.eqb (w_how w) "1")
                       || String.eqb (w_fn w) "set_instance_error"
                       || existsb (fun v => String.eqb (w_fn v) (w_fn w) && is_w v) errstate_writes) errstate_writes
  (* every function that resets isInstanceError at entry (GET_*INSTANCE) resets the warning flag too *)
  && forallb (fun w => negb (String.eqb (w_field w) "isInstanceError" && String.eqb (w_how w) "0")
                       || existsb (fun v => String.eqb (w_fn v) (w_fn w) && is_w v && String.eqb (w_how v) "0") errstate_writes) errstate_writes.

Lemma errcode_source_check : errcode_source_b = true.
Proof. vm_compute. reflexivity. Qed.
