(* C11 -- the model's access trace of every API call stays inside the documented extent. *)
From Coq Require Import List ZArith Lia Bool ZifyBool.
From LJT Require Import model.Extent model.ExtentApi proofs.ExtentProofs proofs.ExtentYuvProofs.
Import ListNotations.
Local Open Scope Z_scope.

Lemma comps_from_In s n c : In c (comps_from s n) <-> s <= c < s + Z.of_nat n.
Proof.
  revert s. induction n as [|n IH]; intros s; cbn [comps_from In]; [lia|].
  rewrite IH. lia.
Qed.

Lemma ncomp_cases ss : ncomp ss = 1 \/ ncomp ss = 3.
Proof. unfold ncomp. destruct (ss =? 3); lia. Qed.

Lemma packed_allowed k w pitch h ps ssize bu a :
  1 <= w -> 1 <= h -> 1 <= ps -> 1 <= ssize -> pitch_ok w pitch ps ->
  In a (packed_accesses k w pitch h ps ssize bu) -> in_packed k w pitch h ps ssize a.
Proof.
  intros Hw Hh Hps Hss Hp Ha.
  destruct (packed_extent_thm k w pitch h ps ssize bu Hw Hh Hps Hss Hp) as (H1 & _).
  destruct (H1 a Ha) as (i & Hi & Hb & Hk & Ho & Hl).
  unfold in_packed. repeat split; try assumption. exists i. rewrite Ho, Hl. lia.
Qed.

Lemma all_planes_allowed k width height ss strides (f : Z -> list access) a :
  0 <= ss <= 6 ->
  (forall c a', ss_valid ss c -> In a' (f c) ->
     in_plane c (plane_w c width ss) (plane_h c height ss)
              (eff_stride (stride_of strides c) (plane_w c width ss)) k a') ->
  In a (all_planes ss f) -> in_planes k width height ss strides a.
Proof.
  intros Hss Hf Ha. unfold all_planes in Ha. apply in_flat_map in Ha. destruct Ha as (c & Hc & Ha).
  apply comps_from_In in Hc. apply in_map_iff in Ha. destruct Ha as (a' & <- & Ha').
  assert (Hcc : 0 <= c < ncomp ss) by (destruct (ncomp_cases ss) as [E|E]; rewrite E in *; lia).
  destruct (Hf c a' (conj Hss Hcc) Ha') as (Hb & Hk & Hl & r & Hr & Ho).
  exists c. split; [exact Hcc|]. unfold to_plane_buf. cbn [a_buf a_rw a_off a_len].
  split; [lia|]. split; [exact Hk|]. cbv zeta. exists r. split; [exact Hr|]. lia.
Qed.

Theorem model_trace_respects_extent : extent_respected model_trace.
Proof.
  intros c Hv a Ha _. destruct c; cbn [model_trace valid_call allowed] in *.
  - destruct Hv as (Hw & Hh & Hps & Hss & Hp). eapply packed_allowed; eassumption.
  - destruct Hv as (Hjw & Hjh & Hn & Hd & Hc & Hps & Hss & Hp).
    destruct (dec_dims_pos jw jh num den crop Hjw Hjh Hn Hd Hc) as [Hw Hh].
    unfold decompress_accesses in Ha. eapply packed_allowed; try eassumption; lia.
  - destruct Hv as (Hw & Hh & Hps & Hp & Hss & Hst). apply in_app_iff in Ha. destruct Ha as [Ha | Ha].
    + left. eapply packed_allowed; try eassumption; lia.
    + right. eapply all_planes_allowed; [exact Hss | | exact Ha].
      intros c a' Hc Ha'. apply encdec_plane_extent; assumption.
  - destruct Hv as (Hw & Hh & Hps & Hp & Hss & Hst). apply in_app_iff in Ha. destruct Ha as [Ha | Ha].
    + right. eapply all_planes_allowed; [exact Hss | | exact Ha].
      intros c a' Hc Ha'. apply encdec_plane_extent; assumption.
    + left. eapply packed_allowed; try eassumption; lia.
  - destruct Hv as (Hjw & Hjh & Hn & Hd & Hss & Hst).
    pose proof (tjscaled_pos jw num den Hjw Hn Hd). pose proof (tjscaled_pos jh num den Hjh Hn Hd).
    eapply all_planes_allowed; [exact Hss | | exact Ha].
    intros c a' Hc Ha'. eapply rawdata_plane_extent; try eassumption. apply Z.div_pos; lia.
  - destruct Hv as (Hw & Hh & Hss & Hst).
    eapply all_planes_allowed; [exact Hss | | exact Ha].
    intros c a' Hc Ha'. eapply rawdata_plane_extent; try eassumption. lia.
Qed.

(* no access of the model trace is empty, so the side condition 0 < a_len is not what
   makes the statement true *)
Lemma model_trace_nonempty_accesses c : valid_call c -> forall a, In a (model_trace c) -> 0 < a_len a.
Proof.
  intros Hv a Ha. pose proof (model_trace_respects_extent c Hv a Ha) as _.
  destruct c; cbn [model_trace valid_call] in *.
  - destruct Hv as (Hw & Hh & Hps & Hss & Hp).
    destruct (packed_extent_thm R w pitch h ps ssize bottomUp Hw Hh Hps Hss Hp) as (H1 & _).
    destruct (H1 a Ha) as (i & _ & _ & _ & _ & ->). nia.
  - destruct Hv as (Hjw & Hjh & Hn & Hd & Hc & Hps & Hss & Hp).
    destruct (dec_dims_pos jw jh num den crop Hjw Hjh Hn Hd Hc) as [Hw Hh].
    destruct (packed_extent_thm W _ pitch _ ps ssize bottomUp (proj1 Hw) (proj1 Hh) Hps Hss Hp) as (H1 & _).
    destruct (H1 a Ha) as (i & _ & _ & _ & _ & ->). nia.
  - destruct Hv as (Hw & Hh & Hps & Hp & Hss & Hst). apply in_app_iff in Ha. destruct Ha as [Ha | Ha].
    + destruct (packed_extent_thm R w pitch h ps 1 bottomUp Hw Hh Hps ltac:(lia) Hp) as (H1 & _).
      destruct (H1 a Ha) as (i & _ & _ & _ & _ & ->). nia.
    + apply in_flat_map in Ha. destruct Ha as (c & Hc & Ha). apply comps_from_In in Hc.
      apply in_map_iff in Ha. destruct Ha as (a' & <- & Ha'). cbn [to_plane_buf a_len].
      assert (Hcc : 0 <= c < ncomp ss) by (destruct (ncomp_cases ss) as [E|E]; rewrite E in *; lia).
      destruct (encdec_plane_extent _ _ _ _ _ _ _ Hw Hh (conj Hss Hcc) Ha') as (_ & _ & -> & _).
      destruct (plane_dims c w h ss Hw Hh (conj Hss Hcc)) as (P & _). lia.
  - destruct Hv as (Hw & Hh & Hps & Hp & Hss & Hst). apply in_app_iff in Ha. destruct Ha as [Ha | Ha].
    + apply in_flat_map in Ha. destruct Ha as (c & Hc & Ha). apply comps_from_In in Hc.
      apply in_map_iff in Ha. destruct Ha as (a' & <- & Ha'). cbn [to_plane_buf a_len].
      assert (Hcc : 0 <= c < ncomp ss) by (destruct (ncomp_cases ss) as [E|E]; rewrite E in *; lia).
      destruct (encdec_plane_extent _ _ _ _ _ _ _ Hw Hh (conj Hss Hcc) Ha') as (_ & _ & -> & _).
      destruct (plane_dims c w h ss Hw Hh (conj Hss Hcc)) as (P & _). lia.
    + destruct (packed_extent_thm W w pitch h ps 1 bottomUp Hw Hh Hps ltac:(lia) Hp) as (H1 & _).
      destruct (H1 a Ha) as (i & _ & _ & _ & _ & ->). nia.
  - destruct Hv as (Hjw & Hjh & Hn & Hd & Hss & Hst).
    pose proof (tjscaled_pos jw num den Hjw Hn Hd) as Hw. pose proof (tjscaled_pos jh num den Hjh Hn Hd) as Hh.
    apply in_flat_map in Ha. destruct Ha as (c & Hc & Ha). apply comps_from_In in Hc.
    apply in_map_iff in Ha. destruct Ha as (a' & <- & Ha'). cbn [to_plane_buf a_len].
    assert (Hcc : 0 <= c < ncomp ss) by (destruct (ncomp_cases ss) as [E|E]; rewrite E in *; lia).
    assert (Hdct : 0 <= 8 * num / den) by (apply Z.div_pos; lia).
    destruct (rawdata_plane_extent _ _ _ _ _ _ _ _ Hw Hh (conj Hss Hcc) Hdct Ha') as (_ & _ & -> & _).
    destruct (plane_dims c _ _ ss Hw Hh (conj Hss Hcc)) as (P & _). lia.
  - destruct Hv as (Hw & Hh & Hss & Hst).
    apply in_flat_map in Ha. destruct Ha as (c & Hc & Ha). apply comps_from_In in Hc.
    apply in_map_iff in Ha. destruct Ha as (a' & <- & Ha'). cbn [to_plane_buf a_len].
    assert (Hcc : 0 <= c < ncomp ss) by (destruct (ncomp_cases ss) as [E|E]; rewrite E in *; lia).
    assert (Hdct : 0 <= 8) by lia.
    destruct (rawdata_plane_extent _ _ _ _ _ _ _ _ Hw Hh (conj Hss Hcc) Hdct Ha') as (_ & _ & -> & _).
    destruct (plane_dims c _ _ ss Hw Hh (conj Hss Hcc)) as (P & _). lia.
Qed.
