(* C14 -- proofs about the memory-manager model (model/MemMgr.v), part 1:
   the pool invariant for every operation (ideal arithmetic [wid]), for every
   failure oracle, including every error exit. *)
From Coq Require Import List ZArith Bool Lia Permutation ZifyBool.
From LJT Require Import model.MemMgr.
Import ListNotations.
Local Open Scope Z_scope.
Ltac Zify.zify_post_hook ::= Z.div_mod_to_equations.

Definition zz_dec : forall x y : Z * Z, {x = y} + {x <> y}.
Proof. decide equality; apply Z.eq_dec. Defined.

Ltac perm_solve :=
  apply (Permutation_count_occ zz_dec); intro;
  repeat (rewrite ?count_occ_app, ?map_app; cbn [count_occ map app]);
  repeat match goal with |- context [zz_dec ?a ?b] => destruct (zz_dec a b) end; lia.

(* ------------------------------------------------------------ definitions *)
Definition cfg_wf (c : cfg) : Prop :=
  1 <= c_align c <= 65536 /\ 0 <= c_hdr c <= 65536 /\ 0 < c_max c < 2 ^ 40 /\
  0 <= c_first0 c < 2 ^ 40 /\ 0 <= c_first1 c < 2 ^ 40 /\ 0 <= c_extra0 c < 2 ^ 40 /\ 0 <= c_extra1 c < 2 ^ 40 /\
  1 <= c_minslop c /\ 0 < c_mgr c <= c_max c /\ 0 < c_sctl c < 2 ^ 40 /\ 0 < c_bctl c < 2 ^ 40 /\
  0 < c_ptr c <= 64 /\ 0 < c_block c <= 65536 /\ 0 < c_bigmh c.

Definition ids (l : list (Z * Z)) : list Z := map fst l.
Definition recblk (c : cfg) (p : pool) : Z * Z := (p_id p, recsize c p).
Definition pools_of (m : mgr) : list pool := m_small0 m ++ m_small1 m ++ m_large0 m ++ m_large1 m.
(* everything the manager believes it owns, with the size free_pool will account for it *)
Definition blocks (c : cfg) (m : mgr) : list (Z * Z) := (m_blk m, c_mgr c) :: map (recblk c) (pools_of m).
Fixpoint sumsz (l : list (Z * Z)) : Z := match l with [] => 0 | x :: r => snd x + sumsz r end.

Definition ev_ok (c : cfg) (e : event) : Prop :=
  match e with EMalloc sz _ => sz <= c_max c | EFree _ => True end.

Definition heap_ok (c : cfg) (h : heap) : Prop :=
  NoDup (ids (live h)) /\ (forall x, In x (live h) -> fst x < next h) /\ badfree h = 0 /\ Forall (ev_ok c) (trace h).


(* ------------------------------------------------------------ list lemmas *)
Lemma sumsz_perm : forall a b, Permutation a b -> sumsz a = sumsz b.
Proof. induction 1; simpl; lia. Qed.

Lemma sumsz_app : forall a b, sumsz (a ++ b) = sumsz a + sumsz b.
Proof. induction a; simpl; intros; [|rewrite IHa]; lia. Qed.

Lemma nodup_app_iff : forall (A : Type) (a b : list A),
  NoDup (a ++ b) <-> NoDup a /\ NoDup b /\ (forall x, In x a -> ~ In x b).
Proof.
  induction a as [|x a IH]; simpl; intros.
  - split; [intros; repeat split; auto; constructor | tauto].
  - split.
    + intros H. inversion H; subst. apply IH in H3. destruct H3 as (Ha & Hb & Hd).
      repeat split; auto.
      * constructor; auto. intro; apply H2; apply in_or_app; auto.
      * intros y [->|Hy]; [intro; apply H2; apply in_or_app; auto | auto].
    + intros (Ha & Hb & Hd). inversion Ha; subst. constructor.
      * intro Hi. apply in_app_or in Hi. destruct Hi; [auto | eapply Hd; eauto].
      * apply IH. repeat split; auto.
Qed.

Lemma perm_filter : forall (A : Type) (f : A -> bool) (a b : list A),
  Permutation a b -> Permutation (filter f a) (filter f b).
Proof.
  induction 1; simpl; auto.
  - destruct (f x); auto.
  - destruct (f x), (f y); auto. constructor.
  - eapply perm_trans; eauto.
Qed.

Lemma filter_all : forall (A : Type) (f : A -> bool) (l : list A),
  (forall x, In x l -> f x = true) -> filter f l = l.
Proof. induction l; simpl; intros; auto. rewrite H by auto. f_equal; auto. Qed.

Lemma filter_none : forall (A : Type) (f : A -> bool) (l : list A),
  (forall x, In x l -> f x = false) -> filter f l = [].
Proof. induction l; simpl; intros; auto. rewrite H by auto. auto. Qed.

Lemma nodup_ids_filter : forall f (l : list (Z * Z)), NoDup (ids l) -> NoDup (ids (filter f l)).
Proof.
  induction l; simpl; intros; auto. inversion H; subst.
  destruct (f a); simpl; auto. constructor; auto.
  intro Hi. apply H2. unfold ids in *. apply in_map_iff in Hi. destruct Hi as (x & Hx & Hin).
  apply filter_In in Hin. apply in_map_iff. exists x. tauto.
Qed.

Definition zmem (z : Z) (l : list Z) : bool := existsb (Z.eqb z) l.

Lemma zmem_in : forall z l, zmem z l = true <-> In z l.
Proof.
  unfold zmem; intros. rewrite existsb_exists. split.
  - intros (x & Hx & He). apply Z.eqb_eq in He. subst; auto.
  - intros. exists z. split; auto. apply Z.eqb_refl.
Qed.

Lemma zmem_notin : forall z l, zmem z l = false <-> ~ In z l.
Proof. intros. rewrite <- zmem_in. destruct (zmem z l); split; congruence. Qed.

(* removing from the live list all blocks whose id is in F, when live ~ F ++ K *)
Lemma perm_remove : forall (L F K : list (Z * Z)),
  Permutation L (F ++ K) -> NoDup (ids L) ->
  Permutation (filter (fun x => negb (zmem (fst x) (ids F))) L) K.
Proof.
  intros L F K HP HN.
  assert (HN' : NoDup (ids (F ++ K))).
  { eapply Permutation_NoDup; [apply Permutation_map; exact HP | exact HN]. }
  unfold ids in HN'. rewrite map_app in HN'. apply nodup_app_iff in HN'. destruct HN' as (_ & _ & Hd).
  eapply perm_trans. { apply perm_filter. exact HP. }
  rewrite filter_app.
  assert (E1 : filter (fun x => negb (zmem (fst x) (ids F))) F = []).
  { apply filter_none. intros x Hx. apply negb_false_iff. apply zmem_in. unfold ids. apply in_map; auto. }
  assert (E2 : filter (fun x => negb (zmem (fst x) (ids F))) K = K).
  { apply filter_all. intros x Hx. apply negb_true_iff. apply zmem_notin. intro Hi.
    unfold ids in Hi. apply in_map_iff in Hi. destruct Hi as (y & Hy & Hyin).
    apply (Hd (fst x)); [rewrite <- Hy; apply in_map; auto | apply in_map; auto]. }
  rewrite E1, E2. apply Permutation_refl.
Qed.

(* ------------------------------------------------------------ heap lemmas *)
Lemma malloc_ok : forall c h sz h' r,
  heap_ok c h -> sz <= c_max c -> malloc h sz = (h', r) ->
  heap_ok c h' /\
  match r with
  | None => live h' = live h
  | Some id => live h' = (id, sz) :: live h
  end.
Proof.
  unfold malloc, heap_ok. intros c h sz h' r (Hn & Hf & Hb & Ht) Hsz H.
  assert (Hfresh : ~ In (next h) (ids (live h))).
  { intro Hi. unfold ids in Hi. apply in_map_iff in Hi. destruct Hi as (x & Hx & Hin). apply Hf in Hin. lia. }
  assert (Hlt : forall x, In x ((next h, sz) :: live h) -> fst x < next h + 1).
  { intros x [<-|Hx]; [simpl; lia | apply Hf in Hx; lia]. }
  destruct (orc h) as [|[|] o]; inversion H; subst; clear H; simpl.
  all: repeat split; auto; try (constructor; simpl; auto).
Qed.

(* a failing malloc changes neither the heap contents nor anything else but oracle and trace *)
Lemma malloc_fail_unchanged : forall h sz o,
  orc h = true :: o ->
  exists h', malloc h sz = (h', None) /\ live h' = live h /\ next h' = next h /\ badfree h' = badfree h.
Proof. intros. unfold malloc. rewrite H. eexists; split; [reflexivity|]; simpl; auto. Qed.

Lemma id_live_in : forall id l, id_live id l = true <-> In id (ids l).
Proof.
  unfold id_live, ids; intros. rewrite existsb_exists. split.
  - intros (x & Hx & He). apply Z.eqb_eq in He. subst. apply in_map; auto.
  - intros Hi. apply in_map_iff in Hi. destruct Hi as (x & He & Hx). exists x. split; auto. apply Z.eqb_eq; auto.
Qed.

Definition pids (l : list pool) : list Z := map p_id l.

Lemma ids_recblk : forall c l, ids (map (recblk c) l) = pids l.
Proof. intros. unfold ids, pids. rewrite map_map. reflexivity. Qed.

(* free_list: frees exactly the blocks of the list, no bad free, accounting subtracted *)
Lemma free_list_spec : forall c l h t h' t',
  free_list c l h t = (h', t') ->
  NoDup (pids l) -> (forall i, In i (pids l) -> In i (ids (live h))) ->
  live h' = filter (fun x => negb (zmem (fst x) (pids l))) (live h) /\
  next h' = next h /\ badfree h' = badfree h /\ orc h' = orc h /\
  t' = t - sumsz (map (recblk c) l) /\
  (Forall (ev_ok c) (trace h) -> Forall (ev_ok c) (trace h')).
Proof.
  induction l as [|p l IH]; simpl; intros h t h' t' H Hn Hl.
  - inversion H; subst. repeat split; auto. symmetry. apply filter_all. auto. lia.
  - inversion Hn; subst.
    apply IH in H; auto.
    + destruct H as (E1 & E2 & E3 & E4 & E5 & E6). simpl in *.
      repeat split; auto.
      * rewrite E1. unfold remove_id. clear.
        induction (live h) as [|x r IHr]; simpl; auto.
        rewrite (Z.eqb_sym (fst x) (p_id p)).
        destruct (p_id p =? fst x) eqn:E; simpl; auto.
        destruct (zmem (fst x) (pids l)); simpl; auto. f_equal; auto.
      * rewrite E3. assert (E : id_live (p_id p) (live h) = true) by (apply id_live_in; apply Hl; auto).
        rewrite E. auto.
      * rewrite E5. lia.
      * intros. apply E6. constructor; simpl; auto.
    + intros i Hi. simpl. unfold remove_id.
      assert (i <> p_id p) by (intro; subst; auto).
      specialize (Hl i (or_intror Hi)). unfold ids in *. apply in_map_iff in Hl. destruct Hl as (x & Hx & Hin).
      apply in_map_iff. exists x. split; auto. apply filter_In. split; auto.
      apply negb_true_iff. apply Z.eqb_neq. lia.
Qed.

(* ------------------------------------------------------------------------ *)
(* The invariant, relative to a FRAME F of live blocks that belong to somebody else
   (another manager, the TurboJPEG instance struct): the operations never touch F. *)
Section Frame.
Variable F : list (Z * Z).

Definition inv (c : cfg) (m : mgr) (h : heap) : Prop :=
  Permutation (live h) (blocks c m ++ F) /\ heap_ok c h /\ m_total m = sumsz (blocks c m).

Definition st_inv (c : cfg) (s : st) : Prop :=
  match s_mgr s with
  | Some m => inv c m (s_heap s)
  | None => Permutation (live (s_heap s)) F /\ heap_ok c (s_heap s)
  end.

(* ------------------------------------------------- invariant: basic moves *)
Lemma inv_add : forall c m h m' h' id sz,
  inv c m h -> heap_ok c h' -> live h' = (id, sz) :: live h ->
  Permutation ((id, sz) :: blocks c m) (blocks c m') -> m_total m' = m_total m + sz -> inv c m' h'.
Proof.
  intros c m h m' h' id sz (HP & _ & HT) Hok Hl HB Ht. split; [|split]; auto.
  - rewrite Hl. eapply perm_trans; [apply perm_skip; exact HP |].
    change ((id, sz) :: blocks c m ++ F) with (((id, sz) :: blocks c m) ++ F). apply Permutation_app_tail. exact HB.
  - rewrite Ht, HT. apply sumsz_perm in HB.
    change (sumsz ((id, sz) :: blocks c m)) with (sz + sumsz (blocks c m)) in HB. lia.
Qed.

Lemma inv_same : forall c m h m' h',
  inv c m h -> heap_ok c h' -> live h' = live h -> blocks c m' = blocks c m -> m_total m' = m_total m -> inv c m' h'.
Proof.
  intros c m h m' h' (HP & _ & HT) Hok Hl HB Ht. split; [|split]; auto.
  - rewrite Hl, HB. auto.
  - rewrite Ht, HB. auto.
Qed.

Lemma find_pool_blocks : forall c l sz l',
  find_pool l sz = Some l' -> map (recblk c) l' = map (recblk c) l.
Proof.
  induction l as [|a l IH]; simpl; intros sz l' H; try discriminate.
  destruct (p_left a >=? sz).
  - inversion H; subst; simpl. f_equal. unfold recblk, recsize; simpl. f_equal. lia.
  - destruct (find_pool l sz) eqn:E; inversion H; subst. simpl. f_equal. eauto.
Qed.

Lemma blocks_set_small_same : forall c m pid l,
  map (recblk c) l = map (recblk c) (get_small m pid) -> blocks c (set_small m pid l) = blocks c m.
Proof.
  intros. unfold blocks, pools_of, set_small, get_small in *.
  destruct (pid =? 0); simpl; f_equal; rewrite !map_app; rewrite H; reflexivity.
Qed.

Lemma total_set_small : forall m pid l, m_total (set_small m pid l) = m_total m.
Proof. intros. unfold set_small. destruct (pid =? 0); reflexivity. Qed.
Lemma total_set_large : forall m pid l, m_total (set_large m pid l) = m_total m.
Proof. intros. unfold set_large. destruct (pid =? 0); reflexivity. Qed.

Lemma bad_pool_false : forall pid, bad_pool pid = false -> pid = 0 \/ pid = 1.
Proof. unfold bad_pool; intros. apply orb_false_iff in H. lia. Qed.

Lemma get_pool_mem_spec : forall c fuel h minreq slop h' r,
  cfg_wf c -> heap_ok c h -> minreq + slop <= c_max c -> minreq <= c_max c ->
  fuel <> O -> slop < 2 ^ (Z.of_nat fuel - 1) ->
  get_pool_mem wid c fuel h minreq slop = (h', r) ->
  heap_ok c h' /\
  match r with
  | GotPool id slop' => live h' = (id, minreq + slop') :: live h
  | GaveUp => live h' = live h
  | NoFuel => False
  end.
Proof.
  induction fuel as [|f IH]; intros h minreq slop h' r Hc Hh Hsz Hmr Hf Hs H; [congruence|].
  cbn [get_pool_mem] in H. unfold wid in H.
  destruct (malloc h (minreq + slop)) as [h1 [id|]] eqn:EM.
  - inversion H; subst. eapply malloc_ok in EM; eauto.
  - eapply malloc_ok in EM; eauto. destruct EM as (Hh1 & Hl1).
    destruct (slop / 2 <? c_minslop c) eqn:E.
    + inversion H; subst. auto.
    + assert (Hms : 1 <= c_minslop c) by (unfold cfg_wf in Hc; tauto).
      assert (1 <= slop / 2) by lia.
      assert (2 <= slop) by lia.
      assert (slop / 2 <= slop) by lia.
      destruct f as [|f'].
      * simpl in Hs. lia.
      * apply IH in H; auto; try lia.
        -- destruct H as (Hh' & Hr). split; auto. destruct r; auto; rewrite Hr, Hl1; auto.
        -- replace (Z.of_nat (S (S f')) - 1) with (Z.succ (Z.of_nat (S f') - 1)) in Hs by lia.
           rewrite Z.pow_succ_r in Hs by lia.
           apply Z.div_lt_upper_bound; lia.
Qed.

Lemma alloc_small_inv : forall c m h pid sz m' h' e,
  cfg_wf c -> inv c m h -> alloc_small wid c m h pid sz = (m', h', e) ->
  inv c m' h' /\ e <> Some OutOfFuel.
Proof.
  intros c m h pid sz m' h' e Hc Hi H. unfold alloc_small in H.
  assert (Hcc := Hc). unfold cfg_wf in Hcc.
  destruct (sz >? c_max c). { inversion H; subst. split; auto; congruence. }
  remember (rup wid sz (c_align c)) as r eqn:Er.
  set (minreq := wid (c_hdr c + r + c_align c - 1)) in *.
  assert (Emr : minreq = c_hdr c + r + c_align c - 1) by reflexivity.
  destruct (minreq >? c_max c) eqn:E1. { inversion H; subst. split; auto; congruence. }
  destruct (bad_pool pid) eqn:Ebp. { inversion H; subst. split; auto; congruence. }
  apply bad_pool_false in Ebp.
  destruct (find_pool (get_small m pid) r) as [l'|] eqn:Ef.
  - inversion H; subst m' h' e. split; [|congruence].
    apply inv_same with (m := m) (h := h); auto.
    + destruct Hi as (HP & Hok & HT); auto.
    + apply blocks_set_small_same. eapply find_pool_blocks; eauto.
    + apply total_set_small.
  - assert (Hmr : minreq <= c_max c) by lia.
    set (slop0 := match get_small m pid with [] => first_slop c pid | _ :: _ => extra_slop c pid end) in *.
    set (slop := if slop0 >? wid (c_max c - minreq) then wid (c_max c - minreq) else slop0) in *.
    assert (Hsl : slop <= c_max c - minreq) by (unfold slop, wid; destruct (slop0 >? c_max c - minreq) eqn:E; lia).
    assert (Hs0 : slop0 < 2 ^ 40).
    { unfold slop0, first_slop, extra_slop. destruct (get_small m pid); destruct (pid =? 0); lia. }
    assert (Hsl2 : slop <= slop0) by (unfold slop, wid; destruct (slop0 >? c_max c - minreq) eqn:E; lia).
    destruct (get_pool_mem wid c 64 h minreq slop) as [h1 g] eqn:Eg.
    destruct Hi as (HP & Hok & HT).
    eapply get_pool_mem_spec in Eg; eauto; try lia.
    destruct Eg as (Hok1 & Hg).
    destruct g as [id slop'| |].
    + inversion H; subst m' h' e. split; [|congruence].
      eapply inv_add with (id := id) (sz := minreq + slop'); eauto.
      { split; [|split]; eauto. }
      * unfold blocks, pools_of, set_total, set_small, get_small.
        assert (Eb : recblk c {| p_id := id; p_used := r; p_left := wid (r + slop') - r |} = (id, minreq + slop')).
        { unfold recblk, recsize, wid; simpl. f_equal. rewrite Emr. lia. }
        destruct Ebp; subst pid; simpl; rewrite ?map_app; simpl; rewrite Eb; perm_solve.
      * destruct Ebp; subst pid; reflexivity.
    + inversion H; subst m' h' e. split; [|congruence]. apply inv_same with (m := m) (h := h); auto. split; [|split]; eauto.
    + contradiction.
Qed.

Lemma alloc_large_inv : forall c m h pid sz m' h' e,
  cfg_wf c -> inv c m h -> alloc_large wid c m h pid sz = (m', h', e) ->
  inv c m' h' /\ e <> Some OutOfFuel.
Proof.
  intros c m h pid sz m' h' e Hc Hi H. unfold alloc_large in H.
  destruct (sz >? c_max c). { inversion H; subst. split; auto; congruence. }
  remember (rup wid sz (c_align c)) as r eqn:Er.
  destruct (wid (c_hdr c + r + c_align c - 1) >? c_max c) eqn:E1. { inversion H; subst. split; auto; congruence. }
  destruct (bad_pool pid) eqn:Ebp. { inversion H; subst. split; auto; congruence. }
  apply bad_pool_false in Ebp.
  set (req := wid (r + c_hdr c + c_align c - 1)) in *.
  assert (Hreq : req <= c_max c) by (unfold req, wid in *; lia).
  destruct Hi as (HP & Hok & HT).
  destruct (malloc h req) as [h1 [id|]] eqn:EM; eapply malloc_ok in EM; eauto; destruct EM as (Hok1 & Hl1).
  - inversion H; subst m' h' e. split; [|congruence].
    eapply inv_add with (id := id) (sz := req); eauto.
    { split; [|split]; eauto. }
    + unfold blocks, pools_of, set_total, set_large, get_large.
      assert (Eb : recblk c {| p_id := id; p_used := r; p_left := 0 |} = (id, req)).
      { unfold recblk, recsize, req, wid; simpl. f_equal. lia. }
      destruct Ebp; subst pid; simpl; rewrite ?map_app; simpl; rewrite Eb; perm_solve.
    + destruct Ebp; subst pid; reflexivity.
  - inversion H; subst m' h' e. split; [|congruence]. apply inv_same with (m := m) (h := h); auto. split; [|split]; eauto.
Qed.

Lemma alloc_rows_inv : forall c fuel m h pid rpc width unit currow numrows m' h' e,
  cfg_wf c -> inv c m h -> 1 <= rpc -> numrows - currow <= Z.of_nat fuel ->
  alloc_rows wid c fuel m h pid rpc width unit currow numrows = (m', h', e) ->
  inv c m' h' /\ e <> Some OutOfFuel.
Proof.
  induction fuel as [|f IH]; intros m h pid rpc width unit currow numrows m' h' e Hc Hi Hr Hf H; cbn [alloc_rows] in H.
  - destruct (currow <? numrows) eqn:E; [lia|]. inversion H; subst. split; auto; congruence.
  - destruct (currow <? numrows) eqn:E.
    2: { inversion H; subst. split; auto; congruence. }
    destruct (alloc_large wid c m h pid (wid (wid (Z.min rpc (numrows - currow) * width) * unit))) as [[m1 h1] [e1|]] eqn:EL;
      eapply alloc_large_inv in EL; eauto; destruct EL as (Hi1 & He1).
    + inversion H; subst. split; auto.
    + eapply IH in H; eauto; lia.
Qed.

Lemma alloc_sarray_inv : forall c m h prec pid width numrows m' h' e,
  cfg_wf c -> inv c m h -> alloc_sarray wid c m h prec pid width numrows = (m', h', e) ->
  inv c m' h' /\ e <> Some OutOfFuel.
Proof.
  intros c m h prec pid width numrows m' h' e Hc Hi H. unfold alloc_sarray in H.
  destruct (negb (c_align c mod sample_size prec =? 0)). { inversion H; subst. split; auto; congruence. }
  destruct (width >? c_max c). { inversion H; subst. split; auto; congruence. }
  set (w := rup wid width (2 * c_align c / sample_size prec) mod two32) in *.
  destruct (w * sample_size prec =? 0). { inversion H; subst. split; auto; congruence. }
  set (ltemp := (c_max c - c_hdr c) / (w * sample_size prec)) in *.
  destruct (ltemp <=? 0) eqn:El. { inversion H; subst. split; auto; congruence. }
  destruct (alloc_small wid c m h pid (wid (numrows * c_ptr c))) as [[m1 h1] [e1|]] eqn:ES;
    eapply alloc_small_inv in ES; eauto; destruct ES as (Hi1 & He1).
  - inversion H; subst. split; auto.
  - destruct (Z_lt_le_dec numrows 0).
    + (* no rows: loop not entered *)
      destruct (Z.to_nat numrows) eqn:En; [|lia]. cbn [alloc_rows] in H.
      destruct (0 <? numrows) eqn:E0; [lia|]. inversion H; subst. split; auto; congruence.
    + destruct (Z.eq_dec numrows 0) as [->|Hn0].
      * cbn in H. inversion H; subst. split; auto; congruence.
      * eapply alloc_rows_inv in H; eauto; try lia.
        destruct (ltemp <? numrows); lia.
Qed.

Lemma alloc_barray_inv : forall c m h pid width numrows m' h' e,
  cfg_wf c -> inv c m h -> alloc_barray wid c m h pid width numrows = (m', h', e) ->
  inv c m' h' /\ e <> Some OutOfFuel.
Proof.
  intros c m h pid width numrows m' h' e Hc Hi H. unfold alloc_barray in H.
  destruct (negb (c_block c mod c_align c =? 0)). { inversion H; subst. split; auto; congruence. }
  destruct (width * c_block c =? 0). { inversion H; subst. split; auto; congruence. }
  set (ltemp := (c_max c - c_hdr c) / (width * c_block c)) in *.
  destruct (ltemp <=? 0) eqn:El. { inversion H; subst. split; auto; congruence. }
  destruct (alloc_small wid c m h pid (wid (numrows * c_ptr c))) as [[m1 h1] [e1|]] eqn:ES;
    eapply alloc_small_inv in ES; eauto; destruct ES as (Hi1 & He1).
  - inversion H; subst. split; auto.
  - destruct (Z_lt_le_dec numrows 0).
    + destruct (Z.to_nat numrows) eqn:En; [|lia]. cbn [alloc_rows] in H.
      destruct (0 <? numrows) eqn:E0; [lia|]. inversion H; subst. split; auto; congruence.
    + destruct (Z.eq_dec numrows 0) as [->|Hn0].
      * cbn in H. inversion H; subst. split; auto; congruence.
      * eapply alloc_rows_inv in H; eauto; try lia.
        destruct (ltemp <? numrows); lia.
Qed.

Lemma request_virt_sarray_inv : forall c m h pid w r a m' h' e,
  cfg_wf c -> inv c m h -> request_virt_sarray wid c m h pid w r a = (m', h', e) ->
  inv c m' h' /\ e <> Some OutOfFuel.
Proof.
  intros c m h pid w r a m' h' e Hc Hi H. unfold request_virt_sarray in H.
  destruct (negb (pid =? 1)). { inversion H; subst. split; auto; congruence. }
  destruct (alloc_small wid c m h pid (c_sctl c)) as [[m1 h1] [e1|]] eqn:ES;
    eapply alloc_small_inv in ES; eauto; destruct ES as (Hi1 & He1); inversion H; subst; split; auto; congruence.
Qed.

Lemma request_virt_barray_inv : forall c m h pid w r a m' h' e,
  cfg_wf c -> inv c m h -> request_virt_barray wid c m h pid w r a = (m', h', e) ->
  inv c m' h' /\ e <> Some OutOfFuel.
Proof.
  intros c m h pid w r a m' h' e Hc Hi H. unfold request_virt_barray in H.
  destruct (negb (pid =? 1)). { inversion H; subst. split; auto; congruence. }
  destruct (alloc_small wid c m h pid (c_bctl c)) as [[m1 h1] [e1|]] eqn:ES;
    eapply alloc_small_inv in ES; eauto; destruct ES as (Hi1 & He1); inversion H; subst; split; auto; congruence.
Qed.

Definition alloc_pres (c : cfg) (alloc : mgr -> heap -> Z -> Z -> res) : Prop :=
  forall m h w r m' h' e, inv c m h -> alloc m h w r = (m', h', e) -> inv c m' h' /\ e <> Some OutOfFuel.

Lemma realize_list_inv : forall c alloc, alloc_pres c alloc ->
  forall l m h maxmh l' m' h' e,
  inv c m h -> realize_list alloc l m h maxmh = (l', (m', h', e)) -> inv c m' h' /\ e <> Some OutOfFuel.
Proof.
  intros c alloc Ha. induction l as [|v l IH]; intros m h maxmh l' m' h' e Hi H; cbn [realize_list] in H.
  - inversion H; subst. split; auto; congruence.
  - destruct (v_real v).
    + destruct (realize_list alloc l m h maxmh) as [r' [[m2 h2] e2]] eqn:ER. inversion H; subst. eapply IH; eauto.
    + destruct (v_maxacc v =? 0). { inversion H; subst. split; auto; congruence. }
      destruct (Z.quot (v_rows v - 1) (v_maxacc v) + 1 <=? maxmh).
      * destruct (alloc m h (v_width v mod two32) (v_rows v mod two32)) as [[m1 h1] [e1|]] eqn:EA; apply Ha in EA; auto; destruct EA as (Hi1 & He1).
        -- inversion H; subst. split; auto.
        -- destruct (realize_list alloc l m1 h1 maxmh) as [r' [[m2 h2] e2]] eqn:ER. inversion H; subst. eapply IH; eauto.
      * inversion H; subst. split; auto; congruence.
Qed.

Lemma realize_virt_arrays_inv : forall c m h prec m' h' e,
  cfg_wf c -> inv c m h -> realize_virt_arrays wid c m h prec = (m', h', e) ->
  inv c m' h' /\ e <> Some OutOfFuel.
Proof.
  intros c m h prec m' h' e Hc Hi H. unfold realize_virt_arrays in H.
  destruct (space_pass (m_vs m) (sample_size prec) 10 (0, 0)) as [[[w|]|] acc1].
  1, 3: inversion H; subst; split; auto; congruence.
  destruct (space_pass (m_vb m) (c_block c) 11 acc1) as [[[w|]|] [spm maximum]].
  1, 3: inversion H; subst; split; auto; congruence.
  destruct (spm <=? 0). { inversion H; subst; split; auto; congruence. }
  match type of H with context [realize_list ?a (m_vs m) m h ?mm] =>
    destruct (realize_list a (m_vs m) m h mm) as [vs' [[m1 h1] e1]] eqn:E1 end.
  eapply realize_list_inv in E1; eauto.
  2: { intros m0 h0 w0 r0 m0' h0' e0 Hi0 H0. eapply alloc_sarray_inv; eauto. }
  destruct E1 as (Hi1 & He1).
  destruct e1 as [e1|].
  - inversion H; subst. split; auto.
  - match type of H with context [realize_list ?a (m_vb m) ?m1' h1 ?mm] =>
      destruct (realize_list a (m_vb m) m1' h1 mm) as [vb' [[m2 h2] e2]] eqn:E2 end.
    eapply realize_list_inv in E2; eauto.
    2: { intros m0 h0 w0 r0 m0' h0' e0 Hi0 H0. eapply alloc_barray_inv; eauto. }
    destruct E2 as (Hi2 & He2). inversion H; subst. split; auto.
Qed.

(* freeing the pools F (all owned by the manager) leaves exactly the blocks of K *)
Lemma free_list_inv : forall c m h F0 K h' t',
  inv c m h -> Permutation (blocks c m) (map (recblk c) F0 ++ blocks c K) ->
  free_list c F0 h (m_total m) = (h', t') -> m_total K = t' -> inv c K h'.
Proof.
  intros c m h F0 K h' t' (HP & (Hn & Hfr & Hb & Htr) & HT) HB HF HK.
  assert (HP2 : Permutation (live h) (map (recblk c) F0 ++ (blocks c K ++ F))).
  { eapply perm_trans; [exact HP|]. rewrite app_assoc. apply Permutation_app_tail. exact HB. }
  assert (HN2 : NoDup (ids (map (recblk c) F0 ++ (blocks c K ++ F)))).
  { eapply Permutation_NoDup; [apply Permutation_map; exact HP2 | exact Hn]. }
  unfold ids in HN2. rewrite map_app in HN2. apply nodup_app_iff in HN2. destruct HN2 as (HNF & _ & _).
  fold (ids (map (recblk c) F0)) in HNF. rewrite ids_recblk in HNF.
  eapply free_list_spec in HF; eauto.
  2: { intros i Hi. rewrite <- ids_recblk with (c := c) in Hi.
       eapply Permutation_in; [apply Permutation_sym; apply Permutation_map; exact HP2|].
       unfold ids. rewrite map_app. apply in_or_app. left. exact Hi. }
  destruct HF as (Hl & Hnx & Hbf & _ & Ht & Htr').
  split; [|split].
  - rewrite Hl. rewrite <- ids_recblk with (c := c). apply perm_remove; auto.
  - split; [|split; [|split]].
    + rewrite Hl. apply nodup_ids_filter; auto.
    + intros x Hx. rewrite Hl in Hx. apply filter_In in Hx. rewrite Hnx. apply Hfr. tauto.
    + lia.
    + auto.
  - rewrite HK, Ht, HT. apply sumsz_perm in HB. rewrite sumsz_app in HB. lia.
Qed.

Lemma free_pool_inv : forall c m h pid m' h' e,
  inv c m h -> free_pool c m h pid = (m', h', e) -> inv c m' h' /\ e <> Some OutOfFuel.
Proof.
  intros c m h pid m' h' e Hi H. unfold free_pool in H.
  destruct (bad_pool pid) eqn:Ebp. { inversion H; subst. split; auto; congruence. }
  apply bad_pool_false in Ebp.
  set (m1 := if pid =? 1 then set_vb (set_vs m []) [] else m) in *.
  assert (Hi1 : inv c m1 h) by (unfold m1; destruct (pid =? 1); exact Hi).
  destruct (free_list c (get_large m1 pid) h (m_total m1)) as [h1 t1] eqn:E1.
  destruct (free_list c (get_small (set_large m1 pid []) pid) h1 t1) as [h2 t2] eqn:E2.
  inversion H; subst m' h' e. split; [|congruence].
  assert (Hi2 : inv c (set_total (set_large m1 pid []) t1) h1).
  { eapply free_list_inv; [exact Hi1| |exact E1|reflexivity].
    unfold blocks, pools_of, set_total, set_large, get_large.
    destruct Ebp; subst pid; simpl; rewrite ?map_app; perm_solve. }
  eapply free_list_inv; [exact Hi2| |exact E2|reflexivity].
  unfold blocks, pools_of, set_total, set_large, set_small, get_small.
  destruct Ebp; subst pid; simpl; rewrite ?map_app; perm_solve.
Qed.

(* what free_pool leaves on the lists *)
Lemma free_pool_lists : forall c m h pid m' h' e,
  bad_pool pid = false -> free_pool c m h pid = (m', h', e) ->
  get_small m' pid = [] /\ get_large m' pid = [] /\ m_blk m' = m_blk m /\
  get_small m' (1 - pid) = get_small m (1 - pid) /\ get_large m' (1 - pid) = get_large m (1 - pid) /\
  (pid = 1 -> m_vs m' = [] /\ m_vb m' = []).
Proof.
  intros c m h pid m' h' e Ebp H. unfold free_pool in H. rewrite Ebp in H.
  apply bad_pool_false in Ebp.
  destruct (free_list c _ h _) as [h1 t1]. destruct (free_list c _ h1 t1) as [h2 t2].
  inversion H; subst m' h' e.
  destruct Ebp; subst pid; simpl; repeat split; auto; lia.
Qed.

Lemma self_destruct_spec : forall c m h,
  inv c m h -> Permutation (live (self_destruct c m h)) F /\ heap_ok c (self_destruct c m h).
Proof.
  intros c m h Hi. unfold self_destruct.
  destruct (free_pool c m h 1) as [[m1 h1] e1] eqn:E1.
  destruct (free_pool c m1 h1 0) as [[m2 h2] e2] eqn:E2.
  pose proof (free_pool_inv _ _ _ _ _ _ _ Hi E1) as (Hi1 & _).
  pose proof (free_pool_inv _ _ _ _ _ _ _ Hi1 E2) as (Hi2 & _).
  apply free_pool_lists in E1; [|reflexivity]. apply free_pool_lists in E2; [|reflexivity].
  destruct E1 as (A1 & A2 & A3 & A4 & A5 & _). destruct E2 as (B1 & B2 & B3 & B4 & B5 & _).
  unfold get_small, get_large in *. simpl in *.
  destruct Hi2 as (HP & (Hn & Hfr & Hb & Htr) & HT).
  assert (HB : blocks c m2 = [(m_blk m2, c_mgr c)]).
  { unfold blocks, pools_of. rewrite B1, B2, B4, B5, A1, A2. reflexivity. }
  rewrite HB in HP.
  assert (Hin : id_live (m_blk m2) (live h2) = true).
  { apply id_live_in. unfold ids. eapply Permutation_in; [apply Permutation_sym; apply Permutation_map; exact HP|]. simpl. auto. }
  assert (HR : Permutation (remove_id (m_blk m2) (live h2)) F).
  { pose proof (perm_remove (live h2) [(m_blk m2, c_mgr c)] F HP Hn) as P.
    unfold remove_id.
    rewrite (filter_ext _ (fun x => negb (zmem (fst x) (ids [(m_blk m2, c_mgr c)])))); [exact P|].
    intros a. unfold zmem. simpl. rewrite orb_false_r. reflexivity. }
  unfold free. simpl. rewrite Hin.
  split; auto. unfold heap_ok; simpl. repeat split; auto.
  - unfold remove_id. apply nodup_ids_filter. auto.
  - intros x Hx. unfold remove_id in Hx. apply filter_In in Hx. apply Hfr; tauto.
  - constructor; simpl; auto.
Qed.

Lemma jinit_inv : forall c h om h' e,
  cfg_wf c -> Permutation (live h) F -> heap_ok c h -> jinit_memory_mgr wid c h = (om, h', e) ->
  match om with
  | Some m => inv c m h'
  | None => Permutation (live h') F /\ heap_ok c h'
  end /\ e <> Some OutOfFuel.
Proof.
  intros c h om h' e Hc Hl Hok H. unfold jinit_memory_mgr in H.
  assert (Hm : wid (c_mgr c) <= c_max c) by (unfold cfg_wf, wid in *; lia).
  destruct (malloc h (wid (c_mgr c))) as [h1 [id|]] eqn:EM; eapply malloc_ok in EM; eauto; destruct EM as (Hok1 & Hl1);
    inversion H; subst; split; try congruence.
  - split; [|split]; auto.
    + rewrite Hl1. unfold blocks, pools_of, wid. simpl. apply perm_skip. exact Hl.
    + unfold blocks, pools_of. simpl. lia.
  - split; auto. rewrite Hl1. exact Hl.
Qed.

(* ------------------------------------------------- the whole client level *)
Theorem step_inv : forall c o s,
  cfg_wf c -> st_inv c s ->
  st_inv c (fst (step wid c o s)) /\ snd (step wid c o s) <> Some OutOfFuel.
Proof.
  intros c o s Hc Hs. unfold st_inv in Hs.
  destruct s as [[m|] h prec]; simpl in Hs.
  - destruct o; simpl; unfold mk.
    all: try (split; [exact Hs | congruence]).
    + destruct (alloc_small wid c m h pid sz) as [[m1 h1] e1] eqn:E. apply alloc_small_inv in E; auto.
    + destruct (alloc_large wid c m h pid sz) as [[m1 h1] e1] eqn:E. apply alloc_large_inv in E; auto.
    + destruct (alloc_sarray wid c m h prec pid width rows) as [[m1 h1] e1] eqn:E. apply alloc_sarray_inv in E; auto.
    + destruct (alloc_barray wid c m h pid width rows) as [[m1 h1] e1] eqn:E. apply alloc_barray_inv in E; auto.
    + destruct (request_virt_sarray wid c m h pid width rows maxacc) as [[m1 h1] e1] eqn:E. apply request_virt_sarray_inv in E; auto.
    + destruct (request_virt_barray wid c m h pid width rows maxacc) as [[m1 h1] e1] eqn:E. apply request_virt_barray_inv in E; auto.
    + destruct (realize_virt_arrays wid c m h prec) as [[m1 h1] e1] eqn:E. apply realize_virt_arrays_inv in E; auto.
    + destruct (free_pool c m h pid) as [[m1 h1] e1] eqn:E. apply free_pool_inv in E; auto.
    + split; [|congruence]. unfold st_inv; simpl. apply self_destruct_spec; auto.
  - destruct Hs as (Hl & Hok).
    destruct o; simpl.
    all: try (split; [unfold st_inv; simpl; auto | congruence]).
    destruct (jinit_memory_mgr wid c h) as [[om h1] e1] eqn:E. apply jinit_inv in E; auto.
Qed.

Theorem run_inv : forall c ops s, cfg_wf c -> st_inv c s -> st_inv c (run wid c ops s).
Proof.
  induction ops as [|o r IH]; intros s Hc Hs; simpl; auto.
  apply IH; auto. apply step_inv; auto.
Qed.

End Frame.

Lemma init_st_inv : forall c oracle, st_inv [] c (init_st oracle).
Proof.
  intros. unfold st_inv, init_st, empty_heap, heap_ok; simpl. repeat split; auto. constructor. intros x [].
Qed.
