(* C14 -- proofs about the memory-manager model (model/MemMgr.v), part 1:
   the pool invariant for every operation (ideal arithmetic [wid]), for every
   failure oracle, including every error exit. *)
From Coq Require Import List ZArith Bool Lia Permutation ZifyBool.
From LJT Require Import model.MemMgr.
Import ListNotations.
Local Open Scope Z_scope.
Ltac Zify.zify_post_hook ::= Z.div_mod_to_equations.

Definition zz_dec : forall x y : Z * Z, {x = y} + {x <> y}.
Proof. decide equality; apply Z.eq_dec. Defined.

Ltac perm_solve :=
  apply (Permutation_count_occ zz_dec); intro;
  repeat (rewrite ?count_occ_app, ?map_app; cbn [count_occ map app]);
  repeat match goal with |- context [zz_dec ?a ?b] => destruct (zz_dec a b) end; lia.

(* ------------------------------------------------------------ definitions *)
Definition cfg_wf (c : cfg) : Prop :=
  1 <= c_align c <= 65536 /\ 0 <= c_hdr c <= 65536 /\ 0 < c_max c < 2 ^ 40 /\
  0 <= c_first0 c < 2 ^ 40 /\ 0 <= c_first1 c < 2 ^ 40 /\ 0 <= c_extra0 c < 2 ^ 40 /\ 0 <= c_extra1 c < 2 ^ 40 /\
  1 <= c_minslop c /\ 0 < c_mgr c <= c_max c /\ 0 < c_sctl c < 2 ^ 40 /\ 0 < c_bctl c < 2 ^ 40 /\
  0 < c_ptr c <= 64 /\ 0 < c_block c <= 65536 /\ 0 < c_bigmh c.

Definition ids (l : list (Z * Z)) : list Z := map fst l.
Definition recblk (c : cfg) (p : pool) : Z * Z := (p_id p, recsize c p).
Definition pools_of (m : mgr) : list pool := m_small0 m ++ m_small1 m ++ m_large0 m ++ m_large1 m.
(* everything the manager believes it owns, with the size free_pool will account for it *)
Definition blocks (c : cfg) (m : mgr) : list (Z * Z) := (m_blk m, c_mgr c) :: map (recblk c) (pools_of m).
Fixpoint sumsz (l : list (Z * Z)) : Z := match l with [] => 0 | x :: r => snd x + sumsz r end.

Definition ev_ok (c : cfg) (e : event) : Prop :=
  match e with EMalloc sz _ => sz <= c_max c | EFree _ => True end.

Definition heap_ok (c : cfg) (h : heap) : Prop :=
  NoDup (ids (live h)) /\ (forall x, In x (live h) -> fst x < next h) /\ badfree h = 0 /\ Forall (ev_ok c) (trace h).

Definition inv (c : cfg) (m : mgr) (h : heap) : Prop :=
  Permutation (live h) (blocks c m) /\ heap_ok c h /\ m_total m = sumsz (blocks c m).

Definition st_inv (c : cfg) (s : st) : Prop :=
  match s_mgr s with
  | Some m => inv c m (s_heap s)
  | None => live (s_heap s) = [] /\ heap_ok c (s_heap s)
  end.

(* ------------------------------------------------------------ list lemmas *)
Lemma sumsz_perm : forall a b, Permutation a b -> sumsz a = sumsz b.
Proof. induction 1; simpl; lia. Qed.

Lemma sumsz_app : forall a b, sumsz (a ++ b) = sumsz a + sumsz b.
Proof. induction a; simpl; intros; [|rewrite IHa]; lia. Qed.

Lemma nodup_app_iff : forall (A : Type) (a b : list A),
  NoDup (a ++ b) <-> NoDup a /\ NoDup b /\ (forall x, In x a -> ~ In x b).
Proof.
  induction a as [|x a IH]; simpl; intros.
  - split; [intros; repeat split; auto; constructor | tauto].
  - split.
    + intros H. inversion H; subst. apply IH in H3. destruct H3 as (Ha & Hb & Hd).
      repeat split; auto.
      * constructor; auto. intro; apply H2; apply in_or_app; auto.
      * intros y [->|Hy]; [intro; apply H2; apply in_or_app; auto | auto].
    + intros (Ha & Hb & Hd). inversion Ha; subst. constructor.
      * intro Hi. apply in_app_or in Hi. destruct Hi; [auto | eapply Hd; eauto].
      * apply IH. repeat split; auto.
Qed.

Lemma perm_filter : forall (A : Type) (f : A -> bool) (a b : list A),
  Permutation a b -> Permutation (filter f a) (filter f b).
Proof.
  induction 1; simpl; auto.
  - destruct (f x); auto.
  - destruct (f x), (f y); auto. constructor.
  - eapply perm_trans; eauto.
Qed.

Lemma filter_all : forall (A : Type) (f : A -> bool) (l : list A),
  (forall x, In x l -> f x = true) -> filter f l = l.
Proof. induction l; simpl; intros; auto. rewrite H by auto. f_equal; auto. Qed.

Lemma filter_none : forall (A : Type) (f : A -> bool) (l : list A),
  (forall x, In x l -> f x = false) -> filter f l = [].
Proof. induction l; simpl; intros; auto. rewrite H by auto. auto. Qed.

Lemma nodup_ids_filter : forall f (l : list (Z * Z)), NoDup (ids l) -> NoDup (ids (filter f l)).
Proof.
  induction l; simpl; intros; auto. inversion H; subst.
  destruct (f a); simpl; auto. constructor; auto.
  intro Hi. apply H2. unfold ids in *. apply in_map_iff in Hi. destruct Hi as (x & Hx & Hin).
  apply filter_In in Hin. apply in_map_iff. exists x. tauto.
Qed.

Definition zmem (z : Z) (l : list Z) : bool := existsb (Z.eqb z) l.

Lemma zmem_in : forall z l, zmem z l = true <-> In z l.
Proof.
  unfold zmem; intros. rewrite existsb_exists. split.
  - intros (x & Hx & He). apply Z.eqb_eq in He. subst; auto.
  - intros. exists z. split; auto. apply Z.eqb_refl.
Qed.

Lemma zmem_notin : forall z l, zmem z l = false <-> ~ In z l.
Proof. intros. rewrite <- zmem_in. destruct (zmem z l); split; congruence. Qed.

(* removing from the live list all blocks whose id is in F, when live ~ F ++ K *)
Lemma perm_remove : forall (L F K : list (Z * Z)),
  Permutation L (F ++ K) -> NoDup (ids L) ->
  Permutation (filter (fun x => negb (zmem (fst x) (ids F))) L) K.
Proof.
  intros L F K HP HN.
  assert (HN' : NoDup (ids (F ++ K))).
  { eapply Permutation_NoDup; [apply Permutation_map; exact HP | exact HN]. }
  unfold ids in HN'. rewrite map_app in HN'. apply nodup_app_iff in HN'. destruct HN' as (_ & _ & Hd).
  eapply perm_trans. { apply perm_filter. exact HP. }
  rewrite filter_app.
  assert (E1 : filter (fun x => negb (zmem (fst x) (ids F))) F = []).
  { apply filter_none. intros x Hx. apply negb_false_iff. apply zmem_in. unfold ids. apply in_map; auto. }
  assert (E2 : filter (fun x => negb (zmem (fst x) (ids F))) K = K).
  { apply filter_all. intros x Hx. apply negb_true_iff. apply zmem_notin. intro Hi.
    unfold ids in Hi. apply in_map_iff in Hi. destruct Hi as (y & Hy & Hyin).
    apply (Hd (fst x)); [rewrite <- Hy; apply in_map; auto | apply in_map; auto]. }
  rewrite E1, E2. apply Permutation_refl.
Qed.

(* ------------------------------------------------------------ heap lemmas *)
Lemma malloc_ok : forall c h sz h' r,
  heap_ok c h -> sz <= c_max c -> malloc h sz = (h', r) ->
  heap_ok c h' /\
  match r with
  | None => live h' = live h
  | Some id => live h' = (id, sz) :: live h
  end.
Proof.
  unfold malloc, heap_ok. intros c h sz h' r (Hn & Hf & Hb & Ht) Hsz H.
  assert (Hfresh : ~ In (next h) (ids (live h))).
  { intro Hi. unfold ids in Hi. apply in_map_iff in Hi. destruct Hi as (x & Hx & Hin). apply Hf in Hin. lia. }
  assert (Hlt : forall x, In x ((next h, sz) :: live h) -> fst x < next h + 1).
  { intros x [<-|Hx]; [simpl; lia | apply Hf in Hx; lia]. }
  destruct (orc h) as [|[|] o]; inversion H; subst; clear H; simpl.
  all: repeat split; auto; try (constructor; simpl; auto).
Qed.

(* a failing malloc changes neither the heap contents nor anything else but oracle and trace *)
Lemma malloc_fail_unchanged : forall h sz o,
  orc h = true :: o ->
  exists h', malloc h sz = (h', None) /\ live h' = live h /\ next h' = next h /\ badfree h' = badfree h.
Proof. intros. unfold malloc. rewrite H. eexists; split; [reflexivity|]; simpl; auto. Qed.

Lemma id_live_in : forall id l, id_live id l = true <-> In id (ids l).
Proof.
  unfold id_live, ids; intros. rewrite existsb_exists. split.
  - intros (x & Hx & He). apply Z.eqb_eq in He. subst. apply in_map; auto.
  - intros Hi. apply in_map_iff in Hi. destruct Hi as (x & He & Hx). exists x. split; auto. apply Z.eqb_eq; auto.
Qed.

Definition pids (l : list pool) : list Z := map p_id l.

Lemma ids_recblk : forall c l, ids (map (recblk c) l) = pids l.
Proof. intros. unfold ids, pids. rewrite map_map. reflexivity. Qed.

(* free_list: frees exactly the blocks of the list, no bad free, accounting subtracted *)
Lemma free_list_spec : forall c l h t h' t',
  free_list c l h t = (h', t') ->
  NoDup (pids l) -> (forall i, In i (pids l) -> In i (ids (live h))) ->
  live h' = filter (fun x => negb (zmem (fst x) (pids l))) (live h) /\
  next h' = next h /\ badfree h' = badfree h /\ orc h' = orc h /\
  t' = t - sumsz (map (recblk c) l) /\
  (Forall (ev_ok c) (trace h) -> Forall (ev_ok c) (trace h')).
Proof.
  induction l as [|p l IH]; simpl; intros h t h' t' H Hn Hl.
  - inversion H; subst. repeat split; auto. symmetry. apply filter_all. auto. lia.
  - inversion Hn; subst.
    apply IH in H; auto.
    + destruct H as (E1 & E2 & E3 & E4 & E5 & E6). simpl in *.
      repeat split; auto.
      * rewrite E1. unfold remove_id. clear.
        induction (live h) as [|x r IHr]; simpl; auto.
        rewrite (Z.eqb_sym (fst x) (p_id p)).
        destruct (p_id p =? fst x) eqn:E; simpl; auto.
        destruct (zmem (fst x) (pids l)); simpl; auto. f_equal; auto.
      * rewrite E3. assert (E : id_live (p_id p) (live h) = true) by (apply id_live_in; apply Hl; auto).
        rewrite E. auto.
      * rewrite E5. lia.
      * intros. apply E6. constructor; simpl; auto.
    + intros i Hi. simpl. unfold remove_id.
      assert (i <> p_id p) by (intro; subst; auto).
      specialize (Hl i (or_intror Hi)). unfold ids in *. apply in_map_iff in Hl. destruct Hl as (x & Hx & Hin).
      apply in_map_iff. exists x. split; auto. apply filter_In. split; auto.
      apply negb_true_iff. apply Z.eqb_neq. lia.
Qed.

(* ------------------------------------------------- invariant: basic moves *)
Lemma inv_add : forall c m h m' h' id sz,
  inv c m h -> heap_ok c h' -> live h' = (id, sz) :: live h ->
  Permutation ((id, sz) :: blocks c m) (blocks c m') -> m_total m' = m_total m + sz -> inv c m' h'.
Proof.
  intros c m h m' h' id sz (HP & _ & HT) Hok Hl HB Ht. split; [|split]; auto.
  - rewrite Hl. eapply perm_trans; [apply perm_skip; exact HP | exact HB].
  - rewrite Ht, HT. apply sumsz_perm in HB.
    change (sumsz ((id, sz) :: blocks c m)) with (sz + sumsz (blocks c m)) in HB. lia.
Qed.

Lemma inv_same : forall c m h m' h',
  inv c m h -> heap_ok c h' -> live h' = live h -> blocks c m' = blocks c m -> m_total m' = m_total m -> inv c m' h'.
Proof.
  intros c m h m' h' (HP & _ & HT) Hok Hl HB Ht. split; [|split]; auto.
  - rewrite Hl, HB. auto.
  - rewrite Ht, HB. auto.
Qed.

Lemma find_pool_blocks : forall c l sz l',
  find_pool l sz = Some l' -> map (recblk c) l' = map (recblk c) l.
Proof.
  induction l as [|a l IH]; simpl; intros sz l' H; try discriminate.
  destruct (p_left a >=? sz).
  - inversion H; subst; simpl. f_equal. unfold recblk, recsize; simpl. f_equal. lia.
  - destruct (find_pool l sz) eqn:E; inversion H; subst. simpl. f_equal. eauto.
Qed.

Lemma blocks_set_small_same : forall c m pid l,
  map (recblk c) l = map (recblk c) (get_small m pid) -> blocks c (set_small m pid l) = blocks c m.
Proof.
  intros. unfold blocks, pools_of, set_small, get_small in *.
  destruct (pid =? 0); simpl; f_equal; rewrite !map_app; rewrite H; reflexivity.
Qed.

Lemma total_set_small : forall m pid l, m_total (set_small m pid l) = m_total m.
Proof. intros. unfold set_small. destruct (pid =? 0); reflexivity. Qed.
Lemma total_set_large : forall m pid l, m_total (set_large m pid l) = m_total m.
Proof. intros. unfold set_large. destruct (pid =? 0); reflexivity. Qed.

Lemma bad_pool_false : forall pid, bad_pool pid = false -> pid = 0 \/ pid = 1.
Proof. unfold bad_pool; intros. apply orb_false_iff in H. lia. Qed.

Lemma get_pool_mem_spec : forall c fuel h minreq slop h' r,
  cfg_wf c -> heap_ok c h -> minreq + slop <= c_max c -> minreq <= c_max c ->
  fuel <> O -> slop < 2 ^ (Z.of_nat fuel - 1) ->
  get_pool_mem wid c fuel h minreq slop = (h', r) ->
  heap_ok c h' /\
  match r with
  | GotPool id slop' => live h' = (id, minreq + slop') :: live h
  | GaveUp => live h' = live h
  | NoFuel => False
  end.
Proof.
  induction fuel as [|f IH]; intros h minreq slop h' r Hc Hh Hsz Hmr Hf Hs H; [congruence|].
  cbn [get_pool_mem] in H. unfold wid in H.
  destruct (malloc h (minreq + slop)) as [h1 [id|]] eqn:EM.
  - inversion H; subst. eapply malloc_ok in EM; eauto.
  - eapply malloc_ok in EM; eauto. destruct EM as (Hh1 & Hl1).
    destruct (slop / 2 <? c_minslop c) eqn:E.
    + inversion H; subst. auto.
    + assert (Hms : 1 <= c_minslop c) by (unfold cfg_wf in Hc; tauto).
      assert (1 <= slop / 2) by lia.
      assert (2 <= slop) by lia.
      assert (slop / 2 <= slop) by lia.
      destruct f as [|f'].
      * simpl in Hs. lia.
      * apply IH in H; auto; try lia.
        -- destruct H as (Hh' & Hr). split; auto. destruct r; auto; rewrite Hr, Hl1; auto.
        -- replace (Z.of_nat (S (S f')) - 1) with (Z.succ (Z.of_nat (S f') - 1)) in Hs by lia.
           rewrite Z.pow_succ_r in Hs by lia.
           apply Z.div_lt_upper_bound; lia.
Qed.

Lemma alloc_small_inv : forall c m h pid sz m' h' e,
  cfg_wf c -> inv c m h -> alloc_small wid c m h pid sz = (m', h', e) ->
  inv c m' h' /\ e <> Some OutOfFuel.
Proof.
  intros c m h pid sz m' h' e Hc Hi H. unfold alloc_small in H.
  assert (Hcc := Hc). unfold cfg_wf in Hcc.
  destruct (sz >? c_max c). { inversion H; subst. split; auto; congruence. }
  remember (rup wid sz (c_align c)) as r eqn:Er.
  set (minreq := wid (c_hdr c + r + c_align c - 1)) in *.
  assert (Emr : minreq = c_hdr c + r + c_align c - 1) by reflexivity.
  destruct (minreq >? c_max c) eqn:E1. { inversion H; subst. split; auto; congruence. }
  destruct (bad_pool pid) eqn:Ebp. { inversion H; subst. split; auto; congruence. }
  apply bad_pool_false in Ebp.
  destruct (find_pool (get_small m pid) r) as [l'|] eqn:Ef.
  - inversion H; subst m' h' e. split; [|congruence].
    apply inv_same with (m := m) (h := h); auto.
    + destruct Hi as (HP & Hok & HT); auto.
    + apply blocks_set_small_same. eapply find_pool_blocks; eauto.
    + apply total_set_small.
  - assert (Hmr : minreq <= c_max c) by lia.
    set (slop0 := match get_small m pid with [] => first_slop c pid | _ :: _ => extra_slop c pid end) in *.
    set (slop := if slop0 >? wid (c_max c - minreq) then wid (c_max c - minreq) else slop0) in *.
    assert (Hsl : slop <= c_max c - minreq) by (unfold slop, wid; destruct (slop0 >? c_max c - minreq) eqn:E; lia).
    assert (Hs0 : slop0 < 2 ^ 40).
    { unfold slop0, first_slop, extra_slop. destruct (get_small m pid); destruct (pid =? 0); lia. }
    assert (Hsl2 : slop <= slop0) by (unfold slop, wid; destruct (slop0 >? c_max c - minreq) eqn:E; lia).
    destruct (get_pool_mem wid c 64 h minreq slop) as [h1 g] eqn:Eg.
    destruct Hi as (HP & Hok & HT).
    eapply get_pool_mem_spec in Eg; eauto; try lia.
    destruct Eg as (Hok1 & Hg).
    destruct g as [id slop'| |].
    + inversion H; subst m' h' e. split; [|congruence].
      eapply inv_add with (id := id) (sz := minreq + slop'); eauto.
      { split; [|split]; eauto. }
      * unfold blocks, pools_of, set_total, set_small, get_small.
        assert (Eb : recblk c {| p_id := id; p_used := r; p_left := wid (r + slop') - r |} = (id, minreq + slop')).
        { unfold recblk, recsize, wid; simpl. f_equal. rewrite Emr. lia. }
        destruct Ebp; subst pid; simpl; rewrite ?map_app; simpl; rewrite Eb; perm_solve.
      * destruct Ebp; subst pid; reflexivity.
    + inversion H; subst m' h' e. split; [|congruence]. apply inv_same with (m := m) (h := h); auto. split; [|split]; eauto.
    + contradiction.
Qed.

Lemma alloc_large_inv : forall c m h pid sz m' h' e,
  cfg_wf c -> inv c m h -> alloc_large wid c m h pid sz = (m', h', e) ->
  inv c m' h' /\ e <> Some OutOfFuel.
Proof.
  intros c m h pid sz m' h' e Hc Hi H. unfold alloc_large in H.
  destruct (sz >? c_max c). { inversion H; subst. split; auto; congruence. }
  remember (rup wid sz (c_align c)) as r eqn:Er.
  destruct (wid (c_hdr c + r + c_align c - 1) >? c_max c) eqn:E1. { inversion H; subst. split; auto; congruence. }
  destruct (bad_pool pid) eqn:Ebp. { inversion H; subst. split; auto; congruence. }
  apply bad_pool_false in Ebp.
  set (req := wid (r + c_hdr c + c_align c - 1)) in *.
  assert (Hreq : req <= c_max c) by (unfold req, wid in *; lia).
  destruct Hi as (HP & Hok & HT).
  destruct (malloc h req) as [h1 [id|]] eqn:EM; eapply malloc_ok in EM; eauto; destruct EM as (Hok1 & Hl1).
  - inversion H; subst m' h' e. split; [|congruence].
    eapply inv_add with (id := id) (sz := req); eauto.
    { split; [|split]; eauto. }
    + unfold blocks, pools_of, set_total, set_large, get_large.
      assert (Eb : recblk c {| p_id := id; p_used := r; p_left := 0 |} = (id, req)).
      { unfold recblk, recsize, req, wid; simpl. f_equal. lia. }
      destruct Ebp; subst pid; simpl; rewrite ?map_app; simpl; rewrite Eb; perm_solve.
    + destruct Ebp; subst pid; reflexivity.
  - inversion H; subst m' h' e. split; [|congruence]. apply inv_same with (m := m) (h := h); auto. split; [|split]; eauto.
Qed.

Lemma alloc_rows_inv : forall c fuel m h pid rpc width unit currow numrows m' h' e,
  cfg_wf c -> inv c m h -> 1 <= rpc -> numrows - currow <= Z.of_nat fuel ->
  alloc_rows wid c fuel m h pid rpc width unit currow numrows = (m', h', e) ->
  inv c m' h' /\ e <> Some OutOfFuel.
Proof.
  induction fuel as [|f IH]; intros m h pid rpc width unit currow numrows m' h' e Hc Hi Hr Hf H; cbn [alloc_rows] in H.
  - destruct (currow <? numrows) eqn:E; [lia|]. inversion H; subst. split; auto; congruence.
  - destruct (currow <? numrows) eqn:E.
    2: { inversion H; subst. split; auto; congruence. }
    destruct (alloc_large wid c m h pid (wid (wid (Z.min rpc (numrows - currow) * width) * unit))) as [[m1 h1] [e1|]] eqn:EL;
      eapply alloc_large_inv in EL; eauto; destruct EL as (Hi1 & He1).
    + inversion H; subst. split; auto.
    + eapply IH in H; eauto; lia.
Qed.

Lemma alloc_sarray_inv : forall c m h prec pid width numrows m' h' e,
  cfg_wf c -> inv c m h -> alloc_sarray wid c m h prec pid width numrows = (m', h', e) ->
  inv c m' h' /\ e <> Some OutOfFuel.
Proof.
  intros c m h prec pid width numrows m' h' e Hc Hi H. unfold alloc_sarray in H.
  destruct (negb (c_align c mod sample_size prec =? 0)). { inversion H; subst. split; auto; congruence. }
  destruct (width >? c_max c). { inversion H; subst. split; auto; congruence. }
  set (w := rup wid width (2 * c_align c / sample_size prec) mod two32) in *.
  destruct (w * sample_size prec =? 0). { inversion H; subst. split; auto; congruence. }
  set (ltemp := (c_max c - c_hdr c) / (w * sample_size prec)) in *.
  destruct (ltemp <=? 0) eqn:El. { inversion H; subst. split; auto; congruence. }
  destruct (alloc_small wid c m h pid (wid (numrows * c_ptr c))) as [[m1 h1] [e1|]] eqn:ES;
    eapply alloc_small_inv in ES; eauto; destruct ES as (Hi1 & He1).
  - inversion H; subst. split; auto.
  - destruct (Z_lt_le_dec numrows 0).
    + (* no rows: loop not entered *)
      destruct (Z.to_nat numrows) eqn:En; [|lia]. cbn [alloc_rows] in H.
      destruct (0 <? numrows) eqn:E0; [lia|]. inversion H; subst. split; auto; congruence.
    + destruct (Z.eq_dec numrows 0) as [->|Hn0].
      * cbn in H. inversion H; subst. split; auto; congruence.
      * eapply alloc_rows_inv in H; eauto; try lia.
        destruct (ltemp <? numrows); lia.
Qed.

Lemma alloc_barray_inv : forall c m h pid width numrows m' h' e,
  cfg_wf c -> inv c m h -> alloc_barray wid c m h pid width numrows = (m', h', e) ->
  inv c m' h' /\ e <> Some OutOfFuel.
Proof.
  intros c m h pid width numrows m' h' e Hc Hi H. unfold alloc_barray in H.
  destruct (negb (c_block c mod c_align c =? 0)). { inversion H; subst. split; auto; congruence. }
  destruct (width * c_block c =? 0). { inversion H; subst. split; auto; congruence. }
  set (ltemp := (c_max c - c_hdr c) / (width * c_block c)) in *.
  destruct (ltemp <=? 0) eqn:El. { inversion H; subst. split; auto; congruence. }
  destruct (alloc_small wid c m h pid (wid (numrows * c_ptr c))) as [[m1 h1] [e1|]] eqn:ES;
    eapply alloc_small_inv in ES; eauto; destruct ES as (Hi1 & He1).
  - inversion H; subst. split; auto.
  - destruct (Z_lt_le_dec numrows 0).
    + destruct (Z.to_nat numrows) eqn:En; [|lia]. cbn [alloc_rows] in H.
      destruct (0 <? numrows) eqn:E0; [lia|]. inversion H; subst. split; auto; congruence.
    + destruct (Z.eq_dec numrows 0) as [->|Hn0].
      * cbn in H. inversion H; subst. split; auto; congruence.
      * eapply alloc_rows_inv in H; eauto; try lia.
        destruct (ltemp <? numrows); lia.
Qed.
