(* C09 -- generic theorem: for a resumable unit, the outcome of the chunked run
   does not depend on the partition of the byte string. *)
From Coq Require Import List ZArith Lia Arith.
From LJT Require Import model.SuspendCore.
Import ListNotations.

Lemma skipn_add {A} : forall n m (l : list A), skipn (n + m) l = skipn m (skipn n l).
Proof.
  induction n; intros m l; simpl; [reflexivity|].
  destruct l; [now rewrite skipn_nil | apply IHn].
Qed.

Lemma skipn_app_le {A} : forall n (l1 l2 : list A), n <= length l1 ->
  skipn n (l1 ++ l2) = skipn n l1 ++ l2.
Proof.
  intros. rewrite skipn_app. replace (n - length l1) with 0 by lia. reflexivity.
Qed.

Lemma skipn_app_ge {A} : forall n (l1 l2 : list A), length l1 <= n ->
  skipn n (l1 ++ l2) = skipn (n - length l1) l2.
Proof.
  intros. rewrite skipn_app. rewrite skipn_all2 by lia. reflexivity.
Qed.

Section Generic.
  Variables st err : Type.
  Variable u : st -> list byte -> ures st err.
  Variable slack : st -> nat.
  Hypothesis R : resumable u slack.

  Notation drain_f := (drain_f u).
  Notation drain := (drain u slack).
  Notation feed := (feed u slack).

  Lemma fuel_irrelevant : forall f1 f2 s b,
    slack s + length b < f1 -> slack s + length b < f2 -> drain_f f1 s b = drain_f f2 s b.
  Proof.
    induction f1 as [|f1 IH]; intros f2 s b H1 H2; [lia|].
    destruct f2 as [|f2]; [lia|]. simpl.
    destruct (u s b) as [s' n k| | |] eqn:E; try reflexivity.
    destruct (done_stable _ _ _ _ R _ _ _ _ _ E) as (Hn & Hs & _).
    destruct (Nat.leb k (length (skipn n b))) eqn:L; [|reflexivity].
    apply Nat.leb_le in L.
    apply IH; rewrite !skipn_length in *; lia.
  Qed.

  Lemma fuel_sufficient : forall f s b, slack s + length b < f -> drain_f f s b <> OutOfFuel.
  Proof.
    induction f as [|f IH]; intros s b H; [lia|]. simpl.
    destruct (u s b) as [s' n k| | |] eqn:E; try discriminate.
    destruct (done_stable _ _ _ _ R _ _ _ _ _ E) as (Hn & Hs & _).
    destruct (Nat.leb k (length (skipn n b))) eqn:L; [|discriminate].
    apply Nat.leb_le in L.
    apply IH; rewrite !skipn_length in *; lia.
  Qed.

  Lemma drain_unfold : forall s b, drain s b =
    match u s b with
    | Done s' n k =>
        let b1 := skipn n b in
        if Nat.leb k (length b1) then drain s' (skipn k b1) else Susp s' [] (k - length b1)
    | More s' n => Susp s' (skipn n b) 0
    | Fail e => Failed e
    | Halt => Halted s b
    end.
  Proof.
    intros. unfold SuspendCore.drain at 1. cbn [SuspendCore.drain_f].
    destruct (u s b) as [s' n k| | |] eqn:E; try reflexivity.
    destruct (done_stable _ _ _ _ R _ _ _ _ _ E) as (Hn & Hs & _).
    cbv zeta.
    destruct (Nat.leb k (length (skipn n b))) eqn:L; [|reflexivity].
    apply Nat.leb_le in L. unfold SuspendCore.drain.
    apply fuel_irrelevant; rewrite !skipn_length in *; lia.
  Qed.

  (* feeding one more chunk to a suspended call = calling on the longer input *)
  Lemma feed_drain : forall f s b c, slack s + length b < f ->
    feed (drain_f f s b) c = drain s (b ++ c).
  Proof.
    induction f as [|f IH]; intros s b c Hf; [lia|].
    rewrite (drain_unfold s (b ++ c)). simpl.
    destruct (u s b) as [s' n k|s1 n|x|] eqn:E.
    - destruct (done_stable _ _ _ _ R _ _ _ _ _ E) as (Hn & Hs & Hst).
      rewrite (Hst c). cbv zeta.
      rewrite (skipn_app_le n b c Hn).
      destruct (Nat.leb k (length (skipn n b))) eqn:L.
      + apply Nat.leb_le in L.
        rewrite app_length.
        replace (Nat.leb k (length (skipn n b) + length c)) with true
          by (symmetry; apply Nat.leb_le; lia).
        rewrite (skipn_app_le k _ c L).
        apply IH. rewrite !skipn_length in *. lia.
      + apply Nat.leb_gt in L. simpl.
        rewrite app_length.
        destruct (Nat.eqb (k - length (skipn n b) - length c) 0) eqn:Z.
        * apply Nat.eqb_eq in Z.
          replace (Nat.leb k (length (skipn n b) + length c)) with true
            by (symmetry; apply Nat.leb_le; lia).
          rewrite skipn_app_ge by lia. reflexivity.
        * apply Nat.eqb_neq in Z.
          replace (Nat.leb k (length (skipn n b) + length c)) with false
            by (symmetry; apply Nat.leb_gt; lia).
          f_equal. lia.
    - destruct (more_replay _ _ _ _ R _ _ _ _ E) as (Hn & Hrp).
      rewrite (Hrp c). simpl.
      rewrite (drain_unfold s1).
      destruct (u s1 (skipn n b ++ c)) as [s' m k|s2 m|y|] eqn:E1; simpl.
      + rewrite skipn_add, (skipn_app_le n b c Hn). reflexivity.
      + rewrite skipn_add, (skipn_app_le n b c Hn). reflexivity.
      + reflexivity.
      + exfalso. pose proof (Hrp c) as H. rewrite E1 in H. simpl in H.
        rewrite (halt_state _ _ _ _ R _ _ H b) in E. discriminate.
    - rewrite (fail_stable _ _ _ _ R _ _ _ E c). reflexivity.
    - rewrite (halt_state _ _ _ _ R _ _ E (b ++ c)). reflexivity.
  Qed.

  Lemma feed_drain' : forall s b c, feed (drain s b) c = drain s (b ++ c).
  Proof. intros. apply feed_drain. lia. Qed.

  Lemma run_from : forall cs s b, fold_left feed cs (drain s b) = drain s (b ++ concat cs).
  Proof.
    induction cs as [|c cs IH]; intros s b; simpl.
    - now rewrite app_nil_r.
    - rewrite feed_drain', IH, app_assoc. reflexivity.
  Qed.

  Theorem run_chunked_eq_drain : forall cs s, run_chunked u slack cs s = drain s (concat cs).
  Proof. intros. unfold run_chunked. apply run_from. Qed.

  (* every partition of a byte string gives the outcome of the single-buffer run *)
  Theorem chunking_irrelevant_generic : forall cs s,
    run_chunked u slack cs s = run_chunked u slack [concat cs] s.
  Proof.
    intros. rewrite !run_chunked_eq_drain. simpl. now rewrite app_nil_r.
  Qed.

  Theorem chunking_irrelevant_two : forall cs1 cs2 s, concat cs1 = concat cs2 ->
    run_chunked u slack cs1 s = run_chunked u slack cs2 s.
  Proof. intros. rewrite !run_chunked_eq_drain. congruence. Qed.

  Theorem run_never_out_of_fuel : forall cs s, run_chunked u slack cs s <> OutOfFuel.
  Proof.
    intros. rewrite run_chunked_eq_drain. apply fuel_sufficient. lia.
  Qed.
End Generic.
