(* C14 -- tj3Init(): with a setjmp handler that destroys what was created, no allocation
   failure can leak (all oracles, all three init types); with the handler that only
   frees the instance struct, a leak exists (witness = finding F4). *)
From Coq Require Import List ZArith Bool Lia Permutation ZifyBool.
From LJT Require Import model.MemMgr model.TjInit proofs.MemMgrProofs proofs.MemMgrWrap.
Import ListNotations.
Local Open Scope Z_scope.

Lemma free_block_spec : forall c h id sz F,
  Permutation (live h) ((id, sz) :: F) -> heap_ok c h ->
  Permutation (live (free h id)) F /\ heap_ok c (free h id).
Proof.
  intros c h id sz F HP (Hn & Hfr & Hb & Htr).
  assert (Hin : id_live id (live h) = true).
  { apply id_live_in. unfold ids. eapply Permutation_in; [apply Permutation_sym; apply Permutation_map; exact HP|]. simpl. auto. }
  assert (HR : Permutation (remove_id id (live h)) F).
  { pose proof (perm_remove (live h) [(id, sz)] F HP Hn) as P.
    unfold remove_id.
    rewrite (filter_ext _ (fun x => negb (zmem (fst x) (ids [(id, sz)])))); [exact P|].
    intros a. unfold zmem. simpl. rewrite orb_false_r. reflexivity. }
  unfold free. simpl. rewrite Hin.
  split; auto. unfold heap_ok; simpl. repeat split; auto.
  - unfold remove_id. apply nodup_ids_filter. auto.
  - intros x Hx. unfold remove_id in Hx. apply filter_In in Hx. apply Hfr; tauto.
  - constructor; simpl; auto.
Qed.

Lemma small_seq_inv : forall F c szs m h m' h' ok,
  cfg_wf c -> inv F c m h -> small_seq wid c m h szs = (m', h', ok) -> inv F c m' h'.
Proof.
  induction szs as [|sz r IH]; intros m h m' h' ok Hc Hi H; simpl in H.
  - inversion H; subst; auto.
  - destruct (alloc_small wid c m h 0 sz) as [[m1 h1] [e|]] eqn:E; eapply alloc_small_inv in E; eauto; destruct E as (Hi1 & _).
    + inversion H; subst; auto.
    + eapply IH; eauto.
Qed.

(* one half with the destroying handler: either the object exists and the invariant holds
   relative to the frame, or the heap is back to the frame *)
Lemma init_half_fixed : forall F c h szs om h' ok,
  cfg_wf c -> Permutation (live h) F -> heap_ok c h ->
  init_half wid c true h szs = (om, h', ok) ->
  match om with
  | Some m => ok = true /\ inv F c m h'
  | None => ok = false /\ Permutation (live h') F /\ heap_ok c h'
  end.
Proof.
  intros F c h szs om h' ok Hc Hl Hok H. unfold init_half in H.
  destruct (jinit_memory_mgr wid c h) as [[[m|] h1] e] eqn:EJ; eapply jinit_inv in EJ; eauto; destruct EJ as (EJ & _).
  - destruct (small_seq wid c m h1 szs) as [[m1 h2] [|]] eqn:ES; eapply small_seq_inv in ES; eauto.
    + inversion H; subst. auto.
    + inversion H; subst. split; auto. apply self_destruct_spec. auto.
  - inversion H; subst. destruct EJ. auto.
Qed.

Lemma empty_heap_ok : forall c oracle, heap_ok c (empty_heap oracle).
Proof. intros. unfold heap_ok, empty_heap; simpl. repeat split; auto. constructor. intros x []. Qed.

Lemma perm_nil_eq : forall (A : Type) (l : list A), Permutation l [] -> l = [].
Proof. intros. apply Permutation_sym in H. apply Permutation_nil in H. auto. Qed.

Lemma heap_ok_badfree : forall c h, heap_ok c h -> badfree h = 0.
Proof. intros c h (_ & _ & Hb & _). auto. Qed.

(* tj3Init + (on success) tj3Destroy with the destroying handler: nothing remains, whatever fails *)
Theorem tj3_init_fixed_no_leak : forall c ty oracle sz_this csz dsz,
  cfg_wf c -> sz_this <= c_max c ->
  let '(ok, h) := tj3_init_destroy wid c true ty (empty_heap oracle) sz_this csz dsz in
  live h = [] /\ badfree h = 0.
Proof.
  intros c ty oracle sz_this csz dsz Hc Hsz. unfold tj3_init_destroy, tj3_init.
  pose proof (empty_heap_ok c oracle) as Hok0.
  destruct (malloc (empty_heap oracle) (wid sz_this)) as [h0 [this|]] eqn:EM; eapply malloc_ok in EM; eauto; destruct EM as (Hok & Hl).
  2: { unfold tj3_destroy; cbn. split; [rewrite Hl; reflexivity | eapply heap_ok_badfree; eauto]. }
  simpl in Hl. set (F1 := [(this, wid sz_this)]) in *.
  assert (HP0 : Permutation (live h0) F1) by (rewrite Hl; apply Permutation_refl).
  assert (Hfin : forall h, Permutation (live h) F1 -> heap_ok c h -> live (free h this) = [] /\ badfree (free h this) = 0).
  { intros h HP Hh. destruct (free_block_spec c h this (wid sz_this) [] HP Hh) as (P & O).
    split; [apply perm_nil_eq; auto | eapply heap_ok_badfree; eauto]. }
  destruct ty.
  - (* compress *)
    destruct (init_half wid c true h0 csz) as [[om h1] ok] eqn:E1. eapply init_half_fixed in E1; eauto.
    destruct om as [m|]; destruct E1 as (-> & E1).
    + cbn. destruct E1 as (P & O & T). pose proof (self_destruct_spec F1 c m h1 (conj P (conj O T))) as (P2 & O2).
      unfold tj3_destroy; cbn. apply Hfin; auto.
    + cbn. destruct E1. unfold tj3_destroy; cbn. apply Hfin; auto.
  - (* decompress *)
    destruct (init_half wid c true h0 dsz) as [[om h1] ok] eqn:E1. eapply init_half_fixed in E1; eauto.
    destruct om as [m|]; destruct E1 as (-> & E1).
    + cbn. destruct E1 as (P & O & T). pose proof (self_destruct_spec F1 c m h1 (conj P (conj O T))) as (P2 & O2).
      unfold tj3_destroy; cbn. apply Hfin; auto.
    + cbn. destruct E1. unfold tj3_destroy; cbn. apply Hfin; auto.
  - (* transform *)
    destruct (init_half wid c true h0 csz) as [[om h1] ok] eqn:E1. eapply init_half_fixed in E1; eauto.
    destruct om as [mc|]; destruct E1 as (-> & E1).
    2: { cbn. destruct E1. unfold tj3_destroy; cbn. apply Hfin; auto. }
    destruct E1 as (Pc & Oc & Tc).
    destruct (init_half wid c true h1 dsz) as [[omd h2] okd] eqn:E2.
    eapply (init_half_fixed (blocks c mc ++ F1)) in E2; eauto.
    destruct omd as [md|]; destruct E2 as (-> & E2).
    + (* both halves exist; tj3Destroy: compress first, then decompress, then free(this) *)
      cbn. destruct E2 as (Pd & Od & Td). unfold tj3_destroy; cbn.
      assert (Ic : inv (blocks c md ++ F1) c mc h2).
      { split; [|split]; auto. eapply perm_trans; [exact Pd|]. rewrite app_assoc. rewrite app_assoc.
        apply Permutation_app_tail. apply Permutation_app_comm. }
      pose proof (self_destruct_spec _ c mc h2 Ic) as (P3 & O3).
      assert (Id : inv F1 c md (self_destruct c mc h2)) by (split; [|split]; auto).
      pose proof (self_destruct_spec _ c md _ Id) as (P4 & O4).
      apply Hfin; auto.
    + (* the decompress half failed: its handler destroys the compress half too *)
      cbn. destruct E2 as (P2 & O2). unfold tj3_destroy; cbn.
      assert (Ic : inv F1 c mc h2) by (split; [|split]; auto).
      pose proof (self_destruct_spec _ c mc h2 Ic) as (P3 & O3).
      apply Hfin; auto.
Qed.

(* the mod-2^64 version coincides *)
Lemma small_seq_eq : forall c szs m h, cfg_wf c -> Forall (fun z => 0 <= z) szs ->
  small_seq w64 c m h szs = small_seq wid c m h szs.
Proof.
  induction szs as [|sz r IH]; intros m h Hc Hf; simpl; auto.
  inversion Hf; subst. rewrite alloc_small_eq by auto.
  destruct (alloc_small wid c m h 0 sz) as [[m1 h1] [e|]]; auto.
Qed.

Lemma init_half_eq : forall c hd h szs, cfg_wf c -> Forall (fun z => 0 <= z) szs ->
  init_half w64 c hd h szs = init_half wid c hd h szs.
Proof.
  intros. unfold init_half, jinit_memory_mgr.
  assert (Hcc := H). unfold cfg_wf in Hcc. pose proof two64_big.
  rewrite w64_small by lia. rewrite wid_id.
  destruct (malloc h (c_mgr c)) as [h1 [id|]]; auto.
  rewrite small_seq_eq by auto. reflexivity.
Qed.

Lemma tj3_init_eq : forall c hd ty h sz_this csz dsz,
  cfg_wf c -> 0 <= sz_this < two64 -> Forall (fun z => 0 <= z) csz -> Forall (fun z => 0 <= z) dsz ->
  tj3_init w64 c hd ty h sz_this csz dsz = tj3_init wid c hd ty h sz_this csz dsz.
Proof.
  intros. unfold tj3_init. rewrite w64_small by auto. rewrite wid_id.
  destruct (malloc h sz_this) as [h0 [this|]]; auto.
  destruct ty; rewrite ?init_half_eq by auto; auto.
  destruct (init_half wid c hd h0 csz) as [[[mc|] h1] [|]]; auto.
  rewrite init_half_eq by auto. reflexivity.
Qed.

Theorem tj3_init_fixed_no_leak64 : forall c ty oracle sz_this csz dsz,
  cfg_wf c -> 0 <= sz_this <= c_max c -> Forall (fun z => 0 <= z) csz -> Forall (fun z => 0 <= z) dsz ->
  let '(ok, h) := tj3_init_destroy w64 c true ty (empty_heap oracle) sz_this csz dsz in
  live h = [] /\ badfree h = 0.
Proof.
  intros c ty oracle sz_this csz dsz Hc Hs Hcs Hds.
  unfold tj3_init_destroy. rewrite tj3_init_eq; auto.
  - apply (tj3_init_fixed_no_leak c ty oracle sz_this csz dsz Hc); lia.
  - assert (Hcc := Hc). unfold cfg_wf in Hcc. pose proof two64_big. lia.
Qed.
