(* C07 -- rounding error of jpeg_fdct_islow (model) DERIVED from the integer model: the two DESCALE
   passes differ from the exact integer-linear flow graph fdct_lin (same butterflies and FIX_*
   constants, no shifts, outputs scaled by 2^CONST_BITS per pass) by at most
   2^25 + 2^16 * 2^(sh1-1) in units of 2^-26, i.e. 1.5 (8-bit) / 2.5 (12-bit) coefficient units. *)
From Coq Require Import List ZArith Lia Bool ZifyBool.
From LJT Require Import gen.GenDctConst model.Quant model.Dct proofs.QuantCert proofs.QuantProofs proofs.DctProofs proofs.DctRange.
Import ListNotations.
Local Open Scope Z_scope.
Ltac Zify.zify_post_hook ::= Z.div_mod_to_equations.

(* one 1-D pass of the LL&M flow graph over Z, no rounding: every output carries the factor 2^13 *)
Definition fdct_lin (d : list Z) : list Z :=
  match d with
  | [d0; d1; d2; d3; d4; d5; d6; d7] =>
    let tmp0 := d0 + d7 in let tmp7 := d0 - d7 in let tmp1 := d1 + d6 in let tmp6 := d1 - d6 in
    let tmp2 := d2 + d5 in let tmp5 := d2 - d5 in let tmp3 := d3 + d4 in let tmp4 := d3 - d4 in
    let tmp10 := tmp0 + tmp3 in let tmp13 := tmp0 - tmp3 in let tmp11 := tmp1 + tmp2 in let tmp12 := tmp1 - tmp2 in
    let z1 := (tmp12 + tmp13) * FFIX_0_541196100 in
    let z5 := (tmp4 + tmp6 + (tmp5 + tmp7)) * FFIX_1_175875602 in
    let z3 := (tmp4 + tmp6) * (- FFIX_1_961570560) + z5 in
    let z4 := (tmp5 + tmp7) * (- FFIX_0_390180644) + z5 in
    let y1 := (tmp4 + tmp7) * (- FFIX_0_899976223) in
    let y2 := (tmp5 + tmp6) * (- FFIX_2_562915447) in
    [ (tmp10 + tmp11) * 2 ^ fdct_const_bits;
      tmp7 * FFIX_1_501321110 + y1 + z4;
      z1 + tmp13 * FFIX_0_765366865;
      tmp6 * FFIX_3_072711026 + y2 + z3;
      (tmp10 - tmp11) * 2 ^ fdct_const_bits;
      tmp5 * FFIX_2_053119869 + y2 + z4;
      z1 + tmp12 * (- FFIX_1_847759065);
      tmp4 * FFIX_0_298631336 + y1 + z3 ]
  | _ => d
  end.

Definition fdct_lin2d (data : list Z) : list Z :=
  concat (transpose8 (map fdct_lin (transpose8 (map fdct_lin (rows8 data))))).

Definition sh1 (cf : cfg) : Z := fdct_const_bits - fpass1 cf.        (* 11 / 12 *)
Definition close (s e a l : Z) : Prop := - e <= s * a - l <= e.
Definition rbound (cf : cfg) : Z := 2 ^ 25 + 2 ^ 16 * 2 ^ (sh1 cf - 1).

Ltac lin_open :=
  unfold fdct_lin; cbv zeta; change fdct_const_bits with 13;
  unfold FFIX_0_298631336, FFIX_0_390180644, FFIX_0_541196100, FFIX_0_765366865, FFIX_0_899976223, FFIX_1_175875602,
     FFIX_1_501321110, FFIX_1_847759065, FFIX_1_961570560, FFIX_2_053119869, FFIX_2_562915447, FFIX_3_072711026;
  norm_pow.

Lemma fdct_pass1_round cf d0 d1 d2 d3 d4 d5 d6 d7 : cfg_ok cf ->
  inb (centersample cf) d0 -> inb (centersample cf) d1 -> inb (centersample cf) d2 -> inb (centersample cf) d3 ->
  inb (centersample cf) d4 -> inb (centersample cf) d5 -> inb (centersample cf) d6 -> inb (centersample cf) d7 ->
  exists y0 y1 y2 y3 y4 y5 y6 y7 l0 l1 l2 l3 l4 l5 l6 l7,
    fdct_1d cf false [d0; d1; d2; d3; d4; d5; d6; d7] = [y0; y1; y2; y3; y4; y5; y6; y7] /\
    fdct_lin [d0; d1; d2; d3; d4; d5; d6; d7] = [l0; l1; l2; l3; l4; l5; l6; l7] /\
    (inb (b1 cf) y0 /\ inb (b1 cf) y1 /\ inb (b1 cf) y2 /\ inb (b1 cf) y3 /\
     inb (b1 cf) y4 /\ inb (b1 cf) y5 /\ inb (b1 cf) y6 /\ inb (b1 cf) y7) /\
    close (2 ^ sh1 cf) (2 ^ (sh1 cf - 1)) y0 l0 /\ close (2 ^ sh1 cf) (2 ^ (sh1 cf - 1)) y1 l1 /\
    close (2 ^ sh1 cf) (2 ^ (sh1 cf - 1)) y2 l2 /\ close (2 ^ sh1 cf) (2 ^ (sh1 cf - 1)) y3 l3 /\
    close (2 ^ sh1 cf) (2 ^ (sh1 cf - 1)) y4 l4 /\ close (2 ^ sh1 cf) (2 ^ (sh1 cf - 1)) y5 l5 /\
    close (2 ^ sh1 cf) (2 ^ (sh1 cf - 1)) y6 l6 /\ close (2 ^ sh1 cf) (2 ^ (sh1 cf - 1)) y7 l7.
Proof.
  intros Hok. unfold inb, b1, close, sh1.
  cfg_cases cf Hok; sample_consts; change fdct_const_bits with 13; norm_pow; intros; fdct_open; lin_open;
    repeat match goal with |- context [wrapS ?w ?x] => rewrite (wrapS_small w x) by (norm_pow; lia) end;
    do 16 eexists; (split; [reflexivity|]); (split; [reflexivity|]); repeat split; lia.
Qed.

(* pass 2 on a column whose entries a_i are the rounded pass-1 values of exact values l_i *)
Lemma fdct_pass2_round cf a0 a1 a2 a3 a4 a5 a6 a7 l0 l1 l2 l3 l4 l5 l6 l7 : cfg_ok cf ->
  inb (b1 cf) a0 -> inb (b1 cf) a1 -> inb (b1 cf) a2 -> inb (b1 cf) a3 ->
  inb (b1 cf) a4 -> inb (b1 cf) a5 -> inb (b1 cf) a6 -> inb (b1 cf) a7 ->
  close (2 ^ sh1 cf) (2 ^ (sh1 cf - 1)) a0 l0 -> close (2 ^ sh1 cf) (2 ^ (sh1 cf - 1)) a1 l1 ->
  close (2 ^ sh1 cf) (2 ^ (sh1 cf - 1)) a2 l2 -> close (2 ^ sh1 cf) (2 ^ (sh1 cf - 1)) a3 l3 ->
  close (2 ^ sh1 cf) (2 ^ (sh1 cf - 1)) a4 l4 -> close (2 ^ sh1 cf) (2 ^ (sh1 cf - 1)) a5 l5 ->
  close (2 ^ sh1 cf) (2 ^ (sh1 cf - 1)) a6 l6 -> close (2 ^ sh1 cf) (2 ^ (sh1 cf - 1)) a7 l7 ->
  exists z0 z1 z2 z3 z4 z5 z6 z7 m0 m1 m2 m3 m4 m5 m6 m7,
    fdct_1d cf true [a0; a1; a2; a3; a4; a5; a6; a7] = [z0; z1; z2; z3; z4; z5; z6; z7] /\
    fdct_lin [l0; l1; l2; l3; l4; l5; l6; l7] = [m0; m1; m2; m3; m4; m5; m6; m7] /\
    close (2 ^ 26) (rbound cf) z0 m0 /\ close (2 ^ 26) (rbound cf) z1 m1 /\
    close (2 ^ 26) (rbound cf) z2 m2 /\ close (2 ^ 26) (rbound cf) z3 m3 /\
    close (2 ^ 26) (rbound cf) z4 m4 /\ close (2 ^ 26) (rbound cf) z5 m5 /\
    close (2 ^ 26) (rbound cf) z6 m6 /\ close (2 ^ 26) (rbound cf) z7 m7.
Proof.
  intros Hok. unfold inb, b1, close, rbound, sh1.
  cfg_cases cf Hok; sample_consts; change fdct_const_bits with 13; norm_pow; intros; fdct_open; lin_open;
    repeat match goal with |- context [wrapS ?w ?x] => rewrite (wrapS_small w x) by (norm_pow; lia) end;
    do 16 eexists; (split; [reflexivity|]); (split; [reflexivity|]); repeat split; lia.
Qed.

(* every coefficient of every block of centred valid samples: |2^26 * F - exact integer flow graph| <= rbound *)
Theorem fdct_rounding_error_proof : forall cf data, cfg_ok cf -> length data = 64%nat ->
  Forall (inb (centersample cf)) data ->
  Forall2 (fun f l => - rbound cf <= 2 ^ 26 * f - l <= rbound cf) (fdct_islow cf data) (fdct_lin2d data).
Proof.
  intros cf data Hok Hlen HF.
  do 64 (destruct data as [|? data]; [discriminate Hlen|]). destruct data; [|discriminate Hlen].
  do 8 (apply Forall8 in HF; destruct HF as (?&?&?&?&?&?&?&?&HF)).
  unfold fdct_islow, fdct_lin2d.
  match goal with |- context [rows8 ?l] =>
    let r := eval cbv [rows8 seq map firstn skipn Nat.mul Nat.add] in (rows8 l) in change (rows8 l) with r end.
  cbn [map].
  repeat match goal with |- context [fdct_1d cf false [?a0; ?a1; ?a2; ?a3; ?a4; ?a5; ?a6; ?a7]] =>
    let E := fresh "E" in let E' := fresh "E" in
    destruct (fdct_pass1_round cf a0 a1 a2 a3 a4 a5 a6 a7 Hok)
      as (?&?&?&?&?&?&?&?&?&?&?&?&?&?&?&?&E&E'&(?&?&?&?&?&?&?&?)&?&?&?&?&?&?&?&?); [assumption..|];
    rewrite E, E'; clear E E' end.
  repeat match goal with |- context [transpose8 ?m] =>
    lazymatch m with
    | context [fdct_1d] => fail
    | context [fdct_lin] => fail
    | _ => let r := eval cbv [transpose8 seq map nth] in (transpose8 m) in change (transpose8 m) with r
    end end.
  cbn [map].
  repeat match goal with |- context [fdct_1d cf true [?a0; ?a1; ?a2; ?a3; ?a4; ?a5; ?a6; ?a7]] =>
    match goal with |- context [fdct_lin [?l0; ?l1; ?l2; ?l3; ?l4; ?l5; ?l6; ?l7]] =>
      match goal with _ : close _ _ a0 l0 |- _ =>
        let E := fresh "E" in let E' := fresh "E" in
        destruct (fdct_pass2_round cf a0 a1 a2 a3 a4 a5 a6 a7 l0 l1 l2 l3 l4 l5 l6 l7 Hok)
          as (?&?&?&?&?&?&?&?&?&?&?&?&?&?&?&?&E&E'&?&?&?&?&?&?&?&?); [assumption..|];
        rewrite E, E'; clear E E' end end end.
  cbv [transpose8 seq map nth concat app].
  unfold close in *.
  repeat (constructor; [lia|]). constructor.
Qed.
