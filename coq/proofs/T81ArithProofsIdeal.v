(* Annex D, level 1 of the round-trip argument: the D.2 decoder follows an IDEALISED
   encoder whose code register is an unbounded integer.  K is a fixed number of bits, X the
   final code value as an integer in units of 2^-K; the idealised state (a, c, s) denotes
   the interval [c * 2^s, (c + a) * 2^s) of such values (s = K - 16 - number of shifts), so
   renormalisation leaves the interval unchanged and coding a decision narrows it.  If X
   lies in the final interval, the decoder -- whose C register is
   (X / 2^(s-ct)) * 2^(16-ct) - c * 2^16 -- returns every decision. *)
From Coq Require Import List ZArith Bool Lia Arith FMapPositive.
From LJT Require Import model.T81Spec model.T81Arith proofs.T81QMProofs.
Import ListNotations.
Local Open Scope Z_scope.

(* ------------------------------------------------------------ powers of two *)
Lemma pow2_pos : forall n, 0 <= n -> 0 < 2 ^ n.
Proof. intros. apply Z.pow_pos_nonneg; lia. Qed.

Lemma pow2_split : forall u v, 0 <= v <= u -> 2 ^ u = 2 ^ (u - v) * 2 ^ v.
Proof. intros. rewrite <- Z.pow_add_r by lia. f_equal. lia. Qed.

Lemma div_div_pow : forall X u v, 0 <= v <= u -> (X / 2 ^ (u - v)) / 2 ^ v = X / 2 ^ u.
Proof.
  intros. pose proof (pow2_pos (u - v) ltac:(lia)). pose proof (pow2_pos v ltac:(lia)).
  rewrite Z.div_div by lia. rewrite <- Z.pow_add_r by lia. f_equal. f_equal. lia.
Qed.

(* the next byte below position u *)
Lemma next_byte : forall X u, 8 <= u -> X / 2 ^ (u - 8) = (X / 2 ^ u) * 256 + (X mod 2 ^ u) / 2 ^ (u - 8).
Proof.
  intros X u Hu. pose proof (pow2_pos (u - 8) ltac:(lia)) as P.
  rewrite (Z.div_mod X (2 ^ u)) at 1 by (pose proof (pow2_pos u ltac:(lia)); lia).
  rewrite (pow2_split u 8) at 1 by lia. change (2 ^ 8) with 256.
  replace (2 ^ (u - 8) * 256 * (X / 2 ^ u)) with ((X / 2 ^ u) * 256 * 2 ^ (u - 8)) by ring.
  rewrite Z.div_add_l by lia. reflexivity.
Qed.

(* ---------------------------------------------------------- idealised encoder *)
Record ienc := { ia : Z; ic : Z; isf : Z; ist : stats }.

Fixpoint i_renorm (fuel : nat) (a c s : Z) : Z * Z * Z :=
  match fuel with
  | O => (a, c, s)
  | S f => if a * 2 >=? 32768 then (a * 2, c * 2, s - 1) else i_renorm f (a * 2) (c * 2) (s - 1)
  end.

Definition i_encode (q : ienc) (kd : Z * bool) : ienc :=
  let '(key, d) := kd in
  let e := st_get (ist q) key in
  let '(idx, mps) := e in
  let '(qe, _, _, _) := qe_entry idx in
  let a1 := ia q - qe in
  if Z.eqb (b2z d) mps then
    if a1 <? 32768 then
      let '(a2, c2) := if a1 <? qe then (qe, ic q + a1) else (a1, ic q) in
      let '(a3, c3, s3) := i_renorm 16 a2 c2 (isf q) in
      {| ia := a3; ic := c3; isf := s3; ist := st_set (ist q) key (est_mps e) |}
    else {| ia := a1; ic := ic q; isf := isf q; ist := ist q |}
  else
    let '(a2, c2) := if a1 <? qe then (a1, ic q) else (qe, ic q + a1) in
    let '(a3, c3, s3) := i_renorm 16 a2 c2 (isf q) in
    {| ia := a3; ic := c3; isf := s3; ist := st_set (ist q) key (est_lps e) |}.

(* absolute interval *)
Definition ilow (q : ienc) : Z := ic q * 2 ^ isf q.
Definition iwid (q : ienc) : Z := ia q * 2 ^ isf q.
Definition inside (X : Z) (q : ienc) : Prop := ilow q <= X < ilow q + iwid q.

Lemma i_renorm_spec : forall fuel a c s, 1 <= a < 32768 -> 32768 <= a * 2 ^ Z.of_nat fuel ->
  let '(a', c', s') := i_renorm fuel a c s in
  32768 <= a' <= 65535 /\ s' <= s - 1 /\ s - Z.of_nat fuel <= s' /\ (0 <= s' -> c' * 2 ^ s' = c * 2 ^ s /\ a' * 2 ^ s' = a * 2 ^ s).
Proof.
  induction fuel; intros a c s Ha Hf.
  - change (2 ^ Z.of_nat 0) with 1 in Hf. lia.
  - rewrite Nat2Z.inj_succ. rewrite Nat2Z.inj_succ, Z.pow_succ_r in Hf by lia. cbn [i_renorm].
    assert (Hs : 0 <= s - 1 -> 2 ^ s = 2 * 2 ^ (s - 1)).
    { intros. replace s with (Z.succ (s - 1)) at 1 by lia. rewrite Z.pow_succ_r by lia. reflexivity. }
    destruct (a * 2 >=? 32768) eqn:E.
    + apply Z.geb_le in E. split; [lia|split; [lia|split; [lia|]]]. intros H0. rewrite Hs by lia. split; ring.
    + rewrite Z.geb_leb in E. apply Z.leb_gt in E.
      specialize (IHfuel (a * 2) (c * 2) (s - 1) ltac:(lia) ltac:(lia)).
      destruct (i_renorm fuel (a * 2) (c * 2) (s - 1)) as [[a' c'] s'].
      destruct IHfuel as (A1 & A2 & A3 & A4). split; [lia|split; [lia|split; [lia|]]].
      intros H0. destruct (A4 H0) as [B1 B2]. rewrite B1, B2. rewrite Hs by lia. split; ring.
Qed.

(* ------------------------------------------------------- the decoder's input *)
(* value of the first j bytes of inp (zero-extended), big-endian *)
Fixpoint tail_val (inp : list Z) (j : nat) {struct j} : Z :=
  match j with
  | O => 0
  | S j' => match inp with b :: t => b * 2 ^ (8 * Z.of_nat j') + tail_val t j' | [] => 0 end
  end.

Lemma tail_val_bound : forall j inp, isbytes inp -> 0 <= tail_val inp j < 2 ^ (8 * Z.of_nat j).
Proof.
  induction j; intros inp H; cbn [tail_val].
  - change (tail_val inp 0) with 0. change (8 * Z.of_nat 0) with 0. rewrite Z.pow_0_r. lia.
  - pose proof (pow2_pos (8 * Z.of_nat j) ltac:(lia)) as P.
    assert (E : 2 ^ (8 * Z.of_nat (S j)) = 256 * 2 ^ (8 * Z.of_nat j)).
    { replace (8 * Z.of_nat (S j)) with (8 + 8 * Z.of_nat j) by lia. rewrite Z.pow_add_r by lia. reflexivity. }
    rewrite E. destruct inp as [|b t]; [lia|]. inversion H; subst.
    specialize (IHj t H3). nia.
Qed.

(* the unread input holds the low u bits of X *)
Definition inp_rel (inp : list Z) (X u : Z) : Prop :=
  exists j, u = 8 * Z.of_nat j /\ X mod 2 ^ u = tail_val inp j /\ isbytes inp.

Lemma byte_in_rel : forall c inp X u, inp_rel inp X u -> 8 <= u ->
  let '(c', inp') := byte_in c inp in
  c' = c + ((X mod 2 ^ u) / 2 ^ (u - 8)) * 256 /\ inp_rel inp' X (u - 8).
Proof.
  intros c inp X u (j & Hu & Hx & Hb) H8. destruct j as [|j]; [lia|].
  assert (Eu : u - 8 = 8 * Z.of_nat j) by lia.
  pose proof (pow2_pos (u - 8) ltac:(lia)) as P.
  assert (Ep : 2 ^ u = 256 * 2 ^ (u - 8)).
  { replace u with (8 + (u - 8)) at 1 by lia. rewrite Z.pow_add_r by lia. reflexivity. }
  cbn [tail_val] in Hx. rewrite <- Eu in Hx.
  destruct inp as [|b t]; cbn [byte_in].
  - rewrite Hx. rewrite Z.div_0_l by lia. split; [lia|].
    exists j. split; [exact Eu|split; [|constructor]].
    assert (T0 : tail_val [] j = 0) by (destruct j; reflexivity). rewrite T0.
    (* X mod 2^u = 0 -> X mod 2^(u-8) = 0 *)
    apply Z.mod_divide in Hx; [|lia]. apply Z.mod_divide; [lia|].
    destruct Hx as [k Hk]. exists (k * 256). rewrite Hk, Ep. ring.
  - inversion Hb as [|x y Hb0 Hbt]; subst x y.
    pose proof (tail_val_bound j t Hbt) as Tb. rewrite <- Eu in Tb.
    rewrite Hx. rewrite Z.div_add_l by lia. rewrite (Z.div_small (tail_val t j)) by lia.
    split; [lia|]. exists j. split; [exact Eu|split; [|exact Hbt]].
    (* X mod 2^(u-8) = (X mod 2^u) mod 2^(u-8) *)
    assert (Hmm : X mod 2 ^ (u - 8) = (X mod 2 ^ u) mod 2 ^ (u - 8)).
    { rewrite Ep. rewrite Z.mul_comm. rewrite Z.rem_mul_r by lia.
      rewrite Z.mul_comm. rewrite Z.mod_add by lia. rewrite Z.mod_mod by lia. reflexivity. }
    rewrite Hmm, Hx. rewrite Z.add_comm. rewrite Z.mod_add by lia. apply Z.mod_small. lia.
Qed.

(* ------------------------------------------- decoder registers vs ideal state *)
Definition RR (X cI s cD ct : Z) (inp : list Z) : Prop :=
  0 <= ct <= 8 /\ ct <= s /\ cD = (X / 2 ^ (s - ct)) * 2 ^ (16 - ct) - cI * 65536 /\ inp_rel inp X (s - ct).

Lemma renorm_rel : forall fuel a cI s cD ct inp X, 1 <= a < 32768 -> 32768 <= a * 2 ^ Z.of_nat fuel ->
  RR X cI s cD ct inp ->
  let '(a', cI', s') := i_renorm fuel a cI s in
  8 <= s' ->
  let '(a2, c2, ct2, i2) := renorm_d fuel a cD ct inp in a2 = a' /\ RR X cI' s' c2 ct2 i2.
Proof.
  induction fuel; intros a cI s cD ct inp X Ha Hf HR.
  - change (2 ^ Z.of_nat 0) with 1 in Hf. lia.
  - rewrite Nat2Z.inj_succ, Z.pow_succ_r in Hf by lia.
    pose proof (i_renorm_spec (S fuel) a cI s Ha ltac:(rewrite Nat2Z.inj_succ, Z.pow_succ_r by lia; lia)) as Sp.
    cbn [i_renorm renorm_d] in *.
    destruct (a >=? 32768) eqn:E0; [apply Z.geb_le in E0; lia|].
    (* one decoder step: RR for (2a, 2cI, s-1) *)
    assert (Step : forall s', s' <= s - 1 -> 8 <= s' ->
              let '(c1, inp1, ct1) := if ct =? 0 then (let '(c', i') := byte_in cD inp in (c', i', 8)) else (cD, inp, ct) in
              RR X (cI * 2) (s - 1) (c1 * 2) (ct1 - 1) inp1).
    { intros s' Hs1 Hs8. destruct HR as (R1 & R2 & R3 & R4).
      destruct (ct =? 0) eqn:Ec.
      - apply Z.eqb_eq in Ec. subst ct. rewrite Z.sub_0_r in *.
        pose proof (byte_in_rel cD inp X s R4 ltac:(lia)) as B.
        destruct (byte_in cD inp) as [c' i']. destruct B as [B1 B2].
        unfold RR. replace (s - 1 - (8 - 1)) with (s - 8) by lia. repeat split; try lia; [|exact B2].
        rewrite B1, R3. rewrite (next_byte X s) by lia. change (2 ^ (16 - 0)) with 65536. change (2 ^ (16 - (8 - 1))) with 512. ring.
      - apply Z.eqb_neq in Ec. unfold RR. replace (s - 1 - (ct - 1)) with (s - ct) by lia.
        repeat split; try lia; [|exact R4].
        rewrite R3. replace (16 - (ct - 1)) with (Z.succ (16 - ct)) by lia. rewrite Z.pow_succ_r by lia. ring. }
    destruct (a * 2 >=? 32768) eqn:E1.
    + intros Hs8. specialize (Step (s - 1) ltac:(lia) Hs8).
      destruct (if ct =? 0 then let '(c', i') := byte_in cD inp in (c', i', 8) else (cD, inp, ct)) as [[c1 inp1] ct1].
      destruct fuel; cbn [renorm_d]; rewrite E1; (split; [reflexivity|exact Step]).
    + rewrite Z.geb_leb in E1. apply Z.leb_gt in E1.
      specialize (IHfuel (a * 2) (cI * 2) (s - 1)).
      destruct (i_renorm fuel (a * 2) (cI * 2) (s - 1)) as [[a' cI'] s'] eqn:Ei.
      destruct Sp as (_ & Sp2 & _).
      intros Hs8. specialize (Step s' ltac:(lia) Hs8).
      destruct (if ct =? 0 then let '(c', i') := byte_in cD inp in (c', i', 8) else (cD, inp, ct)) as [[c1 inp1] ct1].
      specialize (IHfuel (c1 * 2) (ct1 - 1) inp1 X ltac:(lia) ltac:(lia) Step).
      exact (IHfuel Hs8).
Qed.

(* ------------------------------------------------------------ one decision *)
Definition Rel (X : Z) (E : ienc) (D : qdec) : Prop :=
  qa D = ia E /\ qst D = ist E /\ RR X (ic E) (isf E) (qc D) (qct D) (qin D).

Lemma cx_eq : forall X cI s cD ct inp, RR X cI s cD ct inp -> cD / 65536 = X / 2 ^ s - cI.
Proof.
  intros X cI s cD ct inp (R1 & R2 & R3 & _). rewrite R3.
  pose proof (pow2_pos (16 - ct) ltac:(lia)) as P1. pose proof (pow2_pos ct ltac:(lia)) as P2.
  replace (X / 2 ^ (s - ct) * 2 ^ (16 - ct) - cI * 65536) with (X / 2 ^ (s - ct) * 2 ^ (16 - ct) + (- cI) * 65536) by ring.
  rewrite Z.div_add by lia.
  replace 65536 with (2 ^ ct * 2 ^ (16 - ct)) at 1 by (rewrite <- Z.pow_add_r by lia; replace (ct + (16 - ct)) with 16 by lia; reflexivity).
  rewrite Z.div_mul_cancel_r by lia. rewrite div_div_pow by lia. lia.
Qed.

Lemma in_low : forall X c w s, 0 <= s -> c * 2 ^ s <= X < (c + w) * 2 ^ s -> 0 <= X / 2 ^ s - c < w.
Proof.
  intros X c w s Hs [H1 H2]. pose proof (pow2_pos s Hs) as P.
  assert (c <= X / 2 ^ s) by (apply Z.div_le_lower_bound; lia).
  assert (X / 2 ^ s < c + w) by (apply Z.div_lt_upper_bound; lia). lia.
Qed.

Lemma bool_of_mps : forall (d : bool) mps, 0 <= mps <= 1 ->
  (b2z d = mps -> (mps =? 1) = d) /\ (b2z d <> mps -> (1 - mps =? 1) = d).
Proof. intros d mps H. destruct d; cbn [b2z]; split; intros; assert (mps = 0 \/ mps = 1) as [->| ->] by lia; try reflexivity; lia. Qed.

Local Opaque est_lps est_mps st_set st_get.

Theorem decode_step : forall X E D key d, Rel X E D -> 32768 <= ia E <= 65536 -> stats_ok (ist E) ->
  inside X (i_encode E (key, d)) -> 8 <= isf (i_encode E (key, d)) ->
  exists D', qm_decode key D = Some (d, D') /\ Rel X (i_encode E (key, d)) D'.
Proof.
  intros X E D key d (Ra & Rs & HR) HA Hst Hin Hs8.
  unfold qm_decode. unfold i_encode in *. rewrite Ra, Rs.
  pose proof (st_get_ok (ist E) key Hst) as He.
  destruct (st_get (ist E) key) as [idx mps] eqn:Eg. destruct He as [He1 He2]. cbn [fst snd] in He1, He2.
  destruct (qe_entry idx) as [[[qe nl] nm] sw] eqn:Ee.
  destruct (qe_entry_bounds _ _ _ _ _ Ee) as (Q1 & _).
  destruct (bool_of_mps d mps He2) as [Bm Bl].
  rewrite (cx_eq _ _ _ _ _ _ HR).
  set (a1 := ia E - qe) in *.
  assert (Ha1 : 1 <= a1 <= 65535) by (unfold a1; lia).
  destruct (b2z d =? mps) eqn:Ed.
  - apply Z.eqb_eq in Ed. specialize (Bm Ed).
    destruct (a1 <? 32768) eqn:Ea.
    + apply Z.ltb_lt in Ea. destruct (a1 <? qe) eqn:Ex.
      * (* MPS with exchange: upper sub-interval *)
        apply Z.ltb_lt in Ex.
        pose proof (i_renorm_spec 16 qe (ic E + a1) (isf E) ltac:(lia) ltac:(change (2 ^ Z.of_nat 16) with 65536; lia)) as Sp.
        assert (HR' : RR X (ic E + a1) (isf E) (qc D - a1 * 65536) (qct D) (qin D)).
        { destruct HR as (R1 & R2 & R3 & R4). unfold RR. split; [lia|split; [lia|split; [rewrite R3; ring|exact R4]]]. }
        pose proof (renorm_rel 16 qe (ic E + a1) (isf E) _ _ _ X ltac:(lia) ltac:(change (2 ^ Z.of_nat 16) with 65536; lia) HR') as RL.
        destruct (i_renorm 16 qe (ic E + a1) (isf E)) as [[a3 c3] s3].
        cbn [isf ia ic ist] in Hs8. unfold inside, ilow, iwid in Hin. cbn [isf ia ic] in Hin.
        destruct Sp as (S1 & S2 & S3 & S4). destruct (S4 ltac:(lia)) as [S5 S6]. rewrite S5, S6 in Hin.
        assert (Hc : 0 <= X / 2 ^ isf E - (ic E + a1) < qe) by (apply in_low; [lia|lia]).
        destruct (X / 2 ^ isf E - ic E <? a1) eqn:Ec; [apply Z.ltb_lt in Ec; lia|].
        specialize (RL Hs8).
        destruct (renorm_d 16 qe (qc D - a1 * 65536) (qct D) (qin D)) as [[[a2 c2] ct2] i2]. destruct RL as [RL1 RL2].
        eexists. split; [rewrite Bm; reflexivity|]. unfold Rel; cbn [qa qst qc qct qin ia ist ic isf]; split; [assumption|split; [reflexivity|exact RL2]].
      * (* MPS, no exchange: lower sub-interval *)
        apply Z.ltb_ge in Ex.
        pose proof (i_renorm_spec 16 a1 (ic E) (isf E) ltac:(lia) ltac:(change (2 ^ Z.of_nat 16) with 65536; lia)) as Sp.
        pose proof (renorm_rel 16 a1 (ic E) (isf E) _ _ _ X ltac:(lia) ltac:(change (2 ^ Z.of_nat 16) with 65536; lia) HR) as RL.
        destruct (i_renorm 16 a1 (ic E) (isf E)) as [[a3 c3] s3].
        cbn [isf ia ic ist] in Hs8. unfold inside, ilow, iwid in Hin. cbn [isf ia ic] in Hin.
        destruct Sp as (S1 & S2 & S3 & S4). destruct (S4 ltac:(lia)) as [S5 S6]. rewrite S5, S6 in Hin.
        assert (Hc : 0 <= X / 2 ^ isf E - ic E < a1) by (apply in_low; [lia|lia]).
        destruct (X / 2 ^ isf E - ic E <? a1) eqn:Ec; [|apply Z.ltb_ge in Ec; lia].
        specialize (RL Hs8).
        destruct (renorm_d 16 a1 (qc D) (qct D) (qin D)) as [[[a2 c2] ct2] i2]. destruct RL as [RL1 RL2].
        eexists. split; [rewrite Bm; reflexivity|]. unfold Rel; cbn [qa qst qc qct qin ia ist ic isf]; split; [assumption|split; [reflexivity|exact RL2]].
    + (* MPS, no renormalisation *)
      apply Z.ltb_ge in Ea. cbn [isf ia ic ist] in *. unfold inside, ilow, iwid in Hin. cbn [isf ia ic] in Hin.
      assert (Hc : 0 <= X / 2 ^ isf E - ic E < a1) by (apply in_low; [lia|lia]).
      destruct (X / 2 ^ isf E - ic E <? a1) eqn:Ec; [|apply Z.ltb_ge in Ec; lia].
      eexists. split; [rewrite Bm; reflexivity|]. unfold Rel; cbn [qa qst qc qct qin ia ist ic isf]; split; [reflexivity|split; [reflexivity|exact HR]].
  - apply Z.eqb_neq in Ed. specialize (Bl Ed).
    destruct (a1 <? qe) eqn:Ex.
    + (* LPS with exchange: lower sub-interval *)
      apply Z.ltb_lt in Ex.
      pose proof (i_renorm_spec 16 a1 (ic E) (isf E) ltac:(lia) ltac:(change (2 ^ Z.of_nat 16) with 65536; lia)) as Sp.
      pose proof (renorm_rel 16 a1 (ic E) (isf E) _ _ _ X ltac:(lia) ltac:(change (2 ^ Z.of_nat 16) with 65536; lia) HR) as RL.
      destruct (i_renorm 16 a1 (ic E) (isf E)) as [[a3 c3] s3].
      cbn [isf ia ic ist] in Hs8. unfold inside, ilow, iwid in Hin. cbn [isf ia ic] in Hin.
      destruct Sp as (S1 & S2 & S3 & S4). destruct (S4 ltac:(lia)) as [S5 S6]. rewrite S5, S6 in Hin.
      assert (Hc : 0 <= X / 2 ^ isf E - ic E < a1) by (apply in_low; [lia|lia]).
      destruct (X / 2 ^ isf E - ic E <? a1) eqn:Ec; [|apply Z.ltb_ge in Ec; lia].
      destruct (a1 <? 32768) eqn:Ea; [|apply Z.ltb_ge in Ea; lia].
      specialize (RL Hs8).
      destruct (renorm_d 16 a1 (qc D) (qct D) (qin D)) as [[[a2 c2] ct2] i2]. destruct RL as [RL1 RL2].
      eexists. split; [rewrite Bl; reflexivity|]. unfold Rel; cbn [qa qst qc qct qin ia ist ic isf]; split; [assumption|split; [reflexivity|exact RL2]].
    + (* LPS, no exchange: upper sub-interval *)
      apply Z.ltb_ge in Ex.
      pose proof (i_renorm_spec 16 qe (ic E + a1) (isf E) ltac:(lia) ltac:(change (2 ^ Z.of_nat 16) with 65536; lia)) as Sp.
      assert (HR' : RR X (ic E + a1) (isf E) (qc D - a1 * 65536) (qct D) (qin D)).
      { destruct HR as (R1 & R2 & R3 & R4). unfold RR. split; [lia|split; [lia|split; [rewrite R3; ring|exact R4]]]. }
      pose proof (renorm_rel 16 qe (ic E + a1) (isf E) _ _ _ X ltac:(lia) ltac:(change (2 ^ Z.of_nat 16) with 65536; lia) HR') as RL.
      destruct (i_renorm 16 qe (ic E + a1) (isf E)) as [[a3 c3] s3].
      cbn [isf ia ic ist] in Hs8. unfold inside, ilow, iwid in Hin. cbn [isf ia ic] in Hin.
      destruct Sp as (S1 & S2 & S3 & S4). destruct (S4 ltac:(lia)) as [S5 S6]. rewrite S5, S6 in Hin.
      assert (Hc : 0 <= X / 2 ^ isf E - (ic E + a1) < qe) by (apply in_low; [lia|lia]).
      destruct (X / 2 ^ isf E - ic E <? a1) eqn:Ec; [apply Z.ltb_lt in Ec; lia|].
      specialize (RL Hs8).
      destruct (renorm_d 16 qe (qc D - a1 * 65536) (qct D) (qin D)) as [[[a2 c2] ct2] i2]. destruct RL as [RL1 RL2].
      eexists. split; [rewrite Bl; reflexivity|]. unfold Rel; cbn [qa qst qc qct qin ia ist ic isf]; split; [assumption|split; [reflexivity|exact RL2]].
Qed.

(* --------------------------------------------------------- decision sequences *)
Definition iinv (E : ienc) : Prop := 32768 <= ia E <= 65536 /\ stats_ok (ist E).

Lemma i_encode_props : forall E kd, iinv E ->
  iinv (i_encode E kd) /\ isf (i_encode E kd) <= isf E /\
  (0 <= isf (i_encode E kd) -> forall X, inside X (i_encode E kd) -> inside X E).
Proof.
  intros E [key d] [HA Hst]. unfold i_encode.
  pose proof (st_get_ok (ist E) key Hst) as He.
  destruct (st_get (ist E) key) as [idx mps] eqn:Eg.
  destruct (qe_entry idx) as [[[qe nl] nm] sw] eqn:Ee.
  destruct (qe_entry_bounds _ _ _ _ _ Ee) as (Q1 & _).
  set (a1 := ia E - qe) in *.
  assert (Hsub : forall a2 c2 e', 1 <= a2 < 32768 -> est_ok e' ->
            ic E <= c2 -> c2 + a2 <= ic E + ia E ->
            let '(a3, c3, s3) := i_renorm 16 a2 c2 (isf E) in
            let E' := {| ia := a3; ic := c3; isf := s3; ist := st_set (ist E) key e' |} in
            iinv E' /\ isf E' <= isf E /\ (0 <= isf E' -> forall X, inside X E' -> inside X E)).
  { intros a2 c2 e' Ha2 He' Hc1 Hc2.
    pose proof (i_renorm_spec 16 a2 c2 (isf E) Ha2 ltac:(change (2 ^ Z.of_nat 16) with 65536; lia)) as Sp.
    destruct (i_renorm 16 a2 c2 (isf E)) as [[a3 c3] s3]. destruct Sp as (S1 & S2 & S3 & S4).
    cbn zeta. split; [split; [cbn; lia|cbn [ist]; apply st_set_ok; assumption]|]. split; [cbn; lia|].
    cbn [isf]. intros Hs X. unfold inside, ilow, iwid. cbn [ia ic isf]. destruct (S4 Hs) as [S5 S6]. rewrite S5, S6.
    pose proof (pow2_pos (isf E) ltac:(lia)) as P. nia. }
  assert (Em : est_ok (est_mps (idx, mps))) by (apply est_mps_ok, He).
  assert (El : est_ok (est_lps (idx, mps))) by (apply est_lps_ok, He).
  destruct (b2z d =? mps).
  - destruct (a1 <? 32768) eqn:Ea.
    + apply Z.ltb_lt in Ea. destruct (a1 <? qe) eqn:Ex.
      * apply Z.ltb_lt in Ex.
        pose proof (Hsub qe (ic E + a1) (est_mps (idx, mps)) ltac:(lia) Em ltac:(unfold a1; lia) ltac:(unfold a1; lia)) as K.
        destruct (i_renorm 16 qe (ic E + a1) (isf E)) as [[a3 c3] s3]. exact K.
      * apply Z.ltb_ge in Ex.
        pose proof (Hsub a1 (ic E) (est_mps (idx, mps)) ltac:(unfold a1 in *; lia) Em ltac:(lia) ltac:(unfold a1; lia)) as K.
        destruct (i_renorm 16 a1 (ic E) (isf E)) as [[a3 c3] s3]. exact K.
    + apply Z.ltb_ge in Ea. split; [split; [cbn; unfold a1; lia|exact Hst]|]. split; [cbn; lia|].
      cbn [isf]. intros Hs X. unfold inside, ilow, iwid. cbn [ia ic isf].
      pose proof (pow2_pos (isf E) Hs) as P. unfold a1. nia.
  - destruct (a1 <? qe) eqn:Ex.
    + apply Z.ltb_lt in Ex.
      pose proof (Hsub a1 (ic E) (est_lps (idx, mps)) ltac:(unfold a1 in *; lia) El ltac:(lia) ltac:(unfold a1; lia)) as K.
      destruct (i_renorm 16 a1 (ic E) (isf E)) as [[a3 c3] s3]. exact K.
    + apply Z.ltb_ge in Ex.
      pose proof (Hsub qe (ic E + a1) (est_lps (idx, mps)) ltac:(lia) El ltac:(unfold a1; lia) ltac:(unfold a1; lia)) as K.
      destruct (i_renorm 16 qe (ic E + a1) (isf E)) as [[a3 c3] s3]. exact K.
Qed.

Lemma fold_props : forall ds E, iinv E ->
  iinv (fold_left i_encode ds E) /\ isf (fold_left i_encode ds E) <= isf E /\
  (0 <= isf (fold_left i_encode ds E) -> forall X, inside X (fold_left i_encode ds E) -> inside X E).
Proof.
  induction ds as [|kd t IH]; intros E Hi; cbn [fold_left].
  - split; [exact Hi|split; [lia|auto]].
  - destruct (i_encode_props E kd Hi) as (P1 & P2 & P3). destruct (IH _ P1) as (Q1 & Q2 & Q3).
    split; [exact Q1|split; [lia|]]. intros Hs X Hx. apply P3; [lia|]. apply Q3; assumption.
Qed.

(* run the decoder over a list of bins *)
Fixpoint qm_run (keys : list Z) (D : qdec) : list bool * qdec :=
  match keys with
  | [] => ([], D)
  | k :: t => match qm_decode k D with
              | Some (b, D') => let '(l, Df) := qm_run t D' in (b :: l, Df)
              | None => ([], D)
              end
  end.

Theorem ideal_decodes : forall X ds E D, Rel X E D -> iinv E ->
  inside X (fold_left i_encode ds E) -> 8 <= isf (fold_left i_encode ds E) ->
  exists Df, qm_run (map fst ds) D = (map snd ds, Df) /\ Rel X (fold_left i_encode ds E) Df.
Proof.
  intros X ds. induction ds as [|[key d] t IH]; intros E D HR Hi Hin Hs; cbn [fold_left map fst snd qm_run] in *.
  - exists D. split; [reflexivity|exact HR].
  - destruct (i_encode_props E (key, d) Hi) as (P1 & P2 & P3).
    destruct (fold_props t _ P1) as (Q1 & Q2 & Q3).
    destruct (decode_step X E D key d HR (proj1 Hi) (proj2 Hi) (Q3 ltac:(lia) X Hin) ltac:(lia)) as (D' & Hd & HR').
    rewrite Hd. destruct (IH _ D' HR' P1 Hin Hs) as (Df & Hrun & HRf). rewrite Hrun.
    exists Df. split; [reflexivity|exact HRf].
Qed.
