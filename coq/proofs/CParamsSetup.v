(* C17: initial_setup and per_scan_setup -- index safety and bounds of everything they derive. *)
From Coq Require Import List ZArith Bool Lia ZifyBool.
From LJT Require Import model.Huff gen.GenParams model.CParams proofs.CParamsHoare proofs.CParamsScript.
Import ListNotations.
Local Open Scope Z_scope.

Lemma jdiv_bounds a b : 1 <= a -> 1 <= b -> 1 <= jdiv_round_up a b <= a.
Proof.
  intros Ha Hb. unfold jdiv_round_up. split.
  - apply Z.div_le_lower_bound; lia.
  - apply Z.div_le_upper_bound; [lia|]. nia.
Qed.

Lemma jdiv_covers a b : 1 <= a -> 1 <= b -> a <= jdiv_round_up a b * b < a + b.
Proof.
  intros Ha Hb. unfold jdiv_round_up.
  pose proof (Z.div_mod (a + b - 1) b ltac:(lia)). pose proof (Z.mod_pos_bound (a + b - 1) b ltac:(lia)). nia.
Qed.

(* what initial_setup guarantees about its inputs and outputs *)
Definition comp_ok (c : comp) : Prop :=
  1 <= c_h c <= g_MAX_SAMP_FACTOR /\ 1 <= c_v c <= g_MAX_SAMP_FACTOR.

Definition setup_wf (width height nc : Z) (lossless : bool) (comps : list comp) (u : setup) : Prop :=
  1 <= nc <= g_MAX_COMPONENTS /\
  1 <= width <= g_JPEG_MAX_DIMENSION /\ 1 <= height <= g_JPEG_MAX_DIMENSION /\
  1 <= u_max_h u <= g_MAX_SAMP_FACTOR /\ 1 <= u_max_v u <= g_MAX_SAMP_FACTOR /\
  1 <= u_total_iMCU_rows u <= height /\
  Z.of_nat (length (u_comps u)) = nc /\
  forall ci, 0 <= ci < nc ->
    let c := getC comps ci in let d := getD (u_comps u) ci in
    comp_ok c /\ c_h c <= u_max_h u /\ c_v c <= u_max_v u /\
    d_h d = c_h c /\ d_v d = c_v c /\
    1 <= d_wib d <= width * g_MAX_SAMP_FACTOR /\ 1 <= d_hib d <= height * g_MAX_SAMP_FACTOR /\
    1 <= d_dw d /\ 1 <= d_dh d.

Lemma nth_app_last {A} (l : list A) (x d : A) : nth (length l) (l ++ [x]) d = x.
Proof. rewrite app_nth2 by lia. rewrite Nat.sub_diag. reflexivity. Qed.

Theorem initial_setup_bounds_lemma : forall width height incomp nc prec lossless comps,
  sat (initial_setup width height incomp nc prec lossless comps)
      (fun u => setup_wf width height nc lossless comps u /\ 1 <= incomp /\ width * incomp < 2 ^ 32 /\
                (if lossless then g_LOSSLESS_PREC_MIN <= prec <= g_LOSSLESS_PREC_MAX
                 else prec = g_LOSSY_PREC_A \/ prec = g_LOSSY_PREC_B)).
Proof.
  intros width height incomp nc prec lossless comps. unfold initial_setup. cbv zeta.
  eapply sat_seq. { apply sat_guard; intro Hg; exact Hg. } intro Hg1.
  eapply sat_seq. { apply sat_guard; intro Hg; exact Hg. } intro Hg2.
  eapply sat_seq. { apply sat_guard; intro Hg; exact Hg. } intro Hg3.
  eapply sat_seq with (P := if lossless then g_LOSSLESS_PREC_MIN <= prec <= g_LOSSLESS_PREC_MAX
                            else prec = g_LOSSY_PREC_A \/ prec = g_LOSSY_PREC_B).
  { destruct lossless; apply sat_guard; intro Hg; lia. }
  intro Hprec.
  eapply sat_seq. { apply sat_guard; intro Hg; exact Hg. } intro Hg4.
  assert (Hov : width * incomp < 2 ^ 32).
  { assert (0 <= width * incomp) by nia.
    pose proof (Z.mod_pos_bound (width * incomp) (2 ^ 32) ltac:(lia)). lia. }
  eapply sat_bind.
  { apply (sat_for _ 0 _ (1, 1)
      (fun j mx => 1 <= fst mx <= g_MAX_SAMP_FACTOR /\ 1 <= snd mx <= g_MAX_SAMP_FACTOR /\
                   forall ci, 0 <= ci < j -> comp_ok (getC comps ci) /\ c_h (getC comps ci) <= fst mx /\ c_v (getC comps ci) <= snd mx)).
    - cbn. consts. repeat split; try lia. 
    - intros j [mh mv] Hj [Hmh [Hmv Inv]]. cbn [fst snd] in *.
      eapply sat_seq with (P := True). { apply sat_touch; [consts; lia|exact I]. }
      intros _. eapply sat_seq. { apply sat_guard; intro Hg; exact Hg. }
      intro Hg. apply sat_ret. cbn [fst snd]. consts. repeat split; try lia.
      all: unfold comp_ok in *; consts; destruct (Z.eq_dec ci j) as [->|Hne]; [lia|destruct (Inv ci ltac:(lia)) as [[? ?] [? ?]]; lia]. }
  intros [mh mv] [Hmh [Hmv Hc]]. cbn [fst snd] in *.
  replace (0 + Z.of_nat (Z.to_nat nc)) with nc in Hc by lia.
  set (du := if lossless then 1 else g_DCTSIZE). assert (Hdu : 1 <= du) by (unfold du; destruct lossless; consts; lia).
  set (mk := fun c => {| d_h := c_h c; d_v := c_v c;
                          d_wib := jdiv_round_up (width * c_h c) (mh * du);
                          d_hib := jdiv_round_up (height * c_v c) (mv * du);
                          d_dw := jdiv_round_up (width * c_h c) mh;
                          d_dh := jdiv_round_up (height * c_v c) mv |}).
  eapply sat_bind.
  { apply (sat_for _ 0 _ []
      (fun j acc => Z.of_nat (length acc) = j /\ forall ci, 0 <= ci < j -> getD acc ci = mk (getC comps ci))).
    - split; [reflexivity|intros; lia].
    - intros j acc Hj [Hlen Inv].
      eapply sat_seq with (P := True). { apply sat_touch; [consts; lia|exact I]. }
      intros _. apply sat_ret. split; [rewrite app_length; cbn; lia|].
      intros ci Hci. unfold getD. destruct (Z.eq_dec ci j) as [->|Hne].
      + replace (Z.to_nat j) with (length acc) by lia. rewrite nth_app_last. reflexivity.
      + rewrite app_nth1 by lia. apply Inv. lia. }
  intros ds [Hlen Hds]. replace (0 + Z.of_nat (Z.to_nat nc)) with nc in Hlen, Hds by lia.
  apply sat_ret. split; [|split; [lia|split; [exact Hov|exact Hprec]]].
  unfold setup_wf. cbn [u_max_h u_max_v u_comps u_total_iMCU_rows].
  split; [lia|]. split; [lia|]. split; [lia|]. split; [exact Hmh|]. split; [exact Hmv|].
  split. { fold du. apply jdiv_bounds; [lia|nia]. }
  split; [exact Hlen|].
  intros ci Hci. cbv zeta. rewrite (Hds ci Hci). destruct (Hc ci Hci) as [[Hh Hv] [Hhm Hvm]].
  unfold mk. cbn [d_h d_v d_wib d_hib d_dw d_dh].
  assert (1 <= width * c_h (getC comps ci)) by nia. assert (1 <= height * c_v (getC comps ci)) by nia.
  assert (1 <= mh * du) by nia. assert (1 <= mv * du) by nia.
  pose proof (jdiv_bounds (width * c_h (getC comps ci)) (mh * du) ltac:(lia) ltac:(lia)).
  pose proof (jdiv_bounds (height * c_v (getC comps ci)) (mv * du) ltac:(lia) ltac:(lia)).
  pose proof (jdiv_bounds (width * c_h (getC comps ci)) mh ltac:(lia) ltac:(lia)).
  pose proof (jdiv_bounds (height * c_v (getC comps ci)) mv ltac:(lia) ltac:(lia)).
  unfold comp_ok. consts. repeat split; try lia; nia.
Qed.

(* ------------------------------------------------------------ per_scan_setup *)
Definition scaninfo_wf (ncur ri rir : Z) (i : scaninfo) : Prop :=
  1 <= i_blocks_in_MCU i <= g_C_MAX_BLOCKS_IN_MCU /\
  Z.of_nat (length (i_membership i)) = i_blocks_in_MCU i /\
  Forall (fun m => 0 <= m < ncur) (i_membership i) /\
  1 <= i_MCUs_per_row i /\ 1 <= i_MCU_rows i /\
  (0 <= ri -> 0 <= i_restart_interval i <= g_RESTART_MAX) /\
  (rir <= 0 -> ri <= g_RESTART_MAX -> i_restart_interval i = ri).

Theorem per_scan_bounds_lemma : forall width height nc lossless comps u ncur cur ri rir,
  setup_wf width height nc lossless comps u ->
  1 <= ncur <= g_MAX_COMPS_IN_SCAN ->
  (forall ci, 0 <= ci < ncur -> 0 <= getZ cur ci < nc) ->
  sat (per_scan_setup width height lossless u ncur cur ri rir) (scaninfo_wf ncur ri rir).
Proof.
  intros width height nc lossless comps u ncur cur ri rir Hwf Hn Hcur.
  destruct Hwf as [Hnc [Hw [Hh [Hmh [Hmv [Hrows [Hlen Hcomp]]]]]]].
  unfold per_scan_setup. cbv zeta.
  set (du := if lossless then 1 else g_DCTSIZE). assert (Hdu : 1 <= du) by (unfold du; destruct lossless; consts; lia).
  eapply sat_bind with (P := fun r => let '(blocks, mem, mpr, rows, lasts) := r in
      1 <= blocks <= g_C_MAX_BLOCKS_IN_MCU /\ Z.of_nat (length mem) = blocks /\
      Forall (fun m => 0 <= m < ncur) mem /\ 1 <= mpr /\ 1 <= rows).
  - apply sat_if; intro Hone.
    + eapply sat_seq with (P := True). { apply sat_touch; [consts; lia|exact I]. } intros _.
      specialize (Hcur 0 ltac:(lia)).
      eapply sat_seq with (P := True). { apply sat_touch; [consts; lia|exact I]. } intros _.
      eapply sat_seq with (P := True). { apply sat_touch; [consts; lia|exact I]. } intros _.
      apply sat_ret. destruct (Hcomp (getZ cur 0) Hcur) as [_ [_ [_ [_ [_ [Hwib [Hhib _]]]]]]].
      cbv zeta in Hwib, Hhib. consts. cbn [length]. repeat split; try lia.
      constructor; [lia|constructor].
    + eapply sat_seq with (P := True). { apply sat_guard; intros _; exact I. } intros _.
      eapply sat_bind.
      { apply (sat_for _ 0 _ (0, [], [])
          (fun j st => let '(blocks, mem, lasts) := st in
             j <= blocks <= g_C_MAX_BLOCKS_IN_MCU /\ Z.of_nat (length mem) = blocks /\ Forall (fun m => 0 <= m < ncur) mem)).
        - cbn. consts. repeat split; try lia. constructor.
        - intros j [[blocks mem] lasts] Hj [Hb [Hl Hm]].
          specialize (Hcur j ltac:(lia)).
          eapply sat_seq with (P := True). { apply sat_touch; [consts; lia|exact I]. } intros _.
          eapply sat_seq with (P := True). { apply sat_touch; [consts; lia|exact I]. } intros _.
          destruct (Hcomp (getZ cur j) Hcur) as [[Hch Hcv] [_ [_ [Hdh [Hdv _]]]]]. cbv zeta in Hdh, Hdv.
          set (d := getD (u_comps u) (getZ cur j)) in *.
          assert (Hblk : 1 <= d_h d * d_v d <= 16) by (rewrite Hdh, Hdv; consts; nia).
          eapply sat_seq. { apply sat_guard; intro Hg; exact Hg. } intro Hg.
          eapply sat_seq with (P := True).
          { eapply sat_weaken.
            - apply (sat_for _ blocks _ tt (fun _ _ => True)); [exact I|].
              intros b [] Hb2 _. apply sat_touch; [consts; lia|exact I].
            - intros; exact I. }
          intros _. apply sat_ret. consts. split; [lia|]. split.
          + rewrite app_length, repeat_length. lia.
          + apply Forall_app. split; [exact Hm|]. apply Forall_forall. intros m Hin. apply repeat_spec in Hin. lia. }
      intros [[blocks mem] lasts] [Hb [Hl Hm]]. replace (0 + Z.of_nat (Z.to_nat ncur)) with ncur in Hb by lia.
      apply sat_ret. fold du.
      pose proof (jdiv_bounds width (u_max_h u * du) ltac:(lia) ltac:(nia)).
      pose proof (jdiv_bounds height (u_max_v u * du) ltac:(lia) ltac:(nia)).
      repeat split; try lia; assumption.
  - intros [[[[blocks mem] mpr] rows] lasts] [Hb [Hl [Hm [Hmpr Hrows2]]]].
    apply sat_ret. unfold scaninfo_wf. cbn [i_blocks_in_MCU i_membership i_MCUs_per_row i_MCU_rows i_restart_interval].
    split; [exact Hb|]. split; [exact Hl|]. split; [exact Hm|]. split; [exact Hmpr|]. split; [exact Hrows2|].
    change (g_RESTART_CLAMP_DIRECT =? 1) with true. cbn [andb]. consts.
    split.
    + intro Hr. destruct (rir >? 0) eqn:Er.
      * assert (1 <= rir * mpr) by nia.
        match goal with |- context [if ?b then _ else _] => destruct b eqn:? end; lia.
      * match goal with |- context [if ?b then _ else _] => destruct b eqn:? end; lia.
    + intros Hr Hri. replace (rir >? 0) with false by lia.
      match goal with |- context [if ?b then _ else _] => destruct b eqn:? end; lia.
Qed.
