(* C18 -- proofs about the Targa reader model (model/Tga.v): for EVERY byte string the colormap and
   c5to8bits are indexed in range, tga_pixel is never used before it is written (the RLE duplicate
   count is 0 until a pixel has been read), the run-length state stays non-negative across rows, and a
   successful read delivers exactly height rows of width*components 8-bit samples. *)
From Coq Require Import List ZArith Lia Bool ZifyBool.
From LJT Require Import gen.GenImgRd model.RdCommon model.Tga proofs.PnmProofs proofs.GifProofs.
Import ListNotations.
Local Open Scope Z_scope.
Ltac Zify.zify_post_hook ::= Z.div_mod_to_equations.

Lemma g_tga_check : tga_index_check = true. Proof. reflexivity. Qed.
Lemma g_tga_maplen : tga_max_maplen = 256. Proof. reflexivity. Qed.

Lemma c5_table : length c5to8 = 32%nat /\ forallb (fun v => (0 <=? v) && (v <=? 255)) c5to8 = true.
Proof. split; reflexivity. Qed.

Lemma c5_ok i : 0 <= i < 32 -> exists v, c5 i = ROk v /\ byte v.
Proof.
  intro H. destruct c5_table as [L F]. unfold c5.
  destruct (nth_error c5to8 (Z.to_nat i)) as [v|] eqn:E.
  - exists v. split; [reflexivity|]. rewrite forallb_forall in F. specialize (F v (nth_error_In _ _ E)). unfold byte. lia.
  - apply nth_error_None in E. lia.
Qed.

Definition tcm_ok (cm : list (Z * Z * Z)) : Prop :=
  Forall (fun e => let '(r, g, b) := e in byte r /\ byte g /\ byte b) cm.

Lemma tga_cmap_ok n : forall l, bytes l -> tcm_ok (tga_cmap n l) /\ length (tga_cmap n l) = n.
Proof.
  induction n as [|n IH]; intros l B; cbn [tga_cmap]; [split; [constructor|reflexivity]|].
  assert (B' : bytes (skipn 3 l)) by (apply Forall_skipn_g; exact B).
  destruct (IH _ B') as [C L]. split; [|cbn [length]; rewrite L; reflexivity]. constructor; [|exact C].
  pose proof (znth_byte l 0 B). pose proof (znth_byte l 1 B). pose proof (znth_byte l 2 B). unfold byte. lia.
Qed.

Definition thdr_ok (hd : tga_hdr) : Prop :=
  1 <= t_w hd <= 65535 /\ 1 <= t_h hd <= 65535 /\ 1 <= t_psize hd <= 4 /\
  (t_sub hd = 1 \/ t_sub hd = 2 \/ t_sub hd = 3) /\
  (t_sub hd = 3 -> t_comps hd = 1) /\ (t_sub hd <> 3 -> t_comps hd = 3) /\
  (t_sub hd = 2 -> 2 <= t_psize hd) /\
  tcm_ok (t_cmap hd) /\ Z.of_nat (length (t_cmap hd)) <= 256.

Lemma tga_header_spec maxpixels s : bytes s ->
  match tga_header maxpixels s with
  | ROk (hd, s') => thdr_ok hd /\ bytes s' /\ (maxpixels = 0 \/ t_w hd * t_h hd <= maxpixels)
  | RErr e => rsafe e
  end.
Proof.
  intro B. unfold tga_header.
  destruct (take_n 18 s) as [[h s1]|] eqn:T; [|repeat split; discriminate].
  apply take_n_spec in T. destruct T as [-> _]. apply bytes_app' in B. destruct B as [Bh B1].
  set (depth := if znth h 16 0 =? 15 then 16 else znth h 16 0).
  pose proof (le16_range h 12 Bh) as Hw. pose proof (le16_range h 14 Bh) as Hh. pose proof (le16_range h 5 Bh) as Hm.
  pose proof (znth_byte h 0 Bh) as Hid.
  match goal with |- context [if ?c then RErr R_TGA_BADPARMS else _] => destruct c eqn:E1 end; [repeat split; discriminate|].
  match goal with |- context [if ?c then RErr R_TOOBIG else _] => destruct c eqn:E2 end; [repeat split; discriminate|].
  set (rle := znth h 2 0 >? 8). set (sub := if rle then znth h 2 0 - 8 else znth h 2 0).
  unfold rbind at 1.
  match goal with |- match (match ?X with _ => _ end) with _ => _ end =>
    assert (HC : match X with ROk comps => (sub = 1 \/ sub = 2 \/ sub = 3) /\ (sub = 3 -> comps = 1) /\ (sub <> 3 -> comps = 3) /\
                                          (sub = 2 -> 2 <= depth / 8)
                          | RErr e => e = R_TGA_BADPARMS end);
    [|destruct X as [comps|e]; [|subst; repeat split; discriminate]] end.
  { destruct (sub =? 1) eqn:S1; [destruct ((depth / 8 =? 1) && (znth h 1 0 =? 1)); [repeat split; lia|reflexivity]|].
    destruct (sub =? 2) eqn:S2; [destruct ((depth / 8 =? 2) || (depth / 8 =? 3) || (depth / 8 =? 4)) eqn:P; [repeat split; lia|reflexivity]|].
    destruct (sub =? 3) eqn:S3; [destruct (depth / 8 =? 1); [repeat split; lia|reflexivity]|reflexivity]. }
  destruct HC as (Hsub & Hc1 & Hc3 & Hp2).
  unfold rbind at 1. pose proof (rtake_spec (znth h 0 0) s1) as T1.
  destruct (rtake (znth h 0 0) s1) as [[idb s2]|e]; [|subst; repeat split; discriminate].
  destruct T1 as [-> _]. apply bytes_app' in B1. destruct B1 as [_ B2].
  unfold rbind at 1.
  match goal with |- match (match ?X with _ => _ end) with _ => _ end =>
    assert (HM : match X with ROk (cm, s3) => tcm_ok cm /\ Z.of_nat (length cm) <= 256 /\ bytes s3
                          | RErr e => rsafe e end);
    [|destruct X as [[cm s3]|e]; [|exact HM]] end.
  { destruct (le16 h 5 >? 0) eqn:M0.
    - rewrite g_tga_maplen. destruct ((le16 h 5 >? 256) || negb (le16 h 3 =? 0)) eqn:M1; [repeat split; discriminate|].
      destruct (negb (znth h 7 0 =? tga_cmap_entry_bits)); [repeat split; discriminate|].
      unfold rbind. pose proof (rtake_spec (le16 h 5 * 3) s2) as T2.
      destruct (rtake (le16 h 5 * 3) s2) as [[cb s3]|e]; [|subst; repeat split; discriminate].
      destruct T2 as [-> _]. apply bytes_app' in B2. destruct B2 as [Bc B3].
      destruct (tga_cmap_ok (Z.to_nat (le16 h 5)) cb Bc) as [C L]. split; [exact C|]. split; [lia|exact B3].
    - destruct (negb (znth h 1 0 =? 0)); [repeat split; discriminate|]. split; [constructor|]. split; [cbn; lia|exact B2]. }
  destruct HM as (Cm & Lm & B3).
  unfold thdr_ok. cbn [t_w t_h t_psize t_sub t_comps t_cmap]. fold depth. fold rle. fold sub.
  split; [|split; [exact B3|lia]].
  split; [lia|]. split; [lia|]. split; [lia|]. split; [exact Hsub|]. split; [exact Hc1|]. split; [exact Hc3|].
  split; [exact Hp2|]. split; [exact Cm|exact Lm].
Qed.

(* ---------------------------------------------------------------- pixels *)
Definition tinv (psize : Z) (st : tga_st) : Prop :=
  bytes (ts_in st) /\ 0 <= ts_block st /\ 0 <= ts_dup st /\
  match ts_px st with
  | Some p => bytes p /\ Z.of_nat (length p) = psize
  | None => ts_dup st = 0
  end.

Lemma read_raw_pixel_spec psize st : 1 <= psize <= 4 -> bytes (ts_in st) -> 0 <= ts_block st -> 0 <= ts_dup st ->
  match read_raw_pixel psize st with
  | ROk st' => tinv psize st' /\ ts_px st' <> None /\ (length (ts_in st') < length (ts_in st))%nat
  | RErr e => e = R_EOF
  end.
Proof.
  intros Hp B Hb Hd. unfold read_raw_pixel. replace (psize >? 4) with false by lia. unfold rbind.
  pose proof (rtake_spec psize (ts_in st)) as T. destruct (rtake psize (ts_in st)) as [[px rest]|e]; [|exact T].
  destruct T as [E L]. rewrite E in B. apply bytes_app' in B. destruct B as [Bp Br].
  unfold tinv. cbn [ts_in ts_px ts_block ts_dup]. rewrite E, app_length.
  split; [split; [exact Br|]; split; [lia|]; split; [lia|]; split; [exact Bp|lia]|]. split; [discriminate|lia].
Qed.

Lemma land127 i : 0 <= i <= 255 -> 0 <= Z.land i 127 <= 127.
Proof.
  intro H. split; [apply Z.land_nonneg; lia|].
  assert (Z.land i 127 = i mod 128) as -> by (change 127 with (Z.ones 7); rewrite Z.land_ones by lia; reflexivity). lia.
Qed.

Lemma read_pixel_spec hd st : 1 <= t_psize hd <= 4 -> tinv (t_psize hd) st ->
  match read_pixel hd st with
  | ROk st' => tinv (t_psize hd) st' /\ ts_px st' <> None
  | RErr e => e = R_EOF
  end.
Proof.
  intros Hp (B & Hb & Hd & Px). unfold read_pixel. destruct (t_rle hd).
  - unfold read_rle_pixel. destruct (ts_dup st >? 0) eqn:D.
    + unfold tinv. cbn [ts_in ts_px ts_block ts_dup].
      destruct (ts_px st) as [p|] eqn:EP; [|lia].
      split; [split; [exact B|]; split; [lia|]; split; [lia|exact Px]|discriminate].
    + unfold rbind.
      destruct (ts_block st - 1 <? 0) eqn:Bk.
      * destruct (ts_in st) as [|i rest] eqn:EI; [reflexivity|].
        apply bytes_cons in B. destruct B as [Bi Br]. pose proof (land127 i ltac:(lia)) as L7.
        destruct (negb (Z.land i 128 =? 0)).
        -- pose proof (read_raw_pixel_spec (t_psize hd) {| ts_in := rest; ts_px := ts_px st; ts_block := 0; ts_dup := Z.land i 127 |}
                         Hp Br ltac:(cbn; lia) ltac:(cbn; lia)) as R.
           destruct (read_raw_pixel _ _) as [st'|e]; [|exact R]. tauto.
        -- pose proof (read_raw_pixel_spec (t_psize hd) {| ts_in := rest; ts_px := ts_px st; ts_block := Z.land i 127; ts_dup := 0 |}
                         Hp Br ltac:(cbn; lia) ltac:(cbn; lia)) as R.
           destruct (read_raw_pixel _ _) as [st'|e]; [|exact R]. tauto.
      * pose proof (read_raw_pixel_spec (t_psize hd) {| ts_in := ts_in st; ts_px := ts_px st; ts_block := ts_block st - 1; ts_dup := ts_dup st |}
                      Hp B ltac:(cbn; lia) ltac:(cbn; lia)) as R.
        destruct (read_raw_pixel _ _) as [st'|e]; [|exact R]. tauto.
  - pose proof (read_raw_pixel_spec (t_psize hd) st Hp B Hb Hd) as R.
    destruct (read_raw_pixel _ st) as [st'|e]; [|exact R]. tauto.
Qed.

Lemma tga_out_pixel_spec hd st : thdr_ok hd -> tinv (t_psize hd) st -> ts_px st <> None ->
  match tga_out_pixel hd st with
  | ROk l => Forall byte l /\ Z.of_nat (length l) = t_comps hd
  | RErr e => e = R_TGA_BADPARMS
  end.
Proof.
  intros (Hw & Hh & Hp & Hsub & Hc1 & Hc3 & Hp2 & Cm & Lm) (_ & _ & _ & Px) Ne. unfold tga_out_pixel.
  destruct (ts_px st) as [px|]; [|congruence]. destruct Px as [Bp Lp].
  pose proof (znth_byte px 0 Bp) as Z0. pose proof (znth_byte px 1 Bp) as Z1. pose proof (znth_byte px 2 Bp) as Z2.
  destruct (t_sub hd =? 3) eqn:S3.
  - split; [constructor; [unfold byte; lia|constructor]|]. rewrite Hc1 by lia. reflexivity.
  - rewrite Hc3 by lia. destruct (t_sub hd =? 1) eqn:S1.
    + rewrite g_tga_check. cbn [andb].
      destruct (znth px 0 0 >=? Z.of_nat (length (t_cmap hd))) eqn:R; [reflexivity|].
      destruct (nth_error (t_cmap hd) (Z.to_nat (znth px 0 0))) as [[[r g] b]|] eqn:E.
      * unfold tcm_ok in Cm. rewrite Forall_forall in Cm. specialize (Cm _ (nth_error_In _ _ E)). cbn in Cm.
        split; [repeat (constructor; [tauto|]); constructor|reflexivity].
      * apply nth_error_None in E. lia.
    + destruct (t_psize hd =? 2) eqn:P2.
      * set (t := znth px 0 0 + 256 * znth px 1 0).
        destruct (c5_ok (t mod 32) ltac:(lia)) as (b & -> & Hb). cbn [rbind].
        destruct (c5_ok ((t / 32) mod 32) ltac:(lia)) as (g & -> & Hg). cbn [rbind].
        destruct (c5_ok ((t / 1024) mod 32) ltac:(lia)) as (r & -> & Hr). cbn [rbind].
        split; [repeat (constructor; [assumption|]); constructor|reflexivity].
      * split; [repeat (constructor; [unfold byte; lia|]); constructor|reflexivity].
Qed.

Lemma tga_row_spec hd n : thdr_ok hd -> forall st, tinv (t_psize hd) st ->
  match tga_row hd n st with
  | ROk (row, st') => Forall byte row /\ Z.of_nat (length row) = Z.of_nat n * t_comps hd /\ tinv (t_psize hd) st'
  | RErr e => rsafe e
  end.
Proof.
  intros H. pose proof H as (Hw & Hh & Hp & _). induction n as [|n IH]; intros st I; cbn [tga_row].
  - split; [constructor|]. split; [cbn; lia|exact I].
  - unfold rbind. pose proof (read_pixel_spec hd st Hp I) as R.
    destruct (read_pixel hd st) as [st1|e]; [|subst; repeat split; discriminate]. destruct R as [I1 N1].
    pose proof (tga_out_pixel_spec hd st1 H I1 N1) as O.
    destruct (tga_out_pixel hd st1) as [px|e]; [|subst; repeat split; discriminate]. destruct O as [Fp Lp].
    specialize (IH st1 I1). destruct (tga_row hd n st1) as [[rest st2]|e]; [|exact IH].
    destruct IH as (Fr & Lr & I2). split; [apply Forall_app; auto|]. split; [rewrite app_length; lia|exact I2].
Qed.

Lemma tga_rows_spec hd n : thdr_ok hd -> forall st, tinv (t_psize hd) st ->
  match tga_rows hd n st with
  | ROk rows => length rows = n /\
      Forall (fun row => Forall byte row /\ Z.of_nat (length row) = t_w hd * t_comps hd) rows
  | RErr e => rsafe e
  end.
Proof.
  intros H. pose proof H as (Hw & _). induction n as [|n IH]; intros st I; cbn [tga_rows].
  - split; [reflexivity|constructor].
  - unfold rbind. pose proof (tga_row_spec hd (Z.to_nat (t_w hd)) H st I) as R.
    destruct (tga_row hd _ st) as [[row st1]|e]; [|exact R]. destruct R as (Fr & Lr & I1).
    specialize (IH st1 I1). destruct (tga_rows hd n st1) as [rows|e]; [|exact IH]. destruct IH as [Ln Fn].
    split; [cbn; lia|]. constructor; [|exact Fn]. split; [exact Fr|lia].
Qed.

Theorem load_tga_spec maxpixels s : bytes s ->
  match load_tga maxpixels s with
  | ROk (w, h, comps, rows) =>
    1 <= w <= 65535 /\ 1 <= h <= 65535 /\ (comps = 1 \/ comps = 3) /\ (maxpixels = 0 \/ w * h <= maxpixels) /\
    length rows = Z.to_nat h /\
    Forall (fun row => Forall byte row /\ Z.of_nat (length row) = w * comps) rows
  | RErr e => rsafe e
  end.
Proof.
  intro B. unfold load_tga, rbind.
  pose proof (tga_header_spec maxpixels s B) as H. destruct (tga_header maxpixels s) as [[hd s1]|e]; [|exact H].
  destruct H as (Hd & B1 & Lim).
  pose proof (tga_rows_spec hd (Z.to_nat (t_h hd)) Hd {| ts_in := s1; ts_px := None; ts_block := 0; ts_dup := 0 |}) as R.
  specialize (R ltac:(unfold tinv; cbn; repeat split; auto; lia)).
  destruct (tga_rows hd _ _) as [rows|e]; [|exact R]. destruct R as [Ln Fr].
  destruct Hd as (Hw & Hh & _ & Hsub & Hc1 & Hc3 & _).
  split; [lia|]. split; [lia|]. split; [destruct (Z.eq_dec (t_sub hd) 3); [left; auto|right; auto]|]. split; [exact Lim|].
  destruct (t_bottom_up hd); [rewrite rev_length; split; [exact Ln|apply Forall_rev; exact Fr]|split; [exact Ln|exact Fr]].
Qed.
