(* C09 -- every marker routine of the model is a resumable unit. *)
From Coq Require Import List ZArith Lia Arith Bool.
From LJT Require Import model.SuspendCore model.SuspendMarker proofs.SuspendProofs proofs.SuspendWriteProofs.
Import ListNotations.

(* ------------------------------------------------ stability of routines *)
Ltac stab :=
  repeat first
    [ apply stable_ret | apply stable_emit | apply stable_pfail | apply stable_input_byte
    | apply stable_2bytes
    | apply stable_bind; [|intros]
    | apply stable_rep; intros
    | solve [auto]
    | match goal with
      | |- stable (if ?b then _ else _) => destruct b
      | |- stable (match ?x with _ => _ end) => destruct x
      end ].

Lemma stable_get_sof : forall b x y z, stable (get_sof b x y z).
Proof. intros. unfold get_sof, sc. cbv zeta. stab. Qed.

Lemma stable_get_sos : forall b nc ids, stable (get_sos b nc ids).
Proof. intros. unfold get_sos, sc. cbv zeta. stab. Qed.

Lemma stable_dht_loop : forall f len, stable (dht_loop f len).
Proof. induction f; intros; simpl; cbv zeta; stab. Qed.

Lemma stable_get_dht : stable get_dht.
Proof. unfold get_dht. pose proof stable_dht_loop. stab. Qed.

Lemma stable_dqt_loop : forall f len, stable (dqt_loop f len).
Proof. induction f; intros; simpl; cbv zeta; stab. Qed.

Lemma stable_get_dqt : stable get_dqt.
Proof. unfold get_dqt. pose proof stable_dqt_loop. stab. Qed.

Lemma stable_get_dri : stable get_dri.
Proof. unfold get_dri, sc. stab. Qed.

Lemma stable_skip_variable : stable skip_variable.
Proof. unfold skip_variable. stab. Qed.

Lemma stable_appn : forall m, stable (get_interesting_appn m).
Proof. intros. unfold get_interesting_appn. cbv zeta. stab. Qed.

Lemma stable_first_marker : stable first_marker.
Proof. unfold first_marker. stab. Qed.

Lemma first_marker_two : forall p c k n ws, first_marker p 0 = POk (c, k) n ws -> n = 2.
Proof.
  intros p c k n ws. unfold first_marker, bind, input_byte, ret, pfail.
  destruct p as [|a [|b p]]; simpl; try discriminate.
  destruct (negb (a =? 255)%Z || negb (b =? 216)%Z); intros H; inversion H; reflexivity.
Qed.

(* ------------------------------------- get_sos does not overwrite what it reads *)
Definition q_sos (w : mwrite) : bool :=
  match w with
  | WCell g i _ => negb (Nat.eqb g G_ID) && negb (Nat.eqb g G_SC && Nat.eqb i S_NCOMP)
  | WRow _ _ => true
  end.

Ltac emi :=
  repeat first
    [ apply emits_ret | apply emits_pfail | apply emits_input_byte | apply emits_2bytes
    | apply emits_emit; reflexivity
    | apply emits_bind; [|intros]
    | apply emits_rep; intros
    | match goal with
      | |- emits _ (if ?b then _ else _) => destruct b
      | |- emits _ (match ?x with _ => _ end) => destruct x
      end ].

Lemma emits_get_sos : forall b nc ids, emits q_sos (get_sos b nc ids).
Proof. intros. unfold get_sos, sc. cbv zeta. emi. Qed.

Lemma q_sos_frame : forall ws s, forallb q_sos ws = true ->
  cget G_SC S_NCOMP (cells (apply_all ws s)) = cget G_SC S_NCOMP (cells s) /\
  nth G_ID (cells (apply_all ws s)) [] = nth G_ID (cells s) [].
Proof.
  induction ws as [|w ws IH]; intros s H; [split; reflexivity|].
  simpl in H. apply andb_true_iff in H. destruct H as [Hw H].
  change (apply_all (w :: ws) s) with (apply_all ws (apply_write w s)).
  destruct (IH (apply_write w s) H) as [I1 I2]. rewrite I1, I2.
  destruct w as [g i v|r l]; simpl; [|split; reflexivity].
  simpl in Hw. apply andb_true_iff in Hw. destruct Hw as [H1 H2].
  apply negb_true_iff in H1. apply Nat.eqb_neq in H1.
  apply negb_true_iff in H2. apply andb_false_iff in H2.
  split.
  - apply cget_cset_other. destruct H2 as [H2|H2]; apply Nat.eqb_neq in H2; auto.
  - apply row_cset_other. auto.
Qed.

(* ------------------------------------------------------------ next_marker *)
Definition add_res (a : nat) (r : nm_res) : nm_res :=
  match r with NM_found c d n => NM_found c d (a + n) | NM_more d n => NM_more d (a + n) end.

Lemma nm_base : forall p d a n k, nm p d (a + n) k = add_res a (nm p d n k).
Proof.
  induction p as [|c p IH]; intros; simpl; [reflexivity|].
  destruct k.
  - destruct (c =? 255)%Z; [apply IH|]. rewrite <- IH. f_equal. lia.
  - destruct (c =? 255)%Z; [apply IH|].
    destruct (c =? 0)%Z; [|simpl; f_equal; lia].
    rewrite <- IH. f_equal. lia.
Qed.

Lemma nm_found_stable : forall p d n k c d' n', nm p d n k = NM_found c d' n' ->
  forall e, nm (p ++ e) d n k = NM_found c d' n'.
Proof.
  induction p as [|x p IH]; intros d n k c d' n' H e; simpl in *; [discriminate|].
  destruct k.
  - destruct (x =? 255)%Z; eauto.
  - destruct (x =? 255)%Z; eauto. destruct (x =? 0)%Z; eauto.
Qed.

Lemma nm_found_bound : forall p d n k c d' n', nm p d n k = NM_found c d' n' ->
  n + Nat.max k 1 + 1 <= n' /\ n' <= n + k + length p.
Proof.
  induction p as [|x p IH]; intros d n k c d' n' H; simpl in *; [discriminate|].
  destruct k.
  - destruct (x =? 255)%Z; apply IH in H; simpl in *; lia.
  - destruct (x =? 255)%Z; [apply IH in H; simpl in *; lia|].
    destruct (x =? 0)%Z; [apply IH in H; simpl in *; lia|].
    inversion H; subst. lia.
Qed.

Lemma nm_ffs_S : forall j e d n i, nm (repeat 255%Z j ++ e) d n (S i) = nm e d n (S i + j).
Proof.
  induction j; intros; simpl; [f_equal; lia|].
  rewrite IHj. f_equal. lia.
Qed.

Lemma nm_ffs : forall k e d n, nm (repeat 255%Z k ++ e) d n 0 = nm e d n k.
Proof.
  destruct k; intros; simpl; [reflexivity|].
  rewrite nm_ffs_S. f_equal.
Qed.

Lemma repeat_snoc {A} : forall (x : A) k l, repeat x (S k) ++ l = repeat x k ++ x :: l.
Proof. induction k; intros; simpl; [reflexivity|]. f_equal. apply IHk. Qed.

Lemma nm_more_replay : forall p pre d n0 k d' n, length pre = n0 -> nm p d n0 k = NM_more d' n ->
  n0 <= n /\ n <= length (pre ++ repeat 255%Z k ++ p) /\
  forall e, nm (p ++ e) d n0 k = nm (skipn n (pre ++ repeat 255%Z k ++ p) ++ e) d' n 0.
Proof.
  induction p as [|c p IH]; intros pre d n0 k d' n Hl H; simpl in H.
  - inversion H; subst. rewrite app_nil_r. split; [lia|]. split; [rewrite app_length; lia|].
    intros e. rewrite skipn_app, skipn_all, Nat.sub_diag. simpl. now rewrite nm_ffs.
  - destruct k.
    + destruct (c =? 255)%Z eqn:C.
      * apply Z.eqb_eq in C. subst c.
        destruct (IH pre d _ 1 d' n Hl H) as (A & B & D).
        simpl in *. repeat split; auto.
      * destruct (IH (pre ++ [c]) (d + 1)%Z (S (length pre)) 0 d' n) as (A & B & D).
        { rewrite app_length. simpl. lia. } { subst. exact H. }
        simpl in *. rewrite <- app_assoc in *. simpl in *. subst n0.
        repeat split; auto; try lia. try (intros e; rewrite C; apply D).
    + destruct (c =? 255)%Z eqn:C.
      * apply Z.eqb_eq in C. subst c.
        destruct (IH pre d _ (S (S k)) d' n Hl H) as (A & B & D).
        rewrite repeat_snoc in B, D. repeat split; auto.
      * destruct (c =? 0)%Z eqn:C0; [|discriminate].
        destruct (IH (pre ++ repeat 255%Z (S k) ++ [c]) (d + 2)%Z (n0 + S k + 1) 0 d' n) as (A & B & D).
        { rewrite !app_length, repeat_length. simpl. lia. } { exact H. }
        assert (E : (pre ++ repeat 255%Z (S k) ++ [c]) ++ repeat 255%Z 0 ++ p = pre ++ repeat 255%Z (S k) ++ c :: p).
        { simpl. rewrite <- !app_assoc. simpl. rewrite <- app_assoc. reflexivity. }
        rewrite E in *. repeat split; auto; try lia.
        try (intros e; simpl; rewrite C, C0; apply D).
Qed.

Lemma shift_0 : forall (r : ures mstate merr), shift 0 r = r.
Proof. destruct r; reflexivity. Qed.

Lemma next_marker_done : forall s p s' n k, next_marker s p = Done s' n k ->
  2 <= n /\ n <= length p /\ forall e, next_marker s (p ++ e) = Done s' n k.
Proof.
  unfold next_marker. intros s p s' n k H.
  destruct (nm p (discarded s) 0 0) as [c d m|d m] eqn:E; inversion H; subst.
  destruct (nm_found_bound _ _ _ _ _ _ _ E) as [B1 B2]. simpl in *.
  repeat split; try lia.
  intros e. now rewrite (nm_found_stable _ _ _ _ _ _ _ E e).
Qed.

Lemma next_marker_more : forall s p s1 n, next_marker s p = More s1 n ->
  n <= length p /\ (exists d, s1 = set_discarded d s) /\
  forall e, next_marker s (p ++ e) = shift n (next_marker s1 (skipn n p ++ e)).
Proof.
  unfold next_marker. intros s p s1 n H.
  destruct (nm p (discarded s) 0 0) as [c d m|d m] eqn:E; inversion H; subst.
  destruct (nm_more_replay p [] _ 0 0 _ _ eq_refl E) as (_ & B & D). simpl in B, D.
  split; [exact B|]. split; [now exists d|].
  intros e. rewrite D.
  pose proof (nm_base (skipn n p ++ e) d n 0 0) as NB. rewrite Nat.add_0_r in NB. unfold byte in *. rewrite NB.
  replace (discarded (set_discarded d s)) with d by (destruct s; reflexivity).
  destruct (nm (skipn n p ++ e) d 0 0) as [c d2 m|d2 m]; simpl.
  - reflexivity.
  - reflexivity.
Qed.

Lemma next_marker_no_fail : forall s p, (forall x, next_marker s p <> Fail x) /\ next_marker s p <> Halt.
Proof.
  intros. unfold next_marker. destruct (nm p (discarded s) 0 0); split; try intros x; discriminate.
Qed.

(* ------------------------------------------------------------ save_marker *)
Definition cm_app (cm : saved) (l : list byte) : saved :=
  {| sv_marker := sv_marker cm; sv_orig := sv_orig cm; sv_dlen := sv_dlen cm; sv_data := sv_data cm ++ l |}.

Lemma save_copy_done : forall s cm br p n0 s' n k, save_copy s cm br p n0 = Done s' n k ->
  n <= n0 + length p /\ forall e, save_copy s cm br (p ++ e) n0 = Done s' n k.
Proof.
  unfold save_copy. intros s cm br p n0 s' n k H.
  destruct (Nat.ltb (br + length (firstn (sv_dlen cm - br) p)) (sv_dlen cm)) eqn:L; [discriminate|].
  apply Nat.ltb_ge in L. rewrite firstn_length in L.
  assert (W : sv_dlen cm - br <= length p) by lia.
  split.
  - inversion H; subst. rewrite firstn_length. lia.
  - intros e. rewrite firstn_app.
    replace (sv_dlen cm - br - length p) with 0 by lia. simpl. rewrite app_nil_r.
    replace (Nat.ltb (br + length (firstn (sv_dlen cm - br) p)) (sv_dlen cm)) with false
      by (symmetry; apply Nat.ltb_ge; rewrite firstn_length; lia).
    exact H.
Qed.

Lemma save_copy_more : forall s cm br p n0 s1 n, save_copy s cm br p n0 = More s1 n ->
  n = n0 + length p /\ length p < sv_dlen cm - br /\
  s1 = set_cur (Some (cm_app cm p)) (br + length p) s.
Proof.
  unfold save_copy. intros s cm br p n0 s1 n H.
  destruct (Nat.ltb (br + length (firstn (sv_dlen cm - br) p)) (sv_dlen cm)) eqn:L; [|discriminate].
  apply Nat.ltb_lt in L. rewrite firstn_length in L.
  assert (W : length p < sv_dlen cm - br) by lia.
  rewrite firstn_all2 in H by lia.
  inversion H; subst. auto.
Qed.

Lemma save_copy_split : forall s cm br p e n0, length p < sv_dlen cm - br ->
  save_copy s cm br (p ++ e) n0 =
  shift (n0 + length p)
    (save_copy (set_cur (Some (cm_app cm p)) (br + length p) s) (cm_app cm p) (br + length p) e 0).
Proof.
  intros. unfold save_copy. simpl.
  rewrite firstn_app, (firstn_all2 p) by lia.
  replace (sv_dlen cm - (br + length p)) with (sv_dlen cm - br - length p) by lia.
  set (f := firstn (sv_dlen cm - br - length p) e).
  rewrite app_length.
  replace (br + length p + length f) with (br + (length p + length f)) by lia.
  destruct (Nat.ltb (br + (length p + length f)) (sv_dlen cm)); simpl.
  - unfold cm_app. simpl. rewrite <- app_assoc. f_equal; first [lia | reflexivity | destruct s; reflexivity].
  - unfold cm_app. simpl. rewrite <- app_assoc. f_equal; first [lia | reflexivity | destruct s; reflexivity].
Qed.

Lemma examine_frame : forall m d s,
  halted (examine m d s) = halted s /\ unread_marker (examine m d s) = unread_marker s /\
  marker_list (examine m d s) = marker_list s /\ cur_marker (examine m d s) = cur_marker s /\
  saw_SOI (examine m d s) = saw_SOI s.
Proof.
  intros. unfold examine, examine_app0, examine_app14.
  repeat match goal with |- context[if ?b then _ else _] => destruct b end; destruct s; repeat split; reflexivity.
Qed.

Lemma save_copy_done_state : forall s cm br p n0 s' n k, save_copy s cm br p n0 = Done s' n k ->
  unread_marker s' = 0%Z /\ halted s' = halted s.
Proof.
  unfold save_copy. intros s cm br p n0 s' n k H.
  destruct (Nat.ltb _ _); inversion H. split; [reflexivity|].
  change (halted (set_unread 0 ?x)) with (halted x).
  simpl. now rewrite (proj1 (examine_frame _ _ _)).
Qed.

Lemma save_marker_done : forall s p s' n k, save_marker s p = Done s' n k ->
  n <= length p /\ unread_marker s' = 0%Z /\ halted s' = halted s /\
  forall e, save_marker s (p ++ e) = Done s' n k.
Proof.
  unfold save_marker. intros s p s' n k H.
  destruct (cur_marker s) as [cm|].
  - destruct (save_copy_done _ _ _ _ _ _ _ _ H) as [A B]. simpl in A.
    destruct (save_copy_done_state _ _ _ _ _ _ _ _ H) as [U V].
    repeat split; auto.
  - destruct p as [|b1 [|b2 p]]; try discriminate.
    change ((b1 :: b2 :: p) ++ ?e) with (b1 :: b2 :: (p ++ e)).
    destruct (b1 * 256 + b2 - 2 >=? 0)%Z eqn:L.
    + destruct (save_copy_done _ _ _ _ _ _ _ _ H) as [A B].
      destruct (save_copy_done_state _ _ _ _ _ _ _ _ H) as [U V].
      repeat split; auto; try (simpl; lia). intros e. rewrite L. apply B.
    + inversion H; subst. split; [simpl; lia|]. split; [reflexivity|]. split; [|intros e; now rewrite L].
      simpl. now rewrite (proj1 (examine_frame _ _ _)).
Qed.

Definition cm0 (s : mstate) (b1 b2 : Z) : saved :=
  {| sv_marker := unread_marker s; sv_orig := Z.to_nat (b1 * 256 + b2 - 2);
     sv_dlen := Nat.min (nth (proc_index (unread_marker s)) (limit s) 0) (Z.to_nat (b1 * 256 + b2 - 2));
     sv_data := [] |}.

Lemma save_marker_fresh : forall s b1 b2 q, cur_marker s = None -> (b1 * 256 + b2 - 2 >=? 0)%Z = true ->
  save_marker s (b1 :: b2 :: q) = save_copy s (cm0 s b1 b2) 0 q 2.
Proof. intros. unfold save_marker. rewrite H. simpl. rewrite H0. reflexivity. Qed.

Lemma save_marker_resume : forall s cm q, cur_marker s = Some cm ->
  save_marker s q = save_copy s cm (bytes_read s) q 0.
Proof. intros. unfold save_marker. now rewrite H. Qed.

Lemma save_marker_more : forall s p s1 n, save_marker s p = More s1 n ->
  n <= length p /\
  (halted s1 = halted s /\ unread_marker s1 = unread_marker s /\ saw_SOI s1 = saw_SOI s /\
   saw_SOF s1 = saw_SOF s /\ proc s1 = proc s /\ cells s1 = cells s) /\
  forall e, save_marker s (p ++ e) = shift n (save_marker s1 (skipn n p ++ e)).
Proof.
  intros s p s1 n H.
  destruct (cur_marker s) as [cm|] eqn:C.
  - rewrite (save_marker_resume _ _ _ C) in H.
    destruct (save_copy_more _ _ _ _ _ _ _ H) as (A & B & D). subst. simpl.
    split; [lia|]. split; [destruct s; repeat split|].
    intros e. rewrite skipn_all. simpl.
    rewrite (save_marker_resume _ _ _ C).
    rewrite (save_marker_resume (set_cur (Some (cm_app cm p)) (bytes_read s + length p) s) _ e eq_refl).
    now apply save_copy_split.
  - destruct p as [|b1 [|b2 p]].
    + unfold save_marker in H. rewrite C in H. inversion H; subst. simpl. split; [lia|]. split; [repeat split|].
      intros e. now rewrite shift_0.
    + unfold save_marker in H. rewrite C in H. inversion H; subst. simpl. split; [lia|]. split; [repeat split|].
      intros e. now rewrite shift_0.
    + destruct (b1 * 256 + b2 - 2 >=? 0)%Z eqn:L.
      2:{ unfold save_marker in H. rewrite C in H. simpl in H. rewrite L in H. discriminate. }
      rewrite (save_marker_fresh _ _ _ _ C L) in H.
      destruct (save_copy_more _ _ _ _ _ _ _ H) as (A & B & D). subst.
      split; [simpl; lia|]. split; [destruct s; repeat split|].
      intros e. change ((b1 :: b2 :: p) ++ e) with (b1 :: b2 :: (p ++ e)).
      rewrite (save_marker_fresh _ _ _ _ C L).
      change (skipn (2 + length p) (b1 :: b2 :: p)) with (skipn (length p) p).
      rewrite skipn_all. simpl app.
      rewrite (save_marker_resume (set_cur (Some (cm_app (cm0 s b1 b2) p)) (0 + length p) s) _ e eq_refl).
      now apply save_copy_split.
Qed.

Lemma save_marker_no_halt : forall s p, save_marker s p <> Halt /\ forall x, save_marker s p <> Fail x.
Proof.
  intros. unfold save_marker, save_copy.
  destruct (cur_marker s); [destruct (Nat.ltb _ _); split; try intros x; discriminate|].
  destruct p as [|b1 [|b2 p]]; try (split; try intros x; discriminate).
  destruct (_ >=? 0)%Z; [destruct (Nat.ltb _ _)|]; split; try intros x; discriminate.
Qed.

(* ------------------------------------------------------------ the switch *)
Lemma slack_le1 : forall s, marker_slack s <= 1.
Proof. intros. unfold marker_slack. destruct (negb _); [lia|]. destruct (_ =? _)%Z; lia. Qed.

Lemma slack_unread0 : forall s, unread_marker s = 0%Z -> marker_slack s = 0.
Proof. intros. unfold marker_slack. rewrite H. destruct (negb _); reflexivity. Qed.

Lemma select_same : forall s1 s, halted s1 = halted s -> unread_marker s1 = unread_marker s ->
  saw_SOI s1 = saw_SOI s -> saw_SOF s1 = saw_SOF s -> proc s1 = proc s -> cells s1 = cells s ->
  select s1 = select s.
Proof. intros. unfold select. congruence. Qed.

Ltac cascade H :=
  repeat match type of H with
  | (if ?b then _ else _) = _ => destruct b eqn:?
  | (match ?x with _ => _ end) = _ => destruct x eqn:?
  end.

Ltac slack1 s :=
  unfold marker_slack;
  repeat match goal with
  | H : negb (halted s =? 0)%Z = false |- _ => rewrite H; clear H
  | H : (unread_marker s =? 0)%Z = false |- _ => rewrite H; clear H
  end; reflexivity.

Lemma after_marker_slack : forall x, marker_slack (after_marker x) = 0.
Proof. intros. apply slack_unread0. reflexivity. Qed.

Lemma select_routine : forall s m after, select s = BRoutine m after ->
  stable m /\
  ((forall x, marker_slack (after x) = 0) /\ marker_slack s = 1 \/ (m = first_marker /\ after = fun s => s)).
Proof.
  intros s m after H. unfold select, select' in H.
  cascade H; try discriminate; inversion H; subst; clear H;
    (split;
     [ first [ apply stable_get_sof | apply stable_get_sos | apply stable_get_dht | apply stable_get_dqt
             | apply stable_get_dri | apply stable_skip_variable | apply stable_appn | apply stable_first_marker ]
     | first [ right; split; reflexivity
             | left; split; [ intros; first [apply after_marker_slack | reflexivity] | slack1 s ] ] ]).
Qed.

Lemma select_pure : forall s f, select s = BPure f ->
  marker_slack s = 1 /\ forall s', f s = inl s' -> marker_slack s' = 0.
Proof.
  intros s f H. unfold select, select' in H.
  cascade H; try discriminate; inversion H; subst; clear H; (split; [slack1 s|]); intros s' E.
  - destruct (get_soi s); inversion E. apply after_marker_slack.
  - inversion E. reflexivity.
  - inversion E. apply after_marker_slack.
Qed.

Lemma select_save : forall s, select s = BSave -> marker_slack s = 1.
Proof.
  intros s H. unfold select, select' in H.
  cascade H; try discriminate; slack1 s.
Qed.

Lemma select_next : forall s, select s = BNext -> marker_slack s = 0.
Proof.
  intros s H. unfold select, select' in H.
  cascade H; try discriminate.
  unfold marker_slack.
  repeat match goal with H : _ = _ |- _ => rewrite H end. reflexivity.
Qed.

Lemma select_dirty : forall s m after p ws, select s = BRoutine m after -> m p 0 = PMore ws ->
  select (apply_all ws s) = select s.
Proof.
  intros s m after p ws H Hm. unfold select in *.
  destruct (apply_all_frame ws s) as (F1 & F2 & F3 & _ & _ & _ & _ & _ & _ & _ & _ & _ & F13 & _ & F15).
  rewrite F1, F2, F3, F13, F15. unfold select' in *.
  cascade H; try discriminate; try reflexivity.
  inversion H; subst.
  pose proof (emits_get_sos (saw_SOF s) (cget G_SC S_NCOMP (cells s)) (nth G_ID (cells s) []) p 0) as Q.
  rewrite Hm in Q. destruct (q_sos_frame ws s Q) as [Q1 Q2]. now rewrite Q1, Q2.
Qed.

Lemma routine_more' : forall m after, stable m -> forall s p s1 n, run_routine m after s p = More s1 n ->
  exists ws, m p 0 = PMore ws /\ s1 = apply_all ws s /\ n = 0.
Proof.
  unfold run_routine. intros m after St s p s1 n H.
  destruct (m p 0) as [[c k0] pos ws|ws|y] eqn:E; try discriminate.
  inversion H; subst. now exists ws.
Qed.

Theorem marker_unit_resumable : resumable marker_unit marker_slack.
Proof.
  constructor.
  - (* done_stable *)
    intros s p s' n k H. unfold marker_unit in *.
    destruct (select s) as [| |m after|f|x|] eqn:B; simpl in *; try discriminate.
    + destruct (next_marker_done _ _ _ _ _ H) as (A1 & A2 & A3).
      pose proof (slack_le1 s'). repeat split; auto; lia.
    + destruct (select_routine _ _ _ B) as [St Sl].
      destruct (routine_done m after St _ _ _ _ _ H) as [A1 A2].
      repeat split; auto.
      destruct Sl as [[S1 S2]|[S1 S2]].
      * unfold run_routine in H. destruct (m p 0) as [[c k0] pos ws|ws|y]; inversion H; subst. rewrite S1, S2. lia.
      * subst. unfold run_routine in H. pose proof (slack_le1 s') as LE.
        destruct (first_marker p 0) as [[c k0] pos ws|ws|y] eqn:E; inversion H; subst.
        apply first_marker_two in E. subst. lia.
    + destruct (select_pure _ _ B) as [S1 S2].
      destruct (f s) eqn:E; inversion H; subst. rewrite (S2 _ eq_refl), S1. repeat split; auto; lia.
    + destruct (save_marker_done _ _ _ _ _ H) as (A1 & A2 & A3 & A4).
      rewrite (slack_unread0 _ A2), (select_save _ B). repeat split; auto; lia.
  - (* fail_stable *)
    intros s p x H e. unfold marker_unit in *.
    destruct (select s) as [| |m after|f|y|] eqn:B; simpl in *; try discriminate; auto.
    + exfalso. exact (proj1 (next_marker_no_fail s p) x H).
    + destruct (select_routine _ _ _ B) as [St _]. now apply routine_fail.
    + exfalso. exact (proj2 (save_marker_no_halt s p) x H).
  - (* halt_state *)
    intros s p H q. unfold marker_unit in *.
    destruct (select s) as [| |m after|f|y|] eqn:B; simpl in *; try discriminate; auto.
    + exfalso. exact (proj2 (next_marker_no_fail s p) H).
    + exfalso. exact (routine_never_halt m after s p H).
    + exfalso. exact (proj1 (save_marker_no_halt s p) H).
  - (* more_replay *)
    intros s p s1 n H. unfold marker_unit in *.
    destruct (select s) as [| |m after|f|y|] eqn:B; simpl in *; try discriminate.
    + destruct (next_marker_more _ _ _ _ H) as (A1 & [d A2] & A3).
      split; auto. intros e.
      assert (S1 : select s1 = select s) by (subst; apply select_same; destruct s; reflexivity).
      rewrite S1, B. simpl. apply A3.
    + destruct (select_routine _ _ _ B) as [St _].
      destruct (routine_more' m after St _ _ _ _ H) as (ws & Hm & -> & ->).
      destruct (routine_more m after St _ _ _ _ H) as (_ & _ & A3).
      split; [lia|]. intros e.
      rewrite (select_dirty _ _ _ _ _ B Hm), B. simpl. rewrite shift_0. symmetry. apply A3.
    + destruct (f s); discriminate.
    + destruct (save_marker_more _ _ _ _ H) as (A1 & (F1 & F2 & F3 & F4 & F5 & F6) & A3).
      split; auto. intros e.
      rewrite (select_same _ _ F1 F2 F3 F4 F5 F6), B. simpl. apply A3.
Qed.
