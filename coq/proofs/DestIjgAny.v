(* C13: jdatadst.c jpeg_mem_dest under ANY allocator behaviour.  jpeg_mem_dest takes the buffer and the granted
   size from the caller on every call and never compares pointers, so -- unlike the TurboJPEG manager -- its
   contract survives address recycling: the caller may free or shrink its block (free + smaller allocation at the
   same address = realloc in place) and re-arm the same object with the same pointer value and a smaller or larger
   *outsize.  Histories are constrained by preconditions evaluated along the run (no w_ok flag, no hazard). *)
From Coq Require Import List ZArith Bool Lia.
From LJT Require Import gen.GenDest model.Dest proofs.DestProofs.
Import ListNotations.
Local Open Scope Z_scope.

Definition hop_pre (c : cfg) (o : hop) (w : world) : bool :=
  match o with
  | HAlloc n _ => 0 <=? n
  | HTake k => match nth_error (w_held w) k with Some _ => true | None => false end
  | HFreeBuf => caller_may_free (w_heap w) (w_buf w)
  | HFreeHeld k => match nth_error (w_held w) k with Some a => caller_may_free (w_heap w) a | None => false end
  | HCall alloc ops => pass_ok c alloc w && forallb chunk_ok ops
  | _ => true
  end.

Fixpoint hist_pre (c : cfg) (hs : list hop) (w : world) : bool :=
  match hs with
  | [] => true
  | o :: t => hop_pre c o w && hist_pre c t (run_hop c o w)
  end.

Definition HW (w : world) : Prop := WF (w_heap w) /\ nobad (w_heap w).

(* malloc keeps the heap well formed whether or not it recycles an address *)
Lemma malloc_any_wf h n o rc h1 a : WF h -> nobad h -> h_malloc h n o rc = (h1, a) -> WF h1 /\ nobad h1.
Proof.
  intros W NB Hm. unfold h_malloc in Hm. destruct (rc && can_recycle h) eqn:E.
  - inversion Hm; subst; clear Hm. apply andb_true_iff in E as (_ & E). unfold can_recycle in E.
    apply andb_true_iff in E as (E & _). apply andb_true_iff in E as (E1 & E2). apply Z.ltb_lt in E1, E2.
    destruct W as (W0 & W). split.
    + split; [exact W0|]. intros b [<-|Hb]; cbn [b_addr h_fresh]; [lia|apply W, Hb].
    + unfold nobad. cbn [h_log existsb is_bad orb]. exact NB.
  - inversion Hm; subst; clear Hm. destruct W as (W0 & W). split.
    + split; [cbn [h_fresh]; lia|]. intros b [<-|Hb]; cbn [b_addr h_fresh]; [lia|]. specialize (W b Hb). lia.
    + unfold nobad. cbn [h_log existsb is_bad orb]. exact NB.
Qed.

Lemma flag_if_heap b n w : WF (w_heap w) /\ nobad (w_heap w) -> WF (w_heap (flag_if b n w)) /\ nobad (w_heap (flag_if b n w)).
Proof. destruct b; [|auto]. intros (W & NB). split; [exact W|]. apply nobad_logadd; [reflexivity|exact NB]. Qed.

Lemma flag_if_pass c alloc b n w : pass_ok c alloc (flag_if b n w) = pass_ok c alloc w.
Proof. destruct b; reflexivity. Qed.

Lemma run_hop_hw c o w : cf_mgr c = IJG -> cf_rebind c = true -> HW w -> hop_pre c o w = true -> HW (run_hop c o w).
Proof.
  intros Hm Hrb (W & NB) Hp.
  destruct o as [n rc| z | | | k | | k | alloc ops | cp k]; cbn [run_hop hop_pre] in *.
  - set (w1 := flag_if (n <? 0) NCallerSize (flag_if (rc && can_recycle (w_heap w)) NRecycled w)).
    assert (H1 : WF (w_heap w1) /\ nobad (w_heap w1)) by (unfold w1; apply flag_if_heap, flag_if_heap; split; assumption).
    destruct (h_malloc (w_heap w1) n Caller rc) as [h1 a] eqn:E.
    destruct (malloc_any_wf _ _ _ _ _ _ (proj1 H1) (proj2 H1) E) as (A & B). split; assumption.
  - split; assumption.
  - split; assumption.
  - split; assumption.
  - destruct (nth_error (w_held w) k); [split; assumption|discriminate].
  - rewrite Hp. cbn [negb flag_if]. destruct (keeps_free_caller (w_heap w) (w_buf w) W) as (_ & W1 & NB1). split; [exact W1|exact (NB1 NB)].
  - destruct (nth_error (w_held w) k) as [a|]; [|discriminate]. rewrite Hp. cbn [negb flag_if].
    destruct (keeps_free_caller (w_heap w) a W) as (_ & W1 & NB1). split; [exact W1|exact (NB1 NB)].
  - apply andb_true_iff in Hp as (Hpass & Hch). rewrite Hpass. cbn [negb flag_if].
    set (w2 := flag_if (zero_reuse c alloc w) NZeroReuse w).
    assert (H2 : WF (w_heap w2) /\ nobad (w_heap w2)) by (unfold w2; apply flag_if_heap; split; assumption).
    assert (Hp2 : pass_ok c alloc w2 = true) by (unfold w2; rewrite flag_if_pass; exact Hpass).
    pose proof (mem_dest_ijg_wf c alloc (set_cur (w_buf w2) w2) Hm Hrb (proj1 H2) (proj2 H2) eq_refl Hp2) as MD.
    assert (MD' : match mem_dest c alloc (set_cur (w_buf w2) w2) with
                  | (w1, None) => MDpost c alloc (set_cur (w_buf w2) w2) w1
                  | (w1, Some st) => st = StBufSize /\ eff_alloc c alloc = false /\ MDerr (set_cur (w_buf w2) w2) w1
                  end).
    { destruct (mem_dest c alloc (set_cur (w_buf w2) w2)) as [w1 [st|]]; [contradiction|exact MD]. }
    pose proof (run_call_core c alloc ops w2 MD' Hch) as H. unfold run_call.
    destruct (run_call_st c alloc ops w2) as [w' st]. destruct H as ((A & B & _) & _). split; assumption.
  - destruct cp; [split; assumption|]. destruct (nth k (set_nth _ _ _) (0, 0)). split; assumption.
Qed.

(* after every history that respects the caller-side preconditions -- whatever addresses malloc hands out -- the
   library has made no bad access (no overrun, no over-read, no bad free, nothing stored through stale variables) *)
Theorem ijg_safe_any_allocator c : cf_mgr c = IJG -> cf_rebind c = true -> forall hs w,
  HW w -> hist_pre c hs w = true -> HW (run_hist c hs w).
Proof.
  intros Hm Hrb. induction hs as [|o t IH]; intros w H Hp; [exact H|].
  cbn [hist_pre] in Hp. apply andb_true_iff in Hp as (Hp1 & Hp2). cbn [run_hist fold_left].
  apply IH; [apply run_hop_hw; assumption|exact Hp2].
Qed.

Corollary ijg_lib_clean_any_allocator hs : hist_pre cfg_ijg hs world0 = true -> lib_clean (run cfg_ijg hs) = true.
Proof.
  intros Hp. apply nobad_clean.
  exact (proj2 (ijg_safe_any_allocator cfg_ijg eq_refl eq_refl hs world0 (conj (proj1 Inv0) (proj1 (proj2 Inv0))) Hp)).
Qed.

(* and the per-call contract holds for the call that follows such a history, e.g. after an in-place shrink *)
Theorem ijg_call_contract_any_allocator hs ops : hist_pre cfg_ijg (hs ++ [HCall true ops]) world0 = true ->
  forallb no_abort ops = true ->
  let w' := run cfg_ijg (hs ++ [HCall true ops]) in
  lib_clean w' = true /\ w_size w' = Z.of_nat (length (bytes_of ops)) /\
  contents (w_heap w') (w_buf w') (w_size w') = bytes_of ops.
Proof.
  intros Hp Hab.
  assert (Hsplit : forall l w, hist_pre cfg_ijg (l ++ [HCall true ops]) w = true ->
            hist_pre cfg_ijg l w = true /\ hop_pre cfg_ijg (HCall true ops) (run_hist cfg_ijg l w) = true).
  { induction l as [|o t IH]; intros w H; cbn [app hist_pre] in *.
    - rewrite andb_true_r in H. split; [reflexivity|exact H].
    - apply andb_true_iff in H as (A & B). destruct (IH _ B) as (C & D). rewrite A, C. split; [reflexivity|exact D]. }
  destruct (Hsplit hs world0 Hp) as (Hp1 & Hp2). fold (run cfg_ijg hs) in Hp2.
  pose proof (ijg_safe_any_allocator cfg_ijg eq_refl eq_refl hs world0 (conj (proj1 Inv0) (proj1 (proj2 Inv0))) Hp1) as (W & NB).
  fold (run cfg_ijg hs) in W, NB. set (w := run cfg_ijg hs) in *.
  cbn [hop_pre] in Hp2. apply andb_true_iff in Hp2 as (Hpass & Hch).
  intros w'. unfold w'. rewrite run_snoc. fold w. cbn [run_hop]. rewrite Hpass. cbn [negb flag_if].
  change (zero_reuse cfg_ijg true w) with false. cbn [flag_if].
  pose proof (mem_dest_ijg_wf cfg_ijg true (set_cur (w_buf w) w) eq_refl eq_refl W NB eq_refl Hpass) as MD.
  assert (MD' : match mem_dest cfg_ijg true (set_cur (w_buf w) w) with
                | (w1, None) => MDpost cfg_ijg true (set_cur (w_buf w) w) w1
                | (w1, Some st) => st = StBufSize /\ eff_alloc cfg_ijg true = false /\ MDerr (set_cur (w_buf w) w) w1
                end).
  { destruct (mem_dest cfg_ijg true (set_cur (w_buf w) w)) as [w1 [st|]]; [contradiction|exact MD]. }
  pose proof (run_call_core cfg_ijg true ops w MD' Hch) as H. unfold run_call.
  destruct (run_call_st cfg_ijg true ops w) as [w1 st]. destruct H as (HI & _ & _ & Hs & Hf & _). cbn [fst].
  assert (st = StOk).
  { destruct st; [reflexivity| | |]; exfalso; destruct (Hf ltac:(discriminate)) as [(H1 & H2)|(H1 & H2)]; try discriminate; congruence. }
  subst st. destruct (Hs eq_refl) as (_ & A & B & _).
  split; [apply nobad_clean; exact (proj1 (proj2 HI))|]. split; assumption.
Qed.

(* the in-place shrink history of the corpus satisfies the preconditions (and is a hazard for the TurboJPEG manager) *)
Example shrink_history_ok :
  let hs := [HAlloc 6000 false; HCall true [chunk 300; chunk 300]; HFreeBuf; HAlloc 600 true; HCall true [chunk 500; chunk 500; chunk 500; chunk 500]; HFreeBuf] in
  hist_pre cfg_ijg hs world0 = true /\ verdict (run cfg_ijg hs) = (false, [NRecycled], None).
Proof. vm_compute. split; reflexivity. Qed.
