(* C11 -- temporary-buffer copies: at full size (compression, unscaled decompression) a
   plane row of pw bytes fits a temporary row of iw bytes; with IDCT scaling it need not:
   with rows iw apart the copy-out of tj3DecompressToYUVPlanes8 reads past the end of
   _tmpbuf; with rows MAX(iw, pw) apart it never does. *)
From Coq Require Import List ZArith Lia Bool ZifyBool.
From LJT Require Import model.Extent model.ExtentTmp gen.GenAlign proofs.ExtentProofs proofs.ExtentYuvProofs.
Import ListNotations.
Local Open Scope Z_scope.
Ltac Zify.zify_post_hook ::= Z.div_mod_to_equations.

Theorem tmpbuf_fullsize_fits comp width ss :
  1 <= width -> ss_valid ss comp -> plane_w comp width ss <= tmp_iw width comp ss 8.
Proof.
  intros Hw [Hss Hc]. destruct (samp_cases ss Hss) as [Hsh _].
  unfold plane_w, tmp_iw, width_in_blocks, comp_h, PAD.
  destruct (comp =? 0); destruct Hsh as [H|[H|H]]; rewrite H;
    rewrite ?round_up_1, ?round_up_2, ?round_up_4; lia.
Qed.

Definition copyout_inside (wide : bool) : Prop :=
  forall image_width ss num den comp j,
    1 <= image_width -> ss_valid ss comp -> 1 <= num -> 1 <= den ->
    0 <= j < tmp_th comp ss (8 * num / den) ->
    let '(off, len) := copyout_read wide image_width ss num den comp j in
    (* starts at temporary row j of the component, stays inside that row and inside _tmpbuf *)
    off = tmp_off wide image_width (tjscaled image_width num den) ss (8 * num / den) comp
          + j * tmp_stride wide image_width (tjscaled image_width num den) comp ss (8 * num / den) /\
    0 <= off /\ 0 <= len <= tmp_stride wide image_width (tjscaled image_width num den) comp ss (8 * num / den) /\
    off + len <= copyout_total wide image_width ss num den.

Definition copyout_overreads (wide : bool) : Prop :=
  exists image_width ss num den comp j,
    1 <= image_width /\ ss_valid ss comp /\ In (num, den) tj_scaling_factors /\
    0 <= j < tmp_th comp ss (8 * num / den) /\
    let '(off, len) := copyout_read wide image_width ss num den comp j in
    copyout_total wide image_width ss num den < off + len.

(* 4:1:1 JPEG one pixel wide decompressed to planes at 1/8: _tmpbuf has 3 bytes, the
   copy-out of the luma row reads bytes [0,4) *)
Theorem tmpbuf_copyout_overread : copyout_overreads false.
Proof.
  exists 1, 5, 1, 8, 0, 0. unfold ss_valid. vm_compute. repeat split; try discriminate; tauto.
Qed.

Lemma tmp_sizes_nonneg wide image_width pwidth ss dct c :
  1 <= image_width -> 0 <= ss <= 6 -> 0 <= dct -> 0 <= c ->
  0 <= tmp_iw image_width c ss dct /\ 0 <= tmp_th c ss dct /\
  tmp_iw image_width c ss dct <= tmp_stride wide image_width pwidth c ss dct.
Proof.
  intros Hw Hss Hd Hc. destruct (samp_cases ss Hss) as [Hsh Hsv].
  assert (0 <= width_in_blocks image_width (comp_h c ss) (samp_h ss)).
  { unfold width_in_blocks, comp_h. apply Z.div_pos; [|lia].
    destruct (c =? 0); destruct Hsh as [E|[E|E]]; rewrite E; lia. }
  assert (0 <= comp_v c ss) by (unfold comp_v; destruct (c =? 0); lia).
  unfold tmp_stride, tmp_th. repeat split; try (unfold tmp_iw; nia). destruct wide; lia.
Qed.

Theorem tmpbuf_copyout_wide_inside : copyout_inside true.
Proof.
  intros image_width ss num den comp j Hw [Hss Hc] Hn Hd Hj.
  unfold copyout_read, copyout_total, tmp_off, tmp_total.
  set (dct := 8 * num / den) in *. set (pwd := tjscaled image_width num den).
  assert (Hdct : 0 <= dct) by (apply Z.div_pos; lia).
  pose proof (tmp_sizes_nonneg true image_width pwd ss dct 0 Hw Hss Hdct ltac:(lia)) as (I0 & T0 & S0).
  pose proof (tmp_sizes_nonneg true image_width pwd ss dct 1 Hw Hss Hdct ltac:(lia)) as (I1 & T1 & S1).
  pose proof (tmp_sizes_nonneg true image_width pwd ss dct 2 Hw Hss Hdct ltac:(lia)) as (I2 & T2 & S2).
  assert (P : forall c, plane_w c pwd ss <= tmp_stride true image_width pwd c ss dct)
    by (intros c; unfold tmp_stride; lia).
  pose proof (P 0) as P0. pose proof (P 1) as P1. pose proof (P 2) as P2.
  assert (Hpw : 0 <= plane_w comp pwd ss).
  { pose proof (tjscaled_pos image_width num den Hw Hn Hd) as Hsw.
    destruct (plane_dims comp pwd 1 ss Hsw ltac:(lia) (conj Hss Hc)) as (A & _). lia. }
  split; [reflexivity|].
  assert (Hn3 : ncomp ss = 1 \/ ncomp ss = 3) by (unfold ncomp; destruct (ss =? 3); lia).
  destruct Hn3 as [Hn3 | Hn3]; rewrite Hn3 in *.
  - assert (comp = 0) as -> by lia. change (Z.to_nat 0) with 0%nat. change (Z.to_nat 1) with 1%nat.
    cbn [tmp_off_from]. repeat split; try nia; try (apply P).
  - change (Z.to_nat 3) with 3%nat. assert (comp = 0 \/ comp = 1 \/ comp = 2) as [->|[->| ->]] by lia.
    + change (Z.to_nat 0) with 0%nat. cbn [tmp_off_from]. change (0 + 1) with 1. change (1 + 1) with 2. repeat split; try nia; try (apply P).
    + change (Z.to_nat 1) with 1%nat. cbn [tmp_off_from]. change (0 + 1) with 1. change (1 + 1) with 2. repeat split; try nia; try (apply P).
    + change (Z.to_nat 2) with 2%nat. cbn [tmp_off_from]. change (0 + 1) with 1. change (1 + 1) with 2. repeat split; try nia; try (apply P).
Qed.

(* the statement about the source AS IT IS NOW: tmp_rows_cover_pw is read from turbojpeg.c *)
Theorem tmpbuf_copyout_current :
  if tmp_rows_cover_pw then copyout_inside true else copyout_overreads false.
Proof. destruct tmp_rows_cover_pw; [exact tmpbuf_copyout_wide_inside | exact tmpbuf_copyout_overread]. Qed.
