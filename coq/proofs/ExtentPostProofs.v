(* C11 -- post-processing never delivers more rows than remain; the spare-row copy has the row's size. *)
From Coq Require Import List ZArith Lia Bool ZifyBool.
From LJT Require Import model.Extent model.ExtentRows model.ExtentPost gen.GenAlign.
Import ListNotations.
Local Open Scope Z_scope.

Theorem pp1_within have rtg strip avail ctr : 0 <= have -> 0 <= rtg -> 0 <= strip -> ctr <= avail ->
  0 <= pp1_num_rows have rtg strip avail ctr <= avail - ctr /\ pp1_num_rows have rtg strip avail ctr <= rtg.
Proof. unfold pp1_num_rows, ups_num_rows. lia. Qed.

(* with "- next_row" in the clamp: every call of the second pass delivers at most max_lines rows and at most
   the rows that remain, for every strip height, max_lines and image height *)
Theorem pp2_run_within fuel s m H imgH : 1 <= s -> 1 <= m ->
  forall start next scan, 0 <= next < s -> scan = start + next ->
  forall sc n, In (sc, n) (pp2_run fuel 1 s m H imgH start next scan) -> 1 <= n <= m /\ n <= H - sc.
Proof.
  intros Hs Hm. induction fuel as [|f IH]; intros start next scan Hn Hsc sc n Hin; [destruct Hin|].
  cbn [pp2_run] in Hin. destruct (H <=? scan) eqn:E; [destruct Hin|].
  set (k := pp2_num_rows 1 s H imgH start next m 0) in *.
  assert (Hk : 1 <= k <= m /\ k <= H - scan /\ k <= s - next).
  { unfold k, pp2_num_rows, pp2_bottom. cbn. lia. }
  destruct Hin as [Hin | Hin].
  - injection Hin as <- <-. lia.
  - destruct (s <=? next + k) eqn:E2.
    + apply (IH (start + s) 0 (scan + k)); [lia | lia | exact Hin].
    + apply (IH start (next + k) (scan + k)); [lia | lia | exact Hin].
Qed.

(* without it (clamp 0): strip height 4, 7 rows, max_lines 2: the call at scanline 6 delivers 2 rows *)
Theorem pp2_clamp0_refuted :
  exists s m H, 1 <= s /\ 1 <= m /\ In (H - 1, 2) (pp2_run 20 0 s m H H 0 0 0).
Proof. exists 4, 2, 7. vm_compute. repeat split; try discriminate. tauto. Qed.
(* image_height instead of output_height (clamp 2): scaled image, strip 2, 5 of 10 rows, max_lines 2 *)
Theorem pp2_clamp2_refuted :
  exists s m H imgH, 1 <= s /\ 1 <= m /\ H <= imgH /\ In (H - 1, 2) (pp2_run 20 2 s m H imgH 0 0 0).
Proof. exists 2, 2, 5, 10. vm_compute. repeat split; try discriminate. tauto. Qed.

Theorem pp2_current :
  if pp2_clamp =? 1 then
    (forall fuel s m H imgH, 1 <= s -> 1 <= m -> forall sc n, In (sc, n) (pp2_run fuel 1 s m H imgH 0 0 0) -> 1 <= n <= m /\ n <= H - sc)
  else if pp2_clamp =? 0 then exists s m H, 1 <= s /\ 1 <= m /\ In (H - 1, 2) (pp2_run 20 0 s m H H 0 0 0)
  else exists s m H imgH, 1 <= s /\ 1 <= m /\ H <= imgH /\ In (H - 1, 2) (pp2_run 20 2 s m H imgH 0 0 0).
Proof.
  destruct (pp2_clamp =? 1).
  - intros fuel s m H imgH Hs Hm sc n Hin. apply (pp2_run_within fuel s m H imgH Hs Hm 0 0 0); [lia | lia | exact Hin].
  - destruct (pp2_clamp =? 0); [exact pp2_clamp0_refuted | exact pp2_clamp2_refuted].
Qed.

(* ---- spare row *)
Theorem spare_copy_len_is_row_size copy565 init565 crop565 is565 cropped ow_init ow_now ncomp :
  (copy565 = true \/ (init565 = true /\ crop565 = true)) -> (cropped = false -> ow_now = ow_init) ->
  spare_copy_len copy565 init565 crop565 is565 cropped ow_init ow_now ncomp = out_row_size is565 ow_now ncomp.
Proof.
  intros Hf Hc. unfold spare_copy_len, orw_formula, out_row_size.
  destruct copy565, init565, crop565, is565, cropped; cbn; try reflexivity;
    try (rewrite (Hc eq_refl); reflexivity);
    destruct Hf as [Hf | [Hf1 Hf2]]; discriminate.
Qed.

(* the special case only at the initialisation site: after jpeg_crop_scanline an RGB565 spare row is copied
   with 3 samples per pixel into a row of 2 *)
Theorem spare_copy_init_only_refuted :
  exists ow_init ow_now ncomp, 1 <= ow_now /\
    spare_copy_len false true false true true ow_init ow_now ncomp > out_row_size true ow_now ncomp.
Proof. exists 40, 16, 3. vm_compute. split; [discriminate | reflexivity]. Qed.

Lemma spare_copy_gen a b c :
  if a || (b && c) then
    (forall is565 cropped ow_init ow_now ncomp, (cropped = false -> ow_now = ow_init) ->
       spare_copy_len a b c is565 cropped ow_init ow_now ncomp = out_row_size is565 ow_now ncomp)
  else exists cropped ow, 1 <= ow /\ spare_copy_len a b c true cropped ow ow 3 > out_row_size true ow 3.
Proof.
  destruct a, b, c; cbn [orb andb]; try (intros; apply spare_copy_len_is_row_size; auto; fail).
  - exists true, 16. vm_compute. split; [discriminate | reflexivity].
  - exists false, 16. vm_compute. split; [discriminate | reflexivity].
  - exists true, 16. vm_compute. split; [discriminate | reflexivity].
Qed.

Theorem spare_copy_current :
  if mrg_copy565 || (mrg_init565 && mrg_crop565) then
    (forall is565 cropped ow_init ow_now ncomp, (cropped = false -> ow_now = ow_init) ->
       spare_copy_len mrg_copy565 mrg_init565 mrg_crop565 is565 cropped ow_init ow_now ncomp = out_row_size is565 ow_now ncomp)
  else exists cropped ow, 1 <= ow /\ spare_copy_len mrg_copy565 mrg_init565 mrg_crop565 true cropped ow ow 3 > out_row_size true ow 3.
Proof. exact (spare_copy_gen mrg_copy565 mrg_init565 mrg_crop565). Qed.
