(* C18 -- proofs about the PPM/PGM reader model (model/Pnm.v):
   tokenizer, read_pbm_integer, rescale[] table, row readers, whole-file load. *)
From Coq Require Import List ZArith Lia Bool ZifyBool.
From LJT Require Import gen.GenPnm model.Pnm.
Import ListNotations.
Local Open Scope Z_scope.
Ltac Zify.zify_post_hook ::= Z.div_mod_to_equations.

(* ---- the facts generated from the current source that the proofs rely on ---- *)
Lemma g_in_loop : rpi_check_in_loop = true. Proof. reflexivity. Qed.
Lemma g_after_loop : rpi_check_after_loop = true. Proof. reflexivity. Qed.
Lemma g_limit : hdr_limit = 65535. Proof. reflexivity. Qed.
Lemma g_floor : rescale_floor = 255. Proof. reflexivity. Qed.
Lemma g_extra : rescale_extra = 1. Proof. reflexivity. Qed.
Lemma g_incl : rescale_loop_inclusive = true. Proof. reflexivity. Qed.
Lemma g_word : word_check = true. Proof. reflexivity. Qed.
Lemma g_fast255 : byte_fast_needs_255 = true. Proof. reflexivity. Qed.
Lemma g_cmykprec : cmyk_scale_by_prec = true. Proof. reflexivity. Qed.

Definition bytes (s : list Z) : Prop := Forall (fun b => 0 <= b < 256) s.
Definition safe (e : perr) : Prop := e <> E_OOB /\ e <> E_FUEL.

Lemma bytes_cons b s : bytes (b :: s) <-> 0 <= b < 256 /\ bytes s.
Proof. unfold bytes. split; intro H; [inversion H; auto | constructor; tauto]. Qed.

(* ------------------------------------------------------------ pbm_getc *)
Lemma skip_comment_spec s o s' : skip_comment s = (o, s') ->
  (length s' <= length s)%nat /\ (bytes s -> bytes s') /\
  (o = None -> s' = []) /\ (forall c, o = Some c -> c = 10 /\ (length s' < length s)%nat).
Proof.
  revert o s'. induction s as [|c t IH]; cbn [skip_comment]; intros o s' H.
  - inversion H; subst. split; [lia|]. split; [auto|]. split; [auto|]. intros; discriminate.
  - destruct (c =? 10) eqn:E.
    + inversion H; subst. cbn [length]. split; [lia|]. split.
      { intro B. apply bytes_cons in B. tauto. }
      split; [discriminate|]. intros c0 Hc. inversion Hc. split; [reflexivity|lia].
    + destruct (IH _ _ H) as (L & B & N & S). cbn [length]. split; [lia|]. split.
      { intro Bc. apply bytes_cons in Bc. tauto. }
      split; [exact N|]. intros c0 Hc. destruct (S c0 Hc). split; [auto|lia].
Qed.

Lemma pbm_getc_spec s o s' : pbm_getc s = (o, s') ->
  (length s' <= length s)%nat /\ (bytes s -> bytes s') /\
  (o = None -> s' = []) /\
  (forall c, o = Some c -> (length s' < length s)%nat /\ (bytes s -> 0 <= c < 256)).
Proof.
  destruct s as [|c t]; cbn [pbm_getc]; intro H.
  - inversion H; subst. split; [lia|]. split; [auto|]. split; [auto|]. intros; discriminate.
  - destruct (c =? 35) eqn:E.
    + destruct (skip_comment_spec _ _ _ H) as (L & B & N & S). cbn [length].
      split; [lia|]. split.
      { intro Bc. apply bytes_cons in Bc. tauto. }
      split; [exact N|]. intros c0 Hc. destruct (S c0 Hc). split; [lia|]. intros _. lia.
    + inversion H; subst. cbn [length]. split; [lia|]. split.
      { intro Bc. apply bytes_cons in Bc. tauto. }
      split; [discriminate|]. intros c0 Hc. inversion Hc; subst. split; [lia|].
      intro Bc. apply bytes_cons in Bc. tauto.
Qed.

(* ---------------------------------------------------- read_pbm_integer *)
Lemma skip_ws_spec fuel s : (length s < fuel)%nat ->
  match skip_ws fuel s with
  | Ok (ch, s') => (length s' < length s)%nat /\ (bytes s -> bytes s' /\ 0 <= ch < 256) /\ is_ws ch = false
  | Err e => e = E_EOF
  end.
Proof.
  revert s. induction fuel as [|f IH]; intros s Hf; [lia|].
  cbn [skip_ws]. destruct (pbm_getc s) as [o s'] eqn:G.
  destruct (pbm_getc_spec _ _ _ G) as (L & B & N & Sm).
  destruct o as [ch|]; [|reflexivity].
  destruct (Sm ch eq_refl) as [L1 B1].
  destruct (is_ws ch) eqn:W.
  - specialize (IH s' ltac:(lia)). destruct (skip_ws f s') as [[c2 s2]|e]; [|exact IH].
    destruct IH as (L2 & B2 & W2). split; [lia|]. split; [|exact W2].
    intro Hb. apply B2. apply B. exact Hb.
  - split; [lia|]. split; [|exact W]. intro Hb. split; [apply B; auto | apply B1; auto].
Qed.

Lemma u32_id x : 0 <= x < 4294967296 -> u32 x = x.
Proof. intro H. unfold u32. apply Z.mod_small. lia. Qed.

Lemma u32_range x : 0 <= u32 x < 4294967296.
Proof. unfold u32. apply Z.mod_pos_bound. lia. Qed.

(* a returned value is never above maxval, whatever maxval, whatever the input
   (this is what the test after the loop buys: F8) *)
Lemma read_digits_le fuel val maxval s v s' : 0 <= val ->
  read_digits fuel val maxval s = Ok (v, s') -> 0 <= v <= maxval.
Proof.
  revert val s. induction fuel as [|f IH]; intros val s Hv; cbn [read_digits]; [discriminate|].
  destruct (pbm_getc s) as [[ch|] s1].
  - destruct (is_digit ch).
    + rewrite g_in_loop. cbn [andb].
      destruct (_ >? maxval) eqn:E; [discriminate|].
      apply IH. apply u32_range.
    + rewrite g_after_loop. cbn [andb]. destruct (val >? maxval) eqn:E; [discriminate|].
      intro H; inversion H; subst. lia.
  - rewrite g_after_loop. cbn [andb]. destruct (val >? maxval) eqn:E; [discriminate|].
    intro H; inversion H; subst. lia.
Qed.

Lemma read_digits_spec fuel val maxval s : (length s < fuel)%nat ->
  0 <= val <= 65535 -> maxval <= 65535 ->
  match read_digits fuel val maxval s with
  | Ok (v, s') => 0 <= v <= maxval /\ (length s' <= length s)%nat /\ (bytes s -> bytes s')
  | Err e => e = E_RANGE
  end.
Proof.
  revert val s. induction fuel as [|f IH]; intros val s Hf Hv Hm; [lia|].
  cbn [read_digits]. destruct (pbm_getc s) as [o s1] eqn:G.
  destruct (pbm_getc_spec _ _ _ G) as (L & B & N & Sm).
  destruct o as [ch|].
  - destruct (Sm ch eq_refl) as [L1 B1].
    destruct (is_digit ch) eqn:D.
    + unfold is_digit in D.
      rewrite (u32_id (val * 10)) by lia. rewrite u32_id by lia.
      rewrite g_in_loop. cbn [andb].
      destruct (val * 10 + (ch - 48) >? maxval) eqn:E; [reflexivity|].
      specialize (IH (val * 10 + (ch - 48)) s1 ltac:(lia) ltac:(lia) Hm).
      destruct (read_digits f _ maxval s1) as [[v s2]|e]; [|exact IH].
      destruct IH as (V & L2 & B2). repeat split; try lia. auto.
    + rewrite g_after_loop. cbn [andb]. destruct (val >? maxval) eqn:E; [reflexivity|].
      repeat split; try lia. auto.
  - rewrite g_after_loop. cbn [andb]. destruct (val >? maxval) eqn:E; [reflexivity|].
    repeat split; try lia. auto.
Qed.

Lemma read_pbm_integer_le maxval s v s' :
  read_pbm_integer maxval s = Ok (v, s') -> 0 <= v <= maxval.
Proof.
  unfold read_pbm_integer, bind.
  destruct (skip_ws _ s) as [[ch s1]|e]; [|discriminate].
  destruct (is_digit ch) eqn:D; cbn [negb]; [|discriminate].
  apply read_digits_le. unfold is_digit in D. lia.
Qed.

Lemma read_pbm_integer_spec maxval s : maxval <= 65535 ->
  match read_pbm_integer maxval s with
  | Ok (v, s') => 0 <= v <= maxval /\ (length s' < length s)%nat /\ (bytes s -> bytes s')
  | Err e => e = E_EOF \/ e = E_NONNUM \/ e = E_RANGE
  end.
Proof.
  intro Hm. unfold read_pbm_integer, bind.
  pose proof (skip_ws_spec (S (length s)) s ltac:(lia)) as W.
  destruct (skip_ws _ s) as [[ch s1]|e]; [|auto].
  destruct W as (L & B & _).
  destruct (is_digit ch) eqn:D; cbn [negb]; [|auto].
  unfold is_digit in D.
  pose proof (read_digits_spec (S (length s)) (ch - 48) maxval s1 ltac:(lia) ltac:(lia) Hm) as R.
  destruct (read_digits _ _ maxval s1) as [[v s2]|e]; [|auto].
  destruct R as (V & L2 & B2). repeat split; try lia. intro Bs. apply B2. apply B; auto.
Qed.

(* ---------------------------------------------------------- rescale[] *)
Lemma two_p_pos n : 0 <= n -> 0 < two_p n.
Proof. intro H. unfold two_p. apply Z.pow_pos_nonneg; lia. Qed.

Lemma maxsample_nonneg prec : 0 <= prec -> 0 <= maxsample prec.
Proof. intro H. unfold maxsample. pose proof (two_p_pos prec H). lia. Qed.

Lemma rescale_val_range prec maxval v : 0 <= prec -> 0 < maxval -> 0 <= v <= maxval ->
  0 <= rescale_val prec maxval v <= maxsample prec.
Proof.
  intros Hp Hm Hv. unfold rescale_val. pose proof (maxsample_nonneg prec Hp) as HM.
  set (M := maxsample prec) in *. split.
  - apply Z.div_pos; [|lia]. assert (0 <= maxval / 2) by (apply Z.div_pos; lia). nia.
  - assert (maxval / 2 < maxval) by (apply Z.div_lt_upper_bound; lia).
    assert ((v * M + maxval / 2) / maxval < M + 1); [|lia].
    apply Z.div_lt_upper_bound; [lia|]. nia.
Qed.

Lemma rescale_val_identity prec v : 0 <= prec -> 0 <= v <= maxsample prec ->
  0 < maxsample prec -> rescale_val prec (maxsample prec) v = v.
Proof.
  intros Hp Hv HM. unfold rescale_val. set (M := maxsample prec) in *.
  rewrite Z.div_add_l by lia.
  rewrite (Z.div_small (M / 2) M); [lia|].
  split; [apply Z.div_pos; lia | apply Z.div_lt_upper_bound; lia].
Qed.

Lemma rescale_val_mono prec maxval v1 v2 : 0 <= prec -> 0 < maxval -> v1 <= v2 ->
  rescale_val prec maxval v1 <= rescale_val prec maxval v2.
Proof.
  intros Hp Hm Hv. unfold rescale_val. pose proof (maxsample_nonneg prec Hp).
  apply Z.div_le_mono; [lia|]. nia.
Qed.

Lemma table_entry_range prec maxval v : 0 <= prec -> 0 < maxval -> 0 <= v ->
  0 <= table_entry prec maxval v <= maxsample prec.
Proof.
  intros Hp Hm Hv. unfold table_entry. rewrite g_incl.
  pose proof (maxsample_nonneg prec Hp).
  destruct (v <=? maxval) eqn:E; [apply rescale_val_range; lia | lia].
Qed.

Lemma zseq_length lo n : length (zseq lo n) = n.
Proof. revert lo. induction n; intros; cbn [zseq length]; auto. Qed.

Lemma zseq_nth_error lo n k : (k < n)%nat -> nth_error (zseq lo n) k = Some (lo + Z.of_nat k).
Proof.
  revert lo k. induction n as [|n IH]; intros lo k H; [lia|].
  destruct k; cbn [zseq nth_error]; [f_equal; lia|].
  rewrite IH by lia. f_equal. lia.
Qed.

Lemma zseq_nth_error_none lo n k : (n <= k)%nat -> nth_error (zseq lo n) k = None.
Proof. intro H. apply nth_error_None. rewrite zseq_length. exact H. Qed.

Lemma table_len_pos maxval : 256 <= table_len maxval.
Proof. unfold table_len. rewrite g_floor, g_extra. lia. Qed.

Lemma build_table_length prec maxval : Z.of_nat (length (build_table prec maxval)) = table_len maxval.
Proof.
  unfold build_table. rewrite map_length, zseq_length. pose proof (table_len_pos maxval). lia.
Qed.

(* the materialised table and the closed form agree on EVERY index, including the
   out-of-bounds ones *)
Lemma look_tbl_fn prec maxval i : look_tbl prec maxval i = look_fn prec maxval i.
Proof.
  unfold look_tbl, look_fn, build_table. pose proof (table_len_pos maxval) as HL.
  destruct (i <? 0) eqn:E0.
  - replace (0 <=? i) with false by lia. reflexivity.
  - replace (0 <=? i) with true by lia. cbn [andb].
    destruct (i <? table_len maxval) eqn:E1.
    + rewrite nth_error_map, zseq_nth_error by lia. cbn [option_map]. do 2 f_equal. lia.
    + rewrite nth_error_map, zseq_nth_error_none by lia. reflexivity.
Qed.

(* the property of a rescale[] accessor that everything below relies on *)
Definition look_ok (look : Z -> Z -> Z -> res Z) : Prop :=
  forall prec maxval i, look prec maxval i = look_fn prec maxval i.

Lemma look_ok_tbl : look_ok look_tbl.
Proof. intros p m i. apply look_tbl_fn. Qed.
Lemma look_ok_fn : look_ok look_fn.
Proof. intros p m i. reflexivity. Qed.

(* index <= max(maxval, 255)  ==>  inside the allocation, value within the precision *)
Lemma look_fn_in prec maxval i : 0 <= prec -> 0 < maxval -> 0 <= i <= Z.max maxval 255 ->
  exists x, look_fn prec maxval i = Ok x /\ 0 <= x <= maxsample prec /\ x = table_entry prec maxval i.
Proof.
  intros Hp Hm Hi. unfold look_fn, table_len. rewrite g_floor, g_extra.
  replace ((0 <=? i) && (i <? Z.max maxval 255 + 1)) with true by lia.
  eexists; split; [reflexivity|]. split; [apply table_entry_range; lia | reflexivity].
Qed.

(* ----------------------------------------------------------- row readers *)
Section ReaderProofs.
  Variable cmyk : Z -> Z -> Z -> Z -> list Z.
  Variable look : Z -> Z -> Z -> res Z.
  Hypothesis Hlook : look_ok look.
  Variable prec : Z.
  Hypothesis Hprec : 2 <= prec <= 16.

  Let M := maxsample prec.

  Lemma M_pos : 3 <= M.
  Proof.
    unfold M, maxsample, two_p. assert (2 ^ 2 <= 2 ^ prec) by (apply Z.pow_le_mono_r; lia).
    change (2 ^ 2) with 4 in H. lia.
  Qed.

  Definition inrange (x : Z) : Prop := 0 <= x <= M.

  (* a raw file value: never negative, never above maxval for text and word
     samples, never above 255 for byte samples; consumes input *)
  Lemma get_raw_spec k maxval s : 0 < maxval <= 65535 -> bytes s ->
    match get_raw k maxval s with
    | Ok (v, s') =>
      0 <= v /\ (match k with KByte => v <= 255 | _ => v <= maxval end) /\
      (length s' < length s)%nat /\ bytes s' /\
      (match k with KText => True | KByte => length s = S (length s') | KWord => length s = S (S (length s')) end)
    | Err e => safe e
    end.
  Proof.
    intros Hm B. destruct k; cbn [get_raw].
    - pose proof (read_pbm_integer_spec maxval s ltac:(lia)) as R.
      destruct (read_pbm_integer maxval s) as [[v s']|e].
      + destruct R as (V & L & B'). repeat split; auto; lia.
      + unfold safe. destruct R as [->|[->| ->]]; split; discriminate.
    - destruct s as [|b t]; [split; discriminate|].
      apply bytes_cons in B. cbn [length]. repeat split; try lia; tauto.
    - destruct s as [|b0 [|b1 t]]; try (split; discriminate).
      apply bytes_cons in B. destruct B as [B0 B]. apply bytes_cons in B. destruct B as [B1 B].
      rewrite g_word. cbn [andb]. destruct (b0 * 256 + b1 >? maxval) eqn:E; [split; discriminate|].
      cbn [length]. repeat split; try lia; auto.
  Qed.

  Lemma is_fast_M k t maxval : is_fast prec k t maxval = true ->
    maxval = M /\ (k = KByte -> maxval = 255) /\ k <> KWord.
  Proof.
    unfold is_fast. rewrite g_fast255. fold M. destruct k.
    - destruct t; intro H; try discriminate; repeat split; try lia; discriminate.
    - intro H. repeat split; try lia; discriminate.
    - discriminate.
  Qed.

  (* every index formed is inside the table; every sample produced is within the precision *)
  Lemma get_sample_spec k t maxval s : 0 < maxval <= 65535 -> bytes s ->
    match get_sample look prec k (is_fast prec k t maxval) maxval s with
    | Ok (x, s') => inrange x /\ (length s' < length s)%nat /\ bytes s' /\
      (match k with KText => True | KByte => length s = S (length s') | KWord => length s = S (S (length s')) end)
    | Err e => safe e
    end.
  Proof.
    intros Hm B. unfold get_sample, bind.
    pose proof (get_raw_spec k maxval s Hm B) as R.
    destruct (get_raw k maxval s) as [[v s']|e]; [|exact R].
    destruct R as (V0 & V1 & L & B' & C).
    destruct (is_fast prec k t maxval) eqn:F.
    - destruct (is_fast_M _ _ _ F) as (E & E255 & NW). unfold inrange.
      repeat split; auto; try lia.
      destruct k; [lia | specialize (E255 eq_refl); lia | congruence].
    - rewrite Hlook.
      destruct (look_fn_in prec maxval v ltac:(lia) ltac:(lia)) as (x & -> & X & _).
      { destruct k; lia. }
      repeat split; auto; unfold inrange; fold M in X; lia.
  Qed.

  Lemma zseq_Forall (P : Z -> Prop) (f : Z -> Z) lo n :
    (forall i, P (f i)) -> Forall P (map f (zseq lo n)).
  Proof. intro H. revert lo. induction n; intro lo; cbn [zseq map]; constructor; auto. Qed.

  Lemma mk_pixel_spec l r g b a : inrange r -> inrange g -> inrange b -> inrange a ->
    Forall inrange (mk_pixel l r g b a) /\ length (mk_pixel l r g b a) = Z.to_nat (l_ps l).
  Proof.
    intros Hr Hg Hb Ha. unfold mk_pixel. split.
    - apply zseq_Forall. intro i.
      destruct (i =? l_r l); auto. destruct (i =? l_g l); auto. destruct (i =? l_b l); auto.
      destruct (i =? l_a l); auto. unfold inrange. pose proof M_pos. lia.
    - rewrite map_length, zseq_length. reflexivity.
  Qed.

  Definition cmyk_bounded : Prop :=
    forall r g b, inrange r -> inrange g -> inrange b ->
      Forall inrange (cmyk M r g b) /\ length (cmyk M r g b) = 4%nat.

  (* what "within the precision" claims for a target: unconditional for gray and
     the RGB family; for CMYK under the assumption that rgb_to_cmyk is bounded *)
  Definition target_claim (t : target) : Prop :=
    match t with TCmyk => cmyk_bounded | _ => True end.

  Lemma inrange_M : inrange M.
  Proof. unfold inrange. pose proof M_pos. lia. Qed.

  Lemma cmyk_scale_M k t maxval : cmyk_scale prec (is_fast prec k t maxval) maxval = M.
  Proof.
    unfold cmyk_scale. rewrite g_cmykprec. destruct (is_fast prec k t maxval) eqn:F; [|reflexivity].
    apply is_fast_M in F. tauto.
  Qed.

  Definition src_comps (hd : pnm_hdr) : nat := if h_rgb hd then 3%nat else 1%nat.
  Definition bytes_per (k : skind) : nat := match k with KWord => 2%nat | _ => 1%nat end.

  Definition hdr_ok (hd : pnm_hdr) : Prop :=
    1 <= h_w hd <= 65535 /\ 1 <= h_h hd <= 65535 /\ 1 <= h_max hd <= 65535 /\
    (h_kind hd = KByte -> h_max hd <= 255) /\ (h_kind hd = KWord -> 255 < h_max hd).

  Lemma read_pixel_spec hd t s : hdr_ok hd -> bytes s ->
    match read_pixel cmyk look prec hd t (is_fast prec (h_kind hd) t (h_max hd)) s with
    | Ok (px, s') =>
      (target_claim t -> Forall inrange px /\ length px = Z.to_nat (target_ps t)) /\
      bytes s' /\
      (length s' + src_comps hd * bytes_per (h_kind hd) <= length s)%nat /\
      (h_kind hd <> KText -> length s = (length s' + src_comps hd * bytes_per (h_kind hd))%nat)
    | Err e => safe e
    end.
  Proof.
    intros (Hw & Hh & Hm & _) B. unfold read_pixel, src_comps, bind.
    set (k := h_kind hd). set (mv := h_max hd). fold k mv in Hm.
    destruct (h_rgb hd).
    - destruct t as [|l|].
      + split; discriminate.
      + pose proof (get_sample_spec k (TRgb l) mv s ltac:(lia) B) as R1.
        destruct (get_sample _ _ _ _ mv s) as [[r s1]|e]; [|exact R1]. destruct R1 as (Ir & L1 & B1 & C1).
        pose proof (get_sample_spec k (TRgb l) mv s1 ltac:(lia) B1) as R2.
        destruct (get_sample _ _ _ _ mv s1) as [[g s2]|e]; [|exact R2]. destruct R2 as (Ig & L2 & B2 & C2).
        pose proof (get_sample_spec k (TRgb l) mv s2 ltac:(lia) B2) as R3.
        destruct (get_sample _ _ _ _ mv s2) as [[b s3]|e]; [|exact R3]. destruct R3 as (Ib & L3 & B3 & C3).
        repeat split; auto.
        * apply mk_pixel_spec; auto using inrange_M.
        * apply mk_pixel_spec; auto using inrange_M.
        * unfold bytes_per. destruct k; lia.
        * unfold bytes_per. destruct k; try lia. congruence.
      + pose proof (get_sample_spec k TCmyk mv s ltac:(lia) B) as R1.
        destruct (get_sample _ _ _ _ mv s) as [[r s1]|e]; [|exact R1]. destruct R1 as (Ir & L1 & B1 & C1).
        pose proof (get_sample_spec k TCmyk mv s1 ltac:(lia) B1) as R2.
        destruct (get_sample _ _ _ _ mv s1) as [[g s2]|e]; [|exact R2]. destruct R2 as (Ig & L2 & B2 & C2).
        pose proof (get_sample_spec k TCmyk mv s2 ltac:(lia) B2) as R3.
        destruct (get_sample _ _ _ _ mv s2) as [[b s3]|e]; [|exact R3]. destruct R3 as (Ib & L3 & B3 & C3).
        rewrite cmyk_scale_M.
        repeat split; auto.
        * apply H; auto.
        * cbn [target_ps]. apply H; auto.
        * unfold bytes_per. destruct k; lia.
        * unfold bytes_per. destruct k; try lia. congruence.
    - pose proof (get_sample_spec k t mv s ltac:(lia) B) as R1.
      destruct (get_sample _ _ _ _ mv s) as [[g s1]|e]; [|exact R1]. destruct R1 as (Ig & L1 & B1 & C1).
      destruct t as [|l|].
      + repeat split; auto.
        * unfold bytes_per. destruct k; lia.
        * unfold bytes_per. destruct k; try lia. congruence.
      + repeat split; auto.
        * apply mk_pixel_spec; auto using inrange_M.
        * apply mk_pixel_spec; auto using inrange_M.
        * unfold bytes_per. destruct k; lia.
        * unfold bytes_per. destruct k; try lia. congruence.
      + rewrite cmyk_scale_M. repeat split; auto.
        * apply H; auto.
        * cbn [target_ps]. apply H; auto.
        * unfold bytes_per. destruct k; lia.
        * unfold bytes_per. destruct k; try lia. congruence.
  Qed.

  Lemma read_pixels_spec hd t n s : hdr_ok hd -> bytes s ->
    match read_pixels cmyk look prec hd t (is_fast prec (h_kind hd) t (h_max hd)) n s with
    | Ok (row, s') =>
      (target_claim t -> Forall inrange row /\ length row = (n * Z.to_nat (target_ps t))%nat) /\
      bytes s' /\
      (length s' + n * (src_comps hd * bytes_per (h_kind hd)) <= length s)%nat /\
      (h_kind hd <> KText -> length s = (length s' + n * (src_comps hd * bytes_per (h_kind hd)))%nat)
    | Err e => safe e
    end.
  Proof.
    intros Hh. revert s. induction n as [|n IH]; intros s B; cbn [read_pixels].
    - repeat split; auto; lia.
    - unfold bind. pose proof (read_pixel_spec hd t s Hh B) as P.
      destruct (read_pixel _ _ _ hd t _ s) as [[px s1]|e]; [|exact P].
      destruct P as (Cl & B1 & L1 & E1).
      specialize (IH s1 B1).
      destruct (read_pixels _ _ _ hd t _ n s1) as [[r s2]|e]; [|exact IH].
      destruct IH as (Cl2 & B2 & L2 & E2).
      repeat split; auto.
      + apply Forall_app. split; [apply Cl | apply Cl2]; auto.
      + rewrite app_length. destruct (Cl H), (Cl2 H). lia.
      + lia.
      + intro K. specialize (E1 K). specialize (E2 K). lia.
  Qed.

  Lemma take_exact_spec n s :
    match take_exact n s with
    | Some (a, r) => s = a ++ r /\ length a = n
    | None => (length s < n)%nat
    end.
  Proof.
    revert s. induction n as [|n IH]; intro s; cbn [take_exact].
    - split; reflexivity.
    - destruct s as [|c t]; [cbn; lia|].
      specialize (IH t). destruct (take_exact n t) as [[a r]|].
      + destruct IH as [-> L]. split; cbn; auto.
      + cbn [length]. lia.
  Qed.

  Lemma bytes_app a b : bytes (a ++ b) <-> bytes a /\ bytes b.
  Proof. apply Forall_app. Qed.

  Lemma buffer_width_nat hd : hdr_ok hd ->
    Z.to_nat (buffer_width hd) = (Z.to_nat (h_w hd) * (src_comps hd * bytes_per (h_kind hd)))%nat.
  Proof.
    intros (Hw & _). unfold buffer_width, src_comps, bytes_per.
    destruct (h_rgb hd), (h_kind hd); lia.
  Qed.

  Lemma read_row_spec hd t s : hdr_ok hd -> bytes s ->
    match read_row cmyk look prec hd t s with
    | Ok (row, s') =>
      (target_claim t -> Forall inrange row /\ length row = (Z.to_nat (h_w hd) * Z.to_nat (target_ps t))%nat) /\
      bytes s' /\
      (length s' + Z.to_nat (h_w hd) * (src_comps hd * bytes_per (h_kind hd)) <= length s)%nat
    | Err e => safe e
    end.
  Proof.
    intros Hh B. unfold read_row.
    destruct (h_kind hd) eqn:K.
    - pose proof (read_pixels_spec hd t (Z.to_nat (h_w hd)) s Hh B) as P. rewrite K in P.
      destruct (read_pixels _ _ _ hd t _ _ s) as [[row s']|e]; [|exact P]. tauto.
    - pose proof (take_exact_spec (Z.to_nat (buffer_width hd)) s) as T.
      destruct (take_exact _ s) as [[buf rest]|]; [|split; discriminate].
      destruct T as [-> Lb]. apply bytes_app in B. destruct B as [Bb Br].
      unfold bind. pose proof (read_pixels_spec hd t (Z.to_nat (h_w hd)) buf Hh Bb) as P. rewrite K in P.
      destruct (read_pixels _ _ _ hd t _ _ buf) as [[row s']|e]; [|exact P].
      destruct P as (Cl & _ & L & _). repeat split; auto; try apply Cl; auto.
      rewrite app_length, Lb, buffer_width_nat, K by auto. lia.
    - pose proof (take_exact_spec (Z.to_nat (buffer_width hd)) s) as T.
      destruct (take_exact _ s) as [[buf rest]|]; [|split; discriminate].
      destruct T as [-> Lb]. apply bytes_app in B. destruct B as [Bb Br].
      unfold bind. pose proof (read_pixels_spec hd t (Z.to_nat (h_w hd)) buf Hh Bb) as P. rewrite K in P.
      destruct (read_pixels _ _ _ hd t _ _ buf) as [[row s']|e]; [|exact P].
      destruct P as (Cl & _ & L & _). repeat split; auto; try apply Cl; auto.
      rewrite app_length, Lb, buffer_width_nat, K by auto. lia.
  Qed.

  Definition row_ok (hd : pnm_hdr) (t : target) (row : list Z) : Prop :=
    Forall inrange row /\ length row = (Z.to_nat (h_w hd) * Z.to_nat (target_ps t))%nat.

  Lemma read_rows_spec hd t n s : hdr_ok hd -> bytes s ->
    match read_rows cmyk look prec hd t n s with
    | Ok rows =>
      length rows = n /\ (target_claim t -> Forall (row_ok hd t) rows) /\
      (n * (Z.to_nat (h_w hd) * (src_comps hd * bytes_per (h_kind hd))) <= length s)%nat
    | Err e => safe e
    end.
  Proof.
    intro Hh. revert s. induction n as [|n IH]; intros s B; cbn [read_rows].
    - repeat split; auto. lia.
    - unfold bind. pose proof (read_row_spec hd t s Hh B) as R.
      destruct (read_row _ _ _ hd t s) as [[row s1]|e]; [|exact R].
      destruct R as (Cl & B1 & L1).
      specialize (IH s1 B1). destruct (read_rows _ _ _ hd t n s1) as [rows|e]; [|exact IH].
      destruct IH as (Ln & Cl2 & L2). cbn [length]. repeat split; auto; try lia.
      intro H. constructor; [split; apply Cl; auto | auto].
  Qed.

  (* ------------------------------------------------------ header *)
  Lemma read_header_spec maxpixels s : bytes s ->
    match read_header maxpixels s with
    | Ok (hd, s') => hdr_ok hd /\ bytes s' /\ (length s' < length s)%nat /\
                     (maxpixels = 0 \/ h_w hd * h_h hd <= maxpixels)
    | Err e => safe e
    end.
  Proof.
    intro B. unfold read_header.
    destruct s as [|c0 s]; [split; discriminate|].
    assert (NP : safe E_NOTPPM) by (split; discriminate).
    destruct c0; try exact NP. repeat (destruct p; try exact NP).
    destruct s as [|c s0]; [exact NP|].
    apply bytes_cons in B. destruct B as [_ B]. apply bytes_cons in B. destruct B as [_ B].
    destruct ((c =? 50) || (c =? 51) || (c =? 53) || (c =? 54)) eqn:Mg; [|exact NP].
    unfold bind. rewrite g_limit.
    pose proof (read_pbm_integer_spec 65535 s0 ltac:(lia)) as R1.
    destruct (read_pbm_integer 65535 s0) as [[w s1]|e];
      [|destruct R1 as [->|[->| ->]]; split; discriminate].
    destruct R1 as (W & L1 & B1).
    pose proof (read_pbm_integer_spec 65535 s1 ltac:(lia)) as R2.
    destruct (read_pbm_integer 65535 s1) as [[h s2]|e];
      [|destruct R2 as [->|[->| ->]]; split; discriminate].
    destruct R2 as (H & L2 & B2).
    pose proof (read_pbm_integer_spec 65535 s2 ltac:(lia)) as R3.
    destruct (read_pbm_integer 65535 s2) as [[mv s3]|e];
      [|destruct R3 as [->|[->| ->]]; split; discriminate].
    destruct R3 as (MV & L3 & B3).
    destruct ((w <=? 0) || (h <=? 0) || (mv <=? 0)) eqn:Z0; [exact NP|].
    destruct (negb (maxpixels =? 0) && (w * h >? maxpixels)) eqn:TB; [split; discriminate|].
    unfold hdr_ok. cbn [h_w h_h h_max h_kind]. repeat split; try lia; auto.
    - destruct ((c =? 50) || (c =? 51)); [discriminate|]. destruct (mv >? 255) eqn:E; [discriminate|lia].
    - destruct ((c =? 50) || (c =? 51)); [discriminate|]. destruct (mv >? 255) eqn:E; [lia|discriminate].
    - cbn [length]. lia.
  Qed.

  Lemma resolve_target_safe hd want :
    match resolve_target hd want with Ok _ => True | Err e => safe e end.
  Proof.
    unfold resolve_target. destruct want as [[| |]|]; auto.
    destruct (h_rgb hd); auto. split; discriminate.
  Qed.

  (* ------------------------------------------------------ whole file *)
  Theorem load_pnm_spec maxpixels want bottomup s : bytes s ->
    match load_pnm cmyk look prec maxpixels want bottomup s with
    | Ok (w, h, t, rows) =>
      1 <= w <= 65535 /\ 1 <= h <= 65535 /\
      (maxpixels = 0 \/ w * h <= maxpixels) /\
      length rows = Z.to_nat h /\
      (target_claim t ->
       Forall (fun row => Forall inrange row /\ length row = (Z.to_nat w * Z.to_nat (target_ps t))%nat) rows) /\
      w * h <= Z.of_nat (length s)
    | Err e => safe e
    end.
  Proof.
    intro B. unfold load_pnm, bind.
    pose proof (read_header_spec maxpixels s B) as Hd.
    destruct (read_header maxpixels s) as [[hd s1]|e]; [|exact Hd].
    destruct Hd as (Hh & B1 & L1 & Lim).
    pose proof (resolve_target_safe hd want) as RT.
    destruct (resolve_target hd want) as [t|e]; [|exact RT].
    pose proof (read_rows_spec hd t (Z.to_nat (h_h hd)) s1 Hh B1) as R.
    destruct (read_rows _ _ _ hd t _ s1) as [rows|e]; [|exact R].
    destruct R as (Ln & Cl & L). destruct Hh as (Hw & Hhh & Hm & _).
    repeat split; try lia; auto.
    - destruct bottomup; [rewrite rev_length|]; exact Ln.
    - intro H. specialize (Cl H). unfold row_ok in Cl.
      destruct bottomup; [apply Forall_rev|]; exact Cl.
    - assert (Z.to_nat (h_h hd) * (Z.to_nat (h_w hd) * 1) <= length s1)%nat.
      { eapply Nat.le_trans; [|exact L]. apply Nat.mul_le_mono_l. apply Nat.mul_le_mono_l.
        unfold src_comps, bytes_per. destruct (h_rgb hd), (h_kind hd); lia. }
      nia.
  Qed.
End ReaderProofs.
