(* C10 round 4: value theorem for merged upsampling to RGB565 (jdmrg565.c), non-dithered, little-endian *)
From Coq Require Import List ZArith Lia Bool.
From LJT Require Import gen.GenLayouts model.Color model.Color565 proofs.ColorProofs proofs.Color565Proofs.
Import ListNotations.
Local Open Scope Z_scope.

(* the 16-bit word of one output pixel: PACK_SHORT_565 of range_limit[y + chroma term] *)
Definition valm (t : px3) : Z := pk false (mpx565 false 0 (c0 t) (chroma prec8 true (c1 t) (c2 t))).

Lemma mpx565_nodither d y ch : mpx565 false d y ch = mpx565 false 0 y ch.
Proof. reflexivity. Qed.

Lemma chroma_merged p cb cr : chroma p true cb cr = chroma p false cb cr.
Proof. unfold chroma, Cr_r, Cb_b, Cr_g, Cb_g. rewrite !merged_constants_agree. reflexivity. Qed.

(* ... which is the word the separate converter (jdcol565.c ycc_rgb565_convert) produces for the same (y, cb, cr) *)
Lemma valm_is_plain t : valm t = val565 0 t.
Proof.
  unfold valm, val565, pk, mpx565, px565. cbn [Z.eqb]. rewrite chroma_merged. reflexivity.
Qed.

Lemma load16_store16_mod buf op v : 0 <= op -> op + 2 <= Z.of_nat (length buf) -> 0 <= v ->
  load16 false (store16 false buf op v) op = v mod 65536.
Proof.
  intros Hop Hlen Hv. unfold load16, store16.
  rewrite rd_upd_other by lia. rewrite rd_upd_same by lia.
  rewrite rd_upd_same by (rewrite length_upd; lia).
  rewrite !land255, Z.shiftr_div_pow2 by lia. change (2 ^ 8) with 256. Z.div_mod_to_equations. lia.
Qed.

Lemma load16_write_two buf op v1 v2 : 0 <= op -> op + 4 <= Z.of_nat (length buf) -> 0 <= v1 < 65536 -> 0 <= v2 < 65536 ->
  load16 false (write_two false buf op (pack_two false v1 v2)) op = v1 /\
  load16 false (write_two false buf op (pack_two false v1 v2)) (op + 2) = v2.
Proof.
  intros Hop Hlen H1 H2. unfold write_two, pack_two.
  rewrite Z.shiftl_mul_pow2 by lia. rewrite lor_mul_pow2 by (try lia; change (2 ^ 16) with 65536; lia).
  change (2 ^ 16) with 65536. split.
  - unfold load16. rewrite !(store16_frame _ (op + 2)) by lia.
    fold (load16 false (store16 false buf op (v2 * 65536 + v1)) op).
    rewrite load16_store16_mod by lia. Z.div_mod_to_equations. lia.
  - rewrite load16_store16; [| lia | rewrite length_store16; lia |].
    + rewrite Z.shiftr_div_pow2 by lia. change (2 ^ 16) with 65536. Z.div_mod_to_equations. lia.
    + rewrite Z.shiftr_div_pow2 by lia. change (2 ^ 16) with 65536. Z.div_mod_to_equations. lia.
Qed.

Lemma dup2_app : forall a b, dup2 (a ++ b) = dup2 a ++ dup2 b.
Proof. induction a; intro b; cbn [app dup2]; [reflexivity | now rewrite IHa]. Qed.
Lemma dup2_length : forall a, length (dup2 a) = (2 * length a)%nat.
Proof. induction a; cbn [dup2 length]; [reflexivity | rewrite IHa; lia]. Qed.
Lemma zip3_app : forall a1 b1 c1 a2 b2 c2, length a1 = length b1 -> length a1 = length c1 ->
  zip3 (a1 ++ a2) (b1 ++ b2) (c1 ++ c2) = zip3 a1 b1 c1 ++ zip3 a2 b2 c2.
Proof.
  induction a1 as [|x ta IH]; intros [|y tb] [|z tc] a2 b2 c2 H1 H2; cbn [length] in *; try discriminate; [reflexivity|].
  cbn [app zip3]. f_equal. apply IH; lia.
Qed.
Lemma zip3_length : forall a b c, length a = length b -> length a = length c -> length (zip3 a b c) = length a.
Proof.
  induction a as [|x ta IH]; intros [|y tb] [|z tc] H1 H2; cbn [length zip3] in *; try discriminate; [reflexivity|].
  f_equal. apply IH; lia.
Qed.

Definition okv (l : list px3) : Prop := Forall (fun t => 0 <= valm t < 65536) l.

(* the pair loop over 2n luma samples and n chroma samples *)
Lemma m565_pairs_vals : forall n ysp cbp crp ysr cbr crr buf op d,
  length ysp = (2 * n)%nat -> length cbp = n -> length crp = n ->
  okv (zip3 ysp (dup2 cbp) (dup2 crp)) -> 0 <= op -> op + 4 * Z.of_nat n <= Z.of_nat (length buf) ->
  let '(ys', cbs', crs', buf', op', d') := m565_pairs false false n (ysp ++ ysr) (cbp ++ cbr) (crp ++ crr) buf op d in
  ys' = ysr /\ cbs' = cbr /\ crs' = crr /\ op' = op + 4 * Z.of_nat n /\ d' = d /\ length buf' = length buf /\
  (forall j, 0 <= j -> (j < op \/ op + 4 * Z.of_nat n <= j) -> rd buf' j = rd buf j) /\
  cols565 false buf' op (2 * n) = map valm (zip3 ysp (dup2 cbp) (dup2 crp)).
Proof.
  induction n; intros ysp cbp crp ysr cbr crr buf op d Hy Hcb Hcr Hok Hop Hb.
  - destruct ysp; [|discriminate]. destruct cbp; [|discriminate]. destruct crp; [|discriminate].
    cbn. repeat split; auto. lia.
  - destruct ysp as [|y0 [|y1 ty]]; cbn [length] in Hy; try lia.
    destruct cbp as [|cb tb]; [discriminate|]. destruct crp as [|cr tr]; [discriminate|].
    cbn [length] in Hcb, Hcr.
    cbn [m565_pairs app hd tl].
    change (pk false (mpx565 false d y0 (chroma prec8 true cb cr))) with (valm (y0, cb, cr)).
    change (pk false (mpx565 false d y1 (chroma prec8 true cb cr))) with (valm (y1, cb, cr)).
    cbn [dup2 zip3] in Hok. inversion Hok as [|? ? H0 Hok1]; subst. inversion Hok1 as [|? ? H1 Hok2]; subst.
    set (buf1 := write_two false buf op (pack_two false (valm (y0, cb, cr)) (valm (y1, cb, cr)))).
    destruct (write_two_frame buf op (pack_two false (valm (y0, cb, cr)) (valm (y1, cb, cr)))) as [W1 W2]. fold buf1 in W1, W2.
    specialize (IHn ty tb tr ysr cbr crr buf1 (op + 4) d).
    destruct (m565_pairs false false n (ty ++ ysr) (tb ++ cbr) (tr ++ crr) buf1 (op + 4) d) as [[[[[a b] c] buf'] op'] d'].
    destruct IHn as (I1 & I2 & I3 & I4 & I5 & I6 & I7 & I8); [lia | lia | lia | exact Hok2 | lia | rewrite W1; lia |].
    replace (2 * S n)%nat with (S (S (2 * n))) by lia.
    cbn [dup2 zip3 map cols565].
    split; [exact I1|]. split; [exact I2|]. split; [exact I3|]. split; [lia|]. split; [exact I5|].
    split; [now rewrite I6|]. split.
    + intros j Hj Ho. rewrite I7 by lia. apply W2; lia.
    + destruct (load16_write_two buf op (valm (y0, cb, cr)) (valm (y1, cb, cr))) as [E1 E2]; try assumption; try lia.
      fold buf1 in E1, E2. f_equal; [|f_equal].
      * unfold load16. rewrite !I7 by lia. exact E1.
      * unfold load16. rewrite !I7 by lia. exact E2.
      * replace (op + 2 + 2) with (op + 4) by lia. exact I8.
Qed.

Lemma shiftr1_even n : Z.to_nat (Z.shiftr (Z.of_nat (2 * n)) 1) = n.
Proof.
  assert (E : Z.shiftr (Z.of_nat (2 * n)) 1 = Z.of_nat n)
    by (rewrite Z.shiftr_div_pow2 by lia; change (2 ^ 1) with 2; Z.div_mod_to_equations; lia).
  rewrite E. apply Nat2Z.id.
Qed.
Lemma shiftr1_odd n : Z.to_nat (Z.shiftr (Z.of_nat (2 * n + 1)) 1) = n.
Proof.
  assert (E : Z.shiftr (Z.of_nat (2 * n + 1)) 1 = Z.of_nat n)
    by (rewrite Z.shiftr_div_pow2 by lia; change (2 ^ 1) with 2; Z.div_mod_to_equations; lia).
  rewrite E. apply Nat2Z.id.
Qed.
Lemma odd_even n : Z.odd (Z.of_nat (2 * n)) = false.
Proof. rewrite Nat2Z.inj_mul, Z.odd_mul. reflexivity. Qed.
Lemma odd_odd n : Z.odd (Z.of_nat (2 * n + 1)) = true.
Proof. rewrite Nat2Z.inj_add, Nat2Z.inj_mul, Z.add_comm. change (Z.of_nat 1) with 1. change (Z.of_nat 2) with 2. now rewrite Z.odd_add_mul_2. Qed.

(* even width 2n *)
Lemma m565_row_vals_even n ys cbs crs cbr crr buf op d :
  length ys = (2 * n)%nat -> length cbs = n -> length crs = n ->
  okv (zip3 ys (dup2 cbs) (dup2 crs)) -> 0 <= op -> op + 2 * Z.of_nat (2 * n) <= Z.of_nat (length buf) ->
  cols565 false (m565_row false false (Z.of_nat (2 * n)) ys (cbs ++ cbr) (crs ++ crr) buf op d) op (2 * n)
  = map valm (zip3 ys (dup2 cbs) (dup2 crs)).
Proof.
  intros Hy Hcb Hcr Hok Hop Hb. unfold m565_row. rewrite shiftr1_even, odd_even.
  pose proof (m565_pairs_vals n ys cbs crs [] cbr crr buf op d Hy Hcb Hcr Hok Hop ltac:(lia)) as P.
  rewrite app_nil_r in P.
  destruct (m565_pairs false false n ys (cbs ++ cbr) (crs ++ crr) buf op d) as [[[[[a b] c] buf'] op'] d'].
  destruct P as (_ & _ & _ & _ & _ & _ & _ & P8). exact P8.
Qed.

(* odd width 2n+1: the last column is done separately with the (n+1)-th chroma sample *)
Lemma m565_row_vals_odd n ys yl cbs cbl crs crl cbr crr buf op d :
  length ys = (2 * n)%nat -> length cbs = n -> length crs = n ->
  okv (zip3 (ys ++ [yl]) (dup2 (cbs ++ [cbl])) (dup2 (crs ++ [crl]))) -> 0 <= op ->
  op + 2 * Z.of_nat (2 * n + 1) <= Z.of_nat (length buf) ->
  cols565 false (m565_row false false (Z.of_nat (2 * n + 1)) (ys ++ [yl]) (cbs ++ cbl :: cbr) (crs ++ crl :: crr) buf op d) op (2 * n + 1)
  = map valm (zip3 (ys ++ [yl]) (dup2 (cbs ++ [cbl])) (dup2 (crs ++ [crl]))).
Proof.
  intros Hy Hcb Hcr Hok Hop Hb. unfold m565_row. rewrite shiftr1_odd, odd_odd.
  assert (EZ : zip3 (ys ++ [yl]) (dup2 (cbs ++ [cbl])) (dup2 (crs ++ [crl])) = zip3 ys (dup2 cbs) (dup2 crs) ++ [(yl, cbl, crl)]).
  { rewrite !dup2_app. rewrite zip3_app by (rewrite dup2_length; lia). reflexivity. }
  rewrite EZ in *. unfold okv in Hok. apply Forall_app in Hok. destruct Hok as [Hok1 Hok2].
  pose proof (m565_pairs_vals n ys cbs crs [yl] (cbl :: cbr) (crl :: crr) buf op d Hy Hcb Hcr Hok1 Hop ltac:(lia)) as P.
  destruct (m565_pairs false false n (ys ++ [yl]) (cbs ++ cbl :: cbr) (crs ++ crl :: crr) buf op d) as [[[[[a b] c] buf'] op'] d'].
  destruct P as (-> & -> & -> & -> & -> & P6 & P7 & P8). cbn [hd].
  change (pk false (mpx565 false d yl (chroma prec8 true cbl crl))) with (valm (yl, cbl, crl)).
  rewrite cols565_app, map_app. f_equal.
  - rewrite <- P8. apply cols565_ext. intros j Hj. apply store16_frame; lia.
  - cbn [cols565 map]. f_equal. replace (op + 2 * Z.of_nat (2 * n)) with (op + 4 * Z.of_nat n) by lia.
    apply load16_store16; [lia | rewrite P6; lia | now inversion Hok2].
Qed.

Lemma m565_row_vals ys cbs crs buf op d :
  length cbs = Nat.div2 (S (length ys)) -> length crs = Nat.div2 (S (length ys)) ->
  okv (zip3 ys (dup2 cbs) (dup2 crs)) -> 0 <= op -> op + 2 * Z.of_nat (length ys) <= Z.of_nat (length buf) ->
  cols565 false (m565_row false false (Z.of_nat (length ys)) ys cbs crs buf op d) op (length ys)
  = map valm (zip3 ys (dup2 cbs) (dup2 crs)).
Proof.
  intros Hcb Hcr Hok Hop Hb.
  destruct (Nat.Even_or_Odd (length ys)) as [[n Hn]|[n Hn]].
  - rewrite Hn in *. rewrite Nat.div2_succ_double in Hcb, Hcr.
    pose proof (m565_row_vals_even n ys cbs crs [] [] buf op d Hn Hcb Hcr Hok Hop Hb) as H.
    now rewrite !app_nil_r in H.
  - rewrite Hn in *. replace (S (2 * n + 1)) with (2 * (n + 1))%nat in Hcb, Hcr by lia. rewrite Nat.div2_double in Hcb, Hcr.
    assert (Hy : ys <> []) by (intro E; rewrite E in Hn; cbn in Hn; lia).
    assert (Hc : cbs <> []) by (intro E; rewrite E in Hcb; cbn in Hcb; lia).
    assert (Hr : crs <> []) by (intro E; rewrite E in Hcr; cbn in Hcr; lia).
    rewrite (app_removelast_last 0 Hy) in *. rewrite (app_removelast_last 0 Hc) in *. rewrite (app_removelast_last 0 Hr) in *.
    rewrite app_length in Hn, Hcb, Hcr. cbn [length] in Hn, Hcb, Hcr.
    apply m565_row_vals_odd; try assumption; lia.
Qed.

Definition mrow := (list Z * list Z * list Z)%type.
Definition mrow_vals (r : mrow) : list px3 := zip3 (fst (fst r)) (dup2 (snd (fst r))) (dup2 (snd r)).
Definition mrow_wr (w : Z) (r : mrow) (b : list Z) (op : Z) : list Z :=
  m565_row false false w (fst (fst r)) (snd (fst r)) (snd r) b op 0.

Lemma m565_rows_is_write_rows w : forall ys cbs crs buf ptrs scan,
  m565_rows false false w scan ys cbs crs buf ptrs = write_rows (mrow_wr w) (zip3rows ys cbs crs) buf ptrs.
Proof.
  induction ys as [|y ty IH]; intros cbs crs buf ptrs scan; [destruct ptrs; reflexivity|].
  destruct cbs as [|cb tcb]; [destruct ptrs; reflexivity|]. destruct crs as [|cr tcr]; [destruct ptrs; reflexivity|].
  destruct ptrs as [|op tp]; [reflexivity|].
  cbn [m565_rows zip3rows write_rows]. unfold mrow_wr at 2. cbn [fst snd]. apply IH.
Qed.

Definition mrow_ok (wn : nat) (r : mrow) : Prop :=
  length (fst (fst r)) = wn /\ length (snd (fst r)) = Nat.div2 (S wn) /\ length (snd r) = Nat.div2 (S wn) /\ okv (mrow_vals r).
Definition mrow_okb (wn : nat) (r : mrow) : bool :=
  Nat.eqb (length (fst (fst r))) wn && Nat.eqb (length (snd (fst r))) (Nat.div2 (S wn)) && Nat.eqb (length (snd r)) (Nat.div2 (S wn)) &&
  forallb (fun t => (0 <=? valm t) && (valm t <? 65536)) (mrow_vals r).
Lemma mrow_okb_ok wn r : mrow_okb wn r = true <-> mrow_ok wn r.
Proof.
  unfold mrow_okb, mrow_ok, okv. rewrite !andb_true_iff, !Nat.eqb_eq, forallb_forall, Forall_forall.
  split.
  - intros [[[A B] C] D]. split; [exact A|]. split; [exact B|]. split; [exact C|].
    intros t Ht. specialize (D t Ht). apply andb_prop in D. destruct D as [D1 D2].
    apply Z.leb_le in D1. apply Z.ltb_lt in D2. lia.
  - intros (A & B & C & D). split; [split; [split|]|]; auto. intros t Ht. specialize (D t Ht).
    apply andb_true_intro. split; [apply Z.leb_le | apply Z.ltb_lt]; lia.
Qed.

(* merged upsampling to RGB565, h2v1 and (through dup_rows) h2v2, not dithered: every output pixel is PACK_SHORT_565 of the
   plain YCbCr->RGB conversion of its luma sample with the chroma sample of its pair (= what jdcol565.c produces for the
   image with replicated chroma), for all widths incl. the odd tail, any disjoint in-bounds row pointers *)
Theorem m565_rows_values wn : forall (rowsl : list mrow) buf ptrs,
  length rowsl = length ptrs -> Forall (mrow_ok wn) rowsl ->
  in_bounds (2 * Z.of_nat wn) (length buf) ptrs -> separated (2 * Z.of_nat wn) ptrs ->
  let out := write_rows (mrow_wr (Z.of_nat wn)) rowsl buf ptrs in
  length out = length buf /\
  (forall j, 0 <= j -> outside_rows (2 * Z.of_nat wn) ptrs j -> rd out j = rd buf j) /\
  unpack565 false out ptrs wn = map (fun r => map (val565 0) (mrow_vals r)) rowsl.
Proof.
  intros rowsl buf ptrs Hlen Hrows Hin Hsep. cbv zeta.
  set (g := fun (r : mrow) (b : list Z) (op : Z) => if mrow_okb wn r then mrow_wr (Z.of_nat wn) r b op else b).
  assert (E : forall l buf' ptrs', Forall (mrow_ok wn) l -> write_rows g l buf' ptrs' = write_rows (mrow_wr (Z.of_nat wn)) l buf' ptrs').
  { induction l as [|r ri IH]; intros buf' [|o rp] HF; try reflexivity.
    inversion HF as [|? ? Hr HF']; subst. cbn [write_rows]. unfold g at 2.
    apply mrow_okb_ok in Hr. rewrite Hr. now apply IH. }
  set (okrow := fun (r : mrow) (got : list Z) => mrow_ok wn r -> got = map (val565 0) (mrow_vals r)).
  pose proof (write_rows_spec g (fun b op => cols565 false b op wn) (2 * Z.of_nat wn) okrow) as G.
  assert (HA : forall r b op, 0 <= op -> op + 2 * Z.of_nat wn <= Z.of_nat (length b) ->
     length (g r b op) = length b /\
     (forall j, 0 <= j -> (j < op \/ op + 2 * Z.of_nat wn <= j) -> rd (g r b op) j = rd b j) /\
     okrow r (cols565 false (g r b op) op wn)).
  { intros r b op Hop Hopd. unfold g, okrow. destruct (mrow_okb wn r) eqn:Eg.
    - apply mrow_okb_ok in Eg. destruct Eg as (L1 & L2 & L3 & L4).
      destruct (m565_row_frame false (Z.of_nat wn) (fst (fst r)) (snd (fst r)) (snd r) b op 0 ltac:(lia)) as [F1 F2].
      unfold mrow_wr. split; [exact F1|]. split; [exact F2|]. intros _.
      rewrite <- L1 in *. rewrite m565_row_vals by assumption.
      apply map_ext. intro t. apply valm_is_plain.
    - split; [reflexivity|]. split; [reflexivity|]. intro Hc. apply mrow_okb_ok in Hc. congruence. }
  assert (HB : forall b1 b2 op, 0 <= op -> (forall j, op <= j < op + 2 * Z.of_nat wn -> rd b1 j = rd b2 j) ->
     cols565 false b1 op wn = cols565 false b2 op wn) by (intros; now apply cols565_ext).
  destruct (G HA HB rowsl buf ptrs Hlen Hin Hsep) as (G1 & G2 & G3).
  rewrite E in * by assumption.
  set (out := write_rows (mrow_wr (Z.of_nat wn)) rowsl buf ptrs) in *. clearbody out. repeat split; auto.
  unfold unpack565. clear - G3 Hrows. induction G3 as [|x y l l' H G3 IH]; [reflexivity|].
  inversion Hrows as [|? ? Hx Hl]. cbn [map]. f_equal; [|apply IH; exact Hl]. exact (H Hx).
Qed.

Theorem merged565_values (v2 : bool) wn scan ys (cbs crs : list (list Z)) buf ptrs :
  let cbs' := if v2 then dup_rows cbs else cbs in let crs' := if v2 then dup_rows crs else crs in
  length (zip3rows ys cbs' crs') = length ptrs -> Forall (mrow_ok wn) (zip3rows ys cbs' crs') ->
  in_bounds (2 * Z.of_nat wn) (length buf) ptrs -> separated (2 * Z.of_nat wn) ptrs ->
  let out := merged565 false false v2 (Z.of_nat wn) scan ys cbs crs buf ptrs in
  length out = length buf /\
  (forall j, 0 <= j -> outside_rows (2 * Z.of_nat wn) ptrs j -> rd out j = rd buf j) /\
  unpack565 false out ptrs wn = map (map (val565 0)) (merged_image ys cbs' crs').
Proof.
  cbv zeta. intros Hlen Hok Hin Hsep. unfold merged565, merged_image.
  destruct v2; rewrite m565_rows_is_write_rows; rewrite map_map;
    exact (m565_rows_values wn _ buf ptrs Hlen Hok Hin Hsep).
Qed.
