(* C11 -- replicating upsamplers: stores in [0, round_up(output_width, h_expand)), inside the padded colour
   buffer row; loads in [0, ceil(output_width / h_expand)) = [0, downsampled_width). *)
From Coq Require Import List ZArith Lia Bool ZifyBool.
From LJT Require Import model.Extent model.ExtentUps gen.GenAlign proofs.ExtentProofs.
Import ListNotations.
Local Open Scope Z_scope.
Ltac Zify.zify_post_hook ::= Z.div_mod_to_equations.

Lemma zseq_In a n x : In x (zseq a n) <-> a <= x < a + Z.of_nat n.
Proof.
  revert a. induction n as [|n IH]; intros a; cbn [zseq In]; [lia|]. rewrite IH. lia.
Qed.

Lemma int_ups_row_bounds fuel h ow : 1 <= h -> 0 <= ow ->
  forall k inp, 0 <= k ->
  let '(r, w) := int_ups_row fuel h ow (k * h) inp in
  (forall s, In s w -> k * h <= s < round_up ow h) /\
  (forall x, In x r -> inp <= x < inp + (ceil_div ow h - k)).
Proof.
  intros Hh How. induction fuel as [|f IH]; intros k inp Hk; cbn [int_ups_row]; [split; intros ? []|].
  destruct (k * h <? ow) eqn:E; [|split; intros ? []].
  replace (k * h + h) with ((k + 1) * h) by lia.
  specialize (IH (k + 1) (inp + 1) ltac:(lia)).
  destruct (int_ups_row f h ow ((k + 1) * h) (inp + 1)) as [r w]. destruct IH as [IHw IHr].
  assert (Hc : k + 1 <= ceil_div ow h).
  { unfold ceil_div. assert (k * h < ow) by lia. apply Z.div_le_lower_bound; [lia|]. nia. }
  split.
  - intros s Hs. apply in_app_iff in Hs. destruct Hs as [Hs | Hs].
    + apply zseq_In in Hs. rewrite Z2Nat.id in Hs by lia. unfold round_up. nia.
    + apply IHw in Hs. nia.
  - intros x [<- | Hx]; [lia|]. apply IHr in Hx. lia.
Qed.

Theorem int_upsample_row_extent h ow : 1 <= h -> 0 <= ow ->
  (forall s, In s (snd (int_upsample_row h ow)) -> 0 <= s < round_up ow h) /\
  (forall x, In x (fst (int_upsample_row h ow)) -> 0 <= x < ceil_div ow h).
Proof.
  intros Hh How. unfold int_upsample_row.
  pose proof (int_ups_row_bounds (S (Z.to_nat ow)) h ow Hh How 0 0 ltac:(lia)) as B.
  change (0 * h) with 0 in B. destruct (int_ups_row (S (Z.to_nat ow)) h ow 0 0) as [r w]. destruct B as [Bw Br].
  cbn [fst snd]. split; [intros s Hs; apply Bw in Hs; lia | intros x Hx; apply Br in Hx; lia].
Qed.

(* the loop does cover the whole row: every column below output_width is stored (the fuel suffices) *)
Lemma int_ups_row_covers fuel h ow : 1 <= h -> forall k inp, 0 <= k -> (Z.to_nat (ow - k * h) < fuel)%nat ->
  forall s, k * h <= s < ow -> In s (snd (int_ups_row fuel h ow (k * h) inp)).
Proof.
  intros Hh. induction fuel as [|f IH]; intros k inp Hk Hf s Hs; [lia|]. cbn [int_ups_row].
  destruct (k * h <? ow) eqn:E; [|lia].
  replace (k * h + h) with ((k + 1) * h) by lia.
  destruct (int_ups_row f h ow ((k + 1) * h) (inp + 1)) as [r w] eqn:Er. cbn [snd].
  apply in_app_iff. destruct (Z_lt_dec s ((k + 1) * h)) as [Hl | Hg].
  - left. apply zseq_In. rewrite Z2Nat.id by lia. lia.
  - right. specialize (IH (k + 1) (inp + 1) ltac:(lia) ltac:(nia) s ltac:(lia)). rewrite Er in IH. exact IH.
Qed.

(* h2v1 / h2v2 plain upsampling = int_upsample with h_expand 2 *)
Lemma h2_ups_row_eq fuel ow outp inp : h2_ups_row fuel ow outp inp = int_ups_row fuel 2 ow outp inp.
Proof.
  revert outp inp. induction fuel as [|f IH]; intros outp inp; [reflexivity|]. cbn [h2_ups_row int_ups_row].
  destruct (outp <? ow); [|reflexivity]. rewrite IH. destruct (int_ups_row f 2 ow (outp + 2) (inp + 1)). reflexivity.
Qed.

Theorem h2_upsample_row_extent ow : 0 <= ow ->
  (forall s, In s (snd (h2_upsample_row ow)) -> 0 <= s < round_up ow 2) /\
  (forall x, In x (fst (h2_upsample_row ow)) -> 0 <= x < ceil_div ow 2).
Proof. intros How. unfold h2_upsample_row. rewrite h2_ups_row_eq. apply (int_upsample_row_extent 2 ow); lia. Qed.

Theorem copy_and_h1v2_extent n : 0 <= n ->
  (forall s, In s (copy_row_stores n) -> 0 <= s < n) /\
  (forall s, In s (fst (h1v2_fancy_row n)) \/ In s (snd (h1v2_fancy_row n)) -> 0 <= s < n).
Proof.
  intros Hn. unfold copy_row_stores, h1v2_fancy_row. cbn [fst snd]. split.
  - intros s Hs. apply zseq_In in Hs. lia.
  - intros s [Hs | Hs]; apply zseq_In in Hs; lia.
Qed.

(* round_up(output_width, h_expand) fits the colour buffer row: alloc_sarray is asked for
   round_up(output_width, max_h_samp_factor) samples, h_expand divides max_h_samp_factor, and the row is
   padded to a multiple of 2*ALIGN_SIZE *)
Theorem upsample_stores_inside_color_buf h maxh ow : 1 <= h -> 1 <= maxh -> (h | maxh) -> 0 <= ow ->
  round_up ow h <= round_up ow maxh /\ round_up ow maxh <= sarray_row_len align_size_simd 1 (round_up ow maxh).
Proof.
  intros Hh Hm [q Hq] How. split.
  - unfold round_up, ceil_div. subst maxh. assert (1 <= q) by nia.
    set (a := (ow + h - 1) / h). set (b := (ow + q * h - 1) / (q * h)).
    assert (ow <= b * (q * h)) by (unfold b; pose proof (Z.div_mod (ow + q * h - 1) (q * h) ltac:(nia)); pose proof (Z.mod_pos_bound (ow + q * h - 1) (q * h) ltac:(nia)); nia).
    assert (a * h < ow + h) by (unfold a; pose proof (Z.div_mod (ow + h - 1) h ltac:(lia)); pose proof (Z.mod_pos_bound (ow + h - 1) h ltac:(lia)); nia).
    (* a*h and b*q*h are multiples of h: a*h < b*q*h + h  ->  a <= b*q *)
    assert (a < b * q + 1) by nia. nia.
  - destruct (internal_overrun_absorbed_lem (round_up ow maxh) (round_up ow maxh)) as (_ & _ & _ & E & _); [|lia|exact E].
    unfold round_up, ceil_div. apply Z.mul_nonneg_nonneg; [apply Z.div_pos|]; lia.
Qed.

(* all factors 1..4 at once, the form the property needs *)
Theorem replicating_upsamplers_extent h maxh ow : 1 <= h <= 4 -> 1 <= maxh <= 4 -> (h | maxh) -> 0 <= ow ->
  forall s, In s (snd (int_upsample_row h ow)) \/ (h = 2 /\ In s (snd (h2_upsample_row ow))) \/ In s (copy_row_stores ow) ->
  0 <= s < sarray_row_len align_size_simd 1 (round_up ow maxh).
Proof.
  intros Hh Hm Hd How s Hs.
  destruct (upsample_stores_inside_color_buf h maxh ow ltac:(lia) ltac:(lia) Hd How) as [A B].
  assert (C : ow <= round_up ow h).
  { unfold round_up, ceil_div. pose proof (Z.div_mod (ow + h - 1) h ltac:(lia)). pose proof (Z.mod_pos_bound (ow + h - 1) h ltac:(lia)). nia. }
  destruct Hs as [Hs | [[-> Hs] | Hs]].
  - apply (int_upsample_row_extent h ow) in Hs; lia.
  - apply (h2_upsample_row_extent ow How) in Hs. lia.
  - apply (copy_and_h1v2_extent ow How) in Hs. lia.
Qed.
