(* C08 -- context main controller (model/Partial.v section b2), max_v_samp_factor = 2:
   list-level facts about the funny pointer lists and the physical buffer. *)
From Coq Require Import List ZArith Lia Bool ZifyBool.
From LJT Require Import model.Partial.
Import ListNotations.
Local Open Scope Z_scope.

(* ---------- getz / upd ---------- *)
Lemma upd_nat_length l i x : length (upd_nat l i x) = length l.
Proof. revert i. induction l as [|a t IH]; intros [|i]; cbn; auto. Qed.

Lemma zlen_upd l i x : zlen (upd l i x) = zlen l.
Proof. unfold upd, zlen. destruct (i <? 0); [reflexivity|]. now rewrite upd_nat_length. Qed.

Lemma nth_upd_nat_same l i x d : (i < length l)%nat -> nth i (upd_nat l i x) d = x.
Proof. revert i. induction l as [|a t IH]; intros [|i] Hi; cbn in *; try lia; auto. apply IH. lia. Qed.

Lemma nth_upd_nat_other l i j x d : i <> j -> nth j (upd_nat l i x) d = nth j l d.
Proof.
  revert i j. induction l as [|a t IH]; intros [|i] [|j] Hne; cbn; try reflexivity; try congruence.
  apply IH. congruence.
Qed.

Lemma getz_upd_same l i x : 0 <= i < zlen l -> getz (upd l i x) i = x.
Proof.
  intros Hi. unfold getz, upd, zlen in *. assert (E : (i <? 0) = false) by lia. rewrite E.
  apply nth_upd_nat_same. lia.
Qed.

Lemma getz_upd_other l i j x : i <> j -> getz (upd l i x) j = getz l j.
Proof.
  intros Hne. unfold getz, upd. destruct (j <? 0) eqn:Ej; [reflexivity|].
  destruct (i <? 0) eqn:Ei; [reflexivity|]. apply nth_upd_nat_other. lia.
Qed.

Lemma getz_upd l i j x : 0 <= i < zlen l -> getz (upd l i x) j = if j =? i then x else getz l j.
Proof.
  intros Hi. destruct (j =? i) eqn:E.
  - assert (j = i) by lia. subst. now apply getz_upd_same.
  - apply getz_upd_other. lia.
Qed.

Lemma zseq_length' a n : length (zseq a n) = n.
Proof. revert a. induction n; intros; cbn; [reflexivity|]. now rewrite IHn. Qed.

Lemma nth_zseq a n i d : (i < n)%nat -> nth i (zseq a n) d = a + Z.of_nat i.
Proof.
  revert a i. induction n as [|n IH]; intros a [|i] Hi; cbn [zseq nth]; try lia.
  rewrite IH by lia. lia.
Qed.

Lemma getz_map_zseq (f : Z -> Z) n p : 0 <= p < Z.of_nat n -> getz (map f (zseq 0 n)) p = f p.
Proof.
  intros Hp. unfold getz. assert (E : (p <? 0) = false) by lia. rewrite E.
  rewrite (nth_indep _ (-2) (f 0)) by (rewrite map_length, zseq_length'; lia).
  rewrite map_nth. rewrite nth_zseq by lia. f_equal. lia.
Qed.

Section Ctx.
Variable g : geom.
Hypothesis Hrg : grg g = 1.
Hypothesis HM : 2 <= gM g.

Definition xg (xb : list Z) (i : Z) : Z := getz xb (i + 1).
Definition xs (xb : list Z) (i x : Z) : list Z := upd xb (i + 1) x.

Lemma xb_get_xg xb i : xb_get g xb i = xg xb i.
Proof. unfold xb_get, xg. now rewrite Hrg. Qed.
Lemma xb_set_xs xb i x : xb_set g xb i x = xs xb i x.
Proof. unfold xb_set, xs. now rewrite Hrg. Qed.

Lemma zlen_xs xb i x : zlen (xs xb i x) = zlen xb.
Proof. apply zlen_upd. Qed.

Lemma xg_xs xb i j x : -1 <= i < zlen xb - 1 -> xg (xs xb i x) j = if j =? i then x else xg xb j.
Proof.
  intros Hi. unfold xg, xs. rewrite getz_upd by lia.
  destruct (j =? i) eqn:E1; destruct (j + 1 =? i + 1) eqn:E2; try reflexivity; lia.
Qed.

(* physical row of logical row i of pointer list w (0 <= i <= M+1) *)
Definition place (w i : Z) : Z :=
  if w =? 0 then i
  else if i <? gM g - 2 then i else if i <? gM g then i + 2 else i - 2.

Lemma place_range w i : 0 <= i <= gM g + 1 -> 0 <= place w i <= gM g + 1.
Proof. unfold place. intros. destruct (w =? 0) eqn:?, (i <? gM g - 2) eqn:?, (i <? gM g) eqn:?; lia. Qed.

Lemma place_inj w i j : 0 <= i <= gM g + 1 -> 0 <= j <= gM g + 1 -> place w i = place w j -> i = j.
Proof.
  unfold place. intros Hi Hj.
  destruct (w =? 0) eqn:?, (i <? gM g - 2) eqn:A, (i <? gM g) eqn:B, (j <? gM g - 2) eqn:C, (j <? gM g) eqn:D; lia.
Qed.

Lemma place_flip w : (w = 0 \/ w = 1) ->
  place (1 - w) (gM g + 1) = place w (gM g - 1) /\ place (1 - w) (gM g) = place w (gM g - 2).
Proof.
  intros [-> | ->]; unfold place;
    repeat match goal with |- context [if ?b then _ else _] => destruct b eqn:? end; lia.
Qed.

Definition xsel (w : Z) (x0 x1 : list Z) : list Z := if w =? 0 then x0 else x1.

(* the two pointer lists in their normal form; W: the wraparound pointers are set *)
Definition Shape (W : bool) (x0 x1 : list Z) : Prop :=
  zlen x0 = gM g + 4 /\ zlen x1 = gM g + 4 /\
  (forall i, 0 <= i <= gM g + 1 -> xg x0 i = place 0 i /\ xg x1 i = place 1 i) /\
  (W = false -> xg x0 (-1) = place 0 0) /\
  (W = true -> xg x0 (-1) = place 0 (gM g + 1) /\ xg x0 (gM g + 2) = place 0 0 /\
               xg x1 (-1) = place 1 (gM g + 1) /\ xg x1 (gM g + 2) = place 1 0).

Lemma Shape_sel W x0 x1 w i : Shape W x0 x1 -> (w = 0 \/ w = 1) -> 0 <= i <= gM g + 1 ->
  xg (xsel w x0 x1) i = place w i.
Proof. intros (_ & _ & H & _) [-> | ->] Hi; cbn; apply (H i Hi). Qed.

Lemma Shape_wrap W x0 x1 w : Shape W x0 x1 -> W = true -> (w = 0 \/ w = 1) ->
  xg (xsel w x0 x1) (-1) = place w (gM g + 1) /\ xg (xsel w x0 x1) (gM g + 2) = place w 0.
Proof. intros (_ & _ & _ & _ & H) HW [-> | ->]; cbn; destruct (H HW) as (A & B & C & D); auto. Qed.

Lemma Shape_len W x0 x1 w : Shape W x0 x1 -> zlen (xsel w x0 x1) = gM g + 4.
Proof. intros (A & B & _). unfold xsel. destruct (w =? 0); assumption. Qed.

(* ---------- make_funny_pointers ---------- *)
Lemma make_funny_shape : Shape false (fst (make_funny g)) (snd (make_funny g)).
Proof.
  unfold make_funny. rewrite Hrg. cbn [fst snd].
  replace (1 * (gM g + 4)) with (gM g + 4) by lia. replace (1 * (gM g + 2)) with (gM g + 2) by lia.
  replace (1 * (gM g - 2)) with (gM g - 2) by lia. replace (1 * gM g) with (gM g) by lia.
  change (Z.to_nat (1 * 2)) with 2%nat. change (Z.to_nat 1) with 1%nat.
  set (base := map (fun p : Z => let j := p - 1 in if (0 <=? j) && (j <? gM g + 2) then j else -1)
                   (zseq 0 (Z.to_nat (gM g + 4)))).
  assert (Hlen : zlen base = gM g + 4).
  { unfold base, zlen. rewrite map_length, zseq_length'. lia. }
  assert (Hb : forall i, -1 <= i <= gM g + 2 -> xg base i = if (0 <=? i) && (i <? gM g + 2) then i else -1).
  { intros i Hi. unfold xg, base. rewrite getz_map_zseq by lia. cbv zeta. replace (i + 1 - 1) with i by lia. reflexivity. }
  cbn [zseq fold_left]. rewrite !xb_set_xs, !xb_get_xg.
  replace (gM g - 2 + 0) with (gM g - 2) by lia. replace (gM g + 0) with (gM g) by lia.
  replace (0 + 1) with 1 by lia. replace (0 - 1) with (-1) by lia.
  assert (Hfin : forall P : Prop, P -> P) by auto.
  split; [now rewrite zlen_xs|]. split; [now rewrite !zlen_xs|]. split; [|split; [|discriminate]].
  - intros i Hi. split.
    + rewrite xg_xs by lia. rewrite !Hb by lia. unfold place.
      repeat match goal with |- context [if ?b then _ else _] => destruct b eqn:? end; lia.
    + rewrite !xg_xs by (rewrite ?zlen_xs; lia). rewrite !Hb by lia. unfold place.
      repeat match goal with |- context [if ?b then _ else _] => destruct b eqn:? end; lia.
  - intros _. rewrite xg_xs by lia. rewrite !Hb by lia. unfold place.
    repeat match goal with |- context [if ?b then _ else _] => destruct b eqn:? end; lia.
Qed.

(* ---------- set_wraparound_pointers ---------- *)
Lemma wrap_one_spec xb : zlen xb = gM g + 4 ->
  zlen (wrap_one g xb) = gM g + 4 /\
  xg (wrap_one g xb) (-1) = xg xb (gM g + 1) /\ xg (wrap_one g xb) (gM g + 2) = xg xb 0 /\
  forall i, 0 <= i <= gM g + 1 -> xg (wrap_one g xb) i = xg xb i.
Proof.
  intros Hlen. unfold wrap_one. rewrite Hrg. change (Z.to_nat 1) with 1%nat. cbn [zseq fold_left].
  rewrite !xb_set_xs, !xb_get_xg.
  replace (1 * (gM g + 1) + 0) with (gM g + 1) by lia. replace (1 * (gM g + 2) + 0) with (gM g + 2) by lia.
  replace (0 - 1) with (-1) by lia.
  repeat split.
  - now rewrite !zlen_xs.
  - rewrite !xg_xs by (rewrite ?zlen_xs; lia).
    assert (E : (-1 =? gM g + 2) = false) by lia. rewrite E. cbn [Z.eqb]. reflexivity.
  - rewrite !xg_xs by (rewrite ?zlen_xs; lia).
    assert (E : (gM g + 2 =? gM g + 2) = true) by lia. rewrite E. cbn [Z.eqb]. reflexivity.
  - intros i Hi. rewrite !xg_xs by (rewrite ?zlen_xs; lia).
    assert (E : (i =? gM g + 2) = false) by lia. assert (E' : (i =? -1) = false) by lia. now rewrite E, E'.
Qed.

Lemma wrap_shape W x0 x1 : Shape W x0 x1 -> Shape true (wrap_one g x0) (wrap_one g x1).
Proof.
  intros (L0 & L1 & Hp & _ & _).
  destruct (wrap_one_spec x0 L0) as (A0 & B0 & C0 & D0). destruct (wrap_one_spec x1 L1) as (A1 & B1 & C1 & D1).
  repeat split; auto.
  - rewrite D0 by assumption. apply (Hp i H).
  - rewrite D1 by assumption. apply (Hp i H).
  - discriminate.
  - rewrite B0. apply (Hp (gM g + 1)). lia.
  - rewrite C0. apply (Hp 0). lia.
  - rewrite B1. apply (Hp (gM g + 1)). lia.
  - rewrite C1. apply (Hp 0). lia.
Qed.

(* ---------- set_bottom_pointers: the pointer part ---------- *)
Definition fix_bottom (rl : Z) (xb : list Z) : list Z :=
  fold_left (fun xb i => xb_set g xb (rl + i) (xb_get g xb (rl - 1))) (zseq 0 (Z.to_nat (grg g * 2))) xb.

Lemma fix_bottom_spec rl xb : zlen xb = gM g + 4 -> 1 <= rl <= gM g ->
  zlen (fix_bottom rl xb) = gM g + 4 /\
  xg (fix_bottom rl xb) rl = xg xb (rl - 1) /\ xg (fix_bottom rl xb) (rl + 1) = xg xb (rl - 1) /\
  forall i, i <> rl -> i <> rl + 1 -> xg (fix_bottom rl xb) i = xg xb i.
Proof.
  intros Hlen Hrl. unfold fix_bottom. rewrite Hrg. change (Z.to_nat (1 * 2)) with 2%nat. cbn [zseq fold_left].
  rewrite !xb_set_xs, !xb_get_xg. replace (rl + 0) with rl by lia. replace (0 + 1) with 1 by lia.
  repeat split.
  - now rewrite !zlen_xs.
  - rewrite !xg_xs by (rewrite ?zlen_xs; lia).
    assert (E : (rl =? rl + 1) = false) by lia. assert (E' : (rl =? rl) = true) by lia. now rewrite E, E'.
  - rewrite !xg_xs by (rewrite ?zlen_xs; lia).
    assert (E : (rl + 1 =? rl + 1) = true) by lia. rewrite E.
    assert (E' : (rl - 1 =? rl) = false) by lia. now rewrite E'.
  - intros i H1 H2. rewrite !xg_xs by (rewrite ?zlen_xs; lia).
    assert (E : (i =? rl + 1) = false) by lia. assert (E' : (i =? rl) = false) by lia. now rewrite E, E'.
Qed.

(* ---------- the IDCT of one iMCU row through a pointer list ---------- *)
Lemma decode_fold (f : Z -> Z) (base hrows : Z) n : forall a ph,
  (forall j, a <= j < a + Z.of_nat n -> 0 <= f j < zlen ph) ->
  (forall i j, a <= i < a + Z.of_nat n -> a <= j < a + Z.of_nat n -> f i = f j -> i = j) ->
  (forall j, a <= j < a + Z.of_nat n -> base + j < hrows) ->
  let ph' := fold_left (fun ph j => if base + j <? hrows then upd ph (f j) (base + j) else ph) (zseq a n) ph in
  zlen ph' = zlen ph /\
  (forall j, a <= j < a + Z.of_nat n -> getz ph' (f j) = base + j) /\
  (forall p, (forall j, a <= j < a + Z.of_nat n -> f j <> p) -> getz ph' p = getz ph p).
Proof.
  induction n as [|n IH]; intros a ph Hr Hinj Hh; cbn [zseq fold_left].
  - repeat split; intros; try lia; reflexivity.
  - assert (E : (base + a <? hrows) = true) by (specialize (Hh a); lia). rewrite E.
    assert (Hr' : forall j, a + 1 <= j < a + 1 + Z.of_nat n -> 0 <= f j < zlen (upd ph (f a) (base + a))).
    { intros j Hj. rewrite zlen_upd. apply Hr. lia. }
    assert (Hinj' : forall i j, a + 1 <= i < a + 1 + Z.of_nat n -> a + 1 <= j < a + 1 + Z.of_nat n -> f i = f j -> i = j).
    { intros i j Hi Hj. apply Hinj; lia. }
    assert (Hh' : forall j, a + 1 <= j < a + 1 + Z.of_nat n -> base + j < hrows) by (intros; apply Hh; lia).
    destruct (IH (a + 1) (upd ph (f a) (base + a)) Hr' Hinj' Hh') as (A & B & C).
    cbv zeta. repeat split.
    + rewrite A. apply zlen_upd.
    + intros j Hj. destruct (Z.eq_dec j a) as [-> | Hne].
      * rewrite C. { apply getz_upd_same. apply Hr. lia. }
        intros j' Hj' Heq. assert (j' = a) by (apply Hinj; lia). lia.
      * apply B. lia.
    + intros p Hp. rewrite C by (intros; apply Hp; lia).
      apply getz_upd_other. apply Hp. lia.
Qed.

End Ctx.
