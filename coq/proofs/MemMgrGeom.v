(* C14 -- alloc_small / alloc_large size and alignment arithmetic:
   round_up_pow2 as written in C (bit mask) = the model's formula; rounded sizes are multiples of
   ALIGN_SIZE within [a, a + ALIGN_SIZE); every pool on the manager's lists, in every run, has
   bytes_used a multiple of ALIGN_SIZE and non-negative used/left; an object carved at such an offset
   is ALIGN_SIZE-aligned and lies inside the malloc'ed block for EVERY address malloc may return. *)
From Coq Require Import List ZArith Bool Lia.
From LJT Require Import model.MemMgr proofs.MemMgrProofs proofs.MemMgrWrap.
Import ListNotations.
Local Open Scope Z_scope.

(* C: ((a + b - 1) & (~(b - 1))) with b = 2^k *)
Lemma rup_is_bitmask : forall a k, 0 <= k ->
  Z.land (a + 2 ^ k - 1) (Z.lnot (2 ^ k - 1)) = (a + 2 ^ k - 1) / 2 ^ k * 2 ^ k.
Proof.
  intros a k Hk.
  assert (E : 2 ^ k - 1 = Z.ones k) by (rewrite Z.ones_equiv; lia).
  rewrite <- Z.ldiff_land. rewrite E at 1. rewrite Z.ldiff_ones_r by auto.
  rewrite Z.shiftr_div_pow2, Z.shiftl_mul_pow2 by auto. reflexivity.
Qed.

Lemma rup_multiple : forall a b, 1 <= b -> (rup wid a b) mod b = 0.
Proof. intros. unfold rup, wid. apply Z_mod_mult. Qed.

Lemma rup_range : forall a b, 1 <= b -> a <= rup wid a b < a + b.
Proof.
  intros a b Hb. unfold rup, wid.
  pose proof (Z.div_mod (a + b - 1) b ltac:(lia)) as E.
  pose proof (Z.mod_pos_bound (a + b - 1) b ltac:(lia)) as Hm.
  rewrite (Z.mul_comm _ b).
  remember ((a + b - 1) / b) as q. remember ((a + b - 1) mod b) as r. clear Heqq Heqr. lia.
Qed.

(* the address computation at the end of alloc_small / alloc_large:
   data_ptr = hdr_ptr + sizeof(hdr); if (data_ptr % ALIGN) data_ptr += ALIGN - data_ptr % ALIGN; data_ptr += bytes_used *)
Definition obj_addr (c : cfg) (base off : Z) : Z :=
  let d := base + c_hdr c in
  (if d mod c_align c =? 0 then d else d + (c_align c - d mod c_align c)) + off.

Theorem object_placement : forall c base off sz cap,
  1 <= c_align c -> 0 <= c_hdr c -> 0 <= base ->
  0 <= off -> off mod c_align c = 0 -> 0 <= sz -> off + sz <= cap ->
  let blocksize := c_hdr c + cap + c_align c - 1 in
  (obj_addr c base off) mod c_align c = 0 /\
  base + c_hdr c <= obj_addr c base off /\ obj_addr c base off + sz <= base + blocksize.
Proof.
  intros c base off sz cap Ha Hh Hb Ho Hom Hs Hc blocksize. unfold obj_addr, blocksize.
  set (A := c_align c) in *. set (d := base + c_hdr c).
  pose proof (Z.mod_pos_bound d A ltac:(lia)) as Hm.
  destruct (d mod A =? 0) eqn:E.
  - apply Z.eqb_eq in E. split; [|lia].
    rewrite Z.add_mod by lia. rewrite E, Hom. simpl. apply Z.mod_0_l. lia.
  - apply Z.eqb_neq in E. split; [|lia].
    rewrite Z.add_mod by lia. rewrite Hom, Z.add_0_r, Z.mod_mod by lia.
    pose proof (Z.div_mod d A ltac:(lia)) as Ed.
    replace (d + (A - d mod A)) with (A * (d / A + 1)) by lia.
    rewrite Z.mul_comm. apply Z_mod_mult.
Qed.

(* ---- the geometry invariant of every pool on the lists ---- *)
Definition pool_geo (c : cfg) (p : pool) : Prop := p_used p mod c_align c = 0 /\ 0 <= p_used p /\ 0 <= p_left p.
Definition geo (c : cfg) (m : mgr) : Prop := Forall (pool_geo c) (pools_of m).

Lemma geo_lists : forall c m, geo c m <->
  Forall (pool_geo c) (m_small0 m) /\ Forall (pool_geo c) (m_small1 m) /\ Forall (pool_geo c) (m_large0 m) /\ Forall (pool_geo c) (m_large1 m).
Proof. intros. unfold geo, pools_of. rewrite !Forall_app. tauto. Qed.

Lemma find_pool_geo : forall c l sz l', 1 <= c_align c -> sz mod c_align c = 0 -> 0 <= sz ->
  Forall (pool_geo c) l -> find_pool l sz = Some l' -> Forall (pool_geo c) l'.
Proof.
  induction l as [|p l IH]; simpl; intros sz l' Ha Hm Hs Hf H; [discriminate|].
  inversion Hf; subst.
  destruct (p_left p >=? sz) eqn:E.
  - inversion H; subst. constructor; auto. destruct H2 as (g1 & g2 & g3). unfold pool_geo; simpl.
    split; [|lia]. rewrite Z.add_mod by lia. rewrite g1, Hm. simpl. apply Z.mod_0_l. lia.
  - destruct (find_pool l sz) eqn:Ef; inversion H; subst. constructor; auto. eapply IH; eauto.
Qed.

Lemma alloc_small_geo : forall c m h pid sz m' h' e,
  cfg_wf c -> 0 <= sz -> geo c m -> alloc_small wid c m h pid sz = (m', h', e) -> geo c m'.
Proof.
  intros c m h pid sz m' h' e Hc Hsz Hg H. unfold alloc_small in H.
  assert (Hcc := Hc). unfold cfg_wf in Hcc.
  destruct (sz >? c_max c). { inversion H; subst; auto. }
  pose proof (rup_multiple sz (c_align c) ltac:(lia)) as Rm. pose proof (rup_range sz (c_align c) ltac:(lia)) as Rr.
  remember (rup wid sz (c_align c)) as r.
  destruct (wid (c_hdr c + r + c_align c - 1) >? c_max c) eqn:E1. { inversion H; subst; auto. }
  destruct (bad_pool pid) eqn:Ebp. { inversion H; subst; auto. }
  apply bad_pool_false in Ebp. apply geo_lists in Hg. destruct Hg as (G0 & G1 & G2 & G3).
  destruct (find_pool (get_small m pid) r) as [l'|] eqn:Ef.
  - inversion H; subst m' h' e. apply geo_lists.
    assert (Forall (pool_geo c) l').
    { eapply (find_pool_geo c (get_small m pid) r); eauto; try lia. unfold get_small. destruct (pid =? 0); auto. }
    unfold set_small. destruct Ebp; subst pid; simpl; auto.
  - match type of H with context [get_pool_mem wid c 64 h ?a ?b] => destruct (get_pool_mem wid c 64 h a b) as [h1 g] eqn:Eg end.
    destruct g as [id slop'| |]; inversion H; subst m' h' e; try (apply geo_lists; auto; fail).
    assert (Hs : 0 <= slop').
    { apply get_pool_mem_slop in Eg; [lia|].
      match goal with |- 0 <= (if ?c1 then ?x else ?y) => destruct c1 eqn:Ec end.
      - unfold wid in *. lia.
      - unfold first_slop, extra_slop. destruct (get_small m pid); destruct (pid =? 0); lia. }
    assert (Pg : pool_geo c {| p_id := id; p_used := r; p_left := wid (r + slop') - r |}).
    { unfold pool_geo, wid; simpl. repeat split; auto; lia. }
    apply geo_lists. unfold set_total, set_small, get_small.
    destruct Ebp; subst pid; simpl; repeat split; auto; apply Forall_app; split; auto.
Qed.

Lemma alloc_large_geo : forall c m h pid sz m' h' e,
  cfg_wf c -> 0 <= sz -> geo c m -> alloc_large wid c m h pid sz = (m', h', e) -> geo c m'.
Proof.
  intros c m h pid sz m' h' e Hc Hsz Hg H. unfold alloc_large in H.
  assert (Hcc := Hc). unfold cfg_wf in Hcc.
  destruct (sz >? c_max c). { inversion H; subst; auto. }
  pose proof (rup_multiple sz (c_align c) ltac:(lia)) as Rm. pose proof (rup_range sz (c_align c) ltac:(lia)) as Rr.
  remember (rup wid sz (c_align c)) as r.
  destruct (wid (c_hdr c + r + c_align c - 1) >? c_max c). { inversion H; subst; auto. }
  destruct (bad_pool pid) eqn:Ebp. { inversion H; subst; auto. }
  apply bad_pool_false in Ebp. apply geo_lists in Hg. destruct Hg as (G0 & G1 & G2 & G3).
  destruct (malloc h (wid (r + c_hdr c + c_align c - 1))) as [h1 [id|]]; inversion H; subst m' h' e; try (apply geo_lists; auto; fail).
  assert (Pg : pool_geo c {| p_id := id; p_used := r; p_left := 0 |}) by (unfold pool_geo; simpl; repeat split; auto; lia).
  apply geo_lists. unfold set_total, set_large, get_large.
  destruct Ebp; subst pid; simpl; repeat split; auto.
Qed.

Lemma alloc_rows_geo : forall c fuel m h pid rpc width unit currow numrows m' h' e,
  cfg_wf c -> 0 <= rpc -> 0 <= width -> 0 <= unit -> geo c m ->
  alloc_rows wid c fuel m h pid rpc width unit currow numrows = (m', h', e) -> geo c m'.
Proof.
  induction fuel as [|f IH]; intros m h pid rpc width unit currow numrows m' h' e Hc Hr Hw Hu Hg H; cbn [alloc_rows] in H.
  - destruct (currow <? numrows); inversion H; subst; auto.
  - destruct (currow <? numrows) eqn:E; [|inversion H; subst; auto].
    assert (Hnn : 0 <= wid (wid (Z.min rpc (numrows - currow) * width) * unit)).
    { unfold wid. apply Z.mul_nonneg_nonneg; [apply Z.mul_nonneg_nonneg|]; lia. }
    destruct (alloc_large wid c m h pid (wid (wid (Z.min rpc (numrows - currow) * width) * unit))) as [[m1 h1] [e1|]] eqn:EL;
      pose proof (alloc_large_geo _ _ _ _ _ _ _ _ Hc Hnn Hg EL) as Hg1.
    + inversion H; subst. exact Hg1.
    + apply (IH m1 h1 pid (Z.min rpc (numrows - currow)) width unit (currow + Z.min rpc (numrows - currow)) numrows m' h' e); auto. lia.
Qed.

Lemma alloc_sarray_geo : forall c m h prec pid width numrows m' h' e,
  cfg_wf c -> 0 <= width -> 0 <= numrows -> geo c m -> alloc_sarray wid c m h prec pid width numrows = (m', h', e) -> geo c m'.
Proof.
  intros c m h prec pid width numrows m' h' e Hc Hw Hn Hg H. unfold alloc_sarray in H.
  assert (Hcc := Hc). unfold cfg_wf in Hcc.
  destruct (negb (c_align c mod sample_size prec =? 0)). { inversion H; subst; auto. }
  destruct (width >? c_max c). { inversion H; subst; auto. }
  set (w := rup wid width (2 * c_align c / sample_size prec) mod two32) in *.
  assert (0 <= w) by (unfold w, two32; apply Z.mod_pos_bound; lia).
  destruct (w * sample_size prec =? 0). { inversion H; subst; auto. }
  set (ltemp := (c_max c - c_hdr c) / (w * sample_size prec)) in *.
  destruct (ltemp <=? 0) eqn:El. { inversion H; subst; auto. }
  destruct (alloc_small wid c m h pid (wid (numrows * c_ptr c))) as [[m1 h1] [e1|]] eqn:ES;
    eapply alloc_small_geo in ES; eauto; try (unfold wid; apply Z.mul_nonneg_nonneg; lia).
  - inversion H; subst; auto.
  - eapply alloc_rows_geo in H; eauto.
    + destruct (ltemp <? numrows); lia.
    + destruct (sample_size_12 prec) as [-> | ->]; lia.
Qed.

Lemma alloc_barray_geo : forall c m h pid width numrows m' h' e,
  cfg_wf c -> 0 <= width -> 0 <= numrows -> geo c m -> alloc_barray wid c m h pid width numrows = (m', h', e) -> geo c m'.
Proof.
  intros c m h pid width numrows m' h' e Hc Hw Hn Hg H. unfold alloc_barray in H.
  assert (Hcc := Hc). unfold cfg_wf in Hcc.
  destruct (negb (c_block c mod c_align c =? 0)). { inversion H; subst; auto. }
  destruct (width * c_block c =? 0). { inversion H; subst; auto. }
  set (ltemp := (c_max c - c_hdr c) / (width * c_block c)) in *.
  destruct (ltemp <=? 0) eqn:El. { inversion H; subst; auto. }
  destruct (alloc_small wid c m h pid (wid (numrows * c_ptr c))) as [[m1 h1] [e1|]] eqn:ES;
    eapply alloc_small_geo in ES; eauto; try (unfold wid; apply Z.mul_nonneg_nonneg; lia).
  - inversion H; subst; auto.
  - eapply alloc_rows_geo in H; eauto; try lia.
    destruct (ltemp <? numrows); lia.
Qed.

Lemma realize_list_geo : forall c (alloc : mgr -> heap -> Z -> Z -> res),
  (forall m h w r m' h' e, 0 <= w -> 0 <= r -> geo c m -> alloc m h w r = (m', h', e) -> geo c m') ->
  forall l m h mm l' m' h' e, geo c m -> realize_list alloc l m h mm = (l', (m', h', e)) -> geo c m'.
Proof.
  intros c alloc Ha. induction l as [|v l IH]; intros m h mm l' m' h' e Hg H; cbn [realize_list] in H.
  - inversion H; subst; auto.
  - destruct (v_real v).
    + destruct (realize_list alloc l m h mm) as [r' [[m2 h2] e2]] eqn:ER. inversion H; subst. eapply IH; eauto.
    + destruct (v_maxacc v =? 0). { inversion H; subst; auto. }
      destruct (_ <=? mm).
      * destruct (alloc m h (v_width v mod two32) (v_rows v mod two32)) as [[m1 h1] [e1|]] eqn:EA;
          apply Ha in EA; auto; try (unfold two32; apply Z.mod_pos_bound; lia).
        -- inversion H; subst; auto.
        -- destruct (realize_list alloc l m1 h1 mm) as [r' [[m2 h2] e2]] eqn:ER. inversion H; subst. eapply IH; eauto.
      * inversion H; subst; auto.
Qed.

Lemma free_pool_geo : forall c m h pid m' h' e, geo c m -> free_pool c m h pid = (m', h', e) -> geo c m'.
Proof.
  intros c m h pid m' h' e Hg H. unfold free_pool in H.
  destruct (bad_pool pid) eqn:Ebp. { inversion H; subst; auto. }
  apply bad_pool_false in Ebp.
  destruct (free_list c _ h _) as [h1 t1]. destruct (free_list c _ h1 t1) as [h2 t2]. inversion H; subst m' h' e.
  apply geo_lists in Hg. destruct Hg as (G0 & G1 & G2 & G3). apply geo_lists.
  destruct Ebp; subst pid; simpl; repeat split; auto.
Qed.

Definition st_geo (c : cfg) (s : st) : Prop := match s_mgr s with Some m => geo c m | None => True end.

Theorem step_geo : forall c o s, cfg_wf c -> op_in_range o -> st_geo c s -> st_geo c (fst (step wid c o s)).
Proof.
  intros c o s Hc Ho Hs. unfold st_geo in *. destruct s as [[m|] h prec]; simpl in *.
  - destruct o; simpl in *; unfold mk; auto.
    + destruct (alloc_small wid c m h pid sz) as [[m1 h1] e1] eqn:E. eapply alloc_small_geo in E; eauto; lia.
    + destruct (alloc_large wid c m h pid sz) as [[m1 h1] e1] eqn:E. eapply alloc_large_geo in E; eauto; lia.
    + destruct (alloc_sarray wid c m h prec pid width rows) as [[m1 h1] e1] eqn:E. eapply alloc_sarray_geo in E; eauto; lia.
    + destruct (alloc_barray wid c m h pid width rows) as [[m1 h1] e1] eqn:E. eapply alloc_barray_geo in E; eauto; lia.
    + unfold request_virt_sarray. destruct (negb (pid =? 1)); simpl; auto.
      destruct (alloc_small wid c m h pid (c_sctl c)) as [[m1 h1] [e1|]] eqn:E; eapply alloc_small_geo in E; eauto; unfold cfg_wf in Hc; lia.
    + unfold request_virt_barray. destruct (negb (pid =? 1)); simpl; auto.
      destruct (alloc_small wid c m h pid (c_bctl c)) as [[m1 h1] [e1|]] eqn:E; eapply alloc_small_geo in E; eauto; unfold cfg_wf in Hc; lia.
    + destruct (realize_virt_arrays wid c m h prec) as [[m1 h1] e1] eqn:E. simpl.
      unfold realize_virt_arrays in E.
      destruct (space_pass (m_vs m) (sample_size prec) 10 (0, 0)) as [[[w|]|] acc1]; try (inversion E; subst; auto; fail).
      destruct (space_pass (m_vb m) (c_block c) 11 acc1) as [[[w|]|] [spm maximum]]; try (inversion E; subst; auto; fail).
      destruct (spm <=? 0); [inversion E; subst; auto|].
      match type of E with context [realize_list ?a (m_vs m) m h ?mm] => destruct (realize_list a (m_vs m) m h mm) as [vs' [[m2 h2] e2]] eqn:E1 end.
      eapply realize_list_geo in E1; eauto.
      2: { intros m0 h0 w0 r0 m0' h0' e0 Hw0 Hr0 Hg0 Ha0. exact (alloc_sarray_geo c m0 h0 prec 1 w0 r0 m0' h0' e0 Hc Hw0 Hr0 Hg0 Ha0). }
      destruct e2; [inversion E; subst; exact E1|].
      match type of E with context [realize_list ?a (m_vb m) ?m1' h2 ?mm] => destruct (realize_list a (m_vb m) m1' h2 mm) as [vb' [[m3 h3] e3]] eqn:E2 end.
      eapply realize_list_geo in E2; eauto.
      2: { intros m0 h0 w0 r0 m0' h0' e0 Hw0 Hr0 Hg0 Ha0. exact (alloc_barray_geo c m0 h0 1 w0 r0 m0' h0' e0 Hc Hw0 Hr0 Hg0 Ha0). }
      inversion E; subst. exact E2.
    + destruct (free_pool c m h pid) as [[m1 h1] e1] eqn:E. eapply free_pool_geo in E; eauto.
  - destruct o; simpl; auto.
    unfold jinit_memory_mgr. destruct (malloc h (wid (c_mgr c))) as [h1 [id|]]; simpl; auto. constructor.
Qed.

Theorem run_geo : forall c ops s, cfg_wf c -> Forall op_in_range ops -> st_geo c s -> st_geo c (run wid c ops s).
Proof.
  induction ops as [|o r IH]; intros s Hc Hf Hs; simpl; auto.
  inversion Hf; subst. apply IH; auto. apply step_geo; auto.
Qed.

(* run-level statement for the faithful (mod 2^64) model *)
Theorem pool_geometry_all_runs : forall c ops oracle,
  cfg_wf c -> Forall op_in_range ops ->
  match s_mgr (run w64 c ops (init_st oracle)) with
  | Some m => Forall (fun p => p_used p mod c_align c = 0 /\ 0 <= p_used p /\ 0 <= p_left p) (pools_of m)
  | None => True
  end.
Proof.
  intros c ops oracle Hc Hr. rewrite run_eq by auto.
  apply (run_geo c ops (init_st oracle) Hc Hr). exact I.
Qed.
