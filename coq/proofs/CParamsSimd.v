(* C17: the C pre-check in front of the SIMD Huffman encoder (encode_one_block_simd) accepts exactly the
   blocks whose coefficients pass the range tests of the C encoder; so the SIMD encoder is never handed
   a block the C encoder would reject with JERR_BAD_DCT_COEF, and nothing else is rejected. *)
From Coq Require Import List ZArith Bool Lia ZifyBool.
From LJT Require Import model.Huff gen.GenParams model.CParams.
Import ListNotations.
Local Open Scope Z_scope.

Lemma nbits_pos_bound p : 2 ^ (nbits_pos p - 1) <= Z.pos p < 2 ^ nbits_pos p.
Proof.
  induction p as [q IH|q IH|]; cbn [nbits_pos].
  - assert (1 <= nbits_pos q) by (clear; induction q; cbn [nbits_pos]; lia).
    replace (1 + nbits_pos q - 1) with (nbits_pos q - 1 + 1) by lia.
    replace (1 + nbits_pos q) with (nbits_pos q + 1) by lia.
    rewrite !Z.pow_add_r by lia. change (2 ^ 1) with 2. lia.
  - assert (1 <= nbits_pos q) by (clear; induction q; cbn [nbits_pos]; lia).
    replace (1 + nbits_pos q - 1) with (nbits_pos q - 1 + 1) by lia.
    replace (1 + nbits_pos q) with (nbits_pos q + 1) by lia.
    rewrite !Z.pow_add_r by lia. change (2 ^ 1) with 2. lia.
  - cbn. lia.
Qed.

Lemma nbits_le_iff x n : 0 <= x -> 0 <= n -> (nbits x <= n <-> x < 2 ^ n).
Proof.
  intros Hx Hn. destruct x as [|p|p]; [| |lia].
  - cbn. split; intros _; [apply Z.pow_pos_nonneg; lia|lia].
  - cbn [nbits]. pose proof (nbits_pos_bound p) as [Hlo Hhi]. split; intro H.
    + eapply Z.lt_le_trans; [exact Hhi|]. apply Z.pow_le_mono_r; lia.
    + destruct (Z_le_gt_dec (nbits_pos p) n) as [|Hgt]; [assumption|].
      assert (2 ^ n <= 2 ^ (nbits_pos p - 1)) by (apply Z.pow_le_mono_r; lia). lia.
Qed.

Lemma lor_lt_pow2 a b n : 0 <= a -> 0 <= b -> 0 <= n -> (Z.lor a b < 2 ^ n <-> a < 2 ^ n /\ b < 2 ^ n).
Proof.
  intros Ha Hb Hn.
  destruct (Z.eq_dec a 0) as [->|Ha0]. { rewrite Z.lor_0_l. split; [intro; split; [apply Z.pow_pos_nonneg; lia|assumption]|tauto]. }
  destruct (Z.eq_dec b 0) as [->|Hb0]. { rewrite Z.lor_0_r. split; [intro; split; [assumption|apply Z.pow_pos_nonneg; lia]|tauto]. }
  assert (Hl : 0 < Z.lor a b).
  { assert (0 <= Z.lor a b) by (apply Z.lor_nonneg; split; assumption).
    destruct (Z.eq_dec (Z.lor a b) 0) as [E|]; [apply Z.lor_eq_0_iff in E; lia|lia]. }
  rewrite (Z.log2_lt_pow2 (Z.lor a b)) by exact Hl.
  rewrite (Z.log2_lt_pow2 a) by lia. rewrite (Z.log2_lt_pow2 b) by lia.
  rewrite Z.log2_lor by assumption. lia.
Qed.

Lemma fold_lor_lt acs : forall acc n, 0 <= acc -> 0 <= n ->
  (fold_left (fun a v => Z.lor a (Z.abs v)) acs acc < 2 ^ n <-> acc < 2 ^ n /\ Forall (fun v => Z.abs v < 2 ^ n) acs).
Proof.
  induction acs as [|v acs IH]; intros acc n Ha Hn; cbn [fold_left].
  - split; [intro; split; [assumption|constructor]|tauto].
  - rewrite IH by (try apply Z.lor_nonneg; lia). rewrite lor_lt_pow2 by lia. split.
    + intros [[A B] C]. split; [exact A|constructor; assumption].
    + intros [A C]. inversion C; subst. tauto.
Qed.

(* the pre-check = the range tests of encode_one_block on every coefficient *)
Theorem simd_precheck_equiv_lemma : forall prec last_dc dc acs, 0 <= prec ->
  simd_range_ok prec last_dc (dc :: acs) = true <->
  seq_dc_ok prec (dc - last_dc) = true /\ forallb (seq_ac_ok prec) acs = true.
Proof.
  intros prec last_dc dc acs Hp. unfold simd_range_ok, seq_dc_ok, seq_ac_ok. cbv zeta.
  change g_MAX_COEF_BITS_ADD with 2. change g_DC_EXTRA_BITS with 1.
  rewrite andb_true_iff, !Z.leb_le, forallb_forall.
  assert (Hpow : 2 * (2 ^ (prec + 2) - 1) + 1 = 2 ^ (prec + 2 + 1) - 1) by (rewrite (Z.pow_add_r 2 (prec + 2) 1) by lia; change (2 ^ 1) with 2; lia).
  rewrite Hpow.
  rewrite (nbits_le_iff (Z.abs (dc - last_dc)) (prec + 2 + 1)) by lia.
  assert (Hf := fold_lor_lt acs 0 (prec + 2) ltac:(lia) ltac:(lia)).
  assert (H0 : 0 < 2 ^ (prec + 2)) by (apply Z.pow_pos_nonneg; lia).
  split.
  - intros [A B]. split; [lia|]. intros v Hin. apply Z.leb_le. apply nbits_le_iff; [lia|lia|].
    assert (Hlt : fold_left (fun a v => Z.lor a (Z.abs v)) acs 0 < 2 ^ (prec + 2)) by lia.
    apply Hf in Hlt. destruct Hlt as [_ Hall]. rewrite Forall_forall in Hall. apply Hall, Hin.
  - intros [A B]. split; [lia|].
    assert (Hlt : fold_left (fun a v => Z.lor a (Z.abs v)) acs 0 < 2 ^ (prec + 2)).
    { apply Hf. split; [lia|]. apply Forall_forall. intros v Hin. specialize (B v Hin). apply Z.leb_le in B.
      apply nbits_le_iff in B; lia. }
    lia.
Qed.

Lemma abs_trick_mag v : snd (abs_trick v) = Z.abs v.
Proof. unfold abs_trick. destruct (v <? 0) eqn:E; cbn; lia. Qed.

Lemma ac_fold_bad prec actbl acs : forall acc,
  fold_left (fun acc v => ac_step prec actbl v acc) acs acc = inl BadDctCoef ->
  acc = inl BadDctCoef \/ forallb (seq_ac_ok prec) acs = false.
Proof.
  induction acs as [|v acs IH]; intros acc H; cbn [fold_left] in H; [left; exact H|].
  destruct (IH _ H) as [E|E]; [|right; cbn [forallb]; rewrite E; apply andb_false_r].
  destruct acc as [e|[st r]]; [left; exact E|]. right. cbn [forallb].
  unfold ac_step in E. destruct (v =? 0); [discriminate|].
  pose proof (abs_trick_mag v) as Hm. destruct (abs_trick v) as [temp mag]. cbn [snd] in Hm. subst mag.
  unfold seq_ac_ok.
  destruct (nbits (Z.abs v) >? prec + g_MAX_COEF_BITS_ADD) eqn:Echk.
  - replace (nbits (Z.abs v) <=? prec + g_MAX_COEF_BITS_ADD) with false by lia. reflexivity.
  - exfalso.
    destruct ((g_MISSING_ZRL_EOB_CHECK =? 1) && (0 <? r / 256) && (nthZ (ehufsi actbl) 240 =? 0)); [discriminate|].
    cbv zeta in E. unfold put_code in E.
    match type of E with context [if ?b then _ else _] => destruct b end; discriminate.
Qed.

(* whenever the C encoder rejects a block for an out-of-range coefficient, so does the pre-check *)
Theorem simd_precheck_sound_lemma : forall prec dctbl actbl st last_dc coefs, 0 <= prec ->
  encode_one_block prec dctbl actbl st last_dc coefs = inl BadDctCoef ->
  simd_range_ok prec last_dc coefs = false.
Proof.
  intros prec dctbl actbl st last_dc coefs Hp H. destruct coefs as [|dc acs]; [reflexivity|].
  apply not_true_is_false. intro Hok. apply simd_precheck_equiv_lemma in Hok; [|exact Hp]. destruct Hok as [Hdc Hac].
  unfold encode_one_block in H.
  pose proof (abs_trick_mag (dc - last_dc)) as Hm. destruct (abs_trick (dc - last_dc)) as [temp mag]. cbn [snd] in Hm. subst mag.
  unfold seq_dc_ok in Hdc.
  destruct (nbits (Z.abs (dc - last_dc)) >? prec + g_MAX_COEF_BITS_ADD + g_DC_EXTRA_BITS) eqn:E; [lia|].
  destruct (put_code st temp (nbits (Z.abs (dc - last_dc))) _ _) as [e|st1] eqn:Epc.
  - unfold put_code in Epc. match type of Epc with context [if ?b then _ else _] => destruct b end; congruence.
  - destruct (fold_left (fun acc v => ac_step prec actbl v acc) acs (inr (st1, 0))) as [e|[st2 r]] eqn:Ef.
    + injection H as ->. destruct (ac_fold_bad _ _ _ _ Ef) as [X|X]; [discriminate|congruence].
    + match type of H with context [if ?b then _ else _] => destruct b end; discriminate.
Qed.
