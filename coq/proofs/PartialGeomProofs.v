(* C08 -- proofs about the geometry part of model/Partial.v *)
From Coq Require Import List ZArith Lia Bool ZifyBool.
From LJT Require Import model.Partial gen.GenScaling.
Import ListNotations.
Local Open Scope Z_scope.
Ltac Zify.zify_post_hook ::= Z.div_mod_to_equations.

(* ---------- jdiv_round_up is the ceiling ---------- *)
Definition is_ceil (a b r : Z) : Prop := b * (r - 1) < a <= b * r.

Lemma jdiv_round_up_ceil a b : 0 < b -> is_ceil a b (jdiv_round_up a b).
Proof. unfold is_ceil, jdiv_round_up. intros. lia. Qed.

Lemma ceil_unique a b r1 r2 : 0 < b -> is_ceil a b r1 -> is_ceil a b r2 -> r1 = r2.
Proof. unfold is_ceil. intros. nia. Qed.

Lemma tjscaled_ceil dim num den : 0 < den -> is_ceil (dim * num) den (tjscaled dim num den).
Proof. unfold is_ceil, tjscaled. intros. lia. Qed.

(* ---------- scaled dimensions ---------- *)
(* for one scaling factor: the chain picks M with M/8 = num/den, 1 <= M <= 16 *)
Definition sf_ok (p : Z * Z) : bool :=
  let '(num, den) := p in
  match chain_pick gen_scale_chain gen_DCTSIZE num den with
  | Some (mw, mh, sh, sv) =>
      (mw =? mh) && (mw =? sh) && (mw =? sv) && (1 <=? mw) && (mw <=? 16) && (8 * num =? mw * den) &&
      ((den =? 1) || (den =? 2) || (den =? 4) || (den =? 8))
  | None => false
  end.

Lemma all_sf_ok : forallb sf_ok gen_sf = true.
Proof. vm_compute. reflexivity. Qed.

Lemma gen_consts : gen_DCTSIZE = 8 /\ gen_NUMSF = Z.of_nat (length gen_sf) /\ gen_NUMSF = 16.
Proof. vm_compute. repeat split; reflexivity. Qed.

Lemma scale_arith dim num den M :
  0 <= dim -> 8 * num = M * den -> (den = 1 \/ den = 2 \/ den = 4 \/ den = 8) ->
  jdiv_round_up (dim * M) 8 = tjscaled dim num den.
Proof.
  intros Hd He Hden. unfold jdiv_round_up, tjscaled.
  destruct Hden as [->|[->|[->| ->]]].
  - assert (M = 8 * num) by lia. subst. rewrite Z.div_1_r. lia.
  - assert (M = 4 * num) by lia. subst. lia.
  - assert (M = 2 * num) by lia. subst. lia.
  - assert (M = num) by lia. subst. lia.
Qed.

(* Theorem (1): for every scaling factor of turbojpeg.c's sf[] table and all image dimensions,
   jdmaster.c's output dimensions are ceil(dim * M / 8) with M/8 the factor, and equal TJSCALED *)
Lemma scaled_dims_all :
  forall num den W H, In (num, den) gen_sf -> 0 <= W -> 0 <= H ->
  exists M, 1 <= M <= 16 /\ 8 * num = M * den /\
    core_output_dims gen_scale_chain gen_DCTSIZE W H num den =
      Some (tjscaled W num den, tjscaled H num den, M, M) /\
    is_ceil (W * M) 8 (tjscaled W num den) /\ is_ceil (H * M) 8 (tjscaled H num den).
Proof.
  intros num den W H Hin HW HH.
  pose proof all_sf_ok as Hall. rewrite forallb_forall in Hall. specialize (Hall _ Hin).
  unfold sf_ok in Hall. unfold core_output_dims.
  destruct (chain_pick gen_scale_chain gen_DCTSIZE num den) as [[[[mw mh] sh] sv]|] eqn:Hc; [|discriminate].
  assert (Hx : mw = mh /\ mw = sh /\ mw = sv /\ 1 <= mw <= 16 /\ 8 * num = mw * den /\
               (den = 1 \/ den = 2 \/ den = 4 \/ den = 8)) by lia.
  destruct Hx as (<- & <- & <- & Hr & He & Hden).
  exists mw. replace gen_DCTSIZE with 8 by reflexivity.
  rewrite (scale_arith W num den mw HW He Hden), (scale_arith H num den mw HH He Hden).
  repeat split; try lia.
  - rewrite <- (scale_arith W num den mw HW He Hden). apply jdiv_round_up_ceil. lia.
  - rewrite <- (scale_arith W num den mw HW He Hden). apply jdiv_round_up_ceil. lia.
  - rewrite <- (scale_arith H num den mw HH He Hden). apply jdiv_round_up_ceil. lia.
  - rewrite <- (scale_arith H num den mw HH He Hden). apply jdiv_round_up_ceil. lia.
Qed.

(* every M in 1..16 is reachable: the 16 factors are exactly M/8 for M = 1..16 *)
Lemma sf_covers_1_16 :
  forallb (fun M => existsb (fun p => 8 * fst p =? M * snd p) gen_sf) (zseq 1 16) = true.
Proof. vm_compute. reflexivity. Qed.

(* ---------- jpeg_crop_scanline ---------- *)
Lemma crop_window_all :
  forall ow align x w, 0 < align -> 0 <= x ->
  match crop_scanline ow align x w with
  | CropErr => w = 0 \/ ow < x + w
  | CropWhole => w = ow /\ w <> 0 /\ x + w <= ow
  | CropOk x' w' fi li =>
      w <> 0 /\ x + w <= ow /\ w <> ow /\
      x' <= x /\ x - x' < align /\ x' mod align = 0 /\ 0 <= x' /\
      x' + w' = x + w /\ (0 < w -> w <= w' /\ w' <= ow - x') /\
      fi * align = x' /\ li = jdiv_round_up (x' + w') align - 1 /\
      (* per-component IDCT windows cover every output column of the region, and the first
         block of every window starts exactly at the left edge of the region *)
      forall hsf, 1 <= hsf ->
        let '(f, l) := comp_window align x' w' hsf in
        f * align = x' * hsf /\
        forall X, x' <= X < x' + w' -> f <= (X * hsf) / align <= l
  end.
Proof.
  intros ow align x w Ha Hx. unfold crop_scanline.
  destruct ((w =? 0) || (ow <? x + w)) eqn:E1; cbv iota; [lia|].
  destruct (w =? ow) eqn:E2; cbv iota; [lia|].
  cbv zeta.
  set (x' := x / align * align).
  assert (Hx' : x' <= x /\ x - x' < align /\ 0 <= x').
  { unfold x'. pose proof (Z.mul_div_le x align Ha). pose proof (Z.mul_succ_div_gt x align Ha).
    assert (0 <= x / align) by (apply Z.div_pos; lia). nia. }
  assert (Hm : x' mod align = 0) by (unfold x'; apply Z.mod_mul; lia).
  assert (Hq : x' / align * align = x') by (unfold x'; rewrite Z.div_mul by lia; reflexivity).
  repeat match goal with |- _ /\ _ => split end; try lia.
  intros hsf Hh. unfold comp_window. split.
  - (* x' * hsf is a multiple of align *)
    unfold x'. replace (x / align * align * hsf) with ((x / align * hsf) * align) by lia.
    rewrite Z.div_mul by lia. lia.
  - intros X HX. split.
    + apply Z.div_le_mono; nia.
    + unfold jdiv_round_up.
      assert (X * hsf < (x' + (w + x - x')) * hsf) by nia.
      assert (Hlt : X * hsf / align < ((x' + (w + x - x')) * hsf + align - 1) / align).
      { apply Z.div_lt_upper_bound; [lia|].
        pose proof (Z.mul_div_le ((x' + (w + x - x')) * hsf + align - 1) align Ha).
        pose proof (Z.mod_pos_bound ((x' + (w + x - x')) * hsf + align - 1) align Ha).
        pose proof (Z.div_mod ((x' + (w + x - x')) * hsf + align - 1) align).
        pose proof (Z.mul_div_le (X * hsf) align Ha).
        nia. }
      lia.
Qed.

(* ---------- tj3SetCroppingRegion ---------- *)
Lemma tj_region_spec :
  forall jw jh num den mcuw x y w h x1 y1 w1 h1,
  tj_set_region jw jh num den mcuw x y w h = TjOk x1 y1 w1 h1 <->
  ( ~ (x = 0 /\ y = 0 /\ w = 0 /\ h = 0) /\ 0 <= x /\ 0 <= y /\ 0 <= w /\ 0 <= h /\
    x mod (tjscaled mcuw num den) = 0 /\
    x1 = x /\ y1 = y /\
    w1 = (if w =? 0 then tjscaled jw num den - x else w) /\
    h1 = (if h =? 0 then tjscaled jh num den - y else h) /\
    0 < w1 /\ 0 < h1 /\ x + w1 <= tjscaled jw num den /\ y + h1 <= tjscaled jh num den ).
Proof.
  intros. unfold tj_set_region.
  destruct ((x =? 0) && (y =? 0) && (w =? 0) && (h =? 0)) eqn:E0.
  { split; [discriminate|]. intros (Hn & _). exfalso. apply Hn. lia. }
  destruct ((x <? 0) || (y <? 0) || (w <? 0) || (h <? 0)) eqn:E1.
  { split; [discriminate|]. intros. lia. }
  destruct (negb (x mod tjscaled mcuw num den =? 0)) eqn:E2.
  { split; [discriminate|]. intros. lia. }
  set (w2 := if w =? 0 then tjscaled jw num den - x else w).
  set (h2 := if h =? 0 then tjscaled jh num den - y else h).
  destruct ((w2 <=? 0) || (h2 <=? 0) || (tjscaled jw num den <? x + w2) || (tjscaled jh num den <? y + h2)) eqn:E3.
  { split; [discriminate|]. intros (_ & _ & _ & _ & _ & _ & -> & -> & -> & -> & H1 & H2 & H3 & H4).
    fold w2 in H1, H3. fold h2 in H2, H4. lia. }
  split.
  - intros Heq. inversion Heq; subst. repeat split; try lia.
  - intros (_ & _ & _ & _ & _ & _ & -> & -> & -> & -> & _). reflexivity.
Qed.

(* an accepted TurboJPEG region is returned unchanged by jpeg_crop_scanline: the two
   "Unexplained mismatch" errors of tj3Decompress can never fire *)
Lemma tj_region_crop_agree :
  forall jw jh num den mcuw x y w h x1 y1 w1 h1 align,
  tj_set_region jw jh num den mcuw x y w h = TjOk x1 y1 w1 h1 ->
  align = tjscaled mcuw num den -> 0 < align ->
  match crop_scanline (tjscaled jw num den) align x1 w1 with
  | CropErr => False
  | CropWhole => w1 = tjscaled jw num den
  | CropOk x' w' _ _ => x' = x1 /\ w' = w1
  end.
Proof.
  intros until align. intros Hok -> Ha.
  apply tj_region_spec in Hok. destruct Hok as (_ & Hx & _ & _ & _ & Hm & -> & -> & Hw1 & _ & Hp & _ & Hle & _).
  unfold crop_scanline.
  destruct ((w1 =? 0) || (tjscaled jw num den <? x + w1)) eqn:E1; [lia|].
  destruct (w1 =? tjscaled jw num den) eqn:E2; [lia|].
  assert (x / tjscaled mcuw num den * tjscaled mcuw num den = x).
  { pose proof (Z.div_mod x (tjscaled mcuw num den)). lia. }
  lia.
Qed.

(* the scaled iMCU width TurboJPEG checks against equals libjpeg's alignment min_DCT_scaled_size * max_h_samp_factor *)
Lemma tj_align_is_crop_align :
  forall num den M hmax, 0 < den -> 8 * num = M * den -> (den = 1 \/ den = 2 \/ den = 4 \/ den = 8) -> 0 <= hmax ->
  tjscaled (8 * hmax) num den = M * hmax.
Proof.
  intros num den M hmax Hd He Hden Hh.
  rewrite <- (scale_arith (8 * hmax) num den M) by lia.
  unfold jdiv_round_up. lia.
Qed.
