(* C05 -- reduced-size 2x2 inverse DCT: inside the boundary c2_ok (dequantised coefficients and the odd workspace
   values fit a short, every dword lane fits 32 bits, results within [-512, 511]) the SSE2 kernel equals
   jpeg_idct_2x2 for ALL coefficient blocks and multiplier tables, incl. the zero-AC shortcuts of the C code. *)
From Coq Require Import List ZArith Lia Bool ZifyBool.
From LJT Require Import lib.Words gen.GenSimdConst model.SimdDct model.SimdIdctFast model.SimdFdctInt model.SimdIdctInt model.SimdIdctRed
  proofs.SimdDctProofs proofs.SimdIdctFastProofs proofs.SimdFdctIntProofs proofs.SimdIdctIntProofs.
Import ListNotations.
Local Open Scope Z_scope.

Definition f32 (v : Z) : Prop := -2147483648 <= v < 2147483648.
Lemma f32_of_b v : fits32b v = true -> f32 v. Proof. unfold fits32b, f32. lia. Qed.
Lemma r2_consts :
  c_jidctred_CONST_BITS = 13 /\ jidctred_sse2_CONST_BITS = 13 /\ jidctred_sse2_PASS1_BITS = 2 /\
  jidctred_sse2_DESCALE_P1_2 = 13 /\ jidctred_sse2_DESCALE_P2_2 = 20 /\
  rd32 jidctred_sse2_PD_DESCALE_P1_2 = w32 (2 ^ (13 - 1)) /\ rd32 jidctred_sse2_PD_DESCALE_P2_2 = w32 (2 ^ (20 - 1)) /\
  nth 0 (snd jidctred_sse2_PB_CENTERJSAMP) 0 = 128 /\
  (nth 0 (snd jidctred_sse2_PW_F362_MF127) 0 = c_jidctred_FIX_3_624509785 /\ nth 1 (snd jidctred_sse2_PW_F362_MF127) 0 = - c_jidctred_FIX_1_272758580 /\
   nth 0 (snd jidctred_sse2_PW_F085_MF072) 0 = c_jidctred_FIX_0_850430095 /\ nth 1 (snd jidctred_sse2_PW_F085_MF072) 0 = - c_jidctred_FIX_0_720959822) /\
  (c_jidctred_FIX_3_624509785 = 29692 /\ c_jidctred_FIX_1_272758580 = 10426 /\ c_jidctred_FIX_0_850430095 = 6967 /\ c_jidctred_FIX_0_720959822 = 5906).
Proof. vm_compute. repeat split; reflexivity. Qed.

Lemma hi_shift1 t : f16 t -> psrad (dword_hi (w16 t)) 1 = w32 (t * 32768).
Proof.
  unfold f16. intros H. unfold psrad, dword_hi. change (2 ^ 1) with 2. f_equal.
  assert (E : s32 (w16 t * 65536) = t * 65536).
  { unfold s32, w16. destruct (Z_lt_le_dec t 0).
    - replace (t mod 65536) with (t + 65536) by (apply Z.mod_unique with (q := -1); lia).
      replace ((t + 65536) * 65536 + 2147483648) with (t * 65536 + 2147483648 + 1 * 4294967296) by lia.
      rewrite Z.mod_add by lia. rewrite Z.mod_small by lia. lia.
    - rewrite (Z.mod_small t) by lia. rewrite Z.mod_small by lia. lia. }
  rewrite E. replace (t * 65536) with (t * 32768 * 2) by lia. apply Z.div_mul. lia.
Qed.
Lemma desc32 X rnd n : 1 <= n <= 24 -> rd32 rnd = w32 (2 ^ (n - 1)) -> f32 (X + 2 ^ (n - 1)) ->
  a2_desc (w32 X) rnd n = w32 (c_descale X n).
Proof.
  unfold f32. intros Hn Hr H. unfold a2_desc. rewrite Hr, paddd_w. unfold psrad. rewrite s32_w32 by lia.
  unfold c_descale. rewrite Z.shiftr_div_pow2 by lia. reflexivity.
Qed.
Lemma packssdw_w v : f16 v -> packssdw (w32 v) = w16 v.
Proof.
  unfold f16. intros H. unfold packssdw. rewrite s32_w32 by lia.
  destruct (v <? -32768) eqn:?; [lia|]. destruct (32767 <? v) eqn:?; [lia|]. reflexivity.
Qed.
Lemma pslld_w v n : 0 <= n -> pslld (w32 v) n = w32 (v * 2 ^ n).
Proof. intros. unfold pslld, w32. rewrite Zmult_mod_idemp_l. reflexivity. Qed.

(* tmp10 +- tmp0 on dword lanes *)
Lemma a2_wide_eq z0' z1 z3 z5 z7 T : f16 z1 -> f16 z3 -> f16 z5 -> f16 z7 ->
  a2_wide z0' (w16 z1) (w16 z3) (w16 z5) (w16 z7) (w32 T) = (w32 (T + c2_tmp0 z1 z3 z5 z7), w32 (T - c2_tmp0 z1 z3 z5 z7)).
Proof.
  intros H1 H3 H5 H7. destruct r2_consts as (_ & _ & _ & _ & _ & _ & _ & _ & (R1 & R2 & R3 & R4) & (N1 & N2 & N3 & N4)).
  unfold a2_wide. rewrite !maddi_eq by (assumption || (vm_compute; split; congruence)).
  rewrite !paddd_w, psubd_w. rewrite R1, R2, R3, R4. unfold c2_tmp0. f_equal; f_equal; lia.
Qed.

(* pass 1, one column *)
Lemma col2_eq coef q c :
  let d r := at8 coef r c * at8 q r c in
  Forall f16 [d 0%nat; d 1%nat; d 3%nat; d 5%nat; d 7%nat] ->
  (let '(a, b) := c2_wide (d 0%nat) (d 1%nat) (d 3%nat) (d 5%nat) (d 7%nat) in f32 (a + 4096) /\ f32 (b + 4096)) ->
  a2_col coef q c = (w32 (fst (c2_col coef q c)), w32 (snd (c2_col coef q c))).
Proof.
  intros d Hd H32. fits_all.
  destruct r2_consts as (Hcb & Hab & Hp & Hn1 & _ & Hr1 & _).
  assert (HC : c2_col coef q c = (c_descale (fst (c2_wide (d 0%nat) (d 1%nat) (d 3%nat) (d 5%nat) (d 7%nat))) 13,
                                  c_descale (snd (c2_wide (d 0%nat) (d 1%nat) (d 3%nat) (d 5%nat) (d 7%nat))) 13)).
  { unfold c2_col. fold d. rewrite Hcb, Hp. change (13 - 2 + 2) with 13.
    destruct ((at8 coef 1 c =? 0) && (at8 coef 3 c =? 0) && (at8 coef 5 c =? 0) && (at8 coef 7 c =? 0)) eqn:Ez.
    - repeat (apply andb_prop in Ez; destruct Ez as [Ez ?]).
      assert (Z1 : d 1%nat = 0) by (unfold d; nia). assert (Z3 : d 3%nat = 0) by (unfold d; nia).
      assert (Z5 : d 5%nat = 0) by (unfold d; nia). assert (Z7 : d 7%nat = 0) by (unfold d; nia).
      rewrite Z1, Z3, Z5, Z7. unfold c2_wide, c2_tmp0. rewrite Hcb. cbn [fst snd]. change (2 ^ (13 + 2)) with 32768. change (2 ^ 2) with 4.
      unfold c_descale. rewrite !Z.shiftr_div_pow2 by lia. change (2 ^ (13 - 1)) with 4096. change (2 ^ 13) with 8192.
      assert (E : forall x, (x * 32768 + 4096) / 8192 = x * 4) by (intros x; replace (x * 32768 + 4096) with (4096 + x * 4 * 8192) by lia; rewrite Z.div_add by lia; reflexivity).
      rewrite !Z.mul_0_l, !Z.add_0_r, Z.sub_0_r. rewrite E. reflexivity.
    - clear H32. unfold d. destruct (c2_wide _ _ _ _ _). reflexivity. }
  rewrite HC. cbn [fst snd].
  unfold a2_col. rewrite !pmullw_w16. fold (d 0%nat) (d 1%nat) (d 3%nat) (d 5%nat) (d 7%nat).
  rewrite Hab. change (16 - 13 - 2) with 1. rewrite hi_shift1 by assumption.
  rewrite a2_wide_eq by assumption.
  unfold c2_wide in *. rewrite Hcb in *. change (2 ^ (13 + 2)) with 32768 in *. cbn [fst snd]. destruct H32 as [Ha Hb].
  rewrite Hn1. rewrite !(desc32 _ jidctred_sse2_PD_DESCALE_P1_2 13) by (try lia; try exact Hr1; change (2 ^ (13 - 1)) with 4096; assumption).
  reflexivity.
Qed.

(* pass 2, one row *)
Lemma row2_eq w0 w1 w3 w5 w7 : f16 w1 -> f16 w3 -> f16 w5 -> f16 w7 -> f32 (w0 * 32768) ->
  (let '(a, b) := c2_wide w0 w1 w3 w5 w7 in
   (f32 (a + 524288) /\ -512 <= c_descale a 20 < 512) /\ (f32 (b + 524288) /\ -512 <= c_descale b 20 < 512)) ->
  a2_row (map w32 [w0; w1; w3; w5; w7]) = c2_row [w0; w1; w3; w5; w7].
Proof.
  intros H1 H3 H5 H7 H0 Hf.
  destruct r2_consts as (Hcb & Hab & Hp & _ & Hn2 & _ & Hr2 & H128 & _).
  assert (HC : c2_row [w0; w1; w3; w5; w7] = [idct_range_limit (c_descale (fst (c2_wide w0 w1 w3 w5 w7)) 20);
                                               idct_range_limit (c_descale (snd (c2_wide w0 w1 w3 w5 w7)) 20)]).
  { unfold c2_row. rewrite Hcb, Hp. change (13 + 2 + 3 + 2) with 20. change (2 + 3) with 5.
    destruct ((w1 =? 0) && (w3 =? 0) && (w5 =? 0) && (w7 =? 0)) eqn:Ez.
    - repeat (apply andb_prop in Ez; destruct Ez as [Ez ?]).
      assert (w1 = 0) by lia. assert (w3 = 0) by lia. assert (w5 = 0) by lia. assert (w7 = 0) by lia. subst w1 w3 w5 w7.
      unfold c2_wide, c2_tmp0. rewrite Hcb. cbn [fst snd]. change (2 ^ (13 + 2)) with 32768.
      rewrite !Z.mul_0_l, !Z.add_0_r, Z.sub_0_r.
      assert (E : c_descale (w0 * 32768) 20 = c_descale w0 5).
      { unfold c_descale. rewrite !Z.shiftr_div_pow2 by lia. change (2 ^ (20 - 1)) with 524288. change (2 ^ 20) with (32 * 32768).
        change (2 ^ (5 - 1)) with 16. change (2 ^ 5) with 32.
        replace (w0 * 32768 + 524288) with ((w0 + 16) * 32768) by lia. apply Z.div_mul_cancel_r; lia. }
      rewrite E. reflexivity.
    - destruct (c2_wide w0 w1 w3 w5 w7). reflexivity. }
  rewrite HC. cbn [map a2_row]. rewrite !packssdw_w by assumption. rewrite Hab. change (13 + 2) with 15.
  rewrite pslld_w by lia. change (2 ^ 15) with 32768. rewrite a2_wide_eq by assumption.
  unfold c2_wide in *. rewrite Hcb in *. change (2 ^ (13 + 2)) with 32768 in *. cbn [fst snd].
  destruct Hf as [[Ha Va] [Hb Vb]].
  assert (Fin : forall X, f32 (X + 524288) -> -512 <= c_descale X 20 < 512 -> a2_final (w32 X) = idct_range_limit (c_descale X 20)).
  { intros X HX HV. unfold a2_final. rewrite Hn2, H128.
    change (packssdw (a2_desc (w32 X) jidctred_sse2_PD_DESCALE_P2_2 20)) with (pack_desc (w32 X) (rd32 jidctred_sse2_PD_DESCALE_P2_2) 20).
    rewrite Hr2. rewrite (pack_desc_eq X 20); [apply clamp_rl; assumption | lia | unfold f32 in HX; change (2 ^ (20 - 1)) with 524288; lia | unfold f16; lia]. }
  rewrite !Fin by assumption. reflexivity.
Qed.

Lemma col2_b coef q c :
  forallb fits16b (map (fun r => at8 coef r c * at8 q r c) used) = true ->
  (let '(a, b) := c2_wide (at8 coef 0 c * at8 q 0 c) (at8 coef 1 c * at8 q 1 c) (at8 coef 3 c * at8 q 3 c)
                          (at8 coef 5 c * at8 q 5 c) (at8 coef 7 c * at8 q 7 c) in
   forallb (fun s => fits32b s && fits32b (s + 4096)) [a; b]) = true ->
  a2_col coef q c = (w32 (fst (c2_col coef q c)), w32 (snd (c2_col coef q c))).
Proof.
  intros H16 H32. apply col2_eq.
  - apply forallb_f16 in H16. exact H16.
  - destruct (c2_wide _ _ _ _ _). cbn [forallb] in H32.
    repeat (apply andb_prop in H32; destruct H32 as [H32 ?]). repeat match goal with H : _ && _ = true |- _ => apply andb_prop in H; destruct H end.
    split; apply f32_of_b; assumption.
Qed.

Lemma row2_b w0 w1 w3 w5 w7 :
  (forallb fits16b [w1; w3; w5; w7] && fits32b w0 && fits32b (w0 * 2 ^ (c_jidctred_CONST_BITS + 2)) &&
   (let '(a, b) := c2_wide w0 w1 w3 w5 w7 in
    forallb (fun s => fits32b s && fits32b (s + 524288) &&
                      (let v := c_descale s (c_jidctred_CONST_BITS + jidctred_sse2_PASS1_BITS + 3 + 2) in (-512 <=? v) && (v <? 512))) [a; b])) = true ->
  a2_row (map w32 [w0; w1; w3; w5; w7]) = c2_row [w0; w1; w3; w5; w7].
Proof.
  intros H. destruct r2_consts as (Hcb & _ & Hp & _).
  rewrite Hcb, Hp in H. change (13 + 2 + 3 + 2) with 20 in H. change (2 ^ (13 + 2)) with 32768 in H.
  apply andb_prop in H; destruct H as [H Hw]. apply andb_prop in H; destruct H as [H H0s]. apply andb_prop in H; destruct H as [H16 H0].
  apply forallb_f16 in H16. fits_all.
  apply row2_eq; try assumption; [apply f32_of_b; assumption|].
  destruct (c2_wide _ _ _ _ _). cbn [forallb] in Hw.
  repeat match goal with H : _ && _ = true |- _ => apply andb_prop in H; destruct H end.
  repeat split; try (apply f32_of_b; assumption); lia.
Qed.

Theorem idct_2x2_eq_partial coef q : c2_ok coef q = true -> asm_idct_2x2 coef q = c_idct_2x2 coef q.
Proof.
  intros Hok. unfold c2_ok in Hok.
  apply andb_prop in Hok; destruct Hok as [Hok R2]. apply andb_prop in Hok; destruct Hok as [Hok R1].
  apply andb_prop in Hok; destruct Hok as [C16 C32].
  rewrite forallb_forall in C16, C32.
  assert (HC : forall c, In c used -> a2_col coef q c = (w32 (fst (c2_col coef q c)), w32 (snd (c2_col coef q c)))).
  { intros c Hc. apply col2_b; [exact (C16 c Hc) | exact (C32 c Hc)]. }
  unfold asm_idct_2x2, c_idct_2x2. unfold used in *. cbn [map] in *.
  rewrite (HC 0%nat), (HC 1%nat), (HC 3%nat), (HC 5%nat), (HC 7%nat) by (cbn; tauto).
  cbn [fst snd].
  apply row2_b in R1. apply row2_b in R2. cbn [map] in R1, R2. rewrite R1, R2. reflexivity.
Qed.
Print Assumptions idct_2x2_eq_partial.

Lemma idct_2x2_nonvacuous :
  let coef := [240; -31; 12; 0; 5; 0; 0; 0;  17; 9; 0; 0; 0; 0; 0; 0;  -8; 0; 3; 0; 0; 0; 0; 0] ++ repeat 0 40 in
  let q := map (fun i => 2 + i mod 7) (map Z.of_nat (seq 0 64)) in
  c2_ok coef q = true /\ asm_idct_2x2 coef q = c_idct_2x2 coef q /\ List.length (c_idct_2x2 coef q) = 4%nat /\
  c2_ok (repeat 1000 64) (repeat 40 64) = false /\
  asm_idct_2x2 (repeat 1000 64) (repeat 40 64) <> c_idct_2x2 (repeat 1000 64) (repeat 40 64).
Proof. vm_compute. repeat split; congruence. Qed.
