(* C17: at every SOS the DRI in force equals the interval the scan uses, for every sequence of per-scan
   intervals; the raw-data caller loop encodes every iMCU row of the image. *)
From Coq Require Import List ZArith Bool Lia ZifyBool.
From LJT Require Import model.Huff gen.GenParams model.CParams model.CRestart.
Import ListNotations.
Local Open Scope Z_scope.

Theorem dri_in_force_lemma : forall intervals last, dri_run last last intervals = true.
Proof.
  induction intervals as [|ri r IH]; intro last; cbn [dri_run]; [reflexivity|].
  unfold dri_step. change (g_DRI_RULE =? 1) with true. cbv iota.
  destruct (ri =? last) eqn:E; cbn [negb].
  - apply andb_true_intro. split; [lia|]. apply IH.
  - apply andb_true_intro. split; [lia|]. apply IH.
Qed.

Lemma jdiv_step a l : 0 < l -> (a + l - 1) / l = (a - l + l - 1) / l + 1.
Proof. intro H. replace (a + l - 1) with ((a - l + l - 1) + 1 * l) by lia. rewrite Z.div_add by lia. reflexivity. Qed.

Lemma raw_loop_spec lines num_lines height : 0 < lines ->
  forall fuel next, - lines < height - next -> height - next < Z.of_nat fuel ->
  raw_loop fuel next height lines num_lines = Some (jdiv_round_up (height - next) lines).
Proof.
  intros Hl fuel. induction fuel as [|fuel IH]; intros next Hlo Hf.
  - cbn [raw_loop]. replace (next >=? height) with true by lia. f_equal. unfold jdiv_round_up.
    symmetry. apply Z.div_small. lia.
  - cbn [raw_loop]. destruct (next >=? height) eqn:E.
    + f_equal. unfold jdiv_round_up. symmetry. apply Z.div_small. lia.
    + change (g_RAW_ADVANCE =? 1) with true. cbv iota.
      rewrite IH by lia. f_equal. unfold jdiv_round_up.
      replace (height - (next + lines)) with (height - next - lines) by lia. symmetry. apply jdiv_step. exact Hl.
Qed.

(* every iMCU row of the image is encoded, whatever num_lines >= lines_per_iMCU_row the caller offers *)
Theorem raw_rows_complete_lemma : forall height lines num_lines, 1 <= height -> 0 < lines ->
  raw_loop (Z.to_nat height + 1) 0 height lines num_lines = Some (jdiv_round_up height lines).
Proof.
  intros height lines num_lines Hh Hl.
  rewrite (raw_loop_spec lines num_lines height Hl) by lia. f_equal. f_equal. lia.
Qed.

Example dri_example : dri_run 0 0 [4; 8; 4; 4; 0; 65535] = true.
Proof. vm_compute. reflexivity. Qed.
