(* LosslessProofs.v -- the lossless codec model (model/Lossless.v) reproduces
   every sample: row level, image level with restart rows, difference coding,
   point transform.  All row lengths / row counts unbounded (induction). *)
From Coq Require Import List ZArith Lia Bool ZifyBool.
From LJT Require Import lib.Sweep model.Huff model.Lossless.
Import ListNotations.
Local Open Scope Z_scope.
Ltac Zify.zify_post_hook ::= Z.div_mod_to_equations.

(* ------------------------------------------------------------ arithmetic *)
Lemma and16_mod x : and16 x = x mod 65536.
Proof. unfold and16. change 65535 with (Z.ones 16). rewrite Z.land_ones by lia. reflexivity. Qed.

Definition eqm16 (a b : Z) : Prop := a mod 65536 = b mod 65536.
Definition in16 (s : Z) : Prop := 0 <= s < 65536.

Lemma eqm16_refl a : eqm16 a a.
Proof. reflexivity. Qed.

(* the whole content of reconstruction: adding the same predictor back and
   reducing modulo 2^16 returns the sample *)
Lemma and16_undo d s p : eqm16 d (s - p) -> in16 s -> and16 (d + p) = s.
Proof.
  unfold eqm16, in16. intros H Hs. rewrite and16_mod.
  rewrite <- Z.add_mod_idemp_l by lia. rewrite H.
  rewrite Z.add_mod_idemp_l by lia. replace (s - p + p) with s by lia.
  apply Z.mod_small. lia.
Qed.

(* ------------------------------------------------------------- row level *)
Lemma undiff1d_loop_correct : forall cur Ra ds,
  Forall in16 cur -> Forall2 eqm16 ds (diff1d_loop Ra cur) -> undiff1d_loop Ra ds = cur.
Proof.
  induction cur as [|s t IH]; intros Ra ds Hc H; cbn [diff1d_loop] in H.
  - inversion H. reflexivity.
  - inversion H as [|d x dt xt Hd Ht]; subst. inversion Hc; subst.
    cbn [undiff1d_loop]. rewrite (and16_undo d s Ra) by assumption.
    f_equal. apply IH; assumption.
Qed.

Lemma undifference_1d_correct init cur ds :
  Forall in16 cur -> Forall2 eqm16 ds (difference_1d init cur) -> undifference_1d init ds = cur.
Proof.
  destruct cur as [|s t]; intros Hc H; cbn [difference_1d] in H.
  - inversion H. reflexivity.
  - inversion H as [|d x dt xt Hd Ht]; subst. inversion Hc; subst.
    cbn [undifference_1d]. rewrite (and16_undo d s init) by assumption.
    f_equal. apply undiff1d_loop_correct; assumption.
Qed.

Lemma undiff2d_loop_correct psv : forall cur prev Ra Rb ds,
  Forall in16 cur -> (length cur <= length prev)%nat ->
  Forall2 eqm16 ds (diff2d_loop psv Ra Rb prev cur) -> undiff2d_loop psv Ra Rb prev ds = cur.
Proof.
  induction cur as [|s t IH]; intros prev Ra Rb ds Hc Hl H.
  - cbn [diff2d_loop] in H. inversion H. reflexivity.
  - destruct prev as [|b pt]; [cbn in Hl; lia|].
    cbn [diff2d_loop] in H. inversion H as [|d x dt xt Hd Ht]; subst. inversion Hc; subst.
    cbn [undiff2d_loop]. rewrite (and16_undo d s _) by assumption.
    f_equal. apply IH; try assumption. cbn in Hl. lia.
Qed.

Lemma undifference_2d_correct psv prev cur ds :
  Forall in16 cur -> (length cur <= length prev)%nat ->
  Forall2 eqm16 ds (difference_2d psv prev cur) -> undifference_2d psv prev ds = cur.
Proof.
  intros Hc Hl H. destruct cur as [|s t].
  - destruct prev; cbn [difference_2d] in H; inversion H; reflexivity.
  - destruct prev as [|b pt]; [cbn in Hl; lia|].
    cbn [difference_2d] in H. inversion H as [|d x dt xt Hd Ht]; subst. inversion Hc; subst.
    cbn [undifference_2d]. rewrite (and16_undo d s b) by assumption.
    f_equal. apply undiff2d_loop_correct; try assumption. cbn in Hl. lia.
Qed.

(* (1) any predictor, first or later row, differences known only modulo 2^16 *)
Theorem undiff_diff_row_gen first psv prec pt prev cur ds :
  Forall in16 cur ->
  (first = false -> (length cur <= length prev)%nat) ->
  Forall2 eqm16 ds (diff_fn first psv prec pt prev cur) ->
  undiff_fn first psv prec pt prev ds = cur.
Proof.
  intros Hc Hl H. unfold undiff_fn, diff_fn in *. destruct first.
  - apply undifference_1d_correct; assumption.
  - destruct (psv =? 1).
    + apply undifference_1d_correct; assumption.
    + apply undifference_2d_correct; auto.
Qed.

Lemma Forall2_eqm16_refl l : Forall2 eqm16 l l.
Proof. induction l; constructor; auto. reflexivity. Qed.

Theorem undiff_diff_row first psv prec pt prev cur :
  Forall in16 cur ->
  (first = false -> (length cur <= length prev)%nat) ->
  undiff_fn first psv prec pt prev (diff_fn first psv prec pt prev cur) = cur.
Proof. intros. apply undiff_diff_row_gen; auto. apply Forall2_eqm16_refl. Qed.

(* ------------------------------------------------------- point transform *)
Lemma cast_sample_small bits x : (bits = 8 \/ bits = 12 \/ bits = 16) ->
  0 <= x < 2 ^ bits -> cast_sample bits x = x.
Proof.
  intros [ -> | [ -> | -> ] ] H; unfold cast_sample; cbn [Z.eqb Pos.eqb]; change (2 ^ 8) with 256 in *;
    change (2 ^ 12) with 4096 in *; change (2 ^ 16) with 65536 in *; lia.
Qed.

Lemma bits_of_prec_cases prec : bits_of_prec prec = 8 \/ bits_of_prec prec = 12 \/ bits_of_prec prec = 16.
Proof. unfold bits_of_prec. destruct (prec <=? 8); auto. destruct (prec <=? 12); auto. Qed.

Lemma pow2_le_bits prec : 2 <= prec <= 16 -> 2 ^ prec <= 2 ^ bits_of_prec prec.
Proof.
  intros H. apply Z.pow_le_mono_r; [lia|]. unfold bits_of_prec.
  destruct (prec <=? 8) eqn:?; [lia|]. destruct (prec <=? 12) eqn:?; lia.
Qed.

Definition in_prec (prec s : Z) : Prop := 0 <= s < 2 ^ prec.

Lemma shiftr_range prec pt s : 0 <= pt < prec -> in_prec prec s ->
  0 <= Z.shiftr s pt < 2 ^ (prec - pt).
Proof.
  unfold in_prec. intros Hp Hs. rewrite Z.shiftr_div_pow2 by lia.
  assert (0 < 2 ^ pt) by (apply Z.pow_pos_nonneg; lia).
  split; [apply Z.div_pos; lia|].
  apply Z.div_lt_upper_bound; [lia|]. rewrite <- Z.pow_add_r by lia.
  replace (pt + (prec - pt)) with prec by lia. lia.
Qed.

Lemma pow2_mono a b : 0 <= a <= b -> 2 ^ a <= 2 ^ b.
Proof. intros. apply Z.pow_le_mono_r; lia. Qed.

Lemma clear_low_range prec pt s : 0 <= pt < prec -> in_prec prec s -> 0 <= clear_low pt s < 2 ^ prec.
Proof.
  intros Hp Hs. unfold clear_low. pose proof (shiftr_range prec pt s Hp Hs) as H.
  rewrite Z.shiftl_mul_pow2 by lia.
  assert (0 < 2 ^ pt) by (apply Z.pow_pos_nonneg; lia).
  assert (E : 2 ^ prec = 2 ^ (prec - pt) * 2 ^ pt).
  { rewrite <- Z.pow_add_r by lia. f_equal. lia. }
  rewrite E. split; [nia|]. apply Z.mul_lt_mono_pos_r; lia.
Qed.

(* the downscaled samples are what the differencer sees: they are < 2^(P-Pt) *)
Lemma scale_down_spec prec pt row : 2 <= prec <= 16 -> 0 <= pt < prec ->
  Forall (in_prec prec) row ->
  scale_down (bits_of_prec prec) pt row = map (fun s => Z.shiftr s pt) row /\
  Forall (fun x => 0 <= x < 2 ^ (prec - pt)) (scale_down (bits_of_prec prec) pt row).
Proof.
  intros Hp Hpt Hr. unfold scale_down. destruct (pt =? 0) eqn:E.
  - assert (pt = 0) by lia. subst pt. split.
    + rewrite <- (map_id row) at 1. apply map_ext. intros. rewrite Z.shiftr_0_r. reflexivity.
    + rewrite Z.sub_0_r. exact Hr.
  - assert (M : map (fun s => cast_sample (bits_of_prec prec) (RIGHT_SHIFT s pt)) row =
                map (fun s => Z.shiftr s pt) row).
    { apply map_ext_in. intros s Hs. rewrite Forall_forall in Hr. specialize (Hr s Hs).
      unfold RIGHT_SHIFT. apply cast_sample_small; [apply bits_of_prec_cases|].
      pose proof (shiftr_range prec pt s Hpt Hr). pose proof (pow2_le_bits prec Hp).
      pose proof (pow2_mono (prec - pt) prec). lia. }
    split; [exact M|]. rewrite M. rewrite Forall_forall in *. intros x Hx.
    apply in_map_iff in Hx. destruct Hx as [s [<- Hs]]. apply shiftr_range; auto.
Qed.

(* (4) what comes out for an undifferenced row equal to the downscaled row *)
Lemma scale_up_down prec pt row : 2 <= prec <= 16 -> 0 <= pt < prec ->
  Forall (in_prec prec) row ->
  scale_up (bits_of_prec prec) pt (scale_down (bits_of_prec prec) pt row) = map (clear_low pt) row.
Proof.
  intros Hp Hpt Hr. destruct (scale_down_spec prec pt row Hp Hpt Hr) as [E _]. rewrite E.
  unfold scale_up. destruct (pt =? 0) eqn:E0; rewrite map_map; apply map_ext_in; intros s Hs;
    rewrite Forall_forall in Hr; specialize (Hr s Hs);
    pose proof (clear_low_range prec pt s Hpt Hr) as Hc; pose proof (pow2_le_bits prec Hp);
    unfold clear_low in *.
  - assert (pt = 0) by lia. subst pt. rewrite Z.shiftl_0_r in *.
    apply cast_sample_small; [apply bits_of_prec_cases|lia].
  - apply cast_sample_small; [apply bits_of_prec_cases|lia].
Qed.

Lemma clear_low_0 s : clear_low 0 s = s.
Proof. unfold clear_low. rewrite Z.shiftr_0_r, Z.shiftl_0_r. reflexivity. Qed.

(* ------------------------------------------- image level, restart rows *)
(* encoder state / decoder state before the same row *)
Definition states_agree (ri mpr : Z) (se sd : lstate) : Prop :=
  if ri =? 0 then fst se = fst sd
  else 1 <= snd se <= ri / mpr /\
       ((sd = se) \/ (snd sd = 0 /\ se = (true, ri / mpr))).

Definition restart_ok (ri mpr : Z) : Prop :=
  ri = 0 \/ (0 < mpr /\ 0 < ri < 4294967296 /\ ri mod mpr = 0).

Lemma restart_rows_pos ri mpr : 0 < mpr -> 0 < ri -> ri mod mpr = 0 -> 1 <= ri / mpr <= ri.
Proof. intros. nia. Qed.

(* (restart_resets_agree) both sides pick the first-row predictor on the same
   rows, and the agreement is preserved by one row *)
Lemma states_agree_step ri mpr psv se sd :
  restart_ok ri mpr -> states_agree ri mpr se sd ->
  fst (dec_before_row ri mpr sd) = fst se /\
  states_agree ri mpr (enc_after_row ri mpr psv se)
               (after_first_row (fst (dec_before_row ri mpr sd)) psv, snd (dec_before_row ri mpr sd)).
Proof.
  intros Hr Ha. unfold states_agree, dec_before_row, enc_after_row, reset_predictor in *.
  destruct (ri =? 0) eqn:E.
  - cbn [negb andb fst snd]. split; [auto|]. cbn [fst]. rewrite Ha. reflexivity.
  - destruct Hr as [Hr|(Hm & Hri & Hd)]; [lia|].
    pose proof (restart_rows_pos ri mpr Hm ltac:(lia) Hd) as HR.
    destruct Ha as [Hb Ha]. cbn [negb andb].
    assert (S1 : (if snd sd =? 0 then (true, ri / mpr) else sd) = se).
    { destruct Ha as [->|[H0 ->]]; [|rewrite H0; reflexivity].
      destruct (snd se =? 0) eqn:?; [lia|reflexivity]. }
    rewrite S1. cbn [fst snd]. split; [reflexivity|].
    assert (U : u32 (snd se - 1) = snd se - 1) by (unfold u32; apply Z.mod_small; lia).
    rewrite U. destruct (snd se - 1 =? 0) eqn:E1.
    + cbn [fst snd]. split; [lia|]. right. split; [lia|reflexivity].
    + cbn [fst snd]. split; [lia|]. left. reflexivity.
Qed.

Lemma states_agree_init ri mpr : restart_ok ri mpr ->
  states_agree ri mpr (reset_predictor ri mpr) (true, ri / mpr).
Proof.
  intros Hr. unfold states_agree, reset_predictor. destruct (ri =? 0) eqn:E; [reflexivity|].
  destruct Hr as [Hr|(Hm & Hri & Hd)]; [lia|].
  pose proof (restart_rows_pos ri mpr Hm ltac:(lia) Hd). cbn [fst snd]. split; [lia|]. left. reflexivity.
Qed.

Definition rows_ok (prec : Z) (w : nat) (rows : list (list Z)) : Prop :=
  Forall (fun r => length r = w /\ Forall (in_prec prec) r) rows.

Lemma in_prec_in16 prec pt x : 2 <= prec <= 16 -> 0 <= pt < prec -> 0 <= x < 2 ^ (prec - pt) -> in16 x.
Proof.
  intros Hp Hpt Hx. unfold in16. pose proof (pow2_mono (prec - pt) 16). change (2 ^ 16) with 65536 in *. lia.
Qed.

Lemma scale_down_length bits pt row : length (scale_down bits pt row) = length row.
Proof. unfold scale_down. destruct (pt =? 0); [reflexivity|apply map_length]. Qed.

(* (2) main induction: any number of rows, restart resets anywhere, the
   decoder being given differences that are only congruent modulo 2^16 *)
Lemma dec_enc_rows ri mpr psv prec pt w :
  2 <= prec <= 16 -> 0 <= pt < prec -> restart_ok ri mpr ->
  forall rows se sd prev_e prev_d ds,
  rows_ok prec w rows ->
  states_agree ri mpr se sd ->
  (fst se = false -> prev_d = prev_e /\ length prev_e = w) ->
  Forall2 (Forall2 eqm16) ds (enc_rows ri mpr psv prec pt se prev_e rows) ->
  dec_rows ri mpr psv prec pt sd prev_d ds = map (map (clear_low pt)) rows.
Proof.
  intros Hp Hpt Hr. induction rows as [|r t IH]; intros se sd prev_e prev_d ds Hrows Ha Hprev H.
  - cbn [enc_rows] in H. inversion H. reflexivity.
  - cbn [enc_rows] in H. inversion H as [|d x dt xt Hd Ht]; subst. clear H.
    inversion Hrows as [|? ? [Hlen Hsamp] Hrest]; subst.
    destruct (states_agree_step ri mpr psv se sd Hr Ha) as [Hf Ha'].
    destruct (scale_down_spec prec pt r Hp Hpt Hsamp) as [_ Hrange].
    set (cur := scale_down (bits_of_prec prec) pt r) in *.
    cbn [dec_rows]. rewrite Hf.
    assert (Hu : undiff_fn (fst se) psv prec pt prev_d d = cur).
    { destruct (fst se) eqn:Ef.
      - apply undiff_diff_row_gen with (prev := prev_d); [| intros; discriminate |].
        + eapply Forall_impl; [|exact Hrange]. intros a. apply in_prec_in16; assumption.
        + unfold diff_fn in *. exact Hd.
      - destruct (Hprev eq_refl) as [-> Hl].
        apply undiff_diff_row_gen; [| |exact Hd].
        + eapply Forall_impl; [|exact Hrange]. intros a. apply in_prec_in16; assumption.
        + intros _. unfold cur. rewrite scale_down_length. lia. }
    rewrite Hu. cbn [map]. f_equal.
    + unfold cur. apply scale_up_down; assumption.
    + rewrite Hf in Ha'.
      apply IH with (se := enc_after_row ri mpr psv se) (prev_e := cur); [exact Hrest|exact Ha'| |exact Ht].
      intros _. split; [reflexivity|]. unfold cur. rewrite scale_down_length. reflexivity.
Qed.

Lemma params_ok_spec psv prec pt : params_ok psv prec pt = true <-> (1 <= psv <= 7 /\ 0 <= pt < prec).
Proof. unfold params_ok, psv_ok. lia. Qed.

Lemma canon_rows_eqm ds : (forall d, eqm16 (canon_diff d) d) ->
  Forall2 (Forall2 eqm16) (map (map canon_diff) ds) ds.
Proof.
  intros Hc. induction ds as [|r t IH]; constructor; [|exact IH].
  induction r; constructor; auto.
Qed.

(* --------------------------------------------------- difference coding *)
Lemma nbits_pos_log2' p : nbits_pos p = Z.log2 (Zpos p) + 1.
Proof.
  induction p as [q IH|q IH|]; cbn [nbits_pos].
  - rewrite IH. replace (Zpos q~1) with (2 * Zpos q + 1) by lia.
    rewrite Z.log2_succ_double by lia. lia.
  - rewrite IH. replace (Zpos q~0) with (2 * Zpos q) by lia.
    rewrite Z.log2_double by lia. lia.
  - reflexivity.
Qed.

(* the encoder only looks at the difference modulo 2^16 *)
Lemma land_low16 d m : Z.land 65535 m = m -> Z.land (d mod 65536) m = Z.land d m.
Proof.
  intros H. change 65536 with (2 ^ 16). rewrite <- Z.land_ones by lia.
  rewrite <- Z.land_assoc. change (Z.ones 16) with 65535. rewrite H. reflexivity.
Qed.

Lemma encode_diff_mod d : encode_diff (d mod 65536) = encode_diff d.
Proof.
  unfold encode_diff. rewrite (land_low16 d 32768) by reflexivity.
  rewrite (land_low16 d 32767) by reflexivity.
  assert (E : Z.land (- (d mod 65536)) 32767 = Z.land (- d) 32767).
  { change 32767 with (Z.ones 15). rewrite !Z.land_ones by lia. change (2 ^ 15) with 32768. lia. }
  rewrite E. reflexivity.
Qed.

(* category in 0..16, extra bits fit the category, and the decoder's value is
   congruent to the difference and lies in -32767..32768: checked on every
   residue, then lifted to all integers by encode_diff_mod *)
Definition diff_code_ok (u : Z) : bool :=
  let (nb, extra) := encode_diff u in
  let v := decode_diff (nb, extra) in
  (0 <=? nb) && (nb <=? 16) && (0 <=? extra) && (extra <? Z.shiftl 1 nb)
  && (v mod 65536 =? u) && (-32767 <=? v) && (v <=? 32768)
  && (if nb =? 16 then u =? 32768 else true).

Lemma diff_code_sweep : sweep diff_code_ok 0 65536 = true.
Proof. vm_compute. reflexivity. Qed.

Lemma diff_code_all d : diff_code_ok (d mod 65536) = true.
Proof. apply (sweep_sound _ _ _ diff_code_sweep). apply Z.mod_pos_bound. lia. Qed.

(* (3) *)
Theorem canon_diff_eqm d : eqm16 (canon_diff d) d.
Proof.
  pose proof (diff_code_all d) as H. unfold diff_code_ok in H. unfold canon_diff, eqm16.
  rewrite <- (encode_diff_mod d). destruct (encode_diff (d mod 65536)) as [nb extra].
  rewrite !andb_true_iff in H. destruct H as [[[[[[[_ _] _] _] H] _] _] _].
  apply Z.eqb_eq in H. exact H.
Qed.

Theorem encode_diff_category d :
  0 <= fst (encode_diff d) <= 16 /\ 0 <= snd (encode_diff d) < 2 ^ fst (encode_diff d) /\
  -32767 <= canon_diff d <= 32768 /\
  (fst (encode_diff d) = 16 -> d mod 65536 = 32768 /\ canon_diff d = 32768).
Proof.
  pose proof (diff_code_all d) as H. unfold diff_code_ok in H. unfold canon_diff.
  rewrite <- (encode_diff_mod d). destruct (encode_diff (d mod 65536)) as [nb extra] eqn:E.
  rewrite !andb_true_iff in H. destruct H as [[[[[[[H1 H2] H3] H4] H5] H6] H7] H8].
  cbn [fst snd]. rewrite Z.shiftl_1_l in H4.
  split; [lia|]. split; [lia|]. split; [lia|].
  intros ->. cbn [Z.eqb Pos.eqb] in H8. split; [lia|reflexivity].
Qed.

(* whole pipeline of one component: differencing, category coding, decoding,
   undifferencing, for any number of rows and restart resets *)
Theorem codec_component_correct ri mpr psv prec pt w rows :
  2 <= prec <= 16 -> 1 <= psv <= 7 -> 0 <= pt < prec -> restart_ok ri mpr -> 0 < mpr ->
  rows_ok prec w rows ->
  codec_component ri mpr psv prec pt rows = Some (map (map (clear_low pt)) rows).
Proof.
  intros Hp Hpsv Hpt Hr Hm Hrows. unfold codec_component, enc_component, dec_component.
  assert (P : params_ok psv prec pt = true) by (apply params_ok_spec; lia).
  assert (S : start_pass_ok ri mpr = true).
  { unfold start_pass_ok. destruct Hr as [->|(_ & _ & Hd)]; [rewrite Z.mod_0_l by lia; reflexivity|lia]. }
  rewrite P, S. cbn [andb]. f_equal.
  apply dec_enc_rows with (w := w) (se := reset_predictor ri mpr) (prev_e := []); try assumption.
  - apply states_agree_init; assumption.
  - cbn [reset_predictor fst]. discriminate.
  - apply canon_rows_eqm. exact canon_diff_eqm.
Qed.

(* Pt = 0: exactly the original samples *)
Corollary codec_component_pt0 ri mpr psv prec w rows :
  2 <= prec <= 16 -> 1 <= psv <= 7 -> restart_ok ri mpr -> 0 < mpr ->
  rows_ok prec w rows ->
  codec_component ri mpr psv prec 0 rows = Some rows.
Proof.
  intros. rewrite (codec_component_correct ri mpr psv prec 0 w rows) by (auto; lia).
  f_equal. rewrite <- (map_id rows) at 2. apply map_ext. intros r.
  rewrite <- (map_id r) at 2. apply map_ext. apply clear_low_0.
Qed.

(* ------------------------------------------------------------ bit level *)
Lemma odd_bit x : (if Z.odd x then 1 else 0) = x mod 2.
Proof. rewrite Zmod_odd. reflexivity. Qed.

Lemma get_bits_of : forall n v acc rest, 0 <= v ->
  get_bits n acc (bits_of n v ++ rest) = Some (acc * 2 ^ Z.of_nat n + v mod 2 ^ Z.of_nat n, rest).
Proof.
  induction n as [|k IH]; intros v acc rest Hv.
  - cbn [bits_of get_bits app]. change (2 ^ Z.of_nat 0) with 1. rewrite Z.mod_1_r. f_equal. f_equal. lia.
  - cbn [bits_of get_bits app]. rewrite IH by assumption. f_equal. f_equal.
    rewrite odd_bit. rewrite Z.shiftr_div_pow2 by lia.
    replace (Z.of_nat (S k)) with (Z.of_nat k + 1) by lia.
    rewrite Z.pow_add_r by lia. change (2 ^ 1) with 2.
    assert (0 < 2 ^ Z.of_nat k) by (apply Z.pow_pos_nonneg; lia).
    set (q := 2 ^ Z.of_nat k) in *.
    assert (v mod (q * 2) = q * ((v / q) mod 2) + v mod q).
    { rewrite Z.rem_mul_r by lia. lia. }
    lia.
Qed.

Section BitLevel.
  (* any per-table prefix code for the categories 0..16, with its decoder *)
  Variable code : Z -> Z -> list bool.
  Variable dec : Z -> list bool -> option (Z * list bool).
  Hypothesis dec_code : forall tbl s rest, 0 <= s <= 16 -> dec tbl (code tbl s ++ rest) = Some (s, rest).

  Lemma decode_encode_tok tbl d rest :
    decode_tok dec tbl (encode_tok code tbl d ++ rest) = Some (canon_diff d, rest).
  Proof.
    pose proof (encode_diff_category d) as (Hc & He & _ & _).
    unfold encode_tok, decode_tok, canon_diff, decode_diff.
    destruct (encode_diff d) as [nb extra]. cbn [fst snd] in *.
    rewrite <- app_assoc. rewrite dec_code by assumption.
    destruct (nb =? 0) eqn:E0; [reflexivity|]. destruct (nb =? 16) eqn:E16; [reflexivity|].
    cbn [orb]. rewrite get_bits_of by lia. rewrite Z2Nat.id by lia.
    rewrite Z.mod_small by lia. rewrite Z.mul_0_l, Z.add_0_l. reflexivity.
  Qed.

  Lemma decode_encode_toks : forall l rest,
    decode_toks dec (map fst l) (encode_toks code l ++ rest) = Some (map (fun td => canon_diff (snd td)) l, rest).
  Proof.
    induction l as [|[tbl d] t IH]; intros rest; [reflexivity|].
    cbn [encode_toks decode_toks map fst snd]. rewrite <- app_assoc.
    rewrite decode_encode_tok. rewrite IH. reflexivity.
  Qed.
End BitLevel.

(* ------------------------------------------------------------ non-vacuity *)
Definition alt16 : list (list Z) := [[0; 65535; 0]; [65535; 0; 65535]; [0; 65535; 0]; [65535; 65535; 0]].

Lemma alt16_rows_ok : rows_ok 16 3 alt16.
Proof. unfold alt16, rows_ok, in_prec. repeat constructor; cbn; lia. Qed.

(* every predictor, with and without a restart every row / every 2 rows *)
Lemma alt16_roundtrip_computed :
  forallb (fun psv => forallb (fun ri =>
     match codec_component ri 3 psv 16 0 alt16 with
     | Some out => if list_eq_dec (list_eq_dec Z.eq_dec) out alt16 then true else false
     | None => false end) [0; 3; 6]) [1; 2; 3; 4; 5; 6; 7] = true.
Proof. vm_compute. reflexivity. Qed.

(* the differences of that image really leave the 16-bit range, so that the
   modulo-2^16 reconstruction is exercised: predictor 4 on row 2 gives
   65535 - (0 + 0 - 65535) = 131070 *)
Lemma alt16_wide_difference :
  enc_component 0 3 4 16 0 alt16 =
  Some [[-32768; 65535; -65535]; [65535; -131070; 131070]; [-65535; 131070; -131070]; [65535; -65535; 0]].
Proof. vm_compute. reflexivity. Qed.

Lemma wrap_needed : canon_diff 131070 = -2 /\ canon_diff 131070 + (0 + 0 - 65535) <> 65535
                    /\ and16 (canon_diff 131070 + (0 + 0 - 65535)) = 65535.
Proof. vm_compute. repeat split; discriminate. Qed.

Lemma category16_example : encode_diff 32768 = (16, 32767) /\ encode_diff (-32768) = (16, 32767)
  /\ canon_diff (-32768) = 32768 /\ encode_diff (-1) = (1, 0) /\ encode_diff 65535 = (1, 0).
Proof. vm_compute. repeat split. Qed.

(* point transform on 12-bit data *)
Lemma pt_example :
  codec_component 2 2 7 12 3 [[4095; 1]; [8; 2049]] = Some [[4088; 0]; [8; 2048]].
Proof. vm_compute. reflexivity. Qed.

(* a concrete prefix code for the categories: 5 bits, fixed length *)
Definition fixed_code (tbl s : Z) : list bool := bits_of 5 s.
Definition fixed_dec (tbl : Z) (bs : list bool) : option (Z * list bool) := get_bits 5 0 bs.
Lemma fixed_code_ok tbl s rest : 0 <= s <= 16 -> fixed_dec tbl (fixed_code tbl s ++ rest) = Some (s, rest).
Proof.
  intros H. unfold fixed_dec, fixed_code. rewrite get_bits_of by lia.
  change (2 ^ Z.of_nat 5) with 32. rewrite Z.mod_small by lia. reflexivity.
Qed.
