(* C14 -- proofs, part 2: the size_t (mod 2^64) model and the ideal-integer model
   coincide on every operation whose arguments are in the range of their C types:
   given the guards of alloc_small / alloc_large / alloc_sarray / alloc_barray no
   computation that feeds malloc wraps around. *)
From Coq Require Import List ZArith Bool Lia ZifyBool.
From LJT Require Import model.MemMgr proofs.MemMgrProofs.
Import ListNotations.
Local Open Scope Z_scope.
Ltac Zify.zify_post_hook ::= Z.div_mod_to_equations.

Lemma w64_small : forall x, 0 <= x < two64 -> w64 x = x.
Proof. intros. unfold w64. apply Z.mod_small. unfold two64 in *. lia. Qed.

Lemma two64_big : 2 ^ 42 < two64.
Proof. unfold two64. lia. Qed.

Definition op_in_range (o : op) : Prop :=
  match o with
  | OSmall _ sz | OLarge _ sz => 0 <= sz < two64                      (* size_t *)
  | OSarray _ w r | OBarray _ w r => 0 <= w < two32 /\ 0 <= r < two32   (* JDIMENSION *)
  | OReqS _ w r a | OReqB _ w r a => 0 <= w < two32 /\ 0 <= r < two32 /\ 0 <= a < two32
  | _ => True
  end.

Lemma rup_eq : forall a b, 0 <= a -> 1 <= b -> a + b < two64 -> rup w64 a b = rup wid a b.
Proof. intros. unfold rup. rewrite w64_small by lia. reflexivity. Qed.

Lemma rup_bounds : forall a b, 0 <= a -> 1 <= b -> 0 <= rup wid a b <= a + b - 1.
Proof.
  intros. unfold rup, wid.
  pose proof (Z.div_mod (a + b - 1) b ltac:(lia)) as E.
  pose proof (Z.mod_pos_bound (a + b - 1) b ltac:(lia)) as Hm.
  rewrite (Z.mul_comm _ b).
  remember ((a + b - 1) / b) as q. remember ((a + b - 1) mod b) as rr. clear Heqq Heqrr. lia.
Qed.

Lemma get_pool_mem_eq : forall c fuel h minreq slop,
  0 <= minreq -> 0 <= slop -> minreq + slop < two64 ->
  get_pool_mem w64 c fuel h minreq slop = get_pool_mem wid c fuel h minreq slop.
Proof.
  induction fuel as [|f IH]; intros; cbn [get_pool_mem]; auto.
  rewrite w64_small by lia. unfold wid at 1.
  destruct (malloc h (minreq + slop)) as [h1 [id|]]; auto.
  destruct (slop / 2 <? c_minslop c); auto.
  apply IH; lia.
Qed.

Lemma get_pool_mem_slop : forall c fuel h minreq slop h' id slop',
  0 <= slop -> get_pool_mem wid c fuel h minreq slop = (h', GotPool id slop') -> 0 <= slop' <= slop.
Proof.
  induction fuel as [|f IH]; intros h minreq slop h' id slop' Hs H; cbn [get_pool_mem] in H; [discriminate|].
  destruct (malloc h (wid (minreq + slop))) as [h1 [i|]].
  - inversion H; subst. lia.
  - destruct (slop / 2 <? c_minslop c); [discriminate|].
    apply IH in H; lia.
Qed.

Lemma wid_id : forall x, wid x = x.
Proof. reflexivity. Qed.

Lemma alloc_small_eq : forall c m h pid sz,
  cfg_wf c -> 0 <= sz -> alloc_small w64 c m h pid sz = alloc_small wid c m h pid sz.
Proof.
  intros c m h pid sz Hc Hsz. pose proof two64_big as HB.
  assert (Hcc := Hc). unfold cfg_wf in Hcc.
  unfold alloc_small. cbv zeta. destruct (sz >? c_max c) eqn:E0; auto.
  assert (Er : rup w64 sz (c_align c) = rup wid sz (c_align c)) by (apply rup_eq; lia).
  rewrite Er. pose proof (rup_bounds sz (c_align c)) as Hr.
  remember (rup wid sz (c_align c)) as r.
  rewrite (w64_small (c_hdr c + r + c_align c - 1)) by lia. rewrite !wid_id.
  destruct (c_hdr c + r + c_align c - 1 >? c_max c) eqn:E1; auto.
  destruct (bad_pool pid); auto.
  destruct (find_pool (get_small m pid) r); auto.
  rewrite (w64_small (c_max c - (c_hdr c + r + c_align c - 1))) by lia.
  set (minreq := c_hdr c + r + c_align c - 1) in *.
  set (slop0 := match get_small m pid with [] => first_slop c pid | _ :: _ => extra_slop c pid end).
  assert (Hs0 : 0 <= slop0).
  { unfold slop0, first_slop, extra_slop. destruct (get_small m pid); destruct (pid =? 0); lia. }
  set (slop := if slop0 >? c_max c - minreq then c_max c - minreq else slop0).
  assert (Hsl : 0 <= slop <= c_max c - minreq) by (unfold slop; destruct (slop0 >? c_max c - minreq) eqn:E; lia).
  rewrite get_pool_mem_eq by lia.
  destruct (get_pool_mem wid c 64 h minreq slop) as [h1 [id slop'| |]] eqn:Eg; auto.
  apply get_pool_mem_slop in Eg; [|lia].
  rewrite (w64_small (r + slop')) by lia. rewrite (w64_small (minreq + slop')) by lia. rewrite !wid_id. reflexivity.
Qed.

Lemma alloc_large_eq : forall c m h pid sz,
  cfg_wf c -> 0 <= sz -> alloc_large w64 c m h pid sz = alloc_large wid c m h pid sz.
Proof.
  intros c m h pid sz Hc Hsz. pose proof two64_big as HB.
  assert (Hcc := Hc). unfold cfg_wf in Hcc.
  unfold alloc_large. cbv zeta. destruct (sz >? c_max c) eqn:E0; auto.
  assert (Er : rup w64 sz (c_align c) = rup wid sz (c_align c)) by (apply rup_eq; lia).
  rewrite Er. pose proof (rup_bounds sz (c_align c)) as Hr.
  remember (rup wid sz (c_align c)) as r.
  rewrite (w64_small (c_hdr c + r + c_align c - 1)) by lia.
  rewrite (w64_small (r + c_hdr c + c_align c - 1)) by lia. rewrite !wid_id. reflexivity.
Qed.

Lemma alloc_rows_eq : forall c fuel m h pid rpc width unit currow numrows,
  cfg_wf c -> 0 <= rpc -> 0 <= width -> 1 <= unit -> rpc * (width * unit) <= c_max c ->
  alloc_rows w64 c fuel m h pid rpc width unit currow numrows =
  alloc_rows wid c fuel m h pid rpc width unit currow numrows.
Proof.
  induction fuel as [|f IH]; intros m h pid rpc width unit currow numrows Hc Hr Hw Hu Hm; cbn [alloc_rows]; auto.
  destruct (currow <? numrows) eqn:E; auto.
  pose proof two64_big as HB. assert (Hcc := Hc). unfold cfg_wf in Hcc.
  set (rpc' := Z.min rpc (numrows - currow)).
  assert (Hr' : 0 <= rpc' <= rpc) by (unfold rpc'; lia).
  assert (H1 : 0 <= rpc' * width <= rpc * width) by (split; [apply Z.mul_nonneg_nonneg; lia | apply Z.mul_le_mono_nonneg_r; lia]).
  assert (H2 : 0 <= rpc' * width * unit <= rpc * width * unit) by (split; [apply Z.mul_nonneg_nonneg; lia | apply Z.mul_le_mono_nonneg_r; lia]).
  assert (H3 : rpc * width * unit = rpc * (width * unit)) by ring.
  assert (H4 : rpc * width <= rpc * width * unit) by nia.
  rewrite (w64_small (rpc' * width)) by lia.
  rewrite (w64_small (rpc' * width * unit)) by lia.
  rewrite alloc_large_eq by (auto; lia). rewrite !wid_id. fold rpc'.
  destruct (alloc_large wid c m h pid (rpc' * width * unit)) as [[m1 h1] [e|]]; auto.
  apply IH; auto; try lia.
Qed.

Lemma sample_size_12 : forall p, sample_size p = 1 \/ sample_size p = 2.
Proof. intros. unfold sample_size. destruct (p >? 8); auto. Qed.

Lemma alloc_sarray_eq : forall c m h prec pid width numrows,
  cfg_wf c -> 0 <= width < two32 -> 0 <= numrows < two32 ->
  alloc_sarray w64 c m h prec pid width numrows = alloc_sarray wid c m h prec pid width numrows.
Proof.
  intros c m h prec pid width numrows Hc Hw Hn. pose proof two64_big as HB.
  assert (Hcc := Hc). unfold cfg_wf in Hcc. unfold two32 in *.
  unfold alloc_sarray.
  destruct (negb (c_align c mod sample_size prec =? 0)); auto.
  destruct (width >? c_max c) eqn:E0; auto.
  assert (Hb : 1 <= 2 * c_align c / sample_size prec) by (destruct (sample_size_12 prec) as [-> | ->]; lia).
  assert (Hb2 : 2 * c_align c / sample_size prec <= 2 * c_align c) by (destruct (sample_size_12 prec) as [-> | ->]; lia).
  rewrite rup_eq by lia.
  set (w := rup wid width (2 * c_align c / sample_size prec) mod two32).
  assert (Hw0 : 0 <= w) by (unfold w, two32; lia).
  destruct (w * sample_size prec =? 0) eqn:Ed; auto.
  set (ltemp := (c_max c - c_hdr c) / (w * sample_size prec)).
  destruct (ltemp <=? 0) eqn:El; auto.
  rewrite (w64_small (numrows * c_ptr c)) by nia. rewrite !wid_id.
  rewrite alloc_small_eq by (auto; nia).
  destruct (alloc_small wid c m h pid (numrows * c_ptr c)) as [[m1 h1] [e|]]; auto.
  apply alloc_rows_eq; auto.
  - destruct (ltemp <? numrows); lia.
  - destruct (sample_size_12 prec) as [-> | ->]; lia.
  - assert (Hss : 0 < w * sample_size prec) by (destruct (sample_size_12 prec) as [E | E]; rewrite E in *; lia).
    assert (ltemp * (w * sample_size prec) <= c_max c - c_hdr c).
    { unfold ltemp. rewrite Z.mul_comm. apply Z.mul_div_le. lia. }
    assert (0 <= ltemp) by lia.
    destruct (ltemp <? numrows) eqn:E; [lia|].
    assert (numrows * (w * sample_size prec) <= ltemp * (w * sample_size prec)) by (apply Z.mul_le_mono_nonneg_r; lia).
    lia.
Qed.

Lemma alloc_barray_eq : forall c m h pid width numrows,
  cfg_wf c -> 0 <= width < two32 -> 0 <= numrows < two32 ->
  alloc_barray w64 c m h pid width numrows = alloc_barray wid c m h pid width numrows.
Proof.
  intros c m h pid width numrows Hc Hw Hn. pose proof two64_big as HB.
  assert (Hcc := Hc). unfold cfg_wf in Hcc. unfold two32 in *.
  unfold alloc_barray.
  destruct (negb (c_block c mod c_align c =? 0)); auto.
  destruct (width * c_block c =? 0) eqn:Ed; auto.
  set (ltemp := (c_max c - c_hdr c) / (width * c_block c)).
  destruct (ltemp <=? 0) eqn:El; auto.
  rewrite (w64_small (numrows * c_ptr c)) by nia. rewrite !wid_id.
  rewrite alloc_small_eq by (auto; nia).
  destruct (alloc_small wid c m h pid (numrows * c_ptr c)) as [[m1 h1] [e|]]; auto.
  apply alloc_rows_eq; auto; try lia.
  - destruct (ltemp <? numrows); lia.
  - assert (Hss : 0 < width * c_block c) by nia.
    assert (ltemp * (width * c_block c) <= c_max c - c_hdr c).
    { unfold ltemp. rewrite Z.mul_comm. apply Z.mul_div_le. lia. }
    assert (0 <= ltemp) by lia.
    destruct (ltemp <? numrows) eqn:E; [lia|].
    assert (numrows * (width * c_block c) <= ltemp * (width * c_block c)) by (apply Z.mul_le_mono_nonneg_r; lia).
    lia.
Qed.

Lemma realize_list_eq : forall (a1 a2 : mgr -> heap -> Z -> Z -> res),
  (forall m h w r, 0 <= w < two32 -> 0 <= r < two32 -> a1 m h w r = a2 m h w r) ->
  forall l m h mm, realize_list a1 l m h mm = realize_list a2 l m h mm.
Proof.
  intros a1 a2 Ha. induction l as [|v l IH]; intros; cbn [realize_list]; auto.
  destruct (v_real v). { rewrite IH. reflexivity. }
  destruct (v_maxacc v =? 0); auto.
  destruct (_ <=? mm); auto.
  rewrite Ha by (unfold two32; lia).
  destruct (a2 m h (v_width v mod two32) (v_rows v mod two32)) as [[m1 h1] [e|]]; auto.
  rewrite IH. reflexivity.
Qed.

Lemma realize_virt_arrays_eq : forall c m h prec,
  cfg_wf c -> realize_virt_arrays w64 c m h prec = realize_virt_arrays wid c m h prec.
Proof.
  intros c m h prec Hc. unfold realize_virt_arrays.
  destruct (space_pass (m_vs m) (sample_size prec) 10 (0, 0)) as [[[w|]|] acc1]; auto.
  destruct (space_pass (m_vb m) (c_block c) 11 acc1) as [[[w|]|] [spm maximum]]; auto.
  destruct (spm <=? 0); auto.
  rewrite (realize_list_eq (fun m0 h0 w r => alloc_sarray w64 c m0 h0 prec 1 w r) (fun m0 h0 w r => alloc_sarray wid c m0 h0 prec 1 w r))
    by (intros; apply alloc_sarray_eq; auto).
  match goal with |- context [realize_list ?a (m_vs m) m h ?mm] => destruct (realize_list a (m_vs m) m h mm) as [vs' [[m1 h1] [e|]]] end; auto.
  rewrite (realize_list_eq (fun m0 h0 w r => alloc_barray w64 c m0 h0 1 w r) (fun m0 h0 w r => alloc_barray wid c m0 h0 1 w r))
    by (intros; apply alloc_barray_eq; auto).
  reflexivity.
Qed.

Theorem step_eq : forall c o s, cfg_wf c -> op_in_range o -> step w64 c o s = step wid c o s.
Proof.
  intros c o s Hc Ho. assert (Hcc := Hc). unfold cfg_wf in Hcc.
  destruct s as [[m|] h prec]; destruct o; simpl in *; auto.
  - rewrite alloc_small_eq by (auto; lia). reflexivity.
  - rewrite alloc_large_eq by (auto; lia). reflexivity.
  - rewrite alloc_sarray_eq by (auto; lia). reflexivity.
  - rewrite alloc_barray_eq by (auto; lia). reflexivity.
  - unfold request_virt_sarray. rewrite alloc_small_eq by (auto; lia). reflexivity.
  - unfold request_virt_barray. rewrite alloc_small_eq by (auto; lia). reflexivity.
  - rewrite realize_virt_arrays_eq by auto. reflexivity.
  - unfold jinit_memory_mgr. pose proof two64_big. rewrite w64_small by lia. reflexivity.
Qed.

Theorem run_eq : forall c ops s, cfg_wf c -> Forall op_in_range ops -> run w64 c ops s = run wid c ops s.
Proof.
  induction ops as [|o r IH]; intros s Hc Hf; simpl; auto.
  inversion Hf; subst. rewrite step_eq by auto. apply IH; auto.
Qed.
