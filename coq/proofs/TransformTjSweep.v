(* C06 proofs, part 8a (finite sweeps, compiled once): tj3TransformBufSize / getTransformedSpecs (still TJSAMP-grid based) against
   what tj3Transform really produces: whenever tj3Transform accepts a request, getTransformedSpecs
   accepts it too and the dimensions it assumes are >= the real output dimensions. *)
From Coq Require Import List ZArith Bool Lia PeanoNat ZifyBool.
From LJT Require Import model.Transform model.TransformSpec
  proofs.TransformProofs proofs.TransformPlane proofs.TransformImage proofs.TransformGeneral.
Import ListNotations.
Local Open Scope Z_scope.

(* all factor lists of a given length over 1..4 *)
Fixpoint all_lists (n : nat) : list (list Z) :=
  match n with
  | O => [[]]
  | S k => flat_map (fun l => map (fun a => a :: l) [1; 2; 3; 4]) (all_lists k)
  end.

Lemma all_lists_in l : Forall (fun a => 1 <= a <= 4) l -> In l (all_lists (length l)).
Proof.
  induction l as [|a l IH]; intros H; cbn [length all_lists]; [left; reflexivity|].
  inversion H as [|? ? Ha Hl]; subst. apply in_flat_map. exists l. split; [apply IH; exact Hl|].
  apply in_map_iff. exists a. split; [reflexivity|]. cbn. lia.
Qed.

Fixpoint pairs (l : list Z) : list (Z * Z) :=
  match l with a :: b :: r => (a, b) :: pairs r | _ => [] end.
Fixpoint unpairs (l : list (Z * Z)) : list Z :=
  match l with [] => [] | (a, b) :: r => a :: b :: unpairs r end.
Lemma pairs_unpairs l : pairs (unpairs l) = l.
Proof. induction l as [|[a b] l IH]; cbn; [reflexivity|]. rewrite IH. reflexivity. Qed.
Lemma length_unpairs l : length (unpairs l) = (2 * length l)%nat.
Proof. induction l as [|[a b] l IH]; cbn [unpairs length]; lia. Qed.

(* the TJSAMP grid of the destination level divides the destination iMCU grid *)
Definition div_ok (jcs : Z) (facs : list (Z * Z)) : bool :=
  let s := get_subsamp_l jcs facs in       (* evaluated once per layout *)
  forallb (fun gray => forallb (fun op =>
      let d := get_dst_subsamp s gray op in
      (d =? -1) || ((fst (layout_imcu jcs facs gray op) mod tj_mcu_w d =? 0) &&
                    (snd (layout_imcu jcs facs gray op) mod tj_mcu_h d =? 0) && (0 <? tj_mcu_w d) && (0 <? tj_mcu_h d)))
    all_xops) [false; true].

Lemma sweep_1 : forallb (fun jcs => forallb (fun l => div_ok jcs (pairs l)) (all_lists 2)) [0; 1; 2; 3; 4; 5] = true.
Proof. vm_compute. reflexivity. Qed.
Lemma sweep_3 : forallb (fun jcs => forallb (fun l => div_ok jcs (pairs l)) (all_lists 6)) [0; 1; 2; 3; 4; 5] = true.
Proof. vm_compute. reflexivity. Qed.
Lemma sweep_4 : forallb (fun jcs => forallb (fun l => div_ok jcs (pairs l)) (all_lists 8)) [4; 5] = true.
Proof. vm_compute. reflexivity. Qed.

(* other component counts are never classified *)
Lemma unclassified jcs facs : length facs <> 1%nat -> length facs <> 3%nat -> length facs <> 4%nat ->
  get_subsamp_l jcs facs = -1.
Proof.
  intros H1 H3 H4. unfold get_subsamp_l.
  destruct facs as [|a [|b [|c [|d [|e r]]]]]; cbn [length] in *; try lia.
  all: cbn [Nat.eqb andb orb negb]; rewrite ?andb_false_r; cbn [negb orb].
  all: reflexivity.
Qed.


Lemma unclassified4 jcs facs : length facs = 4%nat -> jcs <> 4 -> jcs <> 5 -> get_subsamp_l jcs facs = -1.
Proof.
  intros H N4 N5. unfold get_subsamp_l.
  destruct facs as [|a [|b [|c [|d [|e r]]]]]; cbn [length] in H; try discriminate.
  cbn [length Nat.eqb andb orb negb].
  destruct (Z.eqb_spec jcs 5); [contradiction|]. destruct (Z.eqb_spec jcs 4); [contradiction|].
  cbn [orb andb negb]. reflexivity.
Qed.
