(* Non-vacuity for the arithmetic-coding part. *)
From Coq Require Import List ZArith Bool Lia.
From LJT Require Import model.T81Spec model.T81Arith proofs.T81Examples proofs.T81ArithProofs proofs.T81QMProofs.
Import ListNotations.
Local Open Scope Z_scope.

(* decode a decision sequence back with the D.2 decoder, asking for the same bins *)
Definition qm_decode_list (ds : list (Z * bool)) (bytes : list Z) : list bool :=
  fst (fold_left (fun (st : list bool * qdec) (kd : Z * bool) =>
                    match qm_decode (fst kd) (snd st) with
                    | Some (b, q') => (fst st ++ [b], q')
                    | None => st
                    end) ds ([], qm_init_dec bytes)).

Definition ex_decisions : list (Z * bool) :=
  flat_map (fun i => [(i mod 7, Z.odd (i * i / 3)); (FIXED, Z.odd i); (i mod 3 + 300, Z.even (i / 5)); (5, true)])
           (map Z.of_nat (seq 0 200)).

Lemma ex_qm_roundtrip : qm_decode_list ex_decisions (qm_encode_all ex_decisions) = map snd ex_decisions
                        /\ length (qm_encode_all ex_decisions) = 88%nat.
Proof. split; vm_compute; reflexivity. Qed.

(* 17x9, two components 2x1 / 1x1 (ids 7, 200), SOF9, conditioning destination 1 with
   L = 2, U = 4 (DAC Cs = X'42') and Kx = 9, Ri = 1, fill bytes *)
Definition ex3_ch : choices :=
  {| ch_items := [IMisc 0 (SegDQT [(1, 3, repeat 300 64); (0, 0, repeat 2 64)]); IFrame 1 9;
                  IMisc 0 (SegDAC [(0, 1, 66); (1, 1, 9)]); IMisc 2 (SegDRI 1);
                  IScan 0 [(7, 0, 1); (200, 1, 1)] [0%nat; 2%nat]];
     ch_eoi_fill := 0 |}.

Lemma ex3_runs :
  exists bytes s, t81_emit_arith ex3_ch ex2_im = Some bytes /\ t81_parse bytes = Some s /\
                  t81_decode_arith s = Some [(3, 2, [ex2_b 1; ex2_b 2; ex2_b 3; ex2_b 5; ex2_b 6; ex2_b 7]);
                                             (2, 2, [ex2_b 7; ex2_b (-7); ex2_b 3; ex2_b 0])].
Proof.
  eexists. eexists. split; [vm_compute; reflexivity|]. split; [vm_compute; reflexivity|vm_compute; reflexivity].
Qed.

Lemma ex_ablocks_ok : ablocks_ok [0; 0] [(0%nat, to_zigzag (ex2_b 5)); (1%nat, to_zigzag (ex2_b (-3))); (0%nat, to_zigzag (ex2_b 900))].
Proof. apply ablocks_okb_ok. vm_compute. reflexivity. Qed.
