(* C06 proofs, part 3: perfect test, trim arithmetic, quantisation tables,
   composition of whole-plane operations (the group laws), and the image-level
   statements about [transform] (jtransform_request_workspace +
   jtransform_adjust_parameters + jtransform_execute_transform). *)
From Coq Require Import List ZArith Bool Lia PeanoNat ZifyBool.
From LJT Require Import model.Transform model.TransformSpec proofs.TransformProofs proofs.TransformPlane.
Import ListNotations.
Local Open Scope Z_scope.

(* ----------------------------------------------------------- perfect test *)
Theorem perfect_iff w h mw mh op :
  perfect_transform w h mw mh op = true <->
  ((mirrors_src_x op = true -> w mod mw = 0) /\ (mirrors_src_y op = true -> h mod mh = 0)).
Proof.
  destruct op; cbn [perfect_transform mirrors_src_x mirrors_src_y];
    rewrite ?andb_true_iff, ?Z.eqb_eq; intuition congruence.
Qed.

Lemma crop_axis_err n full cw wset cx xset e :
  crop_axis n full cw wset cx xset = inl e -> e = EBadCrop \/ e = ECropExt.
Proof.
  unfold crop_axis.
  repeat match goal with
         | |- context [if ?c then _ else _] => destruct c
         end; intros H; inversion H; auto.
Qed.

Definition perfect_arg (im : image) (o : xopts) : bool :=
  let ncs := Z.of_nat (length (i_comps im)) in
  let nc := if xo_gray o && (i_cs im =? 3) && (ncs =? 3) then 1 else ncs in
  if nc =? 1 then perfect_transform (i_w im) (i_h im) 8 8 (xo_op o)
  else perfect_transform (i_w im) (i_h im) (max_hs (i_comps im) * 8) (max_vs (i_comps im) * 8) (xo_op o).

(* a request flagged perfect fails exactly when the transform is imperfect *)
Theorem request_not_perfect_iff im o :
  request_workspace im o = inl ENotPerfect <-> (xo_perfect o = true /\ perfect_arg im o = false).
Proof.
  unfold request_workspace, perfect_arg. cbv zeta.
  set (nc := if xo_gray o && (i_cs im =? 3) && (Z.of_nat (length (i_comps im)) =? 3) then 1 else Z.of_nat (length (i_comps im))).
  set (pf := if nc =? 1 then _ else _).
  destruct (xo_perfect o); destruct pf; cbn [andb negb]; split; try (intros [? ?]; congruence); try tauto;
    intros H; exfalso; revert H;
    (destruct (xo_crop o) as [c|];
     [ destruct (crop_axis _ _ (cr_w c) _ _ _) as [e1|[? ?]] eqn:E1;
       destruct (crop_axis _ _ (cr_h c) _ _ _) as [e2|[? ?]] eqn:E2;
       try (apply crop_axis_err in E1; destruct E1; subst);
       try (apply crop_axis_err in E2; destruct E2; subst); try discriminate
     | ]);
    destruct (xo_op o); discriminate.
Qed.

(* ------------------------------------------------------- trim arithmetic *)
Lemma trim_edge_le out imcu off full : 0 < imcu -> 0 <= out -> trim_edge out imcu off full <= out.
Proof.
  intros Hi Ho. unfold trim_edge. destruct (_ && _); [|lia].
  pose proof (Z.mul_div_le out imcu Hi). lia.
Qed.

Lemma trim_edge_cases out imcu off full :
  trim_edge out imcu off full = out \/
  (trim_edge out imcu off full = (out / imcu) * imcu /\ 0 < out / imcu /\ off + out / imcu = full / imcu).
Proof.
  unfold trim_edge.
  destruct (Z.ltb_spec 0 (out / imcu)); destruct (Z.eqb_spec (off + out / imcu) (full / imcu)); cbn [andb]; auto.
Qed.

(* without crop: exactly the whole iMCUs remain, unless there is none *)
Theorem trim_edge_nocrop full imcu : 0 < imcu -> 0 <= full ->
  trim_edge full imcu 0 full = if full <? imcu then full else full - full mod imcu.
Proof.
  intros Hi Hf. unfold trim_edge. rewrite Z.add_0_l, Z.eqb_refl, andb_true_r.
  pose proof (Z.div_mod full imcu ltac:(lia)). pose proof (Z.mod_pos_bound full imcu Hi).
  assert (0 <= full / imcu) by (apply Z.div_pos; lia).
  destruct (Z.ltb_spec 0 (full / imcu)); destruct (Z.ltb_spec full imcu); try lia; nia.
Qed.

(* after trimming, every destination iMCU column lies inside the mirrorable
   area (region inside the image and at least one whole iMCU wide) *)
Theorem trim_edge_all_mirrorable out imcu off full :
  0 < imcu -> 0 <= off -> imcu <= out -> off * imcu + out <= full ->
  off + cdiv (trim_edge out imcu off full) imcu <= full / imcu.
Proof.
  intros Hi Hoff Hout Hin. unfold trim_edge, cdiv.
  assert (H1 : 1 <= out / imcu) by (apply Z.div_le_lower_bound; lia).
  assert (H2 : off + out / imcu <= full / imcu).
  { apply Z.div_le_lower_bound; [lia|]. pose proof (Z.mul_div_le out imcu Hi). nia. }
  destruct (Z.ltb_spec 0 (out / imcu)); [|lia]. cbn [andb].
  destruct (Z.eqb_spec (off + out / imcu) (full / imcu)) as [He|Hne].
  - replace (out / imcu * imcu + imcu - 1) with ((imcu - 1) + (out / imcu) * imcu) by lia.
    rewrite Z.div_add by lia. rewrite Z.div_small by lia. lia.
  - assert (Hc : (out + imcu - 1) / imcu <= out / imcu + 1).
    { replace (out + imcu - 1) with ((out - 1) + 1 * imcu) by lia. rewrite Z.div_add by lia.
      pose proof (Z.div_le_mono (out - 1) out imcu Hi ltac:(lia)). lia. }
    lia.
Qed.

Lemma cdiv_mul k d : 0 < d -> cdiv (k * d) d = k.
Proof.
  intros Hd. unfold cdiv. replace (k * d + d - 1) with ((d - 1) + k * d) by lia.
  rewrite Z.div_add by lia. rewrite Z.div_small by lia. lia.
Qed.

(* ---------------------------------------------------- quantisation tables *)
Lemma transpose_q_spec q : length q = 64%nat ->
  transpose_q q = map (fun k => nth (tr_idx k) q 0) (seq 0 64).
Proof.
  intros H.
  do 64 (destruct q as [|? q]; [discriminate H|]). destruct q; [|discriminate H].
  reflexivity.
Qed.

Lemma spec_q_length op q : length q = 64%nat -> length (spec_q op q) = 64%nat.
Proof. intros H. unfold spec_q. destruct (transposes op); [rewrite map_length, seq_length; reflexivity|exact H]. Qed.

Lemma tr_idx_invol k : (k < 64)%nat -> tr_idx (tr_idx k) = k.
Proof.
  intros H. do 64 (destruct k as [|k]; [reflexivity|]). lia.
Qed.

Lemma tr_idx_lt k : (k < 64)%nat -> (tr_idx k < 64)%nat.
Proof. intros H. exact (d4_perm_lt D_tr k H). Qed.

Lemma transposes_op_mul op2 op1 : transposes (op_mul op2 op1) = xorb (transposes op2) (transposes op1).
Proof. destruct op2, op1; vm_compute; reflexivity. Qed.

Lemma spec_q_compose op2 op1 q : length q = 64%nat ->
  spec_q op2 (spec_q op1 q) = spec_q (op_mul op2 op1) q.
Proof.
  intros H. unfold spec_q. rewrite transposes_op_mul.
  destruct (transposes op2), (transposes op1); cbn [xorb]; try reflexivity.
  etransitivity; [|apply (map_nth_seq_id q 0)]. rewrite H.
  apply map_ext_in. intros k Hk. apply in_seq in Hk.
  rewrite nth_map_seq by (apply tr_idx_lt; lia). cbn [plus]. rewrite tr_idx_invol by lia. reflexivity.
Qed.

(* ------------------------------------------- whole-plane group structure *)
Definition wf_in (w h : Z) (src : srcfn) : Prop :=
  forall a b, 0 <= a < w -> 0 <= b < h -> wf_blk (src a b).

Definition tw (op : xop) (w h : Z) : Z := if transposes op then h else w.
Definition th (op : xop) (w h : Z) : Z := if transposes op then w else h.

Lemma full_plane_wf op w h src : wf_in w h src -> wf_in (tw op w h) (th op w h) (full_plane op w h src).
Proof.
  intros H a b Ha Hb. unfold full_plane, spec_plane. cbv zeta. apply d4_apply_wf.
  rewrite !Z.add_0_l.
  destruct op; unfold tw, th in Ha, Hb; cbn [transposes mirror_x mirror_y andb] in *;
    repeat match goal with
           | |- context [?p <? ?q] => destruct (Z.ltb_spec p q)
           end; apply H; lia.
Qed.

Ltac ltb_true :=
  repeat match goal with
         | |- context [?a <? ?b] =>
             replace (a <? b) with true by (symmetry; apply Z.ltb_lt; lia)
         end.

(* op2 after op1 on a plane of w x h blocks = the product operation *)
Theorem full_plane_compose op2 op1 w h src x y :
  wf_in w h src ->
  0 <= x < tw op2 (tw op1 w h) (th op1 w h) -> 0 <= y < th op2 (tw op1 w h) (th op1 w h) ->
  full_plane op2 (tw op1 w h) (th op1 w h) (full_plane op1 w h src) x y =
  full_plane (op_mul op2 op1) w h src x y.
Proof.
  intros Hs Hx Hy.
  destruct op2, op1;
    unfold tw, th in Hx, Hy; cbn [transposes] in Hx, Hy;
    match goal with
    | |- context [op_mul ?a ?b] => let m := eval vm_compute in (op_mul a b) in change (op_mul a b) with m
    end;
    unfold full_plane, spec_plane, tw, th;
    cbn [transposes mirror_x mirror_y andb]; cbv zeta;
    rewrite ?Z.add_0_l; ltb_true; cbn [d4_of];
    rewrite d4_apply_apply by (apply Hs; lia);
    match goal with
    | |- d4_apply (d4_mul ?a ?b) _ = _ => let m := eval vm_compute in (d4_mul a b) in change (d4_mul a b) with m
    end;
    (f_equal; f_equal; lia).
Qed.

Lemma full_plane_none w h src x y : full_plane XNone w h src x y = src x y.
Proof.
  unfold full_plane, spec_plane. cbn [transposes mirror_x mirror_y andb d4_of d4_apply]. cbv zeta.
  rewrite !Z.add_0_l. reflexivity.
Qed.

(* the composition table of the eight operations *)
Lemma op_mul_table :
  let ops := [XNone; XFlipH; XFlipV; XRot180; XTranspose; XRot90; XRot270; XTransverse] in
  map (fun a => map (op_mul a) ops) ops =
  [ [XNone;       XFlipH;      XFlipV;      XRot180;     XTranspose;  XRot90;      XRot270;     XTransverse];
    [XFlipH;      XNone;       XRot180;     XFlipV;      XRot90;      XTranspose;  XTransverse; XRot270];
    [XFlipV;      XRot180;     XNone;       XFlipH;      XRot270;     XTransverse; XTranspose;  XRot90];
    [XRot180;     XFlipV;      XFlipH;      XNone;       XTransverse; XRot270;     XRot90;      XTranspose];
    [XTranspose;  XRot270;     XRot90;      XTransverse; XNone;       XFlipV;      XFlipH;      XRot180];
    [XRot90;      XTransverse; XTranspose;  XRot270;     XFlipH;      XRot180;     XNone;       XFlipV];
    [XRot270;     XTranspose;  XTransverse; XRot90;      XFlipV;      XNone;       XRot180;     XFlipH];
    [XTransverse; XRot90;      XRot270;     XTranspose;  XRot180;     XFlipH;      XFlipV;      XNone] ].
Proof. vm_compute. reflexivity. Qed.

(* ----------------------------------- jpeg_copy_critical_parameters' table rule *)
Lemma zlist_eqb_eq a b : zlist_eqb a b = true -> a = b.
Proof.
  revert b. induction a as [|x a IH]; intros [|y b] H; cbn in H; try discriminate; [reflexivity|].
  apply andb_true_iff in H. destruct H as [H1 H2]. apply Z.eqb_eq in H1. f_equal; [exact H1|apply IH; exact H2].
Qed.

Lemma zlist_eqb_refl a : zlist_eqb a a = true.
Proof. induction a as [|x a IH]; cbn; [reflexivity|]. rewrite Z.eqb_refl. exact IH. Qed.

Definition xf_slots (tr : bool) (slots : list (list Z)) : list (list Z) :=
  map (fun q => if tr then transpose_q q else q) slots.

Lemma slot_of_xf tr slots tq : slot_of (xf_slots tr slots) tq = if tr then transpose_q (slot_of slots tq) else slot_of slots tq.
Proof.
  unfold slot_of, xf_slots. destruct tr.
  - transitivity (nth (Z.to_nat tq) (map transpose_q slots) (transpose_q [])); [reflexivity|apply map_nth].
  - change (map (fun q : list Z => if false then transpose_q q else q) slots) with (map (fun q : list Z => q) slots).
    rewrite map_id. reflexivity.
Qed.

(* accepted: the latched table of every component is the content of its slot *)
Lemma quant_ok_latched im c : quant_ok im = true -> In c (i_comps im) -> c_q c = slot_of (i_slots im) (c_tq c).
Proof.
  unfold quant_ok. intros H Hc. rewrite forallb_forall in H. apply zlist_eqb_eq. apply H. exact Hc.
Qed.

Lemma slot_q_follows im tr c : quant_ok im = true -> In c (i_comps im) ->
  slot_of (xf_slots tr (i_slots im)) (c_tq c) = if tr then transpose_q (c_q c) else c_q c.
Proof. intros H Hc. rewrite slot_of_xf, <- (quant_ok_latched im c H Hc). reflexivity. Qed.

(* ------------------------------------------------- whole-iMCU images *)
Definition plain (op : xop) : xopts := mkxopts op false false false None false.

Definition comp_ok (Mw Mh : Z) (c : comp) : Prop :=
  1 <= c_hs c /\ 1 <= c_vs c /\ c_wb c = Mw * c_hs c /\ c_hb c = Mh * c_vs c /\
  length (c_q c) = 64%nat /\ wf_in (c_wb c) (c_hb c) (c_blk c).

(* every component is Mw x Mh iMCUs; a single component counts as 1x1 *)
Definition whole_image (im : image) (Mw Mh : Z) : Prop :=
  0 < Mw /\ 0 < Mh /\
  i_w im = Mw * (max_hs (i_comps im) * 8) /\ i_h im = Mh * (max_vs (i_comps im) * 8) /\
  (length (i_comps im) = 1%nat -> Forall (fun c => c_hs c = 1 /\ c_vs c = 1) (i_comps im)) /\
  quant_ok im = true /\
  Forall (comp_ok Mw Mh) (i_comps im).

Definition comp_rel (op : xop) (c c' : comp) : Prop :=
  c_hs c' = tw op (c_hs c) (c_vs c) /\ c_vs c' = th op (c_hs c) (c_vs c) /\
  c_wb c' = tw op (c_wb c) (c_hb c) /\ c_hb c' = th op (c_wb c) (c_hb c) /\
  c_tq c' = c_tq c /\ c_q c' = spec_q op (c_q c) /\
  forall x y, 0 <= x < c_wb c' -> 0 <= y < c_hb c' ->
    c_blk c' x y = full_plane op (c_wb c) (c_hb c) (c_blk c) x y.

Definition image_rel (op : xop) (im im' : image) : Prop :=
  i_w im' = tw op (i_w im) (i_h im) /\ i_h im' = th op (i_w im) (i_h im) /\ i_cs im' = i_cs im /\
  Forall2 (comp_rel op) (i_comps im) (i_comps im').

Definition mk_dst (op : xop) (ncs W H mh mv : Z) (c : comp) : comp :=
  let tr := transposes op in
  let hs := fst (dst_samp ncs tr c) in
  let vs := snd (dst_samp ncs tr c) in
  let wb := cdiv (tw op W H * hs) (mh * 8) in
  let hb := cdiv (th op W H * vs) (mv * 8) in
  let g := mkgeom hs vs wb hb (c_wb c) W H mh mv 0 0 in
  mkcomp hs vs wb hb (c_tq c) (if tr then transpose_q (c_q c) else c_q c) (exec_comp op false g (c_blk c)).

Definition samp_mh (ncs : Z) (tr : bool) (cs : list comp) : Z :=
  fold_right (fun s m => Z.max (fst s) m) 1 (map (dst_samp ncs tr) cs).
Definition samp_mv (ncs : Z) (tr : bool) (cs : list comp) : Z :=
  fold_right (fun s m => Z.max (snd s) m) 1 (map (dst_samp ncs tr) cs).

Lemma transform_plain_eq op im :
  quant_ok im = true ->
  let ncs := Z.of_nat (length (i_comps im)) in
  transform im (plain op) =
  inr (mkimage (tw op (i_w im) (i_h im)) (th op (i_w im) (i_h im)) (i_cs im)
         (xf_slots (transposes op) (i_slots im))
         (map (mk_dst op ncs (i_w im) (i_h im) (samp_mh ncs (transposes op) (i_comps im))
                      (samp_mv ncs (transposes op) (i_comps im))) (i_comps im))).
Proof.
  intros Hq. cbv zeta. unfold transform, request_workspace, plain.
  cbn [xo_op xo_perfect xo_trim xo_gray xo_crop xo_slow andb negb]. cbv zeta. rewrite Hq. cbn [negb].
  fold (xf_slots (transposes op) (i_slots im)).
  destruct op; cbn [transposes tw th p_nc p_ow p_oh p_xco p_yco];
    rewrite Nat2Z.id, firstn_all; (f_equal; f_equal; apply map_ext_in; intros c Hc;
    unfold mk_dst; cbv zeta; cbn [transposes tw th]; rewrite (slot_q_follows im _ c Hq Hc); reflexivity).
Qed.

Lemma max_hs_ge1 cs : 1 <= max_hs cs.
Proof. unfold max_hs. induction cs; cbn [fold_right] in *; lia. Qed.
Lemma max_vs_ge1 cs : 1 <= max_vs cs.
Proof. unfold max_vs. induction cs; cbn [fold_right] in *; lia. Qed.

Lemma dst_samp_whole op (cs : list comp) c :
  (length cs = 1%nat -> Forall (fun c => c_hs c = 1 /\ c_vs c = 1) cs) -> In c cs ->
  dst_samp (Z.of_nat (length cs)) (transposes op) c = (tw op (c_hs c) (c_vs c), th op (c_hs c) (c_vs c)).
Proof.
  intros H1 Hin. unfold dst_samp, tw, th.
  destruct (Z.eqb_spec (Z.of_nat (length cs)) 1) as [He|Hne].
  - assert (Hl : length cs = 1%nat) by lia. specialize (H1 Hl). rewrite Forall_forall in H1.
    destruct (H1 c Hin) as [-> ->]. destruct (transposes op); reflexivity.
  - destruct (transposes op); reflexivity.
Qed.

Lemma samp_mh_whole op ncs (cs : list comp) :
  (forall c, In c cs -> dst_samp ncs (transposes op) c = (tw op (c_hs c) (c_vs c), th op (c_hs c) (c_vs c))) ->
  samp_mh ncs (transposes op) cs = tw op (max_hs cs) (max_vs cs) /\
  samp_mv ncs (transposes op) cs = th op (max_hs cs) (max_vs cs).
Proof.
  unfold samp_mh, samp_mv, max_hs, max_vs. induction cs as [|c cs IH]; intros H.
  - unfold tw, th. destruct (transposes op); split; reflexivity.
  - cbn [map fold_right]. rewrite (H c (or_introl eq_refl)). cbn [fst snd].
    destruct IH as [IH1 IH2]; [intros; apply H; right; assumption|]. rewrite IH1, IH2.
    unfold tw, th. destruct (transposes op); split; reflexivity.
Qed.

Lemma max_map_mk op ncs W H mh mv cs :
  max_hs (map (mk_dst op ncs W H mh mv) cs) = samp_mh ncs (transposes op) cs /\
  max_vs (map (mk_dst op ncs W H mh mv) cs) = samp_mv ncs (transposes op) cs.
Proof.
  unfold samp_mh, samp_mv, max_hs, max_vs. induction cs as [|c cs [IH1 IH2]]; [split; reflexivity|].
  cbn [map fold_right]. rewrite IH1, IH2. split; reflexivity.
Qed.

Lemma div_mul_exact k d : 0 < d -> k * d / d = k.
Proof. intros. apply Z.div_mul. lia. Qed.

(* one component of a whole-iMCU image through a plain transform *)
Lemma mk_dst_whole op ncs Mw Mh mh mv c :
  0 < Mw -> 0 < Mh -> 1 <= mh -> 1 <= mv -> comp_ok Mw Mh c ->
  dst_samp ncs (transposes op) c = (tw op (c_hs c) (c_vs c), th op (c_hs c) (c_vs c)) ->
  let c' := mk_dst op ncs (Mw * (mh * 8)) (Mh * (mv * 8)) (tw op mh mv) (th op mh mv) c in
  comp_rel op c c' /\ comp_ok (tw op Mw Mh) (th op Mw Mh) c'.
Proof.
  intros HMw HMh Hmh Hmv (Hhs & Hvs & Hwb & Hhb & Hq & Hsrc) Hsamp. cbv zeta.
  unfold mk_dst. cbv zeta. rewrite Hsamp. cbn [fst snd].
  assert (Ewb : cdiv (tw op (Mw * (mh * 8)) (Mh * (mv * 8)) * tw op (c_hs c) (c_vs c)) (tw op mh mv * 8)
                = tw op (c_wb c) (c_hb c)).
  { unfold tw. destruct (transposes op); rewrite ?Hwb, ?Hhb.
    - replace (Mh * (mv * 8) * c_vs c) with (Mh * c_vs c * (mv * 8)) by lia. apply cdiv_mul. lia.
    - replace (Mw * (mh * 8) * c_hs c) with (Mw * c_hs c * (mh * 8)) by lia. apply cdiv_mul. lia. }
  assert (Ehb : cdiv (th op (Mw * (mh * 8)) (Mh * (mv * 8)) * th op (c_hs c) (c_vs c)) (th op mh mv * 8)
                = th op (c_wb c) (c_hb c)).
  { unfold th. destruct (transposes op); rewrite ?Hwb, ?Hhb.
    - replace (Mw * (mh * 8) * c_hs c) with (Mw * c_hs c * (mh * 8)) by lia. apply cdiv_mul. lia.
    - replace (Mh * (mv * 8) * c_vs c) with (Mh * c_vs c * (mv * 8)) by lia. apply cdiv_mul. lia. }
  rewrite Ewb, Ehb.
  match goal with |- comp_rel _ _ ?c' /\ _ => set (cc := c') end.
  assert (Hblk : forall x y, 0 <= x < tw op (c_wb c) (c_hb c) -> 0 <= y < th op (c_wb c) (c_hb c) ->
                 c_blk cc x y = full_plane op (c_wb c) (c_hb c) (c_blk c) x y).
  { intros x y Hx Hy. unfold cc. cbn [c_blk].
      rewrite exec_comp_meets_spec.
      * unfold spec_comp, full_plane, mirror_cols, mirror_rows.
        cbn [g_hs g_vs g_sw g_sh g_maxh g_maxv g_xco g_yco]. rewrite !Z.mul_0_l.
        unfold tw, th in *. destruct (transposes op);
          rewrite !div_mul_exact by lia; rewrite ?Hwb, ?Hhb; reflexivity.
      * unfold geom_ok. cbn [g_hs g_vs g_xco g_yco]. unfold tw, th. destruct (transposes op); lia.
      * cbn [g_wb]. exact Hx.
      * lia.
      * intros -> _ _. unfold inplace_ok. cbn [g_hs g_sw g_maxh g_swb g_wb g_xco].
        unfold tw, th in *. cbn [transposes] in *. rewrite div_mul_exact by lia. rewrite Hwb. lia. }
  unfold cc in *. clear cc. cbn [c_blk] in Hblk.
  split.
  - unfold comp_rel. cbn [c_hs c_vs c_wb c_hb c_tq c_q c_blk].
    repeat split; try reflexivity.
    + unfold spec_q. destruct (transposes op); [apply transpose_q_spec; exact Hq|reflexivity].
    + exact Hblk.
  - unfold comp_ok. cbn [c_hs c_vs c_wb c_hb c_tq c_q c_blk].
    split; [unfold tw; destruct (transposes op); lia|].
    split; [unfold th; destruct (transposes op); lia|].
    split; [unfold tw; destruct (transposes op); lia|].
    split; [unfold th; destruct (transposes op); lia|].
    split.
    + destruct (transposes op) eqn:E; [|exact Hq].
      rewrite transpose_q_spec by exact Hq. rewrite map_length, seq_length. reflexivity.
    + intros xa xb Ha Hb. rewrite Hblk by assumption.
      apply full_plane_wf; assumption.
Qed.

Lemma Forall2_map_r {A B} (R : A -> B -> Prop) (f : A -> B) l :
  (forall a, In a l -> R a (f a)) -> Forall2 R l (map f l).
Proof.
  induction l as [|a l IH]; intros H; cbn [map]; constructor.
  - apply H. left. reflexivity.
  - apply IH. intros b Hb. apply H. right. exact Hb.
Qed.

Lemma Forall2_compose {A B C} (R1 : A -> B -> Prop) (R2 : B -> C -> Prop) (R3 : A -> C -> Prop) l1 l2 l3 :
  (forall a b c, In a l1 -> R1 a b -> R2 b c -> R3 a c) ->
  Forall2 R1 l1 l2 -> Forall2 R2 l2 l3 -> Forall2 R3 l1 l3.
Proof.
  intros H H12. revert l3. induction H12 as [|a b l1 l2 Hab H12 IH]; intros l3 H23.
  - inversion H23. constructor.
  - inversion H23 as [|b' c l2' l3' Hbc H23']; subst. constructor.
    + apply (H a b c); [left; reflexivity|assumption|assumption].
    + apply IH; [|assumption]. intros a0 b0 c0 Hin. apply H. right. exact Hin.
Qed.

(* a plain transform of a whole-iMCU image succeeds, every destination block is
   the whole-plane specification, and the result is again a whole-iMCU image *)
Theorem transform_plain_whole op im Mw Mh :
  whole_image im Mw Mh ->
  exists im', transform im (plain op) = inr im' /\ image_rel op im im' /\
              whole_image im' (tw op Mw Mh) (th op Mw Mh).
Proof.
  intros (HMw & HMh & HW & HH & H1 & Hqok & Hok).
  pose proof (transform_plain_eq op im Hqok) as HT. cbv zeta in HT.
  eexists. split; [exact HT|].
  set (cs := i_comps im) in *. set (ncs := Z.of_nat (length cs)) in *.
  assert (Hs : forall c, In c cs -> dst_samp ncs (transposes op) c = (tw op (c_hs c) (c_vs c), th op (c_hs c) (c_vs c))).
  { intros c Hc. apply dst_samp_whole; assumption. }
  destruct (samp_mh_whole op ncs cs Hs) as [Emh Emv]. rewrite Emh, Emv, HW, HH.
  pose proof (max_hs_ge1 cs) as Gh. pose proof (max_vs_ge1 cs) as Gv.
  assert (Hmk : forall c, In c cs ->
            comp_rel op c (mk_dst op ncs (Mw * (max_hs cs * 8)) (Mh * (max_vs cs * 8))
                                  (tw op (max_hs cs) (max_vs cs)) (th op (max_hs cs) (max_vs cs)) c) /\
            comp_ok (tw op Mw Mh) (th op Mw Mh)
                    (mk_dst op ncs (Mw * (max_hs cs * 8)) (Mh * (max_vs cs * 8))
                            (tw op (max_hs cs) (max_vs cs)) (th op (max_hs cs) (max_vs cs)) c)).
  { intros c Hc. apply mk_dst_whole; try assumption; try lia.
    - rewrite Forall_forall in Hok. apply Hok. exact Hc.
    - apply Hs. exact Hc. }
  split.
  - unfold image_rel. cbn [i_w i_h i_cs i_comps]. rewrite HW, HH.
    repeat split; try reflexivity.
    apply Forall2_map_r. intros c Hc. apply (Hmk c Hc).
  - unfold whole_image. cbn [i_w i_h i_comps i_slots].
    destruct (max_map_mk op ncs (Mw * (max_hs cs * 8)) (Mh * (max_vs cs * 8))
                (tw op (max_hs cs) (max_vs cs)) (th op (max_hs cs) (max_vs cs)) cs) as [E1 E2].
    rewrite E1, E2, Emh, Emv.
    split; [unfold tw; destruct (transposes op); lia|].
    split; [unfold th; destruct (transposes op); lia|].
    split; [unfold tw; destruct (transposes op); lia|].
    split; [unfold th; destruct (transposes op); lia|].
    split; [|split].
    + rewrite map_length. intros Hl. specialize (H1 Hl).
      rewrite Forall_map. rewrite Forall_forall in *. intros c Hc.
      unfold mk_dst. cbv zeta. cbn [c_hs c_vs]. rewrite (Hs c Hc). cbn [fst snd].
      destruct (H1 c Hc) as [-> ->]. unfold tw, th. destruct (transposes op); split; reflexivity.
    + unfold quant_ok. cbn [i_slots i_comps]. apply (proj2 (forallb_forall _ _)). intros c' Hc'.
      apply in_map_iff in Hc'. destruct Hc' as (c & <- & Hc).
      unfold mk_dst. cbv zeta. cbn [c_q c_tq].
      fold (xf_slots (transposes op) (i_slots im)).
      rewrite (slot_q_follows im _ c Hqok Hc). apply zlist_eqb_refl.
    + rewrite Forall_map. rewrite Forall_forall. intros c Hc. apply (Hmk c Hc).
Qed.

Lemma full_plane_ext op w h src src' x y :
  (forall a b, 0 <= a < w -> 0 <= b < h -> src a b = src' a b) ->
  0 <= x < tw op w h -> 0 <= y < th op w h ->
  full_plane op w h src x y = full_plane op w h src' x y.
Proof.
  intros H Hx Hy. unfold full_plane, spec_plane. cbv zeta. rewrite !Z.add_0_l.
  destruct op; unfold tw, th in Hx, Hy; cbn [transposes mirror_x mirror_y andb] in *;
    repeat match goal with
           | |- context [?p <? ?q] => destruct (Z.ltb_spec p q)
           end; f_equal; apply H; lia.
Qed.

Lemma tw_compose op2 op1 w h :
  tw op2 (tw op1 w h) (th op1 w h) = tw (op_mul op2 op1) w h /\
  th op2 (tw op1 w h) (th op1 w h) = th (op_mul op2 op1) w h.
Proof.
  unfold tw, th. rewrite transposes_op_mul.
  destruct (transposes op2), (transposes op1); split; reflexivity.
Qed.

Lemma comp_rel_compose op1 op2 c c1 c2 :
  length (c_q c) = 64%nat -> wf_in (c_wb c) (c_hb c) (c_blk c) ->
  comp_rel op1 c c1 -> comp_rel op2 c1 c2 -> comp_rel (op_mul op2 op1) c c2.
Proof.
  intros Hq Hwf (A1 & A2 & A3 & A4 & A7 & A5 & A6) (B1 & B2 & B3 & B4 & B7 & B5 & B6).
  unfold comp_rel.
  destruct (tw_compose op2 op1 (c_hs c) (c_vs c)) as [S1 S2].
  destruct (tw_compose op2 op1 (c_wb c) (c_hb c)) as [D1 D2].
  rewrite B1, B2, B3, B4, B7, B5, A1, A2, A3, A4, A7, A5.
  rewrite S1, S2, D1, D2, spec_q_compose by exact Hq.
  repeat split; try reflexivity.
  intros x y Hx Hy. rewrite B6 by (rewrite ?B3, ?B4, ?A3, ?A4, ?D1, ?D2; assumption).
  rewrite A3, A4.
  rewrite (full_plane_ext op2 _ _ (c_blk c1) (full_plane op1 (c_wb c) (c_hb c) (c_blk c))).
  - apply full_plane_compose; [exact Hwf| |]; rewrite ?D1, ?D2; assumption.
  - intros a b Ha Hb. apply A6; rewrite ?A3, ?A4; assumption.
  - rewrite D1. exact Hx.
  - rewrite D2. exact Hy.
Qed.

(* the group law on images: op1 then op2 = the product operation *)
Theorem transform_compose_whole op1 op2 im Mw Mh :
  whole_image im Mw Mh ->
  exists im1 im2, transform im (plain op1) = inr im1 /\ transform im1 (plain op2) = inr im2 /\
                  image_rel (op_mul op2 op1) im im2.
Proof.
  intros Hw.
  destruct (transform_plain_whole op1 im Mw Mh Hw) as (im1 & T1 & R1 & W1).
  destruct (transform_plain_whole op2 im1 _ _ W1) as (im2 & T2 & R2 & _).
  exists im1, im2. split; [exact T1|]. split; [exact T2|].
  destruct R1 as (a1 & a2 & a3 & a4). destruct R2 as (b1 & b2 & b3 & b4).
  destruct (tw_compose op2 op1 (i_w im) (i_h im)) as [S1 S2].
  unfold image_rel. rewrite b1, b2, b3, a1, a2, a3, S1, S2.
  repeat split; try reflexivity.
  apply Forall2_compose with (R1 := comp_rel op1) (R2 := comp_rel op2) (l2 := i_comps im1); [|assumption|assumption].
  intros c c1 c2 Hin Hc1 Hc2.
  destruct Hw as (_ & _ & _ & _ & _ & _ & Hok). rewrite Forall_forall in Hok.
  destruct (Hok c Hin) as (_ & _ & _ & _ & Hq & Hwf).
  apply (comp_rel_compose op1 op2 c c1 c2); assumption.
Qed.

(* images that agree on everything the decoder can see *)
Definition image_same (im im' : image) : Prop := image_rel XNone im im'.

Lemma image_same_unfold im im' : image_same im im' <->
  i_w im' = i_w im /\ i_h im' = i_h im /\ i_cs im' = i_cs im /\
  Forall2 (fun c c' => c_hs c' = c_hs c /\ c_vs c' = c_vs c /\ c_wb c' = c_wb c /\ c_hb c' = c_hb c /\
                       c_tq c' = c_tq c /\ c_q c' = c_q c /\
                       forall x y, 0 <= x < c_wb c' -> 0 <= y < c_hb c' -> c_blk c' x y = c_blk c x y)
          (i_comps im) (i_comps im').
Proof.
  unfold image_same, image_rel, comp_rel, tw, th, spec_q. cbn [transposes].
  split; intros (H1 & H2 & H3 & H4); repeat split; try assumption;
    (eapply Forall2_impl; [|exact H4]); cbv beta; intros c c' (E1 & E2 & E3 & E4 & E7 & E5 & E6);
    repeat split; try assumption; intros x y Hx Hy; specialize (E6 x y Hx Hy);
    rewrite full_plane_none in *; exact E6.
Qed.

Corollary group_laws_whole im Mw Mh (ops : xop * xop) :
  whole_image im Mw Mh ->
  In ops [(XRot90, XRot270); (XRot270, XRot90); (XRot180, XRot180); (XFlipH, XFlipH); (XFlipV, XFlipV);
          (XTranspose, XTranspose); (XTransverse, XTransverse); (XNone, XNone)] ->
  exists im1 im2, transform im (plain (fst ops)) = inr im1 /\ transform im1 (plain (snd ops)) = inr im2 /\
                  image_same im im2.
Proof.
  intros Hw Hin.
  destruct (transform_compose_whole (fst ops) (snd ops) im Mw Mh Hw) as (im1 & im2 & T1 & T2 & R).
  exists im1, im2. split; [exact T1|]. split; [exact T2|].
  unfold image_same.
  cbn [In] in Hin.
  repeat (destruct Hin as [<-|Hin]; [exact R|]). contradiction.
Qed.

(* derived operations are products of generators, on images *)
Corollary generators_whole im Mw Mh (t : xop * xop * xop) :
  whole_image im Mw Mh ->
  In t [(XTranspose, XFlipH, XRot90); (XFlipH, XTranspose, XRot270); (XTranspose, XFlipV, XRot270);
        (XRot180, XTranspose, XTransverse); (XFlipH, XFlipV, XRot180); (XFlipV, XFlipH, XRot180);
        (XRot90, XRot90, XRot180); (XRot90, XRot180, XRot270)] ->
  exists im1 im2, transform im (plain (fst (fst t))) = inr im1 /\ transform im1 (plain (snd (fst t))) = inr im2 /\
                  image_rel (snd t) im im2.
Proof.
  intros Hw Hin.
  destruct (transform_compose_whole (fst (fst t)) (snd (fst t)) im Mw Mh Hw) as (im1 & im2 & T1 & T2 & R).
  exists im1, im2. split; [exact T1|]. split; [exact T2|].
  cbn [In] in Hin.
  repeat (destruct Hin as [<-|Hin]; [exact R|]). contradiction.
Qed.

(* -------------------- tables and sampling factors, any options, any image *)
Lemma in_firstn_in {A} n (l : list A) x : In x (firstn n l) -> In x l.
Proof.
  revert l. induction n as [|n IH]; intros [|a l] H; cbn in H; try contradiction.
  destruct H as [->|H]; [left; reflexivity|right; apply IH; exact H].
Qed.

(* accepted => every component keeps ITS OWN table: the table latched for it in the source
   (which then is also the content of its slot), transposed where the operation transposes;
   it is what the destination holds in the slot the component refers to *)
Theorem transform_tables_follow im o im' :
  transform im o = inr im' ->
  Forall (fun c => length (c_q c) = 64%nat) (i_comps im) ->
  quant_ok im = true /\
  exists nc, (nc <= length (i_comps im))%nat /\
    Forall2 (fun c c' => c_tq c' = c_tq c /\ c_q c' = spec_q (xo_op o) (c_q c) /\
                         slot_of (i_slots im') (c_tq c') = c_q c' /\
                         (c_hs c', c_vs c') = dst_samp (Z.of_nat nc) (transposes (xo_op o)) c)
            (firstn nc (i_comps im)) (i_comps im').
Proof.
  unfold transform. intros H Hq.
  destruct (request_workspace im o) as [e|p] eqn:Ep; [discriminate|].
  destruct (quant_ok im) eqn:Eq; cbn [negb] in H; [|discriminate].
  split; [reflexivity|].
  destruct (xo_gray o && negb (gray_ok im)); [discriminate|].
  injection H as <-. cbn [i_comps i_slots].
  assert (Hnc : p_nc p = Z.of_nat (length (i_comps im)) \/ (p_nc p = 1 /\ (1 <= length (i_comps im))%nat)).
  { revert Ep. unfold request_workspace. cbv zeta.
    destruct (xo_perfect o && _); [discriminate|].
    destruct (match xo_crop o with Some _ => _ | None => _ end) as [e|[[[ow1 oh1] xco] yco]]; [discriminate|].
    destruct (xo_gray o && (i_cs im =? 3) && (Z.of_nat (length (i_comps im)) =? 3)) eqn:Eg.
    - apply andb_true_iff in Eg. destruct Eg as [_ Eg]. apply Z.eqb_eq in Eg.
      destruct (xo_op o); intros H; injection H as <-; cbn [p_nc]; right; split; try reflexivity; lia.
    - destruct (xo_op o); intros H; injection H as <-; cbn [p_nc]; left; reflexivity. }
  exists (Z.to_nat (p_nc p)). split; [destruct Hnc as [->|[-> ?]]; lia|].
  rewrite Z2Nat.id by (destruct Hnc as [->|[-> ?]]; lia).
  apply Forall2_map_r. intros c Hc. cbn [c_q c_hs c_vs c_tq].
  apply in_firstn_in in Hc.
  fold (xf_slots (transposes (xo_op o)) (i_slots im)).
  rewrite (slot_q_follows im _ c Eq Hc).
  split; [reflexivity|]. split; [|split; [reflexivity|]].
  - unfold spec_q. destruct (transposes (xo_op o)); [|reflexivity].
    apply transpose_q_spec. rewrite Forall_forall in Hq. apply Hq. exact Hc.
  - destruct (dst_samp _ _ c); reflexivity.
Qed.

(* a redefined slot (some component's latched table differs from its slot) is refused *)
Theorem transform_refuses_reuse im o p :
  request_workspace im o = inr p -> quant_ok im = false -> transform im o = inl EQuantReuse.
Proof. intros Hp Hq. unfold transform. rewrite Hp, Hq. reflexivity. Qed.

Lemma quant_ok_false_iff im :
  quant_ok im = false <-> exists c, In c (i_comps im) /\ c_q c <> slot_of (i_slots im) (c_tq c).
Proof.
  unfold quant_ok. split.
  - intros H. induction (i_comps im) as [|c cs IH]; cbn [forallb] in H; [discriminate|].
    apply andb_false_iff in H. destruct H as [H|H].
    + exists c. split; [left; reflexivity|]. intros E. rewrite <- E, zlist_eqb_refl in H. discriminate.
    + destruct (IH H) as (c' & Hin & Hne). exists c'. split; [right; exact Hin|exact Hne].
  - intros (c & Hin & Hne). destruct (forallb _ _) eqn:E; [|reflexivity].
    rewrite forallb_forall in E. specialize (E c Hin). apply zlist_eqb_eq in E. contradiction.
Qed.

(* ------------------------------------------------------------ non-vacuity *)
Definition int16b (v : Z) : bool := (-32768 <=? v) && (v <=? 32767).
Lemma wf_blk_dec b : Nat.eqb (length b) 64 && forallb int16b b = true -> wf_blk b.
Proof.
  intros H. apply andb_true_iff in H. destruct H as [H1 H2]. split; [apply Nat.eqb_eq; exact H1|].
  rewrite Forall_forall. rewrite forallb_forall in H2. intros v Hv. specialize (H2 v Hv).
  unfold int16b in H2. unfold int16. lia.
Qed.

(* a block with the extreme values at odd rows and columns *)
Definition ex_blk (s : Z) : blk :=
  map (fun k => if Nat.eqb k 9 then -32768 else if Nat.eqb k 19 then 32767 else Z.of_nat k * 37 - s) (seq 0 64).

Definition ex_comp (hs vs mw mh : Z) (s : Z) : comp :=
  mkcomp hs vs (mw * hs) (mh * vs) 0 (map (fun k => Z.of_nat k + 1) (seq 0 64))
         (fun x y => ex_blk (if (0 <=? x) && (x <? 8) && (0 <=? y) && (y <? 8) then s + 7 * x + 100 * y else s)).

(* 4:2:0, 3 x 2 iMCUs = 48 x 32 pixels *)
Definition ex_image : image :=
  mkimage 48 32 3 [map (fun k => Z.of_nat k + 1) (seq 0 64)] [ex_comp 2 2 3 2 0; ex_comp 1 1 3 2 500; ex_comp 1 1 3 2 900].

Lemma ex_blk_wf x y s : 0 <= x < 8 -> 0 <= y < 8 -> In s [0; 500; 900] -> wf_blk (ex_blk (s + 7 * x + 100 * y)).
Proof.
  intros Hx Hy Hs.
  assert (Hx' : In x [0;1;2;3;4;5;6;7]) by (cbn; lia).
  assert (Hy' : In y [0;1;2;3;4;5;6;7]) by (cbn; lia).
  cbn [In] in Hx', Hy', Hs.
  repeat match goal with H : _ \/ _ |- _ => destruct H as [<-|H] | H : False |- _ => contradiction end;
    apply wf_blk_dec; vm_compute; reflexivity.
Qed.

Lemma ex_comp_ok hs vs s : 1 <= hs -> 1 <= vs -> 3 * hs <= 8 -> 2 * vs <= 8 -> In s [0; 500; 900] ->
  comp_ok 3 2 (ex_comp hs vs 3 2 s).
Proof.
  intros H1 H2 H3 H4 Hs. unfold comp_ok, ex_comp. cbn [c_hs c_vs c_wb c_hb c_tq c_q c_blk].
  split; [exact H1|]. split; [exact H2|]. split; [reflexivity|]. split; [reflexivity|]. split; [reflexivity|].
  intros a b Ha Hb.
  replace ((0 <=? a) && (a <? 8) && (0 <=? b) && (b <? 8)) with true by lia.
  apply ex_blk_wf; try assumption; lia.
Qed.

Lemma ex_image_whole : whole_image ex_image 3 2.
Proof.
  unfold whole_image, ex_image. cbn [i_w i_h i_comps length].
  split; [lia|]. split; [lia|]. split; [reflexivity|]. split; [reflexivity|]. split; [discriminate|].
  split; [vm_compute; reflexivity|].
  apply Forall_cons; [apply ex_comp_ok; cbn [In]; auto; lia|].
  apply Forall_cons; [apply ex_comp_ok; cbn [In]; auto; lia|].
  apply Forall_cons; [apply ex_comp_ok; cbn [In]; auto; lia|].
  apply Forall_nil.
Qed.
