(* MarkerProofs.v -- proofs about model/MarkerRT.v (C16): COM/APPn markers written by
   jpeg_write_marker and read back by save_marker with a length limit; SOFn, SOS, DRI,
   JFIF APP0 and Adobe APP14 round trips. *)
From Coq Require Import List ZArith Bool Lia ZifyBool.
From LJT Require Import lib.Sweep gen.GenIccConst model.MarkerRT proofs.C16Consts proofs.IccProofs.
Import ListNotations.
Local Open Scope Z_scope.
Ltac Zify.zify_post_hook ::= Z.div_mod_to_equations.

Lemma Zlength_nonneg' {A} (l : list A) : 0 <= Zlength l.
Proof. rewrite Zlength_correct. lia. Qed.
Lemma Zlength_app' {A} (a b : list A) : Zlength (a ++ b) = Zlength a + Zlength b.
Proof. rewrite !Zlength_correct, app_length. lia. Qed.
Lemma Zlength_map' {A B} (f : A -> B) l : Zlength (map f l) = Zlength l.
Proof. rewrite !Zlength_correct, map_length. reflexivity. Qed.

Definition is_byte (b : Z) : Prop := 0 <= b < 256.
Lemma byte_of_id b : is_byte b -> byte_of b = b.
Proof. unfold is_byte, byte_of. intros. apply Z.mod_small. assumption. Qed.
Lemma map_byte_of_id l : Forall is_byte l -> map byte_of l = l.
Proof. induction 1; cbn [map]; [reflexivity|]. rewrite byte_of_id by assumption. f_equal. assumption. Qed.

Lemma get_emit_2bytes v r : 0 <= v < 65536 -> get_2bytes (emit_2bytes v ++ r) = Some (v, r).
Proof. intros H. unfold emit_2bytes, get_2bytes. cbn [app]. f_equal. f_equal. lia. Qed.

Lemma app_or_com_byte code : is_app_or_com code = true -> is_byte code.
Proof.
  unfold is_app_or_com, is_byte, M_COM, M_APP0, M_APP15. intros H.
  apply orb_true_iff in H as [H|H]; [apply Z.eqb_eq in H; lia|].
  apply andb_true_iff in H as [H1 H2]. apply Z.leb_le in H1, H2. lia.
Qed.

(* ------------------------------------------------------------------ writer *)
Theorem write_marker_ok code data : Zlength data <= WRITE_MARKER_MAX_DATALEN ->
  write_marker (code, data) = Some (emit_marker code ++ emit_2bytes (Zlength data + 2) ++ map byte_of data).
Proof.
  intros H. unfold write_marker, write_marker_header. cbn [fst snd].
  replace (WRITE_MARKER_MAX_DATALEN <? Zlength data) with false by (symmetry; apply Z.ltb_ge; assumption).
  rewrite <- app_assoc. reflexivity.
Qed.
Theorem write_marker_too_long code data : WRITE_MARKER_MAX_DATALEN < Zlength data -> write_marker (code, data) = None.
Proof.
  intros H. unfold write_marker, write_marker_header. cbn [fst snd].
  replace (WRITE_MARKER_MAX_DATALEN <? Zlength data) with true by (symmetry; apply Z.ltb_lt; assumption). reflexivity.
Qed.

(* ------------------------------------------------------------------ reader *)
(* what the decompressor keeps of one segment under the limits c *)
Definition kept_len (c : cfg) (s : segment) : Z := Z.min (Zlength (snd s)) (c (fst s)).
Definition saved_under (c : cfg) (s : segment) : list saved :=
  if c (fst s) =? 0 then []
  else [mkSaved (fst s) (Zlength (snd s)) (firstn (Z.to_nat (kept_len c s)) (map byte_of (snd s)))].

Lemma firstn_app_le {A} n (a b : list A) : (n <= length a)%nat -> firstn n (a ++ b) = firstn n a.
Proof. intros H. rewrite firstn_app. replace (n - length a)%nat with 0%nat by lia. cbn. apply app_nil_r. Qed.

Lemma process_app_written c code data h acc rest :
  is_app_or_com code = true -> Zlength data <= WRITE_MARKER_MAX_DATALEN -> 0 <= c code ->
  exists h', process_app c code h acc (emit_2bytes (Zlength data + 2) ++ map byte_of data ++ rest)
             = Some (h', acc ++ saved_under c (code, data), rest).
Proof.
  intros Hc Hl Hlim. unfold process_app, saved_under. cbn [fst snd].
  pose proof (Zlength_nonneg' data) as Hn. unfold WRITE_MARKER_MAX_DATALEN in Hl.
  destruct (c code =? 0) eqn:E0.
  - unfold skip_or_examine. rewrite get_emit_2bytes by lia.
    replace (Zlength data + 2 - 2) with (Zlength data) by lia.
    replace (Zlength (map byte_of data ++ rest) <? Zlength data) with false.
    2:{ symmetry. apply Z.ltb_ge. rewrite Zlength_app', Zlength_map'. pose proof (Zlength_nonneg' rest). lia. }
    replace (Z.to_nat (Zlength data)) with (length (map byte_of data)) by (rewrite map_length, Zlength_correct; lia).
    rewrite skipn_app_exact. rewrite app_nil_r. eauto.
  - unfold save_marker. rewrite get_emit_2bytes by lia.
    replace (Zlength data + 2 - 2) with (Zlength data) by lia.
    replace (0 <=? Zlength data) with true by (symmetry; apply Z.leb_le; lia).
    replace (Zlength (map byte_of data ++ rest) <? Zlength data) with false.
    2:{ symmetry. apply Z.ltb_ge. rewrite Zlength_app', Zlength_map'. pose proof (Zlength_nonneg' rest). lia. }
    assert (Hsk : skipn (Z.to_nat (Zlength data)) (map byte_of data ++ rest) = rest).
    { replace (Z.to_nat (Zlength data)) with (length (map byte_of data)) by (rewrite map_length, Zlength_correct; lia).
      apply skipn_app_exact. }
    rewrite Hsk. rewrite (byte_of_id code) by (apply app_or_com_byte; assumption).
    unfold kept_len. cbn [fst snd].
    assert (El : (if Zlength data <? c code then Zlength data else c code) = Z.min (Zlength data) (c code)).
    { destruct (Zlength data <? c code) eqn:E; [apply Z.ltb_lt in E | apply Z.ltb_ge in E]; lia. }
    rewrite El. rewrite firstn_app_le by (rewrite map_length; rewrite Zlength_correct in *; lia).
    eexists. reflexivity.
Qed.

(* the input that follows the run of markers: not a COM/APPn marker *)
Definition stops (rest : list Z) : Prop :=
  match next_marker rest with Some (code, _) => is_app_or_com code = false | None => True end.

Lemma next_marker_emit code r : is_byte code -> next_marker (emit_marker code ++ r) = Some (code, r).
Proof. intros H. unfold emit_marker. cbn [app next_marker]. rewrite byte_of_id by assumption. reflexivity. Qed.

Definition seg_ok (s : segment) : Prop :=
  is_app_or_com (fst s) = true /\ Zlength (snd s) <= WRITE_MARKER_MAX_DATALEN.

(* (4) a run of COM/APPn segments written by jpeg_write_marker, read back under limits c:
   every segment whose code has a non-zero limit appears, in stream order, with
   original_length = its length and data = its first min(length, limit) bytes *)
Theorem markers_roundtrip c segs : (forall k, 0 <= c k) -> Forall seg_ok segs ->
  forall rest, stops rest ->
  exists bytes, write_markers segs = Some bytes /\
    forall fuel h acc, (length segs < fuel)%nat ->
      exists h', read_app_markers fuel c h acc (bytes ++ rest)
                 = Some (h', acc ++ flat_map (saved_under c) segs, rest).
Proof.
  intros Hc HF rest Hstop. induction HF as [|s segs (Hs1 & Hs2) HF IH].
  - exists []. split; [reflexivity|]. intros fuel h acc Hf. destruct fuel; [cbn in Hf; lia|].
    cbn [app read_app_markers flat_map]. rewrite app_nil_r. unfold stops in Hstop.
    destruct (next_marker rest) as [[code r]|]; [rewrite Hstop|]; eauto.
  - destruct IH as (bytes & Eb & IH). destruct s as [code data]. cbn [fst snd] in *.
    cbn [write_markers]. rewrite write_marker_ok by assumption. rewrite Eb. eexists. split; [reflexivity|].
    intros fuel h acc Hf. destruct fuel; [cbn in Hf; lia|]. cbn [length] in Hf.
    cbn [read_app_markers]. rewrite <- !app_assoc.
    rewrite next_marker_emit by (apply app_or_com_byte; assumption). rewrite Hs1.
    destruct (process_app_written c code data h acc (bytes ++ rest) Hs1 Hs2 (Hc code)) as (h1 & P).
    rewrite P. destruct (IH fuel h1 (acc ++ saved_under c (code, data)) ltac:(lia)) as (h' & R).
    exists h'. rewrite R. cbn [flat_map]. rewrite app_assoc. reflexivity.
Qed.

(* limits installed through jpeg_save_markers are never negative, and APP0/APP14 keep their floor *)
Definition cfg_wf (c : cfg) : Prop :=
  (forall k, 0 <= c k) /\ (c M_APP0 = 0 \/ APP0_DATA_LEN <= c M_APP0) /\ (c M_APP14 = 0 \/ APP14_DATA_LEN <= c M_APP14).
Lemma cfg_init_wf : cfg_wf cfg_init.
Proof. unfold cfg_wf, cfg_init. repeat split; try lia; left; reflexivity. Qed.
Lemma jpeg_save_markers_wf c code limit : cfg_wf c -> 0 <= limit -> cfg_wf (jpeg_save_markers c code limit).
Proof.
  intros (W1 & W2 & W3) Hl. unfold jpeg_save_markers. destruct (is_app_or_com code) eqn:E; [|repeat split; assumption].
  assert (He : 0 <= eff_limit code limit).
  { unfold eff_limit, APP0_DATA_LEN, APP14_DATA_LEN. destruct (limit =? 0); [lia|].
    destruct ((code =? M_APP0) && (limit <? 14)); [lia|]. destruct ((code =? M_APP14) && (limit <? 12)); lia. }
  repeat split.
  - intros k. destruct (k =? code); [assumption | apply W1].
  - destruct (M_APP0 =? code) eqn:E0; [|assumption]. apply Z.eqb_eq in E0. subst code.
    unfold eff_limit. destruct (limit =? 0) eqn:L0; [left; reflexivity|]. right.
    rewrite Z.eqb_refl. cbn [andb]. destruct (limit <? APP0_DATA_LEN) eqn:L1; [lia|].
    apply Z.ltb_ge in L1. change (M_APP0 =? M_APP14) with false. cbn [andb]. assumption.
  - destruct (M_APP14 =? code) eqn:E0; [|assumption]. apply Z.eqb_eq in E0. subst code.
    unfold eff_limit. destruct (limit =? 0) eqn:L0; [left; reflexivity|]. right.
    change (M_APP14 =? M_APP0) with false. cbn [andb]. rewrite Z.eqb_refl. cbn [andb].
    destruct (limit <? APP14_DATA_LEN) eqn:L1; [lia|]. apply Z.ltb_ge in L1. assumption.
Qed.

(* ------------------------------------------------------------------- SOFn *)
Definition comp_ok (c : comp) : Prop :=
  is_byte (c_id c) /\ 0 <= c_h c < 16 /\ 0 <= c_v c < 16 /\ is_byte (c_tq c).
Definition frame_ok (f : frame) : Prop :=
  is_byte (f_prec f) /\ 1 <= f_height f <= 65535 /\ 1 <= f_width f <= 65535 /\
  1 <= Zlength (f_comps f) <= 255 /\ Forall comp_ok (f_comps f).

Lemma get_comps_emit cs rest : Forall comp_ok cs ->
  get_comps (length cs) (flat_map emit_comp cs ++ rest) = Some (cs, rest).
Proof.
  induction 1 as [|c cs (H1 & H2 & H3 & H4) HF IH]; [reflexivity|].
  cbn [length flat_map get_comps emit_comp app]. rewrite IH. destruct c as [id h v tq]. cbn [c_id c_h c_v c_tq] in *.
  unfold is_byte in *. f_equal. f_equal. f_equal. unfold byte_of.
  rewrite (Z.mod_small id), (Z.mod_small tq), (Z.mod_small (h * 16 + v)) by lia.
  f_equal; lia.
Qed.

(* (5) SOFn: every field written by emit_sof is read back by get_sof *)
Theorem sof_roundtrip code f : frame_ok f ->
  exists body, emit_sof code f = Some (emit_marker code ++ body) /\
               forall rest, get_sof (body ++ rest) = Some (f, rest).
Proof.
  intros (Hp & Hh & Hw & Hn & Hc). unfold emit_sof.
  replace ((65535 <? f_height f) || (65535 <? f_width f)) with false.
  2:{ symmetry. apply orb_false_iff. split; apply Z.ltb_ge; lia. }
  eexists. split; [reflexivity|]. intros rest. unfold get_sof.
  rewrite <- !app_assoc. rewrite get_emit_2bytes by lia. cbn [app].
  rewrite get_emit_2bytes by lia. rewrite get_emit_2bytes by lia.
  unfold is_byte in Hp. rewrite (byte_of_id (f_prec f)), (byte_of_id (Zlength (f_comps f))) by (unfold is_byte; lia).
  replace ((f_height f <=? 0) || (f_width f <=? 0) || (Zlength (f_comps f) <=? 0)) with false.
  2:{ symmetry. repeat (apply orb_false_iff; split); apply Z.leb_gt; lia. }
  replace (3 * Zlength (f_comps f) + 2 + 5 + 1 - 8 =? Zlength (f_comps f) * 3) with true by (symmetry; apply Z.eqb_eq; lia).
  cbn [negb]. replace (Z.to_nat (Zlength (f_comps f))) with (length (f_comps f)) by (rewrite Zlength_correct; lia).
  rewrite get_comps_emit by assumption. destruct f; reflexivity.
Qed.
Theorem sof_too_big code f : 65535 < f_height f \/ 65535 < f_width f -> emit_sof code f = None.
Proof.
  intros H. unfold emit_sof. replace ((65535 <? f_height f) || (65535 <? f_width f)) with true; [reflexivity|].
  symmetry. apply orb_true_iff. destruct H; [left | right]; apply Z.ltb_lt; assumption.
Qed.
(* the SOF code carries the progressive / lossless / arithmetic flags (the compressor never
   combines lossless with progressive or arithmetic coding) *)
Theorem sof_code_roundtrip arith prog lossless baseline : (lossless = true -> arith = false /\ prog = false) ->
  sof_flags (sof_code arith prog lossless baseline) = Some (prog, lossless, arith).
Proof.
  intros H. destruct arith, prog, lossless, baseline; try reflexivity; destruct (H eq_refl); discriminate.
Qed.

(* -------------------------------------------------------------------- DRI *)
Theorem dri_roundtrip n rest : 0 <= n < 65536 ->
  exists body, emit_dri n = emit_marker M_DRI ++ body /\ get_dri (body ++ rest) = Some (n, rest).
Proof.
  intros H. unfold emit_dri. eexists. split; [reflexivity|]. unfold get_dri.
  rewrite <- app_assoc, get_emit_2bytes by lia. cbn [Z.eqb negb Pos.eqb]. apply get_emit_2bytes. assumption.
Qed.

(* -------------------------------------------------------------------- SOS *)
Fixpoint increasing (lo : nat) (l : list nat) : Prop :=
  match l with [] => True | x :: r => (lo <= x)%nat /\ increasing (S x) r end.
Definition scomp_ok (nids : nat) (c : scomp) : Prop :=
  (sc_ci c < nids)%nat /\ (sc_ci c < 4)%nat /\ 0 <= sc_dc c < 16 /\ 0 <= sc_ac c < 16.
Definition scan_ok (ids : list Z) (s : scan) : Prop :=
  1 <= Zlength (s_comps s) <= 4 /\ Forall (scomp_ok (length ids)) (s_comps s) /\
  increasing 0 (map sc_ci (s_comps s)) /\
  is_byte (s_Ss s) /\ is_byte (s_Se s) /\ 0 <= s_Ah s < 16 /\ 0 <= s_Al s < 16.

(* the scan as the decompressor sees it: table selectors the writer zeroed stay zero *)
Definition scan_seen (keep lossless : bool) (s : scan) : scan :=
  mkScan (map (fun c => mkScomp (sc_ci c) (sos_td keep lossless s c) (sos_ta s c)) (s_comps s))
         (s_Ss s) (s_Se s) (s_Ah s) (s_Al s).

Lemma find_comp_found ids : forall base ci i, NoDup ids -> (ci < length ids)%nat -> (base + ci < 4)%nat ->
  (i <= base + ci)%nat -> find_comp ids base i (nth ci ids 0) = Some (base + ci)%nat.
Proof.
  induction ids as [|id r IH]; intros base ci i ND Hl Hb Hi; [cbn in Hl; lia|].
  cbn [find_comp]. replace (4 <=? Z.of_nat base) with false by (symmetry; apply Z.leb_gt; lia).
  destruct ci as [|ci].
  - cbn [nth]. rewrite Z.eqb_refl. replace (Nat.leb i base) with true by (symmetry; apply Nat.leb_le; lia).
    cbn [andb]. f_equal. lia.
  - cbn [nth]. inversion ND as [|? ? Hnin ND']; subst. cbn [length] in Hl.
    replace (nth ci r 0 =? id) with false.
    2:{ symmetry. apply Z.eqb_neq. intros E. apply Hnin. rewrite <- E. apply nth_In. lia. }
    cbn [andb]. rewrite IH by (try assumption; lia). f_equal. lia.
Qed.

Lemma get_scomps_emit keep lossless ids s cs : NoDup ids -> Forall is_byte ids ->
  forall i lo prev rest, Forall (scomp_ok (length ids)) cs -> increasing lo (map sc_ci cs) -> (i <= lo)%nat ->
  (forall p, In p prev -> (p < lo)%nat) ->
  (forall c, In c cs -> 0 <= sos_td keep lossless s c < 16 /\ 0 <= sos_ta s c < 16) ->
  get_scomps ids (length cs) i prev
    (flat_map (fun c => [byte_of (comp_id_at ids (sc_ci c)); byte_of (sos_td keep lossless s c * 16 + sos_ta s c)]) cs ++ rest)
  = Some (map (fun c => mkScomp (sc_ci c) (sos_td keep lossless s c) (sos_ta s c)) cs, rest).
Proof.
  intros ND Hb. induction cs as [|c cs IH]; intros i lo prev rest HF Hinc Hilo Hprev Ht; [reflexivity|].
  cbn [length flat_map app get_scomps map].
  pose proof (Forall_inv HF) as (C1 & C2 & C3 & C4). cbn [map increasing] in Hinc. destruct Hinc as (I1 & I2).
  assert (Hid : is_byte (comp_id_at ids (sc_ci c))).
  { unfold comp_id_at. rewrite Forall_forall in Hb. apply Hb. apply nth_In. assumption. }
  rewrite (byte_of_id _ Hid). unfold comp_id_at at 1.
  rewrite (find_comp_found ids 0 (sc_ci c) i ND C1) by lia. cbn [Nat.add].
  replace (existsb (Nat.eqb (sc_ci c)) prev) with false.
  2:{ symmetry. apply not_true_iff_false. intros E. apply existsb_exists in E as (p & Hp & Ep).
      apply Nat.eqb_eq in Ep. specialize (Hprev p Hp). lia. }
  rewrite (IH (S i) (S (sc_ci c))).
  - destruct (Ht c (or_introl eq_refl)) as (T1 & T2). unfold byte_of.
    rewrite (Z.mod_small (sos_td keep lossless s c * 16 + sos_ta s c)) by lia.
    f_equal. f_equal. f_equal. f_equal; lia.
  - exact (Forall_inv_tail HF).
  - exact I2.
  - lia.
  - intros p [<-|Hp]; [lia | specialize (Hprev p Hp); lia].
  - intros c0 Hc0. apply Ht. right. assumption.
Qed.

(* (5) SOS: component selectors, table selectors actually written, Ss, Se, Ah, Al *)
Theorem sos_roundtrip keep lossless ids s : NoDup ids -> Forall is_byte ids -> scan_ok ids s ->
  exists body, emit_sos_with keep lossless ids s = emit_marker M_SOS ++ body /\
               forall rest, get_sos ids (body ++ rest) = Some (scan_seen keep lossless s, rest).
Proof.
  intros ND Hb (Hn & HF & Hinc & HSs & HSe & HAh & HAl). unfold emit_sos_with. eexists. split; [reflexivity|].
  intros rest. unfold get_sos. rewrite <- !app_assoc. rewrite get_emit_2bytes by lia. cbn [app].
  rewrite (byte_of_id (Zlength (s_comps s))) by (unfold is_byte; lia).
  replace (negb (2 * Zlength (s_comps s) + 2 + 1 + 3 =? Zlength (s_comps s) * 2 + 6) || (Zlength (s_comps s) <? 1) || (4 <? Zlength (s_comps s))) with false.
  2:{ symmetry. repeat (apply orb_false_iff; split); [apply negb_false_iff, Z.eqb_eq | apply Z.ltb_ge | apply Z.ltb_ge]; lia. }
  replace (Z.to_nat (Zlength (s_comps s))) with (length (s_comps s)) by (rewrite Zlength_correct; lia).
  rewrite (get_scomps_emit keep lossless ids s (s_comps s) ND Hb 0%nat 0%nat [] _ HF Hinc).
  - unfold scan_seen. unfold is_byte in *. rewrite (byte_of_id (s_Ss s)), (byte_of_id (s_Se s)) by (unfold is_byte; lia).
    unfold byte_of. rewrite (Z.mod_small (s_Ah s * 16 + s_Al s)) by lia. f_equal. f_equal. f_equal; lia.
  - lia.
  - intros p [].
  - intros c Hc. rewrite Forall_forall in HF. destruct (HF c Hc) as (_ & _ & D & A).
    unfold sos_td, sos_ta. split; [destruct (_ || _) | destruct (_ =? _)]; lia.
Qed.

(* the DC selector survives exactly when the writer does not zero it *)
Corollary sos_td_preserved keep lossless s c :
  ((s_Ss s =? 0) && (s_Ah s =? 0)) || (keep && lossless) = true -> sos_td keep lossless s c = sc_dc c.
Proof. intros H. unfold sos_td. rewrite H. reflexivity. Qed.

(* lossless scans (Ss = predictor 1..7, Se = 0, Ah = 0, Al = point transform): PSV and Pt come back *)
Corollary sos_lossless_psv_pt keep ids s rest : NoDup ids -> Forall is_byte ids -> scan_ok ids s ->
  exists body s', emit_sos_with keep true ids s = emit_marker M_SOS ++ body /\
                  get_sos ids (body ++ rest) = Some (s', rest) /\ s_Ss s' = s_Ss s /\ s_Al s' = s_Al s /\
                  s_Se s' = s_Se s /\ s_Ah s' = s_Ah s /\ map sc_ci (s_comps s') = map sc_ci (s_comps s).
Proof.
  intros ND Hb Hok. destruct (sos_roundtrip keep true ids s ND Hb Hok) as (body & E & R).
  exists body, (scan_seen keep true s). repeat split; try assumption; try apply R.
  unfold scan_seen. cbn [s_comps]. rewrite map_map. reflexivity.
Qed.

(* ------------------------------------------------------------ JFIF / Adobe *)
Definition jfif_ok (j : jfif) : Prop :=
  is_byte (j_major j) /\ is_byte (j_minor j) /\ is_byte (j_unit j) /\ 0 <= j_xd j < 65536 /\ 0 <= j_yd j < 65536.

Lemma examine_app0_jfif h j extra datalen : jfif_ok j -> APP0_DATA_LEN <= datalen ->
  examine_app0 h (jfif_data j ++ extra) datalen =
  mkHinfo true (j_major j) (j_minor j) (j_unit j) (j_xd j) (j_yd j) (h_saw_adobe h) (h_transform h) (h_restart h).
Proof.
  intros (A & B & C & D & E) Hl. unfold examine_app0.
  replace (APP0_DATA_LEN <=? datalen) with true by (symmetry; apply Z.leb_le; assumption).
  unfold jfif_data. change jfif_sig_examine with jfif_sig_emit. unfold has_prefix.
  rewrite <- app_assoc, firstn_app_exact, zlist_eqb_refl. cbn [andb].
  unfold emit_2bytes, nthz.
  change (Z.to_nat 5) with 5%nat. change (Z.to_nat 6) with 6%nat. change (Z.to_nat 7) with 7%nat.
  change (Z.to_nat 8) with 8%nat. change (Z.to_nat 9) with 9%nat. change (Z.to_nat 10) with 10%nat.
  change (Z.to_nat 11) with 11%nat. unfold jfif_sig_emit. cbn [app nth].
  rewrite !byte_of_id by assumption. f_equal; lia.
Qed.

Definition hinfo_jfif (h : hinfo) (j : jfif) : hinfo :=
  mkHinfo true (j_major j) (j_minor j) (j_unit j) (j_xd j) (j_yd j) (h_saw_adobe h) (h_transform h) (h_restart h).

(* (5) density / units / version: the APP0 written by emit_jfif_app0 is recognised whether APP0
   markers are saved (limit at least APP0_DATA_LEN, which jpeg_save_markers guarantees) or not *)
Theorem jfif_roundtrip c j h acc rest : jfif_ok j -> cfg_wf c ->
  emit_jfif_app0 j = emit_marker M_APP0 ++ emit_2bytes JFIF_SEGMENT_LENGTH ++ jfif_data j /\
  exists acc', process_app c M_APP0 h acc (emit_2bytes JFIF_SEGMENT_LENGTH ++ jfif_data j ++ rest)
               = Some (hinfo_jfif h j, acc', rest).
Proof.
  intros Hj (W1 & W2 & _). split; [reflexivity|].
  assert (Hlen : Zlength (jfif_data j) = 14) by reflexivity.
  assert (Hlen' : length (jfif_data j) = 14%nat) by reflexivity.
  assert (Hrest : (Zlength (jfif_data j ++ rest) <? 14) = false).
  { apply Z.ltb_ge. rewrite Zlength_app', Hlen. pose proof (Zlength_nonneg' rest). lia. }
  assert (Hex : forall dl, 14 <= dl -> examine M_APP0 h (jfif_data j) dl = hinfo_jfif h j).
  { intros dl Hdl. unfold examine. rewrite Z.eqb_refl. rewrite <- (app_nil_r (jfif_data j)).
    apply examine_app0_jfif; [assumption | unfold APP0_DATA_LEN; lia]. }
  unfold process_app. change JFIF_SEGMENT_LENGTH with 16. destruct (c M_APP0 =? 0) eqn:E0.
  - unfold skip_or_examine. rewrite get_emit_2bytes by lia. change (16 - 2) with 14. rewrite Hrest.
    change (APPN_DATA_LEN <=? 14) with true. cbn iota. rewrite Z.eqb_refl. cbn [orb].
    change (Z.to_nat APPN_DATA_LEN) with (length (jfif_data j)). change (Z.to_nat 14) with (length (jfif_data j)).
    rewrite firstn_app_exact, skipn_app_exact. rewrite Hex by (unfold APPN_DATA_LEN; lia). eauto.
  - apply Z.eqb_neq in E0. destruct W2 as [W2|W2]; [contradiction|].
    unfold save_marker. rewrite get_emit_2bytes by lia. change (16 - 2) with 14. change (0 <=? 14) with true. cbn iota.
    rewrite Hrest.
    replace (if 14 <? c M_APP0 then 14 else c M_APP0) with 14.
    2:{ unfold APP0_DATA_LEN in W2. destruct (14 <? c M_APP0) eqn:E; [reflexivity|]. apply Z.ltb_ge in E. lia. }
    change (Z.to_nat 14) with (length (jfif_data j)). rewrite firstn_app_exact, skipn_app_exact.
    rewrite Hex by lia. eauto.
Qed.

Lemma examine_app14_adobe h cs extra datalen : APP14_DATA_LEN <= datalen ->
  examine_app14 h (adobe_data cs ++ extra) datalen =
  mkHinfo (h_saw_jfif h) (h_major h) (h_minor h) (h_unit h) (h_xd h) (h_yd h) true (adobe_transform_of cs) (h_restart h).
Proof.
  intros Hl. unfold examine_app14.
  replace (APP14_DATA_LEN <=? datalen) with true by (symmetry; apply Z.leb_le; assumption).
  destruct cs; reflexivity.
Qed.

Definition hinfo_adobe (h : hinfo) (cs : cspace) : hinfo :=
  mkHinfo (h_saw_jfif h) (h_major h) (h_minor h) (h_unit h) (h_xd h) (h_yd h) true (adobe_transform_of cs) (h_restart h).

Theorem adobe_roundtrip c cs h acc rest : cfg_wf c ->
  emit_adobe_app14 cs = emit_marker M_APP14 ++ emit_2bytes ADOBE_SEGMENT_LENGTH ++ adobe_data cs /\
  exists acc', process_app c M_APP14 h acc (emit_2bytes ADOBE_SEGMENT_LENGTH ++ adobe_data cs ++ rest)
               = Some (hinfo_adobe h cs, acc', rest).
Proof.
  intros (W1 & _ & W3). split; [reflexivity|].
  assert (Hlen : Zlength (adobe_data cs) = 12) by (destruct cs; reflexivity).
  assert (Hlen' : length (adobe_data cs) = 12%nat) by (destruct cs; reflexivity).
  assert (Hrest : (Zlength (adobe_data cs ++ rest) <? 12) = false).
  { apply Z.ltb_ge. rewrite Zlength_app', Hlen. pose proof (Zlength_nonneg' rest). lia. }
  assert (Hex : forall dl, 12 <= dl -> examine M_APP14 h (adobe_data cs) dl = hinfo_adobe h cs).
  { intros dl Hdl. unfold examine. change (M_APP14 =? M_APP0) with false. rewrite Z.eqb_refl. cbn iota.
    rewrite <- (app_nil_r (adobe_data cs)). apply examine_app14_adobe. unfold APP14_DATA_LEN. lia. }
  assert (Hn12 : Z.to_nat 12 = length (adobe_data cs)) by (rewrite Hlen'; reflexivity).
  unfold process_app. change ADOBE_SEGMENT_LENGTH with 14. destruct (c M_APP14 =? 0) eqn:E0.
  - unfold skip_or_examine. rewrite get_emit_2bytes by lia. change (14 - 2) with 12. rewrite Hrest.
    change (APPN_DATA_LEN <=? 12) with false. change (0 <? 12) with true. cbn iota.
    change (M_APP14 =? M_APP0) with false. rewrite Z.eqb_refl. cbn [orb].
    rewrite Hn12, firstn_app_exact, skipn_app_exact. rewrite Hex by lia. eauto.
  - apply Z.eqb_neq in E0. destruct W3 as [W3|W3]; [contradiction|].
    unfold save_marker. rewrite get_emit_2bytes by lia. change (14 - 2) with 12. change (0 <=? 12) with true. cbn iota.
    rewrite Hrest.
    replace (if 12 <? c M_APP14 then 12 else c M_APP14) with 12.
    2:{ unfold APP14_DATA_LEN in W3. destruct (12 <? c M_APP14) eqn:E; [reflexivity|]. apply Z.ltb_ge in E. lia. }
    rewrite Hn12, firstn_app_exact, skipn_app_exact. rewrite Hex by lia. eauto.
Qed.
