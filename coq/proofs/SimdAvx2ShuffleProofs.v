(* C05 -- the AVX2 accurate-DCT kernels hold two rows (columns) of the 8x8 block per ymm register; their
   DOTRANSPOSE macros, interpreted instruction by instruction as read from the .asm files, are exactly the
   transpositions between the row-pair layout and the column-pair layout that DODCT's operand pairing
   (data1_0, data3_2, data4_5, data6_7 / data0_1, data3_2, data4_5, data7_6) assumes -- so each 16-bit lane of the
   AVX2 kernels sees the same operands as the corresponding lane of the SSE2 lane model. *)
From Coq Require Import List ZArith Bool String.
From LJT Require Import lib.Words gen.GenSimdConst model.SimdAvx2Shuffle.
Import ListNotations.
Local Open Scope Z_scope.

(* forward DCT: (row r | row r+4) registers -> (col1|col0), (col3|col2), (col4|col5), (col6|col7) *)
Theorem jfdctint_avx2_transpose_positions :
  outs4 (run jfdctint_avx2_dotranspose (regfile (rowt 0 ++ rowt 4) (rowt 1 ++ rowt 5) (rowt 2 ++ rowt 6) (rowt 3 ++ rowt 7))) =
  Some [colt 1 ++ colt 0; colt 3 ++ colt 2; colt 4 ++ colt 5; colt 6 ++ colt 7].
Proof. vm_compute. reflexivity. Qed.
(* inverse DCT: (col0|col1), (col3|col2), (col4|col5), (col7|col6) -> (row r | row r+4) *)
Theorem jidctint_avx2_transpose_positions :
  outs4 (run jidctint_avx2_dotranspose (regfile (colt 0 ++ colt 1) (colt 3 ++ colt 2) (colt 4 ++ colt 5) (colt 7 ++ colt 6))) =
  Some [rowt 0 ++ rowt 4; rowt 1 ++ rowt 5; rowt 2 ++ rowt 6; rowt 3 ++ rowt 7].
Proof. vm_compute. reflexivity. Qed.
(* both passes invoke the macro with the register order the layouts above assume (pass 2 swaps ymm3/ymm4) *)
Theorem avx2_transpose_calls :
  jfdctint_avx2_dotranspose_calls = [[0; 1; 2; 3; 4; 5; 6; 7]; [0; 1; 2; 4; 3; 5; 6; 7]] /\
  jidctint_avx2_dotranspose_calls = [[0; 1; 2; 3; 4; 5; 6; 7]; [0; 1; 2; 4; 3; 5; 6; 7]].
Proof. split; reflexivity. Qed.
(* the AVX2 constant rows: low half = the SSE2 row of the first output of the pair, high half = the SSE2 row of the
   second output with its two multipliers swapped (the high-half operands are interleaved in the opposite order) *)
Fixpoint swap2 (l : list Z) : list Z := match l with a :: b :: t => b :: a :: swap2 t | _ => l end.
Theorem avx2_const_rows_positions :
  snd jfdctint_avx2_PW_F130_F054_MF130_F054 = firstn 8 (snd jfdctint_sse2_PW_F130_F054) ++ swap2 (firstn 8 (snd jfdctint_sse2_PW_F054_MF130)) /\
  snd jfdctint_avx2_PW_MF078_F117_F078_F117 = firstn 8 (snd jfdctint_sse2_PW_MF078_F117) ++ swap2 (firstn 8 (snd jfdctint_sse2_PW_F117_F078)) /\
  snd jfdctint_avx2_PW_MF060_MF089_MF050_MF256 = firstn 8 (snd jfdctint_sse2_PW_MF060_MF089) ++ firstn 8 (snd jfdctint_sse2_PW_MF050_MF256) /\
  snd jfdctint_avx2_PW_F050_MF256_F060_MF089 = swap2 (firstn 8 (snd jfdctint_sse2_PW_MF256_F050)) ++ swap2 (firstn 8 (snd jfdctint_sse2_PW_MF089_F060)) /\
  snd jidctint_avx2_PW_F130_F054_MF130_F054 = snd jfdctint_avx2_PW_F130_F054_MF130_F054 /\
  snd jidctint_avx2_PW_MF078_F117_F078_F117 = snd jfdctint_avx2_PW_MF078_F117_F078_F117 /\
  snd jidctint_avx2_PW_MF060_MF089_MF050_MF256 = snd jfdctint_avx2_PW_MF060_MF089_MF050_MF256 /\
  snd jidctint_avx2_PW_MF089_F060_MF256_F050 = firstn 8 (snd jidctint_sse2_PW_MF089_F060) ++ firstn 8 (snd jidctint_sse2_PW_MF256_F050).
Proof. vm_compute. repeat split; reflexivity. Qed.
