(* C09 -- DC first, AC first, lossless MCU (atomic units) and DC refine (dirty OR) are resumable. *)
From Coq Require Import List ZArith Lia Arith Bool.
From LJT Require Import model.SuspendCore model.SuspendMarker model.SuspendHuff model.SuspendProg
  proofs.SuspendProofs proofs.SuspendHuffProofs.
Import ListNotations.

Section AtomicProofs.
  Variables S R : Type.
  Variable left : S -> nat.
  Variable load : S -> list byte -> br.
  Variable body : S -> B R.
  Variable commit : S -> br -> R -> S.
  Hypothesis Hbody : forall s, bstable (body s).
  Hypothesis Hload : forall s p e, load s (p ++ e) = ext e (load s p).
  Hypothesis Hrest : forall s p, rest (load s p) = p.
  Hypothesis Hcommit : forall s e b r, commit s (ext e b) r = commit s b r.
  Hypothesis Hleft : forall s b r, left (commit s b r) = pred (left s).

  Theorem atomic_unit_resumable : resumable (atomic_unit S R left load body commit) left.
  Proof.
    constructor; unfold atomic_unit.
    - intros s p s' n k H. destruct (left s) as [|m] eqn:L; [discriminate|].
      destruct (body s (load s p)) as [r b|] eqn:E; [|discriminate]. inversion H; subst.
      split; [lia|]. split; [rewrite Hleft, L; simpl; lia|].
      intros e. rewrite Hload, (Hbody s _ e _ _ E), Hcommit. simpl. rewrite !app_length. f_equal. lia.
    - intros s p x H. destruct (left s); [discriminate|]. destruct (body s (load s p)); discriminate.
    - intros s p H q. destruct (left s); [reflexivity|]. destruct (body s (load s p)); discriminate.
    - intros s p s1 n H. destruct (left s) as [|m] eqn:L; [discriminate|].
      destruct (body s (load s p)) as [r b|] eqn:E; [discriminate|]. inversion H; subst.
      split; [lia|]. intros e. simpl. rewrite L. now rewrite shift_0'.
  Qed.
End AtomicProofs.

Lemma pq_load_ext : forall s p e, pq_load s (p ++ e) = ext e (pq_load s p).
Proof. reflexivity. Qed.
Lemma pq_commit3_ext : forall s e b r, pq_commit3 s (ext e b) r = pq_commit3 s b r.
Proof. reflexivity. Qed.

Lemma bstable_dcf_blocks : forall layout al last acc, bstable (dcf_blocks layout al last acc).
Proof.
  induction layout as [|[ci t] l IH]; intros; simpl; [apply bstable_ret|].
  pose proof (bstable_huff_decode t). cbv zeta. bst.
Qed.

Lemma bstable_acf_loop : forall f t al se k coef, bstable (acf_loop f t al se k coef).
Proof. induction f; intros; simpl; cbv zeta; pose proof (bstable_huff_decode t); bst. Qed.

Lemma bstable_lh_samples : forall tbls acc, bstable (lh_samples tbls acc).
Proof.
  induction tbls as [|t l IH]; intros; simpl; [apply bstable_ret|].
  pose proof (bstable_huff_decode t). bst.
Qed.

Theorem dc_first_resumable : forall layout al, resumable (dc_first_unit layout al) pq_left.
Proof.
  intros. apply atomic_unit_resumable; auto using pq_load_ext, pq_commit3_ext.
  intros s. unfold dcf_body. pose proof (bstable_dcf_blocks layout al). bst.
Qed.

Theorem ac_first_resumable : forall t ss se al, resumable (ac_first_unit t ss se al) pq_left.
Proof.
  intros. apply atomic_unit_resumable; auto using pq_load_ext, pq_commit3_ext.
  intros s. unfold acf_body. pose proof (bstable_acf_loop 64 t al se). bst.
Qed.

Theorem lossless_mcu_resumable : forall tbls, resumable (lossless_mcu_unit tbls) pq_left.
Proof.
  intros. apply atomic_unit_resumable; auto using pq_load_ext, pq_commit3_ext.
  intros s. unfold lh_body. pose proof (bstable_lh_samples tbls). bst.
Qed.

(* ------------------------------------------------------------ DC refine *)
Lemma lor_idem : forall c p, Z.lor (Z.lor c p) p = Z.lor c p.
Proof. intros. now rewrite <- Z.lor_assoc, Z.lor_diag. Qed.

Lemma bst_bit : bstable (bbind (check_bits 1) (fun _ => get_bits 1)).
Proof. apply bstable_bind; [apply bstable_check | intros; apply bstable_get]. Qed.

Lemma dcr_ok_ext : forall p1 blocks b blocks' b2, dcr_blocks p1 blocks b = DOk blocks' b2 ->
  forall e, dcr_blocks p1 blocks (ext e b) = DOk blocks' (ext e b2).
Proof.
  induction blocks as [|c l IH]; intros b blocks' b2 H e; simpl in *.
  - inversion H; subst. reflexivity.
  - destruct (bbind (check_bits 1) (fun _ => get_bits 1) b) as [bit b1|] eqn:E; [|discriminate].
    rewrite (bst_bit _ e _ _ E).
    destruct (dcr_blocks p1 l b1) as [l' b3|l'] eqn:F; [|discriminate].
    inversion H; subst. now rewrite (IH _ _ _ F e).
Qed.

(* re-running on the dirty blocks with more input = running on the clean blocks *)
Lemma dcr_replay : forall p1 blocks b dirty, dcr_blocks p1 blocks b = DSusp dirty ->
  forall e, dcr_blocks p1 dirty (ext e b) = dcr_blocks p1 blocks (ext e b).
Proof.
  induction blocks as [|c l IH]; intros b dirty H e; simpl in H; [discriminate|].
  destruct (bbind (check_bits 1) (fun _ => get_bits 1) b) as [bit b1|] eqn:E.
  - destruct (dcr_blocks p1 l b1) as [l' b3|l'] eqn:F; [discriminate|].
    inversion H; subst. simpl. rewrite (bst_bit _ e _ _ E).
    rewrite (IH _ _ F e).
    destruct (bit =? 0)%Z; [reflexivity|]. now rewrite lor_idem.
  - inversion H; subst. reflexivity.
Qed.

Theorem dc_refine_resumable : forall al, resumable (dc_refine_unit al) (fun s => length (dq_todo s)).
Proof.
  intros al. constructor; unfold dc_refine_unit.
  - intros s p s' n k H. destruct (dq_todo s) as [|blocks more]; [discriminate|].
    destruct (dcr_blocks (2 ^ al) blocks (dq_load s p)) as [blocks' b|dirty] eqn:E; [|discriminate].
    inversion H; subst. split; [lia|]. split; [simpl; lia|].
    intros e. change (dq_load s (p ++ e)) with (ext e (dq_load s p)).
    rewrite (dcr_ok_ext _ _ _ _ _ E e). simpl. rewrite !app_length. f_equal. lia.
  - intros s p x H. destruct (dq_todo s); [discriminate|]. destruct (dcr_blocks _ _ _); discriminate.
  - intros s p H q. destruct (dq_todo s); [reflexivity|]. destruct (dcr_blocks _ _ _); discriminate.
  - intros s p s1 n H. destruct (dq_todo s) as [|blocks more] eqn:T; [discriminate|].
    destruct (dcr_blocks (2 ^ al) blocks (dq_load s p)) as [blocks' b|dirty] eqn:E; [discriminate|].
    inversion H; subst. split; [lia|]. intros e. simpl skipn. rewrite shift_0'. cbn [dq_todo].
    change (dq_load s (p ++ e)) with (ext e (dq_load s p)).
    change (dq_load {| dq_gb := dq_gb s; dq_bl := dq_bl s; dq_um := dq_um s; dq_insuf := dq_insuf s; dq_warn := dq_warn s;
                       dq_todo := dirty :: more; dq_done := dq_done s |} (p ++ e)) with (ext e (dq_load s p)).
    rewrite (dcr_replay _ _ _ _ E e).
    destruct (dcr_blocks (2 ^ al) blocks (ext e (dq_load s p))); reflexivity.
Qed.
