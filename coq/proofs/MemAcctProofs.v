(* C12 -- with both subtractions in free_pool the allocation total always equals what the pools
   hold, so after every jpeg_abort / jpeg_finish_* it is back at its permanent part, whatever was
   allocated before; without the large-list subtraction it drifts. *)
From Coq Require Import List ZArith Lia.
From LJT Require Import model.MemAcct.
Import ListNotations.
Local Open Scope Z_scope.

Lemma mstep_consistent base m o : consistent base m -> consistent base (mstep true true m o).
Proof. unfold consistent, zsum. destruct m as [p s l t]. destruct o; cbn in *; intro H; lia. Qed.

Lemma mrun_consistent base l : forall m, consistent base m -> consistent base (mrun true true l m).
Proof.
  unfold mrun. induction l as [|o t IH]; intros m H; cbn; [exact H|]. apply IH. apply mstep_consistent. exact H.
Qed.

Theorem accounting_restored :
  forall base (l : list mop), let m := mrun true true (l ++ [Abort]) (mm0 base) in
  total m = base + perm m /\ img_small m = [] /\ img_large m = [].
Proof.
  intros base l. unfold mrun. rewrite fold_left_app. cbn [fold_left].
  pose proof (mrun_consistent base l (mm0 base)) as H. unfold mrun in H.
  assert (H0 : consistent base (mm0 base)) by (unfold consistent; cbn; lia).
  specialize (H H0). unfold consistent, zsum in H. set (m := fold_left (mstep true true) l (mm0 base)) in *.
  destruct m as [p s l' t]. cbn in *. repeat split. lia.
Qed.

(* three operations of 400 units of large (virtual-array) space each, every one followed by an abort *)
Definition drift_ops : list mop := [ALarge 400; Abort; ALarge 400; Abort; ALarge 400; Abort].
Lemma accounting_drifts_without_large_subtraction :
  total (mrun true false drift_ops (mm0 0)) = 1200 /\ total (mrun true true drift_ops (mm0 0)) = 0.
Proof. vm_compute. auto. Qed.
