(* C12 -- with both subtractions in free_pool the allocation total always equals what the pools
   hold, so after every jpeg_abort / jpeg_finish_* it is back at its permanent part, whatever was
   allocated before; without the large-list subtraction it drifts. *)
From Coq Require Import List ZArith Lia.
From LJT Require Import model.MemAcct.
Import ListNotations.
Local Open Scope Z_scope.

Lemma mstep_consistent base m o : consistent base m -> consistent base (mstep true true m o).
Proof. unfold consistent, zsum. destruct m as [p s l t]. destruct o; cbn in *; intro H; lia. Qed.

Lemma mrun_consistent base l : forall m, consistent base m -> consistent base (mrun true true l m).
Proof.
  unfold mrun. induction l as [|o t IH]; intros m H; cbn; [exact H|]. apply IH. apply mstep_consistent. exact H.
Qed.

Theorem accounting_restored :
  forall base (l : list mop), let m := mrun true true (l ++ [Abort]) (mm0 base) in
  total m = base + perm m /\ img_small m = [] /\ img_large m = [].
Proof.
  intros base l. unfold mrun. rewrite fold_left_app. cbn [fold_left].
  pose proof (mrun_consistent base l (mm0 base)) as H. unfold mrun in H.
  assert (H0 : consistent base (mm0 base)) by (unfold consistent; cbn; lia).
  specialize (H H0). unfold consistent, zsum in H. set (m := fold_left (mstep true true) l (mm0 base)) in *.
  destruct m as [p s l' t]. cbn in *. repeat split. lia.
Qed.

(* three operations of 400 units of large (virtual-array) space each, every one followed by an abort *)
Definition drift_ops : list mop := [ALarge 400; Abort; ALarge 400; Abort; ALarge 400; Abort].
Lemma accounting_drifts_without_large_subtraction :
  total (mrun true false drift_ops (mm0 0)) = 1200 /\ total (mrun true true drift_ops (mm0 0)) = 0.
Proof. vm_compute. auto. Qed.

(* TJPARAM_MAXMEMORY boundary: what an idle instance has accounted is its permanent pool, so two idle instances
   (a used one and a fresh one) differ in the limit their next operation sees by exactly the difference of their
   permanent pools, whatever image-pool allocations happened before ... *)
Theorem idle_totals_differ_by_permanent_pool :
  forall base (l1 l2 : list mop),
  let m1 := mrun true true (l1 ++ [Abort]) (mm0 base) in
  let m2 := mrun true true (l2 ++ [Abort]) (mm0 base) in
  total m1 - total m2 = perm m1 - perm m2.
Proof.
  intros base l1 l2 m1 m2.
  destruct (accounting_restored base l1) as [H1 _]. destruct (accounting_restored base l2) as [H2 _].
  fold m1 in H1. fold m2 in H2. lia.
Qed.

(* ... and that difference is not zero in general: the permanent pool grows with the history (progression script
   space, Huffman / quantisation tables, destination manager), so "the accounted total of an idle used instance
   equals that of a fresh one" is refuted *)
Lemma idle_total_equality_refuted :
  exists l1 l2, total (mrun true true (l1 ++ [Abort]) (mm0 1863)) <> total (mrun true true (l2 ++ [Abort]) (mm0 1863)).
Proof. exists [APerm 1324; ALarge 400000; APerm 679], []. vm_compute. intro H. discriminate H. Qed.
