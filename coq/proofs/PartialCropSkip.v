(* C08: (1) the hazard hypothesis of the skip/read theorem is void once the repairs of hazards 1, 2 and 4 are in the
   source (flags gfx1 gfx2 gfx4, generated from jdapistd.c) and the upsampler is not the merged h2v2 one;
   (2) crop + skip combined: rows by the scheduler theorem, columns by the per-component window arithmetic. *)
From Coq Require Import List ZArith Lia Bool ZifyBool.
From LJT Require Import model.Partial model.PartialCols proofs.PartialGeomProofs proofs.PartialSchedSkip.
Import ListNotations.
Open Scope Z_scope.

(* ---------- (1) repaired scheduler: no hazard except the merged spare row ---------- *)
Lemma repaired_first_hazard g :
  1 <= gv g -> (gmerged g = true -> gv g = 1 \/ gv g = 2) -> gfx1 g = true -> gfx2 g = true -> gfx4 g = true ->
  forall ops a, (a_exact a = true \/ gv g = 1) ->
  first_hazard g a ops = 0 \/ (merged2v g = true /\ first_hazard g a ops = 3).
Proof.
  intros Hv Hmv F1 F2 F4 ops. induction ops as [|o t IH]; intros a Hex; [left; reflexivity|].
  cbn [first_hazard].
  assert (Hstep : (fst (haz_step g a o) = 0 /\ (a_exact (snd (haz_step g a o)) = true \/ gv g = 1)) \/
                  (merged2v g = true /\ fst (haz_step g a o) = 3)).
  { unfold haz_step. destruct o as [n | n].
    - destruct ((n <=? 0) || (gH g <=? a_s a)); [left; split; [reflexivity | exact Hex]|].
      cbn [fst snd a_exact]. left. split; [|exact Hex].
      destruct Hex as [-> | Hv1]; [reflexivity|].
      rewrite Hv1, Z.mod_1_r. cbn. rewrite andb_false_r. reflexivity.
    - destruct (gH g <=? a_s a + n); [left; split; [reflexivity | left; reflexivity]|].
      destruct (n =? 0) eqn:En; [left; split; [reflexivity | exact Hex]|].
      destruct (n <? (gL g - a_s a mod gL g) mod gL g).
      + destruct (merged2v g) eqn:Em; [left; split; [reflexivity | exact Hex]|].
        rewrite F2, F4.
        destruct (gmerged g) eqn:Emg.
        * (* merged, one row per group *)
          assert (Hv1 : gv g = 1).
          { unfold merged2v in Em. rewrite Emg in Em. cbn [andb] in Em. destruct (Hmv eq_refl); lia. }
          rewrite Hv1, Z.mod_1_r. cbn. left. split; [reflexivity | right; reflexivity].
        * cbn [negb andb].
          set (r := a_s a mod gv g). assert (Hr : 0 <= r < gv g) by (apply Z.mod_pos_bound; lia).
          destruct (r =? 0) eqn:Er; cbn [negb orb]; [left; split; [reflexivity | left; reflexivity]|].
          destruct (n <? gv g) eqn:Env; cbn [orb]; [left; split; [reflexivity | left; reflexivity]|].
          assert (E : (0 <? Z.min (gv g - r) n) = true) by lia. rewrite E.
          left; split; [reflexivity | left; reflexivity].
      + rewrite F1, andb_false_r.
        destruct (merged2v g && (a_s a mod gv g =? 1)) eqn:E3.
        * right. apply andb_true_iff in E3. split; [apply E3 | reflexivity].
        * left. split; [reflexivity|]. cbn [snd a_exact]. rewrite F4. cbn [orb].
          destruct (merged2v g); left; reflexivity. }
  destruct (haz_step g a o) as (h, a1). cbn [fst snd] in Hstep.
  destruct Hstep as [(-> & Hex1) | (Em & ->)].
  - cbn [Z.eqb]. apply IH. exact Hex1.
  - right. split; [exact Em | reflexivity].
Qed.

(* the scheduler theorem without a hazard hypothesis, for the repaired source and every upsampler except merged h2v2
   (whose spare row, hazard 3, is pinned by an upstream regression test) *)
Theorem skip_read_equals_full_repaired :
  forall g ops, geom_ok g -> gfx1 g = true -> gfx2 g = true -> gfx4 g = true -> merged2v g = false ->
  Forall op_nonneg ops -> run_result_ok g ops.
Proof.
  intros g ops Hg F1 F2 F4 Em Hnn. apply skip_read_equals_full_no_hazard; try assumption.
  destruct Hg as (_ & Hv & _ & Hmv).
  destruct (repaired_first_hazard g Hv Hmv F1 F2 F4 ops a_init (or_introl eq_refl)) as [E | (E & _)]; [exact E | congruence].
Qed.

(* and for merged h2v2 the only remaining hazard is the spare row *)
Theorem repaired_only_spare_row :
  forall g ops, geom_ok g -> gfx1 g = true -> gfx2 g = true -> gfx4 g = true ->
  first_hazard g a_init ops = 0 \/ (merged2v g = true /\ first_hazard g a_init ops = 3).
Proof.
  intros g ops (_ & Hv & _ & Hmv) F1 F2 F4. apply repaired_first_hazard; auto.
Qed.

(* ---------- (2) columns of a cropped decode ---------- *)
Lemma div_add_multiple a j hr : 0 < hr -> a mod hr = 0 -> (a + j) / hr = a / hr + j / hr.
Proof.
  intros Hh Ha. pose proof (Z.div_mod a hr ltac:(lia)) as E. rewrite Ha, Z.add_0_r in E.
  replace (a + j) with (j + a / hr * hr) by lia. rewrite Z.div_add by lia. lia.
Qed.

Lemma ceil_add_multiple a j hr : 0 < hr -> a mod hr = 0 -> jdiv_round_up (a + j) hr = a / hr + jdiv_round_up j hr.
Proof.
  intros Hh Ha. unfold jdiv_round_up. replace (a + j + hr - 1) with (a + (j + hr - 1)) by lia.
  apply div_add_multiple; assumption.
Qed.

Lemma ceil_mono a b hr : 0 < hr -> a <= b -> jdiv_round_up a hr <= jdiv_round_up b hr.
Proof. intros. unfold jdiv_round_up. apply Z.div_le_mono; lia. Qed.

(* the recomputed downsampled_width is the ceiling of the region width over the upsampling ratio *)
Lemma comp_dsw_ratio w' hs dct hmax M hr :
  1 <= hs -> 1 <= dct -> 0 < hr -> hmax * M = hr * (hs * dct) -> 0 <= w' ->
  comp_dsw w' hs dct hmax M = jdiv_round_up w' hr.
Proof.
  intros Hs Hd Hh E Hw. unfold comp_dsw. rewrite E. set (k := hs * dct). assert (Hk : 1 <= k) by nia.
  unfold jdiv_round_up.
  (* ceil (w' k / (hr k)) = ceil (w' / hr) *)
  assert (Hc1 := jdiv_round_up_ceil (w' * k) (hr * k) ltac:(nia)).
  assert (Hc2 := jdiv_round_up_ceil w' hr Hh).
  unfold is_ceil, jdiv_round_up in Hc1, Hc2.
  set (A := (w' * k + hr * k - 1) / (hr * k)) in *. set (B := (w' + hr - 1) / hr) in *.
  assert (A < B + 1) by nia. assert (B < A + 1) by nia. lia.
Qed.

Section Cols.
Variables (fancyh : bool) (hr hs dct ow x' w' : Z).
Hypothesis Hhr : 1 <= hr.
Hypothesis Hhs : 1 <= hs.
Hypothesis Hdct : 1 <= dct.
Hypothesis Hf2 : fancyh = true -> hr = 2.
Let align := hr * (hs * dct).        (* max_h_samp_factor * min_DCT_h_scaled_size *)
Hypothesis Hal : x' mod align = 0.
Hypothesis Hx0 : 0 <= x'.
Hypothesis Hw : 0 < w'.
Hypothesis Hin : x' + w' <= ow.
Let f := fst (comp_window align x' w' hs).
Let dsw := jdiv_round_up ow hr.
Let dsw' := jdiv_round_up w' hr.

Lemma first_block_col : f * dct = x' / hr /\ x' mod hr = 0.
Proof.
  unfold f, comp_window. cbn [fst]. unfold align in *.
  assert (Hk : 1 <= hs * dct) by nia.
  pose proof (Z.div_mod x' (hr * (hs * dct)) ltac:(nia)) as E. rewrite Hal, Z.add_0_r in E.
  set (q := x' / (hr * (hs * dct))) in *.
  assert (E1 : x' * hs = (q * hs) * (hr * (hs * dct))) by nia.
  rewrite E1, Z.div_mul by nia.
  assert (E2 : x' = (q * (hs * dct)) * hr) by nia.
  split.
  - clearbody q. rewrite E2, Z.div_mul by lia. nia.
  - clearbody q. rewrite E2. apply Z.mod_mul. lia.
Qed.

(* every output column of the region is made of the same sample columns as in the full decode, except, under the
   triangle filter, the first column of a region whose left edge is inside the image and the last column of a region
   whose right edge is inside the image *)
Lemma crop_cols_equal j :
  0 <= j < w' ->
  (fancyh = true -> (j = 0 -> x' = 0) /\ (j = w' - 1 -> x' + w' = ow)) ->
  col_prov_crop fancyh hr dct f dsw' j = col_prov fancyh hr dsw (x' + j).
Proof.
  intros Hj Hedge. destruct first_block_col as (Hfb & Hxm).
  unfold col_prov_crop, col_prov. rewrite Hfb.
  rewrite (div_add_multiple x' j hr) by lia.
  destruct fancyh eqn:Ef; [|reflexivity].
  specialize (Hf2 eq_refl). specialize (Hedge eq_refl). destruct Hedge as (He0 & He1).
  assert (Hev : Z.even (x' + j) = Z.even j).
  { rewrite Z.even_add. rewrite Hf2 in Hxm.
    assert (Z.even x' = true) by (apply Z.even_spec; exists (x' / 2); pose proof (Z.div_mod x' 2); lia). rewrite H. destruct (Z.even j); reflexivity. }
  rewrite Hev. f_equal.
  assert (Hq : 0 <= x' / hr) by (apply Z.div_pos; lia).
  assert (Hj2 : 0 <= j / hr) by (apply Z.div_pos; lia).
  pose proof (Z.div_mod j 2 ltac:(lia)) as Ej. pose proof (Z.mod_pos_bound j 2 ltac:(lia)) as Bj.
  pose proof (Z.div_mod x' 2 ltac:(lia)) as Ex. unfold dsw, dsw', jdiv_round_up. rewrite Hf2 in *.
  destruct (Z.even j) eqn:Evj.
  - assert (Hm : j mod 2 = 0) by (apply Z.even_spec in Evj; destruct Evj as (m & Em); lia).
    destruct (j / 2 =? 0) eqn:A.
    + assert (j = 0) by lia. specialize (He0 H).
      assert (E : (x' / 2 + j / 2 =? 0) = true) by lia. rewrite E. lia.
    + assert (E : (x' / 2 + j / 2 =? 0) = false) by lia. rewrite E. lia.
  - assert (Hm : j mod 2 = 1).
    { assert (Ho : Z.odd j = true) by (rewrite <- Z.negb_even, Evj; reflexivity).
      apply Z.odd_spec in Ho. destruct Ho as (m & Em). lia. }
    pose proof (Z.div_mod (w' + 2 - 1) 2 ltac:(lia)) as Ew. pose proof (Z.mod_pos_bound (w' + 2 - 1) 2 ltac:(lia)) as Bw.
    pose proof (Z.div_mod (ow + 2 - 1) 2 ltac:(lia)) as Eo. pose proof (Z.mod_pos_bound (ow + 2 - 1) 2 ltac:(lia)) as Bo.
    destruct (j / 2 =? (w' + 2 - 1) / 2 - 1) eqn:A.
    + assert (j = w' - 1) by lia. specialize (He1 H).
      assert (E : (x' / 2 + j / 2 =? (ow + 2 - 1) / 2 - 1) = true) by lia. rewrite E. lia.
    + assert (E : (x' / 2 + j / 2 =? (ow + 2 - 1) / 2 - 1) = false) by lia. rewrite E. lia.
Qed.
End Cols.

(* the exception is real: h2 triangle filter, region starting at column 16 of a 64 column image, first column *)
Lemma crop_cols_left_edge_refuted :
  col_prov_crop true 2 8 (fst (comp_window 16 16 16 1)) (jdiv_round_up 16 2) 0 <> col_prov true 2 (jdiv_round_up 64 2) 16.
Proof. vm_compute. discriminate. Qed.

(* ---------- crop + skip combined ---------- *)
(* a decode with jpeg_crop_scanline(x, w) followed by any hazard-free history of jpeg_read_scanlines /
   jpeg_skip_scanlines: every delivered row is the row of the full decode with the same number, and every column j of
   it is made of the sample columns of column x' + j of the full decode (edge columns under the triangle filter
   excepted as above), for every component *)
Theorem crop_skip_combined :
  forall g ops ow align x w x' w' fi li,
  geom_ok g -> Forall op_nonneg ops -> first_hazard g a_init ops = 0 ->
  0 < align -> 0 <= x -> 0 < w ->
  crop_scanline ow align x w = CropOk x' w' fi li ->
  run_result_ok g ops /\
  x' <= x /\ x' + w' = x + w /\ x + w <= ow /\
  forall fancyh hr hs dct hmax M j,
    1 <= hr -> 1 <= hs -> 1 <= dct -> (fancyh = true -> hr = 2) ->
    align = hr * (hs * dct) -> hmax * M = align ->
    0 <= j < w' ->
    (fancyh = true -> (j = 0 -> x' = 0) /\ (j = w' - 1 -> x' + w' = ow)) ->
    col_prov_crop fancyh hr dct (fst (comp_window align x' w' hs)) (comp_dsw w' hs dct hmax M) j =
    col_prov fancyh hr (jdiv_round_up ow hr) (x' + j).
Proof.
  intros g ops ow align x w x' w' fi li Hg Hnn Hfh Ha Hx Hw Hc.
  split; [apply skip_read_equals_full_no_hazard; assumption|].
  pose proof (crop_window_all ow align x w Ha Hx) as C. rewrite Hc in C.
  destruct C as (_ & C2 & _ & C4 & _ & C6 & C7 & C8 & C9 & _).
  specialize (C9 Hw).
  split; [lia|]. split; [lia|]. split; [lia|].
  intros fancyh hr hs dct hmax M j Hhr Hhs Hdct Hf2 Eal EM Hj Hedge.
  rewrite (comp_dsw_ratio w' hs dct hmax M hr) by (try lia; congruence).
  subst align.
  apply crop_cols_equal; try assumption; lia.
Qed.

(* ---------- the witnesses of the former hazards on the repaired source ---------- *)
Definition wgr (M v H : Z) (merged : bool) : geom :=
  mkGeom M v H ((H + M * v - 1) / (M * v)) merged false 1 H H false 1 H true true true true.

Lemma wgr_ok M v H merged :
  (1 <=? M) && (1 <=? v) && (0 <=? H) && (H <? 4294967296) && (negb merged || (v =? 1) || (v =? 2)) = true ->
  geom_ok (wgr M v H merged).
Proof. intros E. unfold geom_ok, wgr. cbn. repeat split; try lia. intros Hm. subst merged. cbn in E. lia. Qed.

(* the histories that were wrong through hazards 1, 2 and 4 are hazard free on the repaired source, so they are
   instances of skip_read_equals_full_repaired / _no_hazard *)
Lemma repaired_witnesses_hazard_free :
  first_hazard (wgr 2 1 30 false) a_init [Skip 3; Skip 1; Read 1] = 0 /\
  first_hazard (wgr 8 2 60 false) a_init [Read 1; Skip 2; Read 1] = 0 /\
  first_hazard (wgr 8 2 53 true) a_init [Skip 21; Read 40] = 0 /\
  first_hazard (wgr 8 2 53 false) a_init [Read 2; Skip 2; Read 60] = 0.
Proof. vm_compute. repeat split; reflexivity. Qed.

(* hazard 3 (merged h2v2 spare row) remains: the unconditional statement is false for the repaired source too *)
Lemma refuted_merged_spare_row_repaired :
  let g := wgr 8 2 53 true in let ops := [Read 1; Skip 20; Read 1] in
  geom_ok g /\ Forall op_nonneg ops /\ first_hazard g a_init ops = 3 /\ bad_row g ops 21 (22, -1).
Proof.
  cbv zeta. repeat match goal with |- _ /\ _ => split end.
  - apply wgr_ok. reflexivity.
  - repeat constructor; cbn; lia.
  - vm_compute. reflexivity.
  - split; [vm_compute; auto | discriminate].
Qed.

Theorem skip_read_equals_full_repaired_refuted :
  ~ (forall g ops, geom_ok g -> gfx1 g = true -> gfx2 g = true -> gfx4 g = true -> Forall op_nonneg ops ->
     run_result_ok g ops).
Proof.
  intros Hfull.
  destruct refuted_merged_spare_row_repaired as (Hg & Hnn & _ & (Hin & Hne)).
  destruct (Hfull _ _ Hg eq_refl eq_refl eq_refl Hnn) as (_ & _ & Hall).
  rewrite Forall_forall in Hall. destruct (Hall _ Hin) as (A & _). cbn [fst snd] in A. apply Hne. exact A.
Qed.

(* ---------- jpeg_crop_scanline called twice ---------- *)
(* when the second call goes through the alignment code, it sets the region the documentation promises *)
Lemma recrop_ok_agrees ow align x1 w1 x2 w2 x' w' :
  0 < align -> 0 <= x1 -> 0 <= x2 -> 0 < w1 ->
  recrop_faithful ow align x1 w1 x2 w2 = Some (ReOk x' w') -> recrop_documented ow align x2 w2 = Some (x', w').
Proof.
  intros Ha Hx1 Hx2 Hw1. unfold recrop_faithful, recrop_documented, crop_region.
  pose proof (crop_window_all ow align x1 w1 Ha Hx1) as C1.
  destruct (crop_scanline ow align x1 w1) as [| |xa wa fa la]; [discriminate | |].
  - (* first call: entire width *)
    destruct (crop_scanline ow align x2 w2) as [| |xb wb fb lb]; try discriminate. intros E. inversion E. reflexivity.
  - destruct C1 as (_ & C2 & _ & C4 & _ & _ & C7 & C8 & C9 & _). specialize (C9 Hw1).
    unfold crop_scanline.
    destruct ((w2 =? 0) || (wa <? x2 + w2)) eqn:E1; [discriminate|].
    destruct (w2 =? wa) eqn:E2; [discriminate|].
    assert (E3 : (w2 =? 0) || (ow <? x2 + w2) = false) by lia.
    assert (E4 : (w2 =? ow) = false) by lia.
    rewrite E3, E4. intros E. inversion E. reflexivity.
Qed.

(* but the two other outcomes contradict it: a request of the same width at another offset is ignored silently, and a valid
   region to the right of the first one is rejected (64 columns, iMCU width 16, first region 16+32) *)
Lemma recrop_refuted :
  recrop_faithful 64 16 16 32 0 32 = Some (ReIgnored 16 32) /\ recrop_documented 64 16 0 32 = Some (0, 32) /\
  recrop_faithful 64 16 16 32 32 32 = Some ReErr /\ recrop_documented 64 16 32 32 = Some (32, 32).
Proof. vm_compute. repeat split; reflexivity. Qed.
