(* C13, worst-case clause: the entropy-coded data of a grayscale image can be larger than
   tj3JPEGBufSize -- model witness by computation. *)
From Coq Require Import List ZArith Bool.
From LJT Require Import gen.GenDest model.Dest model.WorstCase.
Import ListNotations.
Local Open Scope Z_scope.

(* the clause as the documentation states it, for one-component 8-bit images at quality 100
   (quantiser 1) coded with the standard tables: the scan data alone -- without any header --
   fits in the worst-case buffer *)
Definition worstcase_sufficient_full : Prop :=
  forall w h blocks bytes, 0 < w -> 0 < h ->
    Z.of_nat (length blocks) = (PAD w 8 / 8) * (PAD h 8 / 8) ->
    forallb valid_block blocks = true ->
    scan_bytes blocks = Some bytes ->
    bytes <= tj3JPEGBufSize w h tjsamp_gray.

Definition adv_image : list (list Z) := repeat adv_block 256.    (* 128 x 128, the block tiled *)

Lemma adv_fact_len : Z.of_nat (length adv_image) = (PAD 128 8 / 8) * (PAD 128 8 / 8).
Proof. vm_compute. reflexivity. Qed.
Lemma adv_fact_valid : forallb valid_block adv_image = true.
Proof. vm_compute. reflexivity. Qed.
Lemma adv_fact_size : scan_size adv_image = Some (36355, 253962).
Proof. vm_compute. reflexivity. Qed.
Lemma adv_fact_bytes : scan_bytes adv_image = Some 36355.
Proof. vm_compute. reflexivity. Qed.
Lemma adv_fact_buf : tj3JPEGBufSize 128 128 tjsamp_gray = 34816.
Proof. vm_compute. reflexivity. Qed.

Theorem worstcase_refuted : ~ worstcase_sufficient_full.
Proof.
  intros H.
  pose proof (H 128 128 adv_image 36355 eq_refl eq_refl adv_fact_len adv_fact_valid adv_fact_bytes) as H1.
  rewrite adv_fact_buf in H1. apply H1. reflexivity.
Qed.

(* the same as an explicit witness *)
Theorem worstcase_witness : exists w h blocks bytes,
  Z.of_nat (length blocks) = (PAD w 8 / 8) * (PAD h 8 / 8) /\ forallb valid_block blocks = true /\
  scan_bytes blocks = Some bytes /\ tj3JPEGBufSize w h tjsamp_gray < bytes.
Proof.
  exists 128, 128, adv_image, 36355.
  split; [exact adv_fact_len|]. split; [exact adv_fact_valid|].
  split; [exact adv_fact_bytes|]. rewrite adv_fact_buf. reflexivity.
Qed.

(* PAD is rounding up to a multiple of the (power of two) MCU size *)
Lemma tj3JPEGBufSize_gray_8 : forall w h, w mod 8 = 0 -> h mod 8 = 0 -> 0 <= w -> 0 <= h ->
  PAD w 8 = w -> PAD h 8 = h -> tj3JPEGBufSize w h tjsamp_gray = w * h * 2 + 2048.
Proof.
  intros w h _ _ _ _ Hw Hh. unfold tj3JPEGBufSize.
  change (tjsamp_gray =? -1) with false. cbv iota.
  change (nth (Z.to_nat tjsamp_gray) tj_mcu_width 0) with 8.
  change (nth (Z.to_nat tjsamp_gray) tj_mcu_height 0) with 8.
  rewrite Z.eqb_refl, Hw, Hh. reflexivity.
Qed.
