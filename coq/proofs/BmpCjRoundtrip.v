(* C18 -- cjpeg's BMP reader (jinit_read_bmp(cinfo, TRUE): in_color_space = JCS_RGB "guess", all rows preloaded
   into the virtual array, served top-down) applied to the output of the library's BMP writer: the image comes
   back, for the 8-bit gray (palettised) and the 24-bit RGB files wrbmp.c produces, incl. row padding and the
   bottom-up file order. *)
From Coq Require Import List ZArith Lia Bool ZifyBool.
From LJT Require Import gen.GenPnm model.Pnm model.Bmp proofs.PnmProofs proofs.PnmRoundtrip proofs.BmpProofs proofs.BmpRoundtrip.
Import ListNotations.
Local Open Scope Z_scope.
Ltac Zify.zify_post_hook ::= Z.div_mod_to_equations.

Lemma header_rt_cj t w h data : t = TGray \/ t = ext_rgb -> 1 <= w <= 250000000 -> 1 <= h <= 2147483647 ->
  bmp_header true 0 None (bmp_file_header t w h ++ data)
  = BOk ({| b_w := w; b_h := h; b_bpp := w_bpp t; b_cmap := wcmap t; b_t := t; b_roww := w_roww t w |}, data).
Proof.
  intros Ht Hw Hh.
  set (cme := match t with TGray => 256 | _ => 0 end).
  set (hs := 14 + 40 + cme * 4).
  set (cmb := match t with TGray => gray_cmap_bytes | _ => [] end).
  assert (Hfile : exists f0 f1 f2 f3 w0 w1 w2 w3 h0 h1 h2 h3,
    bmp_file_header t w h ++ data =
    [66; 77; f0; f1; f2; f3; 0; 0; 0; 0; hs mod 256; (hs / 256) mod 256; 0; 0] ++
    [40; 0; 0; 0] ++
    [w0; w1; w2; w3; h0; h1; h2; h3; 1; 0; w_bpp t; 0; 0; 0; 0; 0; 0; 0; 0; 0; 0; 0; 0; 0; 0; 0; 0; 0;
     cme mod 256; (cme / 256) mod 256; 0; 0; 0; 0; 0; 0] ++ cmb ++ data /\
    w0 + 256 * w1 + 65536 * w2 + 16777216 * w3 = w /\ h0 + 256 * h1 + 65536 * h2 + 16777216 * h3 = h).
  { exists ((hs + w_roww t w * h) mod 256), ((hs + w_roww t w * h) / 256 mod 256),
           ((hs + w_roww t w * h) / 65536 mod 256), ((hs + w_roww t w * h) / 16777216 mod 256),
           (w mod 256), (w / 256 mod 256), (w / 65536 mod 256), (w / 16777216 mod 256),
           (h mod 256), (h / 256 mod 256), (h / 65536 mod 256), (h / 16777216 mod 256).
    split; [|split; lia].
    unfold bmp_file_header, put4, put2. fold cme. fold hs. fold cmb.
    repeat (rewrite <- app_assoc; cbn [app]).
    assert (E1 : hs / 65536 mod 256 = 0 /\ hs / 16777216 mod 256 = 0) by (subst hs cme; destruct t; cbn; lia).
    destruct E1 as [-> ->].
    assert (E2 : w_bpp t mod 256 = w_bpp t /\ w_bpp t / 256 mod 256 = 0) by (destruct t; cbn; lia).
    destruct E2 as [-> ->]. reflexivity. }
  destruct Hfile as (f0 & f1 & f2 & f3 & w0 & w1 & w2 & w3 & h0 & h1 & h2 & h3 & -> & Ew & Eh).
  unfold bmp_header.
  rewrite (take_app 14) by reflexivity. cbn [bbind].
  change (get2 [66; 77; f0; f1; f2; f3; 0; 0; 0; 0; hs mod 256; hs / 256 mod 256; 0; 0] 0) with 19778.
  cbn [Z.eqb Pos.eqb negb].
  rewrite (take_app 4) by reflexivity. cbn [bbind].
  change (get4 [40; 0; 0; 0] 0) with 40. change (s32 40) with 40.
  assert (Hoff : s32 (get4 [66; 77; f0; f1; f2; f3; 0; 0; 0; 0; hs mod 256; hs / 256 mod 256; 0; 0] 10) = hs).
  { change (get4 _ 10) with (hs mod 256 + 256 * (hs / 256 mod 256) + 65536 * 0 + 16777216 * 0).
    subst hs cme. destruct t; cbn; reflexivity. }
  rewrite Hoff.
  assert (Hhs : 54 <= hs) by (subst hs cme; destruct t; lia).
  replace ((40 <? 12) || (40 >? 64) || (40 + 14 >? hs)) with false by lia.
  rewrite (take_app (40 - 4)) by reflexivity. cbn [bbind].
  change (40 =? 12) with false. change ((40 =? 40) || (40 =? 64)) with true. cbv iota.
  match goal with |- context [get2 ?l 14] => set (ih := l) end.
  assert (G14 : get2 ih 14 = w_bpp t) by (subst ih; calc_nth; lia).
  assert (G16 : get4 ih 16 = 0) by (subst ih; calc_nth; lia).
  assert (G4 : get4 ih 4 = w) by (subst ih; calc_nth; lia).
  assert (G8 : get4 ih 8 = h) by (subst ih; calc_nth; lia).
  assert (G12 : get2 ih 12 = 1) by (subst ih; calc_nth; lia).
  assert (G32 : get4 ih 32 = cme) by (subst ih; calc_nth; subst cme; destruct t; cbn; lia).
  rewrite G14, G16, G4, G8, G12, G32. clear G14 G16 G4 G8 G12 G32 ih.
  rewrite (s32_small w), (s32_small h) by lia.
  change (negb (0 =? 0)) with false. cbv iota.
  destruct Ht as [-> | ->].
  - subst cme hs cmb. cbn [w_bpp Z.eqb Pos.eqb orb negb bbind]. change (s32 256) with 256.
    cbn [bbind]. replace ((w <=? 0) || (h <=? 0)) with false by lia. cbn [andb Z.eqb Pos.eqb negb].
    change (8 =? 8) with true. cbv iota. change (4 >? 0) with true. change (256 <=? 0) with false. cbv iota.
    change (256 >? 256) with false. cbv iota.
    destruct gray_cmap_parse as (P1 & P2 & P3).
    rewrite (take_app (256 * 4)) by (rewrite P3; reflexivity). cbn [bbind].
    change (Z.to_nat 256) with 256%nat. rewrite P1, P2. cbn [is_gray_t negb andb].
    change (14 + 40 + 256 * 4 - (40 + 14) - 256 * 4) with 0. cbn [bbind]. change (0 <? 0) with false. cbv iota.
    change (take 0 data) with (take 0 ([] ++ data)). rewrite (take_app 0) by reflexivity. cbn [bbind target_ps].
    change (8 / 8) with 1.
    replace (w * 1 >? 4294967295) with false by lia. rewrite g_chunk.
    replace (w * 1 >? 1000000000) with false by lia.
    unfold w_roww, w_datawidth, wcmap. cbn [w_bpp]. change (8 / 8) with 1.
    rewrite (Z.mod_small (w * 1)) by lia. reflexivity.
  - unfold ext_rgb in *. subst cme hs cmb. cbn [w_bpp Z.eqb Pos.eqb orb negb bbind]. change (s32 0) with 0.
    cbn [bbind]. replace ((w <=? 0) || (h <=? 0)) with false by lia. cbn [andb Z.eqb Pos.eqb negb].
    change (24 =? 8) with false. cbv iota. change (0 >? 0) with false. cbv iota. cbn [bbind].
    change (14 + 40 + 0 * 4 - (40 + 14)) with 0. change (0 <? 0) with false. cbv iota.
    rewrite (take_app 0) by reflexivity. cbn [bbind target_ps].
    change (24 / 8) with 3.
    replace (w * 3 >? 4294967295) with false by lia.
    cbn [l_ps]. replace (w * 3 >? 4294967295) with false by lia. rewrite g_chunk.
    replace (w * 3 >? 1000000000) with false by lia.
    unfold w_roww, w_datawidth, wcmap. cbn [w_bpp]. change (24 / 8) with 3.
    rewrite (Z.mod_small (w * 3)) by lia. reflexivity.
Qed.


Section CJRT.
  Variable cmyk : Z -> Z -> Z -> Z -> list Z.
  Variable uncmyk : Z -> Z -> Z -> Z -> Z -> (Z * Z * Z).

  Lemma cj_rt_target t : t = TGray \/ t = ext_rgb -> rt_target t.
  Proof. intros [-> | ->]; [left; reflexivity|right; eexists; split; [reflexivity|cbn; lia]]. Qed.

  Lemma write_row_length t w row : rt_target t -> 1 <= w <= 250000000 ->
    Z.of_nat (length (bmp_write_row uncmyk t w row)) = w_roww t w.
  Proof.
    intros Ht Hw. destruct (roww_facts cmyk uncmyk t w Ht Hw) as [D1 D2].
    unfold bmp_write_row. rewrite app_length, Nat2Z.inj_add, (wpixels_length cmyk uncmyk) by auto. rewrite repeat_length. lia.
  Qed.

  (* preload_image: the rows of the file, in file order *)
  Lemma preload_rt t w h rows : rt_target t -> 1 <= w <= 250000000 ->
    bmp_preload (hd_of t w h) (length rows) (flat_map (bmp_write_row uncmyk t w) rows)
    = BOk (map (bmp_write_row uncmyk t w) rows).
  Proof.
    intros Ht Hw. induction rows as [|row rows IH]; cbn [bmp_preload flat_map length map]; [reflexivity|].
    cbn [b_roww hd_of]. rewrite take_app by (apply write_row_length; auto). cbn [bbind].
    fold (hd_of t w h). rewrite IH. reflexivity.
  Qed.

  (* get_8bit_row / get_24bit_row on the preloaded rows *)
  Lemma serve_rt t w h rows : rt_target t -> 1 <= w <= 250000000 -> Forall (Forall byte) rows ->
    bmp_serve cmyk (hd_of t w h) (map (bmp_write_row uncmyk t w) rows) = BOk (map (canon_row 8 t (Z.to_nat w)) rows).
  Proof.
    intros Ht Hw. induction rows as [|row rows IH]; intro F; cbn [bmp_serve map]; [reflexivity|].
    inversion F; subst. cbn [b_w hd_of]. fold (hd_of t w h). unfold bmp_write_row at 1.
    rewrite (pixels_rt cmyk uncmyk) by auto. cbn [bbind]. rewrite IH by auto. reflexivity.
  Qed.

  (* cjpeg's reader on the writer's file: 8-bit gray and 24-bit RGB, both buffer row orders of the writer,
     any width the memory manager allows; rows come back top-down as the file defines them *)
  Theorem bmp_cj_reads_saved t bottomup w h rows : t = TGray \/ t = ext_rgb ->
    1 <= w <= 250000000 -> 1 <= h <= 2147483647 -> length rows = Z.to_nat h -> Forall (Forall byte) rows ->
    load_bmp_cj cmyk 0 (save_bmp uncmyk t bottomup w h rows)
    = BOk (w, h, t, map (canon_row 8 t (Z.to_nat w)) (if bottomup then rev rows else rows)).
  Proof.
    intros Ht Hw Hh Hl F. pose proof (cj_rt_target t Ht) as Rt. unfold load_bmp_cj, save_bmp.
    rewrite header_rt_cj by auto. cbn [bbind b_h b_w b_t]. fold (hd_of t w h).
    set (frows := if bottomup then rows else rev rows).
    assert (Lf : length frows = Z.to_nat h) by (unfold frows; destruct bottomup; [|rewrite rev_length]; exact Hl).
    assert (Ff : Forall (Forall byte) frows) by (unfold frows; destruct bottomup; [|apply Forall_rev]; exact F).
    rewrite <- Lf. rewrite preload_rt by auto. cbn [bbind].
    rewrite <- map_rev. rewrite serve_rt by (auto; apply Forall_rev; exact Ff). cbn [bbind].
    unfold frows. destruct bottomup; [reflexivity|rewrite rev_involutive; reflexivity].
  Qed.
End CJRT.

(* canon_row is the identity on gray rows and on RGB rows (PnmRoundtrip), so for well-formed rows the image is returned *)
Lemma bmp_cj_reads_saved_identity cmyk uncmyk t w h rows : t = TGray \/ t = ext_rgb ->
  1 <= w <= 250000000 -> 1 <= h <= 2147483647 -> length rows = Z.to_nat h ->
  Forall (fun row => Forall byte row /\ length row = (Z.to_nat w * Z.to_nat (target_ps t))%nat) rows ->
  load_bmp_cj cmyk 0 (save_bmp uncmyk t false w h rows) = BOk (w, h, t, rows).
Proof.
  intros Ht Hw Hh Hl F.
  rewrite bmp_cj_reads_saved; auto; [|eapply Forall_impl; [|exact F]; cbv beta; tauto].
  f_equal. f_equal. rewrite <- (map_id rows) at 2. apply map_ext_in. intros row Hin.
  rewrite Forall_forall in F. destruct (F row Hin) as [_ L].
  destruct Ht as [-> | ->].
  - apply canon_row_gray. cbn in L. lia.
  - apply (canon_row_3 8 lay_rgb); [left; reflexivity|]. cbn in L. lia.
Qed.
