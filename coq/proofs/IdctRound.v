(* C07 -- the ROUNDING part of e2: jpeg_idct_islow (model) before the range-limit clamp differs from the exact
   integer-linear flow graph idct_lin2d (same butterflies and FIX_* constants, no DESCALE, scale 2^13 per pass)
   by at most irbound / 2^29 (0.625 for 8-bit, 0.75 for 12-bit data) sample units, for every dequantised
   coefficient block with |D_k| <= 2^20 (no int workspace wrap).  Both zero-AC shortcuts are covered: they are
   exactly the general formula on their inputs. *)
From Coq Require Import List ZArith Lia Bool ZifyBool.
From LJT Require Import gen.GenDctConst model.Quant model.Dct proofs.QuantCert proofs.QuantProofs proofs.DctProofs proofs.DctRange proofs.DctRound.
Import ListNotations.
Local Open Scope Z_scope.
Ltac Zify.zify_post_hook ::= Z.div_mod_to_equations.

(* one 1-D pass of the inverse flow graph over Z, no rounding (= the arguments of DESCALE in idct_col / idct_row) *)
Definition idct_lin (d : list Z) : list Z :=
  match d with
  | [d0; d1; d2; d3; d4; d5; d6; d7] =>
    let z1 := (d2 + d6) * IFIX_0_541196100 in
    let tmp2 := z1 + d6 * (- IFIX_1_847759065) in
    let tmp3 := z1 + d2 * IFIX_0_765366865 in
    let tmp0 := Z.shiftl (d0 + d4) idct_const_bits in
    let tmp1 := Z.shiftl (d0 - d4) idct_const_bits in
    idct_core (tmp0 + tmp3) (tmp1 + tmp2) (tmp1 - tmp2) (tmp0 - tmp3) d7 d5 d3 d1
  | _ => d
  end.

Definition ish1 (cf : cfg) : Z := idct_const_bits - ipass1 cf.        (* 11 / 12 *)
Definition ish2 (cf : cfg) : Z := idct_const_bits + ipass1 cf + 3.    (* 18 / 17 *)
Definition din_max : Z := 2 ^ 20.
Definition ws_max : Z := 2 ^ 25 + 1.
Definition irbound (cf : cfg) : Z := 2 ^ 28 + 2 ^ 16 * 2 ^ (ish1 cf - 1).

(* the two passes as "round the linear graph" *)
Definition col_round (cf : cfg) (D : list Z) : list Z := map (fun x => wrapS 32 (DESCALE x (ish1 cf))) (idct_lin D).
Definition row_pre (cf : cfg) (w : list Z) : list Z := map (fun x => DESCALE x (ish2 cf)) (idct_lin w).

Ltac ilin_open :=
  unfold idct_lin, idct_core; cbv zeta; change idct_const_bits with 13;
  unfold IFIX_0_298631336, IFIX_0_390180644, IFIX_0_541196100, IFIX_0_765366865, IFIX_0_899976223, IFIX_1_175875602,
     IFIX_1_501321110, IFIX_1_847759065, IFIX_1_961570560, IFIX_2_053119869, IFIX_2_562915447, IFIX_3_072711026;
  rewrite ?Z.shiftl_mul_pow2 by lia; norm_pow.

(* idct_col is col_round of the dequantised column -- also in the zero-AC shortcut *)
Lemma idct_col_is_round cf c0 c1 c2 c3 c4 c5 c6 c7 q0 q1 q2 q3 q4 q5 q6 q7 : cfg_ok cf ->
  idct_col cf [c0; c1; c2; c3; c4; c5; c6; c7] [q0; q1; q2; q3; q4; q5; q6; q7] =
  col_round cf [DEQUANTIZE cf c0 q0; DEQUANTIZE cf c1 q1; DEQUANTIZE cf c2 q2; DEQUANTIZE cf c3 q3;
                DEQUANTIZE cf c4 q4; DEQUANTIZE cf c5 q5; DEQUANTIZE cf c6 q6; DEQUANTIZE cf c7 q7].
Proof.
  intros Hok. unfold idct_col, col_round, ish1.
  destruct ((c1 =? 0) && (c2 =? 0) && (c3 =? 0) && (c4 =? 0) && (c5 =? 0) && (c6 =? 0) && (c7 =? 0)) eqn:E; [|reflexivity].
  repeat (apply andb_true_iff in E; destruct E as [E ?]).
  assert (c1 = 0 /\ c2 = 0 /\ c3 = 0 /\ c4 = 0 /\ c5 = 0 /\ c6 = 0 /\ c7 = 0) as (-> & -> & -> & -> & -> & -> & ->) by lia.
  assert (Ez : forall q, DEQUANTIZE cf 0 q = 0).
  { intros q. unfold DEQUANTIZE. assert (W : wrapS (c_mw cf) 0 = 0) by (cfg_cases cf Hok; reflexivity). rewrite W. lia. }
  rewrite !Ez. generalize (DEQUANTIZE cf c0 q0). intros D0.
  cfg_cases cf Hok; sample_consts; ilin_open; cbn [map]; rewrite !DESCALE_eq by lia; norm_pow;
    repeat (f_equal; try (f_equal; lia)).
Qed.

(* idct_row is range_limit of row_pre -- also in the zero-AC shortcut *)
Lemma idct_row_is_pre cf w0 w1 w2 w3 w4 w5 w6 w7 : cfg_ok cf ->
  idct_row cf [w0; w1; w2; w3; w4; w5; w6; w7] = map (range_limit cf) (row_pre cf [w0; w1; w2; w3; w4; w5; w6; w7]).
Proof.
  intros Hok. unfold idct_row, row_pre, ish2. rewrite map_map.
  destruct ((w1 =? 0) && (w2 =? 0) && (w3 =? 0) && (w4 =? 0) && (w5 =? 0) && (w6 =? 0) && (w7 =? 0)) eqn:E; [|reflexivity].
  repeat (apply andb_true_iff in E; destruct E as [E ?]).
  assert (w1 = 0 /\ w2 = 0 /\ w3 = 0 /\ w4 = 0 /\ w5 = 0 /\ w6 = 0 /\ w7 = 0) as (-> & -> & -> & -> & -> & -> & ->) by lia.
  cfg_cases cf Hok; sample_consts; ilin_open; cbn [map]; rewrite !DESCALE_eq by lia; norm_pow;
    repeat (f_equal; try (f_equal; lia)).
Qed.

(* pass 1: bounds and closeness of the rounded column *)
Lemma idct_pass1_round cf d0 d1 d2 d3 d4 d5 d6 d7 : cfg_ok cf ->
  inb din_max d0 -> inb din_max d1 -> inb din_max d2 -> inb din_max d3 ->
  inb din_max d4 -> inb din_max d5 -> inb din_max d6 -> inb din_max d7 ->
  exists y0 y1 y2 y3 y4 y5 y6 y7 l0 l1 l2 l3 l4 l5 l6 l7,
    col_round cf [d0; d1; d2; d3; d4; d5; d6; d7] = [y0; y1; y2; y3; y4; y5; y6; y7] /\
    idct_lin [d0; d1; d2; d3; d4; d5; d6; d7] = [l0; l1; l2; l3; l4; l5; l6; l7] /\
    (inb ws_max y0 /\ inb ws_max y1 /\ inb ws_max y2 /\ inb ws_max y3 /\
     inb ws_max y4 /\ inb ws_max y5 /\ inb ws_max y6 /\ inb ws_max y7) /\
    close (2 ^ ish1 cf) (2 ^ (ish1 cf - 1)) y0 l0 /\ close (2 ^ ish1 cf) (2 ^ (ish1 cf - 1)) y1 l1 /\
    close (2 ^ ish1 cf) (2 ^ (ish1 cf - 1)) y2 l2 /\ close (2 ^ ish1 cf) (2 ^ (ish1 cf - 1)) y3 l3 /\
    close (2 ^ ish1 cf) (2 ^ (ish1 cf - 1)) y4 l4 /\ close (2 ^ ish1 cf) (2 ^ (ish1 cf - 1)) y5 l5 /\
    close (2 ^ ish1 cf) (2 ^ (ish1 cf - 1)) y6 l6 /\ close (2 ^ ish1 cf) (2 ^ (ish1 cf - 1)) y7 l7.
Proof.
  intros Hok. unfold inb, din_max, ws_max, close, col_round, ish1.
  cfg_cases cf Hok; sample_consts; change idct_const_bits with 13; norm_pow; intros; ilin_open; cbn [map];
    rewrite !DESCALE_eq by lia; norm_pow;
    repeat match goal with |- context [wrapS ?w ?x] => rewrite (wrapS_small w x) by (norm_pow; lia) end;
    do 16 eexists; (split; [reflexivity|]); (split; [reflexivity|]); repeat split; lia.
Qed.

(* pass 2 on a workspace row whose entries a_i are the rounded pass-1 values of exact values l_i *)
Lemma idct_pass2_round cf a0 a1 a2 a3 a4 a5 a6 a7 l0 l1 l2 l3 l4 l5 l6 l7 : cfg_ok cf ->
  inb ws_max a0 -> inb ws_max a1 -> inb ws_max a2 -> inb ws_max a3 ->
  inb ws_max a4 -> inb ws_max a5 -> inb ws_max a6 -> inb ws_max a7 ->
  close (2 ^ ish1 cf) (2 ^ (ish1 cf - 1)) a0 l0 -> close (2 ^ ish1 cf) (2 ^ (ish1 cf - 1)) a1 l1 ->
  close (2 ^ ish1 cf) (2 ^ (ish1 cf - 1)) a2 l2 -> close (2 ^ ish1 cf) (2 ^ (ish1 cf - 1)) a3 l3 ->
  close (2 ^ ish1 cf) (2 ^ (ish1 cf - 1)) a4 l4 -> close (2 ^ ish1 cf) (2 ^ (ish1 cf - 1)) a5 l5 ->
  close (2 ^ ish1 cf) (2 ^ (ish1 cf - 1)) a6 l6 -> close (2 ^ ish1 cf) (2 ^ (ish1 cf - 1)) a7 l7 ->
  exists z0 z1 z2 z3 z4 z5 z6 z7 m0 m1 m2 m3 m4 m5 m6 m7,
    row_pre cf [a0; a1; a2; a3; a4; a5; a6; a7] = [z0; z1; z2; z3; z4; z5; z6; z7] /\
    idct_lin [l0; l1; l2; l3; l4; l5; l6; l7] = [m0; m1; m2; m3; m4; m5; m6; m7] /\
    close (2 ^ 29) (irbound cf) z0 m0 /\ close (2 ^ 29) (irbound cf) z1 m1 /\
    close (2 ^ 29) (irbound cf) z2 m2 /\ close (2 ^ 29) (irbound cf) z3 m3 /\
    close (2 ^ 29) (irbound cf) z4 m4 /\ close (2 ^ 29) (irbound cf) z5 m5 /\
    close (2 ^ 29) (irbound cf) z6 m6 /\ close (2 ^ 29) (irbound cf) z7 m7.
Proof.
  intros Hok. unfold inb, ws_max, close, irbound, row_pre, ish1, ish2.
  cfg_cases cf Hok; sample_consts; change idct_const_bits with 13; norm_pow; intros; ilin_open; cbn [map];
    rewrite !DESCALE_eq by lia; norm_pow;
    do 16 eexists; (split; [reflexivity|]); (split; [reflexivity|]); repeat split; lia.
Qed.

(* ---------------------------------------------------------------- the 2-D statement *)
Definition deq_block (cf : cfg) (coef mult : list Z) : list Z := map2 (DEQUANTIZE cf) coef mult.
(* jpeg_idct_islow before the range-limit table look-up *)
Definition idct_pre (cf : cfg) (coef mult : list Z) : list Z :=
  concat (map (row_pre cf) (transpose8 (map2 (idct_col cf) (transpose8 (rows8 coef)) (transpose8 (rows8 mult))))).
Definition idct_lin2d (D : list Z) : list Z :=
  concat (map idct_lin (transpose8 (map idct_lin (transpose8 (rows8 D))))).

Theorem idct_rounding_error_proof : forall cf coef mult, cfg_ok cf -> length coef = 64%nat -> length mult = 64%nat ->
  Forall (inb din_max) (deq_block cf coef mult) ->
  idct_islow cf coef mult = map (range_limit cf) (idct_pre cf coef mult) /\
  Forall2 (fun s l => - irbound cf <= 2 ^ 29 * s - l <= irbound cf) (idct_pre cf coef mult) (idct_lin2d (deq_block cf coef mult)).
Proof.
  intros cf coef mult Hok Hlc Hlm HF.
  do 64 (destruct coef as [|? coef]; [discriminate Hlc|]). destruct coef; [|discriminate Hlc].
  do 64 (destruct mult as [|? mult]; [discriminate Hlm|]). destruct mult; [|discriminate Hlm].
  unfold deq_block in *. cbn [map2] in HF |- *.
  do 8 (apply Forall8 in HF; destruct HF as (?&?&?&?&?&?&?&?&HF)).
  unfold idct_islow, idct_pre, idct_lin2d.
  repeat match goal with |- context [transpose8 (rows8 ?l)] =>
    let r := eval cbv [rows8 transpose8 seq map nth firstn skipn Nat.mul Nat.add] in (transpose8 (rows8 l)) in
    change (transpose8 (rows8 l)) with r end.
  cbn [map2 map].
  rewrite !(idct_col_is_round cf) by exact Hok.
  repeat match goal with |- context [col_round cf [?a0; ?a1; ?a2; ?a3; ?a4; ?a5; ?a6; ?a7]] =>
    let E := fresh "E" in let E' := fresh "E" in
    destruct (idct_pass1_round cf a0 a1 a2 a3 a4 a5 a6 a7 Hok)
      as (?&?&?&?&?&?&?&?&?&?&?&?&?&?&?&?&E&E'&(?&?&?&?&?&?&?&?)&?&?&?&?&?&?&?&?); [assumption..|];
    rewrite ?E, ?E'; clear E E' end.
  repeat match goal with |- context [transpose8 ?m] =>
    lazymatch m with
    | context [idct_col] => fail
    | context [col_round] => fail
    | context [idct_lin] => fail
    | _ => let r := eval cbv [transpose8 seq map nth] in (transpose8 m) in change (transpose8 m) with r
    end end.
  cbn [map].
  rewrite !(idct_row_is_pre cf) by exact Hok.
  repeat match goal with |- context [row_pre cf [?a0; ?a1; ?a2; ?a3; ?a4; ?a5; ?a6; ?a7]] =>
    match goal with |- context [idct_lin [?l0; ?l1; ?l2; ?l3; ?l4; ?l5; ?l6; ?l7]] =>
      match goal with _ : close _ _ a0 l0 |- _ =>
        let E := fresh "E" in let E' := fresh "E" in
        destruct (idct_pass2_round cf a0 a1 a2 a3 a4 a5 a6 a7 l0 l1 l2 l3 l4 l5 l6 l7 Hok)
          as (?&?&?&?&?&?&?&?&?&?&?&?&?&?&?&?&E&E'&?&?&?&?&?&?&?&?); [assumption..|];
        rewrite ?E, ?E'; clear E E' end end end.
  split; [cbv [concat app map]; reflexivity|].
  cbv [concat app]. unfold close in *.
  repeat (constructor; [lia|]). constructor.
Qed.
