(* C05 -- fast forward DCT: the kernel equals the C code as long as no multiply operand
   leaves [-8192, 8191] (then the pre-shift by 2 bits stays inside the 16-bit lane); a block of
   8-bit samples for which it does leave it, and the two results differ (refutation of the
   unconditional statement = finding ifast-16bit-overflow). *)
From Coq Require Import List ZArith Lia Bool ZifyBool.
From LJT Require Import lib.Words gen.GenSimdConst model.SimdDct.
Import ListNotations.
Local Open Scope Z_scope.

Lemma w16_sw x : w16 (sw x) = w16 x.
Proof.
  unfold sw, s16, w16. rewrite Zminus_mod_idemp_l.
  replace (x mod 65536 + 32768 - 32768) with (x mod 65536) by lia. apply Z.mod_mod. lia.
Qed.
Lemma sw_range x : -32768 <= sw x < 32768.
Proof. unfold sw, s16. pose proof (Z.mod_pos_bound (w16 x + 32768) 65536 ltac:(lia)). lia. Qed.
Lemma s16_w16_sw x : s16 (w16 (sw x)) = sw x.
Proof. apply s16_w16. apply sw_range. Qed.

Definition R (c a : Z) : Prop := a = w16 c.
Lemma R_add a b a' b' : R a a' -> R b b' -> R (sw (a + b)) (paddw a' b').
Proof.
  unfold R. intros -> ->. rewrite w16_sw. unfold paddw, w16. rewrite <- Z.add_mod by lia. reflexivity.
Qed.
Lemma R_sub a b a' b' : R a a' -> R b b' -> R (sw (a - b)) (psubw a' b').
Proof.
  unfold R. intros -> ->. rewrite w16_sw. unfold psubw, w16. rewrite <- Zminus_mod. reflexivity.
Qed.

Lemma consts_ok : forall k, (k < 4)%nat -> 0 <= c_K k < 512 /\ a_K k = c_K k * 64.
Proof. intros k Hk. destruct k as [|[|[|[|k]]]]; try lia; vm_compute; repeat split; congruence. Qed.
Lemma pre_bits : a_pre = 2 /\ c_jfdctfst_CONST_BITS = 8.
Proof. split; reflexivity. Qed.

(* the multiply: exact as long as the operand fits in 14 bits *)
Lemma mul_core v k : (k < 4)%nat -> -8192 <= v < 8192 ->
  pmulhw (psllw (w16 v) a_pre) (a_K k) = w16 (c_mul v k).
Proof.
  intros Hk Hv. destruct (consts_ok k Hk) as [Hc Ha]. destruct pre_bits as [Hp Hb].
  unfold c_mul. rewrite w16_sw, Ha, Hp, Hb. rewrite Z.shiftr_div_pow2 by lia. change (2 ^ 8) with 256.
  unfold pmulhw, psllw. change (2 ^ 2) with 4.
  replace (w16 (w16 v * 4)) with (w16 (v * 4)).
  2:{ unfold w16. rewrite Zmult_mod_idemp_l. reflexivity. }
  rewrite s16_w16 by lia. rewrite s16_small by lia.
  f_equal. replace (v * 4 * (c_K k * 64)) with (v * c_K k * 256) by lia.
  change 65536 with (256 * 256). rewrite Z.div_mul_cancel_r by lia. reflexivity.
Qed.
Lemma R_mul1 a a' k : (k < 4)%nat -> R a a' -> -8192 <= a < 8192 -> R (c_mul a k) (pmulhw (psllw a' a_pre) (a_K k)).
Proof. unfold R. intros Hk -> Hr. apply mul_core; assumption. Qed.
Lemma R_mul_add a b a' b' k : (k < 4)%nat -> R a a' -> R b b' -> -8192 <= a + b < 8192 ->
  R (c_mul (a + b) k) (pmulhw (psllw (paddw a' b') a_pre) (a_K k)).
Proof.
  unfold R. intros Hk -> -> Hr.
  replace (paddw (w16 a) (w16 b)) with (w16 (a + b)) by (unfold paddw, w16; rewrite <- Z.add_mod by lia; reflexivity).
  apply mul_core; assumption.
Qed.
Lemma R_mul_sub a b a' b' k : (k < 4)%nat -> R a a' -> R b b' -> -8192 <= a - b < 8192 ->
  R (c_mul (a - b) k) (pmulhw (psubw (psllw a' a_pre) (psllw b' a_pre)) (a_K k)).
Proof.
  unfold R. intros Hk -> -> Hr. destruct pre_bits as [Hp _].
  replace (psubw (psllw (w16 a) a_pre) (psllw (w16 b) a_pre)) with (psllw (w16 (a - b)) a_pre).
  - apply mul_core; assumption.
  - rewrite Hp. unfold psubw, psllw, w16. change (2 ^ 2) with 4.
    rewrite !Zmult_mod_idemp_l. rewrite <- Zminus_mod. f_equal. lia.
Qed.

Definition in14 (v : Z) : Prop := -8192 <= v < 8192.

(* one pass: equal when the five multiply operands fit in 14 bits *)
Theorem fdct1_ifast_eq_partial d : length d = 8%nat -> Forall in14 (c_operands d) ->
  map s16 (fdct1 asm_alg (map w16 d)) = fdct1 c_alg d.
Proof.
  intros Hl Hop.
  destruct d as [|d0 [|d1 [|d2 [|d3 [|d4 [|d5 [|d6 [|d7 [|? ?]]]]]]]]]; try discriminate.
  cbn [c_operands] in Hop.
  repeat match goal with H : Forall _ (_ :: _) |- _ => inversion H; clear H; subst end.
  unfold in14 in *.
  cbn [map fdct1 asm_alg c_alg A_add A_sub A_mul1 A_mul_add A_mul_sub].
  (* relate every temporary *)
  assert (I0 : R d0 (w16 d0)) by reflexivity. assert (I1 : R d1 (w16 d1)) by reflexivity.
  assert (I2 : R d2 (w16 d2)) by reflexivity. assert (I3 : R d3 (w16 d3)) by reflexivity.
  assert (I4 : R d4 (w16 d4)) by reflexivity. assert (I5 : R d5 (w16 d5)) by reflexivity.
  assert (I6 : R d6 (w16 d6)) by reflexivity. assert (I7 : R d7 (w16 d7)) by reflexivity.
  pose proof (R_add _ _ _ _ I0 I7) as T0. pose proof (R_sub _ _ _ _ I0 I7) as T7.
  pose proof (R_add _ _ _ _ I1 I6) as T1. pose proof (R_sub _ _ _ _ I1 I6) as T6.
  pose proof (R_add _ _ _ _ I2 I5) as T2. pose proof (R_sub _ _ _ _ I2 I5) as T5.
  pose proof (R_add _ _ _ _ I3 I4) as T3. pose proof (R_sub _ _ _ _ I3 I4) as T4.
  pose proof (R_add _ _ _ _ T0 T3) as T10. pose proof (R_sub _ _ _ _ T0 T3) as T13.
  pose proof (R_add _ _ _ _ T1 T2) as T11. pose proof (R_sub _ _ _ _ T1 T2) as T12.
  pose proof (R_add _ _ _ _ T10 T11) as O0. pose proof (R_sub _ _ _ _ T10 T11) as O4.
  pose proof (R_mul_add _ _ _ _ 0%nat ltac:(lia) T12 T13 ltac:(assumption)) as Z1.
  pose proof (R_add _ _ _ _ T13 Z1) as O2. pose proof (R_sub _ _ _ _ T13 Z1) as O6.
  pose proof (R_add _ _ _ _ T4 T5) as U10. pose proof (R_add _ _ _ _ T5 T6) as U11. pose proof (R_add _ _ _ _ T6 T7) as U12.
  pose proof (R_mul_sub _ _ _ _ 1%nat ltac:(lia) U10 U12 ltac:(assumption)) as Z5.
  pose proof (R_mul1 _ _ 2%nat ltac:(lia) U10 ltac:(assumption)) as M2.
  pose proof (R_mul1 _ _ 3%nat ltac:(lia) U12 ltac:(assumption)) as M4.
  pose proof (R_mul1 _ _ 0%nat ltac:(lia) U11 ltac:(assumption)) as Z3.
  pose proof (R_add _ _ _ _ M2 Z5) as Z2. pose proof (R_add _ _ _ _ M4 Z5) as Z4.
  pose proof (R_add _ _ _ _ T7 Z3) as Z11. pose proof (R_sub _ _ _ _ T7 Z3) as Z13.
  pose proof (R_add _ _ _ _ Z13 Z2) as O5. pose proof (R_sub _ _ _ _ Z13 Z2) as O3.
  pose proof (R_add _ _ _ _ Z11 Z4) as O1. pose proof (R_sub _ _ _ _ Z11 Z4) as O7.
  unfold R in O0, O1, O2, O3, O4, O5, O6, O7.
  rewrite O0, O1, O2, O3, O4, O5, O6, O7. rewrite !s16_w16_sw. reflexivity.
Qed.
(* the same, on bit patterns (what pass 2 of the kernel consumes) *)
Theorem fdct1_ifast_pat_partial d : length d = 8%nat -> Forall in14 (c_operands d) ->
  fdct1 asm_alg (map w16 d) = map w16 (fdct1 c_alg d).
Proof.
  intros Hl Hop.
  destruct d as [|d0 [|d1 [|d2 [|d3 [|d4 [|d5 [|d6 [|d7 [|? ?]]]]]]]]]; try discriminate.
  cbn [c_operands] in Hop.
  repeat match goal with H : Forall _ (_ :: _) |- _ => inversion H; clear H; subst end.
  unfold in14 in *.
  cbn [map fdct1 asm_alg c_alg A_add A_sub A_mul1 A_mul_add A_mul_sub].
  assert (I0 : R d0 (w16 d0)) by reflexivity. assert (I1 : R d1 (w16 d1)) by reflexivity.
  assert (I2 : R d2 (w16 d2)) by reflexivity. assert (I3 : R d3 (w16 d3)) by reflexivity.
  assert (I4 : R d4 (w16 d4)) by reflexivity. assert (I5 : R d5 (w16 d5)) by reflexivity.
  assert (I6 : R d6 (w16 d6)) by reflexivity. assert (I7 : R d7 (w16 d7)) by reflexivity.
  pose proof (R_add _ _ _ _ I0 I7) as T0. pose proof (R_sub _ _ _ _ I0 I7) as T7.
  pose proof (R_add _ _ _ _ I1 I6) as T1. pose proof (R_sub _ _ _ _ I1 I6) as T6.
  pose proof (R_add _ _ _ _ I2 I5) as T2. pose proof (R_sub _ _ _ _ I2 I5) as T5.
  pose proof (R_add _ _ _ _ I3 I4) as T3. pose proof (R_sub _ _ _ _ I3 I4) as T4.
  pose proof (R_add _ _ _ _ T0 T3) as T10. pose proof (R_sub _ _ _ _ T0 T3) as T13.
  pose proof (R_add _ _ _ _ T1 T2) as T11. pose proof (R_sub _ _ _ _ T1 T2) as T12.
  pose proof (R_add _ _ _ _ T10 T11) as O0. pose proof (R_sub _ _ _ _ T10 T11) as O4.
  pose proof (R_mul_add _ _ _ _ 0%nat ltac:(lia) T12 T13 ltac:(assumption)) as Z1.
  pose proof (R_add _ _ _ _ T13 Z1) as O2. pose proof (R_sub _ _ _ _ T13 Z1) as O6.
  pose proof (R_add _ _ _ _ T4 T5) as U10. pose proof (R_add _ _ _ _ T5 T6) as U11. pose proof (R_add _ _ _ _ T6 T7) as U12.
  pose proof (R_mul_sub _ _ _ _ 1%nat ltac:(lia) U10 U12 ltac:(assumption)) as Z5.
  pose proof (R_mul1 _ _ 2%nat ltac:(lia) U10 ltac:(assumption)) as M2.
  pose proof (R_mul1 _ _ 3%nat ltac:(lia) U12 ltac:(assumption)) as M4.
  pose proof (R_mul1 _ _ 0%nat ltac:(lia) U11 ltac:(assumption)) as Z3.
  pose proof (R_add _ _ _ _ M2 Z5) as Z2. pose proof (R_add _ _ _ _ M4 Z5) as Z4.
  pose proof (R_add _ _ _ _ T7 Z3) as Z11. pose proof (R_sub _ _ _ _ T7 Z3) as Z13.
  pose proof (R_add _ _ _ _ Z13 Z2) as O5. pose proof (R_sub _ _ _ _ Z13 Z2) as O3.
  pose proof (R_add _ _ _ _ Z11 Z4) as O1. pose proof (R_sub _ _ _ _ Z11 Z4) as O7.
  unfold R in O0, O1, O2, O3, O4, O5, O6, O7.
  rewrite O0, O1, O2, O3, O4, O5, O6, O7. reflexivity.
Qed.

(* a sufficient input condition: eight values of magnitude <= 1023 (pass 1 on samples always) *)
Lemma sw_id x : -32768 <= x < 32768 -> sw x = x.
Proof. intros. unfold sw. apply s16_w16. assumption. Qed.
Theorem fdct1_ifast_eq_small d : length d = 8%nat -> Forall (fun v => -1023 <= v <= 1023) d ->
  map s16 (fdct1 asm_alg (map w16 d)) = fdct1 c_alg d.
Proof.
  intros Hl Hb. apply fdct1_ifast_eq_partial; [assumption|].
  destruct d as [|d0 [|d1 [|d2 [|d3 [|d4 [|d5 [|d6 [|d7 [|? ?]]]]]]]]]; try discriminate.
  repeat match goal with H : Forall _ (_ :: _) |- _ => inversion H; clear H; subst end.
  cbn [c_operands].
  repeat match goal with |- context [sw ?e] => rewrite (sw_id e) by lia end.
  unfold in14. repeat constructor; lia.
Qed.

(* the unconditional statement over blocks of level-shifted 8-bit samples is false *)
Definition fdct_ifast_full : Prop :=
  forall blk, length blk = 64%nat -> Forall (fun v => -128 <= v <= 127) blk -> asm_fdct_ifast blk = c_fdct_ifast blk.
Definition stripes : list Z :=        (* period-3 vertical, period-2 horizontal black/white stripes *)
  concat (map (fun y => map (fun x => if Z.odd (x / 3 + y / 2) then 127 else -128) [0;1;2;3;4;5;6;7]) [0;1;2;3;4;5;6;7]).
Theorem fdct_ifast_full_refuted :
  length stripes = 64%nat /\ Forall (fun v => -128 <= v <= 127) stripes /\ asm_fdct_ifast stripes <> c_fdct_ifast stripes.
Proof.
  split; [reflexivity|]. split.
  - unfold stripes. cbn. repeat constructor; lia.
  - vm_compute. discriminate.
Qed.
Corollary not_fdct_ifast_full : ~ fdct_ifast_full.
Proof.
  intros H. destruct fdct_ifast_full_refuted as (L & B & N). apply N. apply H; assumption.
Qed.
Example fdct_ifast_nonvacuous :
  let blk := map (fun i => (i * 7) mod 41 - 20) (map Z.of_nat (seq 0 64)) in
  asm_fdct_ifast blk = c_fdct_ifast blk /\ nth 0 (c_fdct_ifast blk) 0 = -42.
Proof. vm_compute. split; reflexivity. Qed.

(* ---- the whole 8x8 transform: equal whenever the C computation stays within 14 bits at every multiply ---- *)
Lemma map2_map_l {A B C D} (g : A -> B) (h : C -> D) (f : A -> C -> C) (f' : B -> D -> D) a b :
  (forall x y, h (f x y) = f' (g x) (h y)) -> map h (map2 f a b) = map2 f' (map g a) (map h b).
Proof.
  intros H. revert b. induction a as [|x a IH]; intros [|y b]; try reflexivity.
  unfold map2 in *. cbn. rewrite H. f_equal. apply IH.
Qed.
Lemma transpose_map (g : Z -> Z) m : transpose (map (map g) m) = map (map g) (transpose m).
Proof.
  induction m as [|r t IH]; [reflexivity|].
  cbn [map transpose]. rewrite IH. symmetry.
  apply (map2_map_l g (map g) (fun x col => x :: col) (fun x col => x :: col)). reflexivity.
Qed.
Lemma in14b_spec v : in14b v = true -> in14 v.
Proof. unfold in14b, in14. lia. Qed.
Lemma forallb_in14 l : forallb in14b l = true -> Forall in14 l.
Proof. intros H. apply Forall_forall. intros x Hx. rewrite forallb_forall in H. apply in14b_spec, H, Hx. Qed.
Lemma fdct1_length8 (A : alg) d : length d = 8%nat -> length (fdct1 A d) = 8%nat.
Proof. intros H. destruct d as [|d0 [|d1 [|d2 [|d3 [|d4 [|d5 [|d6 [|d7 [|? ?]]]]]]]]]; try discriminate. reflexivity. Qed.

Lemma pass_eq rows : Forall (fun r => length r = 8%nat) rows ->
  forallb (fun r => forallb in14b (c_operands r)) rows = true ->
  map (fdct1 asm_alg) (map (map w16) rows) = map (map w16) (map (fdct1 c_alg) rows).
Proof.
  intros HL HW. induction HL as [|r t Hr Ht IH]; [reflexivity|].
  cbn [forallb] in HW. apply andb_prop in HW. destruct HW as [H1 H2].
  cbn [map]. rewrite IH by assumption. f_equal.
  apply fdct1_ifast_pat_partial; [assumption | apply forallb_in14; assumption].
Qed.

Lemma transpose_len8 m : Forall (fun r => length r = 8%nat) m -> Forall (fun r => length r = length m) (transpose m) /\ length (transpose m) = 8%nat.
Proof.
  induction 1 as [|r t Hr Ht IH]; [split; [repeat constructor | reflexivity]|].
  destruct IH as [IH1 IH2]. cbn [transpose length].
  destruct r as [|r0 [|r1 [|r2 [|r3 [|r4 [|r5 [|r6 [|r7 [|? ?]]]]]]]]]; try discriminate.
  destruct (transpose t) as [|c0 [|c1 [|c2 [|c3 [|c4 [|c5 [|c6 [|c7 [|? ?]]]]]]]]]; try discriminate.
  repeat match goal with H : Forall _ (_ :: _) |- _ => inversion H; clear H; subst end.
  unfold map2. cbn. split; [|reflexivity]. repeat constructor; cbn; congruence.
Qed.

Theorem fdct_ifast_eq_partial blk : length blk = 64%nat -> c_wraps14 blk = false ->
  asm_fdct_ifast blk = c_fdct_ifast blk.
Proof.
  intros HL HW. unfold c_wraps14 in HW. apply negb_false_iff in HW. apply andb_prop in HW. destruct HW as [W1 W2].
  unfold asm_fdct_ifast, c_fdct_ifast, fdct2.
  assert (Hrows : Forall (fun r => length r = 8%nat) (chunk8 8 blk)).
  { do 65 (destruct blk as [|? blk]; try discriminate). cbn. repeat constructor. }
  assert (Hch : chunk8 8 (map w16 blk) = map (map w16) (chunk8 8 blk)).
  { do 65 (destruct blk as [|? blk]; try discriminate). reflexivity. }
  rewrite Hch. rewrite pass_eq by assumption. rewrite transpose_map.
  set (p1 := map (fdct1 c_alg) (chunk8 8 blk)) in *.
  assert (Hp1 : Forall (fun r => length r = 8%nat) p1).
  { unfold p1. apply Forall_forall. intros r Hr. apply in_map_iff in Hr. destruct Hr as (x & <- & Hx).
    apply fdct1_length8. rewrite Forall_forall in Hrows. apply Hrows, Hx. }
  assert (Hlen : length p1 = 8%nat).
  { unfold p1. rewrite map_length. do 65 (destruct blk as [|? blk]; try discriminate). reflexivity. }
  destruct (transpose_len8 p1 Hp1) as [Ht _]. rewrite Hlen in Ht.
  rewrite pass_eq by assumption. rewrite transpose_map.
  rewrite concat_map. rewrite map_map.
  rewrite <- (map_id (transpose (map (fdct1 c_alg) (transpose p1)))) at 2.
  f_equal. apply map_ext_in. intros r Hr. rewrite map_map.
  rewrite <- (map_id r) at 2. apply map_ext_in. intros v Hv.
  (* every value of the C result is a stored short *)
  assert (Hv' : exists e, v = sw e).
  { clear - Hr Hv Ht.
    assert (Hall : Forall (fun row => Forall (fun v => exists e, v = sw e) row) (map (fdct1 c_alg) (transpose p1))).
    { apply Forall_forall. intros row Hrow. apply in_map_iff in Hrow. destruct Hrow as (d & <- & Hd).
      rewrite Forall_forall in Ht. specialize (Ht d Hd).
      destruct d as [|d0 [|d1 [|d2 [|d3 [|d4 [|d5 [|d6 [|d7 [|? ?]]]]]]]]]; try discriminate.
      cbn [fdct1 c_alg A_add A_sub A_mul1 A_mul_add A_mul_sub]. unfold c_mul. repeat constructor; eexists; reflexivity. }
    (* transposition only moves values around *)
    assert (Hin : forall m : list (list Z), Forall (fun row => Forall (fun v => exists e, v = sw e) row) m ->
                  Forall (fun row => Forall (fun v => exists e, v = sw e) row) (transpose m)).
    { induction 1 as [|x t Hx Hm IH]; [cbn; repeat constructor|].
      cbn [transpose]. unfold map2. apply Forall_forall. intros row Hrow. apply in_map_iff in Hrow.
      destruct Hrow as ((a, col) & <- & Hp). cbn [fst snd]. constructor.
      - rewrite Forall_forall in Hx. apply Hx. eapply in_combine_l; eauto.
      - rewrite Forall_forall in IH. apply IH. eapply in_combine_r; eauto. }
    specialize (Hin _ Hall). rewrite Forall_forall in Hin. specialize (Hin r Hr). rewrite Forall_forall in Hin. apply Hin, Hv. }
  destruct Hv' as [e ->]. apply s16_w16_sw.
Qed.

(* horizontal structure never wraps with a 2-bit pre-shift: a block whose rows are constant
   (any 8 levels) -- e.g. 2-on/2-off horizontal stripes of full contrast -- is safe *)
Example rowconst_safe :
  let blk := concat (map (fun v => repeat v 8) [127; 127; -128; -128; 127; 127; -128; -128]) in
  c_wraps14 blk = false /\ asm_fdct_ifast blk = c_fdct_ifast blk /\ c_wraps14 stripes = true.
Proof. vm_compute. repeat split; reflexivity. Qed.
