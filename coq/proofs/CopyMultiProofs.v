(* CopyMultiProofs.v -- C16: in ONE tj3Transform call with several transforms every output gets the policy sub-list
   of ITS OWN copy option, and the instance profile unless THAT transform copied an ICC-looking APP2 marker; and
   the state checks of the marker-writing API. *)
From Coq Require Import List ZArith Bool Lia.
From LJT Require Import lib.Sweep gen.GenIccConst model.MarkerRT model.Icc model.CopyMarkers model.CopyMulti
  proofs.C16Consts proofs.IccProofs proofs.MarkerProofs proofs.CopyProofs proofs.CopyHistory.
Import ListNotations.
Local Open Scope Z_scope.

(* what the decompressor holds after jcopy_markers_setup(opt) on a fresh marker reader *)
Lemma saved_list_selected opt segs : 0 <= opt < 5 -> Forall seg_ok segs -> Forall (fun s => Forall is_byte (snd s)) segs ->
  flat_map (saved_under (copy_setup opt cfg_init)) segs = map saved_of (filter (fun s => selected opt (fst s)) segs).
Proof.
  intros Ho HF HB. induction segs as [|s segs IH]; [reflexivity|].
  pose proof (Forall_inv HF) as (S1 & S2). pose proof (Forall_inv HB) as B1. cbn beta in B1.
  specialize (IH (Forall_inv_tail HF) (Forall_inv_tail HB)). cbn [flat_map filter]. rewrite IH.
  unfold saved_under. pose proof (app_or_com_byte _ S1) as Hbyte. unfold is_byte in Hbyte.
  rewrite copy_setup_spec by assumption.
  destruct (selected opt (fst s)) eqn:Sel.
  - change (COPY_SAVE_LIMIT =? 0) with false. cbn iota. cbn [map app]. f_equal.
    unfold kept_len. rewrite copy_setup_spec by assumption. rewrite Sel. rewrite map_byte_of_id by assumption.
    replace (Z.to_nat (Z.min (Zlength (snd s)) COPY_SAVE_LIMIT)) with (length (snd s)).
    + rewrite firstn_exact. reflexivity.
    + unfold WRITE_MARKER_MAX_DATALEN in S2. unfold COPY_SAVE_LIMIT. rewrite Zlength_correct in *. lia.
  - rewrite Z.eqb_refl. reflexivity.
Qed.

Definition instance_part (icc_buf : list Z) : list segment :=
  match icc_buf with [] => [] | _ => match write_icc icc_buf with Some segs => segs | None => [] end end.
(* this transform copied an ICC-looking APP2 marker of the source *)
Definition source_icc_copied (opt : Z) (segs : list segment) : bool :=
  copies_app2 opt && existsb (fun s => tj_icc_marker (saved_of s)) segs.

Lemma copies_app2_selected opt code : 0 <= opt < 5 -> copies_app2 opt = true -> code = JPEG_APP0 + 2 -> selected opt code = true.
Proof.
  intros Ho H ->. unfold copies_app2 in H. unfold selected.
  destruct (opt =? JCOPYOPT_ALL) eqn:E2; [apply Z.eqb_eq in E2; subst; reflexivity|].
  destruct (opt =? JCOPYOPT_ICC) eqn:E4; [apply Z.eqb_eq in E4; subst; reflexivity | discriminate].
Qed.

Lemma existsb_icc_selected opt segs : 0 <= opt < 5 -> copies_app2 opt = true ->
  existsb tj_icc_marker (map saved_of (filter (fun s => selected opt (fst s)) segs)) = existsb (fun s => tj_icc_marker (saved_of s)) segs.
Proof.
  intros Ho Hc. induction segs as [|s r IH]; [reflexivity|]. cbn [filter existsb].
  destruct (selected opt (fst s)) eqn:Sel; cbn [map existsb]; rewrite IH; [reflexivity|].
  replace (tj_icc_marker (saved_of s)) with false; [reflexivity|]. symmetry.
  unfold tj_icc_marker, saved_of. cbn [sm_code]. destruct (fst s =? JPEG_APP0 + 2) eqn:E; [|reflexivity].
  apply Z.eqb_eq in E. rewrite (copies_app2_selected opt _ Ho Hc E) in Sel. discriminate.
Qed.

(* (6) one call, several transforms *)
Theorem tj_multi_transform : TJ_TRANSFORM_ICC_UNCONDITIONAL = 0 ->
  forall sm wj wa segs rest icc_buf, 0 <= sm < 5 ->
  Forall seg_ok segs -> Forall (fun s => Forall is_byte (snd s)) segs -> stops rest ->
  exists bytes, write_markers segs = Some bytes /\
    forall flags fuel, (length segs < fuel)%nat ->
      tj_transform_multi sm flags wj wa fuel (bytes ++ rest) icc_buf
      = Some (map (fun copynone : bool =>
                     if copynone then instance_part icc_buf
                     else filter (fun s => policy sm wj wa (saved_of s)) segs
                          ++ (if source_icc_copied sm segs then [] else instance_part icc_buf)) flags).
Proof.
  intros HU sm wj wa segs rest icc_buf Ho HF HB Hs.
  assert (Hnn : forall o, 0 <= o < 5 -> forall k, 0 <= copy_setup o cfg_init k) by (intros; apply copy_setup_nonneg; assumption).
  assert (Hopt : forall flags, 0 <= tj_multi_setup_option sm flags < 5).
  { intros flags. unfold tj_multi_setup_option, tj_setup_option. destruct (forallb _ flags); [unfold JCOPYOPT_NONE; lia | assumption]. }
  assert (Eb : write_markers segs = Some (match write_markers segs with Some b => b | None => [] end)).
  { destruct (markers_roundtrip cfg_init segs (fun _ => Z.le_refl 0) HF rest Hs) as (b & E & _). rewrite E. reflexivity. }
  eexists. split; [exact Eb|]. intros flags fuel Hf. unfold tj_transform_multi.
  destruct (markers_roundtrip (copy_setup (tj_multi_setup_option sm flags) cfg_init) segs (Hnn _ (Hopt flags)) HF rest Hs) as (b & E & R).
  rewrite E. destruct (R fuel hinfo_init [] Hf) as (h' & ER). rewrite ER. cbn [app]. f_equal.
  rewrite (saved_list_selected _ segs (Hopt flags) HF HB).
  apply map_ext_in. intros cn Hin. unfold tj_transform_extras, tj_execute_option. rewrite HU. change (0 =? 1) with false. cbn [orb].
  destruct cn.
  - (* TJXOPT_COPYNONE: nothing copied, iccCopied stays FALSE *)
    rewrite copy_policy. unfold tj_icc_copied, copies_app2. change (JCOPYOPT_NONE =? JCOPYOPT_ALL) with false.
    change (JCOPYOPT_NONE =? JCOPYOPT_ICC) with false. cbn [orb andb negb].
    assert (Z0 : forall l, filter (policy JCOPYOPT_NONE wj wa) l = []) by (induction l; cbn; auto).
    rewrite Z0. reflexivity.
  - (* this transform copies with TJPARAM_SAVEMARKERS; some flag is false, so the setup used it too *)
    assert (Es : tj_multi_setup_option sm flags = sm).
    { unfold tj_multi_setup_option, tj_setup_option. destruct (forallb (fun b0 => b0) flags) eqn:FA; [|reflexivity].
      rewrite forallb_forall in FA. specialize (FA _ Hin). discriminate. }
    rewrite Es. rewrite copy_policy. f_equal.
    + (* the copied part: policy sub-list *)
      clear - Ho HF. induction segs as [|s r IH]; [reflexivity|]. pose proof (Forall_inv HF) as (S1 & _).
      specialize (IH (Forall_inv_tail HF)). cbn [filter]. destruct (selected sm (fst s)) eqn:Sel; cbn [map filter].
      * destruct (policy sm wj wa (saved_of s)); cbn [map]; rewrite IH; [|reflexivity].
        unfold seg_of, saved_of. cbn [sm_code sm_data]. destruct s; reflexivity.
      * destruct (policy sm wj wa (saved_of s)) eqn:P; [|assumption]. exfalso.
        apply policy_selected in P; [|assumption | exact S1]. cbn [saved_of sm_code] in P. congruence.
    + unfold tj_icc_copied, source_icc_copied. destruct (copies_app2 sm) eqn:C2; cbn [andb negb]; [|reflexivity].
      rewrite (existsb_icc_selected sm segs Ho C2). destruct (existsb _ segs); reflexivity.
Qed.

(* ---- state checks of the marker-writing API ---- *)
Theorem write_marker_state gs ns s :
  (marker_write_allowed gs ns = false -> jpeg_write_marker_api gs ns s = WBadState) /\
  (marker_write_allowed gs ns = true -> Zlength (snd s) <= WRITE_MARKER_MAX_DATALEN ->
     jpeg_write_marker_api gs ns s = WOk (emit_marker (fst s) ++ emit_2bytes (Zlength (snd s) + 2) ++ map byte_of (snd s))) /\
  (marker_write_allowed gs ns = true -> WRITE_MARKER_MAX_DATALEN < Zlength (snd s) -> jpeg_write_marker_api gs ns s = WBadLength).
Proof.
  unfold jpeg_write_marker_api. destruct s as [code data]. cbn [fst snd]. repeat split; intros H.
  - rewrite H. reflexivity.
  - intros L. rewrite H, write_marker_ok by assumption. reflexivity.
  - intros L. rewrite H, write_marker_too_long by assumption. reflexivity.
Qed.
Theorem marker_write_allowed_iff gs ns : marker_write_allowed gs ns = true <->
  ns = 0 /\ (gs = CSTATE_SCANNING \/ gs = CSTATE_RAW_OK \/ gs = CSTATE_WRCOEFS).
Proof.
  unfold marker_write_allowed. rewrite andb_true_iff, !orb_true_iff, !Z.eqb_eq. tauto.
Qed.
