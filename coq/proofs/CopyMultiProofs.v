(* CopyMultiProofs.v -- C16: in ONE tj3Transform call with several transforms every output gets the policy sub-list
   of ITS OWN copy option, and the instance profile unless THAT transform copied an ICC-looking APP2 marker; and
   the state checks of the marker-writing API. *)
From Coq Require Import List ZArith Bool Lia.
From LJT Require Import lib.Sweep gen.GenIccConst model.MarkerRT model.Icc model.CopyMarkers model.CopyMulti
  proofs.C16Consts proofs.IccProofs proofs.MarkerProofs proofs.CopyProofs proofs.CopyHistory.
Import ListNotations.
Local Open Scope Z_scope.

(* what the decompressor holds after jcopy_markers_setup(opt) on a fresh marker reader *)
Lemma saved_list_selected opt segs : 0 <= opt < 5 -> Forall seg_ok segs -> Forall (fun s => Forall is_byte (snd s)) segs ->
  flat_map (saved_under (copy_setup opt cfg_init)) segs = map saved_of (filter (fun s => selected opt (fst s)) segs).
Proof.
  intros Ho HF HB. induction segs as [|s segs IH]; [reflexivity|].
  pose proof (Forall_inv HF) as (S1 & S2). pose proof (Forall_inv HB) as B1. cbn beta in B1.
  specialize (IH (Forall_inv_tail HF) (Forall_inv_tail HB)). cbn [flat_map filter]. rewrite IH.
  unfold saved_under. pose proof (app_or_com_byte _ S1) as Hbyte. unfold is_byte in Hbyte.
  rewrite copy_setup_spec by assumption.
  destruct (selected opt (fst s)) eqn:Sel.
  - change (COPY_SAVE_LIMIT =? 0) with false. cbn iota. cbn [map app]. f_equal.
    unfold kept_len. rewrite copy_setup_spec by assumption. rewrite Sel. rewrite map_byte_of_id by assumption.
    replace (Z.to_nat (Z.min (Zlength (snd s)) COPY_SAVE_LIMIT)) with (length (snd s)).
    + rewrite firstn_exact. reflexivity.
    + unfold WRITE_MARKER_MAX_DATALEN in S2. unfold COPY_SAVE_LIMIT. rewrite Zlength_correct in *. lia.
  - rewrite Z.eqb_refl. reflexivity.
Qed.

Definition instance_part (icc_buf : list Z) : list segment :=
  match icc_buf with [] => [] | _ => match write_icc icc_buf with Some segs => segs | None => [] end end.
(* this transform copied an ICC-looking APP2 marker of the source *)
Definition source_icc_copied (opt : Z) (segs : list segment) : bool :=
  copies_app2 opt && existsb (fun s => tj_icc_marker (saved_of s)) segs.

Lemma copies_app2_selected opt code : 0 <= opt < 5 -> copies_app2 opt = true -> code = JPEG_APP0 + 2 -> selected opt code = true.
Proof.
  intros Ho H ->. unfold copies_app2 in H. unfold selected.
  destruct (opt =? JCOPYOPT_ALL) eqn:E2; [apply Z.eqb_eq in E2; subst; reflexivity|].
  destruct (opt =? JCOPYOPT_ICC) eqn:E4; [apply Z.eqb_eq in E4; subst; reflexivity | discriminate].
Qed.

Lemma existsb_icc_selected opt segs : 0 <= opt < 5 -> copies_app2 opt = true ->
  existsb tj_icc_marker (map saved_of (filter (fun s => selected opt (fst s)) segs)) = existsb (fun s => tj_icc_marker (saved_of s)) segs.
Proof.
  intros Ho Hc. induction segs as [|s r IH]; [reflexivity|]. cbn [filter existsb].
  destruct (selected opt (fst s)) eqn:Sel; cbn [map existsb]; rewrite IH; [reflexivity|].
  replace (tj_icc_marker (saved_of s)) with false; [reflexivity|]. symmetry.
  unfold tj_icc_marker, saved_of. cbn [sm_code]. destruct (fst s =? JPEG_APP0 + 2) eqn:E; [|reflexivity].
  apply Z.eqb_eq in E. rewrite (copies_app2_selected opt _ Ho Hc E) in Sel. discriminate.
Qed.

(* (6) one call, several transforms *)
Theorem tj_multi_transform : TJ_TRANSFORM_ICC_UNCONDITIONAL = 0 ->
  forall sm wj wa segs rest icc_buf, 0 <= sm < 5 ->
  Forall seg_ok segs -> Forall (fun s => Forall is_byte (snd s)) segs -> stops rest ->
  exists bytes, write_markers segs = Some bytes /\
    forall flags fuel, (length segs < fuel)%nat ->
      tj_transform_multi sm flags wj wa fuel (bytes ++ rest) icc_buf
      = Some (map (fun copynone : bool =>
                     if copynone then instance_part icc_buf
                     else filter (fun s => policy sm wj wa (saved_of s)) segs
                          ++ (if source_icc_copied sm segs then [] else instance_part icc_buf)) flags).
Proof.
  intros HU sm wj wa segs rest icc_buf Ho HF HB Hs.
  assert (Hnn : forall o, 0 <= o < 5 -> forall k, 0 <= copy_setup o cfg_init k) by (intros; apply copy_setup_nonneg; assumption).
  assert (Hopt : forall flags, 0 <= tj_multi_setup_option sm flags < 5).
  { intros flags. unfold tj_multi_setup_option, tj_setup_option. destruct (forallb _ flags); [unfold JCOPYOPT_NONE; lia | assumption]. }
  assert (Eb : write_markers segs = Some (match write_markers segs with Some b => b | None => [] end)).
  { destruct (markers_roundtrip cfg_init segs (fun _ => Z.le_refl 0) HF rest Hs) as (b & E & _). rewrite E. reflexivity. }
  eexists. split; [exact Eb|]. intros flags fuel Hf. unfold tj_transform_multi.
  destruct (markers_roundtrip (copy_setup (tj_multi_setup_option sm flags) cfg_init) segs (Hnn _ (Hopt flags)) HF rest Hs) as (b & E & R).
  rewrite E. destruct (R fuel hinfo_init [] Hf) as (h' & ER). rewrite ER. cbn [app]. f_equal.
  rewrite (saved_list_selected _ segs (Hopt flags) HF HB).
  apply map_ext_in. intros cn Hin. unfold tj_transform_extras, tj_execute_option. rewrite HU. change (0 =? 1) with false. cbn [orb].
  destruct cn.
  - (* TJXOPT_COPYNONE: nothing copied, iccCopied stays FALSE *)
    rewrite copy_policy. unfold tj_icc_copied, copies_app2. change (JCOPYOPT_NONE =? JCOPYOPT_ALL) with false.
    change (JCOPYOPT_NONE =? JCOPYOPT_ICC) with false. cbn [orb andb negb].
    assert (Z0 : forall l, filter (policy JCOPYOPT_NONE wj wa) l = []) by (induction l; cbn; auto).
    rewrite Z0. reflexivity.
  - (* this transform copies with TJPARAM_SAVEMARKERS; some flag is false, so the setup used it too *)
    assert (Es : tj_multi_setup_option sm flags = sm).
    { unfold tj_multi_setup_option, tj_setup_option. destruct (forallb (fun b0 => b0) flags) eqn:FA; [|reflexivity].
      rewrite forallb_forall in FA. specialize (FA _ Hin). discriminate. }
    rewrite Es. rewrite copy_policy. f_equal.
    + (* the copied part: policy sub-list *)
      clear - Ho HF. induction segs as [|s r IH]; [reflexivity|]. pose proof (Forall_inv HF) as (S1 & _).
      specialize (IH (Forall_inv_tail HF)). cbn [filter]. destruct (selected sm (fst s)) eqn:Sel; cbn [map filter].
      * destruct (policy sm wj wa (saved_of s)); cbn [map]; rewrite IH; [|reflexivity].
        unfold seg_of, saved_of. cbn [sm_code sm_data]. destruct s; reflexivity.
      * destruct (policy sm wj wa (saved_of s)) eqn:P; [|assumption]. exfalso.
        apply policy_selected in P; [|assumption | exact S1]. cbn [saved_of sm_code] in P. congruence.
    + unfold tj_icc_copied, source_icc_copied. destruct (copies_app2 sm) eqn:C2; cbn [andb negb]; [|reflexivity].
      rewrite (existsb_icc_selected sm segs Ho C2). destruct (existsb _ segs); reflexivity.
Qed.

(* ---- state checks of the marker-writing API ---- *)
Theorem write_marker_state gs ns s :
  (marker_write_allowed gs ns = false -> jpeg_write_marker_api gs ns s = WBadState) /\
  (marker_write_allowed gs ns = true -> Zlength (snd s) <= WRITE_MARKER_MAX_DATALEN ->
     jpeg_write_marker_api gs ns s = WOk (emit_marker (fst s) ++ emit_2bytes (Zlength (snd s) + 2) ++ map byte_of (snd s))) /\
  (marker_write_allowed gs ns = true -> WRITE_MARKER_MAX_DATALEN < Zlength (snd s) -> jpeg_write_marker_api gs ns s = WBadLength).
Proof.
  unfold jpeg_write_marker_api. destruct s as [code data]. cbn [fst snd]. repeat split; intros H.
  - rewrite H. reflexivity.
  - intros L. rewrite H, write_marker_ok by assumption. reflexivity.
  - intros L. rewrite H, write_marker_too_long by assumption. reflexivity.
Qed.
Theorem marker_write_allowed_iff gs ns : marker_write_allowed gs ns = true <->
  ns = 0 /\ (gs = CSTATE_SCANNING \/ gs = CSTATE_RAW_OK \/ gs = CSTATE_WRCOEFS).
Proof.
  unfold marker_write_allowed. rewrite andb_true_iff, !orb_true_iff, !Z.eqb_eq. tauto.
Qed.

(* ------------------------------------------- the whole output header, re-read *)
From LJT Require Import proofs.IccRoundTrip proofs.HeaderProofs.

Lemma jfif_data_bytes j : jfif_ok j -> Forall is_byte (jfif_data j).
Proof.
  intros (A & B & C & D & E). unfold jfif_data, emit_2bytes, jfif_sig_emit. cbn [app].
  repeat constructor; try (unfold is_byte; lia); try (rewrite byte_of_id by assumption; assumption);
  unfold is_byte, byte_of; apply Z.mod_pos_bound; lia.
Qed.
Lemma adobe_data_bytes cs : Forall is_byte (adobe_data cs).
Proof. destruct cs; repeat constructor; unfold is_byte; cbn; lia. Qed.

(* write_file_header = SOI followed by the library's markers written as ordinary segments *)
Lemma lib_header_bytes cs j : jfif_ok j ->
  exists b, write_markers (lib_segs cs j) = Some b /\ emit_file_header cs j = emit_marker M_SOI ++ b /\
            Forall seg_ok (lib_segs cs j) /\ Forall (fun s => Forall is_byte (snd s)) (lib_segs cs j).
Proof.
  intros Hj. pose proof (jfif_data_bytes j Hj) as Bj. pose proof (adobe_data_bytes cs) as Ba.
  assert (Wj : write_marker (M_APP0, jfif_data j) = Some (emit_jfif_app0 j)).
  { rewrite write_marker_ok by (change (Zlength (jfif_data j)) with 14; unfold WRITE_MARKER_MAX_DATALEN; lia).
    rewrite map_byte_of_id by assumption. reflexivity. }
  assert (Wa : write_marker (M_APP14, adobe_data cs) = Some (emit_adobe_app14 cs)).
  { rewrite write_marker_ok by (replace (Zlength (adobe_data cs)) with 12 by (destruct cs; reflexivity); unfold WRITE_MARKER_MAX_DATALEN; lia).
    rewrite map_byte_of_id by assumption. unfold emit_adobe_app14. replace (Zlength (adobe_data cs)) with 12 by (destruct cs; reflexivity). reflexivity. }
  assert (Oj : seg_ok (M_APP0, jfif_data j)) by (split; [reflexivity | change (Zlength (snd (M_APP0, jfif_data j))) with 14; unfold WRITE_MARKER_MAX_DATALEN; lia]).
  assert (Oa : seg_ok (M_APP14, adobe_data cs)).
  { split; [reflexivity|]. cbn [snd]. replace (Zlength (adobe_data cs)) with 12 by (destruct cs; reflexivity). unfold WRITE_MARKER_MAX_DATALEN. lia. }
  unfold lib_segs, emit_file_header.
  destruct (writes_jfif cs), (writes_adobe cs); cbn [app write_markers]; rewrite ?Wj, ?Wa; eexists;
    (split; [reflexivity|]); (split; [rewrite ?app_nil_r; reflexivity|]);
    (split; [repeat (first [apply Forall_nil | apply Forall_cons; [assumption|]]) | repeat (first [apply Forall_nil | apply Forall_cons; [cbn [snd]; assumption|]])]).
Qed.

(* (2) every output of tj3Transform: the bytes after SOI are the library's markers followed by the documented extras,
   written as ordinary segments; re-reading the output under ANY save limits gives exactly those markers, in that order *)
Theorem tj_output_rereadable c cs j extras rest : jfif_ok j -> (forall k, 0 <= c k) ->
  Forall seg_ok extras -> stops rest ->
  exists lb eb, write_markers (lib_segs cs j) = Some lb /\ write_markers extras = Some eb /\
    emit_file_header cs j ++ eb = emit_marker M_SOI ++ lb ++ eb /\
    forall fuel h acc, (length (lib_segs cs j ++ extras) < fuel)%nat ->
      exists h', read_app_markers fuel c h acc ((lb ++ eb) ++ rest)
                 = Some (h', acc ++ flat_map (saved_under c) (lib_segs cs j ++ extras), rest).
Proof.
  intros Hj Hc HF Hs. destruct (lib_header_bytes cs j Hj) as (lb & El & Eh & Ol & _).
  assert (Fall : Forall seg_ok (lib_segs cs j ++ extras)) by (apply Forall_app; split; assumption).
  destruct (markers_roundtrip c _ Hc Fall rest Hs) as (bytes & Eb & R).
  destruct (markers_roundtrip c extras Hc HF rest Hs) as (eb & Ee & _).
  assert (Ecat : bytes = lb ++ eb).
  { clear - Eb El Ee. revert bytes lb El Eb. induction (lib_segs cs j) as [|s r IH]; intros bytes lb El Eb.
    - cbn in El. inversion El; subst. cbn [app] in *. congruence.
    - cbn [app write_markers] in *. destruct (write_marker s); [|discriminate].
      destruct (write_markers r) as [br|] eqn:Er; [|discriminate]. inversion El; subst.
      destruct (write_markers (r ++ extras)) as [bre|] eqn:Ere; [|discriminate]. inversion Eb; subst.
      rewrite (IH bre br eq_refl eq_refl). rewrite app_assoc. reflexivity. }
  subst bytes. exists lb, eb. split; [assumption|]. split; [assumption|]. split; [rewrite Eh, <- app_assoc; reflexivity|].
  exact R.
Qed.

(* bytes written for an ICC profile: its length plus 18 per APP2 marker (the term tj3TransformBufSize adds) *)
Lemma number_from_bytes_len num cs : Forall (fun c => 1 <= Zlength c <= MAXD) cs -> forall cur,
  exists b, write_markers (number_from cur num cs) = Some b /\ Zlength b = Zlength (concat cs) + 18 * Z.of_nat (length cs).
Proof.
  induction cs as [|c r IH]; intros HF cur; [exists []; split; reflexivity|].
  pose proof (Forall_inv HF) as Hc. cbn beta in Hc. destruct (IH (Forall_inv_tail HF) (cur + 1)) as (b & Eb & Lb).
  cbn [number_from write_markers]. unfold icc_seg at 1.
  rewrite write_marker_ok.
  2:{ cbn [snd]. rewrite !Zlength_app'. change (Zlength icc_sig_writer) with 12. change (Zlength [byte_of cur; byte_of num]) with 2.
      rewrite MAXD_val in Hc. unfold WRITE_MARKER_MAX_DATALEN. lia. }
  rewrite Eb. eexists. split; [reflexivity|].
  cbn [concat length]. rewrite !Zlength_app', Zlength_map', !Zlength_app', Lb.
  change (Zlength (emit_marker W_ICC_MARKER)) with 2. change (Zlength (emit_2bytes _)) with 2.
  change (Zlength icc_sig_writer) with 12. change (Zlength [byte_of cur; byte_of num]) with 2. lia.
Qed.

Theorem icc_written_size p : 1 <= Zlength p <= 255 * MAXD ->
  exists segs b, write_icc p = Some segs /\ write_markers segs = Some b /\
    Zlength b = Zlength p + TJ_BUFSIZE_ICC_PER_MARKER * icc_num_markers (Zlength p) /\
    Zlength b = tj_bufsize_icc 0 false 0 0 (Zlength p).
Proof.
  intros Hlen. unfold write_icc.
  replace (Zlength p =? 0) with false by (symmetry; apply Z.eqb_neq; lia).
  set (num := icc_num_markers (Zlength p)).
  destruct (num_markers_bound (Zlength p) ltac:(lia)) as [Hb|Hb]; [|lia]. fold num in Hb.
  assert (Hnum : 1 <= num <= 255) by (rewrite MAXD_val in *; lia).
  destruct (write_icc_loop_ok (Z.to_nat num) p 1 num) as (cs & E & Hc); [rewrite Z2Nat.id by lia; lia|].
  destruct (chunked_bounds _ _ Hc) as (B1 & B2 & B3).
  assert (Hcs : cs <> []) by (intros C; specialize (B3 C); rewrite B3, Zlength_nil in Hlen; lia).
  assert (Hn : Z.of_nat (length cs) = num) by (symmetry; apply num_markers_char; [lia | apply B2; assumption]).
  destruct (number_from_bytes_len num cs B1 1) as (b & Eb & Lb).
  exists (number_from 1 num cs), b. rewrite E. split; [reflexivity|]. split; [assumption|].
  rewrite (chunked_concat _ _ Hc), Hn in Lb. split; [exact Lb|].
  rewrite Lb. unfold tj_bufsize_icc. cbn [Z.eqb orb andb negb].
  replace (Zlength p =? 0) with false by (symmetry; apply Z.eqb_neq; lia). cbn [negb].
  f_equal. f_equal. unfold num, icc_num_markers, TJ_BUFSIZE_ICC_CHUNK, W_MAX_DATA_BYTES_IN_MARKER.
  pose proof (Z.div_mod (Zlength p) 65519 ltac:(lia)) as DM. pose proof (Z.mod_pos_bound (Zlength p) 65519 ltac:(lia)) as MB.
  destruct (Zlength p / 65519 * 65519 =? Zlength p) eqn:E1; [apply Z.eqb_eq in E1 | apply Z.eqb_neq in E1];
  (destruct (Zlength p mod 65519 =? 0) eqn:E2; [apply Z.eqb_eq in E2 | apply Z.eqb_neq in E2]); lia.
Qed.

(* (2) the ICC profile of every output: the source's (however it is cut into APP2 chunks, in whatever order, with
   whatever else in between) when this transform copies APP2, else the instance's, byte-identical *)
Theorem tj_transform_icc_roundtrip : TJ_TRANSFORM_ICC_UNCONDITIONAL = 0 ->
  forall sm wj wa segs rest srt n junk, 0 <= sm < 5 ->
  Forall seg_ok segs -> Forall (fun s => Forall is_byte (snd s)) segs -> stops rest ->
  Permutation.Permutation (filter marker_is_icc (map saved_of segs)) srt -> well_numbered n srt -> concat (map icc_payload srt) <> [] ->
  exists bytes, write_markers segs = Some bytes /\
    forall flags fuel, (length segs < fuel)%nat ->
    forall q qsegs, 1 <= Zlength q <= 255 * MAXD -> write_icc q = Some qsegs ->
    exists outs, tj_transform_multi sm flags wj wa fuel (bytes ++ rest) q = Some outs /\ length outs = length flags /\
      forall i, (i < length flags)%nat ->
        read_icc_with junk (markers_of (nth i outs [])) =
        IccOk (if negb (nth i flags false) && copies_app2 sm then concat (map icc_payload srt) else q).
Proof.
  intros HU sm wj wa segs rest srt n junk Ho HF HB Hs HP Hwn Hne.
  destruct (tj_multi_transform HU sm wj wa segs rest [] Ho HF HB Hs) as (bytes & Eb & _).
  exists bytes. split; [assumption|]. intros flags fuel Hf q qsegs Hq Eq.
  destruct (tj_multi_transform HU sm wj wa segs rest q Ho HF HB Hs) as (bytes' & Eb' & R). rewrite Eb in Eb'. inversion Eb'; subst bytes'.
  rewrite (R flags fuel Hf). match goal with |- context [map ?F flags] => set (F' := F) end.
  eexists. split; [reflexivity|]. split; [apply map_length|].
  intros i Hi. rewrite (nth_indep (map F' flags) [] (F' false)) by (rewrite map_length; assumption).
  rewrite map_nth. unfold F'.
  assert (Einst : instance_part q = qsegs).
  { unfold instance_part. destruct q as [|q0 q']; [rewrite Zlength_nil in Hq; lia|]. rewrite Eq. reflexivity. }
  assert (Rq : forall ms, Permutation.Permutation (filter marker_is_icc ms) (markers_of qsegs) -> read_icc_with junk ms = IccOk q).
  { intros ms Pm. eapply icc_permutation_interleaving; eassumption. }
  assert (Fq : filter marker_is_icc (markers_of qsegs) = markers_of qsegs).
  { destruct (icc_roundtrip_all q Hq) as (s' & E' & _ & _ & _ & (Hnum & _) & _). rewrite Eq in E'. inversion E'; subst s'.
    clear - Hnum. revert Hnum. generalize 1. induction (markers_of qsegs) as [|m r IH]; intros k H; [reflexivity|].
    cbn [filter]. destruct H as (Hi' & _ & _ & Hr). rewrite Hi'. f_equal. eapply IH. eassumption. }
  destruct (nth i flags false) eqn:Fl; cbn [negb andb].
  - rewrite Einst. apply Rq. rewrite Fq. apply Permutation.Permutation_refl.
  - destruct (copies_app2 sm) eqn:C2.
    + (* the source's ICC markers are all copied, in order; nothing else in the output is an ICC marker *)
      assert (Hsrc : source_icc_copied sm segs = true).
      { unfold source_icc_copied. rewrite C2. cbn [andb].
        destruct srt as [|m0 srt']; [cbn in Hne; congruence|].
        assert (Hin : In m0 (filter marker_is_icc (map saved_of segs))) by (eapply Permutation.Permutation_in; [apply Permutation.Permutation_sym; exact HP | left; reflexivity]).
        apply filter_In in Hin as (Hin & Hicc). apply in_map_iff in Hin as (s & Es & Hs'). apply existsb_exists. exists s. split; [assumption|].
        rewrite Es. apply is_icc_tj_marker. assumption. }
      rewrite Hsrc, app_nil_r. apply (read_icc_closed junk _ srt n); try assumption.
      eapply Permutation.Permutation_trans; [|exact HP]. apply Permutation.Permutation_refl'.
      unfold markers_of. clear - C2 Ho. induction segs as [|s r IH]; [reflexivity|]. cbn [filter map].
      destruct (marker_is_icc (saved_of s)) eqn:I.
      * assert (P : policy sm wj wa (saved_of s) = true).
        { unfold marker_is_icc in I. apply andb_true_iff in I as (I & _). apply andb_true_iff in I as (I1 & _). apply Z.eqb_eq in I1.
          unfold copies_app2 in C2. unfold policy.
          assert (ND : not_dup wj wa (saved_of s) = true) by (apply dup_needs_code; rewrite I1; reflexivity).
          destruct (sm =? JCOPYOPT_ALL) eqn:E2.
          - apply Z.eqb_eq in E2. subst sm. cbn. exact ND.
          - destruct (sm =? JCOPYOPT_ICC) eqn:E4; [|discriminate]. apply Z.eqb_eq in E4. subst sm. cbn [saved_of sm_code] in I1. cbn. rewrite I1. reflexivity. }
        rewrite P. cbn [map filter]. rewrite I. f_equal. apply IH.
      * destruct (policy sm wj wa (saved_of s)); cbn [map filter]; rewrite ?I; apply IH.
    + (* nothing ICC-like is copied: the instance profile *)
      assert (Hsrc : source_icc_copied sm segs = false) by (unfold source_icc_copied; rewrite C2; reflexivity).
      rewrite Hsrc, Einst. apply Rq. unfold markers_of. rewrite map_app, filter_app.
      fold (markers_of qsegs). rewrite Fq.
      replace (filter marker_is_icc (map saved_of (filter (fun s => policy sm wj wa (saved_of s)) segs))) with (@nil saved); [apply Permutation.Permutation_refl|].
      symmetry. clear - C2 Ho HF. induction segs as [|s r IH]; [reflexivity|]. pose proof (Forall_inv HF) as (S1 & _).
      specialize (IH (Forall_inv_tail HF)). cbn [filter]. destruct (policy sm wj wa (saved_of s)) eqn:P; [|assumption].
      cbn [map filter]. destruct (marker_is_icc (saved_of s)) eqn:I; [|assumption]. exfalso.
      unfold marker_is_icc in I. apply andb_true_iff in I as (I & _). apply andb_true_iff in I as (I1 & _). apply Z.eqb_eq in I1. cbn [saved_of sm_code] in I1.
      unfold copies_app2 in C2. apply orb_false_iff in C2 as (H2 & H4). unfold policy in P. rewrite H2, H4 in P. cbn [saved_of sm_code] in P.
      destruct (sm =? JCOPYOPT_NONE) eqn:E0; [discriminate|].
      destruct (sm =? JCOPYOPT_COMMENTS) eqn:E1; [rewrite I1 in P; vm_compute in P; discriminate|].
      destruct (sm =? JCOPYOPT_ALL_EXCEPT_ICC) eqn:E3; [rewrite I1 in P; change (R_ICC_MARKER =? JPEG_APP0 + 2) with true in P; cbn in P; discriminate|].
      unfold JCOPYOPT_NONE, JCOPYOPT_COMMENTS, JCOPYOPT_ALL, JCOPYOPT_ALL_EXCEPT_ICC, JCOPYOPT_ICC in *. lia.
Qed.

(* ---- piecemeal marker API ---- *)
Lemma mapi_bytes gs ns data : forall out n, n = Zlength data ->
  mapi_run gs ns (mkMapi n out) (map CByte data) = Some (mkMapi 0 (out ++ map byte_of data)).
Proof.
  induction data as [|x r IH]; intros out n Hn.
  - rewrite Zlength_nil in Hn. subst. cbn. rewrite app_nil_r. reflexivity.
  - rewrite Zlength_cons in Hn. pose proof (Zlength_nonneg' r). cbn [map mapi_run mapi_step ma_open ma_out].
    replace (0 <? n) with true by (symmetry; apply Z.ltb_lt; lia).
    rewrite (IH (out ++ [byte_of x]) (n - 1)) by lia. rewrite <- app_assoc. reflexivity.
Qed.

(* jpeg_write_m_header + datalen x jpeg_write_m_byte, used as documented, writes what jpeg_write_marker writes and
   leaves no budget open; a byte without an open budget, or a new marker inside one, violates the precondition *)
Theorem mapi_piecemeal_equiv gs ns m data out : marker_write_allowed gs ns = true -> Zlength data <= WRITE_MARKER_MAX_DATALEN ->
  mapi_run gs ns (mkMapi 0 out) (CHeader m (Zlength data) :: map CByte data) = mapi_run gs ns (mkMapi 0 out) [CMarker (m, data)] /\
  mapi_run gs ns (mkMapi 0 out) [CMarker (m, data)] = Some (mkMapi 0 (out ++ emit_marker m ++ emit_2bytes (Zlength data + 2) ++ map byte_of data)).
Proof.
  intros Ha Hl. cbn [mapi_run mapi_step ma_open ma_out]. rewrite Z.eqb_refl. cbn [negb]. rewrite Ha.
  unfold write_marker_header. replace (WRITE_MARKER_MAX_DATALEN <? Zlength data) with false by (symmetry; apply Z.ltb_ge; assumption).
  rewrite mapi_bytes by reflexivity.
  destruct (write_marker_state gs ns (m, data)) as (_ & Hok & _). cbn [fst snd] in Hok. rewrite (Hok Ha Hl).
  rewrite <- !app_assoc. split; reflexivity.
Qed.
Theorem mapi_preconditions gs ns out n v s m k : 0 < n ->
  mapi_step gs ns (mkMapi 0 out) (CByte v) = None /\
  mapi_step gs ns (mkMapi n out) (CMarker s) = None /\ mapi_step gs ns (mkMapi n out) (CHeader m k) = None.
Proof.
  intros Hn. cbn [mapi_step ma_open]. replace (n =? 0) with false by (symmetry; apply Z.eqb_neq; lia). repeat split; reflexivity.
Qed.
