(* HuffSymProofs.v -- every symbol the statistics-gathering entropy encoders
   (model/HuffSym.v: jchuff.c htest_one_block, jcphuff.c, jclhuff.c) can count
   lies in an explicit set of at most 240 symbols, for ALL coefficient /
   difference values the ERREXIT guards allow and both lossy precisions; the
   JERR_HUFF_MISSING_CODE guard of emit_eobrun and the MAX_DIFF_BITS guard of
   jclhuff.c are dead; hence a histogram of fewer than 10^9 counted symbols meets
   the hypotheses of gen_table_always_valid (HuffGenDepth.v).  Nothing in the
   library bounds the number of counted symbols by 10^9: huge_* below are the
   witnesses of what the generator does beyond that. *)
From Coq Require Import List ZArith Bool Lia ZifyBool Permutation.
From LJT Require Import model.Huff model.HuffSym gen.GenHuffSym proofs.NbitsProofs
  proofs.HuffCodeProofs proofs.HuffGenProofs3 proofs.HuffGenDepth.
Import ListNotations.
Local Open Scope Z_scope.

(* ------------------------------------------- the constants are the source's *)
Theorem huffsym_constants_match :
  COEF_BITS_EXTRA = gen_seq_COEF_BITS_EXTRA /\ COEF_BITS_EXTRA = gen_progdc_COEF_BITS_EXTRA /\
  COEF_BITS_EXTRA = gen_first_COEF_BITS_EXTRA /\
  DC_EXTRA = gen_seq_DC_EXTRA /\ DC_EXTRA = gen_progdc_DC_EXTRA /\
  ZRL = gen_seq_ZRL /\ ZRL = gen_first_ZRL /\ ZRL = gen_refine_ZRL /\ EOB = gen_seq_EOB /\
  RUN_SHIFT = gen_seq_RUN_SHIFT /\ RUN_SHIFT = gen_first_RUN_SHIFT /\
  RUN_SHIFT = gen_refine_RUN_SHIFT /\ RUN_SHIFT = gen_eobrun_SHIFT /\
  RUN_MAX = gen_seq_RUN_MAX /\ RUN_MAX = gen_first_RUN_MAX /\ RUN_MAX = gen_refine_RUN_MAX /\
  ZRL_RUN = gen_seq_ZRL_RUN /\ ZRL_RUN = gen_first_ZRL_RUN /\ ZRL_RUN = gen_refine_ZRL_RUN /\
  EOBRUN_LIMIT = gen_first_EOBRUN_LIMIT /\ EOBRUN_LIMIT = gen_refine_EOBRUN_LIMIT /\
  EOBRUN_NBITS_MAX = gen_EOBRUN_NBITS_MAX /\ MAX_CORR_BITS = gen_MAX_CORR_BITS /\
  DCTSIZE2 = gen_DCTSIZE2 /\ MAX_DIFF_BITS = gen_MAX_DIFF_BITS /\
  DIFF_SIGN = gen_DIFF_SIGN /\ DIFF_MASK = gen_DIFF_MASK /\
  NCOUNTS = gen_seq_NCOUNTS /\ NCOUNTS = gen_prog_NCOUNTS /\ NCOUNTS = gen_lossless_NCOUNTS /\
  lossy_precisions = gen_lossy_precisions /\ JPEG_MAX_DIMENSION = gen_JPEG_MAX_DIMENSION /\
  MAX_DIFF_BITS = gen_lossless_prec_hi.
Proof. repeat split; reflexivity. Qed.

(* ------------------------------------------------------------- bit lengths *)
Lemma nbits_nonneg : forall x, 0 <= nbits x.
Proof.
  destruct x; cbn; try lia.
  induction p; cbn [nbits_pos]; lia.
Qed.

Lemma nbits_ge1 : forall x, 0 < x -> 1 <= nbits x.
Proof. intros x H. rewrite nbits_log2 by exact H. pose proof (Z.log2_nonneg x). lia. Qed.

Lemma nbits_le : forall x n, 0 <= n -> x < 2 ^ n -> nbits x <= n.
Proof.
  intros x n Hn Hx. destruct (Z_lt_le_dec 0 x) as [Hp|Hp].
  - rewrite nbits_log2 by exact Hp. apply Z.log2_lt_pow2 in Hx; lia.
  - destruct x; cbn; lia.
Qed.

Lemma nbits_neg : forall x, x <= 0 -> nbits x = 0.
Proof. destruct x; cbn; lia. Qed.

(* --------------------------------------------------------------- ZRL loop *)
Lemma zrl_loop_spec : forall fuel r l r',
  zrl_loop fuel r = (l, r') ->
  Forall (fun s => s = ZRL) l /\ Z.of_nat (length l) * 16 + r' = r /\
  (r <= 16 * Z.of_nat fuel + 15 -> r' <= 15) /\ (0 <= r -> 0 <= r').
Proof.
  induction fuel as [|k IH]; intros r l r' H; cbn [zrl_loop] in H.
  - inversion H; subst. cbn. repeat split; try constructor; lia.
  - unfold RUN_MAX, ZRL_RUN in H. destruct (r >? 15) eqn:E.
    + destruct (zrl_loop k (r - 16)) as [l0 r0] eqn:E0. inversion H; subst.
      destruct (IH _ _ _ E0) as (A & B & C & D). repeat split.
      * constructor; [reflexivity|exact A].
      * cbn [length]. lia.
      * intros. apply C. lia.
      * intros. apply D. lia.
    + inversion H; subst. cbn. repeat split; try constructor; lia.
Qed.

(* ------------------------------------------------------- symbol predicates *)
Lemma shift4 : forall r, Z.shiftl r RUN_SHIFT = r * 16.
Proof. intros. unfold RUN_SHIFT. rewrite Z.shiftl_mul_pow2 by lia. reflexivity. Qed.

Lemma rs_sym_ok : forall prec r nb,
  0 <= r <= 15 -> 1 <= nb <= max_coef_bits prec -> max_coef_bits prec <= 15 ->
  rs_ok prec (r * 16 + nb) = true.
Proof.
  intros prec r nb Hr Hnb Hm. unfold rs_ok.
  assert ((r * 16 + nb) mod 16 = nb) by (Z.div_mod_to_equations; lia).
  rewrite H. lia.
Qed.

Definition all_classes : list tclass :=
  [CDc 8; CDc 12; CAcSeq 8; CAcSeq 12; CAcProg 8; CAcProg 12; CLossless].

(* the explicit symbol sets and their sizes *)
Lemma class_set_sizes :
  map (fun c => length (class_set c)) all_classes = [12; 16; 162; 226; 176; 240; 17]%nat.
Proof. vm_compute. reflexivity. Qed.

Lemma class_set_le_240 : forall c, In c all_classes -> (length (class_set c) <= 240)%nat.
Proof.
  intros c H. assert (In (length (class_set c)) (map (fun c => length (class_set c)) all_classes))
    by (apply (in_map (fun c => length (class_set c))); exact H).
  rewrite class_set_sizes in H0. set (n := length (class_set c)) in *. clearbody n.
  cbn in H0. lia.
Qed.

Lemma class_ok_range : forall c s, In c all_classes -> class_ok c s = true -> 0 <= s < 256.
Proof.
  intros c s Hc H. cbn in Hc.
  destruct Hc as [<-|[<-|[<-|[<-|[<-|[<-|[<-|[]]]]]]]]; cbn [class_ok] in H;
    unfold rs_ok, max_coef_bits, COEF_BITS_EXTRA, DC_EXTRA, EOB, ZRL, EOBRUN_NBITS_MAX, MAX_DIFF_BITS in H;
    try lia; Z.div_mod_to_equations; lia.
Qed.

(* --------------------------------------------- jchuff.c: htest_one_block *)
Definition okc (c : tclass) (s : Z) : Prop := class_ok c s = true.

Lemma dc_symbol_ok : forall prec diff s,
  dc_symbol prec diff = Some s -> okc (CDc prec) s.
Proof.
  intros prec diff s H. unfold dc_symbol in H.
  destruct (mag_bits diff >? max_coef_bits prec + DC_EXTRA) eqn:E; [discriminate|].
  inversion H; subst. unfold okc, class_ok, mag_bits.
  pose proof (nbits_nonneg (Z.abs diff)). unfold mag_bits in E. lia.
Qed.

Lemma ac_scan_cons : forall mcb c t r,
  ac_scan mcb (c :: t) r =
  if c =? 0 then ac_scan mcb t (r + 1)
  else let '(zs, r') := zrl_loop 64 r in
       let nb := mag_bits c in
       if nb >? mcb then None
       else match ac_scan mcb t 0 with
            | None => None
            | Some rest => Some (zs ++ (Z.shiftl r' RUN_SHIFT + nb) :: rest)
            end.
Proof. reflexivity. Qed.

Lemma ac_scan_ok : forall prec, max_coef_bits prec <= 15 ->
  forall coefs r out, 0 <= r -> r + Z.of_nat (length coefs) <= 1039 ->
  ac_scan (max_coef_bits prec) coefs r = Some out ->
  Forall (okc (CAcSeq prec)) out /\ Z.of_nat (length out) <= r + Z.of_nat (length coefs).
Proof.
  intros prec Hp. induction coefs as [|c t IH]; intros r out Hr Hlen H.
  - cbn [ac_scan] in H. inversion H; subst. destruct (r >? 0) eqn:E; cbn [length].
    + split; [|lia]. constructor; [|constructor]. reflexivity.
    + split; [constructor|lia].
  - rewrite ac_scan_cons in H. cbv zeta in H. cbn [length] in Hlen |- *. destruct (c =? 0) eqn:Ec.
    + destruct (IH (r + 1) out ltac:(lia) ltac:(lia) H) as [A B]. split; [exact A|lia].
    + destruct (zrl_loop 64 r) as [zs r'] eqn:Ez.
      destruct (mag_bits c >? max_coef_bits prec) eqn:Eg; [discriminate|].
      destruct (ac_scan (max_coef_bits prec) t 0) as [rest|] eqn:Er; [|discriminate].
      assert (Hout : out = zs ++ (Z.shiftl r' RUN_SHIFT + mag_bits c) :: rest) by congruence.
      subst out. clear H.
      destruct (zrl_loop_spec _ _ _ _ Ez) as (Z1 & Z2 & Z3 & Z4).
      destruct (IH 0 rest ltac:(lia) ltac:(lia) Er) as [A B].
      assert (Hnb : 1 <= mag_bits c) by (unfold mag_bits; apply nbits_ge1; lia).
      split.
      * apply Forall_app. split.
        -- eapply Forall_impl; [|exact Z1]. intros a Ha. cbv beta in Ha. subst a. reflexivity.
        -- constructor; [|exact A]. rewrite shift4. unfold okc, class_ok.
           rewrite rs_sym_ok; [rewrite !orb_true_r; reflexivity| |lia|exact Hp].
           change (Z.of_nat 64) with 64 in Z3. lia.
      * rewrite app_length. cbn [length]. lia.
Qed.

(* one block of 64 coefficients: one DC symbol, at most 63 AC symbols, all in
   their classes *)
Theorem htest_one_block_ok : forall prec last_dc zz s a,
  max_coef_bits prec <= 15 -> length zz = 64%nat ->
  htest_one_block prec last_dc zz = Some (s, a) ->
  okc (CDc prec) s /\ Forall (okc (CAcSeq prec)) a /\ (length a <= 63)%nat.
Proof.
  intros prec last_dc zz s a Hp Hl H. destruct zz as [|dc ac]; [discriminate|].
  cbn [length] in Hl. cbn [htest_one_block] in H.
  destruct (dc_symbol prec (dc - last_dc)) as [s0|] eqn:Ed; [|discriminate].
  destruct (ac_scan (max_coef_bits prec) ac 0) as [a0|] eqn:Ea; [|discriminate].
  inversion H; subst.
  destruct (ac_scan_ok prec Hp ac 0 a ltac:(lia) ltac:(lia) Ea) as [A B].
  split; [eapply dc_symbol_ok; eauto|]. split; [exact A|lia].
Qed.

(* 63 symbols per block is attained (every AC coefficient non-zero) *)
Example htest_block_63_symbols :
  exists s a, htest_one_block 8 0 (repeat 1 64) = Some (s, a) /\ length a = 63%nat.
Proof. vm_compute. eauto. Qed.

(* a whole statistics pass over a list of (last_dc_val, block) pairs *)
Fixpoint htest_blocks (prec : Z) (blocks : list (Z * list Z)) : option (list Z * list Z) :=
  match blocks with
  | [] => Some ([], [])
  | (ld, zz) :: t =>
      match htest_one_block prec ld zz, htest_blocks prec t with
      | Some (s, a), Some (ds, acs) => Some (s :: ds, a ++ acs)
      | _, _ => None
      end
  end.

Lemma htest_blocks_ok : forall prec blocks ds acs,
  max_coef_bits prec <= 15 -> Forall (fun b => length (snd b) = 64%nat) blocks ->
  htest_blocks prec blocks = Some (ds, acs) ->
  Forall (okc (CDc prec)) ds /\ Forall (okc (CAcSeq prec)) acs /\
  length ds = length blocks /\ (length acs <= 63 * length blocks)%nat.
Proof.
  intros prec blocks. induction blocks as [|[ld zz] t IH]; intros ds acs Hp Hl H; cbn [htest_blocks] in H.
  - inversion H; subst. cbn. repeat split; try constructor; lia.
  - inversion Hl as [|? ? Hz Ht]; subst. cbn [snd] in Hz.
    destruct (htest_one_block prec ld zz) as [[s a]|] eqn:E1; [|discriminate].
    destruct (htest_blocks prec t) as [[ds0 acs0]|] eqn:E2; [|discriminate].
    inversion H; subst.
    destruct (htest_one_block_ok _ _ _ _ _ Hp Hz E1) as (A & B & C).
    destruct (IH _ _ Hp Ht eq_refl) as (D & E & F & G).
    repeat split.
    + constructor; assumption.
    + apply Forall_app; split; assumption.
    + cbn [length]. lia.
    + rewrite app_length. cbn [length]. lia.
Qed.

(* ------------------------------------------------- jcphuff.c: progressive *)
Theorem dc_first_symbol_ok : forall prec Al coef last_dc s ld',
  dc_first_symbol prec Al coef last_dc = Some (s, ld') -> okc (CDc prec) s.
Proof.
  intros prec Al coef last_dc s ld' H. unfold dc_first_symbol in H.
  destruct (dc_symbol prec (Z.shiftr coef Al - last_dc)) as [s0|] eqn:E; [|discriminate].
  inversion H; subst. eapply dc_symbol_ok; eauto.
Qed.

(* the EOBRUN counter stays below the flush limit between MCUs *)
Definition pinv (st : pstate) : Prop := 0 <= eobrun st < EOBRUN_LIMIT.

(* emit_eobrun never takes its ERREXIT(JERR_HUFF_MISSING_CODE) branch, counts at
   most one symbol (a multiple of 16 up to 14 * 16) and leaves EOBRUN = 0 *)
Lemma emit_eobrun_ok : forall prec st, 0 <= eobrun st <= EOBRUN_LIMIT ->
  exists l st', emit_eobrun st = Some (l, st') /\ Forall (okc (CAcProg prec)) l /\
                eobrun st' = 0 /\ (length l <= 1)%nat.
Proof.
  intros prec st H. unfold emit_eobrun, EOBRUN_LIMIT in *.
  destruct (eobrun st >? 0) eqn:E.
  - pose proof (nbits_ge1 (eobrun st) ltac:(lia)) as H1.
    pose proof (nbits_le (eobrun st) 15 ltac:(lia) ltac:(change (2 ^ 15) with 32768; lia)) as H2.
    unfold EOBRUN_NBITS_MAX.
    destruct (nbits (eobrun st) - 1 >? 14) eqn:E2; [lia|].
    eexists _, _. split; [reflexivity|]. split; [|split; [reflexivity|cbn; lia]].
    constructor; [|constructor]. rewrite shift4. unfold okc, class_ok, EOBRUN_NBITS_MAX.
    set (n := nbits (eobrun st) - 1) in *.
    assert ((n * 16) mod 16 = 0 /\ (n * 16) / 16 = n) as [-> ->] by (Z.div_mod_to_equations; lia).
    assert (n * 16 =? ZRL = false) as -> by (unfold ZRL; lia).
    assert (rs_ok prec (n * 16) = false) as ->.
    { unfold rs_ok. assert ((n * 16) mod 16 = 0) as -> by (Z.div_mod_to_equations; lia). lia. }
    lia.
  - eexists _, _. split; [reflexivity|]. split; [constructor|]. split; [lia|cbn; lia].
Qed.

Lemma ac_first_scan_cons : forall mcb v t r,
  ac_first_scan mcb (v :: t) r =
  if v =? 0 then ac_first_scan mcb t (r + 1)
  else let '(zs, r') := zrl_loop 64 r in
       let nb := nbits v in
       if nb >? mcb then None
       else match ac_first_scan mcb t 0 with
            | None => None
            | Some (rest, tr) => Some (zs ++ (Z.shiftl r' RUN_SHIFT + nb) :: rest, tr)
            end.
Proof. reflexivity. Qed.

Lemma rs_in_prog : forall prec s, rs_ok prec s = true -> okc (CAcProg prec) s.
Proof. intros prec s H. unfold okc, class_ok. rewrite H. rewrite orb_true_r. reflexivity. Qed.

Lemma zrl_in_prog : forall prec, okc (CAcProg prec) ZRL.
Proof. intros. reflexivity. Qed.

Lemma ac_first_scan_ok : forall prec, max_coef_bits prec <= 15 ->
  forall vals r out tr, 0 <= r -> r + Z.of_nat (length vals) <= 1039 ->
  Forall (fun v => 0 <= v) vals ->
  ac_first_scan (max_coef_bits prec) vals r = Some (out, tr) ->
  Forall (okc (CAcProg prec)) out /\ Z.of_nat (length out) <= r + Z.of_nat (length vals).
Proof.
  intros prec Hp. induction vals as [|v t IH]; intros r out tr Hr Hlen Hnn H.
  - cbn [ac_first_scan] in H. inversion H; subst. cbn. split; [constructor|lia].
  - rewrite ac_first_scan_cons in H. cbv zeta in H. cbn [length] in Hlen |- *.
    inversion Hnn as [|? ? Hv Ht]; subst.
    destruct (v =? 0) eqn:Ev.
    + destruct (IH (r + 1) out tr ltac:(lia) ltac:(lia) Ht H) as [A B]. split; [exact A|lia].
    + destruct (zrl_loop 64 r) as [zs r'] eqn:Ez.
      destruct (nbits v >? max_coef_bits prec) eqn:Eg; [discriminate|].
      destruct (ac_first_scan (max_coef_bits prec) t 0) as [[rest tr0]|] eqn:Er; [|discriminate].
      assert (Hout : out = zs ++ (Z.shiftl r' RUN_SHIFT + nbits v) :: rest) by congruence.
      subst out. clear H.
      destruct (zrl_loop_spec _ _ _ _ Ez) as (Z1 & Z2 & Z3 & Z4).
      destruct (IH 0 rest tr0 ltac:(lia) ltac:(lia) Ht Er) as [A B].
      pose proof (nbits_ge1 v ltac:(lia)) as Hnb.
      split.
      * apply Forall_app. split.
        -- eapply Forall_impl; [|exact Z1]. intros a Ha. cbv beta in Ha. subst a. apply zrl_in_prog.
        -- constructor; [|exact A]. rewrite shift4. apply rs_in_prog.
           apply rs_sym_ok; [|lia|exact Hp]. change (Z.of_nat 64) with 64 in Z3. lia.
      * rewrite app_length. cbn [length]. lia.
Qed.

Lemma pt_abs_nonneg : forall Al band, Forall (fun v => 0 <= v) (map (pt_abs Al) band).
Proof.
  intros Al band. apply Forall_forall. intros v Hv. apply in_map_iff in Hv.
  destruct Hv as (c & <- & _). unfold pt_abs. apply Z.shiftr_nonneg. lia.
Qed.

Lemma ac_first_mcu_ok : forall prec Al st band out st',
  max_coef_bits prec <= 15 -> (length band <= 64)%nat -> pinv st ->
  ac_first_mcu prec Al st band = Some (out, st') ->
  Forall (okc (CAcProg prec)) out /\ pinv st' /\ (length out <= length band + 2)%nat.
Proof.
  intros prec Al st band out st' Hp Hlen Hinv H. unfold ac_first_mcu in H.
  set (vals := map (pt_abs Al) band) in *.
  assert (Hvl : length vals = length band) by (unfold vals; apply map_length).
  set (anynz := existsb (fun v => negb (v =? 0)) vals) in *.
  unfold pinv, EOBRUN_LIMIT in *.
  assert (Hpre : exists pre st1, (if anynz && (eobrun st >? 0) then emit_eobrun st else Some ([], st)) = Some (pre, st1)
            /\ Forall (okc (CAcProg prec)) pre /\ 0 <= eobrun st1 < 32767 /\ (length pre <= 1)%nat).
  { destruct (anynz && (eobrun st >? 0)).
    - destruct (emit_eobrun_ok prec st ltac:(unfold EOBRUN_LIMIT; lia)) as (l & s1 & E & F & G & L).
      exists l, s1. repeat split; try assumption; lia.
    - exists [], st. repeat split; try constructor; cbn; lia. }
  destruct Hpre as (pre & st1 & E1 & F1 & G1 & L1). rewrite E1 in H.
  destruct (ac_first_scan (max_coef_bits prec) vals 0) as [[syms tr]|] eqn:Es; [|discriminate].
  destruct (ac_first_scan_ok prec Hp vals 0 syms tr ltac:(lia) ltac:(lia) (pt_abs_nonneg Al band) Es) as [A B].
  destruct tr.
  - cbn [eobrun be] in H. unfold EOBRUN_LIMIT in H.
    destruct (eobrun st1 + 1 =? 32767) eqn:El.
    + destruct (emit_eobrun_ok prec {| eobrun := eobrun st1 + 1; be := be st1 |}
                  ltac:(unfold EOBRUN_LIMIT; cbn [eobrun]; lia)) as (l & s3 & E & F & G & L).
      rewrite E in H. inversion H; subst. repeat split.
      * apply Forall_app; split; [exact F1|]. apply Forall_app; split; assumption.
      * lia.
      * lia.
      * rewrite !app_length. lia.
    + inversion H; subst. cbn [eobrun]. repeat split.
      * apply Forall_app; split; assumption.
      * lia.
      * lia.
      * rewrite app_length. lia.
  - inversion H; subst. repeat split.
    + apply Forall_app; split; assumption.
    + lia.
    + lia.
    + rewrite app_length. lia.
Qed.

(* -------- AC refinement: the run length in "(r << 4) + 1" never exceeds 15 *)
Lemma eob_scan_ge : forall vals k eob, eob <= k ->
  eob_scan vals k eob = eob \/ k <= eob_scan vals k eob.
Proof.
  induction vals as [|v t IH]; intros k eob H; cbn [eob_scan]; [left; reflexivity|].
  destruct (v =? 1).
  - destruct (IH (k + 1) k ltac:(lia)) as [->|G]; right; lia.
  - destruct (IH (k + 1) eob ltac:(lia)) as [->|G]; [left; reflexivity|right; lia].
Qed.

(* EOB is at or beyond every position holding a newly-nonzero coefficient *)
Lemma eob_scan_covers : forall vals k eob j, (j < length vals)%nat -> nth j vals 0 = 1 ->
  k + Z.of_nat j <= eob_scan vals k eob.
Proof.
  induction vals as [|v t IH]; intros k eob j Hj H1; cbn [length] in Hj; [lia|].
  cbn [eob_scan]. destruct j as [|j]; cbn [nth] in H1.
  - subst v. cbn. destruct (eob_scan_ge t (k + 1) k ltac:(lia)) as [->|G]; lia.
  - specialize (IH (k + 1) (if v =? 1 then k else eob) j ltac:(lia) H1). lia.
Qed.

Lemma refine_zrl_loop_ok : forall prec fuel r st, 0 <= eobrun st < EOBRUN_LIMIT -> 0 <= r ->
  exists l r' st' ran, refine_zrl_loop fuel r st = Some (l, r', st', ran) /\
    Forall (okc (CAcProg prec)) l /\ 0 <= r' <= r /\
    (r <= 16 * Z.of_nat fuel + 15 -> r' <= 15) /\ 0 <= eobrun st' <= eobrun st.
Proof.
  intros prec. induction fuel as [|k IH]; intros r st Hst Hr; cbn [refine_zrl_loop].
  - exists [], r, st, false. repeat split; try constructor; try lia.
  - unfold RUN_MAX, ZRL_RUN. destruct (r >? 15) eqn:E.
    + destruct (emit_eobrun_ok prec st ltac:(lia)) as (es & st1 & E1 & F1 & G1 & L1).
      rewrite E1.
      destruct (IH (r - 16) st1 ltac:(unfold EOBRUN_LIMIT; lia) ltac:(lia))
        as (l & r' & st2 & ran & E2 & F2 & G2 & H2 & I2).
      rewrite E2. exists (es ++ ZRL :: l), r', st2, true. repeat split; try lia.
      apply Forall_app; split; [exact F1|]. constructor; [apply zrl_in_prog|exact F2].
    + exists [], r, st, false. repeat split; try constructor; try lia.
Qed.

Lemma ac_refine_scan_cons : forall eobk v t k r br st,
  ac_refine_scan eobk (v :: t) k r br st =
  if v =? 0 then ac_refine_scan eobk t (k + 1) (r + 1) br st
  else
    match (if k <=? eobk then refine_zrl_loop 64 r st else Some ([], r, st, false)) with
    | None => None
    | Some (zs, r1, st1, ran) =>
        let br1 := if ran then 0 else br in
        if v >? 1 then
          match ac_refine_scan eobk t (k + 1) r1 (br1 + 1) st1 with
          | None => None
          | Some (rest, rf, brf, stf) => Some (zs ++ rest, rf, brf, stf)
          end
        else
          match emit_eobrun st1 with
          | None => None
          | Some (es, st2) =>
              match ac_refine_scan eobk t (k + 1) 0 0 st2 with
              | None => None
              | Some (rest, rf, brf, stf) =>
                  Some (zs ++ es ++ (Z.shiftl r1 RUN_SHIFT + 1) :: rest, rf, brf, stf)
              end
          end
    end.
Proof. reflexivity. Qed.

Lemma ac_refine_scan_ok : forall prec, 1 <= max_coef_bits prec ->
  forall eobk vals k r br st out rf brf stf,
  0 <= eobrun st < EOBRUN_LIMIT -> 0 <= r -> r + Z.of_nat (length vals) <= 1039 ->
  Forall (fun v => 0 <= v) vals ->
  (forall j, (j < length vals)%nat -> nth j vals 0 = 1 -> k + Z.of_nat j <= eobk) ->
  ac_refine_scan eobk vals k r br st = Some (out, rf, brf, stf) ->
  Forall (okc (CAcProg prec)) out /\ 0 <= eobrun stf <= eobrun st /\ 0 <= rf.
Proof.
  intros prec Hp eobk. induction vals as [|v t IH]; intros k r br st out rf brf stf Hst Hr Hlen Hnn Hcov H.
  - cbn [ac_refine_scan] in H. inversion H; subst. split; [constructor|lia].
  - rewrite ac_refine_scan_cons in H. cbv zeta in H. cbn [length] in Hlen.
    inversion Hnn as [|? ? Hv Ht]; subst.
    assert (Hcov' : forall j, (j < length t)%nat -> nth j t 0 = 1 -> k + 1 + Z.of_nat j <= eobk).
    { intros j Hj H1. specialize (Hcov (S j) ltac:(cbn [length]; lia) H1). lia. }
    destruct (v =? 0) eqn:Ev.
    + apply (IH (k + 1) (r + 1) br st out rf brf stf); try assumption; lia.
    + assert (Hz : exists zs r1 st1 ran,
          (if k <=? eobk then refine_zrl_loop 64 r st else Some ([], r, st, false)) = Some (zs, r1, st1, ran) /\
          Forall (okc (CAcProg prec)) zs /\ 0 <= r1 <= r /\ (k <= eobk -> r1 <= 15) /\
          0 <= eobrun st1 <= eobrun st).
      { destruct (k <=? eobk) eqn:Ek.
        - destruct (refine_zrl_loop_ok prec 64 r st Hst Hr) as (l & r' & st' & ran & E & F & G & I & J).
          exists l, r', st', ran. change (Z.of_nat 64) with 64 in I. repeat split; try assumption; try lia.
        - exists [], r, st, false. repeat split; try constructor; lia. }
      destruct Hz as (zs & r1 & st1 & ran & Ez & Fz & Gz & Iz & Jz). rewrite Ez in H.
      destruct (v >? 1) eqn:Ev1.
      * destruct (ac_refine_scan eobk t (k + 1) r1 ((if ran then 0 else br) + 1) st1)
          as [[[[rest rf0] brf0] stf0]|] eqn:Er; [|discriminate].
        assert (Hout : out = zs ++ rest /\ rf = rf0 /\ stf = stf0) by (repeat split; congruence).
        destruct Hout as (-> & -> & ->). clear H.
        destruct (IH (k + 1) r1 ((if ran then 0 else br) + 1) st1 rest rf0 brf0 stf0
                    ltac:(lia) ltac:(lia) ltac:(lia) Ht Hcov' Er) as (A & B & C).
        split; [apply Forall_app; split; assumption|lia].
      * assert (v = 1) by lia. subst v.
        specialize (Hcov 0%nat ltac:(cbn [length]; lia) eq_refl).
        destruct (emit_eobrun_ok prec st1 ltac:(lia)) as (es & st2 & E2 & F2 & G2 & L2).
        rewrite E2 in H.
        destruct (ac_refine_scan eobk t (k + 1) 0 0 st2) as [[[[rest rf0] brf0] stf0]|] eqn:Er; [|discriminate].
        assert (Hout : out = zs ++ es ++ (Z.shiftl r1 RUN_SHIFT + 1) :: rest /\ rf = rf0 /\ stf = stf0)
          by (repeat split; congruence).
        destruct Hout as (-> & -> & ->). clear H.
        destruct (IH (k + 1) 0 0 st2 rest rf0 brf0 stf0
                    ltac:(unfold EOBRUN_LIMIT; lia) ltac:(lia) ltac:(lia) Ht Hcov' Er) as (A & B & C).
        split; [|lia].
        apply Forall_app; split; [exact Fz|]. apply Forall_app; split; [exact F2|].
        constructor; [|exact A]. rewrite shift4. apply rs_in_prog.
        unfold rs_ok. assert ((r1 * 16 + 1) mod 16 = 1) as -> by (Z.div_mod_to_equations; lia).
        assert (r1 <= 15) by (apply Iz; lia). lia.
Qed.

Lemma ac_refine_mcu_ok : forall prec Al st band out st',
  1 <= max_coef_bits prec -> (length band <= 64)%nat -> pinv st ->
  ac_refine_mcu Al st band = Some (out, st') ->
  Forall (okc (CAcProg prec)) out /\ pinv st'.
Proof.
  intros prec Al st band out st' Hp Hlen Hinv H. unfold ac_refine_mcu in H.
  set (vals := map (pt_abs Al) band) in *.
  assert (Hvl : length vals = length band) by (unfold vals; apply map_length).
  unfold pinv in *.
  destruct (ac_refine_scan (eob_scan vals 0 0) vals 0 0 0 st) as [[[[syms r] br] st1]|] eqn:Es; [|discriminate].
  destruct (ac_refine_scan_ok prec Hp (eob_scan vals 0 0) vals 0 0 0 st syms r br st1 Hinv ltac:(lia) ltac:(lia)
              (pt_abs_nonneg Al band)
              ltac:(intros j Hj H1; apply (eob_scan_covers vals 0 0 j Hj H1)) Es) as (A & B & C).
  unfold EOBRUN_LIMIT in *.
  destruct ((r >? 0) || (br >? 0)).
  - cbn [eobrun be] in H.
    destruct ((eobrun st1 + 1 =? 32767) || (be st1 + br >? MAX_CORR_BITS - DCTSIZE2 + 1)) eqn:El.
    + destruct (emit_eobrun_ok prec {| eobrun := eobrun st1 + 1; be := be st1 + br |}
                  ltac:(unfold EOBRUN_LIMIT; cbn [eobrun]; lia)) as (l & s3 & E & F & G & L).
      rewrite E in H. inversion H; subst. split; [apply Forall_app; split; assumption|lia].
    + inversion H; subst. cbn [eobrun]. split; [exact A|lia].
  - inversion H; subst. split; [exact A|lia].
Qed.

(* a whole AC scan (any interleaving of first-pass MCUs, refinement MCUs and
   flushes), from the start-of-pass state *)
Definition op_ok (prec : Z) (o : pop) : Prop :=
  match o with
  | PFirst p _ band => p = prec /\ (length band <= 64)%nat
  | PRefine _ band => (length band <= 64)%nat
  | PFlush => True
  end.

Theorem pop_run_ok : forall prec ops st out st',
  max_coef_bits prec <= 15 -> 1 <= max_coef_bits prec ->
  Forall (op_ok prec) ops -> pinv st ->
  pop_run st ops = Some (out, st') ->
  Forall (okc (CAcProg prec)) out /\ pinv st'.
Proof.
  intros prec ops. induction ops as [|o t IH]; intros st out st' Hp Hp1 Hops Hinv H; cbn [pop_run] in H.
  - inversion H; subst. split; [constructor|exact Hinv].
  - inversion Hops as [|? ? Ho Ht]; subst.
    destruct (pop_step st o) as [[s1 st1]|] eqn:E1; [|discriminate].
    destruct (pop_run st1 t) as [[s2 st2]|] eqn:E2; [|discriminate].
    inversion H; subst.
    assert (Hs : Forall (okc (CAcProg prec)) s1 /\ pinv st1).
    { destruct o as [p Al band|Al band|]; cbn [pop_step op_ok] in *.
      - destruct Ho as [-> Hb]. destruct (ac_first_mcu_ok _ _ _ _ _ _ Hp Hb Hinv E1) as (A & B & _). auto.
      - eapply ac_refine_mcu_ok; eauto.
      - unfold pinv in *.
        destruct (emit_eobrun_ok prec st ltac:(lia)) as (l & s3 & E & F & G & L).
        rewrite E in E1. inversion E1; subst. split; [exact F|unfold EOBRUN_LIMIT; lia]. }
    destruct Hs as [A B]. destruct (IH _ _ _ Hp Hp1 Ht B E2) as [C D].
    split; [apply Forall_app; split; assumption|exact D].
Qed.

(* ------------------------------------------------------ jclhuff.c: lossless *)
(* for EVERY difference the MAX_DIFF_BITS guard is dead and the category is 0..16 *)
Theorem lossless_symbol_ok : forall diff,
  exists s, lossless_symbol diff = Some s /\ okc CLossless s.
Proof.
  intros diff. unfold lossless_symbol.
  set (temp := if negb (Z.land diff DIFF_SIGN =? 0)
               then (let t := Z.land (- diff) DIFF_MASK in if t =? 0 then DIFF_SIGN else t)
               else Z.land diff DIFF_MASK).
  assert (Hm : forall x, 0 <= Z.land x DIFF_MASK < 32768).
  { intros x. unfold DIFF_MASK. change 32767 with (Z.ones 15). rewrite Z.land_ones by lia.
    change (2 ^ 15) with 32768. apply Z.mod_pos_bound. lia. }
  assert (Ht : 0 <= temp <= 32768).
  { unfold temp. destruct (negb (Z.land diff DIFF_SIGN =? 0)).
    - cbv zeta. pose proof (Hm (- diff)). destruct (Z.land (- diff) DIFF_MASK =? 0); unfold DIFF_SIGN; lia.
    - pose proof (Hm diff). lia. }
  pose proof (nbits_nonneg temp) as H0.
  pose proof (nbits_le temp 16 ltac:(lia) ltac:(change (2 ^ 16) with 65536; lia)) as H1.
  unfold MAX_DIFF_BITS. destruct (nbits temp >? 16) eqn:E; [lia|].
  eexists. split; [reflexivity|]. unfold okc, class_ok, MAX_DIFF_BITS. lia.
Qed.

(* ----------------------------------------------------------- count arrays *)
Lemma firstn_upd : forall A n (l : list A) i v, firstn n (upd i v l) = upd i v (firstn n l).
Proof.
  induction n as [|n IH]; intros l i v; [destruct i; reflexivity|].
  destruct l as [|h t]; [destruct i; reflexivity|].
  destruct i; cbn [upd firstn]; [reflexivity|]. now rewrite IH.
Qed.

Lemma nth_firstn_lt : forall A n (l : list A) i d, (i < n)%nat -> nth i (firstn n l) d = nth i l d.
Proof.
  induction n as [|n IH]; intros l i d H; [lia|].
  destruct l as [|h t]; [reflexivity|]. destruct i; cbn [firstn nth]; [reflexivity|]. apply IH; lia.
Qed.

Lemma sumZ_upd : forall l i v, (i < length l)%nat -> sumZ (upd i v l) = sumZ l - nth i l 0 + v.
Proof.
  induction l as [|h t IH]; intros i v H; cbn [length] in H; [lia|].
  destruct i; cbn [upd sumZ nth]; [lia|]. rewrite IH by lia. lia.
Qed.

Lemma nth_le_sumZ : forall l i, (forall j, 0 <= nth j l 0) -> nth i l 0 <= sumZ l.
Proof.
  induction l as [|h t IH]; intros i H; [destruct i; cbn; lia|].
  assert (Ht : forall j, 0 <= nth j t 0) by (intros j; apply (H (S j))).
  assert (0 <= sumZ t) by (pose proof (IH 0%nat Ht); pose proof (Ht 0%nat); lia).
  pose proof (H 0%nat) as Hh. cbn [nth] in Hh.
  destruct i; cbn [nth sumZ]; [lia|]. specialize (IH i Ht). lia.
Qed.

(* invariant of "counts[symbol]++" over a pass that counts only symbols of `good` *)
Definition cinv (good : Z -> bool) (c : list Z) (n : Z) : Prop :=
  length c = 257%nat /\ (forall i, 0 <= nth i c 0) /\ sumZ (firstn 256 c) = n /\
  (forall i : nat, good (Z.of_nat i) = false -> nth i c 0 = 0).

Lemma count_fold_inv : forall good syms c n,
  (forall s, good s = true -> 0 <= s < 256) ->
  cinv good c n -> Forall (fun s => good s = true) syms ->
  cinv good (fold_left count_one syms c) (n + Z.of_nat (length syms)).
Proof.
  intros good. induction syms as [|s t IH]; intros c n Hr Hc Hs; cbn [fold_left length].
  - replace (n + Z.of_nat 0) with n by lia. exact Hc.
  - inversion Hs as [|? ? Hs1 Hs2]; subst.
    replace (n + Z.of_nat (S (length t))) with ((n + 1) + Z.of_nat (length t)) by lia.
    apply IH; [exact Hr| |exact Hs2].
    destruct Hc as (C1 & C2 & C3 & C4). pose proof (Hr s Hs1) as Hsr.
    unfold count_one, nthZ. repeat split.
    + rewrite upd_length. exact C1.
    + intros i. rewrite nth_upd. destruct (Nat.eqb i (Z.to_nat s) && Nat.ltb (Z.to_nat s) (length c))%bool.
      * pose proof (C2 (Z.to_nat s)). lia.
      * apply C2.
    + rewrite firstn_upd. rewrite sumZ_upd by (rewrite firstn_length; lia).
      rewrite nth_firstn_lt by lia. lia.
    + intros i Hi. rewrite nth_upd.
      destruct (Nat.eqb i (Z.to_nat s) && Nat.ltb (Z.to_nat s) (length c))%bool eqn:E; [|apply C4; exact Hi].
      exfalso. assert (i = Z.to_nat s) by lia. subst i. rewrite Z2Nat.id in Hi by lia. congruence.
Qed.

Lemma cinv_zero : forall good, cinv good zero_counts 0.
Proof.
  intros good. unfold cinv, zero_counts, NCOUNTS. repeat split.
  - intros i. rewrite nth_repeat_gen. destruct (Nat.ltb i 257); lia.
  - intros i _. rewrite nth_repeat_gen. destruct (Nat.ltb i 257); reflexivity.
Qed.

(* the non-zero grouping loop lists strictly increasing indices *)
Lemma nz_scan_ge : forall l i0 k, In k (map fst (nz_scan l i0)) ->
  i0 <= k < i0 + Z.of_nat (length l) /\ nth (Z.to_nat (k - i0)) l 0 <> 0.
Proof.
  induction l as [|f t IH]; intros i0 k H; cbn [nz_scan] in H; [contradiction|].
  cbn [length]. destruct (f =? 0) eqn:E.
  - destruct (IH _ _ H) as [A B]. split; [lia|].
    replace (Z.to_nat (k - i0)) with (S (Z.to_nat (k - (i0 + 1)))) by lia. exact B.
  - cbn [map fst In] in H. destruct H as [<-|H].
    + split; [lia|]. rewrite Z.sub_diag. cbn. lia.
    + destruct (IH _ _ H) as [A B]. split; [lia|].
      replace (Z.to_nat (k - i0)) with (S (Z.to_nat (k - (i0 + 1)))) by lia. exact B.
Qed.

Lemma nz_scan_nodup : forall l i0, NoDup (map fst (nz_scan l i0)).
Proof.
  induction l as [|f t IH]; intros i0; cbn [nz_scan]; [constructor|].
  destruct (f =? 0); [apply IH|]. cbn [map fst]. constructor; [|apply IH].
  intros H. apply nz_scan_ge in H. lia.
Qed.

Lemma nz_count_le_set : forall good c n,
  cinv good c n ->
  (length (nz_scan (firstn 256 c) 0) <= length (filter good (map Z.of_nat (seq 0 256))))%nat.
Proof.
  intros good c n (C1 & C2 & C3 & C4).
  rewrite <- (map_length fst (nz_scan (firstn 256 c) 0)).
  apply NoDup_incl_length; [apply nz_scan_nodup|].
  intros k Hk. apply nz_scan_ge in Hk. destruct Hk as [A B].
  rewrite firstn_length, C1 in A. rewrite Z.sub_0_r in B.
  rewrite nth_firstn_lt in B by lia.
  apply filter_In. split.
  - apply in_map_iff. exists (Z.to_nat k). split; [lia|]. apply in_seq. lia.
  - destruct (good k) eqn:G; [reflexivity|]. exfalso. apply B. apply C4.
    rewrite Z2Nat.id by lia. exact G.
Qed.

Lemma nz_count_le_class : forall c cnt n,
  cinv (class_ok c) cnt n ->
  (length (nz_scan (firstn 256 cnt) 0) <= length (class_set c))%nat.
Proof. intros c cnt n H. unfold class_set. exact (nz_count_le_set _ _ _ H). Qed.

(* ------------------------------------------------------- the main theorem *)
(* For every table class (DC / sequential AC / progressive AC for 8- and 12-bit
   data, lossless) and every stream of FEWER THAN 10^9 counted symbols of that
   class: no count is negative, each count is at most the number of calls, the
   number of non-zero counts is at most |class set| <= 240 <= 254, and therefore
   (gen_table_always_valid) jpeg_gen_optimal_table returns a table that is
   good, valid and accepted by both derived-table builders. *)
Theorem image_histograms_admissible : forall c syms,
  In c all_classes ->
  Forall (okc c) syms ->
  Z.of_nat (length syms) + 1 <= SENT ->
  let freq := count_syms syms in
  (forall f, In f freq -> 0 <= f) /\
  (forall i, nth i freq 0 <= Z.of_nat (length syms)) /\
  sumZ (firstn 256 freq) = Z.of_nat (length syms) /\
  (length (nz_scan (firstn 256 freq) 0) <= length (class_set c))%nat /\
  (length (class_set c) <= 240)%nat /\
  exists t, gen_optimal_table freq = inr t /\
    good_table t (map fst (nz_scan (firstn 256 freq) 0)) /\
    valid_table t = true /\
    (exists ct, make_c_derived (h_bits t) (h_vals t) 255 = Some ct) /\
    (forall isDC, exists dt, make_d_derived (h_bits t) (h_vals t) isDC 255 = Some dt).
Proof.
  intros c syms Hc Hs Hn freq.
  pose proof (count_fold_inv (class_ok c) syms zero_counts 0
                (fun s H => class_ok_range c s Hc H) (cinv_zero _) Hs) as Hinv.
  fold (count_syms syms) in Hinv. fold freq in Hinv. rewrite Z.add_0_l in Hinv.
  pose proof (nz_count_le_class _ _ _ Hinv) as Hnz.
  pose proof (class_set_le_240 c Hc) as H240.
  destruct Hinv as (C1 & C2 & C3 & C4).
  assert (Hnn : forall f, In f freq -> 0 <= f).
  { intros f Hf. destruct (In_nth _ _ 0 Hf) as (i & _ & <-). apply C2. }
  split; [exact Hnn|]. split.
  { intros i. destruct (Nat.ltb i 256) eqn:E.
    - rewrite <- C3. rewrite <- (nth_firstn_lt _ 256) by lia. apply nth_le_sumZ.
      intros j. destruct (Nat.ltb j 256) eqn:Ej.
      + rewrite nth_firstn_lt by lia. apply C2.
      + rewrite nth_overflow by (rewrite firstn_length; lia). lia.
    - destruct (Nat.eqb i 256) eqn:E6.
      + assert (i = 256%nat) by lia. subst i. rewrite (C4 256%nat); [lia|].
        destruct (class_ok c (Z.of_nat 256)) eqn:G; [|reflexivity].
        apply (class_ok_range c _ Hc) in G. lia.
      + rewrite nth_overflow by lia. lia. }
  split; [exact C3|]. split; [exact Hnz|]. split; [exact H240|].
  apply gen_table_always_valid; [exact Hnn|rewrite C3; exact Hn|lia].
Qed.

(* the three statistics passes, end to end *)
Theorem seq_pass_admissible : forall prec blocks ds acs,
  In prec lossy_precisions ->
  Forall (fun b => length (snd b) = 64%nat) blocks ->
  htest_blocks prec blocks = Some (ds, acs) ->
  63 * Z.of_nat (length blocks) + 1 <= SENT ->
  Forall (okc (CDc prec)) ds /\ Forall (okc (CAcSeq prec)) acs /\
  Z.of_nat (length ds) + 1 <= SENT /\ Z.of_nat (length acs) + 1 <= SENT /\
  In (CDc prec) all_classes /\ In (CAcSeq prec) all_classes.
Proof.
  intros prec blocks ds acs Hp Hl H Hn.
  assert (Hm : max_coef_bits prec <= 15)
    by (cbn in Hp; destruct Hp as [<-|[<-|[]]]; vm_compute; discriminate).
  destruct (htest_blocks_ok _ _ _ _ Hm Hl H) as (A & B & C & D).
  repeat split; try assumption; try lia;
    cbn in Hp; destruct Hp as [<-|[<-|[]]]; cbn; tauto.
Qed.

Theorem lossless_pass_admissible : forall diffs,
  exists syms, map lossless_symbol diffs = map Some syms /\ Forall (okc CLossless) syms /\
               length syms = length diffs.
Proof.
  induction diffs as [|d t IH].
  - exists []. repeat split. constructor.
  - destruct IH as (syms & E & F & L). destruct (lossless_symbol_ok d) as (s & Es & Os).
    exists (s :: syms). cbn [map length]. rewrite Es, E, L. repeat split. constructor; assumption.
Qed.

(* ------------------------------------------------------------ non-vacuity *)
Example seq_block_example :
  htest_one_block 8 3 ([5; -3; 0; 0; 1] ++ repeat 0 40 ++ [1023] ++ repeat 0 18) =
  Some (2, [2; 33; 240; 240; 138; 0]).
Proof. vm_compute. reflexivity. Qed.

Example seq_guard_example :   (* |coef| = 1024 needs 11 bits > max_coef_bits 10 for 8-bit data *)
  htest_one_block 8 0 ([0; 1024] ++ repeat 0 62) = None /\
  exists r, htest_one_block 12 0 ([0; 1024] ++ repeat 0 62) = Some r.
Proof. vm_compute. eauto. Qed.

Example prog_example :
  pop_run pstate0 [PRefine 0 [0; 2; 0; 0; 0; 0; 0; 0; 0; 0; 0; 0; 0; 0; 0; 0; 0; 0; 0; 3; 1; 0];
                   PFirst 8 0 (repeat 0 63); PFirst 8 1 [0; 0; 6; 0]; PFlush] =
  Some ([240; 33; 16; 34; 0], pstate0).
Proof. vm_compute. reflexivity. Qed.

Example lossless_example :
  map lossless_symbol [0; 1; -1; 255; -32768; 32768; 65535; -70000] =
  map Some [0; 1; 1; 8; 16; 16; 1; 13].
Proof. vm_compute. reflexivity. Qed.

Example admissible_example :
  In (CAcSeq 8) all_classes /\ Forall (okc (CAcSeq 8)) [2; 33; 240; 240; 138; 0] /\
  Z.of_nat (length [2; 33; 240; 240; 138; 0]) + 1 <= SENT.
Proof. repeat split; try (vm_compute; tauto); try (repeat constructor). vm_compute. discriminate. Qed.

(* --------------------------------------- beyond 10^9 counted symbols: refuted *)
Lemma upd_upd_same : forall A (l : list A) i x y, upd i y (upd i x l) = upd i y l.
Proof.
  induction l as [|h t IH]; intros i x y; [destruct i; reflexivity|].
  destruct i; cbn [upd]; [reflexivity|]. now rewrite IH.
Qed.

Lemma count_repeat : forall n s c, (Z.to_nat s < length c)%nat ->
  fold_left count_one (repeat s n) c = upd (Z.to_nat s) (nthZ c (Z.to_nat s) + Z.of_nat n) c.
Proof.
  induction n as [|n IH]; intros s c H; cbn [repeat fold_left].
  - unfold nthZ. rewrite Z.add_0_r. clear H. revert c. generalize (Z.to_nat s).
    induction n as [|n IHn]; intros [|h t]; cbn [upd nth]; try reflexivity. now rewrite <- IHn.
  - rewrite IH by (unfold count_one; rewrite upd_length; exact H).
    unfold count_one at 2. unfold count_one. unfold nthZ. rewrite nth_upd.
    replace (Nat.eqb (Z.to_nat s) (Z.to_nat s) && Nat.ltb (Z.to_nat s) (length c))%bool with true by lia.
    rewrite upd_upd_same. f_equal. lia.
Qed.

Lemma lossless_zero_diffs : forall n, map lossless_symbol (repeat 0 n) = map Some (repeat 0 n).
Proof. induction n; cbn [repeat map]; [reflexivity|]. rewrite IHn. reflexivity. Qed.

(* A constant 32768 x 32768 one-component image (both dimensions <= 65500)
   compressed losslessly with optimize_coding has 2^30 differences, all 0 (at
   most one is not).  Its only symbol, category 0, is counted 2^30 > 10^9 times:
   "freq[i] <= v2" never selects it, it keeps code length 0, and the generated
   table contains NO symbol at all -- the encoder then has no code for the only
   symbol of the image. *)
Theorem huge_lossless_image_refuted :
  let n := Z.to_nat (32768 * 32768) in
  let diffs := repeat 0 n in
  let syms := repeat 0 n in
  32768 <= JPEG_MAX_DIMENSION /\
  map lossless_symbol diffs = map Some syms /\ Forall (okc CLossless) syms /\
  SENT < Z.of_nat (length syms) /\
  exists t ct, gen_optimal_table (count_syms syms) = inr t /\
    h_vals t = [] /\ ~ good_table t [0] /\
    make_c_derived (h_bits t) (h_vals t) 255 = Some ct /\ encode_sym ct 0 = None.
Proof.
  intros n diffs syms.
  assert (Hn : Z.of_nat n = 32768 * 32768) by (unfold n; lia). clearbody n.
  split; [vm_compute; discriminate|].
  split; [apply lossless_zero_diffs|]. split.
  { apply Forall_forall. intros x Hx. apply repeat_spec in Hx. subst x. reflexivity. }
  split.
  { unfold syms. rewrite repeat_length. rewrite Hn. vm_compute. reflexivity. }
  unfold syms, count_syms. rewrite count_repeat by (vm_compute; lia).
  rewrite Hn.
  set (freq := upd (Z.to_nat 0) (nthZ zero_counts (Z.to_nat 0) + 32768 * 32768) zero_counts).
  assert (E : exists t, gen_optimal_table freq = inr t /\ h_vals t = [] /\
                        exists ct, make_c_derived (h_bits t) (h_vals t) 255 = Some ct /\ encode_sym ct 0 = None).
  { vm_compute. eexists. split; [reflexivity|]. split; [reflexivity|]. eexists. split; reflexivity. }
  destruct E as (t & E1 & E2 & ct & E3 & E4). exists t, ct.
  repeat split; try assumption.
  intros (_ & _ & _ & _ & P & _). rewrite E2 in P. apply Permutation_length in P. discriminate.
Qed.

(* A lossy witness: 28571429 blocks (a 65500 x 65500 one-component image has
   8188^2 = 67043344) whose 63 AC coefficients are all non-zero with 21 each of
   1, 2 and 3 significant bits count the symbols 0x01, 0x02, 0x03 600000009
   times each (1.8e9 in total).  1 + 600000009, then 600000009 + 600000009 >
   10^9 is never selected again: the loop stops with two trees left, all three
   symbols get length 1, and the table is rejected by jpeg_make_c_derived_tbl
   (JERR_BAD_HUFF_TABLE) -- a legal image that cannot be compressed. *)
Theorem huge_lossy_counts_refuted :
  let n := Z.to_nat 600000009 in
  let syms := repeat 1 n ++ repeat 2 n ++ repeat 3 n in
  Forall (okc (CAcSeq 8)) syms /\
  Z.of_nat (length syms) = 63 * 28571429 /\ 28571429 <= 8188 * 8188 /\
  exists t, gen_optimal_table (count_syms syms) = inr t /\
    h_bits t = [0; 3; 0; 0; 0; 0; 0; 0; 0; 0; 0; 0; 0; 0; 0; 0; 0] /\
    valid_table t = false /\ make_c_derived (h_bits t) (h_vals t) 255 = None.
Proof.
  intros n syms.
  assert (Hn : Z.of_nat n = 600000009) by (unfold n; lia). clearbody n. split.
  { unfold syms. repeat (apply Forall_app; split);
      apply Forall_forall; intros x Hx; apply repeat_spec in Hx; subst x; reflexivity. }
  split.
  { unfold syms. rewrite !app_length, !repeat_length. lia. }
  split; [lia|].
  unfold syms, count_syms. rewrite !fold_left_app.
  rewrite (count_repeat n 1) by (vm_compute; lia).
  rewrite (count_repeat n 2) by (rewrite upd_length; vm_compute; lia).
  rewrite (count_repeat n 3) by (rewrite !upd_length; vm_compute; lia).
  rewrite Hn.
  match goal with |- exists t, gen_optimal_table ?f = _ /\ _ => set (freq := f) end.
  destruct (gen_optimal_table freq) as [e|t] eqn:E; vm_compute in E; [discriminate|].
  exists t. split; [reflexivity|]. inversion E; subst t. clear E.
  split; [reflexivity|]. split; vm_compute; reflexivity.
Qed.
