(* C07 -- range analysis of jpeg_fdct_islow (model): for every block of valid samples no
   store into DCTELEM wraps (16-bit short of the SIMD build included) and every output
   coefficient is within 64 * CENTERJSAMPLE, so that the per-coefficient quantisation
   theorem applies to every coefficient of every block the compressor can see. *)
From Coq Require Import List ZArith Lia Bool ZifyBool.
From LJT Require Import gen.GenDctConst model.Quant model.Dct proofs.QuantCert proofs.QuantProofs proofs.DctProofs.
Import ListNotations.
Local Open Scope Z_scope.
Ltac Zify.zify_post_hook ::= Z.div_mod_to_equations.

Definition inb (B x : Z) : Prop := - B <= x <= B.
Definition b1 (cf : cfg) : Z := centersample cf * 8 * 2 ^ fpass1 cf.
Definition b2 (cf : cfg) : Z := 64 * centersample cf.

Ltac fdct_open :=
  unfold fdct_1d; cbv zeta; unfold fpass1; cbn [c_bits c_dw Z.eqb Pos.eqb];
  change fdct_pass1_bits_8 with 2; change fdct_pass1_bits_12 with 1; change fdct_const_bits with 13; cbv iota;
  rewrite ?Z.shiftl_mul_pow2 by lia; repeat rewrite DESCALE_eq by lia;
  unfold FFIX_0_298631336, FFIX_0_390180644, FFIX_0_541196100, FFIX_0_765366865, FFIX_0_899976223, FFIX_1_175875602,
     FFIX_1_501321110, FFIX_1_847759065, FFIX_1_961570560, FFIX_2_053119869, FFIX_2_562915447, FFIX_3_072711026;
  norm_pow.

Lemma fdct_pass1_bound cf d0 d1 d2 d3 d4 d5 d6 d7 : cfg_ok cf ->
  inb (centersample cf) d0 -> inb (centersample cf) d1 -> inb (centersample cf) d2 -> inb (centersample cf) d3 ->
  inb (centersample cf) d4 -> inb (centersample cf) d5 -> inb (centersample cf) d6 -> inb (centersample cf) d7 ->
  exists y0 y1 y2 y3 y4 y5 y6 y7,
    fdct_1d cf false [d0; d1; d2; d3; d4; d5; d6; d7] = [y0; y1; y2; y3; y4; y5; y6; y7] /\
    inb (b1 cf) y0 /\ inb (b1 cf) y1 /\ inb (b1 cf) y2 /\ inb (b1 cf) y3 /\
    inb (b1 cf) y4 /\ inb (b1 cf) y5 /\ inb (b1 cf) y6 /\ inb (b1 cf) y7.
Proof.
  intros Hok. unfold inb, b1.
  cfg_cases cf Hok; sample_consts; norm_pow; intros; fdct_open;
    repeat match goal with |- context [wrapS ?w ?x] => rewrite (wrapS_small w x) by (norm_pow; lia) end;
    do 8 eexists; (split; [reflexivity|]); repeat split; lia.
Qed.

Lemma fdct_pass2_bound cf d0 d1 d2 d3 d4 d5 d6 d7 : cfg_ok cf ->
  inb (b1 cf) d0 -> inb (b1 cf) d1 -> inb (b1 cf) d2 -> inb (b1 cf) d3 ->
  inb (b1 cf) d4 -> inb (b1 cf) d5 -> inb (b1 cf) d6 -> inb (b1 cf) d7 ->
  exists y0 y1 y2 y3 y4 y5 y6 y7,
    fdct_1d cf true [d0; d1; d2; d3; d4; d5; d6; d7] = [y0; y1; y2; y3; y4; y5; y6; y7] /\
    inb (b2 cf) y0 /\ inb (b2 cf) y1 /\ inb (b2 cf) y2 /\ inb (b2 cf) y3 /\
    inb (b2 cf) y4 /\ inb (b2 cf) y5 /\ inb (b2 cf) y6 /\ inb (b2 cf) y7.
Proof.
  intros Hok. unfold inb, b1, b2.
  cfg_cases cf Hok; sample_consts; norm_pow; intros; fdct_open;
    repeat match goal with |- context [wrapS ?w ?x] => rewrite (wrapS_small w x) by (norm_pow; lia) end;
    do 8 eexists; (split; [reflexivity|]); repeat split; lia.
Qed.

Lemma Forall8 {A} (P : A -> Prop) a0 a1 a2 a3 a4 a5 a6 a7 l :
  Forall P (a0 :: a1 :: a2 :: a3 :: a4 :: a5 :: a6 :: a7 :: l) ->
  P a0 /\ P a1 /\ P a2 /\ P a3 /\ P a4 /\ P a5 /\ P a6 /\ P a7 /\ Forall P l.
Proof.
  intros H. repeat (apply Forall_cons_iff in H; destruct H as [? H]). repeat split; assumption.
Qed.

Ltac eval_sub f delta :=
  match goal with |- context [f ?l] =>
    let r := eval cbv delta in (f l) in change (f l) with r end.

Theorem fdct_in_range : forall cf data, cfg_ok cf -> length data = 64%nat ->
  Forall (inb (centersample cf)) data -> Forall (inb (b2 cf)) (fdct_islow cf data).
Proof.
  intros cf data Hok Hlen HF.
  do 64 (destruct data as [|? data]; [discriminate Hlen|]). destruct data; [|discriminate Hlen].
  do 8 (apply Forall8 in HF; destruct HF as (?&?&?&?&?&?&?&?&HF)).
  unfold fdct_islow.
  match goal with |- context [rows8 ?l] =>
    let r := eval cbv [rows8 seq map firstn skipn Nat.mul Nat.add] in (rows8 l) in change (rows8 l) with r end.
  cbn [map].
  repeat match goal with |- context [fdct_1d cf false [?a0; ?a1; ?a2; ?a3; ?a4; ?a5; ?a6; ?a7]] =>
    let E := fresh "E" in
    destruct (fdct_pass1_bound cf a0 a1 a2 a3 a4 a5 a6 a7 Hok) as (?&?&?&?&?&?&?&?&E&?&?&?&?&?&?&?&?); [assumption..|];
    rewrite E; clear E end.
  match goal with |- context [map (fdct_1d cf true) (transpose8 ?m)] =>
    let r := eval cbv [transpose8 seq map nth] in (transpose8 m) in change (transpose8 m) with r end.
  cbn [map].
  repeat match goal with |- context [fdct_1d cf true [?a0; ?a1; ?a2; ?a3; ?a4; ?a5; ?a6; ?a7]] =>
    let E := fresh "E" in
    destruct (fdct_pass2_bound cf a0 a1 a2 a3 a4 a5 a6 a7 Hok) as (?&?&?&?&?&?&?&?&E&?&?&?&?&?&?&?&?); [assumption..|];
    rewrite E; clear E end.
  cbv [transpose8 seq map nth concat app].
  repeat (constructor; [assumption|]). constructor.
Qed.

(* every block of valid samples: the compressor's quantised coefficients are within q/2 of F/8 *)
Lemma convsamp_in_range cf samples : cfg_ok cf -> Forall (fun s => 0 <= s <= maxsample cf) samples ->
  Forall (inb (centersample cf)) (convsamp cf samples).
Proof.
  intros Hok HF. unfold convsamp. induction HF as [|s l Hs HF IH]; [constructor|].
  cbn [map]. constructor; [|exact IH]. unfold inb.
  cfg_cases cf Hok; sample_consts; rewrite wrapS_small by (norm_pow; lia); lia.
Qed.

Lemma quantize_block_error cf qs ds fs : Forall2 (div_ok cf) qs ds -> (forall q, In q qs -> 1 <= q) ->
  Forall (inb (coef_max cf)) fs -> length fs = length qs ->
  Forall2 (fun qf c => 2 * Z.abs (c * (8 * fst qf) - snd qf) <= 8 * fst qf) (combine qs fs) (quantize_block cf ds fs).
Proof.
  unfold quantize_block. intros HD. revert fs. induction HD as [|q d qs ds Hd HD IH]; intros fs Hq HF Hlen.
  - destruct fs; [constructor|discriminate Hlen].
  - destruct fs as [|f fs]; [discriminate Hlen|]. cbn [combine map2].
    apply Forall_cons_iff in HF. destruct HF as [Hf HF].
    constructor.
    + cbn [fst snd]. rewrite Hd by (unfold inb in Hf; lia). apply rdiv_error.
      specialize (Hq q (or_introl eq_refl)). lia.
    + apply IH; [intros; apply Hq; right; assumption|exact HF|cbn in Hlen; lia].
Qed.

Lemma Forall_weaken {A} (P Q : A -> Prop) l : (forall x, P x -> Q x) -> Forall P l -> Forall Q l.
Proof. intros H HF. induction HF; constructor; auto. Qed.

Lemma fdct_length cf data : length data = 64%nat -> length (fdct_islow cf data) = 64%nat.
Proof.
  intros Hlen. do 64 (destruct data as [|? data]; [discriminate Hlen|]). destruct data; [|discriminate Hlen].
  unfold fdct_islow.
  match goal with |- context [rows8 ?l] =>
    let r := eval cbv [rows8 seq map firstn skipn Nat.mul Nat.add] in (rows8 l) in change (rows8 l) with r end.
  reflexivity.
Qed.

Theorem block_coef_error_proof : forall cf qtbl samples,
  cfg_ok cf -> length qtbl = 64%nat -> length samples = 64%nat ->
  (forall q, In q qtbl -> 1 <= q <= 65535) ->
  Forall (fun s => 0 <= s <= maxsample cf) samples ->
  exists coefs, forward_block cf qtbl samples = Some coefs /\
    Forall2 (fun qf c => 2 * Z.abs (c * (8 * fst qf) - snd qf) <= 8 * fst qf)
            (combine qtbl (fdct_islow cf (convsamp cf samples))) coefs.
Proof.
  intros cf qtbl samples Hok Hlq Hls Hq HS.
  destruct (start_pass_divisors_ok cf qtbl Hok Hq) as [divs [Hdivs HF]].
  unfold forward_block. rewrite Hdivs. eexists. split; [reflexivity|].
  apply quantize_block_error; [exact HF|intros q Hin; specialize (Hq q Hin); lia| |].
  - apply Forall_weaken with (P := inb (b2 cf)).
    + unfold inb, b2. intros x Hx. cfg_cases cf Hok; sample_consts; lia.
    + apply fdct_in_range; [exact Hok|unfold convsamp; rewrite map_length; exact Hls|].
      apply convsamp_in_range; assumption.
  - rewrite fdct_length by (unfold convsamp; rewrite map_length; exact Hls). symmetry; exact Hlq.
Qed.
