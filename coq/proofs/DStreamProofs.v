(* DStreamProofs.v -- scan-level progress and work bound of the whole datastream (model/DStream.v). *)
From Coq Require Import List ZArith Bool Lia ZifyBool.
From LJT Require Import gen.GenLimits model.Huff model.DMarkers model.DStream
  proofs.DMarkersProofs proofs.DMarkersScanProofs proofs.DMarkersTop.
Import ListNotations.
Local Open Scope Z_scope.
Ltac Zify.zify_post_hook ::= Z.div_mod_to_equations.

Lemma post_conj {A} (m : M A) (P Q : A -> Prop) : post m P -> post m Q -> post m (fun a => P a /\ Q a).
Proof.
  intros HP HQ s Hs. specialize (HP s Hs). specialize (HQ s Hs). destruct (m s); auto.
  destruct HP as (A1 & A2 & A3 & A4). destruct HQ as (_ & _ & _ & B4). auto.
Qed.

Lemma dru_le a b : 1 <= a -> 1 <= b -> 0 <= div_round_up a b <= a.
Proof. intros Ha Hb. unfold div_round_up. split; [apply Z.div_pos; lia|]. apply Z.div_le_upper_bound; [lia|]. nia. Qed.

Lemma dru_le2 w c m d : 1 <= w -> 1 <= c <= m -> 1 <= d -> 0 <= div_round_up (w * c) (m * d) <= w.
Proof.
  intros Hw Hc Hd. unfold div_round_up.
  assert (0 < m * d) by (apply Z.mul_pos_pos; lia).
  assert (c <= m * d) by (assert (m * 1 <= m * d) by (apply Z.mul_le_mono_nonneg_l; lia); lia).
  assert (w * c <= w * (m * d)) by (apply Z.mul_le_mono_nonneg_l; lia).
  assert (0 <= w * c) by (apply Z.mul_nonneg_nonneg; lia).
  split; [apply Z.div_pos; lia|].
  assert ((w * c + m * d - 1) / (m * d) < w + 1); [|lia].
  apply Z.div_lt_upper_bound; lia.
Qed.

Lemma L_samp_max : forall cs mh mv, 1 <= mh -> 1 <= mv ->
  post (samp_check cs mh mv) (fun p => mh <= fst p /\ mv <= snd p /\
        Forall (fun c => 1 <= c_h c <= fst p /\ 1 <= c_v c <= snd p) cs).
Proof.
  induction cs as [|c t IH]; intros mh mv H1 H2; cbn [samp_check].
  - apply post_ret. cbn. repeat split; auto; lia.
  - dif; [pfail|]. eapply post_weaken; [apply IH; lia|].
    cbv beta. intros p (A & B & C). split; [lia|]. split; [lia|]. constructor; [ulia|exact C].
Qed.

Lemma L_comp_dims_le : forall cs ci w hgt mh mv du, 0 <= ci -> ci + Z.of_nat (length cs) <= 10 ->
  1 <= w -> 1 <= hgt -> 1 <= du ->
  Forall (fun c => 1 <= c_h c <= mh /\ 1 <= c_v c <= mv) cs ->
  post (comp_dims cs ci w hgt mh mv du) (fun p => Forall (fun x => 0 <= x <= w) (fst p) /\ Forall (fun x => 0 <= x <= hgt) (snd p)).
Proof.
  induction cs as [|c t IH]; intros ci w hgt mh mv du H0 H1 Hw Hh Hd Hc; cbn [comp_dims].
  - apply post_ret. cbn. auto.
  - inversion Hc as [|x y [Hx1 Hx2] Hy]; subst. cbn [length] in H1. plog.
    eapply post_bind; [apply IH; auto; lia|]. intros [ws hs] [A B]. cbn [fst snd] in *.
    apply post_ret. cbn [fst snd]. split; constructor; auto; apply dru_le2; auto.
Qed.

(* dimensions of what initial_setup computes *)
Definition setup_dims (h : hdr) (su : setup) : Prop :=
  1 <= su_maxh su /\ 1 <= su_maxv su /\
  Forall (fun x => 0 <= x <= f_width (h_frame h)) (su_wib su) /\ Forall (fun x => 0 <= x <= f_height (h_frame h)) (su_hib su).

Lemma L_initial_setup_dims h : hdr_ok h -> saw_SOF h = true -> post (initial_setup h) (setup_dims h).
Proof.
  intros Hh Hsof. pose proof Hh as (H1 & H2 & H3). specialize (H1 Hsof).
  destruct H1 as (F1 & F2 & F3 & F4 & F5 & F6).
  unfold initial_setup. cbv zeta. dif; [pfail|]. dif; [pfail|]. dif; [pfail|].
  eapply post_bind; [apply L_samp_max; lia|]. intros [mh mv] (S1 & S2 & S3). cbn [fst snd] in *.
  eapply post_bind; [apply (L_comp_dims_le _ 0 _ _ mh mv); auto; try ulia|].
  { destruct (f_lossless (h_frame h)); ulia. }
  intros [ws hs] (D1 & D2). cbn [fst snd] in *.
  apply post_ret. unfold setup_dims; cbn. repeat split; auto; lia.
Qed.

Lemma Forall_nthd_le l i w : 0 <= w -> Forall (fun x => 0 <= x <= w) l -> 0 <= nthd l i 0 <= w.
Proof. intros Hw H. unfold nthd. apply (Forall_nth (fun x => 0 <= x <= w)); auto. lia. Qed.

Lemma L_per_scan_setup_dims h su : accepted_header h su -> setup_dims h su ->
  post (per_scan_setup h su) (fun si => scaninfo_ok (h_scan h) si /\
        0 <= si_mcus_per_row si <= f_width (h_frame h) /\ 0 <= si_mcu_rows si <= f_height (h_frame h)).
Proof.
  intros Hacc (M1 & M2 & W & Hh). apply post_conj; [apply L_per_scan_setup; auto|].
  pose proof Hacc as (A1 & A2 & A3 & A4 & A5 & A6 & A7 & (S1 & S2 & S3 & S4) & _).
  unfold per_scan_setup. cbv zeta. dif.
  - plog. plog. apply post_ret. cbn. split; apply Forall_nthd_le; auto; lia.
  - dif; [pfail|].
    eapply post_bind; [apply L_psetup_loop; auto; lia|]. intros [b m] _.
    apply post_ret. cbn.
    assert (Hdu : 1 <= (if f_lossless (h_frame h) then 1 else L_DCTSIZE)) by (destruct (f_lossless (h_frame h)); ulia).
    split; apply dru_le; try lia; nia.
Qed.

(* ---------------------------------------------------------------- the stream *)
(* Every scan costs at most 64 steps for each of at most 10 x width x height data units; the number of
   scans is at most the scan limit and at most length/2 + 3; whatever the entropy decoders consume. *)
Lemma decode_stream2_spec ec limit : ec_mono ec -> forall fuel h nsos work amax s,
  hdr_ok h -> inv s -> (len s + 4 <= 2 * fuel)%nat -> 0 <= nsos -> 0 <= amax ->
  work <= nsos * (L_DCTSIZE2 * L_D_MAX_BLOCKS_IN_MCU * amax) ->
  match decode_stream2 ec limit fuel h nsos work amax s with
  | SDone h' n w a s' => inv s' /\ nsos <= n <= nsos + Z.of_nat fuel /\ (nsos <= limit -> n <= limit) /\
                         amax <= a <= Z.max amax (L_JPEG_MAX_DIMENSION * L_JPEG_MAX_DIMENSION) /\
                         w <= n * (L_DCTSIZE2 * L_D_MAX_BLOCKS_IN_MCU * a)
  | SSusp => fake s = false
  | SFail e n w s' => inv s' /\ e <> E_OUT_OF_FUEL
  | SLimit n w a s' => inv s' /\ (nsos <= limit -> n = limit) /\ w <= n * (L_DCTSIZE2 * L_D_MAX_BLOCKS_IN_MCU * a)
  end.
Proof.
  intros Hec. induction fuel as [|k IH]; intros h nsos work amax s Hh Hs Hf Hn Ha Hw; [lia|].
  cbn [decode_stream2].
  pose proof (read_markers_spec (marker_fuel s) h s Hh Hs (div2_bound _)) as H.
  destruct (read_markers (marker_fuel s) h s) as [r s1| |e s1]; auto.
  destruct H as (A & B & C & D & E & F).
  destruct r as [h'|h'|h']; cbn in E; [contradiction| |].
  - destruct D as (D1 & D2 & D3). destruct F as [F|F]; [|contradiction].
    destruct (nsos + 1 >? limit) eqn:EL; [split; [exact A|]; split; [lia|exact Hw]|].
    assert (P : post (initial_setup h') (fun su => accepted_header h' su /\ setup_dims h' su))
      by (apply post_conj; [apply L_initial_setup; auto|apply L_initial_setup_dims; auto]).
    specialize (P s1 A). destruct (initial_setup h' s1) as [su s2| |e s2]; [|congruence|auto].
    destruct P as (P1 & P2 & P3 & (P4 & P5)).
    pose proof (L_per_scan_setup_dims h' su P4 P5 s2 P1) as Q.
    destruct (per_scan_setup h' su s2) as [si s3| |e s3]; [|congruence|auto].
    destruct Q as (Q1 & Q2 & Q3 & ((U1 & U2 & U3) & U4 & U5)).
    destruct (Hec h' s3 Q1) as (G1 & G2 & G3).
    pose proof P4 as (_ & _ & _ & _ & X5 & X6 & _).
    assert (Harea : 0 <= frame_area h' <= L_JPEG_MAX_DIMENSION * L_JPEG_MAX_DIMENSION) by (unfold frame_area; ucon; nia).
    assert (Hunits : scan_units si * unit_steps <= L_DCTSIZE2 * L_D_MAX_BLOCKS_IN_MCU * frame_area h').
    { unfold scan_units, unit_steps, frame_area. ucon.
      assert (si_mcus_per_row si * si_mcu_rows si <= f_width (h_frame h') * f_height (h_frame h')) by nia.
      assert (0 <= si_mcus_per_row si * si_mcu_rows si) by nia. nia. }
    assert (Hk : (len (ec h' s3) + 4 <= 2 * k)%nat) by lia.
    specialize (IH h' (nsos + 1) (work + scan_units si * unit_steps) (Z.max amax (frame_area h')) (ec h' s3) D1 G1 Hk ltac:(lia) ltac:(lia)).
    assert (Hw' : work + scan_units si * unit_steps <= (nsos + 1) * (L_DCTSIZE2 * L_D_MAX_BLOCKS_IN_MCU * Z.max amax (frame_area h'))).
    { ucon. nia. }
    specialize (IH Hw').
    destruct (decode_stream2 ec limit k h' (nsos + 1) _ _ (ec h' s3)) as [h2 n w a s'| |e n w s'|n w a s'].
    + destruct IH as (I1 & I2 & I3 & I4 & I5). split; [exact I1|]. split; [lia|]. split; [intros; apply I3; lia|]. split; [lia|exact I5].
    + congruence.
    + exact IH.
    + destruct IH as (I1 & I2 & I3). split; [exact I1|]. split; [intros; apply I2; lia|exact I3].
  - split; [exact A|]. split; [lia|]. split; [auto|]. split; [lia|exact Hw].
Qed.

Lemma scan_time_bound_ : forall ec limit data, ec_mono ec -> 0 <= limit -> Forall byte data ->
  match decode_stream2 ec limit (Nat.div2 (length data) + 3) hdr0 0 0 0 (io0 data true) with
  | SDone h n w a s' =>
      0 <= n <= limit /\ n <= Z.of_nat (length data) / 2 + 3 /\ 0 <= a <= L_JPEG_MAX_DIMENSION * L_JPEG_MAX_DIMENSION /\
      w <= n * (L_DCTSIZE2 * L_D_MAX_BLOCKS_IN_MCU * a) /\ trace_ok s'
  | SSusp => False
  | SFail e n w s' => e <> E_OUT_OF_FUEL /\ trace_ok s'
  | SLimit n w a s' => n = limit /\ w <= n * (L_DCTSIZE2 * L_D_MAX_BLOCKS_IN_MCU * a) /\ trace_ok s'
  end.
Proof.
  intros ec limit data Hec Hl Hd.
  pose proof (decode_stream2_spec ec limit Hec (Nat.div2 (length data) + 3) hdr0 0 0 0 (io0 data true) hdr0_ok
                (inv_io0 data true Hd) (div2_bound _) ltac:(lia) ltac:(lia) ltac:(lia)) as H.
  destruct (decode_stream2 ec limit _ hdr0 0 0 0 (io0 data true)) as [h n w a s'| |e n w s'|n w a s'].
  - destruct H as ([T _] & I2 & I3 & I4 & I5).
    pose proof (Nat.div2_odd (length data)) as Ho. destruct (Nat.odd (length data)); unfold Nat.b2n in Ho;
      (split; [split; [lia|apply I3; lia]|]; split; [lia|]; split; [ucon; lia|]; split; [exact I5|exact T]).
  - discriminate H.
  - destruct H as ([T _] & K). auto.
  - destruct H as ([T _] & I2 & I3). split; [apply I2; lia|]. split; [exact I3|exact T].
Qed.
