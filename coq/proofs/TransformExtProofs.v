(* C06 round 4: crop extension (do_crop_ext_zero) meets its specification: inside the whole-iMCU
   source area placed at the crop offset the output blocks ARE the source blocks, everywhere else
   (canvas around it, and the source's partial edge iMCU in an extended direction) they are zero. *)
From Coq Require Import List ZArith Bool Lia ZifyBool.
From LJT Require Import model.Transform model.TransformSpec model.TransformExt
  proofs.TransformProofs proofs.TransformPlane proofs.TransformImage proofs.TransformGeneral.
Import ListNotations.
Local Open Scope Z_scope.

Definition ext_spec (g : geom) (ex ey : bool) (src : srcfn) : srcfn := fun x y =>
  let X := g_xco g * g_hs g in let Y := g_yco g * g_vs g in
  let cw := g_sw g / (g_maxh g * 8) * g_hs g in let ch := g_sh g / (g_maxv g * 8) * g_vs g in
  let in_x := if ex then (X <=? x) && (x <? X + cw) else true in
  let in_y := if ey then (Y <=? y) && (y <? Y + ch) else true in
  if in_x && in_y then src (if ex then x - X else x + X) (if ey then y - Y else y + Y) else zero_blk.

Lemma group_lt0 m s y : 1 <= s -> 0 <= y -> (gbase y s <? m * s) = (y <? m * s).
Proof. intros Hs Hy. pose proof (group_lt 0 m s y Hs Hy) as H. rewrite Z.mul_0_l, !Z.add_0_l in H. exact H. Qed.

Theorem do_crop_ext_zero_spec g ex ey src x y :
  geom_ok g -> 0 <= x -> 0 <= y ->
  do_crop_ext_zero g ex ey src x y = ext_spec g ex ey src x y.
Proof.
  intros (Hhs & Hvs & Hxc & Hyc) Hx Hy. unfold do_crop_ext_zero, ext_spec, xcb, ycb. cbv zeta.
  set (R := g_sh g / (g_maxv g * 8)). set (C := g_sw g / (g_maxh g * 8)).
  assert (E1 : (gbase y (g_vs g) <? g_yco g * g_vs g) = (y <? g_yco g * g_vs g)) by (apply group_lt0; lia).
  assert (E2 : (g_yco g * g_vs g + R * g_vs g <=? gbase y (g_vs g)) = (g_yco g * g_vs g + R * g_vs g <=? y)).
  { pose proof (group_lt0 (g_yco g + R) (g_vs g) y Hvs Hy) as H.
    replace ((g_yco g + R) * g_vs g) with (g_yco g * g_vs g + R * g_vs g) in H by lia.
    destruct (Z.ltb_spec (gbase y (g_vs g)) (g_yco g * g_vs g + R * g_vs g));
      destruct (Z.ltb_spec y (g_yco g * g_vs g + R * g_vs g)); try discriminate; lia. }
  rewrite E1, E2.
  assert (Eg : gbase y (g_vs g) + goff y (g_vs g) = y) by apply gbase_goff.
  destruct ey; destruct ex; cbn [andb];
    repeat match goal with
           | |- context [?a <? ?b] => destruct (Z.ltb_spec a b)
           | |- context [?a <=? ?b] => destruct (Z.leb_spec a b)
           end; cbn [andb orb]; try reflexivity; try lia; f_equal; lia.
Qed.

(* offsets of the extended plan are non-negative (offsets given as JCROP_POS / unset, as tj3Transform does) *)
Lemma crop_axis2_nonneg n full cw wset cx xset imcu r off e :
  0 < imcu -> 0 <= cx -> xset <> ONeg -> crop_axis2 n full cw wset cx xset imcu = inr (r, off, e) -> 0 <= off.
Proof.
  intros Hi Hc Hn. unfold crop_axis2.
  destruct (crop_axis n full cw wset cx xset) as [er|[cw' o']] eqn:E.
  - destruct er; try discriminate. intros H. injection H as <- <- <-.
    destruct xset; try contradiction; apply Z.div_pos; lia.
  - intros H. injection H as <- <- <-. apply crop_axis_ok in E; [|exact Hc]. apply Z.div_pos; lia.
Qed.

(* image level: a request the core model refuses with ECropExt, through transform2: the result has the
   extended plan's dimensions and every block of every component is given by [ext_spec] *)
Theorem transform2_ext_blocks im o im' :
  request_workspace im o = inl ECropExt -> transform2 im o = inr im' ->
  Forall (fun c => 1 <= c_hs c /\ 1 <= c_vs c) (i_comps im) ->
  opts_nonneg o -> (forall c, xo_crop o = Some c -> cr_xset c <> ONeg /\ cr_yset c <> ONeg) ->
  exists p, request_workspace2 im o = inr p /\ i_w im' = p_ow p /\ i_h im' = p_oh p /\
    let srcs := firstn (Z.to_nat (p_nc p)) (i_comps im) in
    Forall2 (fun c c' =>
      c_tq c' = c_tq c /\
      forall x y, 0 <= x -> 0 <= y ->
        c_blk c' x y =
        ext_spec (mkgeom (c_hs c') (c_vs c') (c_wb c') (c_hb c') (c_wb c) (i_w im) (i_h im)
                         (samp_mh (p_nc p) false srcs) (samp_mv (p_nc p) false srcs) (p_xco p) (p_yco p))
                 (i_w im <? p_ow p) (i_h im <? p_oh p) (c_blk c) x y)
      srcs (i_comps im').
Proof.
  intros Hreq HT Hfac Hnn Hpos. unfold transform2 in HT.
  assert (Et : transform im o = inl ECropExt) by (unfold transform; rewrite Hreq; reflexivity).
  rewrite Et in HT.
  destruct (request_workspace2 im o) as [e|p] eqn:Ep; [discriminate|].
  destruct (negb (quant_ok im)); [discriminate|].
  destruct (xo_gray o && negb (gray_ok im)); [discriminate|].
  injection HT as <-. exists p. split; [reflexivity|]. cbn [i_w i_h i_comps]. split; [reflexivity|]. split; [reflexivity|].
  cbv zeta.
  (* offsets are non-negative *)
  assert (Hoff : 0 <= p_xco p /\ 0 <= p_yco p).
  { revert Ep. unfold request_workspace2. rewrite Hreq.
    destruct (xo_crop o) as [c|] eqn:Ec; [|discriminate].
    unfold opts_nonneg in Hnn. rewrite Ec in Hnn. destruct Hnn as (_ & _ & Hcx & Hcy).
    destruct (Hpos c eq_refl) as [Nx Ny].
    set (imw := if _ =? 1 then 8 else max_hs (i_comps im) * 8).
    set (imh := if _ =? 1 then 8 else max_vs (i_comps im) * 8).
    pose proof (max_hs_ge1 (i_comps im)). pose proof (max_vs_ge1 (i_comps im)).
    assert (0 < imw) by (unfold imw; destruct (_ =? 1); lia).
    assert (0 < imh) by (unfold imh; destruct (_ =? 1); lia).
    destruct (crop_axis2 true (i_w im) _ _ _ _ imw) as [e1|[[ow xco] ex]] eqn:E1; [discriminate|].
    destruct (crop_axis2 true (i_h im) _ _ _ _ imh) as [e2|[[oh yco] ey]] eqn:E2; [discriminate|].
    intros H'. injection H' as <-. cbn [p_xco p_yco].
    split; [eapply crop_axis2_nonneg; [| | |exact E1]; assumption|eapply crop_axis2_nonneg; [| | |exact E2]; assumption]. }
  destruct Hoff as [Hx0 Hy0].
  fold (samp_mh (p_nc p) false (firstn (Z.to_nat (p_nc p)) (i_comps im))).
  fold (samp_mv (p_nc p) false (firstn (Z.to_nat (p_nc p)) (i_comps im))).
  apply Forall2_map_r. intros c Hc. cbn [c_tq c_hs c_vs c_wb c_hb c_blk].
  split; [reflexivity|]. intros x y Hx Hy.
  apply do_crop_ext_zero_spec; try assumption.
  unfold geom_ok. cbn [g_hs g_vs g_xco g_yco].
  apply in_firstn_in in Hc. rewrite Forall_forall in Hfac. destruct (Hfac c Hc) as [A B].
  unfold dst_samp. destruct (p_nc p =? 1); cbn [fst snd]; lia.
Qed.

(* where the canvas and the source's partial edge iMCU are: zero blocks; non-vacuity of both cases *)
Example ext_spec_example :
  let g := mkgeom 2 2 6 2 3 40 16 2 2 1 0 in
  let src := fun x y => repeat (1 + x + 10 * y) 64%nat in
  ext_spec g true false src 0 0 = zero_blk /\ ext_spec g true false src 2 1 = src 0 1 /\
  ext_spec g true false src 5 1 = src 3 1 /\ ext_spec g true false src 6 0 = zero_blk.
Proof. vm_compute. repeat split. Qed.
