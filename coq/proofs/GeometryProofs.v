(* C20 -- proofs about model/Geometry.v (plane dimensions, buffer size, layout,
   overflow checks, unified-buffer functions, scaled dimensions). *)
From Coq Require Import ZArith List Bool Lia ZifyBool.
From LJT Require Import lib.PadLemmas gen.GenSubsamp model.Geometry.
Import ListNotations.
Local Open Scope Z_scope.
Local Open Scope bool_scope.

(* ------------------------------------------------------------------ specification *)
Definition hsf (s : Z) : Z := tjMCUWidth s / 8.       (* luma horizontal sampling factor *)
Definition vsf (s : Z) : Z := tjMCUHeight s / 8.
Definition ncomp (s : Z) : Z := if s =? TJSAMP_GRAY then 1 else 3.
Definition spec_pw (c w s : Z) : Z := if c =? 0 then pad_up w (hsf s) else cdiv w (hsf s).
Definition spec_ph (c h s : Z) : Z := if c =? 0 then pad_up h (vsf s) else cdiv h (vsf s).
Definition spec_stride (c w a s : Z) : Z := pad_up (spec_pw c w s) a.
Definition plane_bytes (c w a h s : Z) : Z := spec_stride c w a s * spec_ph c h s.
Definition spec_total (w a h s : Z) : Z :=
  if s =? TJSAMP_GRAY then plane_bytes 0 w a h s
  else plane_bytes 0 w a h s + plane_bytes 1 w a h s + plane_bytes 2 w a h s.
Definition spec_off (c w a h s : Z) : Z :=
  if c =? 0 then 0 else if c =? 1 then plane_bytes 0 w a h s else plane_bytes 0 w a h s + plane_bytes 1 w a h s.
Definition valid_samp (s : Z) : Prop := 0 <= s < TJ_NUMSAMP.
Definition valid_align (a : Z) : Prop := 1 <= a <= INT_MAX /\ IS_POW2_c a = true.
Definition valid_dim (w : Z) : Prop := 1 <= w <= INT_MAX.

(* ------------------------------------------------------------------ tables *)
Lemma samp_cases s : valid_samp s -> s = 0 \/ s = 1 \/ s = 2 \/ s = 3 \/ s = 4 \/ s = 5 \/ s = 6.
Proof. unfold valid_samp, TJ_NUMSAMP. lia. Qed.

Lemma hsf_pow2 s : valid_samp s ->
  exists j, 0 <= j <= 2 /\ Z.quot (tjMCUWidth s) 8 = 2 ^ j /\ tjMCUWidth s = 8 * 2 ^ j /\ hsf s = 2 ^ j.
Proof.
  intros H. destruct (samp_cases s H) as [->|[->|[->|[->|[->|[->| ->]]]]]];
    [exists 0|exists 1|exists 1|exists 0|exists 0|exists 2|exists 0]; (split; [lia|repeat split; reflexivity]).
Qed.

Lemma vsf_pow2 s : valid_samp s ->
  exists j, 0 <= j <= 2 /\ Z.quot (tjMCUHeight s) 8 = 2 ^ j /\ tjMCUHeight s = 8 * 2 ^ j /\ vsf s = 2 ^ j.
Proof.
  intros H. destruct (samp_cases s H) as [->|[->|[->|[->|[->|[->| ->]]]]]];
    [exists 0|exists 0|exists 1|exists 0|exists 1|exists 0|exists 2]; (split; [lia|repeat split; reflexivity]).
Qed.

Lemma pow2_small j : 0 <= j <= 2 -> 1 <= 2 ^ j <= 4.
Proof. intros. assert (j = 0 \/ j = 1 \/ j = 2) as [->|[->| ->]] by lia; cbn; lia. Qed.

Lemma pow2_pos k : 0 <= k -> 0 < 2 ^ k.
Proof. intros. apply Z.pow_pos_nonneg; lia. Qed.

(* alignments accepted by the API are exactly the powers of two up to 2^30 *)
Lemma valid_align_pow2 a : valid_align a -> exists k, 0 <= k <= 30 /\ a = 2 ^ k.
Proof.
  intros [[L U] P]. unfold IS_POW2_c in P. apply Z.eqb_eq in P.
  pose proof (is_pow2_inv a L P) as E. exists (Z.log2 a). split; [|exact E].
  split; [apply Z.log2_nonneg|].
  assert (Z.log2 a < 31); [|lia]. apply Z.log2_lt_pow2; [lia|]. unfold INT_MAX in U. change (2 ^ 31) with 2147483648. lia.
Qed.

Lemma pow2_valid_align k : 0 <= k <= 30 -> valid_align (2 ^ k).
Proof.
  intros Hk. split.
  - pose proof (pow2_pos k ltac:(lia)). assert (2 ^ k <= 2 ^ 30) by (apply Z.pow_le_mono_r; lia).
    change (2 ^ 30) with 1073741824 in *. unfold INT_MAX. lia.
  - unfold IS_POW2_c. rewrite is_pow2_pow2 by lia. reflexivity.
Qed.

Lemma align_bounds k : 0 <= k <= 30 -> 1 <= 2 ^ k <= 1073741824.
Proof.
  intros Hk. pose proof (pow2_pos k ltac:(lia)). assert (2 ^ k <= 2 ^ 30) by (apply Z.pow_le_mono_r; lia).
  change (2 ^ 30) with 1073741824 in *. lia.
Qed.

(* ------------------------------------------------------------------ the PAD macro *)
Lemma u64_small x : 0 <= x < 18446744073709551616 -> u64 x = x.
Proof. intros. unfold u64. apply Z.mod_small. assumption. Qed.

(* PAD on int operands (macro text, no overflow) *)
Lemma PAD_c_spec v k : 0 <= k -> PAD_c v (2 ^ k) = pad_up v (2 ^ k).
Proof. intros. unfold PAD_c. apply pad_trick. assumption. Qed.

(* PAD with an unsigned long long first operand: every step reduced mod 2^64 *)
Lemma pad_ull_shape v k : 0 <= k <= 62 -> 0 <= v -> v + 2 ^ k < 18446744073709551616 ->
  Z.land (u64 ((u64 (v + 2 ^ k)) - 1)) (u64 (Z.lnot (u64 (2 ^ k - 1)))) = pad_up v (2 ^ k).
Proof.
  intros Hk Hv Hs. pose proof (pow2_pos k ltac:(lia)) as Hp.
  rewrite (u64_small (v + 2 ^ k)) by lia.
  rewrite (u64_small (v + 2 ^ k - 1)) by lia.
  rewrite (u64_small (2 ^ k - 1)) by lia.
  unfold u64. change 18446744073709551616 with (2 ^ 64).
  rewrite land_mod_r by (change (2 ^ 64) with 18446744073709551616; lia).
  apply pad_trick. lia.
Qed.

Lemma PAD_ull_spec v k : 0 <= k <= 62 -> 0 <= v -> v + 2 ^ k < 18446744073709551616 ->
  PAD_ull v (2 ^ k) = pad_up v (2 ^ k).
Proof. intros. unfold PAD_ull. apply pad_ull_shape; assumption. Qed.

Lemma PAD_c_ok_iff v p : 1 <= p <= INT_MAX -> 0 <= v <= INT_MAX -> PAD_c_ok v p = (v + p <=? INT_MAX).
Proof. intros. unfold PAD_c_ok, in_int, INT_MIN, INT_MAX in *. lia. Qed.

(* ------------------------------------------------------------------ plane width / height *)
Lemma pw_luma_spec w s : valid_dim w -> valid_samp s -> pw_luma w s = pad_up w (hsf s).
Proof.
  intros Hw Hs. destruct (hsf_pow2 s Hs) as (j & Hj & Hq & _ & Hh).
  unfold pw_luma. rewrite Hq, Hh. pose proof (pow2_small j Hj). unfold valid_dim, INT_MAX in Hw.
  apply pad_ull_shape; lia.
Qed.

Lemma ph_luma_spec h s : valid_dim h -> valid_samp s -> ph_luma h s = pad_up h (vsf s).
Proof.
  intros Hw Hs. destruct (vsf_pow2 s Hs) as (j & Hj & Hq & _ & Hh).
  unfold ph_luma. rewrite Hq, Hh. pose proof (pow2_small j Hj). unfold valid_dim, INT_MAX in Hw.
  apply pad_ull_shape; lia.
Qed.

Lemma chroma_quot q j : 0 <= j <= 2 -> 0 <= q <= 2147483647 ->
  Z.quot (u64 (q * 2 ^ j * 8)) (8 * 2 ^ j) = q.
Proof.
  intros Hj Hq. pose proof (pow2_small j Hj).
  rewrite u64_small by nia.
  rewrite Z.quot_div_nonneg by nia.
  replace (q * 2 ^ j * 8) with (q * (8 * 2 ^ j)) by ring. apply Z.div_mul. lia.
Qed.

Lemma cdiv_dim_bounds w p : 1 <= p -> 1 <= w <= INT_MAX -> 1 <= cdiv w p <= INT_MAX.
Proof.
  intros Hp Hw. split; [apply cdiv_pos; lia|]. pose proof (cdiv_le w p ltac:(lia) ltac:(lia)). lia.
Qed.

Theorem plane_width_spec c w s : valid_dim w -> valid_samp s ->
  tj3YUVPlaneWidth c w s =
    if (0 <=? c) && (c <? ncomp s) then (if spec_pw c w s <=? INT_MAX then spec_pw c w s else 0) else 0.
Proof.
  intros Hw Hs. unfold tj3YUVPlaneWidth.
  assert (G : pw_guard w s = false) by (unfold pw_guard, valid_dim, valid_samp in *; lia).
  rewrite G. change (pw_nc s) with (ncomp s).
  unfold pw_compguard.
  destruct ((0 <=? c) && (c <? ncomp s)) eqn:Hc.
  2:{ assert (X : (c <? 0) || (c >=? ncomp s) = true) by lia. rewrite X. reflexivity. }
  assert (X : (c <? 0) || (c >=? ncomp s) = false) by lia. rewrite X.
  rewrite pw_luma_spec by assumption.
  destruct (hsf_pow2 s Hs) as (j & Hj & Hq & Ht & Hh). pose proof (pow2_small j Hj) as Hp.
  unfold pw_retval, pw_toolarge, spec_pw. rewrite Hh.
  destruct (c =? 0) eqn:Hc0.
  - destruct (pad_up w (2 ^ j) <=? INT_MAX) eqn:Hle.
    + assert (Y : pad_up w (2 ^ j) >? INT_MAX = false) by lia. rewrite Y. reflexivity.
    + assert (Y : pad_up w (2 ^ j) >? INT_MAX = true) by lia. rewrite Y. reflexivity.
  - rewrite Ht. unfold pad_up.
    pose proof (cdiv_dim_bounds w (2 ^ j) ltac:(lia) Hw) as B.
    rewrite chroma_quot by (unfold INT_MAX in B; lia).
    assert (Y : cdiv w (2 ^ j) >? INT_MAX = false) by lia. rewrite Y.
    assert (Z' : cdiv w (2 ^ j) <=? INT_MAX = true) by lia. rewrite Z'. reflexivity.
Qed.

Theorem plane_height_spec c h s : valid_dim h -> valid_samp s ->
  tj3YUVPlaneHeight c h s =
    if (0 <=? c) && (c <? ncomp s) then (if spec_ph c h s <=? INT_MAX then spec_ph c h s else 0) else 0.
Proof.
  intros Hw Hs. unfold tj3YUVPlaneHeight.
  assert (G : ph_guard h s = false) by (unfold ph_guard, valid_dim, valid_samp in *; lia).
  rewrite G. change (ph_nc s) with (ncomp s).
  unfold ph_compguard.
  destruct ((0 <=? c) && (c <? ncomp s)) eqn:Hc.
  2:{ assert (X : (c <? 0) || (c >=? ncomp s) = true) by lia. rewrite X. reflexivity. }
  assert (X : (c <? 0) || (c >=? ncomp s) = false) by lia. rewrite X.
  rewrite ph_luma_spec by assumption.
  destruct (vsf_pow2 s Hs) as (j & Hj & Hq & Ht & Hh). pose proof (pow2_small j Hj) as Hp.
  unfold ph_retval, ph_toolarge, spec_ph. rewrite Hh.
  destruct (c =? 0) eqn:Hc0.
  - destruct (pad_up h (2 ^ j) <=? INT_MAX) eqn:Hle.
    + assert (Y : pad_up h (2 ^ j) >? INT_MAX = false) by lia. rewrite Y. reflexivity.
    + assert (Y : pad_up h (2 ^ j) >? INT_MAX = true) by lia. rewrite Y. reflexivity.
  - rewrite Ht. unfold pad_up.
    pose proof (cdiv_dim_bounds h (2 ^ j) ltac:(lia) Hw) as B.
    rewrite chroma_quot by (unfold INT_MAX in B; lia).
    assert (Y : cdiv h (2 ^ j) >? INT_MAX = false) by lia. rewrite Y.
    assert (Z' : cdiv h (2 ^ j) <=? INT_MAX = true) by lia. rewrite Z'. reflexivity.
Qed.

(* invalid arguments give the error value *)
Theorem plane_width_invalid c w s : w < 1 \/ s < 0 \/ s >= TJ_NUMSAMP -> tj3YUVPlaneWidth c w s = 0.
Proof.
  intros H. unfold tj3YUVPlaneWidth. assert (G : pw_guard w s = true) by (unfold pw_guard; lia). rewrite G. reflexivity.
Qed.
Theorem plane_height_invalid c h s : h < 1 \/ s < 0 \/ s >= TJ_NUMSAMP -> tj3YUVPlaneHeight c h s = 0.
Proof.
  intros H. unfold tj3YUVPlaneHeight. assert (G : ph_guard h s = true) by (unfold ph_guard; lia). rewrite G. reflexivity.
Qed.

(* the chroma dimension is the luma one times 8 / mcu size, and it is the ceiling of w / hsf *)
Lemma spec_pw_chroma_from_luma w s : valid_samp s -> valid_dim w ->
  spec_pw 0 w s * 8 / tjMCUWidth s = spec_pw 1 w s /\
  (spec_pw 1 w s - 1) * hsf s < w <= spec_pw 1 w s * hsf s /\
  spec_pw 0 w s = spec_pw 1 w s * hsf s /\ spec_pw 2 w s = spec_pw 1 w s.
Proof.
  intros Hs Hw. destruct (hsf_pow2 s Hs) as (j & Hj & Hq & Ht & Hh). pose proof (pow2_small j Hj).
  unfold spec_pw. cbn [Z.eqb]. rewrite Hh, Ht. unfold pad_up. repeat split.
  - replace (cdiv w (2 ^ j) * 2 ^ j * 8) with (cdiv w (2 ^ j) * (8 * 2 ^ j)) by ring. apply Z.div_mul. lia.
  - apply cdiv_spec. lia.
  - apply cdiv_spec. lia.
Qed.

Lemma spec_ph_chroma_from_luma h s : valid_samp s -> valid_dim h ->
  spec_ph 0 h s * 8 / tjMCUHeight s = spec_ph 1 h s /\
  (spec_ph 1 h s - 1) * vsf s < h <= spec_ph 1 h s * vsf s /\
  spec_ph 0 h s = spec_ph 1 h s * vsf s /\ spec_ph 2 h s = spec_ph 1 h s.
Proof.
  intros Hs Hw. destruct (vsf_pow2 s Hs) as (j & Hj & Hq & Ht & Hh). pose proof (pow2_small j Hj).
  unfold spec_ph. cbn [Z.eqb]. rewrite Hh, Ht. unfold pad_up. repeat split.
  - replace (cdiv h (2 ^ j) * 2 ^ j * 8) with (cdiv h (2 ^ j) * (8 * 2 ^ j)) by ring. apply Z.div_mul. lia.
  - apply cdiv_spec. lia.
  - apply cdiv_spec. lia.
Qed.

(* bounds used everywhere below *)
Lemma spec_pw_bounds c w s : valid_samp s -> valid_dim w -> 1 <= spec_pw c w s <= w + 3 /\ spec_pw c w s <= spec_pw 0 w s.
Proof.
  intros Hs Hw. destruct (hsf_pow2 s Hs) as (j & Hj & _ & _ & Hh). pose proof (pow2_small j Hj).
  unfold spec_pw. rewrite Hh. cbn [Z.eqb].
  pose proof (pad_up_bounds w (2 ^ j) ltac:(lia)). pose proof (cdiv_dim_bounds w (2 ^ j) ltac:(lia) Hw).
  pose proof (cdiv_le w (2 ^ j) ltac:(lia) ltac:(unfold valid_dim in Hw; lia)).
  unfold valid_dim in Hw. destruct (c =? 0); [lia|]. unfold pad_up in *. nia.
Qed.

Lemma spec_ph_bounds c h s : valid_samp s -> valid_dim h -> 1 <= spec_ph c h s <= h + 3 /\ spec_ph c h s <= spec_ph 0 h s.
Proof.
  intros Hs Hw. destruct (vsf_pow2 s Hs) as (j & Hj & _ & _ & Hh). pose proof (pow2_small j Hj).
  unfold spec_ph. rewrite Hh. cbn [Z.eqb].
  pose proof (pad_up_bounds h (2 ^ j) ltac:(lia)). pose proof (cdiv_dim_bounds h (2 ^ j) ltac:(lia) Hw).
  pose proof (cdiv_le h (2 ^ j) ltac:(lia) ltac:(unfold valid_dim in Hw; lia)).
  unfold valid_dim in Hw. destruct (c =? 0); [lia|]. unfold pad_up in *. nia.
Qed.

(* ------------------------------------------------------------------ codec-path plane dimensions *)
Lemma pad_math_shape v k : 0 <= k -> Z.land ((v + 2 ^ k) - 1) (Z.lnot (2 ^ k - 1)) = pad_up v (2 ^ k).
Proof. apply pad_trick. Qed.

Theorem codec_plane_dims c w h s : valid_samp s -> valid_dim w -> valid_dim h -> 0 <= c < 3 ->
  cfp_plane_w c w s = spec_pw c w s /\ cfp_plane_h c h s = spec_ph c h s /\
  enc_plane_w c w s = spec_pw c w s /\ enc_plane_h c h s = spec_ph c h s /\
  dec_plane_w c w s = spec_pw c w s /\ dec_plane_h c h s = spec_ph c h s.
Proof.
  intros Hs Hw Hh Hc.
  destruct (hsf_pow2 s Hs) as (j & Hj & Hq & _ & Hhs). destruct (vsf_pow2 s Hs) as (i & Hi & Hqv & _ & Hvs).
  pose proof (pow2_small j Hj). pose proof (pow2_small i Hi).
  pose proof (cdiv_dim_bounds w (2 ^ j) ltac:(lia) Hw). pose proof (cdiv_dim_bounds h (2 ^ i) ltac:(lia) Hh).
  unfold cfp_plane_w, cfp_plane_h, enc_plane_w, enc_plane_h, dec_plane_w, dec_plane_h,
    cfp_pw, cfp_ph, enc_pw, enc_ph, enc_pw0, enc_ph0, dec_pw, dec_ph, dec_pw0, dec_ph0,
    comp_hsamp0, comp_vsamp0, dec_hsamp0, dec_vsamp0, spec_pw, spec_ph.
  rewrite Hq, Hqv, Hhs, Hvs, !pad_math_shape by lia. unfold pad_up.
  destruct (c =? 0).
  - rewrite !Z.quot_div_nonneg by nia.
    replace (cdiv w (2 ^ j) * 2 ^ j * 2 ^ j / 2 ^ j) with (cdiv w (2 ^ j) * 2 ^ j) by (symmetry; apply Z.div_mul; lia).
    replace (cdiv h (2 ^ i) * 2 ^ i * 2 ^ i / 2 ^ i) with (cdiv h (2 ^ i) * 2 ^ i) by (symmetry; apply Z.div_mul; lia).
    repeat split; reflexivity.
  - rewrite !Z.mul_1_r. rewrite !Z.quot_div_nonneg by nia. rewrite !Z.div_mul by lia. repeat split; reflexivity.
Qed.

(* ------------------------------------------------------------------ strides *)
Lemma bs_stride_spec pw k : 0 <= k <= 30 -> 0 <= pw <= INT_MAX -> bs_stride pw (2 ^ k) = pad_up pw (2 ^ k).
Proof.
  intros Hk Hp. unfold bs_stride. pose proof (align_bounds k Hk). unfold INT_MAX in Hp. apply pad_ull_shape; lia.
Qed.

Lemma stride_mono p q a : 0 < a -> p <= q -> pad_up p a <= pad_up q a.
Proof. intros Ha H. unfold pad_up. pose proof (cdiv_mono p q a Ha H). nia. Qed.

(* ------------------------------------------------------------------ tj3YUVBufSize *)
Definition dims_fit (w h s : Z) : bool := (spec_pw 0 w s <=? INT_MAX) && (spec_ph 0 h s <=? INT_MAX).
Definition strides_fit (w a s : Z) : bool := spec_stride 0 w a s <=? INT_MAX.
Definition valid_abi (ulbits szbits : Z) : Prop := (ulbits = 32 \/ ulbits = 64) /\ ulbits <= szbits <= 64.

Lemma to_size_t_id szbits x ulbits : valid_abi ulbits szbits -> 0 <= x ->
  (ulbits < 64 -> x <= ULONG_MAX ulbits) -> x < 2 ^ 64 -> to_size_t szbits x = x.
Proof.
  intros [[->| ->] Hz] Hx Hu Hlt; unfold to_size_t; apply Z.mod_small; split; try lia.
  - specialize (Hu ltac:(lia)). unfold ULONG_MAX in Hu. assert (2 ^ 32 <= 2 ^ szbits) by (apply Z.pow_le_mono_r; lia). lia.
  - assert (szbits = 64) as -> by lia. lia.
Qed.

Lemma plane_term_bound st ph : 0 <= st <= INT_MAX -> 0 <= ph <= INT_MAX -> 0 <= st * ph < 4611686018427387904.
Proof. unfold INT_MAX. nia. Qed.

Definition plane_fits (i w a h s : Z) : bool :=
  (spec_pw i w s <=? INT_MAX) && (spec_ph i h s <=? INT_MAX) && (spec_stride i w a s <=? INT_MAX).

Lemma spec_stride_nonneg i w k s : valid_samp s -> valid_dim w -> 0 <= k ->
  spec_pw i w s <= spec_stride i w (2 ^ k) s.
Proof.
  intros. unfold spec_stride. pose proof (pad_up_bounds (spec_pw i w s) (2 ^ k) (pow2_pos k ltac:(lia))). lia.
Qed.

(* one loop iteration *)
Lemma bs_loop_step n i acc w k h s :
  valid_samp s -> valid_dim w -> valid_dim h -> 0 <= k <= 30 -> 0 <= i < ncomp s ->
  0 <= acc < 3 * 4611686018427387904 ->
  bs_loop (S n) i acc w (2 ^ k) h s =
    if plane_fits i w (2 ^ k) h s
    then bs_loop n (i + 1) (acc + plane_bytes i w (2 ^ k) h s) w (2 ^ k) h s
    else Return0.
Proof.
  intros Hs Hw Hh Hk Hi Hacc. cbn [bs_loop].
  rewrite plane_width_spec, plane_height_spec by assumption.
  assert (X : (0 <=? i) && (i <? ncomp s) = true) by lia. rewrite X.
  pose proof (spec_pw_bounds i w s Hs Hw) as [Bw Bw0]. pose proof (spec_ph_bounds i h s Hs Hh) as [Bh Bh0].
  unfold plane_fits, bs_zero.
  destruct (spec_pw i w s <=? INT_MAX) eqn:E1; cbn [andb].
  2:{ reflexivity. }
  destruct (spec_ph i h s <=? INT_MAX) eqn:E2; cbn [andb].
  2:{ assert (Y2 : (spec_pw i w s =? 0) || (0 =? 0) = true) by lia. rewrite Y2. reflexivity. }
  assert (Y : (spec_pw i w s =? 0) || (spec_ph i h s =? 0) = false) by lia. rewrite Y.
  rewrite bs_stride_spec by lia. unfold bs_stride_toolarge. fold (spec_stride i w (2 ^ k) s).
  pose proof (spec_stride_nonneg i w k s Hs Hw ltac:(lia)).
  destruct (spec_stride i w (2 ^ k) s <=? INT_MAX) eqn:E5.
  - assert (Y5 : spec_stride i w (2 ^ k) s >? INT_MAX = false) by lia. rewrite Y5.
    unfold bs_term, plane_bytes.
    pose proof (plane_term_bound (spec_stride i w (2 ^ k) s) (spec_ph i h s) ltac:(lia) ltac:(lia)).
    rewrite (u64_small (spec_stride i w (2 ^ k) s * spec_ph i h s)) by lia.
    rewrite u64_small by lia. reflexivity.
  - assert (Y5 : spec_stride i w (2 ^ k) s >? INT_MAX = true) by lia. rewrite Y5. reflexivity.
Qed.

(* chroma planes fit whenever the luma plane does *)
Lemma chroma_fits i w k h s : valid_samp s -> valid_dim w -> valid_dim h -> 0 <= k ->
  plane_fits 0 w (2 ^ k) h s = true -> plane_fits i w (2 ^ k) h s = true.
Proof.
  intros Hs Hw Hh Hk H. unfold plane_fits in *.
  pose proof (spec_pw_bounds i w s Hs Hw) as [_ B1]. pose proof (spec_ph_bounds i h s Hs Hh) as [_ B2].
  pose proof (stride_mono _ _ (2 ^ k) (pow2_pos k Hk) B1) as B3. unfold spec_stride in *. lia.
Qed.

Lemma plane_bytes_bound i w k h s : valid_samp s -> valid_dim w -> valid_dim h -> 0 <= k ->
  plane_fits i w (2 ^ k) h s = true -> 0 <= plane_bytes i w (2 ^ k) h s < 4611686018427387904.
Proof.
  intros Hs Hw Hh Hk H. unfold plane_fits in H. unfold plane_bytes.
  pose proof (spec_pw_bounds i w s Hs Hw) as [B1 _]. pose proof (spec_ph_bounds i h s Hs Hh) as [B2 _].
  pose proof (spec_stride_nonneg i w k s Hs Hw Hk).
  apply plane_term_bound; lia.
Qed.

(* the value returned when nothing overflows *)
Definition bufsize_result (ulbits w a h s : Z) : Z :=
  if plane_fits 0 w a h s
  then (if ulong_check ulbits (spec_total w a h s) then 0 else spec_total w a h s)
  else 0.

Theorem bufsize_spec ulbits szbits w a h s :
  valid_abi ulbits szbits -> valid_samp s -> valid_dim w -> valid_dim h -> valid_align a ->
  tj3YUVBufSize ulbits szbits w a h s = bufsize_result ulbits w a h s.
Proof.
  intros Habi Hs Hw Hh Ha. destruct (valid_align_pow2 a Ha) as (k & Hk & ->).
  unfold tj3YUVBufSize, bufsize_result.
  assert (G : bs_guard (2 ^ k) s = false).
  { destruct Ha as [Ha1 Ha2]. unfold bs_guard. unfold IS_POW2_c in Ha2. unfold valid_samp in Hs.
    rewrite Ha2. cbn [negb]. lia. }
  rewrite G. change (bs_nc s) with (ncomp s). unfold spec_total, ncomp.
  destruct (s =? TJSAMP_GRAY) eqn:Hg.
  - change (Z.to_nat 1) with 1%nat.
    rewrite bs_loop_step by (try assumption; unfold ncomp; try rewrite Hg; lia).
    destruct (plane_fits 0 w (2 ^ k) h s) eqn:F0; [|reflexivity].
    cbn [bs_loop]. rewrite Z.add_0_l.
    pose proof (plane_bytes_bound 0 w k h s Hs Hw Hh ltac:(lia) F0).
    destruct (ulong_check ulbits (plane_bytes 0 w (2 ^ k) h s)) eqn:U; [reflexivity|].
    apply (to_size_t_id _ _ ulbits); try assumption; try lia.
    intros Hlt. unfold ulong_check in U. lia.
  - change (Z.to_nat 3) with 3%nat.
    rewrite bs_loop_step by (try assumption; unfold ncomp; try rewrite Hg; lia).
    destruct (plane_fits 0 w (2 ^ k) h s) eqn:F0; [|reflexivity].
    pose proof (chroma_fits 1 w k h s Hs Hw Hh ltac:(lia) F0) as F1.
    pose proof (chroma_fits 2 w k h s Hs Hw Hh ltac:(lia) F0) as F2.
    pose proof (plane_bytes_bound 0 w k h s Hs Hw Hh ltac:(lia) F0).
    pose proof (plane_bytes_bound 1 w k h s Hs Hw Hh ltac:(lia) F1).
    pose proof (plane_bytes_bound 2 w k h s Hs Hw Hh ltac:(lia) F2).
    change (0 + 1) with 1. rewrite Z.add_0_l.
    rewrite bs_loop_step by (try assumption; unfold ncomp; try rewrite Hg; lia). rewrite F1.
    change (1 + 1) with 2.
    rewrite bs_loop_step by (try assumption; unfold ncomp; try rewrite Hg; lia). rewrite F2.
    cbn [bs_loop].
    destruct (ulong_check ulbits _) eqn:U; [reflexivity|].
    apply (to_size_t_id _ _ ulbits); try assumption; try lia.
    intros Hlt. unfold ulong_check in U. lia.
Qed.

(* invalid arguments: error value *)
Theorem bufsize_invalid ulbits szbits w a h s :
  a < 1 \/ IS_POW2_c a = false \/ s < 0 \/ s >= TJ_NUMSAMP -> tj3YUVBufSize ulbits szbits w a h s = 0.
Proof.
  intros H. unfold tj3YUVBufSize.
  assert (G : bs_guard a s = true).
  { unfold bs_guard. unfold IS_POW2_c in H. destruct (Z.land a (a - 1) =? 0); cbn [negb]; lia. }
  rewrite G. reflexivity.
Qed.

Theorem bufsize_invalid_dims ulbits szbits w a h s : valid_samp s -> w < 1 \/ h < 1 ->
  tj3YUVBufSize ulbits szbits w a h s = 0.
Proof.
  intros Hs H. unfold tj3YUVBufSize. destruct (bs_guard a s); [reflexivity|].
  assert (N : exists n, Z.to_nat (bs_nc s) = S n).
  { unfold bs_nc. destruct (s =? TJSAMP_GRAY); [exists 0%nat|exists 2%nat]; reflexivity. }
  destruct N as [n ->]. cbn [bs_loop].
  destruct H as [H|H].
  - rewrite (plane_width_invalid 0 w s) by lia. unfold bs_zero. cbn. reflexivity.
  - rewrite (plane_height_invalid 0 h s) by lia. unfold bs_zero. rewrite Z.eqb_refl, orb_true_r. reflexivity.
Qed.

(* ------------------------------------------------------------------ tj3YUVPlaneSize *)
Definition eff_stride (stride pw : Z) : Z := if stride =? 0 then pw else Z.abs stride.
Definition plane_size (c w stride h s : Z) : Z :=
  eff_stride stride (spec_pw c w s) * (spec_ph c h s - 1) + spec_pw c w s.

Theorem planesize_spec ulbits szbits c w stride h s :
  valid_abi ulbits szbits -> valid_samp s -> valid_dim w -> valid_dim h -> 0 <= c < ncomp s ->
  INT_MIN <= stride <= INT_MAX ->
  tj3YUVPlaneSize ulbits szbits c w stride h s =
    if stride =? INT_MIN then Val 0 else
    if (spec_pw c w s <=? INT_MAX) && (spec_ph c h s <=? INT_MAX)
    then Val (if ulong_check ulbits (plane_size c w stride h s) then 0 else plane_size c w stride h s)
    else Val 0.
Proof.
  intros Habi Hs Hw Hh Hc Hst. unfold tj3YUVPlaneSize.
  unfold ps_guard.
  destruct (stride =? INT_MIN) eqn:Em.
  { rewrite orb_true_r. reflexivity. }
  assert (G : (w <? 1) || (h <? 1) || (s <? 0) || (s >=? TJ_NUMSAMP) || false = false)
    by (unfold valid_dim, valid_samp in *; lia).
  rewrite G. clear G.
  rewrite plane_width_spec, plane_height_spec by assumption.
  assert (X : (0 <=? c) && (c <? ncomp s) = true) by lia. rewrite X.
  pose proof (spec_pw_bounds c w s Hs Hw) as [Bw _]. pose proof (spec_ph_bounds c h s Hs Hh) as [Bh _].
  unfold ps_zero.
  destruct (spec_pw c w s <=? INT_MAX) eqn:E1; cbn [andb].
  2:{ cbn. reflexivity. }
  destruct (spec_ph c h s <=? INT_MAX) eqn:E2.
  2:{ rewrite Z.eqb_refl, orb_true_r. reflexivity. }
  assert (Y : (spec_pw c w s =? 0) || (spec_ph c h s =? 0) = false) by lia. rewrite Y.
  assert (OK : ps_stride_ok stride (spec_pw c w s) = true).
  { unfold ps_stride_ok, in_int, INT_MIN, INT_MAX in *. lia. }
  rewrite OK. cbn [negb].
  unfold ps_retval, ps_stride. fold (eff_stride stride (spec_pw c w s)).
  assert (Be : 0 <= eff_stride stride (spec_pw c w s) <= INT_MAX).
  { unfold eff_stride. destruct (stride =? 0); unfold INT_MIN, INT_MAX in *; lia. }
  rewrite (u64_small (spec_ph c h s - 1)) by (unfold INT_MAX in *; lia).
  pose proof (plane_term_bound _ (spec_ph c h s - 1) Be ltac:(lia)).
  rewrite (u64_small (_ * _)) by lia.
  rewrite u64_small by (unfold INT_MAX in *; lia).
  fold (plane_size c w stride h s).
  destruct (ulong_check ulbits (plane_size c w stride h s)) eqn:U; [reflexivity|].
  f_equal. apply (to_size_t_id _ _ ulbits); try assumption; unfold plane_size; unfold INT_MAX in *; try lia.
  intros Hlt. unfold ulong_check in U. fold (plane_size c w stride h s). lia.
Qed.

Theorem planesize_invalid ulbits szbits c w stride h s :
  w < 1 \/ h < 1 \/ s < 0 \/ s >= TJ_NUMSAMP \/ stride = INT_MIN ->
  tj3YUVPlaneSize ulbits szbits c w stride h s = Val 0.
Proof.
  intros H. unfold tj3YUVPlaneSize. assert (G : ps_guard w h s stride = true) by (unfold ps_guard; lia).
  rewrite G. reflexivity.
Qed.

(* ------------------------------------------------------------------ layout of the unified buffer *)
Section Layout.
  Variables w a h s : Z.
  Hypothesis Hs : valid_samp s.
  Hypothesis Hw : valid_dim w.
  Hypothesis Hh : valid_dim h.
  Hypothesis Ha : valid_align a.

  Let S (i : Z) := spec_stride i w a s.
  Let PW (i : Z) := spec_pw i w s.
  Let PH (i : Z) := spec_ph i h s.

  Lemma stride_ge_pw i : 1 <= PW i <= S i /\ 1 <= PH i.
  Proof.
    subst S PW PH. cbv beta. destruct (valid_align_pow2 a Ha) as (k & Hk & ->).
    pose proof (spec_pw_bounds i w s Hs Hw) as [B _]. pose proof (spec_ph_bounds i h s Hs Hh) as [B' _].
    pose proof (spec_stride_nonneg i w k s Hs Hw ltac:(lia)). lia.
  Qed.

  (* a plane with the default (aligned) stride occupies at most stride*ph bytes *)
  Lemma plane_size_le_bytes i : plane_size i w (S i) h s <= plane_bytes i w a h s /\
                                plane_size i w (S i) h s = S i * (PH i - 1) + PW i.
  Proof.
    pose proof (stride_ge_pw i) as (B1 & B2). subst S PW PH. cbv beta in *.
    unfold plane_size, plane_bytes, eff_stride.
    destruct (spec_stride i w a s =? 0) eqn:E; [lia|]. rewrite Z.abs_eq by lia. split; [nia|reflexivity].
  Qed.

  (* consecutive offsets, pairwise disjointness and containment *)
  Theorem layout_offsets :
    spec_off 0 w a h s = 0 /\
    spec_off 1 w a h s = spec_off 0 w a h s + plane_bytes 0 w a h s /\
    spec_off 2 w a h s = spec_off 1 w a h s + plane_bytes 1 w a h s /\
    (forall i, 0 <= i < ncomp s -> 0 <= spec_off i w a h s /\
        spec_off i w a h s + plane_bytes i w a h s <= spec_total w a h s) /\
    (forall i j, 0 <= i -> i < j -> j < ncomp s ->
        spec_off i w a h s + plane_bytes i w a h s <= spec_off j w a h s).
  Proof.
    assert (P : forall i, 0 < plane_bytes i w a h s).
    { intros i. pose proof (stride_ge_pw i) as (B1 & B2). subst S PW PH. cbv beta in *. unfold plane_bytes. nia. }
    pose proof (P 0). pose proof (P 1). pose proof (P 2). clear P. clear S PW PH. clear Hs Hw Hh Ha.
    assert (FIN : forall b0 b1 b2, 0 < b0 -> 0 < b1 -> 0 < b2 ->
      (0 <= 0 /\ 0 + b0 <= b0) /\ (0 <= 0 /\ 0 + b0 <= b0 + b1 + b2) /\ (0 <= b0 /\ b0 + b1 <= b0 + b1 + b2) /\
      (0 <= b0 + b1 /\ b0 + b1 + b2 <= b0 + b1 + b2) /\ 0 + b0 <= b0 /\ 0 + b0 <= b0 + b1 /\ b0 + b1 <= b0 + b1) by (intros; lia).
    specialize (FIN _ _ _ H H0 H1). destruct FIN as (F1 & F2 & F3 & F4 & F5 & F6 & F7).
    split; [reflexivity|]. split; [reflexivity|]. split; [reflexivity|]. split.
    - intros i Hi. unfold spec_off, spec_total, ncomp in *. revert Hi. destruct (s =? TJSAMP_GRAY); intros Hi.
      + assert (i = 0) as -> by lia. exact F1.
      + assert (i = 0 \/ i = 1 \/ i = 2) as [->|[->| ->]] by lia; cbn [Z.eqb]; assumption.
    - intros i j Hi Hij Hj. unfold spec_off, ncomp in *. revert Hj. destruct (s =? TJSAMP_GRAY); intros Hj; [lia|].
      assert ((i = 0 /\ j = 1) \/ (i = 0 /\ j = 2) \/ (i = 1 /\ j = 2)) as [[-> ->]|[[-> ->]|[-> ->]]] by lia; cbn [Z.eqb]; assumption.
  Qed.

  (* every sample (row r, column c) of plane i has its own address inside the plane's extent *)
  Theorem sample_addresses i r c : 0 <= r < PH i -> 0 <= c < PW i ->
    0 <= r * S i + c < plane_size i w (S i) h s.
  Proof.
    intros Hr Hc. pose proof (stride_ge_pw i) as (B1 & B2). destruct (plane_size_le_bytes i) as [_ ->]. nia.
  Qed.

  Theorem sample_addresses_injective i r c r' c' :
    0 <= r -> 0 <= r' -> 0 <= c < PW i -> 0 <= c' < PW i -> r * S i + c = r' * S i + c' -> r = r' /\ c = c'.
  Proof.
    intros Hr Hr' Hc Hc' E. pose proof (stride_ge_pw i) as (B1 & B2).
    assert (r = r') by nia. subst. split; lia.
  Qed.
End Layout.

(* ------------------------------------------------------------------ unified-buffer functions *)
Definition uni_canonical (f : uni_fn) : Prop :=
  (forall w a h, 1 <= w -> 1 <= h -> 1 <= a -> IS_POW2_c a = true -> u_argguard f w a h = false) /\
  (forall w a h, a < 1 \/ IS_POW2_c a = false -> u_argguard f w a h = true) /\
  u_unknown f = (fun s => s =? TJSAMP_UNKNOWN) /\
  u_padguard f = (fun pw0 ph0 align => (pw0 =? 0) || (ph0 =? 0) || (pw0 >? INT_MAX - align)) /\
  u_stride0 f = PAD_c /\ u_stride0_ok f = PAD_c_ok /\ u_stride1 f = PAD_c /\ u_stride1_ok f = PAD_c_ok /\
  u_toolarge f = (fun s0 ph0 s1 ph1 => (u64 (s0 * ph0) >? INT_MAX) || (u64 (s1 * ph1) >? INT_MAX)) /\
  u_off1 f = Z.mul /\ u_off1_ok f = (fun x y => in_int (x * y)) /\
  u_off2 f = Z.mul /\ u_off2_ok f = (fun x y => in_int (x * y)).

Lemma unified_fns_canonical : Forall uni_canonical unified_fns.
Proof.
  repeat constructor;
    try (intros w a h; cbn; unfold uCompressFromYUV8_argguard, uEncodeYUV8_argguard, uDecompressToYUV8_argguard, uDecodeYUV8_argguard, IS_POW2_c;
         intros; destruct (Z.land a (a - 1) =? 0) eqn:E; cbn [negb]; lia).
Qed.

Definition unified_result (w a h s : Z) : ures :=
  if plane_fits 0 w a h s && (spec_pw 0 w s + a <=? INT_MAX) then
    if s =? TJSAMP_GRAY then ULayout [Some 0; None; None] [spec_stride 0 w a s; 0; 0]
    else if (plane_bytes 0 w a h s >? INT_MAX) || (plane_bytes 1 w a h s >? INT_MAX) then UErr
    else ULayout [Some (spec_off 0 w a h s); Some (spec_off 1 w a h s); Some (spec_off 2 w a h s)]
                 [spec_stride 0 w a s; spec_stride 1 w a s; spec_stride 2 w a s]
  else UErr.

Lemma pad_guard_implies_stride_fits w k s : valid_samp s -> valid_dim w -> 0 <= k <= 30 ->
  spec_pw 0 w s + 2 ^ k <= INT_MAX -> spec_stride 0 w (2 ^ k) s <= INT_MAX.
Proof.
  intros Hs Hw Hk H. unfold spec_stride. pose proof (pad_up_bounds (spec_pw 0 w s) (2 ^ k) (pow2_pos k ltac:(lia))). lia.
Qed.

Theorem unified_layout_spec f w a h s :
  In f unified_fns -> valid_samp s -> valid_dim w -> valid_dim h -> valid_align a ->
  unified_layout f w a h s = unified_result w a h s.
Proof.
  intros Hin Hs Hw Hh Ha.
  pose proof (proj1 (Forall_forall _ _) unified_fns_canonical f Hin) as (G1 & G2 & G3 & C1 & C2 & C3 & C4 & C5 & C6 & C7 & C8 & C9 & C10).
  pose proof Ha as [[Ha1 Ha2] Ha3].
  destruct (valid_align_pow2 a Ha) as (k & Hk & ->). pose proof (align_bounds k Hk) as Bk.
  unfold unified_layout, unified_result.
  rewrite G1 by (unfold valid_dim in *; try assumption; lia). rewrite G3.
  assert (G : s =? TJSAMP_UNKNOWN = false) by (unfold valid_samp, TJSAMP_UNKNOWN in *; lia). rewrite G. clear G.
  rewrite !plane_width_spec, !plane_height_spec by assumption.
  unfold tjPlaneWidth, tjPlaneHeight. rewrite !plane_width_spec, !plane_height_spec by assumption.
  assert (N : 0 <? ncomp s = true) by (unfold ncomp; destruct (s =? TJSAMP_GRAY); reflexivity).
  rewrite N. change (0 <=? 0) with true. change (0 <=? 1) with true. cbn [andb].
  pose proof (spec_pw_bounds 0 w s Hs Hw) as [Bw _]. pose proof (spec_ph_bounds 0 h s Hs Hh) as [Bh _].
  pose proof (spec_pw_bounds 1 w s Hs Hw) as [Bw1 Bw10]. pose proof (spec_ph_bounds 1 h s Hs Hh) as [Bh1 Bh10].
  rewrite C1, C2, C3, C4, C5, C6, C7, C8, C9, C10. cbv beta.
  unfold plane_fits.
  destruct (spec_pw 0 w s <=? INT_MAX) eqn:E1; cbn [andb].
  2:{ cbn. reflexivity. }
  destruct (spec_ph 0 h s <=? INT_MAX) eqn:E2; cbn [andb].
  2:{ rewrite Z.eqb_refl, orb_true_r. cbn. reflexivity. }
  destruct (spec_pw 0 w s + 2 ^ k <=? INT_MAX) eqn:E3.
  2:{ assert (Y : (spec_pw 0 w s =? 0) || (spec_ph 0 h s =? 0) || (spec_pw 0 w s >? INT_MAX - 2 ^ k) = true) by lia.
      rewrite Y. rewrite andb_false_r. reflexivity. }
  assert (Y : (spec_pw 0 w s =? 0) || (spec_ph 0 h s =? 0) || (spec_pw 0 w s >? INT_MAX - 2 ^ k) = false) by lia.
  rewrite Y. clear Y.
  pose proof (pad_guard_implies_stride_fits w k s Hs Hw Hk ltac:(lia)) as F0.
  assert (Y : spec_stride 0 w (2 ^ k) s <=? INT_MAX = true) by lia. rewrite Y. clear Y. cbn [andb].
  rewrite PAD_c_ok_iff by (unfold INT_MAX in *; lia).
  rewrite E3. cbn [negb].
  rewrite PAD_c_spec by lia. fold (spec_stride 0 w (2 ^ k) s).
  destruct (s =? TJSAMP_GRAY) eqn:Eg; [reflexivity|].
  assert (N1 : 1 <? ncomp s = true) by (unfold ncomp; rewrite Eg; reflexivity). rewrite N1. cbn [andb].
  assert (Y : spec_pw 1 w s <=? INT_MAX = true) by lia. rewrite Y. clear Y.
  assert (Y : spec_ph 1 h s <=? INT_MAX = true) by lia. rewrite Y. clear Y.
  assert (Y : spec_pw 1 w s =? 0 = false) by lia. rewrite Y. clear Y.
  assert (Y : spec_ph 1 h s =? 0 = false) by lia. rewrite Y. clear Y.
  assert (Y : forall b : bool, (if b then spec_pw 1 w s else spec_pw 1 w s) = spec_pw 1 w s) by (intros []; reflexivity).
  rewrite Y. clear Y.
  assert (Y : forall b : bool, (if b then spec_ph 1 h s else spec_ph 1 h s) = spec_ph 1 h s) by (intros []; reflexivity).
  rewrite Y. clear Y.
  rewrite PAD_c_ok_iff by (unfold INT_MAX in *; lia).
  assert (Y : spec_pw 1 w s + 2 ^ k <=? INT_MAX = true) by lia. rewrite Y. clear Y. cbn [negb].
  rewrite PAD_c_spec by lia. fold (spec_stride 1 w (2 ^ k) s).
  pose proof (spec_stride_nonneg 0 w k s Hs Hw ltac:(lia)). pose proof (spec_stride_nonneg 1 w k s Hs Hw ltac:(lia)).
  assert (F1 : spec_stride 1 w (2 ^ k) s <= spec_stride 0 w (2 ^ k) s).
  { unfold spec_stride. apply stride_mono; [apply pow2_pos|]; lia. }
  pose proof (plane_term_bound (spec_stride 0 w (2 ^ k) s) (spec_ph 0 h s) ltac:(lia) ltac:(lia)).
  pose proof (plane_term_bound (spec_stride 1 w (2 ^ k) s) (spec_ph 1 h s) ltac:(lia) ltac:(lia)).
  rewrite !u64_small by lia. fold (plane_bytes 0 w (2 ^ k) h s). fold (plane_bytes 1 w (2 ^ k) h s).
  destruct ((plane_bytes 0 w (2 ^ k) h s >? INT_MAX) || (plane_bytes 1 w (2 ^ k) h s >? INT_MAX)) eqn:T; [reflexivity|].
  assert (Y : in_int (plane_bytes 0 w (2 ^ k) h s) = true) by (unfold in_int, INT_MIN, plane_bytes in *; lia). rewrite Y. clear Y.
  assert (Y : in_int (plane_bytes 1 w (2 ^ k) h s) = true) by (unfold in_int, INT_MIN, plane_bytes in *; lia). rewrite Y. clear Y.
  cbn [negb orb]. unfold spec_off. cbn [Z.eqb]. rewrite Z.add_0_l.
  assert (E12 : spec_stride 2 w (2 ^ k) s = spec_stride 1 w (2 ^ k) s) by reflexivity. rewrite E12. reflexivity.
Qed.

(* invalid arguments are rejected before anything is computed *)
Theorem unified_layout_invalid f w a h s : In f unified_fns ->
  w < 1 \/ h < 1 \/ a < 1 \/ IS_POW2_c a = false \/ s = TJSAMP_UNKNOWN -> unified_layout f w a h s = UErr.
Proof.
  intros Hin H.
  pose proof (proj1 (Forall_forall _ _) unified_fns_canonical f Hin) as (G1 & G2 & G3 & C1 & _).
  unfold unified_layout. destruct (u_argguard f w a h) eqn:G; [reflexivity|].
  rewrite G3. destruct (s =? TJSAMP_UNKNOWN) eqn:U; [reflexivity|].
  destruct H as [H|[H|[H|[H|H]]]]; try (rewrite G2 in G by tauto; discriminate); try lia.
  - rewrite (plane_width_invalid 0 w s) by lia. rewrite C1. reflexivity.
  - rewrite (plane_height_invalid 0 h s) by lia. rewrite C1. cbn [Z.eqb]. rewrite orb_true_r. reflexivity.
Qed.

(* ------------------------------------------------------------------ overflow checks, as equivalences *)
Lemma plane_bytes_pos i w a h s : valid_samp s -> valid_dim w -> valid_dim h -> valid_align a -> 0 < plane_bytes i w a h s.
Proof.
  intros Hs Hw Hh Ha. pose proof (stride_ge_pw w a h s Hs Hw Hh Ha i) as (B1 & B2). cbv beta in *. unfold plane_bytes. nia.
Qed.

Lemma spec_total_pos w a h s : valid_samp s -> valid_dim w -> valid_dim h -> valid_align a -> 0 < spec_total w a h s.
Proof.
  intros Hs Hw Hh Ha. pose proof (plane_bytes_pos 0 w a h s Hs Hw Hh Ha). pose proof (plane_bytes_pos 1 w a h s Hs Hw Hh Ha).
  pose proof (plane_bytes_pos 2 w a h s Hs Hw Hh Ha). unfold spec_total. destruct (s =? TJSAMP_GRAY); lia.
Qed.

Theorem plane_width_error_iff c w s : valid_dim w -> valid_samp s -> 0 <= c < ncomp s ->
  (tj3YUVPlaneWidth c w s = 0 <-> spec_pw c w s > INT_MAX) /\
  (spec_pw c w s <= INT_MAX -> tj3YUVPlaneWidth c w s = spec_pw c w s).
Proof.
  intros Hw Hs Hc. rewrite plane_width_spec by assumption.
  assert (X : (0 <=? c) && (c <? ncomp s) = true) by lia. rewrite X.
  pose proof (spec_pw_bounds c w s Hs Hw) as [B _].
  destruct (spec_pw c w s <=? INT_MAX) eqn:E; split; try split; intros; try lia.
Qed.

Theorem plane_height_error_iff c h s : valid_dim h -> valid_samp s -> 0 <= c < ncomp s ->
  (tj3YUVPlaneHeight c h s = 0 <-> spec_ph c h s > INT_MAX) /\
  (spec_ph c h s <= INT_MAX -> tj3YUVPlaneHeight c h s = spec_ph c h s).
Proof.
  intros Hw Hs Hc. rewrite plane_height_spec by assumption.
  assert (X : (0 <=? c) && (c <? ncomp s) = true) by lia. rewrite X.
  pose proof (spec_ph_bounds c h s Hs Hw) as [B _].
  destruct (spec_ph c h s <=? INT_MAX) eqn:E; split; try split; intros; try lia.
Qed.

(* the buffer size is the error value exactly when a plane dimension, a row stride or the total
   leaves the C type that holds it; otherwise it is the sum of the padded planes *)
Theorem bufsize_error_iff ulbits szbits w a h s :
  valid_abi ulbits szbits -> valid_samp s -> valid_dim w -> valid_dim h -> valid_align a ->
  (tj3YUVBufSize ulbits szbits w a h s = 0 <->
     spec_pw 0 w s > INT_MAX \/ spec_ph 0 h s > INT_MAX \/ spec_stride 0 w a s > INT_MAX \/
     (ulbits < 64 /\ spec_total w a h s > ULONG_MAX ulbits)) /\
  (tj3YUVBufSize ulbits szbits w a h s <> 0 -> tj3YUVBufSize ulbits szbits w a h s = spec_total w a h s).
Proof.
  intros Habi Hs Hw Hh Ha. rewrite bufsize_spec by assumption. unfold bufsize_result, plane_fits, ulong_check.
  pose proof (spec_total_pos w a h s Hs Hw Hh Ha).
  destruct (spec_pw 0 w s <=? INT_MAX) eqn:E1, (spec_ph 0 h s <=? INT_MAX) eqn:E2, (spec_stride 0 w a s <=? INT_MAX) eqn:E3;
    cbn [andb]; try (split; [split; intros; lia | intros; lia]).
  destruct (ulbits <? 64) eqn:E4, (spec_total w a h s >? ULONG_MAX ulbits) eqn:E5; cbn [andb];
    (split; [split; intros; lia | intros; lia]).
Qed.

Theorem planesize_error_iff ulbits szbits c w stride h s :
  valid_abi ulbits szbits -> valid_samp s -> valid_dim w -> valid_dim h -> 0 <= c < ncomp s ->
  INT_MIN < stride <= INT_MAX ->
  exists v, tj3YUVPlaneSize ulbits szbits c w stride h s = Val v /\
   (v = 0 <-> spec_pw c w s > INT_MAX \/ spec_ph c h s > INT_MAX \/
              (ulbits < 64 /\ plane_size c w stride h s > ULONG_MAX ulbits)) /\
   (v <> 0 -> v = plane_size c w stride h s).
Proof.
  intros Habi Hs Hw Hh Hc Hst. rewrite planesize_spec by (try assumption; lia).
  assert (X : stride =? INT_MIN = false) by lia. rewrite X.
  pose proof (spec_pw_bounds c w s Hs Hw) as [B _]. pose proof (spec_ph_bounds c h s Hs Hh) as [B' _].
  assert (P : 0 < plane_size c w stride h s).
  { unfold plane_size, eff_stride. destruct (stride =? 0); nia. }
  unfold ulong_check.
  destruct (spec_pw c w s <=? INT_MAX) eqn:E1, (spec_ph c h s <=? INT_MAX) eqn:E2; cbn [andb];
    try (eexists; split; [reflexivity|]; split; [split; intros; lia | intros; lia]).
  destruct (ulbits <? 64) eqn:E4, (plane_size c w stride h s >? ULONG_MAX ulbits) eqn:E5; cbn [andb];
    (eexists; split; [reflexivity|]; split; [split; intros; lia | intros; lia]).
Qed.

(* on an ABI with a 64-bit unsigned long the size checks never fire: the sizes always fit *)
Lemma size_arith a b c : 1 <= a <= 2147483647 -> 1 <= b <= 2147483647 -> 0 <= c <= 2147483648 ->
  c * (b - 1) + a < 18446744073709551616.
Proof. intros. nia. Qed.

Lemma int_max_eq : INT_MAX = 2147483647. Proof. reflexivity. Qed.
Lemma int_min_eq : INT_MIN = -2147483648. Proof. reflexivity. Qed.

Lemma plane_size_lt_2_64 c w a h s stride : valid_samp s -> valid_dim w -> valid_dim h -> INT_MIN < stride <= INT_MAX ->
  plane_fits c w a h s = true -> plane_size c w stride h s < 18446744073709551616.
Proof.
  intros Hs Hw Hh Hst Fc. unfold plane_fits in Fc. pose proof int_max_eq as EM. pose proof int_min_eq as Em.
  pose proof (spec_pw_bounds c w s Hs Hw) as [B _]. pose proof (spec_ph_bounds c h s Hs Hh) as [B' _].
  assert (B1 : spec_pw c w s <= 2147483647) by lia.
  assert (B2 : spec_ph c h s <= 2147483647) by lia.
  assert (B3 : 0 <= eff_stride stride (spec_pw c w s) <= 2147483648).
  { unfold eff_stride. destruct (stride =? 0); lia. }
  unfold plane_size. apply size_arith; lia.
Qed.

Theorem sizes_fit_64 w a h s c stride :
  valid_samp s -> valid_dim w -> valid_dim h -> valid_align a -> INT_MIN < stride <= INT_MAX ->
  plane_fits 0 w a h s = true ->
  spec_total w a h s < 18446744073709551616 /\ plane_size c w stride h s < 18446744073709551616.   (* 2^64 *)
Proof.
  intros Hs Hw Hh Ha Hst F. destruct (valid_align_pow2 a Ha) as (k & Hk & ->).
  pose proof (chroma_fits 1 w k h s Hs Hw Hh ltac:(lia) F) as F1.
  pose proof (chroma_fits 2 w k h s Hs Hw Hh ltac:(lia) F) as F2.
  pose proof (plane_bytes_bound 0 w k h s Hs Hw Hh ltac:(lia) F).
  pose proof (plane_bytes_bound 1 w k h s Hs Hw Hh ltac:(lia) F1).
  pose proof (plane_bytes_bound 2 w k h s Hs Hw Hh ltac:(lia) F2).
  split.
  - unfold spec_total. destruct (s =? TJSAMP_GRAY); lia.
  - pose proof (chroma_fits c w k h s Hs Hw Hh ltac:(lia) F) as Fc.
    apply (plane_size_lt_2_64 c w (2 ^ k) h s); assumption.
Qed.

(* ------------------------------------------------------------------ scaled dimensions *)
Definition sf_ok (p : Z * Z) : bool :=
  (1 <=? fst p) && (fst p <=? 15) && (1 <=? snd p) && (snd p <=? 8) && ((DCTSIZE * fst p) mod snd p =? 0).

Lemma sf_tbl_ok : forallb sf_ok sf_tbl = true.
Proof. vm_compute. reflexivity. Qed.

Lemma sf_tbl_length : Z.of_nat (length sf_tbl) = NUMSF.
Proof. reflexivity. Qed.

Theorem scaled_dim_spec num denom dim : In (num, denom) sf_tbl -> 0 <= dim -> dim * num + denom <= INT_MAX ->
  scaled_dim dim num denom = Val (cdiv (dim * num) denom) /\
  (cdiv (dim * num) denom - 1) * denom < dim * num <= cdiv (dim * num) denom * denom /\
  dtp_dctsize num denom * denom = DCTSIZE * num.
Proof.
  intros Hin Hd Hfit. pose proof (proj1 (forallb_forall _ _) sf_tbl_ok _ Hin) as F. unfold sf_ok in F. cbn [fst snd] in F.
  assert (Hn : 1 <= num <= 15) by lia. assert (Hde : 1 <= denom <= 8) by lia.
  assert (Hm : (DCTSIZE * num) mod denom = 0) by lia. clear F.
  split; [|split].
  - unfold scaled_dim.
    assert (P : 0 <= dim * num) by (apply Z.mul_nonneg_nonneg; lia).
    assert (OK : TJSCALED_c_ok dim num denom = true) by (unfold TJSCALED_c_ok, in_int, INT_MIN, INT_MAX in *; lia).
    rewrite OK. unfold TJSCALED_c. rewrite Z.quot_div_nonneg by lia. reflexivity.
  - apply cdiv_spec. lia.
  - unfold dtp_dctsize. rewrite Z.quot_div_nonneg by (unfold DCTSIZE; lia).
    pose proof (Z.div_mod (DCTSIZE * num) denom ltac:(lia)). lia.
Qed.

(* every JPEG dimension (<= 65535) can be scaled by every factor of the table without overflow *)
Corollary scaled_dim_jpeg num denom dim : In (num, denom) sf_tbl -> 0 <= dim <= 65535 ->
  scaled_dim dim num denom = Val (cdiv (dim * num) denom).
Proof.
  intros Hin Hd. pose proof (proj1 (forallb_forall _ _) sf_tbl_ok _ Hin) as F. unfold sf_ok in F. cbn [fst snd] in F.
  assert (P : 0 <= dim * num <= 65535 * 15) by (split; [apply Z.mul_nonneg_nonneg; lia|apply Z.mul_le_mono_nonneg; lia]).
  apply scaled_dim_spec; try assumption; unfold INT_MAX; lia.
Qed.

(* ------------------------------------------------------------------ alignment predicate *)
Theorem is_pow2_iff a : 1 <= a -> (IS_POW2_c a = true <-> exists k, 0 <= k /\ a = 2 ^ k).
Proof.
  intros Ha. unfold IS_POW2_c. split.
  - intros H. apply Z.eqb_eq in H. exists (Z.log2 a). split; [apply Z.log2_nonneg|apply is_pow2_inv; assumption].
  - intros (k & Hk & ->). rewrite is_pow2_pow2 by assumption. reflexivity.
Qed.

(* ------------------------------------------------------------------ statements exported to props/C20.v *)
Definition plane_dims_statement : Prop :=
  forall c w h s, valid_samp s -> valid_dim w -> valid_dim h ->
  (* what the two size functions return *)
  tj3YUVPlaneWidth c w s =
    (if (0 <=? c) && (c <? ncomp s) then (if spec_pw c w s <=? INT_MAX then spec_pw c w s else 0) else 0) /\
  tj3YUVPlaneHeight c h s =
    (if (0 <=? c) && (c <? ncomp s) then (if spec_ph c h s <=? INT_MAX then spec_ph c h s else 0) else 0) /\
  (* luma = PAD(w, mcuw/8); chroma = luma*8/mcuw = ceil(w / (mcuw/8)) *)
  spec_pw 0 w s = pad_up w (tjMCUWidth s / 8) /\ spec_pw 0 w s * 8 / tjMCUWidth s = spec_pw 1 w s /\
  (spec_pw 1 w s - 1) * (tjMCUWidth s / 8) < w <= spec_pw 1 w s * (tjMCUWidth s / 8) /\ spec_pw 2 w s = spec_pw 1 w s /\
  spec_ph 0 h s = pad_up h (tjMCUHeight s / 8) /\ spec_ph 0 h s * 8 / tjMCUHeight s = spec_ph 1 h s /\
  (spec_ph 1 h s - 1) * (tjMCUHeight s / 8) < h <= spec_ph 1 h s * (tjMCUHeight s / 8) /\ spec_ph 2 h s = spec_ph 1 h s /\
  (* the pw[i]/ph[i] recomputed inside the per-plane codec paths agree *)
  (0 <= c < 3 ->
   cfp_plane_w c w s = spec_pw c w s /\ cfp_plane_h c h s = spec_ph c h s /\
   enc_plane_w c w s = spec_pw c w s /\ enc_plane_h c h s = spec_ph c h s /\
   dec_plane_w c w s = spec_pw c w s /\ dec_plane_h c h s = spec_ph c h s).

Lemma plane_dims_proof : plane_dims_statement.
Proof.
  intros c w h s Hs Hw Hh.
  destruct (spec_pw_chroma_from_luma w s Hs Hw) as (A1 & A2 & A3 & A4).
  destruct (spec_ph_chroma_from_luma h s Hs Hh) as (B1 & B2 & B3 & B4).
  split; [apply plane_width_spec; assumption|]. split; [apply plane_height_spec; assumption|].
  repeat split; try assumption; try reflexivity; try (apply A2); try (apply B2);
    intros; apply (codec_plane_dims c w h s); assumption.
Qed.

Definition bufsize_is_sum_statement : Prop :=
  forall ulbits szbits w a h s, valid_abi ulbits szbits -> valid_samp s -> valid_dim w -> valid_dim h -> valid_align a ->
  (* value *)
  tj3YUVBufSize ulbits szbits w a h s = bufsize_result ulbits w a h s /\
  spec_total w a h s = (if s =? TJSAMP_GRAY then plane_bytes 0 w a h s
                        else plane_bytes 0 w a h s + plane_bytes 1 w a h s + plane_bytes 2 w a h s) /\
  (forall i, plane_bytes i w a h s = pad_up (spec_pw i w s) a * spec_ph i h s) /\
  (* offsets 0, s0*ph0, s0*ph0 + s1*ph1; planes inside the buffer and pairwise disjoint *)
  spec_off 0 w a h s = 0 /\ spec_off 1 w a h s = plane_bytes 0 w a h s /\
  spec_off 2 w a h s = plane_bytes 0 w a h s + plane_bytes 1 w a h s /\
  (forall i, 0 <= i < ncomp s -> 0 <= spec_off i w a h s /\ spec_off i w a h s + plane_bytes i w a h s <= spec_total w a h s) /\
  (forall i j, 0 <= i -> i < j -> j < ncomp s -> spec_off i w a h s + plane_bytes i w a h s <= spec_off j w a h s) /\
  (* a plane is stride*(ph-1)+pw bytes long, which is what tj3YUVPlaneSize returns, and fits its slot *)
  (forall i, plane_size i w (spec_stride i w a s) h s = spec_stride i w a s * (spec_ph i h s - 1) + spec_pw i w s /\
             plane_size i w (spec_stride i w a s) h s <= plane_bytes i w a h s) /\
  (* sample (r, c) of plane i lives at its own address inside the plane *)
  (forall i r c, 0 <= r < spec_ph i h s -> 0 <= c < spec_pw i w s ->
     0 <= r * spec_stride i w a s + c < plane_size i w (spec_stride i w a s) h s) /\
  (forall i r c r' c', 0 <= r -> 0 <= r' -> 0 <= c < spec_pw i w s -> 0 <= c' < spec_pw i w s ->
     r * spec_stride i w a s + c = r' * spec_stride i w a s + c' -> r = r' /\ c = c').

Lemma bufsize_is_sum_proof : bufsize_is_sum_statement.
Proof.
  intros ulbits szbits w a h s Habi Hs Hw Hh Ha.
  destruct (layout_offsets w a h s Hs Hw Hh Ha) as (O0 & O1 & O2 & O3 & O4).
  split; [apply bufsize_spec; assumption|]. split; [reflexivity|]. split; [reflexivity|].
  split; [exact O0|]. split; [rewrite O1, O0; lia|]. split; [rewrite O2, O1, O0; lia|].
  split; [exact O3|]. split; [exact O4|].
  split; [intros i; destruct (plane_size_le_bytes w a h s Hs Hw Hh Ha i); split; assumption|].
  split; [intros i r c; apply (sample_addresses w a h s Hs Hw Hh Ha)|].
  intros i r c r' c'; apply (sample_addresses_injective w a h s Hs Hw Hh Ha).
Qed.

Definition planesize_statement : Prop :=
  forall ulbits szbits c w stride h s, valid_abi ulbits szbits -> valid_samp s -> valid_dim w -> valid_dim h ->
  0 <= c < ncomp s -> INT_MIN <= stride <= INT_MAX ->
  tj3YUVPlaneSize ulbits szbits c w stride h s =
    if stride =? INT_MIN then Val 0 else
    if (spec_pw c w s <=? INT_MAX) && (spec_ph c h s <=? INT_MAX)
    then Val (if ulong_check ulbits (plane_size c w stride h s) then 0 else plane_size c w stride h s)
    else Val 0.

Definition overflow_checks_statement : Prop :=
  forall ulbits szbits w a h s, valid_abi ulbits szbits -> valid_samp s -> valid_dim w -> valid_dim h -> valid_align a ->
  (forall c, 0 <= c < ncomp s ->
     (tj3YUVPlaneWidth c w s = 0 <-> spec_pw c w s > INT_MAX) /\
     (tj3YUVPlaneHeight c h s = 0 <-> spec_ph c h s > INT_MAX)) /\
  (tj3YUVBufSize ulbits szbits w a h s = 0 <->
     spec_pw 0 w s > INT_MAX \/ spec_ph 0 h s > INT_MAX \/ spec_stride 0 w a s > INT_MAX \/
     (ulbits < 64 /\ spec_total w a h s > ULONG_MAX ulbits)) /\
  (tj3YUVBufSize ulbits szbits w a h s <> 0 -> tj3YUVBufSize ulbits szbits w a h s = spec_total w a h s) /\
  (forall c stride, 0 <= c < ncomp s -> INT_MIN < stride <= INT_MAX ->
     exists v, tj3YUVPlaneSize ulbits szbits c w stride h s = Val v /\
       (v = 0 <-> spec_pw c w s > INT_MAX \/ spec_ph c h s > INT_MAX \/
                  (ulbits < 64 /\ plane_size c w stride h s > ULONG_MAX ulbits)) /\
       (v <> 0 -> v = plane_size c w stride h s)) /\
  (* no sum or product of the size functions can wrap the 64-bit accumulator *)
  (plane_fits 0 w a h s = true -> spec_total w a h s < 18446744073709551616) /\
  (* invalid arguments *)
  (forall w' s' c, w' < 1 \/ s' < 0 \/ s' >= TJ_NUMSAMP -> tj3YUVPlaneWidth c w' s' = 0) /\
  (forall w' a' h' s', a' < 1 \/ IS_POW2_c a' = false \/ s' < 0 \/ s' >= TJ_NUMSAMP -> tj3YUVBufSize ulbits szbits w' a' h' s' = 0).

Lemma overflow_checks_proof : overflow_checks_statement.
Proof.
  intros ulbits szbits w a h s Habi Hs Hw Hh Ha.
  split. { intros c Hc. split; [apply plane_width_error_iff|apply plane_height_error_iff]; assumption. }
  destruct (bufsize_error_iff ulbits szbits w a h s Habi Hs Hw Hh Ha) as [E1 E2].
  split; [exact E1|]. split; [exact E2|].
  split. { intros c stride Hc Hst. apply planesize_error_iff; assumption. }
  split. { intros F. apply (sizes_fit_64 w a h s 0 1 Hs Hw Hh Ha); [unfold INT_MIN, INT_MAX; lia|assumption]. }
  split. { intros w' s' c H. apply plane_width_invalid. assumption. }
  intros w' a' h' s' H. apply bufsize_invalid. assumption.
Qed.

Definition unified_eq_planes_statement : Prop :=
  forall f w a h s, In f unified_fns ->
  (valid_samp s -> valid_dim w -> valid_dim h -> valid_align a ->
     unified_layout f w a h s = unified_result w a h s /\ unified_layout f w a h s <> UUB) /\
  (w < 1 \/ h < 1 \/ a < 1 \/ IS_POW2_c a = false \/ s = TJSAMP_UNKNOWN -> unified_layout f w a h s = UErr).

Lemma unified_eq_planes_proof : unified_eq_planes_statement.
Proof.
  intros f w a h s Hin. split.
  - intros Hs Hw Hh Ha. pose proof (unified_layout_spec f w a h s Hin Hs Hw Hh Ha) as E. split; [exact E|].
    rewrite E. unfold unified_result.
    destruct (plane_fits 0 w a h s && (spec_pw 0 w s + a <=? INT_MAX)); [|discriminate].
    destruct (s =? TJSAMP_GRAY); [discriminate|].
    destruct ((plane_bytes 0 w a h s >? INT_MAX) || (plane_bytes 1 w a h s >? INT_MAX)); discriminate.
  - apply unified_layout_invalid. assumption.
Qed.

Definition scaled_dims_statement : Prop :=
  Z.of_nat (length sf_tbl) = NUMSF /\
  forall num denom dim, In (num, denom) sf_tbl ->
  (0 <= dim -> dim * num + denom <= INT_MAX ->
     scaled_dim dim num denom = Val (cdiv (dim * num) denom) /\
     (cdiv (dim * num) denom - 1) * denom < dim * num <= cdiv (dim * num) denom * denom /\
     dtp_dctsize num denom * denom = DCTSIZE * num) /\
  (0 <= dim <= 65535 -> scaled_dim dim num denom = Val (cdiv (dim * num) denom)).

Lemma scaled_dims_proof : scaled_dims_statement.
Proof.
  split; [exact sf_tbl_length|]. intros num denom dim Hin. split.
  - intros. apply scaled_dim_spec; assumption.
  - intros. apply scaled_dim_jpeg; assumption.
Qed.

(* ------------------------------------------------------------------ concrete instances (non-vacuity, regressions) *)
Lemma ex_valid_args : valid_samp TJSAMP_420 /\ valid_samp TJSAMP_GRAY /\ valid_samp TJSAMP_411 /\ valid_samp TJSAMP_441 /\
  valid_dim 35 /\ valid_dim 2147483647 /\ valid_align 1 /\ valid_align 4 /\ valid_align 1073741824 /\
  valid_abi 64 64 /\ valid_abi 32 32 /\ valid_abi 32 64 /\ In uEncodeYUV8 unified_fns /\ In (3, 8) sf_tbl.
Proof.
  unfold valid_samp, valid_dim, valid_align, valid_abi, TJ_NUMSAMP, INT_MAX, TJSAMP_420, TJSAMP_GRAY, TJSAMP_411, TJSAMP_441.
  repeat split; try lia; try reflexivity; cbn; tauto.
Qed.

Lemma ex_420_35x39_align4 :
  tj3YUVPlaneWidth 0 35 TJSAMP_420 = 36 /\ tj3YUVPlaneWidth 1 35 TJSAMP_420 = 18 /\
  tj3YUVPlaneHeight 0 39 TJSAMP_420 = 40 /\ tj3YUVPlaneHeight 2 39 TJSAMP_420 = 20 /\
  tj3YUVBufSize 64 64 35 4 39 TJSAMP_420 = 2240 /\
  tj3YUVPlaneSize 64 64 1 35 20 39 TJSAMP_420 = Val 398 /\
  unified_layout uDecompressToYUV8 35 4 39 TJSAMP_420 = ULayout [Some 0; Some 1440; Some 1840] [36; 20; 20] /\
  unified_layout uCompressFromYUV8 35 4 39 TJSAMP_GRAY = ULayout [Some 0; None; None] [36; 0; 0].
Proof. vm_compute. repeat split; reflexivity. Qed.

Lemma ex_411_441 :
  tj3YUVPlaneWidth 0 41 TJSAMP_411 = 44 /\ tj3YUVPlaneWidth 1 41 TJSAMP_411 = 11 /\
  tj3YUVPlaneHeight 0 41 TJSAMP_441 = 44 /\ tj3YUVPlaneHeight 1 41 TJSAMP_441 = 11 /\
  tj3YUVBufSize 64 64 41 8 35 TJSAMP_411 = 48 * 35 + 2 * 16 * 35 /\
  tj3YUVPlaneWidth 1 41 TJSAMP_GRAY = 0.
Proof. vm_compute. repeat split; reflexivity. Qed.

(* boundaries of the overflow checks; the first three are the inputs that used to overflow an int *)
Lemma ex_overflow_boundaries :
  tj3YUVBufSize 64 64 2147483647 2 1 TJSAMP_444 = 0 /\
  tj3YUVBufSize 64 64 1073741825 1073741824 1 TJSAMP_444 = 0 /\
  tj3YUVBufSize 64 64 2147483647 1 1 TJSAMP_444 = 3 * 2147483647 /\
  tj3YUVPlaneSize 64 64 0 10 INT_MIN 10 TJSAMP_444 = Val 0 /\
  unified_layout uEncodeYUV8 2147483647 1 1 TJSAMP_444 = UErr /\
  unified_layout uEncodeYUV8 2147483647 1073741824 1 TJSAMP_422 = UErr /\
  tj3YUVPlaneWidth 0 2147483647 TJSAMP_422 = 0 /\ tj3YUVPlaneWidth 1 2147483647 TJSAMP_422 = 1073741824 /\
  tj3YUVPlaneWidth 0 2147483646 TJSAMP_422 = 2147483646 /\
  tj3YUVBufSize 32 32 65536 1 65536 TJSAMP_444 = 0 /\ tj3YUVBufSize 64 64 65536 1 65536 TJSAMP_444 = 12884901888 /\
  unified_layout uDecodeYUV8 65536 1 32768 TJSAMP_444 = UErr /\
  unified_layout uDecodeYUV8 65536 1 32767 TJSAMP_444 =
    ULayout [Some 0; Some 2147418112; Some 4294836224] [65536; 65536; 65536].
Proof. vm_compute. repeat split; reflexivity. Qed.

Lemma ex_scaled : scaled_dim 227 3 8 = Val 86 /\ scaled_dim 149 15 8 = Val 280 /\ scaled_dim 65535 2 1 = Val 131070 /\
  dtp_dctsize 3 8 = 3 /\ dtp_dctsize 2 1 = 16.
Proof. vm_compute. repeat split; reflexivity. Qed.

(* ------------------------------------------------------------------ getSubsamp: only the ratios matter *)
Definition factors : list Z := [1; 2; 3; 4].
Lemma factors_in x : 1 <= x <= 4 -> In x factors.
Proof. intros. unfold factors. assert (x = 1 \/ x = 2 \/ x = 3 \/ x = 4) as [->|[->|[->| ->]]] by lia; cbn; tauto. Qed.

Definition ratio_ok (yh yv bh bv rh rv : Z) : bool :=
  let s := getSubsamp3 yh yv bh bv rh rv in
  (s =? TJSAMP_UNKNOWN) ||
  ((0 <=? s) && (s <? TJ_NUMSAMP) && negb (s =? TJSAMP_GRAY) && (bh =? rh) && (bv =? rv) &&
   (yh =? bh * hsf s) && (yv =? bv * vsf s)).

Definition ratio_sweep : bool :=
  forallb (fun yh => forallb (fun yv => forallb (fun bh => forallb (fun bv => forallb (fun rh => forallb (fun rv =>
    ratio_ok yh yv bh bv rh rv) factors) factors) factors) factors) factors) factors.

Lemma ratio_sweep_true : ratio_sweep = true.
Proof. vm_compute. reflexivity. Qed.

Lemma getSubsamp_ratio yh yv bh bv rh rv :
  1 <= yh <= 4 -> 1 <= yv <= 4 -> 1 <= bh <= 4 -> 1 <= bv <= 4 -> 1 <= rh <= 4 -> 1 <= rv <= 4 ->
  ratio_ok yh yv bh bv rh rv = true.
Proof.
  intros H1 H2 H3 H4 H5 H6. pose proof ratio_sweep_true as R. unfold ratio_sweep in R.
  rewrite forallb_forall in R. specialize (R yh (factors_in _ H1)).
  rewrite forallb_forall in R. specialize (R yv (factors_in _ H2)).
  rewrite forallb_forall in R. specialize (R bh (factors_in _ H3)).
  rewrite forallb_forall in R. specialize (R bv (factors_in _ H4)).
  rewrite forallb_forall in R. specialize (R rh (factors_in _ H5)).
  rewrite forallb_forall in R. exact (R rv (factors_in _ H6)).
Qed.

Lemma cdiv_scale w c r : 1 <= c -> 1 <= r -> (w * c + c * r - 1) / (c * r) = cdiv w r.
Proof.
  intros Hc Hr.
  pose proof (cdiv_spec w r ltac:(lia)) as [S1 S2].
  set (q := cdiv w r) in *.
  assert (A1 : ((q - 1) * r + 1) * c <= w * c) by (apply Z.mul_le_mono_nonneg_r; lia).
  assert (A2 : w * c <= q * r * c) by (apply Z.mul_le_mono_nonneg_r; lia).
  assert (P : 0 < c * r) by (apply Z.mul_pos_pos; lia).
  symmetry. apply Z.div_unique with (r := w * c + c * r - 1 - c * r * q).
  - left. split.
    + replace (((q - 1) * r + 1) * c) with (c * r * q - c * r + c) in A1 by ring. lia.
    + replace (q * r * c) with (c * r * q) in A2 by ring. lia.
  - ring.
Qed.

(* Whenever the sampling factors (each in 1..4, JPEG's range) of a YCbCr JPEG denote level s for the TurboJPEG API, in the
   standard or in a non-standard way, the component sizes libjpeg derives from them are the published plane sizes of
   level s: chroma exactly, luma up to the padding (plane >= component, less than one sampling period more). *)
Definition subsamp_ratio_statement : Prop :=
  forall yh yv bh bv rh rv s w h,
  1 <= yh <= 4 -> 1 <= yv <= 4 -> 1 <= bh <= 4 -> 1 <= bv <= 4 -> 1 <= rh <= 4 -> 1 <= rv <= 4 ->
  getSubsamp3 yh yv bh bv rh rv = s -> s <> TJSAMP_UNKNOWN -> valid_dim w -> valid_dim h ->
  valid_samp s /\ s <> TJSAMP_GRAY /\ bh = rh /\ bv = rv /\ yh = bh * hsf s /\ yv = bv * vsf s /\
  downsampled_dim w bh yh = spec_pw 1 w s /\ downsampled_dim w rh yh = spec_pw 2 w s /\
  downsampled_dim h bv yv = spec_ph 1 h s /\ downsampled_dim h rv yv = spec_ph 2 h s /\
  downsampled_dim w yh yh = w /\ w <= spec_pw 0 w s < w + hsf s /\
  downsampled_dim h yv yv = h /\ h <= spec_ph 0 h s < h + vsf s.

Lemma subsamp_ratio_proof : subsamp_ratio_statement.
Proof.
  intros yh yv bh bv rh rv s w h H1 H2 H3 H4 H5 H6 E NU Hw Hh.
  pose proof (getSubsamp_ratio yh yv bh bv rh rv H1 H2 H3 H4 H5 H6) as R. unfold ratio_ok in R. rewrite E in R.
  assert (Hs : valid_samp s) by (unfold valid_samp; lia).
  assert (Hg : s <> TJSAMP_GRAY) by lia.
  assert (Ebh : bh = rh) by lia. assert (Ebv : bv = rv) by lia.
  assert (Eyh : yh = bh * hsf s) by lia. assert (Eyv : yv = bv * vsf s) by lia.
  destruct (hsf_pow2 s Hs) as (j & Hj & _ & _ & Hhs). destruct (vsf_pow2 s Hs) as (i & Hi & _ & _ & Hvs).
  pose proof (pow2_small j Hj). pose proof (pow2_small i Hi).
  assert (C1 : downsampled_dim w bh yh = cdiv w (hsf s)).
  { unfold downsampled_dim. rewrite Eyh. apply cdiv_scale; lia. }
  assert (C2 : downsampled_dim h bv yv = cdiv h (vsf s)).
  { unfold downsampled_dim. rewrite Eyv. apply cdiv_scale; lia. }
  assert (L1 : forall d y, 1 <= y -> downsampled_dim d y y = d).
  { intros d y Hy. unfold downsampled_dim. replace (d * y + y - 1) with (d * y + (y - 1)) by lia.
    rewrite Z.div_add_l by lia. rewrite Z.div_small by lia. lia. }
  pose proof (pad_up_bounds w (hsf s) ltac:(lia)). pose proof (pad_up_bounds h (vsf s) ltac:(lia)).
  repeat split; try assumption; try lia.
  - rewrite <- Ebh. exact C1.
  - rewrite <- Ebv. exact C2.
  - apply L1; lia.
  - unfold spec_pw. cbn [Z.eqb]. lia.
  - unfold spec_pw. cbn [Z.eqb]. lia.
  - apply L1; lia.
  - unfold spec_ph. cbn [Z.eqb]. lia.
  - unfold spec_ph. cbn [Z.eqb]. lia.
Qed.

Lemma ex_getSubsamp :
  getSubsamp3 2 1 1 1 1 1 = TJSAMP_422 /\ getSubsamp3 2 2 1 2 1 2 = TJSAMP_422 /\ getSubsamp3 2 2 2 1 2 1 = TJSAMP_440 /\
  getSubsamp3 3 1 3 1 3 1 = TJSAMP_444 /\ getSubsamp3 4 1 1 1 1 1 = TJSAMP_411 /\ getSubsamp3 1 4 1 1 1 1 = TJSAMP_441 /\
  getSubsamp3 4 2 1 2 1 2 = TJSAMP_UNKNOWN /\ getSubsamp3 2 2 2 2 2 2 = TJSAMP_UNKNOWN /\ getSubsamp3 2 1 1 1 2 1 = TJSAMP_UNKNOWN.
Proof. vm_compute. repeat split; reflexivity. Qed.
