(* C13: the producer hypothesis for ALL entropy encoders.
   - jcmarker.c, jcarith.c, jcphuff.c, jclhuff.c store single bytes (generated facts): producers made of
     PByte steps only, for which no chunk hypothesis is needed;
   - jchuff.c (the only chunk producer), ANY Huffman tables that jpeg_make_c_derived_tbl accepts (code
     lengths <= 16) and ANY lossy data precision of the build (8, 12): one block is at most
     (16 + P + 1) + 63 * (16 + P) + 16 bits with P = precision + 2, so fewer bytes than BUFSIZE are stored
     while it is encoded (pending bits of the put buffer and byte stuffing included). *)
From Coq Require Import List ZArith Bool Lia.
From LJT Require Import gen.GenDest gen.GenEncoders model.Huff model.Dest model.WorstCase.
From LJT Require Import proofs.NbitsProofs proofs.HuffCodeProofs proofs.DestProofs proofs.WorstCaseBound.
Import ListNotations.
Local Open Scope Z_scope.

(* ---- every table built by jpeg_make_c_derived_tbl has code lengths 0..16 *)
Lemma In_nthZ l x : In x l -> exists m, nthZ l m = x.
Proof. intros H. apply (In_nth _ _ 0) in H as (m & _ & H). exists m. exact H. Qed.

Lemma make_c_derived_le16 bits vals maxsym t : make_c_derived bits vals maxsym = Some t -> all_le16 t = true.
Proof.
  unfold make_c_derived. destruct (huffsizes (skipn 1 (firstn 17 bits)) 1 0) as [sizes|] eqn:Hs; [|discriminate].
  destruct (gen_codes sizes) as [codes|]; [|discriminate]. intros Hf.
  assert (Hrange : forall k, (k < length sizes)%nat -> 1 <= nth k sizes 0 <= 16).
  { intros k Hk. pose proof (huffsizes_ub _ _ _ _ Hs k Hk) as Hub.
    pose proof (huffsizes_sorted _ _ _ _ Hs) as Hso.
    assert (Hl : (length (skipn 1 (firstn 17 bits)) <= 16)%nat).
    { rewrite skipn_length, firstn_length. lia. }
    pose proof (sorted_from_lb sizes 1 Hso k) as Hlb. specialize (Hlb Hk). lia. }
  assert (Hnz : Forall (fun s => s <> 0) sizes).
  { apply Forall_forall. intros s Hin. apply (In_nth _ _ 0) in Hin as (k & Hk & <-). specialize (Hrange k Hk). lia. }
  pose proof (fill_c_spec _ _ _ _ _ _ _ Hnz ltac:(rewrite !repeat_length; reflexivity) Hf) as Spec.
  unfold all_le16. apply forallb_forall. intros x Hin. apply In_nthZ in Hin as (m & <-).
  destruct (Spec m) as (_ & S2).
  destruct (Z.eq_dec (nthZ (ehufsi t) m) 0) as [E|E]; [rewrite E; reflexivity|].
  assert (Hz : nthZ (repeat 0 257) m = 0).
  { unfold nthZ. destruct (Nat.lt_ge_cases m 257) as [H|H]; [apply nth_repeat|]. apply nth_overflow. rewrite repeat_length. lia. }
  destruct (S2 Hz E) as (k & _ & _ & Hk & _ & _ & Hsz & _). rewrite Hsz. specialize (Hrange k Hk).
  apply andb_true_intro. split; apply Z.leb_le; lia.
Qed.

(* ---- magnitude categories *)
Lemma nbits_le_P v P : 0 <= P -> Z.abs v < 2 ^ P -> 0 <= nbits (Z.abs v) <= P.
Proof.
  intros HP H. destruct (Z.eq_dec (Z.abs v) 0) as [E|E]; [rewrite E; cbn; lia|].
  rewrite nbits_log2 by lia. pose proof (Z.log2_nonneg (Z.abs v)).
  assert (Z.log2 (Z.abs v) < P) by (apply Z.log2_lt_pow2; lia). lia.
Qed.

(* AC part with any table and any magnitude bound *)
Lemma enc_ac_len_gen t P : all_le16 t = true -> 0 <= P -> forall l r b, 0 <= r ->
  Forall (fun v => Z.abs v < 2 ^ P) l -> enc_ac t l r = Some b ->
  Z.of_nat (length b) <= (16 + P) * Z.of_nat (length l) + 16 * (r / 16) + 16.
Proof.
  intros H HP. induction l as [|v tl IH]; intros r b Hr Hall E; cbn [enc_ac] in E.
  - destruct (0 <? r).
    + pose proof (encode_sym_len t 0 b H E). pose proof (Z.div_pos r 16 Hr ltac:(lia)).
      change (Z.of_nat (length (@nil Z))) with 0. lia.
    + inversion E. pose proof (Z.div_pos r 16 Hr ltac:(lia)). change (Z.of_nat (length (@nil Z))) with 0.
      change (Z.of_nat (length (@nil bool))) with 0. lia.
  - inversion Hall as [|x y Hv Htl]; subst. destruct (v =? 0).
    + specialize (IH (r + 1) b ltac:(lia) Htl E). cbn [length]. rewrite Nat2Z.inj_succ.
      assert ((r + 1) / 16 <= r / 16 + 1) by (apply Z.div_le_upper_bound; [lia|]; pose proof (Z.mul_div_le r 16 ltac:(lia)); pose proof (Z.mod_pos_bound r 16 ltac:(lia)); pose proof (Z.div_mod r 16 ltac:(lia)); lia).
      nia.
    + apply cat_opt_some in E as (z & rest & Ez & E & ->).
      apply cat_opt_some in E as (c & rest2 & Ec & E & ->).
      apply cat_opt_some in E as (vb & rest3 & Evb & E & ->).
      inversion Evb; subst vb. clear Evb.
      pose proof (rep_opt_len t _ _ z H Ez) as Lz. rewrite Z2Nat.id in Lz by (apply Z.div_pos; lia).
      pose proof (encode_sym_len t _ c H Ec) as Lc.
      pose proof (nbits_le_P v P HP Hv) as Ln.
      pose proof (val_bits_len v (nbits (Z.abs v)) ltac:(lia)) as Lv.
      specialize (IH 0 rest3 ltac:(lia) Htl E). change (0 / 16) with 0 in IH.
      rewrite !app_length, !Nat2Z.inj_add. cbn [length]. rewrite Nat2Z.inj_succ. nia.
Qed.

(* coefficients that pass the range checks of encode_one_block for max_coef_bits = P *)
Definition coef_ok_P (P last_dc : Z) (coefs : list Z) : Prop :=
  length coefs = 64%nat /\ Z.abs (el coefs 0 - last_dc) < 2 ^ (P + 1) /\ Forall (fun v => Z.abs v < 2 ^ P) coefs.

Definition block_bits_max (P : Z) : Z := (16 + P + 1) + 63 * (16 + P) + 16.

Theorem block_bits_bound_gen dc ac P last_dc coefs bs : all_le16 dc = true -> all_le16 ac = true -> 0 <= P ->
  coef_ok_P P last_dc coefs -> enc_block dc ac last_dc coefs = Some bs ->
  Z.of_nat (length bs) <= block_bits_max P.
Proof.
  intros Hd Ha HP (Hlen & Hdc & Hall). unfold enc_block, block_bits_max. intros E.
  apply cat_opt_some in E as (c & rest & Ec & E & ->).
  apply cat_opt_some in E as (vb & rest2 & Evb & E & ->). inversion Evb; subst vb; clear Evb.
  pose proof (encode_sym_len dc _ c Hd Ec) as Lc.
  pose proof (nbits_le_P _ (P + 1) ltac:(lia) Hdc) as Ln.
  pose proof (val_bits_len (el coefs 0 - last_dc) _ (proj1 Ln)) as Lv.
  assert (Hzz : Forall (fun v => Z.abs v < 2 ^ P) (map (el coefs) (skipn 1 GenWorstCase.wc_natural_order))).
  { apply Forall_forall. intros v Hin. apply in_map_iff in Hin as (i & <- & _). unfold el.
    destruct (Nat.lt_ge_cases i (length coefs)) as [Hi|Hi].
    - rewrite Forall_forall in Hall. apply Hall. apply nth_In. exact Hi.
    - rewrite nth_overflow by exact Hi. cbn. apply Z.pow_pos_nonneg; lia. }
  pose proof (enc_ac_len_gen ac P Ha HP _ 0 rest2 ltac:(lia) Hzz E) as La.
  rewrite map_length in La. change (length (skipn 1 GenWorstCase.wc_natural_order)) with 63%nat in La. change (0 / 16) with 0 in La.
  rewrite !app_length, !Nat2Z.inj_add. change (Z.of_nat 63) with 63 in La. lia.
Qed.

(* bytes stored while one block is encoded: pending bits of the put buffer + block bits, a stuffed zero behind every byte *)
Definition chunk_max (precision : Z) : Z :=
  2 * ((block_bits_max (precision + huff_coef_bits_over_precision) + (huff_bit_buf_size - 1) + 7) / 8).

Theorem huff_chunks_below_bufsize : forallb (fun p => chunk_max p <? huff_local_bufsize) huff_lossy_precisions = true.
Proof. vm_compute. reflexivity. Qed.

(* the encoders that store single bytes need no hypothesis at all *)
Definition is_byte_op (o : pop) : bool := match o with PChunk _ => false | _ => true end.
Definition hop_bytewise (o : hop) : bool := match o with HCall _ ops => forallb is_byte_op ops | _ => true end.

Lemma bytewise_chunk_ok hs : forallb hop_bytewise hs = true -> forallb hop_chunks_ok hs = true.
Proof.
  induction hs as [|o t IH]; [reflexivity|]. cbn [forallb]. intros H. apply andb_true_iff in H as (H1 & H2).
  rewrite (IH H2), andb_true_r. destruct o; try reflexivity. cbn [hop_bytewise hop_chunks_ok] in *.
  induction ops as [|p q IHq]; [reflexivity|]. cbn [forallb] in *. apply andb_true_iff in H1 as (A & B).
  rewrite (IHq B), andb_true_r. destruct p; [reflexivity|discriminate|reflexivity].
Qed.

Theorem bytewise_encoders_safe :
  (enc_marker_writer_bytewise && enc_arith_bytewise && enc_phuff_bytewise && enc_lhuff_bytewise = true) /\
  forall c hs, good_cfg c -> w_ok (run c hs) = true -> forallb hop_bytewise hs = true -> lib_clean (run c hs) = true.
Proof.
  split; [reflexivity|]. intros c hs G Hok Hb. apply reuse_safe_all; [exact G|exact Hok|apply bytewise_chunk_ok; exact Hb].
Qed.
