(* C03 encoder totality: within the data-precision guards (the nbits range checks of the C) and
   with tables that cover the symbols, the modelled encoders never fail. *)
From Coq Require Import List ZArith Lia Bool.
From LJT Require Import model.Huff model.Seq model.Prog model.ArithBin proofs.SeqBits proofs.SeqProofs proofs.ProgProofs.
Import ListNotations.
Local Open Scope Z_scope.

Definition covers (c : codec) (lo hi : Z) : Prop := forall s, lo <= s <= hi -> c_enc c s <> None.
Definition coef_ok (mcb : Z) (v : Z) : Prop := nbits (Z.abs v) <= mcb.

Section Tot.
Variable dc ac : codec.
Variable mcb : Z.
Hypothesis mcb_le : mcb <= 15.
Hypothesis ac_cov : covers ac 0 255.
Hypothesis dc_cov : covers dc 0 16.

Lemma enc_band_total : forall l r, 0 <= r -> Forall (coef_ok mcb) l -> exists bits r', enc_band ac mcb l r = Some (bits, r') /\ 0 <= r'.
Proof.
  induction l as [|v t IH]; intros r Hr HF; [exists [], r; split; [reflexivity|exact Hr]|].
  inversion HF as [|? ? Hv Ht]; subst. cbn [enc_band]. destruct (v =? 0) eqn:Ev; [apply IH; [lia|exact Ht]|].
  apply Z.eqb_neq in Ev. unfold coef_ok in Hv.
  replace (nbits (Z.abs v) >? mcb) with false by (symmetry; rewrite Z.gtb_ltb; apply Z.ltb_ge; exact Hv).
  pose proof (nbits_bounds (Z.abs v) ltac:(lia)) as [Hn1 _].
  assert (Hz : exists z, (if r >=? 16 then c_enc ac 240 else Some []) = Some z).
  { destruct (r >=? 16); [|eexists; reflexivity]. destruct (c_enc ac 240) eqn:E; [eexists; reflexivity|]. exfalso. apply (ac_cov 240); [lia|exact E]. }
  destruct Hz as [z Hz]. rewrite Hz.
  pose proof (Z.mod_pos_bound r 16 ltac:(lia)) as Hm.
  destruct (c_enc ac (r mod 16 * 16 + nbits (Z.abs v))) as [c|] eqn:Ec.
  2:{ exfalso. apply (ac_cov (r mod 16 * 16 + nbits (Z.abs v))); [lia|exact Ec]. }
  destruct (IH 0 ltac:(lia) Ht) as (b0 & r0 & Hb & Hr0). rewrite Hb. eexists _, r0. split; [reflexivity|exact Hr0].
Qed.

(* jchuff.c encode_one_block: in-range AC coefficients and DC difference, tables covering 0..255 / 0..16 *)
Theorem enc_block_total last_dc b :
  Forall (coef_ok mcb) (skipn 1 (zz_of b)) -> nbits (Z.abs (nth 0%nat b 0 - last_dc)) <= mcb + 1 ->
  exists bits, enc_block dc ac mcb last_dc b = Some bits.
Proof.
  intros HF Hd. unfold enc_block, enc_dc_diff, enc_ac.
  replace (nbits (Z.abs (nth 0%nat b 0 - last_dc)) >? mcb + 1) with false by (symmetry; rewrite Z.gtb_ltb; apply Z.ltb_ge; exact Hd).
  pose proof (nbits_nonneg (Z.abs (nth 0%nat b 0 - last_dc))) as Hn0.
  destruct (c_enc dc (nbits (Z.abs (nth 0%nat b 0 - last_dc)))) as [c|] eqn:Ec.
  2:{ exfalso. apply (dc_cov (nbits (Z.abs (nth 0%nat b 0 - last_dc)))); [lia|exact Ec]. }
  destruct (enc_band_total (skipn 1 (zz_of b)) 0 ltac:(lia) HF) as (bb & r & Hb & Hr). rewrite Hb.
  destruct (r >? 0); [|eexists; reflexivity].
  destruct (c_enc ac 0) as [e|] eqn:Ee; [eexists; reflexivity|]. exfalso. apply (ac_cov 0); [lia|exact Ee].
Qed.

(* jcphuff.c emit_eobrun never hits its "nbits > 14" check below the forced flush *)
Lemma emit_eobrun_total e be : 0 <= e <= 32767 -> exists bits, emit_eobrun ac e be = Some bits.
Proof.
  intros He. unfold emit_eobrun. destruct (e >? 0) eqn:E0; [|eexists; reflexivity]. apply Z.gtb_lt in E0.
  pose proof (nbits_bounds e E0) as [Hn1 [Hlo Hhi]].
  assert (Hn : nbits e <= 15).
  { destruct (Z.le_gt_cases (nbits e) 15) as [H|H]; [exact H|].
    assert (2 ^ 15 <= 2 ^ (nbits e - 1)) by (apply Z.pow_le_mono_r; lia). change (2 ^ 15) with 32768 in *. lia. }
  replace (nbits e - 1 >? 14) with false by (symmetry; rewrite Z.gtb_ltb; apply Z.ltb_ge; lia).
  destruct (c_enc ac ((nbits e - 1) * 16)) as [c|] eqn:Ec; [eexists; reflexivity|]. exfalso. apply (ac_cov ((nbits e - 1) * 16)); [lia|exact Ec].
Qed.

(* jcphuff.c encode_mcu_AC_first over a whole interval: EOBRUN stays below 0x7FFF *)
Theorem enc_acf_blocks_total Ss Se Al : forall bl e, 0 <= e < 32767 ->
  Forall (fun b => Forall (coef_ok mcb) (acf_band Ss Se Al b)) bl ->
  exists bits, enc_acf_blocks ac mcb Ss Se Al bl e = Some bits.
Proof.
  induction bl as [|b t IH]; intros e He HF; [cbn; apply emit_eobrun_total; lia|].
  inversion HF as [|? ? Hb Ht]; subst. cbn [enc_acf_blocks].
  assert (Hblk : exists bits e', enc_acf_block ac mcb Ss Se Al b e = Some (bits, e') /\ 0 <= e' < 32767).
  { unfold enc_acf_block.
    destruct (enc_band_total (acf_band Ss Se Al b) 0 ltac:(lia) Hb) as (bb & r & Hbb & Hr). rewrite Hbb.
    destruct (negb (forallb (Z.eqb 0) (acf_band Ss Se Al b))).
    - destruct (emit_eobrun_total e [] ltac:(lia)) as [pre Hp]. rewrite Hp.
      destruct (r >? 0); [|eexists _, 0; split; [reflexivity|lia]].
      change (0 + 1 =? EOBRUN_FLUSH) with false. cbv iota. eexists _, 1. split; [reflexivity|lia].
    - destruct (r >? 0); [|eexists _, e; split; [reflexivity|lia]].
      destruct (e + 1 =? EOBRUN_FLUSH) eqn:Ef.
      + destruct (emit_eobrun_total (e + 1) [] ltac:(lia)) as [fl Hfl]. rewrite Hfl. eexists _, 0. split; [reflexivity|lia].
      + apply Z.eqb_neq in Ef. unfold EOBRUN_FLUSH in Ef. eexists _, (e + 1). split; [reflexivity|lia]. }
  destruct Hblk as (bits & e' & Hbk & He'). rewrite Hbk. destruct (IH e' He' Ht) as [rest Hr]. rewrite Hr. eexists; reflexivity.
Qed.
End Tot.

(* the arithmetic encoders have no failure path at all (lengths apart) *)
Theorem arith_encoders_total cs Al Ss Se Ah bl ms :
  (exists ds, aacf_enc_blocks cs Al Ss Se bl = Some ds) /\ (exists ds, aacr_enc_blocks cs Al Ss Se Ah bl = Some ds) /\
  (exists ds, adcr_enc_mcus Al ms = Some ds).
Proof. repeat split; eexists; reflexivity. Qed.

Lemma aseq_enc_mcu_total cs : forall mm blocks ldc ctx, length blocks = length mm ->
  exists r, aseq_enc_mcu cs mm blocks ldc ctx = Some r.
Proof.
  induction mm as [|ci mt IH]; intros blocks ldc ctx Hl.
  - destruct blocks; [eexists; reflexivity|discriminate].
  - destruct blocks as [|b bt]; [discriminate|]. cbn [aseq_enc_mcu]. destruct (enc_dc_arith _ _ _ _) as [dcd ctx'].
    cbn [length] in Hl. destruct (IH bt (upd ci (nth 0%nat b 0) ldc) (upd ci ctx' ctx) ltac:(lia)) as [[[r1 l1] c1] Hr]. rewrite Hr.
    eexists; reflexivity.
Qed.
