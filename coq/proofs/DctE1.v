(* C07 -- e1 discharged: for every block of centred valid samples the output of the integer forward DCT,
   divided by 8, is within e1 (Euclidean norm over the 64 coefficients) of the exact real 2-D DCT:
   rounding part (proofs/DctRound.v) + constant accuracy of the flow-graph matrix (proofs/DctAcc.v). *)
From Coq Require Import List ZArith Lia Reals Lra Psatz.
From LJT Require Import gen.GenDctConst model.Quant model.Dct proofs.QuantCert proofs.QuantProofs proofs.DctProofs proofs.DctRange
  proofs.DctRound proofs.RmsBound proofs.DctOrth proofs.DctAcc.
Import ListNotations.
Local Open Scope R_scope.

Definition vecZ (l : list Z) : nat -> R := fun i => IZR (nth i l 0%Z).

Lemma IZR_dot8 k d : IZR (dot8 k d) = rsum 8 (fun i => IZR (Mz k i) * IZR (d i)).
Proof. unfold dot8. cbn [rsum]. rewrite !plus_IZR, !mult_IZR. ring. Qed.

Lemma rsum_abs_bound n f b : (forall i, (i < n)%nat -> Rabs (f i) <= b) -> Rabs (rsum n f) <= INR n * b.
Proof.
  induction n as [|n IH]; intros H; cbn [rsum].
  - rewrite Rabs_R0. simpl. lra.
  - rewrite S_INR. eapply Rle_trans; [apply Rabs_triang|].
    assert (Rabs (rsum n f) <= INR n * b) by (apply IH; intros; apply H; lia).
    assert (Rabs (f n) <= b) by (apply H; lia). lra.
Qed.

Lemma Forall2_nth {A B} (P : A -> B -> Prop) l l' d d' j : Forall2 P l l' -> (j < length l)%nat -> P (nth j l d) (nth j l' d').
Proof.
  intros H. revert j. induction H as [|a b l l' Hab H IH]; intros j Hj; [cbn in Hj; lia|].
  destruct j; cbn; [exact Hab|apply IH; cbn in Hj; lia].
Qed.
Lemma Forall_nth' {A} (P : A -> Prop) l d j : Forall P l -> (j < length l)%nat -> P (nth j l d).
Proof. intros H. revert j. induction H; intros j Hj; [cbn in Hj; lia|]. destruct j; cbn; [assumption|apply IHForall; cbn in Hj; lia]. Qed.

(* |m m' - a a'| for entries of the two matrices *)
Lemma kron_entry_accuracy k i l j : matrix_accuracy_fact -> (k < 8)%nat -> (i < 8)%nat -> (l < 8)%nat -> (j < 8)%nat ->
  Rabs (mR k i * mR l j - aR k i * aR l j) <= 2815 / 1000 * acc_delta.
Proof.
  intros Hacc ? ? ? ?. destruct (matrix_accuracy_cases Hacc k i) as [A1 [B1 C1]]; try assumption.
  destruct (matrix_accuracy_cases Hacc l j) as [A2 [B2 C2]]; try assumption.
  replace (mR k i * mR l j - aR k i * aR l j) with (mR k i * (mR l j - aR l j) + (mR k i - aR k i) * aR l j) by ring.
  eapply Rle_trans; [apply Rabs_triang|]. rewrite !Rabs_mult.
  assert (0 <= Rabs (mR l j - aR l j)) by apply Rabs_pos. assert (0 <= Rabs (mR k i - aR k i)) by apply Rabs_pos.
  assert (0 <= Rabs (mR k i)) by apply Rabs_pos. assert (0 <= Rabs (aR l j)) by apply Rabs_pos.
  unfold acc_delta in *. nra.
Qed.

Definition cmax (cf : cfg) : R := IZR (centersample cf).
(* per-coefficient accuracy, in coefficient units (scaled by 8) *)
Definition eta8 (cf : cfg) : R := IZR (rbound cf) / 67108864 + 64 * (2815 / 1000 * acc_delta) * cmax cf.
Definition e1_bound (cf : cfg) : R := eta8 cf.      (* = 8 * (eta8 / 8): Euclidean norm over 64 entries of F/8 - A2 x *)

Lemma aR_kron j p : aR (j / 8) (p / 8) * aR (j mod 8) (p mod 8) = 8 * dctA2 j p.
Proof.
  unfold aR, dctA2. replace 8 with (sqrt 8 * sqrt 8) at 3 by (apply sqrt_sqrt; lra). ring.
Qed.

Lemma nth_lin2 data j : (j < 64)%nat -> nth j (map (lin2_entry data) (seq 0 64)) 0%Z = lin2_entry data j.
Proof.
  intros Hj. rewrite (nth_indep _ 0%Z (lin2_entry data 0%nat)) by (rewrite map_length, seq_length; exact Hj).
  rewrite map_nth. rewrite seq_nth by exact Hj. reflexivity.
Qed.

Lemma coef_round_real cf data j : cfg_ok cf -> length data = 64%nat -> Forall (inb (centersample cf)) data -> (j < 64)%nat ->
  Rabs (IZR (nth j (fdct_islow cf data) 0%Z) - IZR (lin2_entry data j) / 67108864) <= IZR (rbound cf) / 67108864.
Proof.
  intros Hok Hlen HF Hj.
  pose proof (fdct_rounding_error_proof cf data Hok Hlen HF) as HR.
  assert (HlenF : length (fdct_islow cf data) = 64%nat) by (apply fdct_length; exact Hlen).
  pose proof (Forall2_nth _ _ _ 0%Z 0%Z j HR ltac:(lia)) as Hr. cbv beta in Hr.
  rewrite (fdct_lin2d_kronecker data Hlen), (nth_lin2 data j Hj) in Hr.
  set (F := nth j (fdct_islow cf data) 0%Z) in *. set (L := lin2_entry data j) in *. clearbody F L. clear HR HlenF.
  destruct Hr as [Hr1 Hr2]. apply IZR_le in Hr1, Hr2. rewrite minus_IZR, mult_IZR in Hr1, Hr2.
  rewrite opp_IZR in Hr1. change (IZR (2 ^ 26)) with 67108864 in Hr1, Hr2.
  apply Rabs_le. split; lra.
Qed.

Lemma lin2_real data j :
  IZR (lin2_entry data j) / 67108864 = rsum 64 (fun p => mR (j / 8) (p / 8) * mR (j mod 8) (p mod 8) * vecZ data p).
Proof.
  unfold lin2_entry. rewrite IZR_dot8.
  change 64%nat with (8 * 8)%nat. rewrite rsum_block.
  unfold Rdiv. rewrite <- rsum_scal_r. apply rsum_ext. intros y Hy.
  rewrite IZR_dot8. rewrite Rmult_assoc, <- rsum_scal_r, <- rsum_scal. apply rsum_ext. intros x Hx.
  destruct (divmod8 y x Hx) as [-> ->]. unfold mR, vecZ.
  replace (8 * y + x)%nat with (y * 8 + x)%nat by lia. field.
Qed.

Lemma dct2_real (X : nat -> R) j :
  8 * ap 64 dctA2 X j = rsum 64 (fun p => aR (j / 8) (p / 8) * aR (j mod 8) (p mod 8) * X p).
Proof. unfold ap. rewrite <- rsum_scal. apply rsum_ext. intros p _. rewrite aR_kron. ring. Qed.

Lemma const_part cf (X : nat -> R) j : matrix_accuracy_fact -> (j < 64)%nat -> 0 <= cmax cf -> (forall p, (p < 64)%nat -> Rabs (X p) <= cmax cf) ->
  Rabs (rsum 64 (fun p => mR (j / 8) (p / 8) * mR (j mod 8) (p mod 8) * X p) -
        rsum 64 (fun p => aR (j / 8) (p / 8) * aR (j mod 8) (p mod 8) * X p)) <= 64 * (2815 / 1000 * acc_delta * cmax cf).
Proof.
  intros Hacc Hj Hc0 HX.
  replace (rsum 64 (fun p => mR (j / 8) (p / 8) * mR (j mod 8) (p mod 8) * X p) -
           rsum 64 (fun p => aR (j / 8) (p / 8) * aR (j mod 8) (p mod 8) * X p))
    with (rsum 64 (fun p => (mR (j / 8) (p / 8) * mR (j mod 8) (p mod 8) - aR (j / 8) (p / 8) * aR (j mod 8) (p mod 8)) * X p)).
  2:{ rewrite (rsum_ext 64 _ (fun p => mR (j / 8) (p / 8) * mR (j mod 8) (p mod 8) * X p
                                  + (-1) * (aR (j / 8) (p / 8) * aR (j mod 8) (p mod 8) * X p))) by (intros; ring).
      rewrite rsum_plus, rsum_scal. ring. }
  replace 64 with (INR 64) at 1 by (simpl; lra). apply rsum_abs_bound. intros p Hp.
  rewrite Rabs_mult.
  assert (Hk : Rabs (mR (j / 8) (p / 8) * mR (j mod 8) (p mod 8) - aR (j / 8) (p / 8) * aR (j mod 8) (p mod 8))
               <= 2815 / 1000 * acc_delta).
  { apply (kron_entry_accuracy _ _ _ _ Hacc); try (apply Nat.div_lt_upper_bound; lia); apply Nat.mod_upper_bound; lia. }
  specialize (HX p Hp).
  assert (0 <= Rabs (X p)) by apply Rabs_pos.
  generalize dependent (Rabs (mR (j / 8) (p / 8) * mR (j mod 8) (p mod 8) - aR (j / 8) (p / 8) * aR (j mod 8) (p mod 8))).
  intros r Hk. assert (0 <= 2815 / 1000 * acc_delta) by (unfold acc_delta; lra).
  destruct (Rle_dec 0 r); nra.
Qed.

Lemma fdct_accuracy_coef : matrix_accuracy_fact -> forall cf data j, cfg_ok cf -> length data = 64%nat ->
  Forall (inb (centersample cf)) data -> (j < 64)%nat ->
  Rabs (vecZ (fdct_islow cf data) j / 8 - ap 64 dctA2 (vecZ data) j) <= eta8 cf / 8.
Proof.
  intros Hacc cf data j Hok Hlen HF Hj.
  assert (Hc0 : 0 <= cmax cf) by (unfold cmax; apply IZR_le; destruct Hok as [[H _]|[H _]]; unfold centersample; rewrite H; vm_compute; discriminate).
  pose proof (coef_round_real cf data j Hok Hlen HF Hj) as HrR.
  assert (HX : forall p, (p < 64)%nat -> Rabs (vecZ data p) <= cmax cf).
  { intros p Hp. unfold vecZ, cmax. pose proof (Forall_nth' _ data 0%Z p HF ltac:(lia)) as Hb. unfold inb in Hb.
    destruct Hb as [Hb1 Hb2]. apply IZR_le in Hb1, Hb2. rewrite opp_IZR in Hb1. apply Rabs_le. lra. }
  pose proof (const_part cf (vecZ data) j Hacc Hj Hc0 HX) as HC.
  rewrite <- lin2_real, <- dct2_real in HC.
  unfold vecZ at 1.
  generalize dependent (IZR (nth j (fdct_islow cf data) 0%Z)). generalize dependent (IZR (lin2_entry data j) / 67108864).
  generalize dependent (ap 64 dctA2 (vecZ data) j).
  intros Aj Lr HC Fr HrR.
  replace (Fr / 8 - Aj) with (((Fr - Lr) + (Lr - 8 * Aj)) / 8) by field.
  unfold Rdiv at 1. rewrite Rabs_mult. rewrite (Rabs_pos_eq (/ 8)) by lra.
  assert (Rabs (Fr - Lr + (Lr - 8 * Aj)) <= eta8 cf).
  { eapply Rle_trans; [apply Rabs_triang|]. unfold eta8. lra. }
  lra.
Qed.

Theorem fdct_accuracy_proof : matrix_accuracy_fact -> forall cf data, cfg_ok cf -> length data = 64%nat ->
  Forall (inb (centersample cf)) data ->
  norm2 64 (fun k => vecZ (fdct_islow cf data) k / 8 - ap 64 dctA2 (vecZ data) k) <= e1_bound cf * e1_bound cf.
Proof.
  intros Hacc cf data Hok Hlen HF.
  pose proof (fdct_rounding_error_proof cf data Hok Hlen HF) as HR.
  pose proof (fdct_lin2d_kronecker data Hlen) as HK.
  assert (HlenF : length (fdct_islow cf data) = 64%nat) by (apply fdct_length; exact Hlen).
  assert (Hc0 : 0 <= cmax cf) by (unfold cmax; apply IZR_le; destruct Hok as [[H _]|[H _]]; unfold centersample; rewrite H; vm_compute; discriminate).
  assert (Hrb : 0 <= IZR (rbound cf)).
  { apply IZR_le. unfold rbound, sh1. destruct Hok as [[H _]|[H _]]; unfold fpass1; rewrite H; vm_compute; discriminate. }
  assert (Heta : 0 <= eta8 cf) by (unfold eta8, acc_delta; nra).
  assert (Hper : forall j, (j < 64)%nat ->
            Rabs (vecZ (fdct_islow cf data) j / 8 - ap 64 dctA2 (vecZ data) j) <= eta8 cf / 8)
    by (intros j Hj; apply (fdct_accuracy_coef Hacc); assumption).
  (* sum of 64 squares *)
  unfold norm2, dot, e1_bound.
  eapply Rle_trans.
  - apply (rsum_le 64 _ (fun _ => (eta8 cf / 8) * (eta8 cf / 8))). intros j Hj. specialize (Hper j Hj).
    set (t := vecZ (fdct_islow cf data) j / 8 - ap 64 dctA2 (vecZ data) j) in *.
    assert (0 <= Rabs t) by apply Rabs_pos.
    assert (Hsq : t * t = Rabs t * Rabs t) by (unfold Rabs; destruct (Rcase_abs t); ring).
    clearbody t. rewrite Hsq. assert (0 <= eta8 cf / 8) by lra. nra.
  - assert (E : forall n c, rsum n (fun _ => c) = INR n * c).
    { induction n as [|n IHn]; intros c; [simpl; ring|]. cbn [rsum]. rewrite IHn, S_INR. ring. }
    rewrite E. replace (INR 64) with 64 by (simpl; lra). right. field.
Qed.
