(* C07 -- proofs about model/C07Ctl.v: an MCU row is encoded from the same sample columns for
   every suspension schedule; the tables used for quantisation are the tables the decoder holds
   after every sequence of table updates. *)
From Coq Require Import List ZArith Bool Arith Lia.
From LJT Require Import gen.GenC07Ctl model.C07Ctl.
Import ListNotations.
Local Open Scope Z_scope.

(* ---------------------------------------------------------------- (1) *)
Definition columns (w s : Z) (n : nat) : list (Z * Z) :=
  map (fun i => (s + Z.of_nat i, (s + Z.of_nat i) * w)) (seq 0 n).

Lemma columns_S w s n : columns w s (S n) = (s, s * w) :: columns w (s + 1) n.
Proof.
  unfold columns. cbn [seq map]. rewrite Z.add_0_r. f_equal.
  rewrite <- seq_shift, map_map. apply map_ext. intros i.
  replace (s + Z.of_nat (S i)) with (s + 1 + Z.of_nat i) by lia. reflexivity.
Qed.

Lemma emit_run_product w k off c : emit_run true w k off c = columns w k c.
Proof.
  revert k off. induction c as [|c IH]; intros k off; [reflexivity|].
  cbn [emit_run]. rewrite columns_S, IH. reflexivity.
Qed.

Lemma columns_app w s a b : columns w s (a + b) = columns w s a ++ columns w (s + Z.of_nat a) b.
Proof.
  revert s. induction a as [|a IH]; intros s.
  - cbn. rewrite Z.add_0_r. reflexivity.
  - replace (S a + b)%nat with (S (a + b)) by lia. rewrite !columns_S, IH. cbn [app]. do 3 f_equal. lia.
Qed.

Lemma mcu_row_product w sched : forall n s, mcu_row true w n s sched = columns w s n.
Proof.
  induction sched as [|c rest IH]; intros n s; cbn [mcu_row]; [apply emit_run_product|].
  rewrite emit_run_product. cbv zeta.
  destruct (n - Nat.min c n =? 0)%nat eqn:E.
  - apply Nat.eqb_eq in E. rewrite app_nil_r. f_equal. lia.
  - apply Nat.eqb_neq in E. rewrite IH. rewrite <- columns_app. f_equal. lia.
Qed.

Theorem suspension_independent_proof : forall w n sched,
  compress_row w n sched = map (fun i => (Z.of_nat i, Z.of_nat i * w)) (seq 0 n).
Proof.
  intros. unfold compress_row. change xpos_is_mcu_col_times_width with true.
  rewrite mcu_row_product. unfold columns. apply map_ext. intros i. reflexivity.
Qed.

(* the running-offset rule is not independent of the schedule *)
Lemma running_offset_refuted_proof :
  mcu_row false 8 4 0 [] = [(0, 0); (1, 8); (2, 16); (3, 24)] /\
  mcu_row false 8 4 0 [2%nat] = [(0, 0); (1, 8); (2, 0); (3, 8)].
Proof. split; reflexivity. Qed.

(* ---------------------------------------------------------------- (2) *)
Lemma upd_same {A} (f : nat -> A) t v : upd f t v t = v.
Proof. unfold upd. rewrite Nat.eqb_refl. reflexivity. Qed.
Lemma upd_other {A} (f : nat -> A) t u v : u <> t -> upd f t v u = f u.
Proof. intros H. unfold upd. destruct (u =? t)%nat eqn:E; [apply Nat.eqb_eq in E; contradiction|reflexivity]. Qed.

Lemma emit_dqt_consistent cd t : consistent cd -> consistent (emit_dqt cd t).
Proof.
  destruct cd as [c d]. unfold emit_dqt. intros H.
  destruct (c t) as [tb|] eqn:Ec; [|exact H]. destruct (t_sent tb) eqn:Es; [exact H|].
  intros u tb' Hu Hs. cbn [fst snd] in Hu |- *.
  destruct (Nat.eq_dec u t) as [Heq|Hne].
  - subst u. rewrite upd_same in Hu. rewrite upd_same. inversion Hu. reflexivity.
  - rewrite upd_other in Hu by exact Hne. rewrite upd_other by exact Hne. apply (H u tb'); assumption.
Qed.

(* table t is absent or marked sent *)
Definition good (cd : cstate * dstate) (t : nat) : Prop :=
  match fst cd t with None => True | Some tb => t_sent tb = true end.

Lemma emit_dqt_good_same cd t : good (emit_dqt cd t) t.
Proof.
  destruct cd as [c d]. unfold good, emit_dqt. destruct (c t) as [tb|] eqn:Ec.
  - destruct (t_sent tb) eqn:Es; cbn [fst]; [rewrite Ec; exact Es|rewrite upd_same; reflexivity].
  - cbn [fst]. rewrite Ec. exact I.
Qed.
Lemma emit_dqt_good_keep cd x t : good cd t -> good (emit_dqt cd x) t.
Proof.
  destruct cd as [c d]. unfold good, emit_dqt. cbn [fst]. intros H.
  destruct (c x) as [tb|] eqn:Ec; [|exact H]. destruct (t_sent tb) eqn:Es; [exact H|]. cbn [fst].
  destruct (Nat.eq_dec t x) as [->|Hne]; [rewrite upd_same; reflexivity|rewrite upd_other by exact Hne; exact H].
Qed.
Lemma fold_emit_consistent l : forall cd, consistent cd -> consistent (fold_left emit_dqt l cd).
Proof. induction l as [|t l IH]; intros cd H; [exact H|]. cbn [fold_left]. apply IH, emit_dqt_consistent, H. Qed.
Lemma fold_emit_good l : forall cd t, In t l \/ good cd t -> good (fold_left emit_dqt l cd) t.
Proof.
  induction l as [|x l IH]; intros cd t H; cbn [fold_left].
  - destruct H as [[]|H]; exact H.
  - apply IH. destruct H as [[->|Hin]|Hg].
    + right. apply emit_dqt_good_same.
    + left. exact Hin.
    + right. apply emit_dqt_good_keep, Hg.
Qed.

(* after jpeg_start_compress every table a component uses is held by the decoder *)
Lemma start_tables_match c d wat used : consistent (c, d) ->
  forall t tb, In t used -> fst (step (c, d) (Start wat used)) t = Some tb ->
    snd (step (c, d) (Start wat used)) t = Some (t_vals tb).
Proof.
  intros H t tb Hin Ht. cbn [step] in *.
  set (cd0 := ((if wat then suppress_tables c false else c), d)) in *.
  assert (H0 : consistent cd0).
  { unfold cd0. destruct wat; [|exact H]. intros u tb' Hu Hs. cbn [fst] in Hu. unfold suppress_tables in Hu.
    destruct (u <? 4)%nat; [|apply (H u tb'); assumption].
    destruct (c u); [|discriminate]. injection Hu as <-. discriminate Hs. }
  apply (fold_emit_consistent used cd0 H0 t tb Ht).
  pose proof (fold_emit_good used cd0 t (or_introl Hin)) as G. unfold good in G. rewrite Ht in G. exact G.
Qed.

Lemma step_consistent cd o : add_quant_table_resets_sent = true -> consistent cd -> consistent (step cd o).
Proof.
  intros Hadd H. destruct cd as [c d]. destruct o as [t v|t v|wat used|]; cbn [step].
  - rewrite Hadd. intros u tb Hu Hs. cbn [fst snd] in *. destruct (Nat.eq_dec u t) as [->|Hne].
    + rewrite upd_same in Hu. injection Hu as <-. discriminate Hs.
    + rewrite upd_other in Hu by exact Hne. apply (H u tb); assumption.
  - intros u tb Hu Hs. cbn [fst snd] in *. destruct (Nat.eq_dec u t) as [->|Hne].
    + rewrite upd_same in Hu. injection Hu as <-. discriminate Hs.
    + rewrite upd_other in Hu by exact Hne. apply (H u tb); assumption.
  - apply fold_emit_consistent. destruct wat; [|exact H].
    intros u tb Hu Hs. cbn [fst] in Hu. unfold suppress_tables in Hu.
    destruct (u <? 4)%nat; [|apply (H u tb); assumption].
    destruct (c u); [|discriminate]. injection Hu as <-. discriminate Hs.
  - destruct (fold_left emit_dqt [0%nat; 1%nat; 2%nat; 3%nat] (c, d)) as [c' d'] eqn:E.
    assert (Hc : consistent (c', d')) by (rewrite <- E; apply fold_emit_consistent; exact H).
    intros u tb Hu Hs. cbn [fst snd] in *. unfold suppress_tables in Hu.
    destruct (u <? 4)%nat eqn:Eu4; [|apply (Hc u tb); assumption].
    destruct (c' u) as [tb0|] eqn:Eu; [|discriminate]. injection Hu as <-. cbn [t_vals].
    apply (Hc u tb0 Eu).
    pose proof (fold_emit_good [0%nat; 1%nat; 2%nat; 3%nat] (c, d) u) as G. rewrite E in G. unfold good in G. cbn [fst] in G.
    rewrite Eu in G. apply G. left. apply Nat.ltb_lt in Eu4. cbn. lia.
Qed.

Lemma run_consistent ops : add_quant_table_resets_sent = true -> forall cd, consistent cd -> consistent (run cd ops).
Proof.
  intros Hadd. unfold run. induction ops as [|o ops IH]; intros cd H; [exact H|].
  cbn [fold_left]. apply IH, step_consistent; assumption.
Qed.

(* the tables used for quantisation = the tables the decoder holds: a fresh compression object
   (no table marked sent), ANY sequence of table updates / earlier images, then an image whose
   components use the tables `used` *)
Theorem tables_match_proof : forall c0 d0 ops wat used,
  (forall t tb, c0 t = Some tb -> t_sent tb = false) ->
  let cd := step (run (c0, d0) ops) (Start wat used) in
  forall t tb, In t used -> fst cd t = Some tb -> snd cd t = Some (t_vals tb).
Proof.
  intros c0 d0 ops wat used Hfresh cd t tb Hin Ht.
  assert (H0 : consistent (c0, d0)).
  { intros u tb' Hu Hs. cbn [fst] in Hu. rewrite (Hfresh u tb' Hu) in Hs. discriminate. }
  pose proof (run_consistent ops eq_refl (c0, d0) H0) as H1.
  destruct (run (c0, d0) ops) as [c1 d1]. exact (start_tables_match c1 d1 wat used H1 t tb Hin Ht).
Qed.

(* without the reset (flag false in the model) the protocol breaks: a table replaced after it was
   sent stays marked sent and the decoder keeps the old values *)
Definition step_noreset (cd : cstate * dstate) (o : op) : cstate * dstate :=
  match o with
  | AddQuant t v => let (c, d) := cd in
      (upd c t (Some (mkctab v (match c t with Some tb => t_sent tb | None => false end))), d)
  | _ => step cd o
  end.
Lemma noreset_refuted_proof :
  let cd := fold_left step_noreset [AddQuant 0 [16]; Start true [0%nat]; AddQuant 0 [99]; Start false [0%nat]]
                      ((fun _ => None), (fun _ => None)) in
  option_map t_vals (fst cd 0%nat) = Some [99] /\ snd cd 0%nat = Some [16].
Proof. split; reflexivity. Qed.

(* ---------------------------------------------------------------- (3) *)
(* whenever the wait loop of decompress_data has been left (its condition is false), the row about to
   be output holds the data of the scan being output -- for the look-ahead generated from the source *)
Theorem output_row_has_scan_data_proof : forall fuel nrows so ro p,
  let p' := force_input fuel decompress_data_rows_ahead nrows so ro p in
  must_read decompress_data_rows_ahead so ro p' = false -> row_has_scan_data so ro p'.
Proof.
  intros fuel nrows so ro p p' H. change decompress_data_rows_ahead with 1%nat in *.
  destruct p' as [si ri]. unfold must_read in H. unfold row_has_scan_data.
  apply Bool.orb_false_iff in H. destruct H as [H1 H2].
  apply Nat.ltb_ge in H1. apply Bool.andb_false_iff in H2.
  destruct H2 as [H2|H2]; [apply Nat.eqb_neq in H2; left; lia|apply Nat.ltb_ge in H2].
  destruct (Nat.eq_dec si so); [right; lia|left; lia].
Qed.

(* with no look-ahead the loop is left one row too early *)
Lemma no_lookahead_refuted_proof :
  force_input 100 0 6 3 0 (3%nat, 0%nat) = (3%nat, 0%nat) /\ must_read 0 3 0 (3%nat, 0%nat) = false /\
  ~ row_has_scan_data 3 0 (3%nat, 0%nat).
Proof. split; [reflexivity|]. split; [reflexivity|]. unfold row_has_scan_data. lia. Qed.

(* ---------------------------------------------------------------- (4) *)
Lemma idct_pass_inv q lats : latch_monotone q lats ->
  forall st, (fst st = true -> snd st = Some q) ->
  let st' := fold_left (idct_start_pass true) lats st in
  (fst st' = true -> snd st' = Some q).
Proof.
  induction lats as [|l lats IH]; intros Hm st Hst; [exact Hst|].
  cbn [fold_left]. destruct l as [q'|].
  - cbn [latch_monotone] in Hm. destruct Hm as [-> HF].
    apply IH.
    + clear IH Hst. induction HF as [|x r Hx HF IH2]; [exact I|]. subst x. cbn [latch_monotone]. split; [reflexivity|exact HF].
    + destruct st as [b t]. unfold idct_start_pass. destruct b; cbn [fst snd]; auto.
  - cbn [latch_monotone] in Hm. apply IH; [exact Hm|].
    destruct st as [b t]. unfold idct_start_pass. destruct b; cbn [fst snd]; auto.
Qed.

(* a multiplier table is built only from a latched table, and a pass whose component has a latched
   table q always runs with the multipliers of q, whatever passes came before *)
Theorem idct_table_from_latched_proof : forall q lats,
  latch_monotone q (lats ++ [Some q]) -> idct_passes (lats ++ [Some q]) = (true, Some q).
Proof.
  intros q lats Hm. unfold idct_passes. change idct_marks_table_built_after_quant_table_check with true.
  rewrite fold_left_app. cbn [fold_left].
  assert (Hpre : latch_monotone q lats).
  { clear - Hm. induction lats as [|l r IH]; [exact I|]. destruct l as [q'|]; cbn [app latch_monotone] in *.
    - destruct Hm as [-> HF]. split; [reflexivity|]. apply Forall_app in HF. exact (proj1 HF).
    - apply IH, Hm. }
  pose proof (idct_pass_inv q lats Hpre (false, None) ltac:(discriminate)) as Hinv. cbv zeta in Hinv.
  destruct (fold_left (idct_start_pass true) lats (false, None)) as [b t]. cbn [fst snd] in Hinv.
  unfold idct_start_pass. destruct b; [rewrite Hinv by reflexivity|]; reflexivity.
Qed.

Lemma idct_mark_first_refuted_proof :
  fold_left (idct_start_pass false) [None; Some [16]] (false, None) = (true, None).
Proof. reflexivity. Qed.
