(* DCoefProofs.v -- the block indices of consume_data / decompress_onepass / decompress_data stay inside the
   virtual arrays for every accepted header geometry, incl. the last partial MCU row / column. *)
From Coq Require Import List ZArith Bool Lia ZifyBool.
From LJT Require Import gen.GenLimits model.Huff model.DMarkers model.DCoef proofs.DMarkersProofs.
Import ListNotations.
Local Open Scope Z_scope.

Lemma dru_spec a b : 0 <= a -> 1 <= b -> (div_round_up a b - 1) * b < a <= div_round_up a b * b \/ (a = 0 /\ div_round_up a b = 0).
Proof.
  intros Ha Hb. unfold div_round_up.
  pose proof (Z.div_mod (a + b - 1) b ltac:(lia)) as E. pose proof (Z.mod_pos_bound (a + b - 1) b ltac:(lia)) as M.
  destruct (Z.eq_dec a 0) as [->|Hn].
  - right. split; auto. apply Z.div_small. lia.
  - left. nia.
Qed.

Lemma dru_bounds a b : 1 <= a -> 1 <= b -> (div_round_up a b - 1) * b < a <= div_round_up a b * b /\ 1 <= div_round_up a b.
Proof. intros Ha Hb. destruct (dru_spec a b ltac:(lia) Hb) as [H|[H _]]; [|lia]. split; [exact H|nia]. Qed.

(* rounding the component's block count up to a multiple of its sampling factor gives exactly
   (number of MCUs of a fully interleaved scan) x (sampling factor) *)
Lemma round_up_dim X s m : 1 <= X -> 1 <= s <= m -> 1 <= m ->
  round_up (div_round_up (X * s) (m * L_DCTSIZE)) s = div_round_up X (m * L_DCTSIZE) * s.
Proof.
  intros HX Hs Hm. unfold round_up. f_equal.
  set (D := m * L_DCTSIZE). assert (HD : 1 <= D) by (unfold D; ulia).
  destruct (dru_bounds X D HX HD) as [[T1 T2] T3]. set (T := div_round_up X D) in *.
  assert (HXs : 1 <= X * s) by nia.
  destruct (dru_bounds (X * s) D HXs HD) as [[W1 W2] W3]. set (w := div_round_up (X * s) D) in *.
  assert (Hw1 : w <= T * s) by nia.
  assert (Hw2 : (T - 1) * s < w) by nia.
  destruct (dru_bounds w s ltac:(lia) ltac:(lia)) as [[R1 R2] R3]. nia.
Qed.

Lemma coef_rows_safe H v mv r : 1 <= H -> 1 <= v <= mv -> 0 <= r < total_iMCU_rows H mv ->
  0 <= r * v /\ window_last_row r v < varr_rows H v mv.
Proof.
  intros HH Hv Hr. unfold varr_rows, hib, total_iMCU_rows, window_last_row in *.
  rewrite round_up_dim by lia. nia.
Qed.

Lemma coef_cols_interleaved W h mh m x : 1 <= W -> 1 <= h <= mh -> 0 <= m < interleaved_mcus_per_row W mh -> 0 <= x < h ->
  0 <= interleaved_col m h x < varr_cols W h mh.
Proof.
  intros HW Hh Hm Hx. unfold varr_cols, wib, interleaved_mcus_per_row, interleaved_col in *.
  rewrite round_up_dim by lia. nia.
Qed.

Lemma coef_cols_single W h mh m : 1 <= W -> 1 <= h <= mh -> 0 <= m < wib W h mh -> 0 <= m < varr_cols W h mh.
Proof.
  intros HW Hh Hm. unfold varr_cols, round_up.
  assert (1 <= wib W h mh) by lia.
  destruct (dru_bounds (wib W h mh) h ltac:(lia) ltac:(lia)) as [[R1 R2] R3]. lia.
Qed.

Lemma mcu_blocks_prefix : forall comps, Forall (fun c => 1 <= fst c /\ 1 <= snd c) comps -> 0 <= mcu_blocks comps.
Proof. induction 1 as [|c t [A B] Ht IH]; cbn; [lia|]. fold (mcu_blocks t). nia. Qed.

(* consume_data / decompress_onepass: all block indices of one MCU *)
Lemma coef_index_safe_ : forall W H mh mv, 1 <= W -> 1 <= H -> 1 <= mh -> 1 <= mv ->
  forall h v, 1 <= h <= mh -> 1 <= v <= mv ->
  (* row window requested from the virtual array, for every iMCU row *)
  (forall r, 0 <= r < total_iMCU_rows H mv -> 0 <= r * v /\ window_last_row r v < varr_rows H v mv) /\
  (* interleaved scan: row inside the window, column, for every MCU column incl. the last partial one *)
  (forall m x y, 0 <= m < interleaved_mcus_per_row W mh -> 0 <= x < h -> 0 <= y < v ->
     0 <= y + 0 < v /\ 0 <= interleaved_col m h x < varr_cols W h mh) /\
  (* single-component scan: MCU = one block, yoffset < v (or last_row_height <= v), column < width_in_blocks *)
  (forall m yoff, 0 <= m < wib W h mh -> 0 <= yoff < v -> 0 <= 0 + yoff < v /\ 0 <= m < varr_cols W h mh).
Proof.
  intros W H mh mv HW HH Hmh Hmv h v Hh Hv. split; [|split].
  - intros r Hr. apply coef_rows_safe; auto.
  - intros m x y Hm Hx Hy. split; [lia|]. apply coef_cols_interleaved; auto.
  - intros m yoff Hm Hy. split; [lia|]. apply coef_cols_single; auto.
Qed.

(* MCU_buffer[blkn]: blkn runs below the block count of the MCU, which per_scan_setup bounds by D_MAX_BLOCKS_IN_MCU *)
Lemma mcu_buffer_index_safe_ : forall comps, Forall (fun c => 1 <= fst c /\ 1 <= snd c) comps ->
  mcu_blocks comps <= L_D_MAX_BLOCKS_IN_MCU ->
  forall pre c post, comps = pre ++ c :: post -> forall y x, 0 <= y < snd c -> 0 <= x < fst c ->
  0 <= mcu_blocks pre + y * fst c + x < L_D_MAX_BLOCKS_IN_MCU.
Proof.
  intros comps Hc Hb pre c post E y x Hy Hx. subst comps.
  apply Forall_app in Hc. destruct Hc as [Hp Hq]. inversion Hq as [|a l [Hc1 Hc2] Hl]; subst.
  pose proof (mcu_blocks_prefix pre Hp). pose proof (mcu_blocks_prefix post Hl).
  assert (E : mcu_blocks (pre ++ c :: post) = mcu_blocks pre + fst c * snd c + mcu_blocks post).
  { clear. induction pre as [|p t IH]; cbn; [fold (mcu_blocks post); lia|]. fold (mcu_blocks (t ++ c :: post)). fold (mcu_blocks t). lia. }
  rewrite E in Hb. nia.
Qed.

(* ------------------------------------------------------------ lossless difference rows (jddiffct.c / jdlhuff.c) *)
(* decode_mcus stores MCUs_per_row * MCU_width differences into a row of diff_buf[ci] (dummy samples of the last
   partial MCU included); the row length is read from the source (GenLimits.diff_buf_row) *)
Lemma round_up_dim1 X s m : 1 <= X -> 1 <= s <= m ->
  gen_round_up (div_round_up (X * s) m) s = div_round_up X m * s.
Proof.
  intros HX Hs. unfold gen_round_up. change ((div_round_up (X * s) m + s - 1) / s) with (div_round_up (div_round_up (X * s) m) s). f_equal.
  assert (HD : 1 <= m) by lia.
  destruct (dru_bounds X m HX HD) as [[T1 T2] T3]. set (T := div_round_up X m) in *.
  assert (HXs : 1 <= X * s) by nia.
  destruct (dru_bounds (X * s) m HXs HD) as [[W1 W2] W3]. set (w := div_round_up (X * s) m) in *.
  assert (Hw1 : w <= T * s) by nia.
  assert (Hw2 : (T - 1) * s < w) by nia.
  destruct (dru_bounds w s ltac:(lia) ltac:(lia)) as [[R1 R2] R3]. nia.
Qed.

Lemma diff_row_covers_mcus_ : forall W h mh, 1 <= W -> 1 <= h <= mh ->
  let wibl := div_round_up (W * h) mh in                       (* width_in_blocks, data unit 1 *)
  (* interleaved scan: MCUs_per_row = ceil(W / max_h), MCU_width = h *)
  div_round_up W mh * h <= diff_buf_row wibl h /\ div_round_up W mh * h <= undiff_buf_row wibl h /\
  (* single-component scan: MCUs_per_row = width_in_blocks, MCU_width = 1 *)
  wibl <= diff_buf_row wibl h /\ wibl <= undiff_buf_row wibl h.
Proof.
  intros W h mh HW Hh. cbv zeta. unfold diff_buf_row, undiff_buf_row.
  rewrite round_up_dim1 by lia.
  assert (HD : 1 <= mh) by lia.
  destruct (dru_bounds W mh HW HD) as [[T1 T2] T3].
  destruct (dru_bounds (W * h) mh ltac:(nia) HD) as [[W1 W2] W3].
  repeat split; try lia; nia.
Qed.
