(* F.1.2 / F.2.2: the sequential Huffman block decoder inverts the block encoder, for
   any pair of symbol coders whose decoder inverts its encoder (abstract prefix codes). *)
From Coq Require Import List ZArith Bool Lia Arith.
From LJT Require Import model.T81Spec.
Import ListNotations.
Local Open Scope Z_scope.
Ltac Zify.zify_post_hook ::= Z.div_mod_to_equations.

(* ------------------------------------------------------- RECEIVE / bits_of *)
Lemma testbit_split : forall c k, 0 <= k ->
  c mod 2 ^ (k + 1) = b2z (Z.testbit c k) * 2 ^ k + c mod 2 ^ k.
Proof.
  intros. replace (b2z (Z.testbit c k)) with (Z.b2z (Z.testbit c k)) by reflexivity.
  rewrite Z.testbit_spec' by assumption.
  rewrite Z.pow_add_r, Z.pow_1_r by lia.
  rewrite Z.rem_mul_r by (try apply Z.pow_nonzero; lia). lia.
Qed.

Lemma receive_bits_of : forall n acc c r,
  receive n acc (bits_of n c ++ r) = Some (acc * 2 ^ Z.of_nat n + c mod 2 ^ Z.of_nat n, r).
Proof.
  induction n; intros.
  - cbn [bits_of app receive Z.of_nat]. rewrite Z.pow_0_r, Z.mod_1_r. f_equal. f_equal. lia.
  - cbn [bits_of app receive]. rewrite IHn. f_equal. f_equal.
    rewrite Nat2Z.inj_succ. unfold Z.succ.
    rewrite (testbit_split c (Z.of_nat n)) by lia.
    rewrite Z.pow_add_r, Z.pow_1_r by lia. lia.
Qed.

Lemma bits_of_length : forall n c, length (bits_of n c) = n.
Proof. induction n; intros; cbn [bits_of length]; [reflexivity|]. rewrite IHn. reflexivity. Qed.

(* ------------------------------------------------------------- categories *)
Lemma nbits_pos_bounds : forall p, 1 <= nbits_pos p /\ 2 ^ (nbits_pos p - 1) <= Zpos p < 2 ^ nbits_pos p.
Proof.
  induction p; cbn [nbits_pos].
  - destruct IHp as [A [B C]]. split; [lia|].
    replace (1 + nbits_pos p - 1) with (nbits_pos p) by lia.
    replace (2 ^ nbits_pos p) with (2 * 2 ^ (nbits_pos p - 1)) by (rewrite <- Z.pow_succ_r by lia; f_equal; lia).
    rewrite Z.pow_add_r, Z.pow_1_r by lia. lia.
  - destruct IHp as [A [B C]]. split; [lia|].
    replace (1 + nbits_pos p - 1) with (nbits_pos p) by lia.
    replace (2 ^ nbits_pos p) with (2 * 2 ^ (nbits_pos p - 1)) by (rewrite <- Z.pow_succ_r by lia; f_equal; lia).
    rewrite Z.pow_add_r, Z.pow_1_r by lia. lia.
  - cbn. lia.
Qed.

Lemma category_pos : forall v, 0 < v -> 1 <= category v /\ 2 ^ (category v - 1) <= v < 2 ^ category v.
Proof. intros. destruct v; try lia. cbn [category]. apply nbits_pos_bounds. Qed.
Lemma category_neg : forall v, v < 0 -> 1 <= category v /\ 2 ^ (category v - 1) <= - v < 2 ^ category v.
Proof. intros. destruct v; try lia. cbn [category]. apply nbits_pos_bounds. Qed.
Lemma category_nonneg : forall v, 0 <= category v.
Proof. intros. destruct v; cbn [category]; try lia; pose proof (nbits_pos_bounds p); lia. Qed.
Lemma category_zero : forall v, category v = 0 -> v = 0.
Proof. intros. destruct v; [reflexivity| |]; cbn [category] in H; pose proof (nbits_pos_bounds p); lia. Qed.

(* F.1.2.1.1 + F.2.2.1: RECEIVE + EXTEND give the value back *)
Lemma recv_ext_extra : forall v r, recv_ext (category v) (extra_bits v ++ r) = Some (v, r).
Proof.
  intros. unfold recv_ext, extra_bits.
  destruct (category v =? 0) eqn:E.
  - apply Z.eqb_eq in E. rewrite E. cbn [Z.to_nat bits_of app]. rewrite (category_zero v E). reflexivity.
  - apply Z.eqb_neq in E. pose proof (category_nonneg v).
    rewrite receive_bits_of. rewrite Z2Nat.id by lia.
    destruct (v <? 0) eqn:Ev.
    + apply Z.ltb_lt in Ev. destruct (category_neg v Ev) as [A [B C]].
      assert (P : 2 ^ category v = 2 * 2 ^ (category v - 1))
        by (rewrite <- Z.pow_succ_r by lia; f_equal; lia).
      rewrite Z.mod_small by lia. unfold extend.
      destruct (0 * 2 ^ category v + (v - 1 + 2 ^ category v) <? 2 ^ (category v - 1)) eqn:Et.
      * f_equal. f_equal. lia.
      * apply Z.ltb_ge in Et. lia.
    + apply Z.ltb_ge in Ev. assert (0 < v) by (destruct (Z.eq_dec v 0); [subst; cbn in E; lia|lia]).
      destruct (category_pos v H0) as [A [B C]].
      rewrite Z.mod_small by lia. unfold extend.
      destruct (0 * 2 ^ category v + v <? 2 ^ (category v - 1)) eqn:Et.
      * apply Z.ltb_lt in Et. lia.
      * replace (0 * 2 ^ category v + v) with v by lia. reflexivity.
Qed.

(* ---------------------------------------------------------------- coders *)
Definition coder_ok (enc : Z -> option (list bool)) (dec : list bool -> option (Z * list bool)) : Prop :=
  forall s bits r, enc s = Some bits -> dec (bits ++ r) = Some (s, r).

Section Block.
  Variable dcE acE : Z -> option (list bool).
  Variable dcD acD : list bool -> option (Z * list bool).
  Hypothesis Hdc : coder_ok dcE dcD.
  Hypothesis Hac : coder_ok acE acD.

  Lemma repeat_snoc0 : forall n, repeat 0 n ++ [0] = repeat 0 (S n).
  Proof. induction n; [reflexivity|]. cbn [repeat app]. rewrite IHn. reflexivity. Qed.

  Lemma repeat_add : forall (a b : nat), repeat 0 a ++ repeat 0 b = repeat 0 (a + b).
  Proof. intros. symmetry. apply repeat_app. Qed.

  (* q ZRL symbols *)
  Lemma dec_ac_zrls : forall q zr fuel rem X,
    zrls acE q = Some zr -> 16 * Z.of_nat q < rem ->
    dec_ac acD (q + fuel) rem (zr ++ X) =
    match dec_ac acD fuel (rem - 16 * Z.of_nat q) X with
    | Some (l, r') => Some (repeat 0 (16 * q) ++ l, r')
    | None => None
    end.
  Proof.
    induction q; intros zr fuel rem X Hz Hrem.
    - cbn [zrls] in Hz. inversion Hz; subst. cbn [app Nat.add Nat.mul repeat].
      replace (rem - 16 * Z.of_nat 0) with rem by lia.
      destruct (dec_ac acD fuel rem X) as [[l r']|]; reflexivity.
    - cbn [zrls] in Hz. destruct (acE 240) as [a|] eqn:Ea; [|discriminate].
      destruct (zrls acE q) as [b|] eqn:Eb; [|discriminate]. inversion Hz; subst.
      cbn [Nat.add dec_ac]. destruct (rem <=? 0) eqn:E0; [apply Z.leb_le in E0; lia|].
      rewrite <- app_assoc. rewrite (Hac 240 a (b ++ X) Ea).
      change (240 mod 16) with 0. change (240 / 16) with 15. rewrite !Z.eqb_refl.
      destruct (rem <=? 16) eqn:E16; [apply Z.leb_le in E16; lia|].
      rewrite (IHq b fuel (rem - 16) X eq_refl) by lia.
      replace (rem - 16 - 16 * Z.of_nat q) with (rem - 16 * Z.of_nat (S q)) by lia.
      destruct (dec_ac acD fuel (rem - 16 * Z.of_nat (S q)) X) as [[l r']|]; [|reflexivity].
      f_equal. f_equal. rewrite app_assoc. f_equal.
      change (repeat 0 16) with (repeat 0 16%nat). rewrite repeat_add. f_equal. lia.
  Qed.

  Definition ac_ok (zs : list Z) : Prop := Forall (fun z => category z <= 15) zs.

  Lemma dec_enc_ac : forall zs run fuel bits rest,
    ac_ok zs -> 0 <= run ->
    enc_ac acE zs run = Some bits ->
    run + lenZ zs <= Z.of_nat fuel ->
    dec_ac acD fuel (run + lenZ zs) (bits ++ rest) = Some (repeat 0 (Z.to_nat run) ++ zs, rest).
  Proof.
    induction zs as [|z t IH]; intros run fuel bits rest Hok Hrun Henc Hfuel.
    - cbn [enc_ac] in Henc. unfold lenZ in *. cbn [length Z.of_nat] in *. rewrite Z.add_0_r in *.
      destruct (run >? 0) eqn:E.
      + apply Z.gtb_lt in E. destruct fuel; [lia|]. cbn [dec_ac].
        destruct (run <=? 0) eqn:E0; [apply Z.leb_le in E0; lia|].
        rewrite (Hac 0 bits rest Henc). cbn. rewrite app_nil_r. reflexivity.
      + assert (run = 0) by (destruct (Z.gtb_spec run 0); [discriminate|lia]). subst.
        inversion Henc; subst. cbn [app Z.to_nat repeat].
        destruct fuel; reflexivity.
    - inversion Hok as [|z' t' Hz Ht]; subst.
      cbn [enc_ac] in Henc. unfold lenZ in *. cbn [length] in *. rewrite Nat2Z.inj_succ in *.
      destruct (z =? 0) eqn:Ez.
      + apply Z.eqb_eq in Ez. subst.
        replace (run + Z.succ (Z.of_nat (length t))) with ((run + 1) + Z.of_nat (length t)) by lia.
        rewrite (IH (run + 1) fuel bits rest Ht) by (try assumption; lia).
        f_equal. f_equal. replace (Z.to_nat (run + 1)) with (S (Z.to_nat run)) by lia.
        rewrite <- repeat_snoc0, <- app_assoc. reflexivity.
      + apply Z.eqb_neq in Ez.
        destruct (zrls acE (Z.to_nat (run / 16))) as [zr|] eqn:Ezr; [|discriminate].
        destruct (acE (16 * (run mod 16) + category z)) as [b|] eqn:Eb; [|discriminate].
        destruct (enc_ac acE t 0) as [c|] eqn:Ec; [|discriminate].
        inversion Henc; subst. clear Henc.
        set (q := Z.to_nat (run / 16)) in *.
        assert (Hq : Z.of_nat q = run / 16) by (unfold q; rewrite Z2Nat.id; [reflexivity|apply Z.div_pos; lia]).
        assert (Hm : 0 <= run mod 16 < 16) by (apply Z.mod_pos_bound; lia).
        assert (Hr : run = 16 * (run / 16) + run mod 16) by (apply Z.div_mod; lia).
        assert (Hcat : 1 <= category z <= 15).
        { split; [|assumption]. pose proof (category_nonneg z).
          destruct (Z.eq_dec (category z) 0) as [E0|E0]; [apply category_zero in E0; contradiction|lia]. }
        assert (Hfq : (q + 1 <= fuel)%nat) by lia.
        replace fuel with (q + (fuel - q))%nat by lia.
        rewrite <- !app_assoc.
        rewrite (dec_ac_zrls q zr (fuel - q) _ _ Ezr) by lia.
        remember (fuel - q)%nat as f1. destruct f1 as [|f1]; [lia|].
        cbn [dec_ac].
        destruct (run + Z.succ (Z.of_nat (length t)) - 16 * Z.of_nat q <=? 0) eqn:E0; [apply Z.leb_le in E0; lia|].
        rewrite (Hac _ b _ Eb).
        replace ((16 * (run mod 16) + category z) mod 16) with (category z) by lia.
        replace ((16 * (run mod 16) + category z) / 16) with (run mod 16) by lia.
        destruct (category z =? 0) eqn:Ecz; [apply Z.eqb_eq in Ecz; lia|].
        destruct (run + Z.succ (Z.of_nat (length t)) - 16 * Z.of_nat q <=? run mod 16) eqn:E1; [apply Z.leb_le in E1; lia|].
        rewrite recv_ext_extra.
        replace (run + Z.succ (Z.of_nat (length t)) - 16 * Z.of_nat q - run mod 16 - 1) with (0 + Z.of_nat (length t)) by lia.
        rewrite (IH 0 f1 c rest Ht) by (try assumption; lia).
        cbn [Z.to_nat repeat app]. f_equal. f_equal.
        rewrite app_assoc. f_equal. rewrite repeat_add. f_equal. lia.
  Qed.

  Definition block_ok (zz : list Z) : Prop := length zz = 64%nat /\ ac_ok (tl zz).

  Lemma dec_enc_block : forall pred zz bits rest, block_ok zz ->
    enc_block dcE acE pred zz = Some bits ->
    dec_block dcD acD pred (bits ++ rest) = Some (zz, rest).
  Proof.
    intros pred zz bits rest [Hlen Hac'] Henc. destruct zz as [|dc acs]; [discriminate|].
    cbn [tl] in Hac'. cbn [length] in Hlen. unfold enc_block in Henc.
    destruct (dcE (category (dc - pred))) as [a|] eqn:Ea; [|discriminate].
    destruct (enc_ac acE acs 0) as [b|] eqn:Eb; [|discriminate]. inversion Henc; subst.
    unfold dec_block. rewrite <- !app_assoc. rewrite (Hdc _ a _ Ea). rewrite recv_ext_extra.
    replace 63 with (0 + lenZ acs) by (unfold lenZ; lia).
    rewrite (dec_enc_ac acs 0 64 b rest Hac') by (try assumption; unfold lenZ; lia).
    cbn [Z.to_nat repeat app]. f_equal. f_equal. f_equal. lia.
  Qed.
End Block.

(* ------------------------------------------------- sequences of blocks (one interval) *)
Definition coders_ok (cs : coders) : Prop :=
  forall j, coder_ok (hc_enc (fst (coder_at cs j))) (hc_dec (fst (coder_at cs j))) /\
            coder_ok (hc_enc (snd (coder_at cs j))) (hc_dec (snd (coder_at cs j))).

Lemma dec_enc_blocks : forall cs blocks preds bits rest, coders_ok cs ->
  Forall (fun b => block_ok (snd b)) blocks ->
  enc_blocks cs preds blocks = Some bits ->
  dec_blocks cs preds (map fst blocks) (bits ++ rest) = Some (blocks, rest).
Proof.
  intros cs blocks. induction blocks as [|[j zz] t IH]; intros preds bits rest Hcs Hok Henc.
  - cbn in Henc. inversion Henc. reflexivity.
  - inversion Hok as [|x l Hb Ht]; subst. cbn [snd] in Hb.
    cbn [enc_blocks] in Henc. cbn [map fst dec_blocks].
    destruct (Hcs j) as [Hd Ha]. destruct (coder_at cs j) as [dc ac] eqn:Ecj. cbn [fst snd] in *.
    destruct (enc_block (hc_enc dc) (hc_enc ac) (nth j preds 0) zz) as [a|] eqn:Ea; [|discriminate].
    destruct (enc_blocks cs (set_nth j (hd 0 zz) preds) t) as [b|] eqn:Eb; [|discriminate].
    inversion Henc; subst. rewrite <- app_assoc.
    rewrite (dec_enc_block _ _ _ _ Hd Ha _ _ _ _ Hb Ea).
    rewrite (IH _ _ _ Hcs Ht Eb). reflexivity.
Qed.
