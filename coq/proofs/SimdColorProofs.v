(* C05 -- colour conversion: constant agreement and per-pixel equality of the
   SIMD dataflow with the C table code. *)
From Coq Require Import List ZArith Lia Bool ZifyBool.
From LJT Require Import lib.Sweep lib.Words gen.GenSimdConst model.SimdColor.
Import ListNotations.
Local Open Scope Z_scope.
Ltac Zify.zify_post_hook ::= Z.div_mod_to_equations.

(* ------------------------------------------------- FIX() literals are what C computes *)
(* FIX(x) = floor(x * 2^bits + 1/2) in exact rational arithmetic; the translator computed
   the value with the double arithmetic of the C macro: both agree *)
Definition fix_exact (num den bits : Z) : Z := (2 * num * 2 ^ bits + den) / (2 * den).
Definition fix_ok (e : Z * Z * Z * Z) : bool :=
  let '(num, den, bits, v) := e in fix_exact num den bits =? v.
Lemma c_fix_literals_exact : forallb fix_ok c_fix_literals = true.
Proof. vm_compute. reflexivity. Qed.

(* ------------------------------------------------- rgb -> ycc constants *)
Definition cc_consts_agree (K : cc_consts) (full : bool) : Prop :=
  k_bits K = c_jccolor_SCALEBITS /\
  s16 (k_F0299 K) = fst c_jccolor_R_Y /\
  s16 (k_F0337 K) + s16 (k_F0250 K) = fst c_jccolor_G_Y /\      (* F_0_337 + F_0_250 = FIX(0.58700) *)
  s16 (k_F0114 K) = fst c_jccolor_B_Y /\
  k_HALF K = snd c_jccolor_B_Y /\ snd c_jccolor_R_Y = 0 /\ snd c_jccolor_G_Y = 0 /\
  (full = true ->
   s16 (k_MF016 K) = fst c_jccolor_R_CB /\ s16 (k_MF033 K) = fst c_jccolor_G_CB /\
   2 ^ (k_bits K - 1) = fst c_jccolor_B_CB /\ k_HALFM1_CJ K = snd c_jccolor_B_CB /\
   2 ^ (k_bits K - 1) = fst c_jccolor_R_CR /\ k_HALFM1_CJ K = snd c_jccolor_R_CR /\
   s16 (k_MF041 K) = fst c_jccolor_G_CR /\ s16 (k_MF008 K) = fst c_jccolor_B_CR /\
   snd c_jccolor_R_CB = 0 /\ snd c_jccolor_G_CB = 0 /\ snd c_jccolor_G_CR = 0 /\ snd c_jccolor_B_CR = 0).

Ltac agree := unfold cc_consts_agree; vm_compute; repeat split; try reflexivity; intros; try discriminate.
Lemma jccolor_sse2_agree : cc_consts_agree jccolor_sse2_consts true. Proof. agree. Qed.
Lemma jccolor_avx2_agree : cc_consts_agree jccolor_avx2_consts true. Proof. agree. Qed.
Lemma jcgray_sse2_agree : cc_consts_agree jcgray_sse2_consts false. Proof. agree. Qed.
Lemma jcgray_avx2_agree : cc_consts_agree jcgray_avx2_consts false. Proof. agree. Qed.

(* the F_* equ constants themselves against the C FIX() values *)
Lemma jccolor_equ_agree :
  jccolor_sse2_F_0_299 = fst c_jccolor_R_Y /\ jccolor_avx2_F_0_299 = fst c_jccolor_R_Y /\
  jccolor_sse2_F_0_587 = fst c_jccolor_G_Y /\ jccolor_avx2_F_0_587 = fst c_jccolor_G_Y /\
  jccolor_sse2_F_0_114 = fst c_jccolor_B_Y /\ jccolor_avx2_F_0_114 = fst c_jccolor_B_Y /\
  - jccolor_sse2_F_0_168 = fst c_jccolor_R_CB /\ - jccolor_avx2_F_0_168 = fst c_jccolor_R_CB /\
  - jccolor_sse2_F_0_331 = fst c_jccolor_G_CB /\ - jccolor_avx2_F_0_331 = fst c_jccolor_G_CB /\
  - jccolor_sse2_F_0_418 = fst c_jccolor_G_CR /\ - jccolor_avx2_F_0_418 = fst c_jccolor_G_CR /\
  - jccolor_sse2_F_0_081 = fst c_jccolor_B_CR /\ - jccolor_avx2_F_0_081 = fst c_jccolor_B_CR /\
  jccolor_sse2_F_0_337 + jccolor_sse2_F_0_250 = jccolor_sse2_F_0_587 /\
  jccolor_avx2_F_0_337 + jccolor_avx2_F_0_250 = jccolor_avx2_F_0_587 /\
  jcgray_sse2_F_0_299 = fst c_jccolor_R_Y /\ jcgray_avx2_F_0_299 = fst c_jccolor_R_Y /\
  jcgray_sse2_F_0_587 = fst c_jccolor_G_Y /\ jcgray_avx2_F_0_587 = fst c_jccolor_G_Y /\
  jcgray_sse2_F_0_114 = fst c_jccolor_B_Y /\ jcgray_avx2_F_0_114 = fst c_jccolor_B_Y /\
  jcgray_sse2_F_0_337 + jcgray_sse2_F_0_250 = jcgray_sse2_F_0_587 /\
  jcgray_avx2_F_0_337 + jcgray_avx2_F_0_250 = jcgray_avx2_F_0_587.
Proof. vm_compute. repeat split; reflexivity. Qed.

(* ------------------------------------------------- rgb -> ycc, algebraic *)
Lemma shiftr_div x n : 0 <= n -> Z.shiftr x n = x / 2 ^ n.
Proof. intros. apply Z.shiftr_div_pow2. lia. Qed.

(* a pmaddwd of two bytes with two 16-bit constants *)
Lemma pmaddwd_bytes a b c0 c1 : 0 <= a <= 255 -> 0 <= b <= 255 ->
  pmaddwd a b c0 c1 = w32 (a * s16 c0 + b * s16 c1).
Proof. intros. unfold pmaddwd. rewrite (s16_small a), (s16_small b) by lia. reflexivity. Qed.
Lemma paddd_w32 x y : paddd (w32 x) (w32 y) = w32 (x + y).
Proof. unfold paddd, w32. rewrite <- Z.add_mod by lia. reflexivity. Qed.
Lemma paddd_w32_l x y : paddd (w32 x) y = w32 (x + y).
Proof. unfold paddd, w32. rewrite Zplus_mod_idemp_l. reflexivity. Qed.
Lemma half_hi b : 0 <= b -> psrld (dword_hi b) 1 = b * 32768.
Proof. intros. unfold psrld, dword_hi. change (2 ^ 1) with 2. replace (b * 65536) with ((b * 32768) * 2) by lia. apply Z.div_mul. lia. Qed.

(* a non-negative sum below 2^24: psrld 16 of its dword is the C shift, packssdw and the
   byte store keep it *)
Lemma lane_sum X : 0 <= X < 16777216 -> lo8 (packssdw (psrld (w32 X) 16)) = w8 (X / 65536).
Proof.
  intros H. rewrite w32_small by lia. unfold psrld. change (2 ^ 16) with 65536.
  assert (0 <= X / 65536 <= 255) by (split; [apply Z.div_pos; lia | apply Z.lt_succ_r; apply Z.div_lt_upper_bound; lia]).
  unfold packssdw, lo8, w8. rewrite s32_small by lia.
  destruct (X / 65536 <? -32768) eqn:?; [lia|]. destruct (32767 <? X / 65536) eqn:?; [lia|].
  rewrite w16_small by lia. reflexivity.
Qed.

Lemma c_sums_range r g b : 0 <= r <= 255 -> 0 <= g <= 255 -> 0 <= b <= 255 ->
  0 <= c_tab c_jccolor_R_Y r + c_tab c_jccolor_G_Y g + c_tab c_jccolor_B_Y b < 16777216 /\
  0 <= c_tab c_jccolor_R_CB r + c_tab c_jccolor_G_CB g + c_tab c_jccolor_B_CB b < 16777216 /\
  0 <= c_tab c_jccolor_R_CR r + c_tab c_jccolor_G_CR g + c_tab c_jccolor_B_CR b < 16777216.
Proof.
  intros. unfold c_tab, c_jccolor_R_Y, c_jccolor_G_Y, c_jccolor_B_Y, c_jccolor_R_CB, c_jccolor_G_CB, c_jccolor_B_CB,
    c_jccolor_R_CR, c_jccolor_G_CR, c_jccolor_B_CR. cbn [fst snd]. lia.
Qed.

Lemma asm_rgb_y_eq K full r g b : cc_consts_agree K full ->
  0 <= r <= 255 -> 0 <= g <= 255 -> 0 <= b <= 255 -> asm_rgb_y K r g b = c_rgb_y r g b.
Proof.
  intros (Hb & H1 & H2 & H3 & H4 & H5 & H6 & _) Hr Hg Hbb.
  unfold asm_rgb_y, c_rgb_y, c_rgb_sum.
  rewrite !pmaddwd_bytes by lia. rewrite paddd_w32, paddd_w32_l.
  rewrite Hb. replace c_jccolor_SCALEBITS with 16 by reflexivity.
  rewrite shiftr_div by lia. change (2 ^ 16) with 65536.
  replace (b * s16 (k_F0114 K) + g * s16 (k_F0250 K) + (r * s16 (k_F0299 K) + g * s16 (k_F0337 K)) + k_HALF K)
    with (c_tab c_jccolor_R_Y r + c_tab c_jccolor_G_Y g + c_tab c_jccolor_B_Y b).
  - apply lane_sum. apply c_sums_range; assumption.
  - unfold c_tab. rewrite H5, H6, <- H1, <- H2, <- H3, <- H4. lia.
Qed.

Lemma asm_rgb_cb_eq K r g b : cc_consts_agree K true ->
  0 <= r <= 255 -> 0 <= g <= 255 -> 0 <= b <= 255 -> asm_rgb_cb K r g b = c_rgb_cb r g b.
Proof.
  intros (Hb & _ & _ & _ & _ & _ & _ & Hf) Hr Hg Hbb.
  destruct (Hf eq_refl) as (A1 & A2 & A3 & A4 & _ & _ & _ & _ & Z1 & Z2 & _ & _).
  unfold asm_rgb_cb, c_rgb_cb, c_rgb_sum.
  rewrite pmaddwd_bytes by lia. rewrite half_hi by lia. rewrite !paddd_w32_l.
  rewrite Hb in *. replace c_jccolor_SCALEBITS with 16 in * by reflexivity.
  rewrite shiftr_div by lia. change (2 ^ 16) with 65536. change (2 ^ (16 - 1)) with 32768 in A3.
  replace (r * s16 (k_MF016 K) + g * s16 (k_MF033 K) + b * 32768 + k_HALFM1_CJ K)
    with (c_tab c_jccolor_R_CB r + c_tab c_jccolor_G_CB g + c_tab c_jccolor_B_CB b).
  - apply lane_sum. apply c_sums_range; assumption.
  - unfold c_tab. rewrite Z1, Z2, <- A1, <- A2, <- A3, <- A4. lia.
Qed.

Lemma asm_rgb_cr_eq K r g b : cc_consts_agree K true ->
  0 <= r <= 255 -> 0 <= g <= 255 -> 0 <= b <= 255 -> asm_rgb_cr K r g b = c_rgb_cr r g b.
Proof.
  intros (Hb & _ & _ & _ & _ & _ & _ & Hf) Hr Hg Hbb.
  destruct (Hf eq_refl) as (_ & _ & _ & _ & A3 & A4 & A1 & A2 & _ & _ & Z1 & Z2).
  unfold asm_rgb_cr, c_rgb_cr, c_rgb_sum.
  rewrite pmaddwd_bytes by lia. rewrite half_hi by lia. rewrite !paddd_w32_l.
  rewrite Hb in *. replace c_jccolor_SCALEBITS with 16 in * by reflexivity.
  rewrite shiftr_div by lia. change (2 ^ 16) with 65536. change (2 ^ (16 - 1)) with 32768 in A3.
  replace (b * s16 (k_MF008 K) + g * s16 (k_MF041 K) + r * 32768 + k_HALFM1_CJ K)
    with (c_tab c_jccolor_R_CR r + c_tab c_jccolor_G_CR g + c_tab c_jccolor_B_CR b).
  - apply lane_sum. apply c_sums_range; assumption.
  - unfold c_tab. rewrite Z1, Z2, <- A1, <- A2, <- A3, <- A4. lia.
Qed.

Definition is_byte (x : Z) : Prop := 0 <= x <= 255.

Theorem simd_rgb_ycc_eq_all r g b : is_byte r -> is_byte g -> is_byte b ->
  asm_rgb_ycc jccolor_sse2_consts r g b = c_rgb_ycc r g b /\
  asm_rgb_ycc jccolor_avx2_consts r g b = c_rgb_ycc r g b /\
  asm_rgb_y jcgray_sse2_consts r g b = c_rgb_y r g b /\
  asm_rgb_y jcgray_avx2_consts r g b = c_rgb_y r g b.
Proof.
  unfold is_byte, asm_rgb_ycc, c_rgb_ycc. intros.
  rewrite !(asm_rgb_y_eq _ _ r g b jccolor_sse2_agree), !(asm_rgb_cb_eq _ r g b jccolor_sse2_agree),
    !(asm_rgb_cr_eq _ r g b jccolor_sse2_agree) by assumption.
  rewrite !(asm_rgb_y_eq _ _ r g b jccolor_avx2_agree), !(asm_rgb_cb_eq _ r g b jccolor_avx2_agree),
    !(asm_rgb_cr_eq _ r g b jccolor_avx2_agree) by assumption.
  rewrite (asm_rgb_y_eq _ _ r g b jcgray_sse2_agree), (asm_rgb_y_eq _ _ r g b jcgray_avx2_agree) by assumption.
  repeat split; reflexivity.
Qed.

(* the C result is what the JPEG equations say: Y = floor((19595 r + 38470 g + 7471 b + 32768) / 65536) ... *)
Example rgb_ycc_nonvacuous :
  asm_rgb_ycc jccolor_sse2_consts 255 0 0 = (76, 85, 255) /\ c_rgb_ycc 255 0 0 = (76, 85, 255) /\
  asm_rgb_ycc jccolor_avx2_consts 12 200 77 = c_rgb_ycc 12 200 77 /\ c_rgb_ycc 12 200 77 = (130, 98, 44).
Proof. vm_compute. repeat split; reflexivity. Qed.

(* ------------------------------------------------- ycc -> rgb *)
Definition dc_consts_agree (D : dc_consts) (T : ycc_tabs) : Prop :=
  d_bits D = t_bits T /\
  d_F_1_402 D = fst (t_Cr_r T) /\ d_F_1_772 D = fst (t_Cb_b T) /\
  - d_F_0_714 D = fst (t_Cr_g T) /\ - d_F_0_344 D = fst (t_Cb_g T) /\
  d_HALF D = snd (t_Cr_r T) /\ d_HALF D = snd (t_Cb_b T) /\ d_HALF D = snd (t_Cb_g T) /\ snd (t_Cr_g T) = 0 /\
  (* the decompositions the kernels use *)
  d_F_0_402 D = d_F_1_402 D - 2 ^ d_bits D /\
  d_F_0_285 D = 2 ^ d_bits D - d_F_0_714 D /\
  d_F_0_228 D = 2 * 2 ^ d_bits D - d_F_1_772 D /\
  (* the rows hold them *)
  s16 (d_F0402 D) = d_F_0_402 D /\ s16 (d_MF0228 D) = - d_F_0_228 D /\
  s16 (d_MF0344 D) = - d_F_0_344 D /\ s16 (d_F0285 D) = d_F_0_285 D /\ d_ONE D = 1.
Ltac dagree := unfold dc_consts_agree; vm_compute; repeat split; reflexivity.
Lemma jdcolor_sse2_agree : dc_consts_agree jdcolor_sse2_consts c_jdcolor_tabs. Proof. dagree. Qed.
Lemma jdcolor_avx2_agree : dc_consts_agree jdcolor_avx2_consts c_jdcolor_tabs. Proof. dagree. Qed.
Lemma jdmerge_sse2_agree : dc_consts_agree jdmerge_sse2_consts c_jdmerge_tabs. Proof. dagree. Qed.
Lemma jdmerge_avx2_agree : dc_consts_agree jdmerge_avx2_consts c_jdmerge_tabs. Proof. dagree. Qed.

(* Y + (X-Y) then packuswb is range_limit[y + t] as long as t is a small signed number *)
Lemma pack_add_clamp t y : -1000 <= t <= 1000 -> 0 <= y <= 255 ->
  packuswb (paddw (w16 t) y) = range_limit (y + t).
Proof.
  intros Ht Hy. unfold paddw.
  replace (w16 (w16 t + y)) with (w16 (t + y)) by (unfold w16; rewrite Zplus_mod_idemp_l; reflexivity).
  rewrite packuswb_clamp by lia. unfold range_limit. replace (t + y) with (y + t) by lia. reflexivity.
Qed.

(* finite part: the chroma terms, swept over all 256 resp. 65536 chroma values *)
Definition small (t : Z) : bool := (-1000 <=? t) && (t <=? 1000).
Definition chk_r D T (cr : Z) : bool :=
  let t := c_shifted_tab T (t_Cr_r T) cr in (asm_r_y D cr =? w16 t) && small t.
Definition chk_b D T (cb : Z) : bool :=
  let t := c_shifted_tab T (t_Cb_b T) cb in (asm_b_y D cb =? w16 t) && small t.
Definition chk_all D T : bool := sweep (chk_r D T) 0 256 && sweep (chk_b D T) 0 256.

(* G-Y, algebraic: with x = cb-128, z = cr-128, a = -F_0_344, b = F_0_285 = 2^16 - F_0_714:
   ((a x + b z + h) >>a 16) - z  =  (a x + (b - 2^16) z + h) >>a 16 *)
Lemma w16_minus128 c : 0 <= c <= 255 -> paddw c minus128 = w16 (c - 128).
Proof.
  intros. unfold paddw, minus128, psllw. change (w16 (65535 * 2 ^ 7)) with 65408.
  unfold w16. replace (c + 65408) with (c - 128 + 1 * 65536) by lia. apply Z.mod_add. lia.
Qed.
Lemma g_generic a b h x z :
  -128 <= x <= 127 -> -128 <= z <= 127 -> -32768 <= a < 32768 -> -32768 <= b < 32768 -> 0 <= h < 65536 ->
  psubw (packssdw (psrad (paddd (pmaddwd (w16 x) (w16 z) (w16 a) (w16 b)) h) 16)) (w16 z) =
  w16 ((a * x + (b - 65536) * z + h) / 65536).
Proof.
  intros Hx Hz Ha Hb Hh. unfold pmaddwd. rewrite !s16_w16 by lia. rewrite paddd_w32_l.
  set (v := x * a + z * b + h).
  assert (Hv : -8500000 <= v <= 8500000) by (unfold v; nia).
  unfold psrad. rewrite s32_w32 by lia. change (2 ^ 16) with 65536.
  assert (Hq : -200 <= v / 65536 <= 200) by (split; [apply Z.div_le_lower_bound; lia | apply Z.lt_succ_r; apply Z.div_lt_upper_bound; lia]).
  unfold packssdw. rewrite s32_w32 by lia.
  destruct (v / 65536 <? -32768) eqn:?; [lia|]. destruct (32767 <? v / 65536) eqn:?; [lia|].
  unfold psubw.
  replace (w16 (w16 (v / 65536) - w16 z)) with (w16 (v / 65536 - z)).
  2:{ unfold w16. rewrite Zminus_mod_idemp_l, Zminus_mod_idemp_r. reflexivity. }
  f_equal.
  replace (a * x + (b - 65536) * z + h) with (v + (- z) * 65536) by (unfold v; lia).
  rewrite Z.div_add by lia. lia.
Qed.

Lemma asm_g_y_eq D T cb cr : dc_consts_agree D T -> t_bits T = 16 -> d_HALF D = 32768 ->
  -32768 <= - d_F_0_344 D -> 0 <= d_F_0_344 D -> d_F_0_714 D <= 98304 -> 32769 <= d_F_0_714 D ->
  0 <= d_MF0344 D < 65536 -> 0 <= d_F0285 D < 65536 ->
  0 <= cb <= 255 -> 0 <= cr <= 255 ->
  asm_g_y D cb cr = w16 (Z.shiftr (c_plain_tab (t_Cb_g T) cb + c_plain_tab (t_Cr_g T) cr) (t_bits T)).
Proof.
  intros (Hb & _ & _ & A714 & A344 & _ & _ & Hh & Z0 & _ & D285 & _ & _ & _ & R344 & R285 & _) HT HH B1 B2 B3 B4 W1 W2 Hcb Hcr.
  unfold asm_g_y. rewrite !w16_minus128 by lia. rewrite Hb, HT in *. change (2 ^ 16) with 65536 in *.
  replace (d_MF0344 D) with (w16 (- d_F_0_344 D)).
  2:{ rewrite <- R344. unfold s16, w16. rewrite Zminus_mod_idemp_l. replace (d_MF0344 D + 32768 - 32768) with (d_MF0344 D) by lia. apply Z.mod_small. lia. }
  replace (d_F0285 D) with (w16 (d_F_0_285 D)).
  2:{ rewrite <- R285. unfold s16, w16. rewrite Zminus_mod_idemp_l. replace (d_F0285 D + 32768 - 32768) with (d_F0285 D) by lia. apply Z.mod_small. lia. }
  rewrite HH. rewrite g_generic by lia.
  rewrite shiftr_div by lia. change (2 ^ 16) with 65536.
  f_equal. f_equal. unfold c_plain_tab, c_tab. rewrite <- A714, <- A344, <- Hh, Z0, HH, D285. lia.
Qed.

Definition g_side (D : dc_consts) (T : ycc_tabs) : bool :=
  (t_bits T =? 16) && (d_HALF D =? 32768) && (0 <=? d_F_0_344 D) && (d_F_0_344 D <=? 32768) &&
  (d_F_0_714 D <=? 98304) && (32769 <=? d_F_0_714 D) &&
  (0 <=? d_MF0344 D) && (d_MF0344 D <? 65536) && (0 <=? d_F0285 D) && (d_F0285 D <? 65536).

(* the G term is small: |(-22554 x - 46802 z + 32768) >> 16| <= 1000 follows from the byte ranges *)
Lemma g_small T cb cr : t_bits T = 16 -> -65536 <= fst (t_Cb_g T) <= 65536 -> -131072 <= fst (t_Cr_g T) <= 131072 ->
  -65536 <= snd (t_Cb_g T) <= 65536 -> snd (t_Cr_g T) = 0 -> 0 <= cb <= 255 -> 0 <= cr <= 255 ->
  -1000 <= Z.shiftr (c_plain_tab (t_Cb_g T) cb + c_plain_tab (t_Cr_g T) cr) (t_bits T) <= 1000.
Proof.
  intros HT A B C Dz Hcb Hcr. rewrite HT, shiftr_div by lia. change (2 ^ 16) with 65536.
  unfold c_plain_tab, c_tab. rewrite Dz.
  set (v := fst (t_Cb_g T) * (cb - 128) + snd (t_Cb_g T) + (fst (t_Cr_g T) * (cr - 128) + 0)).
  assert (-26000000 <= v <= 26000000) by (unfold v; nia).
  split; [apply Z.div_le_lower_bound; lia | apply Z.lt_succ_r; apply Z.div_lt_upper_bound; lia].
Qed.

Lemma chk_jdcolor_sse2 : chk_all jdcolor_sse2_consts c_jdcolor_tabs = true. Proof. vm_compute. reflexivity. Qed.
Lemma chk_jdcolor_avx2 : chk_all jdcolor_avx2_consts c_jdcolor_tabs = true. Proof. vm_compute. reflexivity. Qed.
Lemma chk_jdmerge_sse2 : chk_all jdmerge_sse2_consts c_jdmerge_tabs = true. Proof. vm_compute. reflexivity. Qed.
Lemma chk_jdmerge_avx2 : chk_all jdmerge_avx2_consts c_jdmerge_tabs = true. Proof. vm_compute. reflexivity. Qed.

Lemma small_spec t : small t = true -> -1000 <= t <= 1000.
Proof. unfold small. lia. Qed.

Lemma ycc_rgb_of_chk D T : chk_all D T = true -> dc_consts_agree D T -> g_side D T = true ->
  forall y cb cr, is_byte y -> is_byte cb -> is_byte cr -> asm_ycc_rgb D y cb cr = c_ycc_rgb T y cb cr.
Proof.
  unfold chk_all, is_byte. intros H Ag Gs y cb cr Hy Hcb Hcr.
  apply andb_prop in H. destruct H as [Hr Hb].
  pose proof (sweep_sound _ _ _ Hr cr ltac:(lia)) as R. cbv beta in R.
  pose proof (sweep_sound _ _ _ Hb cb ltac:(lia)) as B. cbv beta in B.
  unfold chk_r in R. unfold chk_b in B.
  apply andb_prop in R. destruct R as [R1 R2]. apply andb_prop in B. destruct B as [B1 B2].
  apply Z.eqb_eq in R1. apply Z.eqb_eq in B1.
  apply small_spec in R2. apply small_spec in B2.
  unfold g_side in Gs. repeat (apply andb_prop in Gs; destruct Gs as [Gs ?]).
  assert (G1 := asm_g_y_eq D T cb cr Ag ltac:(lia) ltac:(lia) ltac:(lia) ltac:(lia) ltac:(lia) ltac:(lia) ltac:(lia) ltac:(lia) Hcb Hcr).
  assert (G2 : -1000 <= Z.shiftr (c_plain_tab (t_Cb_g T) cb + c_plain_tab (t_Cr_g T) cr) (t_bits T) <= 1000).
  { destruct Ag as (_ & _ & _ & A714 & A344 & _ & _ & Hh & Z0 & _).
    apply g_small; try lia. }
  unfold asm_ycc_rgb, c_ycc_rgb, asm_ycc_r, asm_ycc_g, asm_ycc_b, c_ycc_r, c_ycc_g, c_ycc_b.
  rewrite R1, B1, G1. rewrite !pack_add_clamp by lia. reflexivity.
Qed.

Lemma gs_jdcolor_sse2 : g_side jdcolor_sse2_consts c_jdcolor_tabs = true. Proof. vm_compute. reflexivity. Qed.
Lemma gs_jdcolor_avx2 : g_side jdcolor_avx2_consts c_jdcolor_tabs = true. Proof. vm_compute. reflexivity. Qed.
Lemma gs_jdmerge_sse2 : g_side jdmerge_sse2_consts c_jdmerge_tabs = true. Proof. vm_compute. reflexivity. Qed.
Lemma gs_jdmerge_avx2 : g_side jdmerge_avx2_consts c_jdmerge_tabs = true. Proof. vm_compute. reflexivity. Qed.

Theorem simd_ycc_rgb_eq_all y cb cr : is_byte y -> is_byte cb -> is_byte cr ->
  asm_ycc_rgb jdcolor_sse2_consts y cb cr = c_ycc_rgb c_jdcolor_tabs y cb cr /\
  asm_ycc_rgb jdcolor_avx2_consts y cb cr = c_ycc_rgb c_jdcolor_tabs y cb cr /\
  asm_ycc_rgb jdmerge_sse2_consts y cb cr = c_ycc_rgb c_jdmerge_tabs y cb cr /\
  asm_ycc_rgb jdmerge_avx2_consts y cb cr = c_ycc_rgb c_jdmerge_tabs y cb cr.
Proof.
  intros. repeat split.
  - apply (ycc_rgb_of_chk _ _ chk_jdcolor_sse2 jdcolor_sse2_agree gs_jdcolor_sse2); assumption.
  - apply (ycc_rgb_of_chk _ _ chk_jdcolor_avx2 jdcolor_avx2_agree gs_jdcolor_avx2); assumption.
  - apply (ycc_rgb_of_chk _ _ chk_jdmerge_sse2 jdmerge_sse2_agree gs_jdmerge_sse2); assumption.
  - apply (ycc_rgb_of_chk _ _ chk_jdmerge_avx2 jdmerge_avx2_agree gs_jdmerge_avx2); assumption.
Qed.

Theorem simd_merged_eq_all y0 y1 cb cr : is_byte y0 -> is_byte y1 -> is_byte cb -> is_byte cr ->
  asm_merged_pair jdmerge_sse2_consts y0 y1 cb cr = c_merged_pair c_jdmerge_tabs y0 y1 cb cr /\
  asm_merged_pair jdmerge_avx2_consts y0 y1 cb cr = c_merged_pair c_jdmerge_tabs y0 y1 cb cr.
Proof.
  intros. unfold asm_merged_pair, c_merged_pair.
  destruct (simd_ycc_rgb_eq_all y0 cb cr) as (_ & _ & A & B); try assumption.
  destruct (simd_ycc_rgb_eq_all y1 cb cr) as (_ & _ & A' & B'); try assumption.
  rewrite A, B, A', B'. split; reflexivity.
Qed.

Example ycc_rgb_nonvacuous :
  (* saturation both ways and an interior point *)
  asm_ycc_rgb jdcolor_sse2_consts 255 255 255 = (255, 121, 255) /\
  c_ycc_rgb c_jdcolor_tabs 255 255 255 = (255, 121, 255) /\
  asm_ycc_rgb jdcolor_avx2_consts 0 0 0 = (0, 135, 0) /\
  c_ycc_rgb c_jdcolor_tabs 0 0 0 = (0, 135, 0) /\
  c_ycc_rgb c_jdmerge_tabs 100 90 200 = (201, 62, 33) /\
  asm_ycc_rgb jdmerge_avx2_consts 100 90 200 = (201, 62, 33).
Proof. vm_compute. repeat split; reflexivity. Qed.
