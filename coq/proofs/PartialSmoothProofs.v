(* C08 -- block smoothing under a crop: the DC window of a block of the region equals the window of the
   full decode except in the first two block columns of a region whose left edge is inside the image. *)
From Coq Require Import List ZArith Lia Bool.
From LJT Require Import model.PartialSmooth gen.GenScaling.
Import ListNotations.
Local Open Scope Z_scope.

Lemma smooth_window_same wib first last b :
  0 <= first -> first <= b <= last -> last < wib -> (first = 0 \/ first + 2 <= b) ->
  smooth_cols first (lbc_of gen_smooth_lbc_is_width wib last) b = full_cols wib b.
Proof.
  intros H0 Hb Hl Hf. unfold full_cols, smooth_cols. change gen_smooth_lbc_is_width with true. cbn [lbc_of].
  assert (A : Z.max (b - 2) first = Z.max (b - 2) 0) by lia.
  assert (B : Z.max (b - 1) first = Z.max (b - 1) 0) by lia.
  rewrite A, B. reflexivity.
Qed.

(* the columns read always exist in the coefficient arrays and never lie left of the decoded window *)
Lemma smooth_window_range wib first last b c :
  0 <= first -> first <= b <= last -> last < wib ->
  In c (smooth_cols first (lbc_of gen_smooth_lbc_is_width wib last) b) -> first <= c <= wib - 1.
Proof.
  intros H0 Hb Hl. change gen_smooth_lbc_is_width with true. cbn [lbc_of smooth_cols In].
  intros [<- | [<- | [<- | [<- | [<- | []]]]]]; lia.
Qed.

(* left edge inside the image: the first two block columns of the region are smoothed with replicated
   neighbours, the full decode uses the real ones *)
Lemma smooth_left_edge_refuted :
  exists wib first last b, 0 < first /\ first <= b <= last /\ last < wib /\
    smooth_cols first (lbc_of gen_smooth_lbc_is_width wib last) b <> full_cols wib b.
Proof. exists 29, 8, 20, 8. repeat split; try lia. vm_compute. discriminate. Qed.

(* what a crop-dependent last_block_column would do (the shape of seeded change C08-2): the last two
   block columns of a region whose right edge is inside the image differ *)
Lemma smooth_right_edge_needs_width :
  exists wib last b, 0 <= b <= last /\ last < wib /\ smooth_cols 0 (lbc_of false wib last) b <> full_cols wib b.
Proof. exists 29, 14, 14. repeat split; try lia. vm_compute. discriminate. Qed.
