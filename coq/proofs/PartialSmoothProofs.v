(* C08 -- block smoothing under a crop: the DC window of a block of the region equals the window of the
   full decode except in the first two block columns of a region whose left edge is inside the image. *)
From Coq Require Import List ZArith Lia Bool.
From LJT Require Import model.PartialSmooth gen.GenScaling.
Import ListNotations.
Local Open Scope Z_scope.

Lemma smooth_window_same lr wib first last b :
  0 <= first -> first <= b <= last -> last < wib -> (first = 0 \/ first + 2 <= b \/ lr = true) ->
  smooth_cols (lo_of lr first) (lbc_of gen_smooth_lbc_is_width wib last) b = full_cols wib b.
Proof.
  intros H0 Hb Hl Hf. unfold full_cols, smooth_cols, lo_of. change gen_smooth_lbc_is_width with true. cbn [lbc_of].
  destruct lr; [reflexivity|].
  assert (A : Z.max (b - 2) first = Z.max (b - 2) 0) by (destruct Hf as [? | [? | ?]]; [lia | lia | discriminate]).
  assert (B : Z.max (b - 1) first = Z.max (b - 1) 0) by (destruct Hf as [? | [? | ?]]; [lia | lia | discriminate]).
  rewrite A, B. reflexivity.
Qed.

(* the columns read always exist in the coefficient arrays (whole-image virtual arrays) and, without the repair, never
   lie left of the decoded window *)
Lemma smooth_window_range lr wib first last b c :
  0 <= first -> first <= b <= last -> last < wib ->
  In c (smooth_cols (lo_of lr first) (lbc_of gen_smooth_lbc_is_width wib last) b) -> lo_of lr first <= c <= wib - 1.
Proof.
  intros H0 Hb Hl. change gen_smooth_lbc_is_width with true. unfold lo_of. cbn [lbc_of smooth_cols In].
  destruct lr; intros [<- | [<- | [<- | [<- | [<- | []]]]]]; lia.
Qed.

(* left edge inside the image: the first two block columns of the region are smoothed with replicated
   neighbours, the full decode uses the real ones *)
Lemma smooth_left_edge_refuted :
  exists wib first last b, 0 < first /\ first <= b <= last /\ last < wib /\
    smooth_cols first (lbc_of gen_smooth_lbc_is_width wib last) b <> full_cols wib b.
Proof. exists 29, 8, 20, 8. repeat split; try lia. vm_compute. discriminate. Qed.

(* what a crop-dependent last_block_column would do (the shape of seeded change C08-2): the last two
   block columns of a region whose right edge is inside the image differ *)
Lemma smooth_right_edge_needs_width :
  exists wib last b, 0 <= b <= last /\ last < wib /\ smooth_cols 0 (lbc_of false wib last) b <> full_cols wib b.
Proof. exists 29, 14, 14. repeat split; try lia. vm_compute. discriminate. Qed.

(* ---------- TurboJPEG destination rows ---------- *)
From LJT Require Import model.Partial.

Lemma zseq_snoc a n : zseq a (S n) = zseq a n ++ [a + Z.of_nat n].
Proof.
  revert a. induction n as [|n IH]; intros a.
  - cbn. f_equal. lia.
  - change (zseq a (S (S n))) with (a :: zseq (a + 1) (S n)). rewrite IH. cbn [zseq app]. do 3 f_equal. lia.
Qed.

Lemma map_sub_rev n : forall a c,
  map (fun i => c - i) (zseq a n) = rev (zseq (c - a - Z.of_nat n + 1) n).
Proof.
  induction n as [|n IH]; intros a c; [reflexivity|].
  rewrite zseq_snoc, map_app, IH. cbn [map].
  replace (c - a - Z.of_nat (S n) + 1) with (c - a - Z.of_nat n) by lia.
  change (zseq (c - a - Z.of_nat n) (S n)) with ((c - a - Z.of_nat n) :: zseq (c - a - Z.of_nat n + 1) n).
  cbn [rev]. do 2 f_equal. lia.
Qed.

(* bottom-up delivery is the reversal of top-down delivery inside the same h rows of the destination *)
Lemma tj_bottomup_is_reversal outh h :
  0 <= h ->
  map (tj_row_anchor true gen_tj_bottomup_anchor_cropped outh h) (zseq 0 (Z.to_nat h)) =
  rev (map (tj_row_anchor false gen_tj_bottomup_anchor_cropped outh h) (zseq 0 (Z.to_nat h))) /\
  (forall i, 0 <= i < h -> 0 <= tj_row_anchor true gen_tj_bottomup_anchor_cropped outh h i < h).
Proof.
  intros Hh. change gen_tj_bottomup_anchor_cropped with true. unfold tj_row_anchor. split.
  - rewrite map_id.
    rewrite (map_ext _ (fun i => (h - 1) - i)) by (intros; lia).
    rewrite map_sub_rev. do 2 f_equal. lia.
  - intros i Hi. lia.
Qed.

(* anchored at the scaled image height instead (shape of seeded change C08-6): a region shorter than the image
   is written outside its pitch * h extent *)
Lemma tj_bottomup_outh_refuted :
  exists outh h i, 0 <= i < h /\ h < outh /\ ~ (0 <= tj_row_anchor true false outh h i < h).
Proof. exists 120, 40, 0. unfold tj_row_anchor. lia. Qed.
