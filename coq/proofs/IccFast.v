(* IccFast.v -- read_icc_fast (closed-form second pass) computes exactly jpeg_read_icc_profile's
   model read_icc_with, for every marker list and every initial buffer content. *)
From Coq Require Import List ZArith Bool Lia Permutation.
From LJT Require Import lib.Sweep gen.GenIccConst model.MarkerRT model.Icc proofs.C16Consts proofs.IccProofs proofs.IccRoundTrip.
Import ListNotations.
Local Open Scope Z_scope.

Lemma numbered_pick ms n : NoDup (map icc_seq (filter marker_is_icc ms)) ->
  forall srt k, numbered n k srt -> (forall m, In m srt -> In m (filter marker_is_icc ms)) ->
  map icc_payload srt = map (icc_pick ms) (zrange k (length srt)).
Proof.
  intros ND. induction srt as [|m r IH]; intros k Hnum Hin; [reflexivity|].
  cbn [numbered] in Hnum. destruct Hnum as (Hi & Hs & _ & Hr). cbn [map length zrange]. f_equal.
  - unfold icc_pick. pose proof (Hin m (or_introl eq_refl)) as Hm. apply filter_In in Hm as (Hm1 & _).
    destruct (find (fun x => marker_is_icc x && (icc_seq x =? k)) ms) as [x|] eqn:Fd.
    + apply find_some in Fd as (Fx & Fc). apply andb_true_iff in Fc as (Fc1 & Fc2). apply Z.eqb_eq in Fc2.
      assert (x = m); [|subst; reflexivity].
      eapply (NoDup_map_inj icc_seq); [exact ND | apply filter_In; split; assumption | apply Hin; left; reflexivity | congruence].
    + exfalso. pose proof (find_none _ _ Fd m Hm1) as C. cbn beta in C. rewrite Hi, Hs, Z.eqb_refl in C. discriminate.
  - apply IH; [assumption|]. intros x Hx. apply Hin. right. assumption.
Qed.

Theorem read_icc_fast_correct junk ms : read_icc_with junk ms = read_icc_fast ms.
Proof.
  unfold read_icc_fast.
  destruct (pass1 ms 0 (fun _ => None)) as [[num tbl]|] eqn:P1.
  2:{ unfold read_icc_with. rewrite P1. reflexivity. }
  destruct (num =? 0) eqn:N0.
  { unfold read_icc_with. rewrite P1, N0. reflexivity. }
  destruct (icc_offsets (zrange 1 (Z.to_nat num)) tbl 0 (fun _ => 0)) as [[total offs]|] eqn:O.
  2:{ unfold read_icc_with. rewrite P1, N0, O. reflexivity. }
  destruct (total =? 0) eqn:T0.
  { unfold read_icc_with. rewrite P1, N0, O, T0. reflexivity. }
  assert (R : read_icc_with junk ms = IccOk (pass2 ms tbl offs (repeat junk (Z.to_nat total)))).
  { unfold read_icc_with. rewrite P1, N0, O, T0. reflexivity. }
  rewrite R. f_equal.
  (* structure of the ICC markers, with the count num of the first pass *)
  set (icc := filter marker_is_icc ms).
  rewrite pass1_filter in P1. fold icc in P1.
  destruct (pass1_sound icc (filter_all_icc ms) _ _ _ _ P1) as (_ & _ & C & D & F).
  apply Z.eqb_neq in N0.
  assert (Hn : 1 <= num).
  { destruct icc as [|m r] eqn:E; [cbn in P1; inversion P1; congruence|].
    pose proof (Forall_inv C) as (_ & Q & _). lia. }
  assert (HF : Forall (fun m => icc_count m = num /\ 1 <= icc_seq m <= num) icc).
  { eapply Forall_impl; [|exact C]. intros a (P & Q & _). split; assumption. }
  assert (Hall : forall k, 1 <= k <= num -> In k (map icc_seq icc)).
  { intros k Hk. pose proof (icc_offsets_missing _ _ _ _ _ O k) as M.
    specialize (M ltac:(apply zrange_In_iff; lia)). rewrite F in M.
    unfold lookup in M. destruct (find (fun m => icc_seq m =? k) icc) eqn:Fd; [|congruence].
    apply find_some in Fd as (Fin & Feq). apply Z.eqb_eq in Feq. rewrite <- Feq. apply in_map. assumption. }
  destruct (sort_exists icc num Hn (filter_all_icc ms) HF D Hall) as (srt & HP & Hwn).
  pose proof (read_icc_ok_inv _ _ _ R) as (_ & _ & _ & _ & _ & Hne).
  assert (Ec : concat (map icc_payload srt) <> []).
  { intros E. (* total would be 0 *)
    assert (Htbl : forall m, In m srt -> tbl (icc_seq m) = Some (icc_plen m)).
    { intros m Hm. rewrite F, lookup_in; [reflexivity | assumption |].
      eapply Permutation_in; [apply Permutation_sym; exact HP | assumption]. }
    assert (Hr : zrange 1 (Z.to_nat num) = map icc_seq srt).
    { rewrite (numbered_seqs _ _ _ (proj1 Hwn)). f_equal. destruct Hwn as (_ & L). lia. }
    rewrite Hr, (offsets_ok tbl srt Htbl) in O. inversion O as [[Ht Ho]].
    assert (Hi : forall m, In m srt -> marker_is_icc m = true).
    { intros m Hm. pose proof (numbered_Forall _ _ _ (proj1 Hwn)) as NF. rewrite Forall_forall in NF. apply (NF m Hm). }
    rewrite (sum_plen_payload srt Hi), E in Ht. cbn in Ht. apply Z.eqb_neq in T0. lia. }
  pose proof (read_icc_closed junk ms srt num HP Hwn Ec) as Cl. rewrite R in Cl. injection Cl as Cl. rewrite Cl.
  f_equal. replace (Z.to_nat num) with (length srt) by (destruct Hwn as (_ & L); lia).
  apply (numbered_pick ms num D srt 1 (proj1 Hwn)).
  intros m Hm. eapply Permutation_in; [apply Permutation_sym; exact HP | assumption].
Qed.
